import Enc.Model.Proto
import Enc.Spec.Protobuf
/-!
# proto: defined ("named") Go types are transparent — definitions and the model side

`type Celsius float64`, `type Hash [32]byte`, `type Inner struct{…}`, `type Ints []int32`, `type Labels map[string]string`:
the codec (`codecOf`, `structCodecOf`) looks at `reflect.Kind` only, and so does the reference mapping of Go types to
message types.  In the `Ty` universe such a type is `.named n t`.

  * `erase / eraseFields`    the same type with every `.named n _` wrapper removed (not below array types)
  * `nameSafe`               side condition: no wrapper is called "RawMessage" (that NAME stands for the one type with
                             Message methods of the corpus), and no `[]T` hides `T = uint8` behind a name (Go takes `[]MyByte`
                             for a byte string, the model has no opinion there)
  * `codecOf_erase`, `fieldsOf_erase`, `zeroOf_erase`   `structCodecOf` builds the same codec tree, zero values coincide
  * `marshal_erase`, `marshalSize_erase`, `unmarshal_erase`, `unmarshalU_erase`
-/
set_option linter.unusedSimpArgs false
set_option linter.unusedVariables false
namespace Enc.Lemmas.ProtoNamed
open Enc Enc.Model.Proto

def isU8 : Ty → Bool
  | .int .u8 => true
  | _ => false

mutual
/-- remove the `.named` wrappers (every level, except below arrays, which are leaves of the proto universe) -/
def erase : Ty → Ty
  | .named _ t => erase t
  | .ptr t => .ptr (erase t)
  | .slice t => .slice (erase t)
  | .map k v => .map (erase k) (erase v)
  | .struct fs => .struct (eraseFields fs)
  | .bool => .bool
  | .int k => .int k
  | .f32 => .f32
  | .f64 => .f64
  | .str => .str
  | .bytes => .bytes
  | .any => .any
  | .arr n t => .arr n t
def eraseFields : Fields → Fields
  | .nil => .nil
  | .cons n tag emb t rest => .cons n tag emb (erase t) (eraseFields rest)
end

mutual
def nameSafe : Ty → Bool
  | .named n t => n != "RawMessage" && nameSafe t
  | .ptr t => nameSafe t
  | .slice t => (isU8 t || !isU8 (erase t)) && nameSafe t
  | .map k v => nameSafe k && nameSafe v
  | .struct fs => nameSafeFields fs
  | _ => true
def nameSafeFields : Fields → Bool
  | .nil => true
  | .cons _ _ _ t rest => nameSafe t && nameSafeFields rest
end

/-- not a pointer and not a defined type at the head -/
def headBase : Ty → Bool
  | .ptr _ => false
  | .named _ _ => false
  | _ => true

theorem isU8_eq (t : Ty) (h : isU8 t = true) : t = .int .u8 := by
  cases t <;> simp [isU8] at h ⊢
  rename_i k; cases k <;> simp [isU8] at h ⊢

theorem isU8_false (t : Ty) (h : isU8 t = false) : t ≠ .int .u8 := by
  intro e; subst e; simp [isU8] at h

/-! ## `baseTy`, `wrapPtrs`, `isStructBase` -/

theorem baseTy_erase : ∀ t : Ty, baseTy (erase t) = erase (baseTy t)
  | .named n t => by simp only [erase, baseTy]; exact baseTy_erase t
  | .ptr t => by simp only [erase, baseTy]; exact baseTy_erase t
  | .slice t => by simp [erase, baseTy]
  | .map k v => by simp [erase, baseTy]
  | .struct fs => by simp [erase, baseTy]
  | .bool => rfl | .int k => rfl | .f32 => rfl | .f64 => rfl | .str => rfl | .bytes => rfl | .any => rfl
  | .arr n t => rfl

theorem baseTy_head : ∀ t : Ty, headBase (baseTy t) = true
  | .named n t => by simp only [baseTy]; exact baseTy_head t
  | .ptr t => by simp only [baseTy]; exact baseTy_head t
  | .slice t => rfl
  | .map k v => rfl
  | .struct fs => rfl
  | .bool => rfl | .int k => rfl | .f32 => rfl | .f64 => rfl | .str => rfl | .bytes => rfl | .any => rfl
  | .arr n t => rfl

theorem wrapPtrs_erase (c : Codec) : ∀ t : Ty, wrapPtrs (erase t) c = wrapPtrs t c
  | .named n t => by simp only [erase, wrapPtrs]; exact wrapPtrs_erase c t
  | .ptr t => by simp only [erase, wrapPtrs]; rw [wrapPtrs_erase c t]
  | .slice t => by simp [erase, wrapPtrs]
  | .map k v => by simp [erase, wrapPtrs]
  | .struct fs => by simp [erase, wrapPtrs]
  | .bool => rfl | .int k => rfl | .f32 => rfl | .f64 => rfl | .str => rfl | .bytes => rfl | .any => rfl
  | .arr n t => rfl

/-- on a `nameSafe` type (no wrapper called "RawMessage") `embBase`, which stops at the types encoded through their methods,
is `baseTy` -/
theorem embBase_eq_baseTy : ∀ t : Ty, nameSafe t = true → embBase t = baseTy t
  | .named n t, h => by
    simp only [nameSafe, Bool.and_eq_true, bne_iff_ne, ne_eq] at h
    have : embBase (.named n t) = embBase t := by
      rw [embBase]; intro e; exact absurd e h.1
    rw [this]; simp only [baseTy]; exact embBase_eq_baseTy t h.2
  | .ptr t, h => by
    simp only [nameSafe] at h
    simp only [embBase, baseTy]; exact embBase_eq_baseTy t h
  | .slice t, _ => rfl
  | .map k v, _ => rfl
  | .struct fs, _ => rfl
  | .bool, _ => rfl | .int k, _ => rfl | .f32, _ => rfl | .f64, _ => rfl | .str, _ => rfl | .bytes, _ => rfl
  | .any, _ => rfl
  | .arr n t, _ => rfl

/-- a type without `.named` wrappers at pointer depth: `embBase` is `baseTy` -/
theorem embBase_erase : ∀ t : Ty, embBase (erase t) = baseTy (erase t)
  | .named n t => by simp only [erase]; exact embBase_erase t
  | .ptr t => by simp only [erase, embBase, baseTy]; exact embBase_erase t
  | .slice t => rfl
  | .map k v => rfl
  | .struct fs => rfl
  | .bool => rfl | .int k => rfl | .f32 => rfl | .f64 => rfl | .str => rfl | .bytes => rfl | .any => rfl
  | .arr n t => rfl

theorem isStructBase_erase (t : Ty) (h : nameSafe t = true) : isStructBase (erase t) = isStructBase t := by
  unfold isStructBase
  rw [embBase_erase, embBase_eq_baseTy t h, baseTy_erase]
  have hh := baseTy_head t
  generalize baseTy t = b at hh
  cases b <;> simp [erase, headBase] at hh ⊢

/-! ## the codec tree -/

mutual
theorem codecOf_erase : ∀ t : Ty, nameSafe t = true → codecOf (erase t) = codecOf t
  | .named n t, h => by
    simp only [nameSafe, Bool.and_eq_true, bne_iff_ne, ne_eq] at h
    have : codecOf (.named n t) = codecOf t := by
      rw [codecOf]; intro e; exact absurd e h.1
    rw [this]; simp only [erase]; exact codecOf_erase t h.2
  | .ptr t, h => by
    simp only [nameSafe] at h
    simp only [erase, codecOf, codecOf_erase t h]
  | .slice t, h => by
    simp only [nameSafe, Bool.and_eq_true, Bool.or_eq_true, Bool.not_eq_true'] at h
    simp only [erase]
    rcases h.1 with h1 | h1
    · rw [isU8_eq t h1]; rfl
    · have h2 : isU8 t = false := by
        cases ht : isU8 t with
        | false => rfl
        | true => rw [isU8_eq t ht] at h1; simp [erase, isU8] at h1
      have e1 : codecOf (.slice (erase t)) = .unsupported := by
        rw [codecOf]; intro e; exact isU8_false _ h1 e
      have e2 : codecOf (.slice t) = .unsupported := by
        rw [codecOf]; intro e; exact isU8_false _ h2 e
      rw [e1, e2]
  | .map k v, h => by simp [erase, codecOf]
  | .struct fs, h => by
    simp only [nameSafe] at h
    simp only [erase, codecOf, fieldsOf_erase 1 fs h]
  | .bool, _ => rfl | .int k, _ => rfl | .f32, _ => rfl | .f64, _ => rfl | .str, _ => rfl | .bytes, _ => rfl
  | .any, _ => rfl
  | .arr n t, _ => rfl
theorem fieldCodecOf_erase (num : Nat) : ∀ t : Ty, nameSafe t = true → fieldCodecOf num (erase t) = fieldCodecOf num t
  | .named n t, h => by
    simp only [nameSafe, Bool.and_eq_true, bne_iff_ne, ne_eq] at h
    have : fieldCodecOf num (.named n t) = fieldCodecOf num t := by
      rw [fieldCodecOf]; intro e; exact absurd e h.1
    rw [this]; simp only [erase]; exact fieldCodecOf_erase num t h.2
  | .ptr t, h => by
    have := codecOf_erase (.ptr t) h
    have hs := isStructBase_erase (.ptr t) h
    simp only [erase] at this hs
    simp only [erase, fieldCodecOf, this, hs]
  | .slice t, h => by
    have hh := h
    simp only [nameSafe, Bool.and_eq_true, Bool.or_eq_true, Bool.not_eq_true'] at h
    simp only [erase]
    rcases h.1 with h1 | h1
    · rw [isU8_eq t h1]; rfl
    · have h2 : isU8 t = false := by
        cases ht : isU8 t with
        | false => rfl
        | true => rw [isU8_eq t ht] at h1; simp [erase, isU8] at h1
      have e1 : fieldCodecOf num (.slice (erase t)) = (isStructBase (erase t), true,
          .slice (codecOf (erase t)) num (codecOf (erase t)).wire (isStructBase (erase t))) := by
        rw [fieldCodecOf]; intro e; exact isU8_false _ h1 e
      have e2 : fieldCodecOf num (.slice t) = (isStructBase t, true,
          .slice (codecOf t) num (codecOf t).wire (isStructBase t)) := by
        rw [fieldCodecOf]; intro e; exact isU8_false _ h2 e
      rw [e1, e2, isStructBase_erase t h.2, codecOf_erase t h.2]
  | .map k v, h => by
    simp only [nameSafe, Bool.and_eq_true] at h
    simp only [erase, fieldCodecOf, codecOf_erase k h.1, codecOf_erase v h.2, fieldCodecOf_erase 1 k h.1,
      fieldCodecOf_erase 2 v h.2, isStructBase_erase k h.1, isStructBase_erase v h.2]
  | .struct fs, h => by
    have := codecOf_erase (.struct fs) h
    simp only [erase] at this
    simp only [erase, fieldCodecOf, this]
    rfl
  | .bool, _ => rfl | .int k, _ => rfl | .f32, _ => rfl | .f64, _ => rfl | .str, _ => rfl | .bytes, _ => rfl
  | .any, _ => rfl
  | .arr n t, _ => rfl
theorem fieldsOf_erase (number : Nat) : ∀ fs : Fields, nameSafeFields fs = true →
    fieldsOf number (eraseFields fs) = fieldsOf number fs
  | .nil, _ => rfl
  | .cons name tag emb t rest, h => by
    simp only [nameSafeFields, Bool.and_eq_true] at h
    simp only [eraseFields, fieldsOf]
    simp only [wrapPtrs_erase, fieldCodecOf_erase _ t h.1, fieldsOf_erase (number + 1) rest h.2, baseTy_erase]
    have hh := baseTy_head t
    generalize baseTy t = b at hh
    generalize (lookupProtobuf tag).bind parseStructTag = st
    cases st with
    | none => rfl
    | some s =>
      obtain ⟨w, num, rep, zz⟩ := s
      cases b <;> simp only [erase, headBase] at hh ⊢ <;> first | rfl | (exact absurd hh (by decide)) | (cases w <;> rfl)
end

/-! ## zero values, entry points -/

mutual
theorem zeroOf_erase : ∀ t : Ty, nameSafe t = true → zeroOf (erase t) = zeroOf t
  | .named n t, h => by
    simp only [nameSafe, Bool.and_eq_true, bne_iff_ne, ne_eq] at h
    have : zeroOf (.named n t) = zeroOf t := by
      rw [zeroOf]; intro e; exact absurd e h.1
    rw [this]; simp only [erase]; exact zeroOf_erase t h.2
  | .ptr t, _ => rfl
  | .slice t, _ => rfl
  | .map k v, _ => rfl
  | .struct fs, h => by
    simp only [nameSafe] at h
    simp only [erase, zeroOf, zeroFields_erase fs h]
  | .bool, _ => rfl | .int k, _ => rfl | .f32, _ => rfl | .f64, _ => rfl | .str, _ => rfl | .bytes, _ => rfl
  | .any, _ => rfl
  | .arr n t, _ => rfl
theorem zeroFields_erase : ∀ fs : Fields, nameSafeFields fs = true → zeroFields (eraseFields fs) = zeroFields fs
  | .nil, _ => rfl
  | .cons name tag emb t rest, h => by
    simp only [nameSafeFields, Bool.and_eq_true] at h
    simp only [eraseFields, zeroFields, zeroOf_erase t h.1, zeroFields_erase rest h.2]
end

theorem marshal_erase (t : Ty) (h : nameSafe t = true) (v : Val) : marshal (erase t) v = marshal t v := by
  simp only [marshal, codecOf_erase t h]
theorem marshalSize_erase (t : Ty) (h : nameSafe t = true) (v : Val) : marshalSize (erase t) v = marshalSize t v := by
  simp only [marshalSize, codecOf_erase t h]
theorem unmarshal_erase (t : Ty) (h : nameSafe t = true) (b : Bytes) : unmarshal (erase t) b = unmarshal t b := by
  simp only [unmarshal, codecOf_erase t h, zeroOf_erase t h]

end Enc.Lemmas.ProtoNamed
