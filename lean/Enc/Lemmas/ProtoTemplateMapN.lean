import Enc.Lemmas.ProtoTemplateRepB
/-!
# MAP fields of a template inside the nested induction: the pieces that do not need the induction hypothesis
-/
namespace Enc.Lemmas.ProtoTemplate
open Enc Enc.Spec.Protobuf Enc.Lemmas.ProtoRewriteSpec Enc.Lemmas.ProtoSpecFuel
open Enc.Model.Proto (PKind RwT Rw TFields TType parseLeaf parseTemplate parseStruct parseMembers parseElems parseOne
  lookupFieldByName rewriteT rewriteMultiT multiOfT rewrite gvString gvObj gvList insertEnt tableLen PF getRwT fieldVarlen
  encodeVarint keyName valueName gvInt gvBool gvFloat)
open Enc.Model.Json (GV GVs GMs)

/-! ### the zero value of a map field -/

theorem zeroOf_of_map : ∀ (t kt vt : Ty), unname t = .map kt vt → zeroOf t = .nil
  | .named s t, kt, vt, h => by
    by_cases hs : s = "RawMessage"
    · subst hs; simp [unname] at h
    · have hu : unname (.named s t) = unname t := by rw [unname]; intro e; exact absurd e hs
      have hz : zeroOf (.named s t) = zeroOf t := by rw [zeroOf]; intro e; exact absurd e hs
      rw [hz]
      exact zeroOf_of_map t kt vt (by rw [← hu]; exact h)
  | .map k v, _, _, _ => by simp [zeroOf]
  | .slice e, _, _, h => by simp [unname] at h
  | .ptr t, _, _, h => by simp [unname] at h
  | .struct fs, _, _, h => by simp [unname] at h
  | .bool, _, _, h => by simp [unname] at h
  | .int k, _, _, h => by simp [unname] at h
  | .f32, _, _, h => by simp [unname] at h
  | .f64, _, _, h => by simp [unname] at h
  | .str, _, _, h => by simp [unname] at h
  | .bytes, _, _, h => by simp [unname] at h
  | .any, _, _, h => by simp [unname] at h
  | .arr n t, _, _, h => by simp [unname] at h

/-! ### the key of an entry is a scalar JSON value -/

/-- the leaf parsers accept only `null`, booleans, numbers and (string kinds) strings -/
theorem parseLeaf_ok_shape (pf : PF) (kk : PKind) (n : Nat) (j : GV) (o : Option RwT) (h : parseLeaf pf kk n j = .ok o) :
    j = .null ∨ (∃ b, j = .bool b) ∨ (∃ l d, j = .num l d) ∨ (∃ s, j = .str s ∧ (kk = .string ∨ kk = .bytes)) := by
  cases j with
  | null => exact Or.inl rfl
  | bool b => exact Or.inr (Or.inl ⟨b, rfl⟩)
  | num l d => exact Or.inr (Or.inr (Or.inl ⟨l, d, rfl⟩))
  | str s =>
    refine Or.inr (Or.inr (Or.inr ⟨s, rfl, ?_⟩))
    cases kk <;> simp [parseLeaf, gvInt, gvBool, gvFloat] at h ⊢
  | arr vs => cases kk <;> simp [parseLeaf, gvInt, gvBool, gvFloat, gvString] at h
  | obj ms => cases kk <;> simp [parseLeaf, gvInt, gvBool, gvFloat, gvString] at h

theorem keyName_length : keyName.length = 3 := by decide
theorem valueName_length : valueName.length = 5 := by decide

/-- what is needed about the key `kgv` of an accepted entry whose key type is a scalar kind other than bytes -/
theorem entry_key_facts (pf : PF) (kk : PKind) (hnb : kk ≠ .bytes) (vtt : TType) (key : Bytes) (kgv value : GV) (f' : Nat)
    (es : List (Nat × RwT)) (hk : keyGV (.prim kk) key = some kgv)
    (h : parseMembers pf f' (entryT (.prim kk) vtt) (entryObj kgv value) [] = .ok es) (L : Nat) :
    KeysNodupV kgv ∧ gvSz L kgv ≤ 30 + key.length + 20 * L ∧ gvFuel L kgv ≤ L + 60 := by
  have hinv := entry_invG pf (.prim kk) vtt kgv value f' es h
  obtain ⟨r, f, _, hpe⟩ := hinv.complete keyName kgv 1 false (.prim kk) (Or.inl ⟨rfl, rfl⟩) (lookup_entryT_key _ _)
  have hrel := parseEntry_prim pf f kk 1 kgv r hpe
  have hshape : ∃ o, parseLeaf pf kk 1 kgv = .ok o := by
    rcases hrel with ⟨hp, _⟩ | ⟨rb, hp, _⟩
    · exact ⟨_, hp⟩
    · exact ⟨_, hp⟩
  obtain ⟨o, ho⟩ := hshape
  rcases parseLeaf_ok_shape pf kk 1 kgv o ho with rfl | ⟨b, rfl⟩ | ⟨l, d, rfl⟩ | ⟨s, rfl, hs⟩
  · exact ⟨by simp [KeysNodupV], by simp only [gvSz]; omega, by simp only [gvFuel]; omega⟩
  · exact ⟨by simp [KeysNodupV], by simp only [gvSz]; omega, by simp only [gvFuel]; omega⟩
  · exact ⟨by simp [KeysNodupV], by simp only [gvSz]; omega, by simp only [gvFuel]; omega⟩
  · rcases hs with rfl | rfl
    · simp only [keyGV, Option.some.injEq, GV.str.injEq] at hk
      subst hk
      exact ⟨by simp [KeysNodupV], by simp only [gvSz]; omega, by simp only [gvFuel]; omega⟩
    · exact absurd rfl hnb

/-! ### the decoder on the records of a map field -/

theorem ent_map_core (fs : Fields) (n i : Nat) (o : FieldOpt) (t kt vt : Ty) (hfind : findField fs n = some (i, o, t))
    (hrep : isRepeated t = none) (hm : unname t = .map kt vt) (bodies : List Bytes) (evss : List Vals)
    (hfa : Forall₂ (fun eb evs => decode (.struct (entryFs kt vt)) eb = some (.struct evs)) bodies evss) :
    ∃ eff : Option Val, ((bodies.map fun eb => (n, WireVal.len eb)) = [] → eff = none) ∧
      ((bodies.map fun eb => (n, WireVal.len eb)) ≠ [] → eff.isSome = true) ∧
      (∀ vs, vs.length = fs.length → valsGet vs i = valsGet (zeroFields fs) i →
        foldG fieldD fs (bodies.map fun eb => (n, WireVal.len eb)) vs
          = some (match eff with | some x => valsSet vs i x | none => vs)) ∧
      eff.getD (valsGet (zeroFields fs) i) = mapVal evss := by
  obtain ⟨_, _, tg, hat, _⟩ := findField_spec fs n i o t hfind
  have hz : valsGet (zeroFields fs) i = .nil := by
    rw [valsGet_zeroFields fs i tg t hat]; exact zeroOf_of_map t kt vt hm
  have hlen := forall₂_length hfa
  cases bodies with
  | nil =>
    have : evss = [] := by cases evss with | nil => rfl | cons _ _ => simp at hlen
    subst this
    exact ⟨none, fun _ => rfl, fun h => absurd rfl h, fun vs _ _ => by simp [foldG], by simp [hz, mapVal]⟩
  | cons eb bodies' =>
    cases evss with
    | nil => simp at hlen
    | cons evs evss' =>
      refine ⟨some (mapVal (evs :: evss')), fun h => by simp at h, fun _ => rfl, fun vs hl hv => ?_, by simp⟩
      have := foldG_map_entry fs n i o t kt vt hfind hrep hm (eb :: bodies') (evs :: evss') hfa vs .nil hl
        (by rw [hv, hz]; rfl)
      rw [this]
      simp [mapVal]

/-! ### the rewriter side: `replacement (mergeOne (multiOfT rws))` -/

theorem rewriteT_embeddedMerge_eq (G a b : Nat) (c : List (Nat × RwT)) (p : Bytes) :
    rewriteT G (.embeddedMerge a b c) p = rewriteT G (.embedded a b c) p := by
  cases G with
  | zero => simp [rewriteT]
  | succ g => simp only [rewriteT]

theorem rewriteT_mergeOne_multiOfT (rws : List RwT) (hall : ∀ r, r ∈ rws → ∃ n len es, r = .embedded n len es) (G : Nat)
    (p : Bytes) : rewriteT G (mergeOne (multiOfT rws)) p = rewriteT G (multiOfT rws) p := by
  match rws, hall with
  | [], _ => rfl
  | [r], hall =>
    obtain ⟨n, len, es, rfl⟩ := hall r (by simp)
    simp only [multiOfT, mergeOne]
    exact rewriteT_embeddedMerge_eq G n len es p
  | r1 :: r2 :: rest, _ => rfl

/-- the entry `replacement (mergeOne (multiOfT rws))` returns the concatenation, on any payload -/
theorem rewriteT_replacement_merge (M : Nat) (rws : List RwT) (hall : ∀ r, r ∈ rws → ∃ n len es, r = .embedded n len es)
    (out : Bytes) (h : RunAll [] M rws out) :
    ∀ G p, rws.length + M + 3 ≤ G → rewriteT G (.replacement (mergeOne (multiOfT rws))) p = .ok out := by
  intro G p hG
  obtain ⟨g, rfl⟩ : ∃ g, G = g + 1 := ⟨G - 1, by omega⟩
  simp only [rewriteT]
  rw [rewriteT_mergeOne_multiOfT rws hall]
  exact rewriteT_multiOfT rws [] out (rws.length + M) (rewriteMultiT_runAll [] M rws out h) g (by omega)

/-! ### sizes -/

theorem gmsMax_entryObj_le (L : Nat) (key : Bytes) (kgv value : GV) (hk : gvSz L kgv ≤ 30 + key.length + 20 * L) :
    gmsMax L (entryObj kgv value) ≤ max (gvSz L value) (60 + key.length + 20 * L) + 5 := by
  simp only [entryObj, gmsMax, keyName_length, valueName_length]
  omega

theorem gmsFuelMax_entryObj_le (L : Nat) (kgv value : GV) (hk : gvFuel L kgv ≤ L + 60) :
    gmsFuelMax L (entryObj kgv value) ≤ max (gvFuel L value) (L + 60) := by
  simp only [entryObj, gmsFuelMax]
  omega

theorem gmLen_entryObj (kgv value : GV) : gmLen (entryObj kgv value) = 2 := rfl

#print axioms entry_key_facts
#print axioms ent_map_core
#print axioms rewriteT_replacement_merge

end Enc.Lemmas.ProtoTemplate
