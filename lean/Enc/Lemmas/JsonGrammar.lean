import Enc.Lemmas.JsonNumber
/-!
# JSON (C05), part 4a: facts about the reference grammar alone

Unfolding lemmas for `value` / `elements` / `members` (literal-byte patterns turned into `if`s), and `sfx_all`: every
production returns a proper suffix of its input (used for fuel accounting and to move `QSound` along the input).
-/
namespace Enc.Lemmas.JsonGrammar
open Enc Enc.Spec.Json

theorem value_nil (f d : Nat) : value f d [] = none := by cases f <;> simp [value]
theorem value_succ_cons (f d : Nat) (c : UInt8) (r : Bytes) :
    value (f + 1) d (c :: r) =
      if c == 0x7b then (if d == 0 then none else members f (d - 1) (ws r) true)
      else if c == 0x5b then (if d == 0 then none else elements f (d - 1) (ws r) true)
      else if c == 0x22 then string (c :: r)
      else if c == 0x6e then lit [0x6e, 0x75, 0x6c, 0x6c] (c :: r)
      else if c == 0x74 then lit [0x74, 0x72, 0x75, 0x65] (c :: r)
      else if c == 0x66 then lit [0x66, 0x61, 0x6c, 0x73, 0x65] (c :: r)
      else number (c :: r) := by
  rw [value]

/-- the lookahead that forbids `[,]`-style trailing commas -/
def isClose (b : Bytes) : Bool := match b with | x :: _ => x == 0x5d | [] => false

theorem elements_nil (f d : Nat) (first : Bool) : elements f d [] first = none := by cases f <;> simp [elements]
theorem elements_succ_cons (f d : Nat) (c : UInt8) (r : Bytes) (first : Bool) :
    elements (f + 1) d (c :: r) first =
      if c == 0x5d then some r
      else
        (if first then some (c :: r) else (if c == 0x2c then some (ws r) else none)).bind fun b2 =>
          if isClose b2 then none
          else (value f d b2).bind fun r2 => elements f d (ws r2) false := by
  rw [elements]
  split
  · rfl
  · show Option.bind _ _ = Option.bind _ _
    congr 1
    funext b2
    match b2 with
    | [] => rfl
    | x :: t =>
      by_cases hx : x = 0x5d
      · subst hx; rfl
      · have hx' : (x == 0x5d) = false := by simpa using hx
        simp only [isClose, hx', Bool.false_eq_true, if_false]
        split
        · rename_i t' e; cases e; exact absurd rfl hx
        · rfl

theorem members_nil (f d : Nat) (first : Bool) : members f d [] first = none := by cases f <;> simp [members]

/-- the `":" ws value` part of a member -/
def colonThen (k : Bytes → Option Bytes) (b : Bytes) : Option Bytes :=
  match b with
  | [] => none
  | x :: r3 => if x == 0x3a then k r3 else none

theorem members_succ_cons (f d : Nat) (c : UInt8) (r : Bytes) (first : Bool) :
    members (f + 1) d (c :: r) first =
      if c == 0x7d then some r
      else
        (if first then some (c :: r) else (if c == 0x2c then some (ws r) else none)).bind fun b2 =>
          (string b2).bind fun r2 =>
            colonThen (fun r3 => (value f d (ws r3)).bind fun r4 => members f d (ws r4) false) (ws r2) := by
  rw [members]
  split
  · rfl
  · show Option.bind _ _ = Option.bind _ _
    congr 1
    funext b2
    congr 1
    funext r2
    match ws r2 with
    | [] => rfl
    | x :: t =>
      by_cases hx : x = 0x3a
      · subst hx; rfl
      · have hx' : (x == 0x3a) = false := by simpa using hx
        simp only [colonThen, hx', Bool.false_eq_true, if_false]
        split
        · rename_i t' e; cases e; exact absurd rfl hx
        · rfl


/-! ### every production consumes a non-empty prefix -/

/-- `r` is a proper suffix of `b` -/
def Sfx (r b : Bytes) : Prop := r <:+ b ∧ r.length < b.length

theorem Sfx.of_tail {r t : Bytes} (c : UInt8) (h : r <:+ t) : Sfx r (c :: t) :=
  ⟨h.trans (List.suffix_cons _ _), by have := h.length_le; simp; omega⟩
theorem Sfx.suffix_left {r b c : Bytes} (h1 : r <:+ b) (h2 : Sfx b c) : Sfx r c :=
  ⟨h1.trans h2.1, by have := h1.length_le; have := h2.2; omega⟩
theorem Sfx.suffix_right {r b c : Bytes} (h1 : Sfx r b) (h2 : b <:+ c) : Sfx r c :=
  ⟨h1.1.trans h2, by have := h2.length_le; have := h1.2; omega⟩

theorem ws_suffix (b : Bytes) : ws b <:+ b := by
  induction b with
  | nil => exact List.suffix_refl _
  | cons c r ih =>
    simp only [ws]; split
    · exact ih.trans (List.suffix_cons _ _)
    · exact List.suffix_refl _
theorem ws_length_le (b : Bytes) : (ws b).length ≤ b.length := (ws_suffix b).length_le

theorem ws_ws (b : Bytes) : ws (ws b) = ws b := by
  induction b with
  | nil => rfl
  | cons c r ih =>
    simp only [ws]; split
    · exact ih
    · rename_i h; simp only [ws, h]; rfl

theorem digits_suffix (b : Bytes) : digits b <:+ b := by
  induction b with
  | nil => exact List.suffix_refl _
  | cons c r ih =>
    simp only [digits]; split
    · exact ih.trans (List.suffix_cons _ _)
    · exact List.suffix_refl _

theorem digits1_sfx {b r : Bytes} (h : digits1 b = some r) : Sfx r b := by
  cases b with
  | nil => cases h
  | cons c t =>
    simp only [digits1] at h
    split at h
    · cases h; exact Sfx.of_tail _ (digits_suffix t)
    · cases h

theorem int_sfx {b r : Bytes} (h : int b = some r) : Sfx r b := by
  cases b with
  | nil => cases h
  | cons c t =>
    simp only [int] at h
    split at h
    · cases h; exact Sfx.of_tail _ (List.suffix_refl _)
    · split at h
      · cases h; exact Sfx.of_tail _ (digits_suffix t)
      · cases h

theorem frac_suffix {b r : Bytes} (h : frac b = some r) : r <:+ b := by
  cases b with
  | nil => cases h; exact List.suffix_refl _
  | cons c t =>
    rw [JsonNumber.frac_cons] at h
    split at h
    · exact (digits1_sfx h).1.trans (List.suffix_cons _ _)
    · cases h; exact List.suffix_refl _

theorem exp_suffix {b r : Bytes} (h : exp b = some r) : r <:+ b := by
  cases b with
  | nil => cases h; exact List.suffix_refl _
  | cons c t =>
    simp only [exp] at h
    split at h
    · cases t with
      | nil => cases h
      | cons s r2 =>
        simp only at h
        split at h
        · exact ((digits1_sfx h).1.trans (List.suffix_cons _ _)).trans (List.suffix_cons _ _)
        · exact (digits1_sfx h).1.trans (List.suffix_cons _ _)
    · cases h; exact List.suffix_refl _

theorem number_sfx {b r : Bytes} (h : number b = some r) : Sfx r b := by
  cases b with
  | nil => cases h
  | cons c t =>
    rw [JsonNumber.number_cons] at h
    have key : ∀ b0 : Bytes, ((int b0).bind fun r => (frac r).bind exp) = some r → Sfx r b0 := by
      intro b0 h0
      cases hi : int b0 with
      | none => rw [hi] at h0; cases h0
      | some r1 =>
        rw [hi] at h0
        simp only [Option.bind_some] at h0
        cases hf : frac r1 with
        | none => rw [hf] at h0; cases h0
        | some r2 =>
          rw [hf] at h0
          simp only [Option.bind_some] at h0
          exact Sfx.suffix_left ((exp_suffix h0).trans (frac_suffix hf)) (int_sfx hi)
    split at h
    · exact (key t h).suffix_right (List.suffix_cons _ _)
    · exact key _ h

theorem chars_suffix : ∀ (n : Nat) (b r : Bytes), b.length ≤ n → chars b = some r → Sfx r b := by
  intro n
  induction n with
  | zero => intro b r hb h; cases b with
    | nil => cases h
    | cons => simp at hb
  | succ n ih =>
    intro b r hb h
    match b, hb, h with
    | [], _, h => cases h
    | c :: t, hb, h =>
      have ht : t.length ≤ n := by simpa using hb
      rw [JsonString.chars_cons] at h
      split at h
      · cases h; exact Sfx.of_tail _ (List.suffix_refl _)
      · split at h
        · match t, ht, h with
          | [], _, h => cases h
          | e :: r2, ht, h =>
            have hr2 : r2.length ≤ n := by simp at ht; omega
            simp only at h
            split at h
            · exact Sfx.of_tail _ ((ih r2 r hr2 h).1.trans (List.suffix_cons _ _))
            · split at h
              · match r2, hr2, h with
                | h1 :: h2 :: h3 :: h4 :: r3, hr2, h =>
                  have hr3 : r3.length ≤ n := by simp at hr2; omega
                  simp only at h
                  split at h
                  · refine Sfx.of_tail _ (((ih r3 r hr3 h).1.trans ?_).trans (List.suffix_cons _ _))
                    exact ⟨[h1, h2, h3, h4], rfl⟩
                  · cases h
                | [], _, h => cases h
                | [_], _, h => cases h
                | [_, _], _, h => cases h
                | [_, _, _], _, h => cases h
              · cases h
        · split at h
          · cases h
          · exact Sfx.of_tail _ (ih t r ht h).1

theorem string_sfx {b r : Bytes} (h : string b = some r) : Sfx r b := by
  cases b with
  | nil => cases h
  | cons c t =>
    rw [JsonString.string_cons] at h
    split at h
    · exact Sfx.of_tail _ (chars_suffix t.length t r (Nat.le_refl _) h).1
    · cases h

theorem lit_sfx {l b r : Bytes} (hl : l ≠ []) (h : lit l b = some r) : Sfx r b := by
  simp only [lit] at h
  split at h
  · cases h
    rename_i hp
    have hp' : l <+: b := List.isPrefixOf_iff_prefix.mp hp
    obtain ⟨t, rfl⟩ := hp'
    refine ⟨by simp, ?_⟩
    have : 0 < l.length := List.length_pos_iff.mpr hl
    simp; omega
  · cases h

theorem colonThen_some {k : Bytes → Option Bytes} {b r : Bytes} (h : colonThen k b = some r) :
    ∃ r3, b = 0x3a :: r3 ∧ k r3 = some r := by
  cases b with
  | nil => cases h
  | cons x t =>
    simp only [colonThen] at h
    split at h
    · rename_i hx; have : x = 0x3a := by simpa using hx
      subst this; exact ⟨t, rfl, h⟩
    · cases h

theorem bind_some {α β} {o : Option α} {f : α → Option β} {y : β} (h : o.bind f = some y) :
    ∃ x, o = some x ∧ f x = some y := by
  cases o with
  | none => cases h
  | some x => exact ⟨x, rfl, h⟩

/-- `value`, `elements`, `members` return a proper suffix of their input -/
theorem sfx_all (f : Nat) :
    (∀ d b r, value f d b = some r → Sfx r b) ∧
    (∀ d b first r, elements f d b first = some r → Sfx r b) ∧
    (∀ d b first r, members f d b first = some r → Sfx r b) := by
  induction f with
  | zero => refine ⟨?_, ?_, ?_⟩ <;> intros <;> simp_all [value, elements, members]
  | succ f ih =>
    obtain ⟨ihv, ihe, ihm⟩ := ih
    refine ⟨?_, ?_, ?_⟩
    · intro d b r h
      cases b with
      | nil => rw [value_nil] at h; cases h
      | cons c t =>
        rw [value_succ_cons] at h
        split at h
        · split at h
          · cases h
          · exact ((ihm _ _ _ _ h).suffix_right (ws_suffix t)).suffix_right (List.suffix_cons _ _)
        split at h
        · split at h
          · cases h
          · exact ((ihe _ _ _ _ h).suffix_right (ws_suffix t)).suffix_right (List.suffix_cons _ _)
        split at h
        · exact string_sfx h
        split at h
        · exact lit_sfx (by simp) h
        split at h
        · exact lit_sfx (by simp) h
        split at h
        · exact lit_sfx (by simp) h
        exact number_sfx h
    · intro d b first r h
      cases b with
      | nil => rw [elements_nil] at h; cases h
      | cons c t =>
        rw [elements_succ_cons] at h
        split at h
        · cases h; exact Sfx.of_tail _ (List.suffix_refl _)
        · obtain ⟨b2, hb2, h⟩ := bind_some h
          split at h
          · cases h
          · obtain ⟨r2, hv, h⟩ := bind_some h
            have h1 : Sfx r b2 := ((ihe _ _ _ _ h).suffix_right (ws_suffix r2)).suffix_right (ihv _ _ _ hv).1
            have h2 : b2 <:+ c :: t := by
              split at hb2
              · cases hb2; exact List.suffix_refl _
              · split at hb2
                · cases hb2; exact (ws_suffix t).trans (List.suffix_cons _ _)
                · cases hb2
            exact h1.suffix_right h2
    · intro d b first r h
      cases b with
      | nil => rw [members_nil] at h; cases h
      | cons c t =>
        rw [members_succ_cons] at h
        split at h
        · cases h; exact Sfx.of_tail _ (List.suffix_refl _)
        · obtain ⟨b2, hb2, h⟩ := bind_some h
          obtain ⟨r2, hs, h⟩ := bind_some h
          obtain ⟨r3, hr3, h⟩ := colonThen_some h
          obtain ⟨r4, hv, h⟩ := bind_some h
          have h0 : Sfx r r4 := (ihm _ _ _ _ h).suffix_right (ws_suffix r4)
          have h1 : r4 <:+ r3 := (ihv _ _ _ hv).1.trans (ws_suffix r3)
          have h2 : r3 <:+ r2 := by
            have : (0x3a :: r3) <:+ r2 := hr3 ▸ ws_suffix r2
            exact (List.suffix_cons _ _).trans this
          have h3 : r2 <:+ b2 := (string_sfx hs).1
          have h4 : b2 <:+ c :: t := by
            split at hb2
            · cases hb2; exact List.suffix_refl _
            · split at hb2
              · cases hb2; exact (ws_suffix t).trans (List.suffix_cons _ _)
              · cases hb2
          exact h0.suffix_right (((h1.trans h2).trans h3).trans h4)

theorem value_sfx {f d : Nat} {b r : Bytes} (h : value f d b = some r) : Sfx r b := (sfx_all f).1 d b r h

end Enc.Lemmas.JsonGrammar
