import Enc.Lemmas.ProtoRoundTripScalar
/-!
# C03, field level: one record written by the encoder, read by the struct loop of the decoder

  * `Seg cfs fl seg vs vs'`   `seg` is a run of complete records that `decodeStructU` (codec fields `cfs`, flags `fl`)
                              consumes entirely, turning the field values `vs` into `vs'`, whatever follows
  * `Seg.nil / Seg.append / Seg.run`
  * `carve_payload / carve_emb`   the `switch wireType` finds exactly the bytes the encoder wrote
  * `seg_field`               tag ++ [length] ++ data, with the field found by `lookupField` and `data` decoded by
                              the field's codec: the value lands in slot `i`, the loop continues behind the record
  * `lookup_go_absent / cnums` `lookupField` and the numbers of a codec field list
-/
set_option linter.unusedSimpArgs false
set_option linter.unusedVariables false
namespace Enc.Lemmas.ProtoRoundTrip
open Enc Enc.Model.Proto Enc.Lemmas.ProtoWire Enc.Lemmas.ProtoDecode

/-- `seg` is a run of complete field records: in front of any `rest`, at any offset of any buffer that is long
enough, the struct loop works through `seg`, arrives at `rest` with the values `vs'`, and from there on behaves as it
would have anyway (fuel: some amount suffices; `unmarshalU` supplies enough, see `ProtoDecode.decode_fuel_eq`). -/
def Seg (cfs : CFields) (fl : Flags) (seg : Bytes) (vs vs' : Vals) : Prop :=
  ∀ (rest : Bytes) (lenB off : Nat) (R : Vals × Nat), off + seg.length + rest.length ≤ lenB →
    (∃ f, decodeStructU f cfs rest lenB vs' fl (off + seg.length) = .ok R) →
    ∃ f, decodeStructU f cfs (seg ++ rest) lenB vs fl off = .ok R

theorem Seg.nil (cfs : CFields) (fl : Flags) (vs : Vals) : Seg cfs fl [] vs vs := by
  intro rest lenB off R _ h
  simpa using h

theorem Seg.append {cfs : CFields} {fl : Flags} {s1 s2 : Bytes} {vs vs1 vs2 : Vals}
    (h1 : Seg cfs fl s1 vs vs1) (h2 : Seg cfs fl s2 vs1 vs2) : Seg cfs fl (s1 ++ s2) vs vs2 := by
  intro rest lenB off R hle h
  rw [List.append_assoc]
  simp only [List.length_append] at hle h
  apply h1 (s2 ++ rest) lenB off R (by simp only [List.length_append]; omega)
  apply h2 rest lenB (off + s1.length) R (by omega)
  rwa [Nat.add_assoc]

/-- a segment that makes up a whole buffer: the loop returns the final values and the buffer length -/
theorem Seg.run {cfs : CFields} {fl : Flags} {body : Bytes} {vs vs' : Vals} (h : Seg cfs fl body vs vs') :
    ∃ f, decodeStructU f cfs body body.length vs fl 0 = .ok (vs', body.length) := by
  have := h [] body.length 0 (vs', body.length) (by simp) ⟨1, by simp [decodeStructU]⟩
  simpa using this

/-! ## carving the data of a field -/

theorem carve_payload (w : Nat) (d rest : Bytes) (lenB off1 : Nat) (hp : IsPayload w d)
    (hle : off1 + d.length ≤ lenB) : carve w (d ++ rest) lenB off1 false = .ok (d, 0) := by
  cases hp with
  | varint p v hv => simp [carve, hv.append rest, Res.bind]
  | fixed64 p h8 =>
    have h : ¬ (8 + rest.length < 8) := by omega
    have ht : List.take 8 (d ++ rest) = d := by rw [← h8]; simp
    simp [carve, h8, h, ht]
  | varlen l c len hl hc =>
    have h1 : decodeVarint (l ++ (c ++ rest)) = .ok (len, l.length) := hl.append _
    simp only [List.length_append] at hle
    have h2 : ¬ (lenB - (off1 + l.length) < c.length) := by omega
    have ht : List.take (l.length + c.length) (l ++ (c ++ rest)) = l ++ c := by
      rw [← List.append_assoc, ← List.length_append, List.take_left]
    simp [carve, h1, Res.bind, ← hc, h2, ht]
  | fixed32 p h4 =>
    have h : ¬ (4 + rest.length < 4) := by omega
    have ht : List.take 4 (d ++ rest) = d := by rw [← h4]; simp
    simp [carve, h4, h, ht]

theorem carve_emb (d rest : Bytes) (lenB off1 : Nat) (hd : d.length < 2 ^ 64)
    (hle : off1 + (encodeVarint (BitVec.ofNat 64 d.length)).length + d.length ≤ lenB) :
    carve 2 (encodeVarint (BitVec.ofNat 64 d.length) ++ d ++ rest) lenB off1 true
      = .ok (d, (encodeVarint (BitVec.ofNat 64 d.length)).length) := by
  simp only [Lemmas.Proto.encodeVarint_length] at hle
  have h2 : d.length ≤ lenB - (off1 + sizeOfVarint (BitVec.ofNat 64 d.length)) := by omega
  rw [List.append_assoc]
  simp [carve, decodeVarint_encode, Res.bind, ofNat64_toNat _ hd, h2]

theorem encodeTag_ne_nil (num : Nat) (w : Wire) : encodeTag num w ≠ [] := by
  intro h
  have := congrArg List.length h
  rw [Lemmas.Proto.encodeTag_length] at this
  have := ProtoVarint.sizeOfVarint_pos (tagWord num w)
  simp only [sizeOfTag, List.length_nil] at *
  omega

/-! ## goal 2: one field record inside the struct loop -/

/-- **field level.**  The record `tag ++ [len] ++ data` of a declared field (`lookupField` finds number `num` at
slot `i` with codec `c`), where `data` is a complete payload of the codec's wire type (or the body of an embedded
message) that the codec decodes to `v'` from the slot's current value: the loop stores `v'` into slot `i` and goes on
with whatever follows. -/
theorem seg_field (cfs : CFields) (fl : Flags) (num i : Nat) (emb zz : Bool) (c : Codec) (d : Bytes) (vs : Vals)
    (v' : Val) (hnum : num < 2 ^ 61) (hlk : lookupField cfs num = some (i, emb, zz, c))
    (hshape : if emb = true then c.wire = .varlen ∧ d.length < 2 ^ 64 else IsPayload c.wire.num d)
    (hdec : ∃ f, decodeU f c d (Vals.get vs i) { fl with zigzag := fl.zigzag || zz } = .ok (v', d.length)) :
    Seg cfs fl (encodeTag num c.wire ++ (if emb = true then encodeVarint (BitVec.ofNat 64 d.length) else []) ++ d)
      vs (Vals.set vs i v') := by
  intro rest lenB off R hle ⟨f2, h2⟩
  obtain ⟨f1, h1⟩ := hdec
  refine ⟨max f1 f2 + 1, ?_⟩
  have hs := tagWord_spec num c.wire hnum
  have hd1 : decodeU (max f1 f2) c d (Vals.get vs i) { fl with zigzag := fl.zigzag || zz } = .ok (v', d.length) := by
    rw [decode_mono f1 _ c d _ _ (Nat.le_max_left _ _) (by rw [h1]; simp), h1]
  have hd2 : ∀ o, o = off + (encodeTag num c.wire ++ (if emb = true then encodeVarint (BitVec.ofNat 64 d.length) else [])
      ++ d).length → decodeStructU (max f1 f2) cfs rest lenB (Vals.set vs i v') fl o = .ok R := by
    intro o ho
    rw [ho, decodeStruct_mono f2 _ cfs rest lenB _ fl _ (Nat.le_max_right _ _) (by rw [h2]; simp), h2]
  rw [decodeStruct_succ]
  have hne : ((encodeTag num c.wire ++ (if emb = true then encodeVarint (BitVec.ofNat 64 d.length) else []) ++ d)
      ++ rest).isEmpty = false := by
    have := encodeTag_ne_nil num c.wire
    cases h : encodeTag num c.wire with
    | nil => exact absurd h this
    | cons => rfl
  have htag : decodeVarint ((encodeTag num c.wire ++ (if emb = true then encodeVarint (BitVec.ofNat 64 d.length) else [])
      ++ d) ++ rest) = .ok (tagWord num c.wire, (encodeTag num c.wire).length) := by
    rw [List.append_assoc, List.append_assoc]
    exact decodeVarint_encode _ _
  have hdrop : List.drop (encodeTag num c.wire).length ((encodeTag num c.wire ++
      (if emb = true then encodeVarint (BitVec.ofNat 64 d.length) else []) ++ d) ++ rest)
      = (if emb = true then encodeVarint (BitVec.ofNat 64 d.length) else []) ++ d ++ rest := by
    rw [List.append_assoc, List.append_assoc, List.drop_left, List.append_assoc]
  simp only [hne, Bool.false_eq_true, if_false, htag, hs.1, hs.2, hlk, bne_self_eq_false, hdrop]
  simp only [List.length_append] at hle hd2
  cases emb with
  | true =>
    simp only [if_true] at hshape hle hd2 ⊢
    have hw := hshape.1
    rw [hw] at hle hd2 ⊢
    rw [num_varlen, carve_emb d rest lenB _ hshape.2 (by omega)]
    simp only [Res.bind, hd1]
    have : List.drop ((encodeVarint (BitVec.ofNat 64 d.length)).length + d.length)
        (encodeVarint (BitVec.ofNat 64 d.length) ++ d ++ rest) = rest := by
      rw [← List.length_append, List.drop_left]
    rw [this]
    exact hd2 _ (by omega)
  | false =>
    simp only [Bool.false_eq_true, if_false, List.nil_append, List.length_nil, Nat.add_zero] at hshape hle hd2 ⊢
    rw [carve_payload _ d rest lenB _ hshape (by omega)]
    simp only [Res.bind, hd1, Nat.zero_add, List.drop_left]
    exact hd2 _ (by omega)

/-! ## `lookupField` -/

/-- field numbers of a codec field list -/
def cnums : CFields → List Nat
  | .nil => []
  | .cons n _ _ _ _ rest => n :: cnums rest

theorem lookup_go_cons (num n : Nat) (emb rep zz : Bool) (c : Codec) (rest : CFields) (i : Nat)
    (acc : Option (Nat × Bool × Bool × Codec)) :
    lookupField.go num (.cons n emb rep zz c rest) i acc
      = lookupField.go num rest (i + 1) (if n == num then some (i, emb, zz, c) else acc) := by
  simp only [lookupField.go]

/-- a number that no later field carries leaves the accumulator alone (the LAST declaration wins in `fieldIndex`) -/
theorem lookup_go_absent (num : Nat) : ∀ (cfs : CFields) (i : Nat) (acc : Option (Nat × Bool × Bool × Codec)),
    num ∉ cnums cfs → lookupField.go num cfs i acc = acc
  | .nil, i, acc, _ => by simp only [lookupField.go]
  | .cons n emb rep zz c rest, i, acc, h => by
    simp only [cnums, List.mem_cons, not_or] at h
    have : (n == num) = false := by simpa using fun e => h.1 e.symm
    rw [lookup_go_cons, this]
    simp only [Bool.false_eq_true, if_false]
    exact lookup_go_absent num rest (i + 1) acc h.2

/-- the numbers `structCodecOf` assigns are the ones the reference reads from the struct tags -/
theorem cnums_fieldsOf : ∀ (fs : Fields) (pos : Nat), fieldsOK pos fs = true →
    cnums (fieldsOf pos fs) = fieldNums pos fs
  | .nil, pos, _ => by simp [fieldsOf, cnums, fieldNums]
  | .cons name tag emb t rest, pos, h => by
    simp only [fieldsOK, Bool.and_eq_true] at h
    obtain ⟨⟨hta, hty⟩, hrest⟩ := h
    by_cases hsl : isSlice t = true
    · cases t <;> simp only [isSlice] at hsl <;> try (exact absurd hsl (by decide))
      rename_i e
      rw [fieldsOf_cons_slice pos name tag emb e rest hta hty]
      simp only [cnums, fieldNums, cnums_fieldsOf rest (pos + 1) hrest]
    · have hns : isSlice t = false := by simpa using hsl
      rw [fieldsOf_cons_ok pos name tag emb t rest hta hty hns]
      simp only [cnums, fieldNums, cnums_fieldsOf rest (pos + 1) hrest]

/-! ## `Vals` with a cursor (model-side `Vals.get` / `Vals.set`) -/

theorem get_vapp : ∀ (p : Vals) (z : Val) (r : Vals), Vals.get (vapp p (.cons z r)) p.length = z
  | .nil, z, r => rfl
  | .cons v p, z, r => by simp [vapp, Vals.length, Vals.get, get_vapp p z r]
theorem set_vapp : ∀ (p : Vals) (z x : Val) (r : Vals),
    Vals.set (vapp p (.cons z r)) p.length x = vapp p (.cons x r)
  | .nil, z, x, r => rfl
  | .cons v p, z, x, r => by simp [vapp, Vals.length, Vals.set, set_vapp p z x r]

end Enc.Lemmas.ProtoRoundTrip
