import Enc.Lemmas.ThriftAcceptFields
import Enc.Lemmas.ThriftRoundTripMain
/-!
C13, second half (compact protocol), level 5: the main induction.

  * `conf_pos`       every conformant encoding is non-empty (the fuel bound is length-based)
  * `decodeList_chunks`, `decodeSet_chunks`, `decodeMap_chunks`   the collection loops over arbitrary element encodings
  * `accept_norm`    `d + nest ty ≤ maxDepth → tyOK ty → valOK ty v → RTS ty v → Conf ty v bs → |bs| + depth ty ≤ fuel →
                        decode .compact strict d fuel ty (bs ++ rest) (zeroOf ty) = ok (norm ty v, rest)`
                     (`d` = the decoder's nesting counter; a container entered at depth ≥ maxDepth is rejected since
                     the fix 9c8d6b4, hence the hypothesis, as in `decode_norm`)
-/
namespace Enc.Lemmas.ThriftAccept
open Enc Enc.Model.Thrift Enc.Lemmas.ThriftPrim Enc.Lemmas.ThriftSkip Enc.Lemmas.ThriftSpec
open Enc.Lemmas.ThriftRoundTrip

/-! ### `All2` -/
theorem All2.imp_mem {α β : Type} {R S : α → β → Prop} : ∀ {l : List α} {cs : List β}, All2 R l cs →
    (∀ a ∈ l, ∀ c, R a c → S a c) → All2 S l cs := by
  intro l cs h
  induction h with
  | nil => intro _; exact .nil
  | cons hab _ ih =>
    intro hi
    exact .cons (hi _ (List.mem_cons_self ..) _ hab) (ih fun a ha c hc => hi a (List.mem_cons_of_mem _ ha) c hc)

theorem All2.nil_left {α β : Type} {R : α → β → Prop} {cs : List β} (h : All2 R [] cs) : cs = [] := by
  cases h; rfl

/-! ### every conformant encoding is non-empty -/
theorem conf_pos : (ty : Ty) → (v : Val) → (bs : Bytes) → Conf ty v bs → 1 ≤ bs.length
  | .bool, v, bs, h => by
    simp only [Conf] at h
    obtain ⟨b, _, rfl⟩ := h; simp
  | .int k, v, bs, h => by
    simp only [Conf] at h
    obtain ⟨i, _, h⟩ := h
    split at h
    · rw [h]; simp
    · exact VarU_length_pos h
  | .f32, v, bs, h | .f64, v, bs, h => by
    simp only [Conf] at h
    obtain ⟨b, _, rfl⟩ := h; simp [Spec.Thrift.le]
  | .str, v, bs, h => by
    simp only [Conf] at h
    obtain ⟨s, _, h⟩ := h
    exact BytesC_length_pos h
  | .bytes, v, bs, h => by
    simp only [Conf] at h
    exact BytesC_length_pos h
  | .slice t, v, bs, h => by
    simp only [Conf] at h
    split at h
    · exact BytesC_length_pos h
    · obtain ⟨hdr, chunks, hh, _, rfl⟩ := h
      have := ListHdr_length_pos hh
      simp only [List.length_append]; omega
  | .map k v, x, bs, h => by
    simp only [Conf] at h
    split at h
    · obtain ⟨hdr, chunks, hh, _, rfl⟩ := h
      have := ListHdr_length_pos hh
      simp only [List.length_append]; omega
    · obtain ⟨hdr, chunks, hh, _, rfl⟩ := h
      have := MapHdr_length_pos hh
      simp only [List.length_append]; omega
  | .struct fs, v, bs, h => by
    simp only [Conf] at h
    obtain ⟨vs, _, rs, order, _, _, hs⟩ := h
    exact Stream_length_pos hs
  | .ptr t, v, bs, h => by
    simp only [Conf] at h
    split at h
    · exact conf_pos t _ bs h
    · exact conf_pos t _ bs h
  | .named _ t, v, bs, h => by
    simp only [Conf] at h
    exact conf_pos t v bs h
  | .arr _ _, _, _, h | .any, _, _, h => by simp [Conf] at h

/-! ### collection loops over arbitrary element encodings -/

/-- `c` is a non-empty chunk that `decode` (target: zero value, depth `d`) reads back as `w` with `|c| + D` fuel -/
def GoodChunk (strict : Bool) (d : Nat) (et : Ty) (D : Nat) (w : Val) (c : Bytes) : Prop :=
  1 ≤ c.length ∧ ∀ fuel rest, c.length + D ≤ fuel →
    decode .compact strict d fuel et (c ++ rest) (zeroOf et) = .ok (w, rest)

theorem decodeList_chunks (strict : Bool) (d : Nat) (et : Ty) (nrm : Val → Val) (D : Nat) :
    ∀ {l : List Val} {chunks : List Bytes}, All2 (fun a c => GoodChunk strict d et D (nrm a) c) l chunks →
      ∀ fuel rest acc, chunks.flatten.length + 1 + D ≤ fuel →
        decodeList .compact strict d fuel et l.length (chunks.flatten ++ rest) acc
          = .ok (.list (Vals.ofList (acc.reverse ++ l.map nrm)), rest) := by
  intro l chunks h
  induction h with
  | nil =>
    intro fuel rest acc hf
    obtain ⟨f, rfl⟩ : ∃ f, fuel = f + 1 := ⟨fuel - 1, by omega⟩
    simp [decodeList]
  | @cons a c l cs hac _ ih =>
    intro fuel rest acc hf
    simp only [List.flatten_cons, List.length_append] at hf
    obtain ⟨ha, hdec⟩ := hac
    obtain ⟨f, rfl⟩ : ∃ f, fuel = f + 1 := ⟨fuel - 1, by omega⟩
    simp only [List.length_cons, List.flatten_cons, List.append_assoc, decodeList]
    rw [hdec f _ (by omega)]
    simp only [dontExpectEOF_ok, Res.bind]
    rw [ih f rest (nrm a :: acc) (by omega)]
    simp

theorem decodeSet_chunks (strict : Bool) (d : Nat) (kt : Ty) (nk : Val → Val) (D : Nat) :
    ∀ {l : List (Val × Val)} {chunks : List Bytes},
      All2 (fun a c => GoodChunk strict d kt D (nk a.1) c) l chunks → ∀ (qs : List (Val × Val)),
      (qs.map (·.1.show) ++ l.map fun a => (nk a.1).show).Nodup →
      ∀ fuel rest, chunks.flatten.length + 1 + D ≤ fuel →
        decodeSet .compact strict d fuel kt l.length (chunks.flatten ++ rest) (flat qs)
          = .ok (.map (flat (qs ++ l.map fun a => (nk a.1, .struct .nil))), rest) := by
  intro l chunks h
  induction h with
  | nil =>
    intro qs _ fuel rest hf
    obtain ⟨f, rfl⟩ : ∃ f, fuel = f + 1 := ⟨fuel - 1, by omega⟩
    simp [decodeSet]
  | @cons a c l cs hac _ ih =>
    intro qs hnd fuel rest hf
    simp only [List.flatten_cons, List.length_append] at hf
    obtain ⟨ha, hdec⟩ := hac
    obtain ⟨f, rfl⟩ : ∃ f, fuel = f + 1 := ⟨fuel - 1, by omega⟩
    simp only [List.length_cons, List.flatten_cons, List.append_assoc, decodeSet]
    rw [hdec f _ (by omega)]
    simp only [dontExpectEOF_ok, Res.bind]
    have hnew : ∀ q ∈ qs, q.1.show ≠ (nk a.1).show := by
      intro q hq heq
      rw [List.map_cons, List.nodup_append] at hnd
      exact hnd.2.2 _ (List.mem_map_of_mem hq) _ (List.mem_cons_self ..) heq
    rw [mapPut_flat _ _ qs hnew]
    rw [ih (qs ++ [(nk a.1, Val.struct Vals.nil)])
      (by simpa [List.map_append, List.append_assoc] using hnd) f rest (by omega)]
    simp [List.append_assoc]

theorem decodeMap_chunks (strict : Bool) (d : Nat) (kt vt : Ty) (nk nv : Val → Val) (D : Nat) :
    ∀ {l : List (Val × Val)} {chunks : List Bytes},
      All2 (fun a c => ∃ ck cv, GoodChunk strict d kt D (nk a.1) ck ∧ GoodChunk strict d vt D (nv a.2) cv ∧
        c = ck ++ cv) l chunks → ∀ (qs : List (Val × Val)),
      (qs.map (·.1.show) ++ l.map fun a => (nk a.1).show).Nodup →
      ∀ fuel rest, chunks.flatten.length + 1 + D ≤ fuel →
        decodeMap .compact strict d fuel kt vt l.length (chunks.flatten ++ rest) (flat qs)
          = .ok (.map (flat (qs ++ l.map fun a => (nk a.1, nv a.2))), rest) := by
  intro l chunks h
  induction h with
  | nil =>
    intro qs _ fuel rest hf
    obtain ⟨f, rfl⟩ : ∃ f, fuel = f + 1 := ⟨fuel - 1, by omega⟩
    simp [decodeMap]
  | @cons a c l cs hac _ ih =>
    intro qs hnd fuel rest hf
    obtain ⟨ck, cv, ⟨hk1, hkdec⟩, ⟨hv1, hvdec⟩, rfl⟩ := hac
    simp only [List.flatten_cons, List.length_append] at hf
    obtain ⟨f, rfl⟩ : ∃ f, fuel = f + 1 := ⟨fuel - 1, by omega⟩
    simp only [List.length_cons, List.flatten_cons, List.append_assoc, decodeMap]
    rw [hkdec f _ (by omega)]
    simp only [dontExpectEOF_ok, Res.bind]
    rw [hvdec f _ (by omega)]
    simp only [dontExpectEOF_ok]
    have hnew : ∀ q ∈ qs, q.1.show ≠ (nk a.1).show := by
      intro q hq heq
      rw [List.map_cons, List.nodup_append] at hnd
      exact hnd.2.2 _ (List.mem_map_of_mem hq) _ (List.mem_cons_self ..) heq
    rw [mapPut_flat _ _ qs hnew]
    rw [ih (qs ++ [(nk a.1, nv a.2)])
      (by simpa [List.map_append, List.append_assoc] using hnd) f rest (by omega)]
    simp [List.append_assoc]

/-! ### universe helpers -/
theorem valOK_map_pairs (k v : Ty) (x : Val) (h : valOK (.map k v) x = true) :
    ∀ a ∈ pairsOfVal x, valOK k a.1 = true ∧ valOK v a.2 = true := by
  cases x <;> simp only [valOK, Bool.false_eq_true] at h <;> simp only [pairsOfVal] <;> intro a ha
  · cases ha
  · have := all_mem h a ha
    simpa using this

theorem valOK_slice_elems (t : Ty) (v : Val) (hu : isU8 t = false) (h : valOK (.slice t) v = true) :
    ∀ a ∈ elems v, valOK t a = true := by
  cases v <;> simp only [valOK, Bool.false_eq_true, hu] at h <;> simp only [elems] <;> intro a ha
  · cases ha
  · simp only [Bool.not_false, Bool.true_and] at h
    exact all_mem h a ha

theorem twos_eq (i : Int) (b : Nat) : Spec.Thrift.twos i b = Model.Thrift.twos i b := rfl

mutual
/-- **Acceptance of every conformant encoding**, compact protocol, decoder strict or not, on `ok ∩ RTS`: the decoder,
started on the zero value, consumes exactly `bs` and yields the normal form `norm ty v` — the SAME value as for the
canonical encoding (`decode_norm`) —, at any nesting depth `d` that leaves room for the containers of the type.
Fuel: input length + type depth. -/
theorem accept_norm (strict : Bool) : (ty : Ty) → (v : Val) →
    ∀ (d : Nat), d + nest ty ≤ Gen.c_thrift_maxDepth → Accepts strict d ty v
  | .bool, v => by
    intro d hd
    unfold Accepts
    intro _ _ hR bs hc fuel rest hf
    simp only [Conf] at hc
    obtain ⟨b, rfl, rfl⟩ := hc
    simp only [depth] at hf
    obtain ⟨f, rfl⟩ : ∃ f, fuel = f + 1 := ⟨fuel - 1, by omega⟩
    cases b <;> simp [decode, rBool, rByte, Res.bind, norm]
  | .int k, v => by
    intro d hd
    unfold Accepts
    intro _ _ hR bs hc fuel rest hf
    simp only [Conf] at hc
    obtain ⟨i, rfl, hc⟩ := hc
    simp only [RTS, intOK] at hR
    obtain ⟨hs, h1, h2⟩ := inRange_signed k i hR
    simp only [depth] at hf
    obtain ⟨f, rfl⟩ : ∃ f, fuel = f + 1 := ⟨fuel - 1, by omega⟩
    cases k <;> simp [IntKind.signed] at hs <;>
      simp only [IntKind.bits, Nat.reduceSub, Int.reducePow, Nat.reduceEqDiff, if_false, if_true] at h1 h2 hc <;>
      simp only [decode, norm]
    · rw [rI64_UV i ⟨by omega, by omega⟩ hc rest]; rfl
    · rw [hc, twos_eq]
      have := rI8_wI8 .compact i ⟨by omega, by omega⟩ rest
      simp only [wI8, List.cons_append, List.nil_append] at this ⊢
      rw [this]; rfl
    · rw [rI16_UV i ⟨by omega, by omega⟩ hc rest]; rfl
    · rw [rI32_UV i ⟨by omega, by omega⟩ hc rest]; rfl
    · rw [rI64_UV i ⟨by omega, by omega⟩ hc rest]; rfl
  | .f32, _ | .f64, _ | .any, _ | .arr _ _, _ => by
    intro d hd
    unfold Accepts
    intro ht; simp [tyOK] at ht
  | .str, v => by
    intro d hd
    unfold Accepts
    intro _ _ hR bs hc fuel rest hf
    simp only [Conf] at hc
    obtain ⟨s, rfl, hc⟩ := hc
    simp only [RTS, strOK, decide_eq_true_eq] at hR
    simp only [depth] at hf
    obtain ⟨f, rfl⟩ : ∃ f, fuel = f + 1 := ⟨fuel - 1, by omega⟩
    simp only [decode, rBytes_BytesC s hR hc, Res.bind, norm]
  | .bytes, v => by
    intro d hd
    unfold Accepts
    intro _ _ hR bs hc fuel rest hf
    simp only [Conf] at hc
    simp only [RTS] at hR
    simp only [depth] at hf
    obtain ⟨f, rfl⟩ : ∃ f, fuel = f + 1 := ⟨fuel - 1, by omega⟩
    cases v <;> simp [bytesOK] at hR <;> simp only [payload] at hc
    · simp only [decode, rBytes_BytesC _ hR hc, Res.bind, norm]
    · simp only [decode, rBytes_BytesC [] (by simp) hc, Res.bind, norm]
  | .slice t, v => by
    intro d hd
    unfold Accepts
    intro ht hx hR bs hc fuel rest hf
    rw [RTS_slice] at hR
    rw [depth_slice] at hf
    rw [nest_slice] at hd
    obtain ⟨f, rfl⟩ : ∃ f, fuel = f + 1 := ⟨fuel - 1, by omega⟩
    rw [decode_slice, norm_slice]
    simp only [Conf] at hc
    by_cases hu : isU8 t = true
    · simp only [hu, if_true] at hR hc ⊢
      cases v <;> simp [bytesOK] at hR <;> simp only [payload] at hc
      · simp only [rBytes_BytesC _ hR hc, Res.bind]
      · simp only [rBytes_BytesC [] (by simp) hc, Res.bind]
    · simp only [hu, Bool.false_eq_true, if_false, Bool.and_eq_true] at hR hc hd ⊢
      have htd : tooDeep d = false := tooDeep_false d (by omega)
      have hu' : isU8 t = false := by simpa using hu
      have htt : tyOK t = true := by simpa [tyOK, hu'] using ht
      obtain ⟨hreal, hR⟩ := hR
      obtain ⟨hdr, chunks, hh, hall2, rfl⟩ := hc
      have hnt : (typeOf t == TType.true_) = false := by simpa using typeOf_ne_true t
      have hvx := valOK_slice_elems t v hu' hx
      -- elementwise facts
      have hlen : (elems v).length ≤ 2147483647 ∧ ∀ a ∈ elems v, RTS t a = true := by
        cases v <;> simp only [listOK, Bool.false_eq_true] at hR
        · exact ⟨by simp [elems], fun a ha => by cases ha⟩
        · simp only [Bool.and_eq_true, decide_eq_true_eq] at hR
          rw [length_toList] at hR
          exact ⟨hR.1, all_toList _ _ hR.2⟩
      have hgood : All2 (fun a c => GoodChunk strict (d + 1) t (depth t) (norm t a) c) (elems v) chunks :=
        hall2.imp_mem fun a ha c hac =>
          ⟨conf_pos t a c hac, fun fuel rest hfa =>
            accept_norm strict t a (d + 1) (by omega) htt (hvx a ha) (hlen.2 a ha) c hac fuel rest hfa⟩
      simp only [List.length_append] at hf
      have hh1 := ListHdr_length_pos hh
      obtain ⟨t', hrd, ht'⟩ := rList_ListHdr _ _ hlen.1 hh (chunks.flatten ++ rest)
      rw [← typeOf_eq t htt] at ht'
      rw [List.append_assoc, hrd]
      simp only [Res.bind, ht', bne_self_eq_false, Bool.false_eq_true, if_false, htd]
      rw [decodeList_chunks strict (d + 1) t (norm t) (depth t) hgood f rest [] (by omega)]
      cases v <;> simp [elems, Vals.ofList]
  | .map k v, x => by
    intro d hd
    unfold Accepts
    intro ht hx hR bs hc fuel rest hf
    rw [RTS_map] at hR
    simp only [Bool.and_eq_true, decide_eq_true_eq] at hR
    obtain ⟨⟨⟨⟨⟨hk, hv⟩, _⟩, hlen⟩, hall⟩, hnd⟩ := hR
    have hall' := all_toList _ _ hall
    simp only [tyOK, Bool.and_eq_true] at ht
    have hvx := valOK_map_pairs k v x hx
    simp only [depth] at hf
    simp only [nest] at hd
    have htd : tooDeep d = false := tooDeep_false d (by omega)
    have hnk : d + 1 + nest k ≤ Gen.c_thrift_maxDepth := by split at hd <;> omega
    obtain ⟨f, rfl⟩ : ∃ f, fuel = f + 1 := ⟨fuel - 1, by omega⟩
    rw [decode_map, norm_map]
    simp only [Conf, ← isEmptyStruct_eq, ← pairsOfVal_eq] at hc
    generalize pairsOfVal x = ps at *
    have hntk : (typeOf k == TType.true_) = false := by simpa using typeOf_ne_true k
    have hkgood : ∀ a ∈ ps, ∀ c, Conf k a.1 c →
        GoodChunk strict (d + 1) k (max (depth k) (depth v)) (norm k a.1) c := by
      intro a ha c hac
      have := hall' a ha
      simp only [Bool.and_eq_true] at this
      exact ⟨conf_pos k a.1 c hac, fun fuel rest hfa =>
        accept_norm strict k a.1 (d + 1) hnk ht.1 (hvx a ha).1 this.1 c hac fuel rest
          (by have := Nat.le_max_left (depth k) (depth v); omega)⟩
    by_cases he : isEmptyStruct v = true
    · simp only [he, if_true] at hc ⊢
      obtain ⟨hdr, chunks, hh, hall2, rfl⟩ := hc
      have hh1 := ListHdr_length_pos hh
      simp only [List.length_append] at hf
      obtain ⟨t', hrd, ht'⟩ := rList_ListHdr _ _ hlen hh (chunks.flatten ++ rest)
      rw [← typeOf_eq k ht.1] at ht'
      rw [List.append_assoc, hrd]
      simp only [Res.bind, ht', bne_self_eq_false, Bool.false_eq_true, if_false, htd]
      cases ps with
      | nil =>
        rw [hall2.nil_left]
        simp [flat_nil]
      | cons a l =>
        have hn0 : ((a :: l).length == 0) = false := by simp
        simp only [hn0, Bool.false_eq_true, if_false]
        have hgood : All2 (fun a c => GoodChunk strict (d + 1) k (max (depth k) (depth v)) (norm k a.1) c) (a :: l) chunks :=
          hall2.imp_mem hkgood
        have := decodeSet_chunks strict (d + 1) k (norm k) (max (depth k) (depth v)) hgood []
          (by simpa using hnd) f rest (by omega)
        rw [flat_nil] at this
        rw [this]; simp
    · simp only [he, Bool.false_eq_true, if_false] at hc hd ⊢
      obtain ⟨hdr, chunks, hh, hall2, rfl⟩ := hc
      have hh1 := MapHdr_length_pos hh
      simp only [List.length_append] at hf
      obtain ⟨k', v', hrd, hkv⟩ := rMap_MapHdr _ _ _ hlen hh (chunks.flatten ++ rest)
      rw [← typeOf_eq k ht.1, ← typeOf_eq v ht.2] at hkv
      rw [List.append_assoc, hrd]
      simp only [Res.bind]
      cases ps with
      | nil =>
        rw [hall2.nil_left]
        simp [flat_nil]
      | cons a l =>
        have hne : (a :: l).length ≠ 0 := by simp
        have hn0 : ((a :: l).length == 0) = false := by simp
        simp only [hn0, Bool.false_eq_true, if_false, (hkv hne).1, (hkv hne).2, bne_self_eq_false, htd]
        have hgood : All2 (fun a c => ∃ ck cv, GoodChunk strict (d + 1) k (max (depth k) (depth v)) (norm k a.1) ck ∧
            GoodChunk strict (d + 1) v (max (depth k) (depth v)) (norm v a.2) cv ∧ c = ck ++ cv) (a :: l) chunks :=
          hall2.imp_mem fun b hb c hbc => by
            obtain ⟨ck, cv, h1, h2, h3⟩ := hbc
            have := hall' b hb
            simp only [Bool.and_eq_true, he, Bool.false_or] at this
            exact ⟨ck, cv, hkgood b hb ck h1,
              ⟨conf_pos v b.2 cv h2, fun fuel rest hfa =>
                accept_norm strict v b.2 (d + 1) (by omega) ht.2 (hvx b hb).2 this.2 cv h2 fuel rest
                  (by have := Nat.le_max_right (depth k) (depth v); omega)⟩, h3⟩
        have := decodeMap_chunks strict (d + 1) k v (norm k) (norm v) (max (depth k) (depth v)) hgood []
          (by simpa using hnd) f rest (by omega)
        rw [flat_nil] at this
        rw [this]; simp
  | .struct fs, v => by
    intro d hd
    unfold Accepts
    intro ht hx hR bs hc fuel rest hf
    simp only [RTS, Bool.and_eq_true] at hR
    obtain ⟨hids, hR⟩ := hR
    simp only [Conf] at hc
    obtain ⟨vs, rfl, rs, order, hcf, hperm, hs⟩ := hc
    simp only [structOK] at hR
    simp only [valOK] at hx
    simp only [tyOK, Bool.and_eq_true] at ht
    rw [depth_struct] at hf
    simp only [nest] at hd
    have htd : tooDeep d = false := tooDeep_false d (by omega)
    have hs1 := Stream_length_pos hs
    obtain ⟨f, rfl⟩ : ∃ f, fuel = f + 1 := ⟨fuel - 1, by omega⟩
    obtain ⟨seen, hdec, hreq⟩ := struct_accept strict (d + 1) fs vs ht.1.1 hx hids hR
      (fields_accept strict fs vs (d + 1) (by omega)) rs order bs hcf hperm hs f rest (by omega)
    simp only [decode, htd, Bool.false_eq_true, if_false, zeroOf, hdec, Res.bind, hreq, norm]
  | .ptr t, v => by
    intro d hd
    unfold Accepts
    intro ht hx hR bs hc fuel rest hf
    simp only [RTS] at hR
    simp only [tyOK] at ht
    simp only [depth] at hf
    simp only [nest] at hd
    obtain ⟨f, rfl⟩ : ∃ f, fuel = f + 1 := ⟨fuel - 1, by omega⟩
    simp only [Conf, ← zeroOf_eq] at hc
    cases v <;> simp only [ptrOK, Bool.false_eq_true] at hR <;> simp only [valOK] at hx <;>
      simp only at hc <;> simp only [decode, zeroOf, norm]
    · rw [accept_norm strict t _ d hd ht (valOK_zeroOf t ht) hR bs hc f rest (by omega)]; rfl
    · rw [accept_norm strict t _ d hd ht hx hR bs hc f rest (by omega)]; rfl
  | .named _ t, v => by
    intro d hd
    unfold Accepts
    intro ht hx hR bs hc fuel rest hf
    simp only [RTS] at hR
    simp only [tyOK] at ht
    simp only [valOK] at hx
    simp only [Conf] at hc
    simp only [depth] at hf
    simp only [nest] at hd
    obtain ⟨f, rfl⟩ : ∃ f, fuel = f + 1 := ⟨fuel - 1, by omega⟩
    simp only [decode, zeroOf, norm]
    exact accept_norm strict t v d hd ht hx hR bs hc f rest (by omega)
theorem fields_accept (strict : Bool) : (fs : Fields) → (vs : Vals) →
    ∀ (d : Nat), d + nestFields fs ≤ Gen.c_thrift_maxDepth → AllAccept strict d fs vs
  | .nil, _ => by simp [AllAccept]
  | .cons _ _ _ _ _, .nil => by simp [AllAccept]
  | .cons _ _ _ t rest, .cons x vs => by
    intro d hd
    simp only [nestFields] at hd
    exact ⟨accept_norm strict t x d (by omega), fields_accept strict rest vs d (by omega)⟩
end

end Enc.Lemmas.ThriftAccept
