import Enc.Lemmas.ProtoTemplateMulti
/-!
# The table `parseMembers` builds, for ANY presented type (no rules)

What the parser does with one member is the black box `parseEntry`; the table is sorted by field number and holds exactly
one entry per member (`InvG`). Inversion lemmas of `parseEntry` for scalar, message and repeated scalar fields.
-/
namespace Enc.Lemmas.ProtoTemplate
open Enc Enc.Spec.Protobuf Enc.Lemmas.ProtoRewriteSpec
open Enc.Model.Proto (PKind RwT Rw TFields TType parseLeaf parseTemplate parseStruct parseMembers parseElems parseOne
  lookupFieldByName rewriteT rewrite gvString gvObj gvList findRule multiOfT insertEnt tableLen PF getRwT)
open Enc.Model.Json (GV GMs)

def isMapT : TType → Bool | .map _ _ => true | _ => false

/-- what `parseMembers` does with ONE member (no rules) -/
def parseEntry (pf : PF) (fuel : Nat) (tt : TType) (n : Nat) (rep : Bool) (jv : GV) : Res RwT :=
  match (if rep then gvList jv else some [jv]) with
  | none => .err "json"
  | some fields => (parseElems pf fuel tt n rep fields none).bind fun rws =>
      .ok (if rep || isMapT tt then RwT.replacement (multiOfT rws) else multiOfT rws)

theorem parseMembers_cons (pf) (tfs : TFields) (k : Bytes) (v : GV) (rest : GMs) (fuel : Nat) :
    parseMembers pf (fuel + 1) tfs (.cons k v rest) [] =
      match lookupFieldByName tfs k with
      | none => .err "invalidFieldName"
      | some (n, rep, tt) => (parseEntry pf fuel tt n rep v).bind fun m =>
          (parseMembers pf fuel tfs rest []).bind fun ents => .ok (insertEnt n m ents) := by
  simp only [parseMembers, findRule, parseEntry]
  cases lookupFieldByName tfs k with
  | none => rfl
  | some p =>
    obtain ⟨n, rep, tt⟩ := p
    simp only
    cases (if rep = true then gvList v else some [v]) with
    | none => simp [Res.bind]
    | some fields =>
      simp only
      cases parseElems pf fuel tt n rep fields none with
      | err e => simp [Res.bind]
      | panic e => simp [Res.bind]
      | ok rws =>
        cases tt <;> simp [Res.bind, isMapT]

def NamesInj (tfs : TFields) : Prop :=
  ∀ k k' n a b a' b', lookupFieldByName tfs k = some (n, a, b) → lookupFieldByName tfs k' = some (n, a', b') → k = k'

structure InvG (pf : PF) (tfs : TFields) (ms : GMs) (ents : List (Nat × RwT)) : Prop where
  sorted : SortedE ents
  sound : ∀ n r, (n, r) ∈ ents → ∃ k jv rep tt f, GMem k jv ms ∧ lookupFieldByName tfs k = some (n, rep, tt) ∧
    parseEntry pf f tt n rep jv = .ok r
  complete : ∀ k jv n rep tt, GMem k jv ms → lookupFieldByName tfs k = some (n, rep, tt) →
    ∃ r f, (n, r) ∈ ents ∧ parseEntry pf f tt n rep jv = .ok r
  len : ents.length ≤ gmLen ms

theorem parseMembers_invG (pf : PF) (tfs : TFields) (hinj : NamesInj tfs) :
    ∀ (ms : GMs) (fuel : Nat) (ents : List (Nat × RwT)), KeysNodup ms → parseMembers pf fuel tfs ms [] = .ok ents →
      InvG pf tfs ms ents
  | ms, 0, ents, _, h => by simp [parseMembers] at h
  | .nil, f + 1, ents, _, h => by
    simp only [parseMembers, Res.ok.injEq] at h
    subst h
    exact ⟨by simp [SortedE], fun n r hm => by simp at hm, fun k jv n rep tt hm => by simp [GMem] at hm, by simp⟩
  | .cons k jv rest, f + 1, ents, hnd, h => by
    rw [parseMembers_cons] at h
    cases hl : lookupFieldByName tfs k with
    | none => simp [hl] at h
    | some p =>
      obtain ⟨n, rep, tt⟩ := p
      simp only [hl] at h
      cases he : parseEntry pf f tt n rep jv with
      | err e => simp [he, Res.bind] at h
      | panic e => simp [he, Res.bind] at h
      | ok m =>
        simp only [he, Res.bind] at h
        cases hr : parseMembers pf f tfs rest [] with
        | err e => simp [hr] at h
        | panic e => simp [hr] at h
        | ok ents' =>
          simp only [hr, Res.ok.injEq] at h
          subst h
          simp only [KeysNodup] at hnd
          have ih := parseMembers_invG pf tfs hinj rest f ents' hnd.2 hr
          have hfresh : ∀ q, q ∈ ents' → q.1 ≠ n := by
            intro q hq hqn
            obtain ⟨k', jv', rep', tt', f', hm', hl', _⟩ := ih.sound q.1 q.2 hq
            rw [hqn] at hl'
            have := hinj k' k n _ _ _ _ hl' hl
            subst this
            exact hnd.1 jv' hm'
          refine ⟨sorted_insertEnt n m ents' ih.sorted, ?_, ?_, by
            have := length_insertEnt_le n m ents'; have := ih.len; simp only [gmLen]; omega⟩
          · intro n' r hm'
            rcases mem_insertEnt n m ents' (n', r) hm' with he' | he'
            · simp only [Prod.mk.injEq] at he'
              obtain ⟨rfl, rfl⟩ := he'
              exact ⟨k, jv, rep, tt, f, Or.inl ⟨rfl, rfl⟩, hl, he⟩
            · obtain ⟨k', jv', rep', tt', f', a, b, c⟩ := ih.sound n' r he'
              exact ⟨k', jv', rep', tt', f', Or.inr a, b, c⟩
          · intro k' jv' n' rep' tt' hm' hl'
            rcases hm' with ⟨rfl, rfl⟩ | hm'
            · rw [hl] at hl'
              simp only [Option.some.injEq, Prod.mk.injEq] at hl'
              obtain ⟨rfl, rfl, rfl⟩ := hl'
              exact ⟨m, f, mem_insertEnt_self n m ents' hfresh, he⟩
            · obtain ⟨r, f', a, b⟩ := ih.complete k' jv' n' rep' tt' hm' hl'
              exact ⟨r, f', mem_insertEnt_of_mem n m ents' _ a, b⟩

/-- non-vacuity: a type with a nested message field and a repeated field has injective names; a two-member template
with distinct keys parses, so `parseMembers_invG` applies -/
def exTfs : TFields :=
  .cons [0x61] 1 false (.msg (.cons [0x78] 1 false (.prim .bool) .nil)) (.cons [0x62] 2 true (.prim .int32) .nil)

example : NamesInj exTfs := by
  intro k k' n a b a' b' h h'
  simp only [exTfs, lookupFieldByName] at h h'
  by_cases h1 : ([0x62] : Bytes) = k <;> by_cases h2 : ([0x61] : Bytes) = k <;>
    by_cases h3 : ([0x62] : Bytes) = k' <;> by_cases h4 : ([0x61] : Bytes) = k' <;> simp_all <;> omega

example : KeysNodup (.cons [0x61] (.obj (.cons [0x78] (.bool true) .nil)) (.cons [0x62] (.arr .nil) .nil)) := by
  simp [KeysNodup, GMem]

example : ∃ ents, parseMembers (fun _ _ => none) 10 exTfs
    (.cons [0x61] (.obj (.cons [0x78] (.bool true) .nil)) (.cons [0x62] (.arr .nil) .nil)) [] = .ok ents := by
  simp [parseMembers, exTfs, lookupFieldByName, findRule, parseElems, parseOne, parseStruct, gvObj, gvList, parseLeaf,
    Enc.Model.Proto.gvBool, Enc.Model.Proto.GVs.toList, Res.bind, multiOfT, insertEnt]

/-! ### inversion of `parseEntry` -/

theorem parseLeaf_shape (pf : PF) (k : PKind) (f : Nat) (j : GV) (x : RwT) (h : parseLeaf pf k f j = .ok (some x)) :
    ∃ rb, x = .raw rb := by
  cases k <;> simp only [parseLeaf] at h <;> split at h <;> try (simp at h)
  all_goals (split at h <;> simp at h <;> exact ⟨_, h.symm⟩)

theorem parseEntry_prim (pf : PF) (f : Nat) (kind : PKind) (n : Nat) (jv : GV) (r : RwT)
    (h : parseEntry pf f (.prim kind) n false jv = .ok r) : LeafRel pf kind n jv r := by
  simp only [parseEntry, Bool.false_eq_true, if_false, isMapT, Bool.or_self] at h
  match f, h with
  | 0, h => simp [parseElems, Res.bind] at h
  | 1, h => simp [parseElems, parseOne, Res.bind] at h
  | f + 2, h =>
    simp only [parseElems, parseOne] at h
    cases hp : parseLeaf pf kind n jv with
    | err e => simp [hp, Res.bind] at h
    | panic e => simp [hp, Res.bind] at h
    | ok o =>
      cases o with
      | none =>
        simp [hp, Res.bind, multiOfT] at h
        exact Or.inl ⟨hp, h.symm⟩
      | some x =>
        obtain ⟨rb, rfl⟩ := parseLeaf_shape pf kind n jv x hp
        simp [hp, Res.bind, multiOfT] at h
        exact Or.inr ⟨rb, hp, h.symm⟩

theorem parseEntry_msg (pf : PF) (f : Nat) (tgs : TFields) (n : Nat) (jv : GV) (r : RwT) (hn : n ≠ 0)
    (h : parseEntry pf f (.msg tgs) n false jv = .ok r) :
    ∃ ms' es f', gvObj jv = some ms' ∧ parseMembers pf f' tgs ms' [] = .ok es ∧ r = .embeddedMerge n (tableLen es) es := by
  simp only [parseEntry, Bool.false_eq_true, if_false, isMapT, Bool.or_self] at h
  match f, h with
  | 0, h => simp [parseElems, Res.bind] at h
  | 1, h => simp [parseElems, parseOne, Res.bind] at h
  | 2, h => simp [parseElems, parseOne, parseStruct, Res.bind] at h
  | f + 3, h =>
    simp only [parseElems, parseOne, parseStruct] at h
    cases ho : gvObj jv with
    | none => simp [ho, Res.bind] at h
    | some ms' =>
      simp only [ho] at h
      cases hm : parseMembers pf f tgs ms' [] with
      | err e => simp [hm, Res.bind] at h
      | panic e => simp [hm, Res.bind] at h
      | ok es =>
        simp [hm, Res.bind, hn, multiOfT] at h
        exact ⟨ms', es, f, rfl, hm, h.symm⟩

/-- repeated scalar field: the non-nil leaf rewriters of the elements, in order, under `replacement` -/
inductive LeafList (pf : PF) (kind : PKind) (n : Nat) : List GV → List RwT → Prop
  | nil : LeafList pf kind n [] []
  | skip (j js rws) : parseLeaf pf kind n j = .ok none → LeafList pf kind n js rws → LeafList pf kind n (j :: js) rws
  | keep (j js rws rb) : parseLeaf pf kind n j = .ok (some (.raw rb)) → LeafList pf kind n js rws →
      LeafList pf kind n (j :: js) (.raw rb :: rws)

theorem parseElems_prim_list (pf : PF) (kind : PKind) (n : Nat) (rep : Bool) :
    ∀ (js : List GV) (f : Nat) (rws : List RwT), parseElems pf f (.prim kind) n rep js none = .ok rws →
      LeafList pf kind n js rws
  | js, 0, rws, h => by simp [parseElems] at h
  | [], f + 1, rws, h => by
    simp only [parseElems, Res.ok.injEq] at h
    subst h
    exact .nil
  | j :: js, 0 + 1, rws, h => by simp [parseElems, parseOne, Res.bind] at h
  | j :: js, f + 2, rws, h => by
    simp only [parseElems, parseOne] at h
    cases hp : parseLeaf pf kind n j with
    | err e => simp [hp, Res.bind] at h
    | panic e => simp [hp, Res.bind] at h
    | ok o =>
      simp only [hp, Res.bind] at h
      cases hr : parseElems pf (f + 1) (.prim kind) n rep js none with
      | err e => simp [hr] at h
      | panic e => simp [hr] at h
      | ok rest =>
        have ih := parseElems_prim_list pf kind n rep js (f + 1) rest hr
        cases o with
        | none =>
          simp [hr] at h
          subst h
          exact .skip j js rest hp ih
        | some x =>
          obtain ⟨rb, rfl⟩ := parseLeaf_shape pf kind n j x hp
          simp [hr] at h
          subst h
          exact .keep j js rest rb hp ih

theorem parseEntry_rep_prim (pf : PF) (f : Nat) (kind : PKind) (n : Nat) (jv : GV) (r : RwT)
    (h : parseEntry pf f (.prim kind) n true jv = .ok r) :
    ∃ js rws, gvList jv = some js ∧ LeafList pf kind n js rws ∧ r = .replacement (multiOfT rws) := by
  simp only [parseEntry, if_true, Bool.true_or] at h
  cases hl : gvList jv with
  | none => simp [hl] at h
  | some js =>
    simp only [hl] at h
    cases hr : parseElems pf f (.prim kind) n true js none with
    | err e => simp [hr, Res.bind] at h
    | panic e => simp [hr, Res.bind] at h
    | ok rws =>
      simp [hr, Res.bind] at h
      exact ⟨js, rws, rfl, parseElems_prim_list pf kind n true js f rws hr, h.symm⟩

#print axioms parseMembers_invG
#print axioms parseEntry_prim
#print axioms parseEntry_msg
#print axioms parseEntry_rep_prim

end Enc.Lemmas.ProtoTemplate
