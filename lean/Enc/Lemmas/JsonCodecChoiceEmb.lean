import Enc.Spec.Json.StdCodecChoice
import Enc.Spec.Json.EmbedCycle
import Enc.Lemmas.JsonCodecChoiceTerm
/-!
# The specification's expansion of embedded structs does not depend on its context

`stdEmbedded codec env ef visited typ addr` (the promoted fields of the embedded struct type `typ`) carries a fuel and the
list of struct types being expanded on the way. When `typ` contains no cycle of embedded structs (`NoEmbeddedCycle env typ`) the
`visited` check never fires and the fuel `embedFuel` is never exhausted, so the result is the field list of `typ` on its
own: `stdEmbedded_eq_fields`.
-/
set_option linter.unusedSimpArgs false
set_option linter.unusedVariables false
namespace Enc.Lemmas.JsonCodecChoiceEmb
open Enc.Model.Json.CodecChoice Enc.Spec.Json.StdCodecChoice Enc.Spec.Json.EmbedCycle
open Enc.Lemmas.JsonCodecChoiceSeen Enc.Lemmas.JsonCodecChoiceTerm

theorem reach_trans {env : Env} {a b c : TD} (h1 : Reach env a b) (h2 : Reach env b c) : Reach env a c := by
  induction h2 with
  | refl => exact h1
  | step _ hm ih => exact .step ih hm

theorem reach_child {env : Env} {a b : TD} (h : b ∈ children env a) : Reach env a b := .step (.refl a) h

theorem noEmbedCycle_of_reach {env : Env} {t S : TD} (h : NoEmbeddedCycle env t) (hr : Reach env t S) :
    NoEmbeddedCycle env S :=
  fun S' typ hS' htyp hb => h S' typ (reach_trans hr hS') htyp hb

theorem mem_embedsFL_field (env : Env) : ∀ (fl : FL) (typ : TD), typ ∈ embedsFL env fl → ∃ ft, ft ∈ fieldTypes fl ∧ typ = peel ft
  | .nil, typ, h => by simp [embedsFL] at h
  | .cons n emb str ft r, typ, h => by
    simp only [embedsFL] at h
    split at h
    · rcases List.mem_cons.mp h with rfl | h'
      · exact ⟨ft, by simp [fieldTypes], rfl⟩
      · obtain ⟨ft', h1, h2⟩ := mem_embedsFL_field env r typ h'
        exact ⟨ft', by simp [fieldTypes, h1], h2⟩
    · obtain ⟨ft', h1, h2⟩ := mem_embedsFL_field env r typ h
      exact ⟨ft', by simp [fieldTypes, h1], h2⟩

theorem fieldTypes_children (env : Env) (t ft : TD) (h : ft ∈ fieldTypes (fieldsOf env t)) : ft ∈ children env t := by
  unfold fieldsOf at h
  unfold children
  cases hu : under env t <;> simp only [hu] at h ⊢ <;> first | exact h | simp [fieldTypes] at h

theorem reach_peel (env : Env) (ft : TD) : Reach env ft (peel ft) := by
  cases ft <;> first | exact .refl _ | skip
  rename_i e
  exact reach_child (show e ∈ children env (.ptr e) by simp [children, under])

theorem embeds_reach {env : Env} {S typ : TD} (h : typ ∈ embeds env S) : Reach env S typ := by
  obtain ⟨ft, h1, rfl⟩ := mem_embedsFL_field env _ typ h
  exact reach_trans (reach_child (fieldTypes_children env S ft h1)) (reach_peel env ft)

theorem embReach_reach {env : Env} {a b : TD} (h : EmbReach env a b) : Reach env a b := by
  induction h with
  | refl => exact .refl _
  | step _ hm ih => exact reach_trans ih (embeds_reach hm)

theorem embReach_trans {env : Env} {a b c : TD} (h1 : EmbReach env a b) (h2 : EmbReach env b c) : EmbReach env a c := by
  induction h2 with
  | refl => exact h1
  | step _ hm ih => exact .step ih hm

/-! ## the result depends on `sub` only at the embedded types -/

theorem stdFieldsWith_congr (codec : TD → Bool → Choice) (sub sub' : TD → Bool → CL) (env : Env) (a : Bool) :
    ∀ fl : FL, (∀ typ, typ ∈ embedsFL env fl → ∀ b, sub typ b = sub' typ b) →
      stdFieldsWith codec sub env a fl = stdFieldsWith codec sub' env a fl
  | .nil, _ => by simp [stdFieldsWith]
  | .cons n emb str ft r, h => by
    have hr : ∀ typ, typ ∈ embedsFL env r → ∀ b, sub typ b = sub' typ b := by
      intro typ ht b
      apply h typ _ b
      simp only [embedsFL]
      split
      · exact List.mem_cons_of_mem _ ht
      · exact ht
    have ih := stdFieldsWith_congr codec sub sub' env a r hr
    simp only [stdFieldsWith]
    by_cases h0 : (emb && isStructKind (under env (peel ft))) = true
    · simp only [h0, if_true]
      have : sub (peel ft) (a || isPtrKind ft) = sub' (peel ft) (a || isPtrKind ft) := by
        apply h
        simp only [embedsFL, h0, if_true]
        exact List.mem_cons_self
      rw [this, ih]
    · have h0' : (emb && isStructKind (under env (peel ft))) = false := by simpa using h0
      simp only [h0', Bool.false_eq_true, if_false]
      rw [ih]

/-! ## the fuel -/

def seenOf (V : List TD) : Seen := V.map fun t => ((t, false), Entry.building (t, false))

def NFv (env : Env) (V : List TD) (n : Nat) : Nat := unseen env (seenOf V) * (maxDef env + 2) + n

theorem seenOf_find_none (V : List TD) (t : TD) (h : V.contains t = false) : (seenOf V).find (t, false) = none := by
  induction V with
  | nil => simp [seenOf, Seen.find]
  | cons x r ih =>
    have hx : (t == x) = false := by
      simp only [List.contains_cons, Bool.or_eq_false_iff] at h; exact h.1
    have hr : r.contains t = false := by
      simp only [List.contains_cons, Bool.or_eq_false_iff] at h; exact h.2
    have ih' := ih hr
    simp only [seenOf, Seen.find] at ih' ⊢
    simp only [List.map, List.lookup]
    have : ((t, false) == (x, false)) = false := by
      have : t ≠ x := by simpa using hx
      simp [this]
    simp only [this]
    exact ih'

theorem embedsFL_size (env : Env) : ∀ (fl : FL) (typ : TD), typ ∈ embedsFL env fl → typ.size + 1 ≤ fl.size
  | .nil, typ, h => by simp [embedsFL] at h
  | .cons n emb str ft r, typ, h => by
    simp only [embedsFL] at h
    have hp : (peel ft).size ≤ ft.size := by cases ft <;> simp [peel, TD.size]
    simp only [FL.size]
    split at h
    · rcases List.mem_cons.mp h with rfl | h'
      · omega
      · have := embedsFL_size env r typ h'; omega
    · have := embedsFL_size env r typ h; omega

theorem allKeys_length (env : Env) : (allKeys env).length = 2 * env.length := by
  induction env with
  | nil => simp [allKeys]
  | cons p r ih => obtain ⟨i, d⟩ := p; simp [allKeys, ih]; omega

theorem unseen_le (env : Env) (s : Seen) : unseen env s ≤ 2 * env.length := by
  unfold unseen
  rw [← allKeys_length]
  exact List.length_filter_le _ _

/-- one level of embedding uses up fuel -/
theorem NFv_step (env : Env) (V : List TD) (typ typ' : TD) (hV : V.contains typ = false) (h : typ' ∈ embeds env typ) :
    NFv env (typ :: V) typ'.size < NFv env V typ.size := by
  unfold embeds fieldsOf at h
  have hmono : unseen env (seenOf (typ :: V)) ≤ unseen env (seenOf V) :=
    unseen_mono env _ _ (mono_set (seenOf V) (typ, false) (.building (typ, false)))
  cases hu : under env typ <;> simp only [hu] at h <;> try (simp [embedsFL] at h; done)
  rename_i fs
  have hsz := embedsFL_size env fs typ' h
  rcases under_cases env typ with h1 | ⟨id, rfl⟩
  · rw [h1] at hu; subst hu
    unfold NFv
    have := Nat.mul_le_mul_right (maxDef env + 2) hmono
    simp only [TD.size]
    omega
  · obtain ⟨d, hd, hmax⟩ := under_ref env id (by rw [hu]; simp)
    rw [hu] at hmax
    simp only [TD.size] at hmax
    have hlt := unseen_set_lt env (seenOf V) (.ref id, false) (.building (.ref id, false)) (mem_allKeys env id d false hd)
      (seenOf_find_none V _ hV)
    have hlt' : unseen env (seenOf (TD.ref id :: V)) + 1 ≤ unseen env (seenOf V) := hlt
    have := Nat.mul_le_mul_right (maxDef env + 2) hlt'
    rw [Nat.add_mul] at this
    unfold NFv
    simp only [TD.size]
    omega

def NoHit (env : Env) (V : List TD) (typ : TD) : Prop := ∀ x, EmbReach env typ x → V.contains x = false

theorem stdEmbedded_indep (codec : TD → Bool → Choice) (env : Env) :
    ∀ (ef ef' : Nat) (V V' : List TD) (typ : TD) (b : Bool), NoEmbeddedCycle env typ →
      NFv env V typ.size < ef → NFv env V' typ.size < ef' → NoHit env V typ → NoHit env V' typ →
      stdEmbedded codec env ef V typ b = stdEmbedded codec env ef' V' typ b
  | 0, _, _, _, _, _, _, h, _, _, _ => by omega
  | _ + 1, 0, _, _, _, _, _, _, h, _, _ => by omega
  | ef + 1, ef' + 1, V, V', typ, b, hsafe, hf, hf', hn, hn' => by
    have hV : V.contains typ = false := hn typ (.refl typ)
    have hV' : V'.contains typ = false := hn' typ (.refl typ)
    simp only [stdEmbedded, hV, hV', Bool.false_eq_true, if_false]
    apply stdFieldsWith_congr
    intro typ' hmem b'
    have hmem' : typ' ∈ embeds env typ := hmem
    have hsafe' : NoEmbeddedCycle env typ' := noEmbedCycle_of_reach hsafe (embeds_reach hmem')
    have hnh : ∀ W, NoHit env W typ → NoHit env (typ :: W) typ' := by
      intro W hW x hx
      simp only [List.contains_cons, Bool.or_eq_false_iff]
      constructor
      · have : x ≠ typ := by
          intro hxe; subst hxe
          exact hsafe x typ' (.refl x) hmem' hx
        simpa using this
      · exact hW x (embReach_trans (.step (.refl typ) hmem') hx)
    have h1 := NFv_step env V typ typ' hV hmem'
    have h2 := NFv_step env V' typ typ' hV' hmem'
    exact stdEmbedded_indep codec env ef ef' (typ :: V) (typ :: V') typ' b' hsafe' (by omega) (by omega)
      (hnh V hn) (hnh V' hn')

/-- the field list of a struct type on its own -/
def stdFields (d : Nat) (env : Env) (t : TD) (a : Bool) : CL :=
  stdFieldsWith (stdD d env) (stdEmbedded (stdD d env) env (embedFuel env t) [t]) env a (fieldsOf env t)

theorem NFv_nil_lt (env : Env) (t : TD) : NFv env [] t.size < embedFuel env t + 1 := by
  unfold NFv embedFuel
  have := Nat.mul_le_mul_right (maxDef env + 2) (unseen_le env (seenOf []))
  omega

/-- **the promoted fields of an embedded struct type are its own field list**, whatever struct embeds it -/
theorem stdEmbedded_eq_fields (d : Nat) (env : Env) (S typ : TD) (b : Bool) (hsafe : NoEmbeddedCycle env S)
    (hmem : typ ∈ embeds env S) :
    stdEmbedded (stdD d env) env (embedFuel env S) [S] typ b = stdFields d env typ b := by
  have hsafe' : NoEmbeddedCycle env typ := noEmbedCycle_of_reach hsafe (embeds_reach hmem)
  have hnil : NoHit env [] typ := fun x _ => by simp
  have hS : NoHit env [S] typ := by
    intro x hx
    have : x ≠ S := by
      intro hxe; subst hxe
      exact hsafe x typ (.refl x) hmem hx
    simpa using this
  have h0 := NFv_step env [] S typ (by simp) hmem
  have h1 := NFv_nil_lt env S
  have h2 := NFv_nil_lt env typ
  rw [stdEmbedded_indep (stdD d env) env (embedFuel env S) (embedFuel env typ + 1) [S] [] typ b hsafe' (by omega) h2 hS hnil]
  simp [stdEmbedded, stdFields]

end Enc.Lemmas.JsonCodecChoiceEmb

#print axioms Enc.Lemmas.JsonCodecChoiceEmb.stdEmbedded_eq_fields
