import Enc.Lemmas.ThriftRoundTripDefs
/-!
C04, the struct loop: `decodeStruct` over `emitFields p l last` for records that the target DECLARES consumes the
records one by one (binary: fixed headers; compact: delta / long headers and bool-in-header fields), stores each decoded
value at the declared position, records the id in `seen`, and stops at the stop field.
-/
namespace Enc.Lemmas.ThriftRoundTrip
open Enc Enc.Model.Thrift Enc.Lemmas.ThriftPrim Enc.Lemmas.ThriftSkip

/-! ### `Vals.get` / `Vals.set` -/
theorem length_set : ∀ (vs : Vals) (n : Nat) (x : Val), (Vals.set vs n x).length = vs.length
  | .nil, _, _ => rfl
  | .cons _ _, 0, _ => rfl
  | .cons _ r, n + 1, x => by simp [Vals.set, Vals.length, length_set r n x]

theorem get_set_eq : ∀ (vs : Vals) (n : Nat) (x : Val), n < vs.length → Vals.get (Vals.set vs n x) n = x
  | .nil, _, _, h => by simp [Vals.length] at h
  | .cons _ _, 0, _, _ => rfl
  | .cons _ r, n + 1, x, h => by
    simp only [Vals.set, Vals.get]
    exact get_set_eq r n x (by simp only [Vals.length] at h; omega)

theorem get_set_ne : ∀ (vs : Vals) (m n : Nat) (x : Val), m ≠ n → Vals.get (Vals.set vs m x) n = Vals.get vs n
  | .nil, _, _, _, _ => rfl
  | .cons _ _, 0, 0, _, h => by omega
  | .cons _ _, 0, n + 1, _, _ => rfl
  | .cons _ _, m + 1, 0, _, _ => rfl
  | .cons _ r, m + 1, n + 1, x, h => by
    simp only [Vals.set, Vals.get]
    exact get_set_ne r m n x (by omega)

theorem ext_get : ∀ (a b : Vals), a.length = b.length → (∀ n, Vals.get a n = Vals.get b n) → a = b
  | .nil, .nil, _, _ => rfl
  | .nil, .cons _ _, h, _ => by simp [Vals.length] at h
  | .cons _ _, .nil, h, _ => by simp [Vals.length] at h
  | .cons x r, .cons y s, h, hg => by
    have h0 := hg 0
    simp only [Vals.get] at h0
    have := ext_get r s (by simp only [Vals.length] at h; omega) (fun n => by simpa [Vals.get] using hg (n + 1))
    rw [h0, this]

/-! ### one declared record -/

/-- position at which the struct decoder stores the field with this id -/
def posOf (descs : List FieldDesc) (id : Int) : Nat :=
  match findById descs id with
  | some d => d.pos
  | none => 0

/-- decoding the value part of a field: `z` is the target's current value, `w` the result. Enum-tagged integer fields
are read with `rI32` whatever their kind, all other fields by `decode` (fuel: body length + `B`) at the nesting depth `d`
of the struct's fields (= the struct's own depth + 1). -/
def ValStep (p : Proto) (strict : Bool) (d : Nat) (fd : FieldDesc) (body : Bytes) (B : Nat) (z w : Val) : Prop :=
  (∀ k, fd.enum = true → baseOf fd.ty = .int k →
    ∃ i, (∀ rest, rI32 p (body ++ rest) = .ok (i, rest)) ∧ wrapPtr fd.ty (.int (wrapTo k.bits i)) = w) ∧
  (¬ (fd.enum = true ∧ ∃ k, baseOf fd.ty = .int k) →
    ∀ fuel rest, body.length + B ≤ fuel → decode p strict d fuel fd.ty (body ++ rest) z = .ok (w, rest))

/-- what the struct loop needs from one emitted record: a declared id in 1 … 32767, the declared wire type, and the
value step from the initial value `Z[pos]` to the target value `T[pos]` -/
def DecRec (p : Proto) (strict : Bool) (d : Nat) (descs : List FieldDesc) (Z T : Vals) (B : Nat) (f : FieldRec) : Prop :=
  1 ≤ f.id ∧ f.id ≤ 32767 ∧ isReal f.t = true ∧ f.t ≠ .true_ ∧
  ∃ fd, findById descs f.id = some fd ∧ typeOf fd.ty = f.t ∧ fd.pos < T.length ∧
    (f.t = .bool → wrapPtr fd.ty (.bool f.isTrue) = Vals.get T fd.pos) ∧
    ValStep p strict d fd f.body B (Vals.get Z fd.pos) (Vals.get T fd.pos)

theorem wField_length_pos (p : Proto) (t : TType) (id : Int) (dl : Bool) : 1 ≤ (wField p t id dl).length := by
  cases p <;> simp only [wField]
  · simp
  · split
    · simp
    · split <;> simp

theorem wStopField_length_pos (p : Proto) : 1 ≤ (wStopField p).length := by
  cases p <;> simp [wStopField]

theorem decodeStruct_stop (p : Proto) (strict : Bool) (d fuel : Nat) (descs : List FieldDesc) (rest : Bytes)
    (vs : Vals) (last : Int) (num : Nat) (seen : List Int) (hf : 1 ≤ fuel) :
    decodeStruct p strict d fuel descs (wStopField p ++ rest) vs last num seen = .ok ((vs, seen), rest) := by
  obtain ⟨f, rfl⟩ : ∃ f, fuel = f + 1 := ⟨fuel - 1, by omega⟩
  cases p with
  | compact =>
    have : wStopField .compact = wField .compact .stop 0 false := rfl
    rw [decodeStruct, this, rField_wField_compact_stop]
    simp
  | binary s =>
    rw [decodeStruct, wStopField_binary s false, rField_wField_binary s .stop 0 false (Or.inr rfl) (by decide)]
    simp

/-- evaluates the value part of one declared field inside an unfolded `decodeStruct` -/
local macro "val_step" d:ident hval:ident hf:ident : tactic => `(tactic|
  (obtain ⟨hv1, hv2⟩ := $hval
   by_cases he : FieldDesc.enum $d = true
   · simp only [he, if_true]
     split
     · rename_i k hk
       obtain ⟨i, hi, hw⟩ := hv1 k he hk
       rw [hi]; simp only [Res.bind, dontExpectEOF_ok, hw]
     · rename_i hk
       rw [hv2 (fun ⟨_, k, hk'⟩ => hk k hk') _ _ $hf]; simp only [dontExpectEOF_ok, Res.bind]
   · simp only [he, Bool.false_eq_true, if_false]
     rw [hv2 (fun ⟨h, _⟩ => he h) _ _ $hf]; simp only [dontExpectEOF_ok, Res.bind]))

/-- one declared record, any protocol: the loop stores the decoded value and continues after the record -/
theorem decodeStruct_declared (p : Proto) (strict : Bool) (d : Nat) (descs : List FieldDesc) (Z T : Vals) (B : Nat)
    (f : FieldRec) (r : List FieldRec) (hd : DecRec p strict d descs Z T B f)
    (last : Int) (hl : 0 ≤ last) (hlt : last < f.id) (fuel : Nat)
    (hf' : ¬ (p.coalesce = true ∧ f.t = .bool) → f.body.length + B ≤ fuel)
    (vs : Vals) (hz : Vals.get vs (posOf descs f.id) = Vals.get Z (posOf descs f.id))
    (num : Nat) (seen : List Int) (rest : Bytes) :
    decodeStruct p strict d (fuel + 1) descs (emitFields p (f :: r) last ++ rest) vs last num seen
      = decodeStruct p strict d fuel descs (emitFields p r f.id ++ rest)
          (Vals.set vs (posOf descs f.id) (Vals.get T (posOf descs f.id))) f.id (num + 1) (f.id :: seen) := by
  obtain ⟨h1, h2, hr, hnt, fd, hfind, hty, _, hbool, hval⟩ := hd
  have hpos : posOf descs f.id = fd.pos := by simp [posOf, hfind]
  rw [hpos] at hz ⊢
  cases p with
  | binary s =>
    have hf := hf' (by simp [Proto.coalesce])
    simp only [emitFields, Proto.delta, Proto.coalesce, Bool.false_and, Bool.false_eq_true, if_false,
      List.append_assoc]
    rw [decodeStruct, rField_wField_binary s f.t f.id _ (Or.inl hr) (by omega)]
    simp only [ne_stop_of_real f.t hr, Bool.false_eq_true, if_false, Proto.coalesce, Bool.false_and,
      wrap16_id f.id ⟨h1, h2⟩, hfind, hty, bne_self_eq_false, Bool.false_and]
    rw [hz]
    val_step fd hval hf
  | compact =>
    simp only [emitFields, Proto.delta, Proto.coalesce, Bool.true_and, decide_eq_true_eq, List.append_assoc]
    by_cases hb : f.t = .bool
    · simp only [hb, beq_self_eq_true, Bool.true_and, if_true, List.nil_append]
      have hreal : isReal (if f.isTrue = true then TType.true_ else TType.bool) = true := by
        split <;> rfl
      obtain ⟨h, hrd, hty', hid⟩ := rField_compact_emit _ f.id last hreal hl hlt h2
        (emitFields .compact r f.id ++ rest)
      rw [decodeStruct, hrd]
      have hbw := hbool hb
      cases hT : f.isTrue
      · rw [hT] at hty' hbw
        simp only [Bool.false_eq_true, if_false] at hty'
        have e : (TType.bool == TType.true_) = false := rfl
        simp [hty', hid, wrap16_id f.id ⟨h1, h2⟩, hfind, hty, hb, Proto.coalesce, e, hbw]
      · rw [hT] at hty' hbw
        simp only [if_true] at hty'
        simp [hty', hid, wrap16_id f.id ⟨h1, h2⟩, hfind, hty, hb, Proto.coalesce, hbw]
    · have hb' : (f.t == TType.bool) = false := by simpa using hb
      have hf := hf' (fun h => hb h.2)
      simp only [hb', Bool.false_eq_true, if_false, Bool.false_and]
      obtain ⟨h, hrd, hty', hid⟩ := rField_compact_emit f.t f.id last hr hl hlt h2
        (f.body ++ (emitFields .compact r f.id ++ rest))
      rw [decodeStruct, hrd]
      have hco : (f.t == TType.true_ || f.t == TType.bool) = false := by
        have : (f.t == TType.true_) = false := by simpa using hnt
        simp [this, hb']
      simp only [hty', ne_stop_of_real f.t hr, Bool.false_eq_true, if_false, hid, wrap16_id f.id ⟨h1, h2⟩, hfind,
        hty, bne_self_eq_false, Bool.false_and, Proto.coalesce, Bool.true_and, hco]
      rw [hz]
      val_step fd hval hf

theorem emitFields_cons_length (p : Proto) (f : FieldRec) (r : List FieldRec) (last : Int) :
    1 + (emitFields p r f.id).length ≤ (emitFields p (f :: r) last).length ∧
    (¬ (p.coalesce = true ∧ f.t = .bool) →
      1 + f.body.length + (emitFields p r f.id).length ≤ (emitFields p (f :: r) last).length) := by
  obtain ⟨W, hW, e⟩ : ∃ W : Bytes, 1 ≤ W.length ∧ emitFields p (f :: r) last =
      W ++ (if (p.coalesce && f.t == TType.bool) = true then [] else f.body) ++ emitFields p r f.id :=
    ⟨_, wField_length_pos p _ _ _, rfl⟩
  rw [e]
  simp only [List.length_append]
  constructor
  · omega
  · intro hn
    have e : (p.coalesce && f.t == TType.bool) = false := by
      cases hc : p.coalesce
      · rfl
      · have : ¬ f.t = .bool := fun h => hn ⟨hc, h⟩
        simpa using this
    rw [e]
    simp only [Bool.false_eq_true, if_false]
    omega

/-- **the struct loop over declared records.** `Z` = the target's initial field values, `T` = the final ones;
`cur` already agrees with `T` outside the positions of the remaining records and still has the initial values there. -/
theorem decodeStruct_loop (p : Proto) (strict : Bool) (d : Nat) (descs : List FieldDesc) (Z T : Vals) (B : Nat) :
    ∀ (l : List FieldRec) (last : Int) (num fuel : Nat) (cur : Vals) (seen : List Int) (rest : Bytes),
      0 ≤ last → (∀ f ∈ l, last < f.id) → l.Pairwise (fun a b => a.id < b.id) →
      (∀ f ∈ l, DecRec p strict d descs Z T B f) →
      l.Pairwise (fun a b => posOf descs a.id ≠ posOf descs b.id) →
      cur.length = T.length →
      (∀ f ∈ l, Vals.get cur (posOf descs f.id) = Vals.get Z (posOf descs f.id)) →
      (∀ n, (∀ f ∈ l, posOf descs f.id ≠ n) → Vals.get cur n = Vals.get T n) →
      (emitFields p l last).length + 1 + B ≤ fuel →
      decodeStruct p strict d fuel descs (emitFields p l last ++ (wStopField p ++ rest)) cur last num seen
        = .ok ((T, (l.map (·.id)).reverse ++ seen), rest) := by
  intro l
  induction l with
  | nil =>
    intro last num fuel cur seen rest _ _ _ _ _ hlen _ hT hf
    simp only [emitFields, List.nil_append, List.map_nil, List.reverse_nil]
    rw [decodeStruct_stop p strict d fuel descs rest cur last num seen (by omega)]
    rw [ext_get cur T hlen (fun n => hT n (fun _ h => by cases h))]
  | cons f r ih =>
    intro last num fuel cur seen rest hl hlast hpw hd hpp hlen hZ hT hf
    have hdf := hd f (List.mem_cons_self ..)
    have hlt := hlast f (List.mem_cons_self ..)
    rw [List.pairwise_cons] at hpw hpp
    obtain ⟨fu, rfl⟩ : ∃ fu, fuel = fu + 1 := ⟨fuel - 1, by omega⟩
    obtain ⟨hl1, hl2⟩ := emitFields_cons_length p f r last
    have hpos : posOf descs f.id < T.length := by
      obtain ⟨_, _, _, _, fd, hfind, _, hp, _⟩ := hdf
      simpa [posOf, hfind] using hp
    · have hfu : ¬ (p.coalesce = true ∧ f.t = .bool) → f.body.length + B ≤ fu := by
        intro hco; have := hl2 hco; omega
      rw [decodeStruct_declared p strict d descs Z T B f r hdf last hl hlt fu hfu cur (hZ f (List.mem_cons_self ..))]
      rw [ih f.id (num + 1) fu _ (f.id :: seen) rest (by omega) hpw.1 hpw.2
        (fun g hg => hd g (List.mem_cons_of_mem _ hg)) hpp.2 (by rw [length_set]; exact hlen)
        (fun g hg => by
          rw [get_set_ne _ _ _ _ (hpp.1 g hg)]
          exact hZ g (List.mem_cons_of_mem _ hg))
        (fun n hn => by
          by_cases hnp : posOf descs f.id = n
          · subst hnp; rw [get_set_eq _ _ _ (by rw [hlen]; exact hpos)]
          · rw [get_set_ne _ _ _ _ hnp]
            exact hT n (fun g hg => by
              rcases List.mem_cons.mp hg with rfl | hg
              · exact hnp
              · exact hn g hg))
        (by omega)]
      simp

end Enc.Lemmas.ThriftRoundTrip
