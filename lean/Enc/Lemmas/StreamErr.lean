import Enc.Lemmas.StreamErrBase
/-!
# JSON streaming (C11): data delivered together with `io.EOF`, and failing readers

Model: `Enc.Model.Json.Stream`; clean scripts: `Enc.Lemmas.StreamFull`; machinery for this file: `Enc.Lemmas.StreamErrBase`.

A script is well formed for the terminal condition `final` (`WF final evs`, the `io.Reader` contract) when an event that
carries an error carries `final` and is followed by `(0, final)` results only. `all = (evs.map (·.data)).flatten` are the
bytes the reader delivered.

1. **Data delivered with `io.EOF`** (`WF .eof evs`): `decodeAll_eof_whole`, `decodeAll_eof_spec` (erased outputs
   `= specStream limit all`), `decodeAll_eof_strip` (same outputs as the script with the errors removed).
2. **Failing reader** (`WF .other evs`): `decodeAll_failing_whole`: the outputs are `finStream .other limit all`: the values
   of the delivered bytes that are followed by at least one more byte or are not numbers, then `readerErr`, or `syntax` when
   the delivered bytes contain a syntax error at that point. `decodeAll_failing_never`: `eof` and `unexpectedEof` are never
   yielded. `decodeAll_failing_cut` / `Failed`: the exact relation with the parser's stream over the delivered bytes and
   over ANY bytes `all ++ more` the reader was supposed to deliver. `decodeAll_failing_spec`: against
   `specStream limit all`. **`decodeAll_failing_intended`**: for every intended stream `all ++ more` the values yielded
   before the failure are a PREFIX of the values of `specStream limit (all ++ more)`: no value is lost, duplicated or
   truncated; and a `syntax` outcome is one the intended stream has at that very position.
3. **Chunking independence** with error events: `chunking_independent_err`, `trailing_error_chunking`, `single_chunk_err`.

Regression fact and observations at the end: `truncated_number` (a number cut by a reader failure used to be yielded;
the decoder now accepts a number that reaches the end of the buffered input only when `dec.err == io.EOF`),
`error_after_data_is_dropped`, `bytes_after_error_chunking`.
-/
namespace Enc.Lemmas.StreamErr
open Enc Enc.Model.Json Enc.Model.Json.Stream
open Enc.Spec.Json (ws value SOut specStream)
open Enc.Lemmas.StreamFull (pend erase parseWin wholeStream wholeStream_eof wholeStream_err wholeStream_val
  wholeStream_ws wholeStream_erase)

deriving instance DecidableEq for Enc.Model.Json.Stream.Out

/-- all the bytes a script delivers -/
abbrev allBytes (evs : Reader) : Bytes := (evs.map (·.data)).flatten

def isValue : Out → Bool
  | .value .. => true
  | _ => false

theorem map_fin_values (f : RErr) : ∀ {vals : List Out}, (∀ v ∈ vals, isValue v = true) → vals.map (fin f) = vals
  | [], _ => rfl
  | v :: tl, h => by
    have hv := h v (List.mem_cons_self ..)
    have := map_fin_values f (vals := tl) (fun x hx => h x (List.mem_cons_of_mem _ hx))
    cases v <;> simp_all [isValue]

theorem map_fin_eof (l : List Out) : l.map (fin .eof) = l := by
  induction l with
  | nil => rfl
  | cons a t ih => simp [ih]

/-! ### 1. data delivered together with `io.EOF` -/

/-- **data with `io.EOF`**: the decoder yields exactly what the model parser yields over the delivered bytes: same raw
values, same kinds, same final outcome -/
theorem decodeAll_eof_whole {minBuf minRead : Nat} (h0 : 0 < minRead) (h1 : minRead ≤ minBuf)
    (evs : Reader) (hc : WF .eof evs) (limit : Nat) :
    decodeAll minBuf minRead limit { reader := evs, final := .eof } = wholeStream limit (allBytes evs) := by
  rw [decodeAll_whole h0 h1 .eof evs hc, finStream_eof_eq]

/-- **C11, data delivered together with `io.EOF`** -/
theorem decodeAll_eof_spec {minBuf minRead : Nat} (h0 : 0 < minRead) (h1 : minRead ≤ minBuf)
    (evs : Reader) (hc : WF .eof evs) (limit : Nat) :
    (decodeAll minBuf minRead limit { reader := evs, final := .eof }).map erase = specStream limit (allBytes evs) := by
  rw [decodeAll_eof_whole h0 h1 evs hc, wholeStream_erase]

/-- the typical shape: a clean script whose last event carries `io.EOF` together with its bytes -/
theorem decodeAll_eof_last {minBuf minRead : Nat} (h0 : 0 < minRead) (h1 : minRead ≤ minBuf)
    (evs : Reader) (hc : ∀ e ∈ evs, e.err = none) (d : Bytes) (limit : Nat) :
    (decodeAll minBuf minRead limit { reader := evs ++ [⟨d, some .eof⟩], final := .eof }).map erase =
      specStream limit (allBytes evs ++ d) := by
  rw [decodeAll_eof_spec h0 h1 _ (WF.append_last .eof d hc)]
  simp [allBytes]

/-- the script with the errors removed -/
def strip (evs : Reader) : Reader := evs.map (fun e => ⟨e.data, none⟩)

theorem strip_clean (evs : Reader) : ∀ e ∈ strip evs, e.err = none := by
  intro e he
  simp only [strip, List.mem_map] at he
  obtain ⟨_, _, rfl⟩ := he
  rfl

theorem strip_bytes (evs : Reader) : allBytes (strip evs) = allBytes evs := by
  simp [allBytes, strip, List.map_map, Function.comp_def]

/-- **the outputs equal those of the clean script with the same bytes** (raw values, kinds and final outcome) -/
theorem decodeAll_eof_strip {minBuf minRead : Nat} (h0 : 0 < minRead) (h1 : minRead ≤ minBuf)
    (evs : Reader) (hc : WF .eof evs) (limit : Nat) :
    decodeAll minBuf minRead limit { reader := evs, final := .eof } =
      decodeAll minBuf minRead limit { reader := strip evs, final := .eof } := by
  rw [decodeAll_eof_whole h0 h1 evs hc, StreamFull.decodeAll_whole h0 h1 (strip evs) (strip_clean evs)]
  exact congrArg _ (strip_bytes evs).symm

/-! ### 2. failing readers -/

/-- **failing reader, closed form**: the outputs are the values of the delivered bytes that are followed by at least one
more byte or are not numbers, then the reader's error — or `syntax` when the delivered bytes contain a syntax error at that
point (`finStream .other`) -/
theorem decodeAll_failing_whole {minBuf minRead : Nat} (h0 : 0 < minRead) (h1 : minRead ≤ minBuf)
    (evs : Reader) (hc : WF .other evs) (limit : Nat) :
    decodeAll minBuf minRead limit { reader := evs, final := .other } = finStream .other limit (allBytes evs) :=
  decodeAll_whole h0 h1 .other evs hc limit

theorem finStream_other_never : ∀ (n : Nat) (b : Bytes) (o : Out), o ∈ finStream .other n b →
    o ≠ .eof ∧ o ≠ .unexpectedEof := by
  intro n
  induction n with
  | zero => intro b o h; simp [finStream] at h
  | succ n ih =>
    intro b o h
    by_cases hw : ws b = []
    · rw [finStream_end _ n hw] at h
      simp at h; subst h; exact ⟨(fun h => nomatch h), (fun h => nomatch h)⟩
    · cases hp : parseWin (ws b) with
      | ok k r =>
        by_cases hc : r ≠ [] ∨ RErr.other = .eof ∨ k.isNum = false
        · rw [finStream_val _ n hw hp hc] at h
          rcases List.mem_cons.mp h with h | h
          · subst h; exact ⟨(fun h => nomatch h), (fun h => nomatch h)⟩
          · exact ih r o h
        · rw [finStream_num _ n hw hp hc] at h
          simp at h; subst h; exact ⟨(fun h => nomatch h), (fun h => nomatch h)⟩
      | err e =>
        rw [finStream_err _ n hw hp] at h
        cases e <;> simp at h <;> subst h <;> exact ⟨(fun h => nomatch h), (fun h => nomatch h)⟩

/-- **a failing reader never makes the decoder report `io.EOF` or `io.ErrUnexpectedEOF`** (any `limit`) -/
theorem decodeAll_failing_never {minBuf minRead : Nat} (h0 : 0 < minRead) (h1 : minRead ≤ minBuf)
    (evs : Reader) (hc : WF .other evs) (limit : Nat) :
    Out.eof ∉ decodeAll minBuf minRead limit { reader := evs, final := .other } ∧
    Out.unexpectedEof ∉ decodeAll minBuf minRead limit { reader := evs, final := .other } := by
  rw [decodeAll_failing_whole h0 h1 evs hc]
  exact ⟨fun h => (finStream_other_never _ _ _ h).1 rfl, fun h => (finStream_other_never _ _ _ h).2 rfl⟩

theorem ws_append_ne {b : Bytes} (x : Bytes) (h : ws b ≠ []) : ws (b ++ x) = ws b ++ x := by
  rw [← JsonWs.skipSpacesN_eq_ws, ← JsonWs.skipSpacesN_eq_ws]
  exact StreamStable.skipSpacesN_append x (by rw [JsonWs.skipSpacesN_eq_ws]; exact h)

/-- a value is a proper prefix: what follows it is a strictly shorter suffix -/
theorem parseWin_sfx {b r : Bytes} {k : Kind} (hp : parseWin (ws b) = .ok k r) :
    r <:+ ws b ∧ r.length < (ws b).length := by
  have hsk : skipSpaces (ws b) = ws b := by rw [JsonWs.skipSpaces_eq_ws, JsonGrammar.ws_ws]
  have hspec := StreamFull.spec_of_parse hsk
  have hp' : parseValue (internalParseFlags (ws b)) 0 (fuelFor (ws b)) (ws b) = .ok k r := hp
  rw [hp'] at hspec
  exact JsonGrammar.value_sfx hspec.symm

/-- How the values `vals` and the final outcome `last` the decoder yields when the reader fails after the bytes `b` relate
to the parser's stream over `b` and over the bytes `b ++ more` the reader was supposed to deliver. -/
inductive Failed (n : Nat) (b more : Bytes) (vals : List Out) (last : Out) : Prop
  /-- a syntax error in the delivered bytes: the intended stream is the same, syntax error included -/
  | synt : last = .syntax → wholeStream n b = vals ++ [.syntax] → wholeStream n (b ++ more) = vals ++ [.syntax] →
      Failed n b more vals last
  /-- the delivered bytes end between values (`w = eof`) or inside a string / literal / array / object / a number that has
  no digit yet (`w = unexpectedEof`): all their values are yielded, and they are a prefix of the intended stream -/
  | ended (w : Out) : last = .readerErr → (w = .eof ∨ w = .unexpectedEof) → wholeStream n b = vals ++ [w] →
      vals <+: wholeStream n (b ++ more) → Failed n b more vals last
  /-- the delivered bytes end with a complete NUMBER `raw`: it is NOT yielded; the intended stream agrees before it and
  goes on with whatever `raw ++ more` starts with (the same number, or a longer one) -/
  | number (raw : Bytes) (k : Kind) : last = .readerErr → k.isNum = true → raw ≠ [] → raw <:+ b →
      wholeStream n b = vals ++ [.value raw k, .eof] →
      wholeStream n (b ++ more) = vals ++ wholeStream (n - vals.length) (raw ++ more) → Failed n b more vals last

theorem finStream_other_failed : ∀ (n : Nat) (b : Bytes), b.length + 1 ≤ n →
    ∃ vals last, finStream .other n b = vals ++ [last] ∧ (∀ v ∈ vals, isValue v = true) ∧
      ∀ more, Failed n b more vals last := by
  intro n
  induction n with
  | zero => intro b h; omega
  | succ n ih =>
    intro b hn
    by_cases hw : ws b = []
    · exact ⟨[], .readerErr, by rw [finStream_end _ n hw]; rfl, by simp,
        fun more => .ended .eof rfl (Or.inl rfl) (by rw [wholeStream_eof n hw]; rfl) List.nil_prefix⟩
    · have hsk : skipSpaces (ws b) = ws b := by rw [JsonWs.skipSpaces_eq_ws, JsonGrammar.ws_ws]
      have hwm : ∀ more, ws (b ++ more) = ws b ++ more := fun more => ws_append_ne more hw
      have hwm_ne : ∀ more, ws (b ++ more) ≠ [] := fun more => by rw [hwm]; simp [hw]
      cases hp : parseWin (ws b) with
      | err e =>
        cases e with
        | false =>
          refine ⟨[], .syntax, by rw [finStream_err _ n hw hp]; rfl, by simp, fun more => ?_⟩
          have hfull : parseWin (ws (b ++ more)) = .err false := by
            rw [hwm]; exact StreamStable.window_err_stable _ _ hsk hp
          exact .synt rfl (by rw [wholeStream_err n hw hp]; rfl) (by rw [wholeStream_err n (hwm_ne more) hfull]; rfl)
        | true =>
          exact ⟨[], .readerErr, by rw [finStream_err _ n hw hp]; rfl, by simp,
            fun more => .ended .unexpectedEof rfl (Or.inr rfl) (by rw [wholeStream_err n hw hp]; rfl) List.nil_prefix⟩
      | ok k r =>
        obtain ⟨hsuf, hlt⟩ := parseWin_sfx hp
        have hwl := JsonGrammar.ws_length_le b
        by_cases hd : r ≠ [] ∨ k.isNum = false
        · obtain ⟨vals, last, he, hv, hc⟩ := ih r (by omega)
          have hacc : r ≠ [] ∨ RErr.other = .eof ∨ k.isNum = false := by
            rcases hd with h | h
            · exact Or.inl h
            · exact Or.inr (Or.inr h)
          refine ⟨.value ((ws b).take ((ws b).length - r.length)) k :: vals, last, ?_, ?_, fun more => ?_⟩
          · rw [finStream_val _ n hw hp hacc, he]; rfl
          · intro v hvm
            rcases List.mem_cons.mp hvm with rfl | hvm
            · rfl
            · exact hv v hvm
          · have hfull : parseWin (ws (b ++ more)) = .ok k (r ++ more) := by
              rw [hwm]; exact StreamStable.window_ok_stable _ _ _ _ hsk hp hd
            have htake : (ws (b ++ more)).take ((ws (b ++ more)).length - (r ++ more).length) =
                (ws b).take ((ws b).length - r.length) := by
              rw [hwm]
              have : (ws b ++ more).length - (r ++ more).length = (ws b).length - r.length := by
                simp only [List.length_append]; omega
              rw [this, List.take_append_of_le_length (by omega)]
            have hfullS : wholeStream (n + 1) (b ++ more) =
                .value ((ws b).take ((ws b).length - r.length)) k :: wholeStream n (r ++ more) := by
              rw [wholeStream_val n (hwm_ne more) hfull, htake]
            have hS : wholeStream (n + 1) b =
                .value ((ws b).take ((ws b).length - r.length)) k :: wholeStream n r := wholeStream_val n hw hp
            cases hc more with
            | synt h1 h2 h3 => exact .synt h1 (by rw [hS, h2]; rfl) (by rw [hfullS, h3]; rfl)
            | ended w h1 h2 h3 h4 =>
              exact .ended w h1 h2 (by rw [hS, h3]; rfl) (by rw [hfullS]; exact List.cons_prefix_cons.mpr ⟨rfl, h4⟩)
            | number raw k' h1 h2 h3 h4 h5 h6 =>
              refine .number raw k' h1 h2 h3 (h4.trans (hsuf.trans (JsonGrammar.ws_suffix b))) (by rw [hS, h5]; rfl) ?_
              rw [hfullS, h6]
              simp
        · -- a number that reaches the end of the delivered bytes: not yielded
          have hr : r = [] := by
            apply Classical.byContradiction; intro h; exact hd (Or.inl h)
          have hk : k.isNum = true := by
            cases h : k.isNum with
            | true => rfl
            | false => exact absurd (Or.inr h) hd
          subst hr
          have hpos : 0 < (ws b).length := List.length_pos_iff.mpr hw
          obtain ⟨m, rfl⟩ : ∃ m, n = m + 1 := ⟨n - 1, by omega⟩
          have hraw : (ws b).take ((ws b).length - ([] : Bytes).length) = ws b := by simp
          have hnacc : ¬ (([] : Bytes) ≠ [] ∨ RErr.other = .eof ∨ k.isNum = false) := by
            rintro (h | h | h)
            · exact h rfl
            · cases h
            · rw [hk] at h; cases h
          refine ⟨[], .readerErr, by rw [finStream_num _ (m + 1) hw hp hnacc]; rfl, by simp, fun more => ?_⟩
          refine .number (ws b) k rfl hk hw (JsonGrammar.ws_suffix b) ?_ ?_
          · rw [wholeStream_val (m + 1) hw hp, hraw, wholeStream_eof m rfl]; rfl
          · rw [← wholeStream_ws, hwm]; rfl

theorem Failed.last_eq {n : Nat} {b more : Bytes} {vals : List Out} {last : Out} (h : Failed n b more vals last) :
    last = .readerErr ∨ last = .syntax := by
  cases h with
  | synt h _ _ => exact Or.inr h
  | ended _ h _ _ _ => exact Or.inl h
  | number _ _ h _ _ _ _ _ => exact Or.inl h

/-- the yielded values are a prefix of the parser's stream over the intended bytes -/
theorem Failed.prefix {n : Nat} {b more : Bytes} {vals : List Out} {last : Out} (h : Failed n b more vals last) :
    vals <+: wholeStream n (b ++ more) := by
  cases h with
  | synt _ _ h => rw [h]; exact List.prefix_append _ _
  | ended _ _ _ _ h => exact h
  | number _ _ _ _ _ _ _ h => rw [h]; exact List.prefix_append _ _

/-- … and of the specification stream over the intended bytes -/
theorem Failed.spec_prefix {n : Nat} {b more : Bytes} {vals : List Out} {last : Out} (h : Failed n b more vals last) :
    vals.map erase <+: specStream n (b ++ more) := by
  rw [← wholeStream_erase]; exact h.prefix.map erase

/-- a `syntax` outcome is one the intended stream has at that very position -/
theorem Failed.spec_syntax {n : Nat} {b more : Bytes} {vals : List Out} {last : Out} (h : Failed n b more vals last)
    (hl : last = .syntax) : specStream n (b ++ more) = vals.map erase ++ [.err] := by
  cases h with
  | synt _ _ h => rw [← wholeStream_erase, h, List.map_append]; rfl
  | ended _ h _ _ _ => rw [h] at hl; cases hl
  | number _ _ h _ _ _ _ _ => rw [h] at hl; cases hl

/-- **failing reader, exact relation.** `all`: the bytes delivered before the failure. The decoder yields
`vals ++ [last]`, related by `Failed` to the parser's stream over `all` and over every `all ++ more`. -/
theorem decodeAll_failing_cut {minBuf minRead : Nat} (h0 : 0 < minRead) (h1 : minRead ≤ minBuf)
    (evs : Reader) (hc : WF .other evs) (limit : Nat) (hl : (allBytes evs).length + 1 ≤ limit) :
    ∃ vals last, decodeAll minBuf minRead limit { reader := evs, final := .other } = vals ++ [last] ∧
      (∀ v ∈ vals, isValue v = true) ∧ ∀ more, Failed limit (allBytes evs) more vals last := by
  rw [decodeAll_failing_whole h0 h1 evs hc]
  exact finStream_other_failed limit (allBytes evs) hl

/-- **C11, failing reader, against the delivered bytes.** With `all` the bytes delivered before the failure, the decoder
yields `vals ++ [last]`: `vals` are values, their erasures are a prefix of `specStream limit all`; more precisely they are
ALL the values of that stream (`t` is its final element), except that a number which ends exactly where the delivered
bytes end is withheld; `last` is the reader's error, or `syntax` when the delivered bytes contain a syntax error at that
point. -/
theorem decodeAll_failing_spec {minBuf minRead : Nat} (h0 : 0 < minRead) (h1 : minRead ≤ minBuf)
    (evs : Reader) (hc : WF .other evs) (limit : Nat) (hl : (allBytes evs).length + 1 ≤ limit) :
    ∃ vals last, decodeAll minBuf minRead limit { reader := evs, final := .other } = vals ++ [last] ∧
      (∀ v ∈ vals, isValue v = true) ∧
      vals.map erase <+: specStream limit (allBytes evs) ∧
      ((last = .syntax ∧ specStream limit (allBytes evs) = vals.map erase ++ [.err]) ∨
       (last = .readerErr ∧ ∃ t, (t = .eof ∨ t = .err) ∧ specStream limit (allBytes evs) = vals.map erase ++ [t]) ∨
       (last = .readerErr ∧ ∃ raw, raw ≠ [] ∧ raw <:+ allBytes evs ∧
          specStream limit (allBytes evs) = vals.map erase ++ [.value raw, .eof])) := by
  obtain ⟨vals, last, hd, hv, hF⟩ := decodeAll_failing_cut h0 h1 evs hc limit hl
  have hF0 := hF []
  refine ⟨vals, last, hd, hv, by simpa using hF0.spec_prefix, ?_⟩
  cases hF0 with
  | synt h1' h2 _ =>
    left; exact ⟨h1', by rw [← wholeStream_erase, h2, List.map_append]; rfl⟩
  | ended w h1' h2 h3 _ =>
    right; left
    refine ⟨h1', erase w, ?_, by rw [← wholeStream_erase, h3, List.map_append]; rfl⟩
    rcases h2 with h | h <;> subst h
    · exact Or.inl rfl
    · exact Or.inr rfl
  | number raw k h1' _ h3 h4 h5 _ =>
    right; right
    exact ⟨h1', raw, h3, h4, by rw [← wholeStream_erase, h5, List.map_append]; rfl⟩

/-- **C11, failing reader: no value is lost, duplicated or truncated.** The reader fails after delivering `all`. Whatever
bytes `all ++ more` it was supposed to deliver, the values the decoder yields before the failure are a PREFIX of the values
of the intended stream `specStream limit (all ++ more)`, followed by the reader's error — or by `syntax`, and then the
intended stream has its syntax error at that very position. -/
theorem decodeAll_failing_intended {minBuf minRead : Nat} (h0 : 0 < minRead) (h1 : minRead ≤ minBuf)
    (evs : Reader) (hc : WF .other evs) (limit : Nat) (hl : (allBytes evs).length + 1 ≤ limit) :
    ∃ vals last, decodeAll minBuf minRead limit { reader := evs, final := .other } = vals ++ [last] ∧
      (∀ v ∈ vals, isValue v = true) ∧ (last = .readerErr ∨ last = .syntax) ∧
      ∀ more, vals.map erase <+: specStream limit (allBytes evs ++ more) ∧
        (last = .syntax → specStream limit (allBytes evs ++ more) = vals.map erase ++ [.err]) := by
  obtain ⟨vals, last, hd, hv, hF⟩ := decodeAll_failing_cut h0 h1 evs hc limit hl
  exact ⟨vals, last, hd, hv, (hF []).last_eq, fun more => ⟨(hF more).spec_prefix, (hF more).spec_syntax⟩⟩

/-! ### 3. chunking independence with error events -/

/-- **chunking independence**: two well-formed scripts for the same terminal condition that deliver the same bytes yield
the same outputs (raw bytes, kinds, final outcome), wherever the error events are and however the bytes are cut -/
theorem chunking_independent_err {minBuf minRead : Nat} (h0 : 0 < minRead) (h1 : minRead ≤ minBuf) (final : RErr)
    (evs₁ evs₂ : Reader) (hc₁ : WF final evs₁) (hc₂ : WF final evs₂) (heq : allBytes evs₁ = allBytes evs₂) (limit : Nat) :
    decodeAll minBuf minRead limit { reader := evs₁, final := final } =
      decodeAll minBuf minRead limit { reader := evs₂, final := final } := by
  rw [decodeAll_whole h0 h1 final evs₁ hc₁, decodeAll_whole h0 h1 final evs₂ hc₂]
  exact congrArg (finStream final limit) heq

/-- scripts with a trailing error event: same bytes, same final condition ⇒ same outputs; the error may arrive with the
last bytes (`d ≠ []`) or alone (`d = []`) -/
theorem trailing_error_chunking {minBuf minRead : Nat} (h0 : 0 < minRead) (h1 : minRead ≤ minBuf) (final : RErr)
    (c₁ c₂ : Reader) (d₁ d₂ : Bytes) (hc₁ : ∀ e ∈ c₁, e.err = none) (hc₂ : ∀ e ∈ c₂, e.err = none)
    (heq : allBytes c₁ ++ d₁ = allBytes c₂ ++ d₂) (limit : Nat) :
    decodeAll minBuf minRead limit { reader := c₁ ++ [⟨d₁, some final⟩], final := final } =
      decodeAll minBuf minRead limit { reader := c₂ ++ [⟨d₂, some final⟩], final := final } :=
  chunking_independent_err h0 h1 final _ _ (WF.append_last final d₁ hc₁) (WF.append_last final d₂ hc₂)
    (by simpa [allBytes] using heq) limit

/-- the error delivered with the data or by a later `Read`: no difference -/
theorem single_chunk_err {minBuf minRead : Nat} (h0 : 0 < minRead) (h1 : minRead ≤ minBuf) (final : RErr)
    (evs : Reader) (hc : WF final evs) (limit : Nat) :
    decodeAll minBuf minRead limit { reader := evs, final := final } =
      decodeAll minBuf minRead limit { reader := [⟨allBytes evs, some final⟩], final := final } ∧
    decodeAll minBuf minRead limit { reader := evs, final := final } =
      decodeAll minBuf minRead limit { reader := [⟨allBytes evs, none⟩], final := final } :=
  ⟨chunking_independent_err h0 h1 final evs _ hc (WF.append_last final (allBytes evs) (r := []) (by simp)) (by simp [allBytes]) limit,
   chunking_independent_err h0 h1 final evs _ hc (WF.of_clean final (by simp)) (by simp [allBytes]) limit⟩

/-! ### regression fact and observations -/

/-- **Regression fact (former finding): a number cut by a reader failure is not yielded.** The reader was to deliver `123`
and fails after `12`: the decoder used to yield the value `12` and then the reader's error (the acceptance test was
`len(r) != 0 || dec.err != nil || k.Class() != Num`); with `dec.err == io.EOF` in its place it yields the reader's error
only, whether the error arrives alone or together with the bytes. A number followed by one more byte (`12 `) is complete
and is yielded; data delivered together with `io.EOF` still completes a number; other value kinds were never affected
(`tru`, `"ab`, `[1,2`). -/
theorem truncated_number :
    decodeAll 4 2 8 { reader := [⟨[0x31, 0x32, 0x33], none⟩], final := .eof } = [.value [0x31, 0x32, 0x33] .uint, .eof] ∧
    decodeAll 4 2 8 { reader := [⟨[0x31, 0x32], none⟩], final := .other } = [.readerErr] ∧
    decodeAll 4 2 8 { reader := [⟨[0x31, 0x32], some .other⟩], final := .other } = [.readerErr] ∧
    decodeAll 4 2 8 { reader := [⟨[0x31, 0x32, 0x20], some .other⟩], final := .other } =
      [.value [0x31, 0x32] .uint, .readerErr] ∧
    decodeAll 4 2 8 { reader := [⟨[0x31, 0x32], some .eof⟩], final := .eof } = [.value [0x31, 0x32] .uint, .eof] ∧
    decodeAll 4 2 8 { reader := [⟨[0x74, 0x72, 0x75], none⟩], final := .other } = [.readerErr] ∧
    decodeAll 4 2 8 { reader := [⟨[0x22, 0x61, 0x62], none⟩], final := .other } = [.readerErr] ∧
    decodeAll 4 2 8 { reader := [⟨[0x5b, 0x31, 0x2c, 0x32], none⟩], final := .other } = [.readerErr] := by
  decide +kernel

/-- **Observation: an error that arrives together with data (or after data within one `io.ReadFull`) is dropped**
(`if n > 0 { err = nil }`); the decoder relies on the reader repeating it. A reader that reports an error once, with the
bytes `1 2`, and `io.EOF` afterwards (not `WF`: the error is not the terminal condition) gets `1, 2, EOF`: the error is
never reported. Whether an error delivered alone, `(0, err)`, is reported depends on whether the preceding bytes happened
to fill the free buffer space exactly (`minBuf = 3`: reported, and the trailing number `2` withheld) or not
(`minBuf = 4`). -/
theorem error_after_data_is_dropped :
    decodeAll 4 2 8 { reader := [⟨[0x31, 0x20, 0x32], some .other⟩], final := .eof } =
      [.value [0x31] .uint, .value [0x32] .uint, .eof] ∧
    decodeAll 4 2 8 { reader := [⟨[0x31, 0x20, 0x32], none⟩, ⟨[], some .other⟩], final := .eof } =
      [.value [0x31] .uint, .value [0x32] .uint, .eof] ∧
    decodeAll 3 2 8 { reader := [⟨[0x31, 0x20, 0x32], none⟩, ⟨[], some .other⟩], final := .eof } =
      [.value [0x31] .uint, .readerErr] := by
  decide +kernel

/-- **`WF` cannot be dropped in the chunking theorem**: when bytes follow an error event the outputs depend on the
chunking. Same bytes `1 2`, the error reported after the first two bytes in both scripts, `minBuf = minRead = 2`. -/
theorem bytes_after_error_chunking :
    decodeAll 2 2 8 { reader := [⟨[0x31, 0x20], none⟩, ⟨[], some .other⟩, ⟨[0x32], none⟩], final := .eof } =
      [.value [0x31] .uint, .readerErr] ∧
    decodeAll 2 2 8 { reader := [⟨[0x31, 0x20], some .other⟩, ⟨[0x32], none⟩], final := .eof } =
      [.value [0x31] .uint, .value [0x32] .uint, .eof] := by
  decide +kernel

end Enc.Lemmas.StreamErr
