import Enc.Model.Json.RawEmit
import Enc.Lemmas.TokConcat
/-!
# RawMessage / MarshalJSON re-emission (C14, C01, C05), part 1: the loop of `appendCompactEscapeHTML`

* `K e m k src` — the loop as a three-mode scanner (outside / inside a string / after a backslash, the `Mode` of
  `TokConcat.strip`) that emits its output byte by byte; `k` = number of bytes still to be dropped after a U+2028/9
  conversion (`start = i+3`).
* `aceLoop_eq` / `ace_eq_K` — the index-based model (with `start`, `flush`, `src[start:i]`) computes exactly `K`.
* `K_false_eq_strip` — without EscapeHTML the loop is `strip` (all white space outside strings removed), for EVERY input.
-/
namespace Enc.Lemmas.JsonRawEmitLoop
open Enc Enc.Model.Json Enc.Model.Json.RawEmit
open Enc.Lemmas.TokConcat (Mode strip)
open Enc.Spec.Json (isWs)

def isHtml (c : UInt8) : Bool := c == 0x3c || c == 0x3e || c == 0x26

def uEsc (c : UInt8) : Bytes := [0x5c, 0x75, 0x30, 0x30, hexDigitLower (c.toNat / 16), hexDigitLower (c.toNat % 16)]
def lsEsc (b2 : UInt8) : Bytes := [0x5c, 0x75, 0x32, 0x30, 0x32, hexDigitLower (b2.toNat % 16)]

/-- the loop, emitting eagerly -/
def K (e : Bool) : Mode → Nat → Bytes → Bytes
  | _, _, [] => []
  | m, k + 1, _ :: r => K e m k r
  | .out, 0, c :: r => if isWs c then K e .out 0 r else if c == 0x22 then c :: K e .str 0 r else c :: K e .out 0 r
  | .esc, 0, c :: r => c :: K e .str 0 r
  | .str, 0, c :: r =>
    if c == 0x22 then c :: K e .out 0 r
    else if c == 0x5c then c :: K e .esc 0 r
    else if !e then c :: K e .str 0 r
    else if isHtml c then uEsc c ++ K e .str 0 r
    else match lineSep c r with
      | some b2 => lsEsc b2 ++ K e .str 2 r
      | none => c :: K e .str 0 r

theorem mask_fin : ∀ n : Fin 256,
    ((UInt8.ofNat n.val &&& 0xfe) == 0xa8) = (UInt8.ofNat n.val == 0xa8 || UInt8.ofNat n.val == 0xa9) := by decide +kernel
/-- `x &^ 1 == 0xA8` singles out A8 and A9 -/
theorem mask_eq (x : UInt8) : ((x &&& 0xfe) == 0xa8) = (x == 0xa8 || x == 0xa9) := by
  have := mask_fin ⟨x.toNat, x.toNat_lt⟩
  simpa using this

/-- Go's `case ' ', '\n', '\r', '\t'` is RFC 8259 white space -/
theorem goSpace_eq (c : UInt8) : (c == 0x20 || c == 0x0a || c == 0x0d || c == 0x09) = isWs c := by
  unfold isWs
  cases (c == 0x20) <;> cases (c == 0x09) <;> cases (c == 0x0a) <;> cases (c == 0x0d) <;> rfl

theorem K_false_eq_strip : ∀ (m : Mode) (b : Bytes), K false m 0 b = strip m b := by
  intro m b
  induction b generalizing m with
  | nil => cases m <;> rfl
  | cons c r ih =>
    cases m
    · simp only [K, strip, ih]
    · simp only [K, strip, ih, Bool.not_false, if_true]
    · simp only [K, strip, ih]

/-- bytes over which the in-string state machine does nothing -/
def inert (c : UInt8) : Bool := c != 0x5c && c != 0x22 && !isHtml c && c != 0xe2

def InertPre : Nat → Bytes → Prop
  | 0, _ => True
  | _ + 1, [] => False
  | k + 1, c :: r => inert c = true ∧ InertPre k r

def modeOf (inString escape : Bool) : Mode := if !inString then .out else if escape then .esc else .str

theorem slice_self (src : Bytes) (i : Nat) : slice src i i = [] := by
  simp [slice]

theorem slice_snoc (src : Bytes) (start i : Nat) (c : UInt8) (rest : Bytes) (hs : start ≤ i) (hd : src.drop i = c :: rest) :
    slice src start (i + 1) = slice src start i ++ [c] := by
  unfold slice
  have hlt : i < src.length := by
    rcases Nat.lt_or_ge i src.length with h | h
    · exact h
    · rw [List.drop_eq_nil_of_le h] at hd; cases hd
  have hc : src[i] = c := by
    have := List.getElem_cons_drop (h := hlt) (as := src)
    rw [hd] at this; simp only [List.cons.injEq] at this; exact this.1
  rw [List.take_succ_eq_append_getElem hlt, hc, List.drop_append_of_le_length (by simp; omega)]

theorem drop_succ_of (src : Bytes) (i : Nat) (c : UInt8) (rest : Bytes) (hd : src.drop i = c :: rest) :
    src.drop (i + 1) = rest := by
  have : src.drop (i + 1) = (src.drop i).drop 1 := by simp [List.drop_drop, Nat.add_comm]
  rw [this, hd]; rfl

theorem flush_eq (src dst : Bytes) (start i : Nat) (hs : start ≤ i) : flush src dst start i = dst ++ slice src start i := by
  unfold flush
  split
  · rfl
  · have : start = i := by omega
    subst this; rw [slice_self]; simp

/-- the index-based loop computes `K`: what is appended from position `i` on is the not-yet-copied part `src[start:i]`
followed by the eager output of the scanner on the rest -/
theorem aceLoop_eq (e : Bool) (src : Bytes) : ∀ (rest : Bytes) (i : Nat) (dst : Bytes) (start : Nat) (esc inStr : Bool),
    src.drop i = rest → (inStr = false → esc = false) →
    (i < start → inStr = true ∧ esc = false ∧ InertPre (start - i) rest) →
    aceLoop e src rest i dst start esc inStr =
      dst ++ (if start ≤ i then slice src start i else []) ++ K e (modeOf inStr esc) (start - i) rest := by
  intro rest
  induction rest with
  | nil =>
    intro i dst start esc inStr hd _ hsk
    have hi : src.length ≤ i := by
      rcases Nat.lt_or_ge i src.length with h | h
      · have := List.drop_eq_nil_iff.mp hd; omega
      · exact h
    by_cases hs : start ≤ i
    · simp only [aceLoop, hs, if_true, K, List.append_nil]
      split
      · congr 1
        unfold slice
        rw [List.take_of_length_le hi]
      · have : slice src start i = [] := by
          unfold slice; rw [List.take_of_length_le hi]; exact List.drop_eq_nil_of_le (by omega)
        rw [this]; simp
    · have := (hsk (by omega)).2.2
      have hk : start - i = (start - i - 1) + 1 := by omega
      rw [hk] at this; exact absurd this (by simp [InertPre])
  | cons c rest ih =>
    intro i dst start esc inStr hd hesc hsk
    have hd' := drop_succ_of src i c rest hd
    by_cases hs : start ≤ i
    · -- nothing to drop: the scanner looks at `c`
      have hk : start - i = 0 := by omega
      have hk1 : start - (i + 1) = 0 := by omega
      have hs1 : start ≤ i + 1 := by omega
      have hsn := slice_snoc src start i c rest hs hd
      simp only [hs, if_true, hk]
      cases inStr with
      | false =>
        have he : esc = false := hesc rfl
        subst he
        simp only [aceLoop, Bool.not_false, if_true, modeOf, K]
        by_cases h22 : c = 0x22
        · subst h22
          rw [ih (i + 1) dst start false true hd' (by simp) (by omega)]
          simp only [hs1, if_true, hk1, modeOf, hsn]
          simp [isWs]
        · have h22' : (c == 0x22) = false := by simpa using h22
          simp only [h22', Bool.false_eq_true, if_false]
          rw [goSpace_eq]
          by_cases hw : isWs c = true
          · simp only [hw, if_true]
            rw [ih (i + 1) (flush src dst start i) (i + 1) false false hd' (by simp) (by omega)]
            simp only [Nat.le_refl, if_true, Nat.sub_self, modeOf, slice_self, flush_eq src dst start i hs]
            simp
          · simp only [hw, Bool.false_eq_true, if_false]
            rw [ih (i + 1) dst start false false hd' (by simp) (by omega)]
            simp only [hs1, if_true, hk1, modeOf, hsn]
            simp
      | true =>
        cases esc with
        | true =>
          simp only [aceLoop, Bool.not_true, Bool.false_eq_true, if_false, if_true, modeOf, K]
          rw [ih (i + 1) dst start false true hd' (by simp) (by omega)]
          simp only [hs1, if_true, hk1, modeOf, hsn]
          simp
        | false =>
          simp only [aceLoop, Bool.not_true, Bool.false_eq_true, if_false, modeOf, K]
          by_cases h5c : c = 0x5c
          · subst h5c
            simp only [beq_self_eq_true, if_true]
            rw [ih (i + 1) dst start true true hd' (by simp) (by omega)]
            simp only [hs1, if_true, hk1, modeOf, hsn]
            simp
          · have h5c' : (c == 0x5c) = false := by simpa using h5c
            simp only [h5c', Bool.false_eq_true, if_false]
            by_cases h22 : c = 0x22
            · subst h22
              simp only [beq_self_eq_true, if_true]
              rw [ih (i + 1) dst start false false hd' (by simp) (by omega)]
              simp only [hs1, if_true, hk1, modeOf, hsn]
              simp
            · have h22' : (c == 0x22) = false := by simpa using h22
              simp only [h22', Bool.false_eq_true, if_false]
              cases e with
              | false =>
                simp only [Bool.not_false, if_true]
                rw [ih (i + 1) dst start false true hd' (by simp) (by omega)]
                simp only [hs1, if_true, hk1, modeOf, hsn]
                simp
              | true =>
                simp only [Bool.not_true, Bool.false_eq_true, if_false]
                by_cases hh : isHtml c = true
                · have hh' : (c == 0x3c || c == 0x3e || c == 0x26) = true := hh
                  simp only [hh', hh, if_true]
                  rw [ih (i + 1) _ (i + 1) false true hd' (by simp) (by omega)]
                  simp only [Nat.le_refl, if_true, Nat.sub_self, modeOf, slice_self, flush_eq src dst start i hs, uEsc]
                  simp
                · have hh' : (c == 0x3c || c == 0x3e || c == 0x26) = false := by simpa [isHtml] using hh
                  have hh2 : isHtml c = false := by simpa using hh
                  simp only [hh', hh2, Bool.false_eq_true, if_false]
                  cases hH : lineSep c rest with
                  | none =>
                    simp only
                    rw [ih (i + 1) dst start false true hd' (by simp) (by omega)]
                    simp only [hs1, if_true, hk1, modeOf, hsn]
                    simp
                  | some b2 =>
                    simp only
                    have hin : InertPre 2 rest := by
                      unfold lineSep at hH
                      split at hH
                      · match rest, hH with
                        | b1 :: b2' :: r2, hH =>
                          simp only at hH
                          split at hH
                          · rename_i hb
                            rw [mask_eq] at hb
                            simp only [Bool.and_eq_true, Bool.or_eq_true, beq_iff_eq] at hb
                            obtain ⟨hb1, hb2⟩ := hb
                            subst hb1
                            refine ⟨by decide, ?_, trivial⟩
                            rcases hb2 with rfl | rfl <;> decide
                          · cases hH
                        | [], hH => cases hH
                        | [_], hH => cases hH
                      · cases hH
                    rw [ih (i + 1) _ (i + 3) false true hd' (by simp) (fun _ => ⟨rfl, rfl, by
                      have : i + 3 - (i + 1) = 2 := by omega
                      rw [this]; exact hin⟩)]
                    have h1 : ¬ (i + 3 ≤ i + 1) := by omega
                    have h2 : i + 3 - (i + 1) = 2 := by omega
                    simp only [h1, if_false, h2, modeOf, flush_eq src dst start i hs, lsEsc]
                    simp
    · -- bytes being dropped after a conversion
      have hlt : i < start := by omega
      obtain ⟨hin, he, hpre⟩ := hsk hlt
      subst hin; subst he
      have hk : start - i = (start - (i + 1)) + 1 := by omega
      rw [hk] at hpre
      obtain ⟨hc, hpre'⟩ := hpre
      simp only [inert, Bool.and_eq_true, bne_iff_ne, ne_eq, Bool.not_eq_true'] at hc
      obtain ⟨⟨⟨h5c, h22⟩, hh⟩, he2⟩ := hc
      have h5c' : (c == 0x5c) = false := by simpa using h5c
      have h22' : (c == 0x22) = false := by simpa using h22
      have he2' : (c == 0xe2) = false := by simpa using he2
      have hh' : (c == 0x3c || c == 0x3e || c == 0x26) = false := hh
      simp only [hs, if_false, List.append_nil]
      rw [hk]
      simp only [K]
      have hstep : aceLoop e src (c :: rest) i dst start false true = aceLoop e src rest (i + 1) dst start false true := by
        have hl : lineSep c rest = none := by simp only [lineSep, he2', Bool.false_eq_true, if_false]
        simp only [aceLoop, Bool.not_true, Bool.false_eq_true, if_false, h5c', h22', hh', hl]
        cases e <;> simp
      rw [hstep, ih (i + 1) dst start false true hd' (by simp) (fun h => ⟨rfl, rfl, hpre'⟩)]
      by_cases hs1 : start ≤ i + 1
      · have : start = i + 1 := by omega
        subst this
        simp [slice_self]
      · simp [hs1]

/-- `appendCompactEscapeHTML` is the eager scanner -/
theorem ace_eq_K (src : Bytes) (e : Bool) : appendCompactEscapeHTML src e = K e .out 0 src := by
  unfold appendCompactEscapeHTML
  rw [aceLoop_eq e src src 0 [] 0 false false rfl (fun _ => rfl) (by omega)]
  simp [slice_self, modeOf]

/-- without EscapeHTML the function removes the white space outside strings and nothing else — on every input -/
theorem ace_false_eq_strip (src : Bytes) : appendCompactEscapeHTML src false = strip .out src := by
  rw [ace_eq_K, K_false_eq_strip]

end Enc.Lemmas.JsonRawEmitLoop
