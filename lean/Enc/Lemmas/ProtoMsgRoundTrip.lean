import Enc.Lemmas.ProtoMsgMain
import Enc.Lemmas.ProtoMsgDecodeLenient
import Enc.Lemmas.ProtoOpaqueMain
/-!
# User-defined message types: Marshal / Unmarshal / the reference decoder on the universe `tyOKM4`, with the user's methods

Composition of
  * `ProtoMsgLink`/`Main`   `marshalUsr ops t u = .ok (marshal t w)`, `w = absV ops (codecOf t) u` (user contract `LeavesOK`),
  * `ProtoOpaque*`          the payload-level theorems on `tyOK4 / tyOKM4` (translation of opaque leaves to `[]byte`),
  * `ProtoMsgDecodeLenient` `unmarshalUsr ops t b = (unmarshal t b).bind (ok ∘ concV ops (codecOf t))` for user types whose
                            `Unmarshal` overwrites its receiver and accepts every input (`Lenient ops`).
-/
namespace Enc.Lemmas.ProtoMsg
open Enc Enc.Model.Proto
open Enc.Lemmas.ProtoOpaque Enc.Lemmas.ProtoMsgDecode
open Enc.Spec.Protobuf (canonical)

/-- **round trip with user types (the part that is proved).** `Marshal` succeeds with bytes `b`; `Unmarshal b` succeeds and
returns `concV ops _ w'`: a payload-level value `w'`, canonically equal to the payloads of the original, with the user's
`Unmarshal` applied to every leaf. -/
theorem unmarshal_marshal_usr_partial (ops : UserOps) (L : Lenient ops) (fs : Fields) (u : Val)
    (hc : LeavesOK ops (codecOf (.struct fs)) u) (hk : keysPlain (codecOf (.struct fs)) = true)
    (hty : tyOKM4 (.struct fs) = true)
    (hp : ptrsOK4 (.struct fs) (absV ops (codecOf (.struct fs)) u) = true)
    (hv : hasTypeM4 (.struct fs) (absV ops (codecOf (.struct fs)) u) = true)
    (hne : valOKM4 (.struct fs) (absV ops (codecOf (.struct fs)) u) = true)
    (hlen : (marshal (.struct fs) (absV ops (codecOf (.struct fs)) u)).length < 2 ^ 64)
    (hdep : Codec.nesting (codecOf (.struct fs)) ≤ Gen.c_proto_maxDepth) :
    ∃ b w', marshalUsr ops (.struct fs) u = .ok b
      ∧ unmarshalUsr ops (.struct fs) b = .ok (concV ops (codecOf (.struct fs)) w')
      ∧ canonical (ob (.struct fs)) w'
          = canonical (ob (.struct fs)) (ov (.struct fs) (absV ops (codecOf (.struct fs)) u)) := by
  obtain ⟨w', h1, h2⟩ := unmarshal_marshal_map_partial_opaque_ob fs _ hty hp hv hne hlen hdep
  refine ⟨_, w', (marshalUsr_ok ops _ u hc).1, ?_, h2⟩
  rw [unmarshalUsr_lenient L _ _ hk, h1]
  rfl

/-- … compared at the type itself (`canonical t`; since the repair of `Spec.Protobuf.canonTy`) -/
theorem unmarshal_marshal_usr_partial_canon (ops : UserOps) (L : Lenient ops) (fs : Fields) (u : Val)
    (hc : LeavesOK ops (codecOf (.struct fs)) u) (hk : keysPlain (codecOf (.struct fs)) = true)
    (hty : tyOKM4 (.struct fs) = true)
    (hp : ptrsOK4 (.struct fs) (absV ops (codecOf (.struct fs)) u) = true)
    (hv : hasTypeM4 (.struct fs) (absV ops (codecOf (.struct fs)) u) = true)
    (hne : valOKM4 (.struct fs) (absV ops (codecOf (.struct fs)) u) = true)
    (hlen : (marshal (.struct fs) (absV ops (codecOf (.struct fs)) u)).length < 2 ^ 64)
    (hdep : Codec.nesting (codecOf (.struct fs)) ≤ Gen.c_proto_maxDepth) :
    ∃ b w', marshalUsr ops (.struct fs) u = .ok b
      ∧ unmarshalUsr ops (.struct fs) b = .ok (concV ops (codecOf (.struct fs)) w')
      ∧ canonical (.struct fs) w' = canonical (.struct fs) (absV ops (codecOf (.struct fs)) u) := by
  obtain ⟨w', h1, h2⟩ := unmarshal_marshal_map_partial_opaque_canon fs _ hty hp hv hne hlen hdep
  refine ⟨_, w', (marshalUsr_ok ops _ u hc).1, ?_, h2⟩
  rw [unmarshalUsr_lenient L _ _ hk, h1]
  rfl

/-- **the reference decoder reads what `Marshal` writes for a message with user types**: every user value as a bytes field
holding what its `Marshal` wrote -/
theorem reference_decodes_marshal_usr (ops : UserOps) (fs : Fields) (u : Val)
    (hc : LeavesOK ops (codecOf (.struct fs)) u) (hty : tyOKM4 (.struct fs) = true)
    (hp : ptrsOK4 (.struct fs) (absV ops (codecOf (.struct fs)) u) = true)
    (hv : hasTypeM4 (.struct fs) (absV ops (codecOf (.struct fs)) u) = true)
    (hne : valOKM4 (.struct fs) (absV ops (codecOf (.struct fs)) u) = true)
    (hlen : (marshal (.struct fs) (absV ops (codecOf (.struct fs)) u)).length < 2 ^ 64) :
    ∃ b, marshalUsr ops (.struct fs) u = .ok b
      ∧ (Spec.Protobuf.decode (.struct fs) b).map (canonical (ob (.struct fs)))
          = some (canonical (ob (.struct fs)) (ov (.struct fs) (absV ops (codecOf (.struct fs)) u))) :=
  ⟨_, (marshalUsr_ok ops _ u hc).1, reference_decodes_marshal_maps_partial_opaque_ob fs _ hty hp hv hne hlen⟩

theorem codecOf_struct (fs : Fields) : codecOf (.struct fs) = .struct (fieldsOf 1 fs) := by simp [codecOf]

/-- **bytes with user types**: what `Marshal` writes is the concatenation of the reference encodings of the records of the
payload-level value — a user value is ONE LEN record whose payload is what its `Marshal` wrote -/
theorem struct_bytes_usr (ops : UserOps) (fs : Fields) (us : Vals)
    (hc : LeavesOKFs ops (fieldsOf 1 fs) us) (hty : tyOKM4 (.struct fs) = true)
    (hp : ptrsOKs4 fs (absFs ops (fieldsOf 1 fs) us) = true)
    (hv : hasTypesM4 fs (absFs ops (fieldsOf 1 fs) us) = true)
    (hlen : (marshal (.struct fs) (.struct (absFs ops (fieldsOf 1 fs) us))).length < 2 ^ 64) :
    marshalUsr ops (.struct fs) (.struct us)
      = .ok (Lemmas.ProtoWire.encRecs (allRecordsM4 false fs (absFs ops (fieldsOf 1 fs) us))) := by
  have hc' : LeavesOK ops (codecOf (.struct fs)) (.struct us) := by
    rw [codecOf_struct]; simp only [LeavesOK]; exact hc
  rw [(marshalUsr_ok ops _ _ hc').1]
  unfold marshal at hlen ⊢
  rw [codecOf_struct] at hlen ⊢
  simp only [absV] at hlen ⊢
  rw [struct_bytes_maps_opaque fs _ { toplevel := true, inline := true } hty hp hv rfl hlen]

end Enc.Lemmas.ProtoMsg

/-! ## non-vacuity: the example type of `ProtoOpaqueMain` (`exOFields`: user types as field, element, pointer element, map value,
inside a nested message; RawMessage and the struct-kind `ZRec`), the user methods those of RawMessage -/
namespace Enc.Lemmas.ProtoMsg
open Enc Enc.Model.Proto
open Enc.Lemmas.ProtoOpaque Enc.Lemmas.ProtoMsgDecode Enc.Lemmas.ProtoPtrs Enc.Lemmas.ProtoWire Enc.Lemmas.ProtoMap

theorem exO_abs : absV rawOps (codecOf (.struct exOFields)) (.struct exOVals) = .struct exOBVals := by
  rw [codecOf_struct, exO_codec]
  simp [exOCodec, exOVals, exOBVals, Vals.ofList, absV, absFs, absL, absM, pay, rawOps]

theorem exOB_ov : ovFields exOFields exOBVals = exOBVals := by
  simp [exOFields, exOBVals, exONested, exRaw, exZ, ovFields, ovF, ov, leafV, mapVals, mapVals2, Vals.ofList]

theorem exOU_hyps :
    LeavesOK rawOps (codecOf (.struct exOFields)) (.struct exOVals)
    ∧ keysPlain (codecOf (.struct exOFields)) = true
    ∧ tyOKM4 (.struct exOFields) = true
    ∧ ptrsOK4 (.struct exOFields) (absV rawOps (codecOf (.struct exOFields)) (.struct exOVals)) = true
    ∧ hasTypeM4 (.struct exOFields) (absV rawOps (codecOf (.struct exOFields)) (.struct exOVals)) = true
    ∧ valOKM4 (.struct exOFields) (absV rawOps (codecOf (.struct exOFields)) (.struct exOVals)) = true
    ∧ (marshal (.struct exOFields) (absV rawOps (codecOf (.struct exOFields)) (.struct exOVals))).length < 2 ^ 64
    ∧ Codec.nesting (codecOf (.struct exOFields)) ≤ Gen.c_proto_maxDepth := by
  refine ⟨leavesOK_rawOps _ _, ?_, exO_ty, ?_, ?_, ?_, ?_, exO_depth⟩
  · rw [codecOf_struct, exO_codec]; rfl
  · rw [exO_abs, ptrsOK4, ob_struct, ov_struct, exO_ob, exOB_ov]
    simp [ptrsOK3, exOBFields, exOBVals, exOBNested, Lemmas.ProtoNamed.eraseFields, Lemmas.ProtoNamed.erase, ptrsOK, ptrsOKS,
      ptrsOKFields, allVals, allVals2, Vals.ofList]
  · rw [exO_abs, hasTypeM4, ob_struct, ov_struct, exO_ob, exOB_ov, hasTypeM3, rty_struct, rval_struct, exOB_rfields,
      exOB_rvals]; decide
  · have := exO_ok
    rw [valOKM4, ob_struct, ov_struct, exO_ob, exO_ov] at this
    rw [exO_abs, valOKM4, ob_struct, ov_struct, exO_ob, exOB_ov]; exact this
  · rw [exO_abs, marshal_struct, exO_codec]; decide

/-- the round trip through `Marshal` / `Unmarshal` with the user's methods, on the example -/
example : ∃ b w', marshalUsr rawOps (.struct exOFields) (.struct exOVals) = .ok b
    ∧ unmarshalUsr rawOps (.struct exOFields) b = .ok (concV rawOps (codecOf (.struct exOFields)) w')
    ∧ Spec.Protobuf.canonical (ob (.struct exOFields)) w'
        = Spec.Protobuf.canonical (ob (.struct exOFields))
            (ov (.struct exOFields) (absV rawOps (codecOf (.struct exOFields)) (.struct exOVals))) :=
  unmarshal_marshal_usr_partial rawOps ⟨fun _ _ => rfl, fun _ => ⟨_, rfl⟩⟩ exOFields _ exOU_hyps.1 exOU_hyps.2.1
    exOU_hyps.2.2.1 exOU_hyps.2.2.2.1 exOU_hyps.2.2.2.2.1 exOU_hyps.2.2.2.2.2.1 exOU_hyps.2.2.2.2.2.2.1
    exOU_hyps.2.2.2.2.2.2.2

end Enc.Lemmas.ProtoMsg
