import Enc.Lemmas.ProtoLiberalMain
import Enc.Lemmas.ProtoLiberalConv
/-!
# C12, second half: exact comparison of `Unmarshal` with the reference decoder, on ALL inputs

Universe `tyOK (.struct fs)` as in `ProtoLiberalMain`.

  * `decode_of_unmarshal`   `unmarshalU … b = .ok v  →  ZeroNum fs b ∨ Spec.decode … b = some v`
  * `zeroNum_rejected`      `ZeroNum fs b → Spec.decode … b = none`           (no hypothesis on the type)
  * `unmarshal_iff_decode`  outside `ZeroNum`: `unmarshalU … b = .ok v ↔ Spec.decode … b = some v`
                            (same accepted inputs, literally the same values; so on such inputs a rejection by one side —
                            overflowing varint for a 32-bit field, wire-type mismatch, wire types 3/4/6/7, truncation,
                            over-long varint, packed encoding of a repeated scalar — is a rejection by the other side)
  * `disagree_iff`          the two decoders differ on `b` (one accepts and the other not, or different values)
                            ⇔ `Unmarshal` accepts `b` and `b ∈ ZeroNum`: the Go decoder treats a record with field
                            number 0 as an unknown field and skips it; the reference (like protoc-generated parsers)
                            rejects the message.  Not a listed known class: see `ProtoLiberalFindings` L1.
-/
set_option linter.unusedSimpArgs false
set_option linter.unusedVariables false
namespace Enc.Lemmas.ProtoLiberal
open Enc Enc.Model.Proto Enc.Lemmas.ProtoWire Enc.Lemmas.ProtoDecode Enc.Lemmas.ProtoRoundTrip
open Enc.Spec.Protobuf (canonical decodeMsg decodeRecs parse)

/-- the codec tree of a universe type contains no `unsupported` node (so `Unmarshal` cannot panic, C07) -/
theorem supported_aux (n : Nat) :
    (∀ (t : Ty) (o : Spec.Protobuf.FieldOpt), sizeOf t ≤ n → tyOK t = true → isSlice t = false →
      Codec.Supported (codecFor t o) = true) ∧
    (∀ (fs : Fields) (pos : Nat), sizeOf fs ≤ n → fieldsOK pos fs = true →
      CFields.Supported (fieldsOf pos fs) = true) := by
  induction n with
  | zero =>
    constructor
    · intro t o hsz; cases t <;> simp at hsz <;> omega
    · intro fs pos hsz; cases fs <;> simp at hsz <;> omega
  | succ n ih =>
    obtain ⟨iht, ihf⟩ := ih
    constructor
    · intro t o hsz ht hns
      cases t <;> simp only [tyOK] at ht <;> try (exact absurd ht (by decide))
      case slice => exact absurd hns (by simp [isSlice])
      case struct fs =>
        simp only [Bool.and_eq_true] at ht
        simp only [Ty.struct.sizeOf_spec] at hsz
        simp only [codecFor, codecOf, Codec.Supported, ihf fs 1 (by omega) ht.1]
      case int k =>
        cases k <;> simp only [supportedKind] at ht <;> try (exact absurd ht (by decide))
        all_goals (simp only [codecFor, codecOf]; try split) <;> simp only [Codec.Supported]
      case ptr t' =>
        simp only [Bool.and_eq_true] at ht
        simp only [Ty.ptr.sizeOf_spec] at hsz
        rw [codecFor_ptr t' o ht.1]
        simp only [Codec.Supported]
        exact iht t' o (by omega) ht.2 (ptrTarget_notSlice t' ht.1)
      case arr m e =>
        have := isByte_eq e ht; subst this
        simp only [codecFor, codecOf, Codec.Supported]
      all_goals simp only [codecFor, codecOf, Codec.Supported]
    · intro fs pos hsz hf
      cases fs with
      | nil => simp only [fieldsOf, CFields.Supported]
      | cons name tag emb t rest =>
        simp only [fieldsOK, Bool.and_eq_true] at hf
        obtain ⟨⟨hta, hty⟩, hrest⟩ := hf
        simp only [Fields.cons.sizeOf_spec] at hsz
        by_cases hsl : isSlice t = true
        · cases t <;> simp only [isSlice] at hsl <;> try (exact absurd hsl (by decide))
          rename_i e
          rw [fieldsOf_cons_slice pos name tag emb e rest hta hty]
          simp only [tyOK, elemTy, Bool.and_eq_true, Bool.not_eq_true'] at hty
          simp only [Ty.slice.sizeOf_spec] at hsz
          have := iht e { number := 0 } (by omega) hty.2 hty.1.2
          rw [codecFor_nofixed e _ rfl] at this
          simp only [CFields.Supported, Codec.Supported, this, ihf rest (pos + 1) (by omega) hrest, Bool.and_self]
        · have hns : isSlice t = false := by simpa using hsl
          rw [fieldsOf_cons_ok pos name tag emb t rest hta hty hns]
          simp only [CFields.Supported, iht t _ (by omega) hty hns, ihf rest (pos + 1) (by omega) hrest,
            Bool.and_self]

theorem supported_of_tyOK (t : Ty) (o : Spec.Protobuf.FieldOpt) (ht : tyOK t = true) (hns : isSlice t = false) :
    Codec.Supported (codecFor t o) = true :=
  (supported_aux (sizeOf t)).1 t o (Nat.le_refl _) ht hns

/-- the reference rejects every input in which a record with field number 0 is reached -/
theorem zeroNum_rejected (fs : Fields) (b : Bytes) (h : ZeroNum fs b) : Spec.Protobuf.decode (.struct fs) b = none := by
  simp only [Spec.Protobuf.decode, Spec.Protobuf.deref, zeroNum_rej h, Option.bind_eq_bind]
  rfl

/-- **converse of the main theorem**: whatever `Unmarshal` accepts, the reference accepts with the same value — unless
a record with field number 0 is reached -/
theorem decode_of_unmarshal (fs : Fields) (hty : tyOK (.struct fs) = true) (hna : noArr (.struct fs) = true)
    (b : Bytes) (v : Val)
    (h : unmarshalU (.struct fs) b = .ok v) : ZeroNum fs b ∨ Spec.Protobuf.decode (.struct fs) b = some v := by
  have hty' := hty
  simp only [tyOK, Bool.and_eq_true, decide_eq_true_eq] at hty'
  unfold unmarshalU at h
  by_cases hb : b = []
  · subst hb
    simp only [List.isEmpty_nil, if_true, Res.ok.injEq] at h
    subst h
    refine Or.inr ?_
    simp [Spec.Protobuf.decode, Spec.Protobuf.deref, decodeMsg, parse, decodeRecs, Spec.Protobuf.wrapPtr, zeroOf,
      zeroFields_eq fs 1 hty'.1]
  · have hbe : b.isEmpty = false := by cases b <;> simp_all
    simp only [hbe, Bool.false_eq_true, if_false, codecOf, zeroOf] at h
    generalize 2 * b.length + 8 + Codec.height (Codec.struct (fieldsOf 1 fs)) = FUEL at h
    cases FUEL with
    | zero => simp [decodeU] at h
    | succ f =>
      rw [decode_struct_succ] at h
      cases hds : decodeStructU f (fieldsOf 1 fs) b b.length (zeroFields fs)
          { ({ toplevel := true } : Flags) with toplevel := false } 0 with
      | err e => simp [hds, Res.bind] at h
      | panic e => simp [hds, Res.bind] at h
      | ok R =>
        simp only [hds, Res.bind] at h
        split at h
        · simp at h
        · simp only [Res.ok.injEq] at h
          subst h
          rcases conv_all f fs _ b b.length 0 (zeroFields fs) R hty hna rfl (by omega) hds with hz | ⟨recs, hp, hr⟩
          · exact Or.inl hz
          · refine Or.inr ?_
            rw [zeroFields_eq fs 1 hty'.1] at hr
            simp only [Spec.Protobuf.decode, Spec.Protobuf.deref, decodeMsg, hp, Option.bind_eq_bind,
              Option.bind_some, hr (4 * b.length + 15) (by omega), Option.pure_def, Spec.Protobuf.wrapPtr]

/-- **the two decoders coincide outside `ZeroNum`**: same accepted inputs, literally the same values -/
theorem unmarshal_iff_decode (fs : Fields) (hty : tyOK (.struct fs) = true) (hna : noArr (.struct fs) = true)
    (b : Bytes) (v : Val)
    (hz : ¬ ZeroNum fs b) : unmarshalU (.struct fs) b = .ok v ↔ Spec.Protobuf.decode (.struct fs) b = some v :=
  ⟨fun h => (decode_of_unmarshal fs hty hna b v h).resolve_left hz, unmarshal_of_decode fs hty b v⟩

/-- … in particular they reject the same inputs there (the Go side with one of its error classes, never a panic) -/
theorem reject_iff (fs : Fields) (hty : tyOK (.struct fs) = true) (hna : noArr (.struct fs) = true) (b : Bytes)
    (hz : ¬ ZeroNum fs b) :
    (∃ e, unmarshalU (.struct fs) b = .err e) ↔ Spec.Protobuf.decode (.struct fs) b = none := by
  constructor
  · rintro ⟨e, he⟩
    exact unmarshal_reject fs hty b e he
  · intro hn
    cases hu : unmarshalU (.struct fs) b with
    | ok v =>
      have := (unmarshal_iff_decode fs hty hna b v hz).mp hu
      rw [hn] at this; cases this
    | err e => exact ⟨e, rfl⟩
    | panic e =>
      have hsup : Codec.Supported (codecOf (.struct fs)) = true := by
        have := supported_of_tyOK (.struct fs) { number := 0 } hty rfl
        simpa only [codecFor] using this
      exact absurd hu (unmarshal_ne_panic (.struct fs) b e hsup)

/-- the decoders DISAGREE on `b`: it is not the case that they accept `b` with the same value or both reject it -/
def Disagree (fs : Fields) (b : Bytes) : Prop :=
  ¬ ∀ v, unmarshalU (.struct fs) b = .ok v ↔ Spec.Protobuf.decode (.struct fs) b = some v

/-- **exact characterisation of the disagreement**: the Go decoder accepts an input in which a record with field
number 0 is reached (it skips the record as an unknown field); the reference rejects such inputs -/
theorem disagree_iff (fs : Fields) (hty : tyOK (.struct fs) = true) (hna : noArr (.struct fs) = true) (b : Bytes) :
    Disagree fs b ↔ (∃ v, unmarshalU (.struct fs) b = .ok v) ∧ ZeroNum fs b := by
  constructor
  · intro hd
    have hz : ZeroNum fs b := Classical.byContradiction fun hz => hd fun v => unmarshal_iff_decode fs hty hna b v hz
    refine ⟨?_, hz⟩
    have hn := zeroNum_rejected fs b hz
    apply Classical.byContradiction
    intro hne
    apply hd
    intro v
    constructor
    · intro hu; exact absurd ⟨v, hu⟩ hne
    · intro hs; rw [hn] at hs; cases hs
  · rintro ⟨⟨v, hu⟩, hz⟩ hall
    have := (hall v).mp hu
    rw [zeroNum_rejected fs b hz] at this
    cases this

end Enc.Lemmas.ProtoLiberal
