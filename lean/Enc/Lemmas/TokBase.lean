import Enc.Model.Json.Token
import Enc.Spec.Json.Tokens
import Enc.Lemmas.JsonValid
/-!
# JSON tokenizer (C17), part 1: unfolding of `next`, progress, multi-step runs

* `next_err`, `next_nil`, `next_cons` — `Tokenizer.Next` cut into its scalar continuation `scalarK` and its delimiter
  continuation `delimK` (definitional).
* `next_progress` — (a) every successful `Next` consumes at least one byte; `Steps.length`: `n` tokens consume `≥ n` bytes,
  so the fuel `b.length + 2` of `tokens` is never exhausted.
* `run_fuel_succ`, `tokens_fuel` — hence any fuel `≥ b.length + 2` gives the same result, for every input.
* `Steps s toks s'` — `toks` are emitted by successive successful `Next` calls from `s` to `s'`; `run_steps`.
-/
namespace Enc.Lemmas.TokSpec
open Enc Enc.Model.Json Enc.Model.Json.Token

/-- the local `scalar` continuation of `next` -/
def scalarK (s : St) (json : Bytes) (r : PR) : Option Tok × St :=
  match r with
  | .ok k r' =>
    let v := json.take (json.length - r'.length)
    let tok : Tok := { delim := 0, value := v, depth := s.stack.length, index := stIndex s.stack,
                       isKey := s.isKey, kind := some k, remaining := r'.length }
    (if v.isEmpty then none else some tok, { s with json := r' })
  | .err _ => (none, { s with err := true })

def mkTok (c : UInt8) (rest : Bytes) (depth index : Int) (k : Option Kind) : Tok :=
  { delim := c, value := [c], depth := depth, index := index, isKey := false, kind := k, remaining := rest.length }

def delimK (s : St) (c : UInt8) (rest : Bytes) : Option Tok × St :=
  let depth0 : Int := s.stack.length
  let index0 := stIndex s.stack
  if c == 0x7b then (some (mkTok c rest depth0 index0 (some .object)), { s with json := rest, isKey := true, stack := (.inObject, 1) :: s.stack })
  else if c == 0x5b then (some (mkTok c rest depth0 index0 (some .array)), { s with json := rest, stack := (.inArray, 1) :: s.stack })
  else if c == 0x7d || c == 0x5d then
    let want := if c == 0x7d then Scope.inObject else Scope.inArray
    match s.stack with
    | (sc, _) :: tl =>
      if sc == want then (some (mkTok c rest (depth0 - 1) (stIndex tl) none), { s with json := rest, isKey := false, stack := tl })
      else (none, { s with json := rest, isKey := false, err := true })
    | [] => (none, { s with json := rest, isKey := false, err := true })
  else if c == 0x3a then (some (mkTok c rest depth0 index0 none), { s with json := rest, isKey := false })
  else
    match s.stack with
    | [] => (none, { s with json := rest, err := true })
    | (sc, n) :: tl =>
      (some (mkTok c rest depth0 index0 none), { s with json := rest, isKey := if sc == .inObject then true else s.isKey, stack := (sc, n + 1) :: tl })

theorem next_err (s : St) (h : s.err = true) : next s = (none, s) := by
  unfold next; simp [h]

theorem next_nil (s : St) (he : s.err = false) (hj : skipSpacesN s.json = []) : next s = (none, newSt []) := by
  unfold next; simp [he, hj]

theorem next_cons (s : St) (c : UInt8) (rest : Bytes) (he : s.err = false) (hj : skipSpacesN s.json = c :: rest) :
    next s =
      if c == 0x22 then scalarK s (c :: rest) (parseString s.fl (c :: rest))
      else if c == 0x6e then scalarK s (c :: rest) (parseLit (c :: rest) [0x6e, 0x75, 0x6c, 0x6c] .null)
      else if c == 0x74 then scalarK s (c :: rest) (parseLit (c :: rest) [0x74, 0x72, 0x75, 0x65] .true_)
      else if c == 0x66 then scalarK s (c :: rest) (parseLit (c :: rest) [0x66, 0x61, 0x6c, 0x73, 0x65] .false_)
      else if c == 0x2d || isDigit c then scalarK s (c :: rest) (parseNumber (c :: rest))
      else if c == 0x7b || c == 0x7d || c == 0x5b || c == 0x5d || c == 0x3a || c == 0x2c then delimK s c rest
      else (none, { s with json := rest, err := true }) := by
  obtain ⟨json, stack, isKey, err, fl⟩ := s
  simp only at he hj
  subst he
  unfold next
  simp only [Bool.false_eq_true, if_false, hj]
  rfl

open Enc.Lemmas.JsonWs (skipSpacesN_eq_ws skipSpaces_eq_ws)
open Enc.Lemmas.JsonGrammar (ws_suffix ws_length_le Sfx)
open Enc.Lemmas.JsonString (QSound toOpt)

theorem skipSpacesN_suffix (b : Bytes) : skipSpacesN b <:+ b := by
  rw [skipSpacesN_eq_ws]; exact ws_suffix b

theorem scalarK_progress {s : St} {json : Bytes} {r : PR} {t : Tok} {s' : St}
    (h : scalarK s json r = (some t, s')) : s'.json.length < json.length := by
  cases r with
  | err e => simp [scalarK] at h
  | ok k r' =>
    simp only [scalarK] at h
    split at h
    · simp at h
    · rename_i hv
      simp only [Prod.mk.injEq] at h
      rw [← h.2]
      simp only [List.isEmpty_iff, List.take_eq_nil_iff, not_or] at hv
      simp only
      omega

theorem delimK_json {s : St} {c : UInt8} {rest : Bytes} {t : Tok} {s' : St}
    (h : delimK s c rest = (some t, s')) : s'.json = rest := by
  simp only [delimK] at h
  repeat' split at h
  all_goals first | (simp only [Prod.mk.injEq] at h; rw [← h.2]) | simp at h

/-- (a) every successful `Next` consumes at least one byte -/
theorem next_progress (s : St) (t : Tok) (s' : St) (h : next s = (some t, s')) :
    s'.json.length < s.json.length := by
  cases he : s.err with
  | true => rw [next_err s he] at h; simp at h
  | false =>
    have hl := (skipSpacesN_suffix s.json).length_le
    cases hj : skipSpacesN s.json with
    | nil => rw [next_nil s he hj] at h; simp at h
    | cons c rest =>
      rw [hj] at hl
      rw [next_cons s c rest he hj] at h
      repeat' split at h
      all_goals first
        | (have := scalarK_progress h; omega)
        | (have := delimK_json h; rw [this]; simp at hl; omega)
        | simp at h

inductive Steps : St → List Tok → St → Prop
  | nil (s : St) : Steps s [] s
  | cons {s : St} {t : Tok} {s1 : St} {toks : List Tok} {s' : St} :
      next s = (some t, s1) → Steps s1 toks s' → Steps s (t :: toks) s'

theorem Steps.single {s : St} {t : Tok} {s' : St} (h : next s = (some t, s')) : Steps s [t] s' :=
  .cons h (.nil _)

theorem Steps.append {s s1 s2 : St} {a b : List Tok} (h1 : Steps s a s1) (h2 : Steps s1 b s2) : Steps s (a ++ b) s2 := by
  induction h1 with
  | nil => exact h2
  | cons hn _ ih => exact .cons hn (ih h2)

theorem Steps.length {s s' : St} {toks : List Tok} (h : Steps s toks s') : s'.json.length + toks.length ≤ s.json.length := by
  induction h with
  | nil => simp
  | cons hn _ ih => have := next_progress _ _ _ hn; simp; omega

theorem run_steps {s s' : St} {toks : List Tok} (h : Steps s toks s') (n : Nat) (acc : List Tok) :
    run (n + toks.length) s acc = run n s' (toks.reverse ++ acc) := by
  induction h generalizing acc with
  | nil => simp
  | cons hn _ ih =>
    rw [List.length_cons, ← Nat.add_assoc, run, hn]
    simp only
    rw [ih]; simp

/-- with more fuel than remaining input bytes, one more unit of fuel changes nothing -/
theorem run_fuel_succ (n : Nat) (s : St) (acc : List Tok) (h : s.json.length < n) :
    run (n + 1) s acc = run n s acc := by
  induction n generalizing s acc with
  | zero => omega
  | succ n ih =>
    rw [run, run]
    cases hn : next s with
    | mk o s' =>
      cases o with
      | none => rfl
      | some t =>
        simp only
        have := next_progress s t s' hn
        exact ih s' (t :: acc) (by omega)

/-- (a), consequence: the fuel `b.length + 2` of `tokens` is never exhausted — any larger fuel gives the same result,
for every input (valid or not) -/
theorem tokens_fuel (b : Bytes) (k : Nat) : run (b.length + 2 + k) (newSt b) [] = tokens b := by
  induction k with
  | zero => rfl
  | succ k ih =>
    rw [← ih, ← Nat.add_assoc]
    exact run_fuel_succ _ _ _ (by simp [newSt]; omega)

end Enc.Lemmas.TokSpec
