import Enc.Lemmas.ProtoLiberalMapLoop
/-!
# liberal decoding on `tyOKM`, ALL inputs: whatever the reference accepts, `Unmarshal` accepts

`unmarshal_of_decode_map_partial` gives literal agreement of the VALUES on inputs without zero-length map entries.
Here, without that hypothesis: on EVERY input the reference decoder accepts, the Go decoder succeeds as well (no error,
no panic), and the two values have the same skeleton (`sh`: same message nesting, the same optional fields set).  So
the zero-length entry (finding LM1) changes map CONTENTS only; it never turns an accepted input into a rejected one.

The proof is the loop induction of `ProtoLiberalMapLoop` once more, with a relation between the reference's current
field values and the Go decoder's instead of equality: after a zero-length entry the two sides carry different maps, and
later records are decoded into different current values.  That works because success of either decoder depends on
the current value only through its skeleton.

  * `sh / shs`                        same skeleton
  * `base_agreeR / field_agreeR / slice_agreeR / map_agreeR / loop_agreeR`
  * `unmarshal_accepts_of_decode_map`  the theorem
-/
set_option linter.unusedSimpArgs false
set_option linter.unusedVariables false
namespace Enc.Lemmas.ProtoLiberalMap
open Enc Enc.Model.Proto Enc.Lemmas.ProtoWire Enc.Lemmas.ProtoDecode Enc.Lemmas.ProtoRoundTrip Enc.Lemmas.ProtoMap
open Enc.Lemmas.ProtoLiberal
open Enc.Lemmas.ProtoRewriteSpec (VTok wireNum tag_num tag_type Valid)
open Enc.Spec.Protobuf (FieldOpt fieldOpt WireVal decodeOne decodeMsg decodeRecs parse findField valsGet valsSet deref
  unwrapPtr wrapPtr mapPut)

/-! ## same skeleton -/

mutual
/-- same skeleton: messages field by field, set pointers with set pointers; scalars, strings, repeated fields and maps
are not compared -/
def sh : Val → Val → Bool
  | .struct vs, .struct ws => shs vs ws
  | .struct _, _ => false
  | .ptr v, .ptr w => sh v w
  | .ptr _, _ => false
  | _, .struct _ => false
  | _, .ptr _ => false
  | _, _ => true
def shs : Vals → Vals → Bool
  | .nil, .nil => true
  | .cons v vs, .cons w ws => sh v w && shs vs ws
  | _, _ => false
end

mutual
theorem sh_refl : ∀ v : Val, sh v v = true
  | .struct vs => by simp only [sh]; exact shs_refl vs
  | .ptr v => by simp only [sh]; exact sh_refl v
  | .bool _ => by simp only [sh]
  | .int _ => by simp only [sh]
  | .float _ => by simp only [sh]
  | .str _ => by simp only [sh]
  | .nil => by simp only [sh]
  | .list _ => by simp only [sh]
  | .map _ => by simp only [sh]
theorem shs_refl : ∀ vs : Vals, shs vs vs = true
  | .nil => by simp only [shs]
  | .cons v r => by simp only [shs, sh_refl v, shs_refl r, Bool.and_self]
end

theorem sh_struct_inv {vs : Vals} {c : Val} (h : sh (.struct vs) c = true) : ∃ ws, c = .struct ws ∧ shs vs ws = true := by
  cases c <;> simp only [sh] at h <;> try (exact absurd h (by decide))
  exact ⟨_, rfl, h⟩

theorem sh_ptr_inv {x c : Val} (h : sh (.ptr x) c = true) : ∃ y, c = .ptr y ∧ sh x y = true := by
  cases c <;> simp only [sh] at h <;> try (exact absurd h (by decide))
  exact ⟨_, rfl, h⟩

/-- a value that is not a set pointer is related to values that are not set pointers only -/
theorem sh_notptr {c c' : Val} (h : sh c c' = true) (hc : ∀ x, c ≠ .ptr x) : ∀ y, c' ≠ .ptr y := by
  intro y e
  subst e
  cases c <;> simp only [sh] at h <;> try (exact absurd h (by decide))
  exact hc _ rfl

theorem sh_list (a b : Vals) : sh (.list a) (.list b) = true := by simp only [sh]
theorem sh_map (a b : Vals) : sh (.map a) (.map b) = true := by simp only [sh]

theorem shs_get : ∀ (vs ws : Vals) (i : Nat), shs vs ws = true → sh (valsGet vs i) (Vals.get ws i) = true
  | .nil, .nil, _, _ => by simp only [valsGet, Vals.get, sh]
  | .nil, .cons _ _, _, h => by simp [shs] at h
  | .cons _ _, .nil, _, h => by simp [shs] at h
  | .cons v vs, .cons w ws, 0, h => by
    simp only [shs, Bool.and_eq_true] at h; simp only [valsGet, Vals.get, h.1]
  | .cons v vs, .cons w ws, i + 1, h => by
    simp only [shs, Bool.and_eq_true] at h; simp only [valsGet, Vals.get]; exact shs_get vs ws i h.2

theorem shs_set : ∀ (vs ws : Vals) (i : Nat) (x y : Val), shs vs ws = true → sh x y = true →
    shs (valsSet vs i x) (Vals.set ws i y) = true
  | .nil, .nil, _, _, _, _, _ => by simp only [valsSet, Vals.set, shs]
  | .nil, .cons _ _, _, _, _, h, _ => by simp [shs] at h
  | .cons _ _, .nil, _, _, _, h, _ => by simp [shs] at h
  | .cons v vs, .cons w ws, 0, x, y, h, hxy => by
    simp only [shs, Bool.and_eq_true] at h; simp only [valsSet, Vals.set, shs, hxy, h.2, Bool.and_self]
  | .cons v vs, .cons w ws, i + 1, x, y, h, hxy => by
    simp only [shs, Bool.and_eq_true] at h
    simp only [valsSet, Vals.set, shs, h.1, shs_set vs ws i x y h.2 hxy, Bool.and_self]

theorem shs_len : ∀ (vs ws : Vals), shs vs ws = true → ws.length = vs.length
  | .nil, .nil, _ => rfl
  | .nil, .cons _ _, h => by simp [shs] at h
  | .cons _ _, .nil, h => by simp [shs] at h
  | .cons v vs, .cons w ws, h => by
    simp only [shs, Bool.and_eq_true] at h; simp only [Vals.length, shs_len vs ws h.2]

/-! ## the induction -/

/-- the statement proved by induction on the reference's fuel `F`: from ANY current values `ws` with the skeleton of
the reference's `vs`, the Go loop works through `b` and arrives at values with the skeleton of the reference's result -/
def LoopR (F : Nat) : Prop :=
  ∀ (fs : Fields) (fl : Flags) (b : Bytes) (recs : List (Nat × WireVal)) (vs vs' ws : Vals),
    tyOKM (.struct fs) = true → fl.zigzag = false →
    parse (b.length + 1) b = some recs → decodeRecs F fs recs vs = some vs' → shs vs ws = true →
    ∃ ws', shs vs' ws' = true ∧ Seg (fieldsOf 1 fs) fl b ws ws'

theorem base_agreeR (F : Nat) (ih : ∀ F', F' < F → LoopR F') (tb : Ty) (o : FieldOpt) (w : WireVal) (p : Bytes)
    (cur cur' v : Val) (fl : Flags) (ht : tyOKM tb = true) (hnp : isPtr tb = false) (hns : isSlice tb = false)
    (hnm : isMap tb = false) (ho : optOK tb o = true) (hfl : fl.zigzag = o.zigzag) (hp : Pay w p)
    (hsh : sh cur cur' = true) (h : decodeOne F tb o w cur = some v) :
    wireNum w = (codecFor tb o).wire.num ∧ (isStructTy tb = true → (codecFor tb o).wire = .varlen) ∧
      ∃ data, DataFor (isStructTy tb) p data ∧
        ∃ v', sh v v' = true ∧ ∃ f, decodeU f (codecFor tb o) data cur' fl = .ok (v', data.length) := by
  by_cases hs : isStructTy tb = true
  · cases tb <;> simp only [isStructTy] at hs <;> try (exact absurd hs (by decide))
    rename_i fs'
    have hoz : o.zigzag = false := by simpa [optOK] using ho
    cases F with
    | zero => simp [decodeOne] at h
    | succ F1 =>
    cases w
    case len body =>
      cases cur <;> simp only [decodeOne] at h <;> try contradiction
      rename_i vs0
      obtain ⟨ws0, rfl, hsh0⟩ := sh_struct_inv hsh
      cases hm : decodeMsg F1 fs' body vs0 with
      | none => simp [hm] at h
      | some vs1 =>
        simp only [hm, Option.bind_eq_bind, Option.bind_some, Option.pure_def, Option.some.injEq] at h
        subst h
        cases F1 with
        | zero => simp [decodeMsg] at hm
        | succ F2 =>
          simp only [decodeMsg, Option.bind_eq_bind] at hm
          cases hpr : parse (body.length + 1) body with
          | none => simp [hpr] at hm
          | some recs =>
            simp only [hpr, Option.bind_some] at hm
            obtain ⟨ws1, hsh1, hseg⟩ := ih F2 (by omega) fs' { fl with toplevel := false } body recs vs0 vs1 ws0 ht
              (by simp only [hfl, hoz]) hpr hm hsh0
            obtain ⟨f, hf⟩ := hseg.run
            have hcodec : codecFor (.struct fs') o = .struct (fieldsOf 1 fs') := by simp only [codecFor, codecOf]
            rw [hcodec]
            refine ⟨rfl, fun _ => rfl, body, ?_, .struct ws1, by simp only [sh]; exact hsh1, f + 1, ?_⟩
            · simp only [DataFor, isStructTy, if_true]; exact hp
            · rw [decode_struct_succ, hf]; rfl
    all_goals simp [decodeOne] at h
  · have hs' : isStructTy tb = false := by simpa using hs
    obtain ⟨hw, hd⟩ := scalar_agree tb o w p cur cur' v F 0 fl (scalar_of_tyOKM tb ht hs' hnp hns hnm) hs' hnp hns ho
      hfl hp h
    exact ⟨hw, fun hc => absurd hc hs, p, by simp only [DataFor, hs', Bool.false_eq_true, if_false], v, sh_refl v, 1, hd⟩

theorem field_agreeR (F : Nat) (ih : ∀ F', F' < F → LoopR F') (t : Ty) (o : FieldOpt) (w : WireVal) (p : Bytes)
    (cur cur' v : Val) (fl : Flags) (ht : tyOKM t = true) (hns : isSlice t = false) (hnm : isMap t = false)
    (ho : optOK t o = true) (hfl : fl.zigzag = o.zigzag) (hp : Pay w p) (hsh : sh cur cur' = true)
    (h : decodeOne F (deref t) o w (unwrapPtr t cur) = some v) :
    wireNum w = (codecFor t o).wire.num ∧ (isEmb t = true → (codecFor t o).wire = .varlen) ∧
      ∃ data, DataFor (isEmb t) p data ∧
        ∃ v', sh (wrapPtr t v) v' = true ∧ ∃ f, decodeU f (codecFor t o) data cur' fl = .ok (v', data.length) := by
  by_cases hptr : isPtr t = true
  · cases t <;> simp only [isPtr] at hptr <;> try (exact absurd hptr (by decide))
    rename_i t'
    simp only [tyOKM, Bool.and_eq_true] at ht
    have ho' : optOK t' o = true := by
      cases t' <;> simp_all [optOK, ptrTarget]
    have hnp' := ptrTarget_notPtr t' ht.1
    have hnm' := ptrTarget_notMap t' ht.1
    obtain ⟨hd, hu, hwr⟩ := base_plumbingM t' ht.2 hnp'
    have hderef : deref (.ptr t') = t' := by simp only [deref, hd]
    have hz : zeroOfCodec (codecFor t' o) = Spec.Protobuf.zeroOf t' := by
      rw [zeroOfCodec_codecForM t' o ht.2 hnm', zeroOf_eqM t' ht.2]
    have htgt : unwrapPtr (.ptr t') cur = ptrTgt (codecFor t' o) cur := by
      cases cur <;> simp only [unwrapPtr, ptrTgt, hu, hd, hz]
    have hshT : sh (ptrTgt (codecFor t' o) cur) (ptrTgt (codecFor t' o) cur') = true := by
      by_cases hc : ∃ x, cur = .ptr x
      · obtain ⟨x, rfl⟩ := hc
        obtain ⟨y, rfl, hxy⟩ := sh_ptr_inv hsh
        simpa only [ptrTgt] using hxy
      · have hc1 : ∀ x, cur ≠ .ptr x := fun x e => hc ⟨x, e⟩
        have hc2 := sh_notptr hsh hc1
        have e1 : ptrTgt (codecFor t' o) cur = zeroOfCodec (codecFor t' o) := by
          cases cur <;> first | rfl | exact absurd rfl (hc1 _)
        have e2 : ptrTgt (codecFor t' o) cur' = zeroOfCodec (codecFor t' o) := by
          cases cur' <;> first | rfl | exact absurd rfl (hc2 _)
        rw [e1, e2]; exact sh_refl _
    rw [hderef, htgt] at h
    obtain ⟨hw, hv, data, hdat, v', hsv, f, hf⟩ := base_agreeR F ih t' o w p _ _ v fl ht.2 hnp'
      (ptrTarget_notSlice t' ht.1) hnm' ho' hfl hp hshT h
    rw [codecFor_ptr t' o ht.1, isEmb_ptr t' ht.1]
    refine ⟨hw, hv, data, hdat, .ptr v', by simp only [wrapPtr, hwr, sh]; exact hsv, f + 1, ?_⟩
    rw [decode_ptr, hf]
    simp only [Res.bind]
  · have hnp : isPtr t = false := by simpa using hptr
    obtain ⟨hd, hu, hwr⟩ := base_plumbingM t ht hnp
    rw [hd, hu] at h
    rw [isEmb_notPtr t hnp, hwr]
    exact base_agreeR F ih t o w p cur cur' v fl ht hnp hns hnm ho hfl hp hsh h

theorem slice_agreeR (F : Nat) (ih : ∀ F', F' < F → LoopR F') (e : Ty) (o : FieldOpt) (w : WireVal) (p : Bytes)
    (cur' x : Val) (fl : Flags) (num : Nat) (ht : tyOKM (.slice e) = true) (ho : optOK (.slice e) o = true)
    (hp : Pay w p) (h : decodeOne F e o w (Spec.Protobuf.zeroOf e) = some x) :
    wireNum w = (codecOf e).wire.num ∧ (isStructTy e = true → (codecOf e).wire = .varlen) ∧
      ∃ data, DataFor (isStructTy e) p data ∧
        ∃ l, ∃ f, decodeU f (.slice (codecOf e) num (codecOf e).wire (isStructTy e)) data cur' fl
          = .ok (.list l, data.length) := by
  simp only [tyOKM, elemTy, Bool.and_eq_true, Bool.not_eq_true'] at ht
  simp only [optOK, Bool.and_eq_true, Bool.not_eq_true'] at ho
  have hoe : optOK e o = true := optOK_plain e o ho.1 ho.2 ht.1.1.1
  have hc : codecFor e o = codecOf e := codecFor_nofixed e o ho.2
  have hz : Spec.Protobuf.zeroOf e = zeroOfCodec (codecOf e) := by
    rw [← hc, zeroOfCodec_codecForM e o ht.2 ht.1.2, zeroOf_eqM e ht.2]
  rw [hz] at h
  obtain ⟨hw, hv, data, hdat, x', _, f, hf⟩ := base_agreeR F ih e o w p _ _ x {} ht.2 ht.1.1.1 ht.1.1.2 ht.1.2 hoe
    (by simp only [ho.1]) hp (sh_refl _) h
  rw [hc] at hw hv hf
  refine ⟨hw, hv, data, hdat,
    Vals.ofList ((match cur' with | .list vs => vs | _ => Vals.nil).toList ++ [x']), f + 1, ?_⟩
  simp only [decodeU, hf]
  cases cur' <;> rfl

/-- one entry of a map field, zero-length or not: the map codec succeeds and leaves a map in the slot -/
theorem map_agreeR (F : Nat) (ih : ∀ F', F' < F → LoopR F') (kt vt : Ty) (num : Nat) (eb : Bytes) (cur' : Val)
    (evs : Vals) (fl : Flags) (ht : tyOKM (.map kt vt) = true)
    (h : decodeMsg F (entryF kt vt) eb (Spec.Protobuf.zeroFields (entryF kt vt)) = some evs) :
    ∃ kvs, ∃ f, decodeU f (mapC num kt vt) eb cur' fl = .ok (.map kvs, eb.length) := by
  by_cases hnb : eb.isEmpty = true
  · have : eb = [] := by cases eb <;> simp_all
    subst this
    refine ⟨mapCur cur', 1, ?_⟩
    simp only [mapC, decodeU, List.isEmpty_nil, if_true, List.length_nil]
    cases cur' <;> rfl
  have hnb : eb.isEmpty = false := by simpa using hnb
  cases F with
  | zero => simp [decodeMsg] at h
  | succ F1 =>
    simp only [decodeMsg, Option.bind_eq_bind] at h
    cases hpr : parse (eb.length + 1) eb with
    | none => simp [hpr] at h
    | some recs =>
      simp only [hpr, Option.bind_some] at h
      have hety := entry_tyOKM kt vt ht
      obtain ⟨evs', hshE, hseg⟩ := ih F1 (by omega) (entryF kt vt) { ({} : Flags) with toplevel := false } eb recs _
        evs _ hety rfl hpr h (shs_refl _)
      obtain ⟨f, hf⟩ := hseg.run
      have hlen : evs'.length = 2 := by
        rw [shs_len _ _ hshE, decodeRecs_len F1 _ recs _ evs h]; rfl
      have hevs := vals_two evs' hlen
      have hent : decodeU (f + 1) (entryC kt vt) eb (zeroOfCodec (entryC kt vt)) {}
          = .ok (.struct (.cons (valsGet evs' 0) (.cons (valsGet evs' 1) .nil)), eb.length) := by
        rw [zero_entry kt vt ht, ← fieldsOf_entryF kt vt ht, decode_struct_succ, hf, ← hevs]; rfl
      exact ⟨_, f + 2, by rw [mapC, decode_map_arm (f + 1) _ _ _ _ _ _ eb cur' fl _ _ _ hnb hent]⟩

theorem loop_stepR (F : Nat) (ih : ∀ F', F' < F → LoopR F') : LoopR F := by
  intro fs fl b recs vs vs' ws hty hfl hparse hdec hsh
  cases F with
  | zero => simp [decodeRecs] at hdec
  | succ F1 =>
  by_cases hb : b = []
  · subst hb
    simp only [List.length_nil, parse, Option.some.injEq] at hparse
    subst hparse
    simp only [decodeRecs, Option.some.injEq] at hdec
    subst hdec
    exact ⟨ws, hsh, Seg.nil _ _ _⟩
  · obtain ⟨ptag, tag, p, m, w, tl, htok, eb, hn0, h8, hpay, erecs, hptl⟩ := parse_head _ b recs hb hparse
    subst eb erecs
    have hvalid : parse (m.length + 1) m = some tl := Valid.of_parse hptl
    have htyS := hty
    simp only [tyOKM, Bool.and_eq_true, decide_eq_true_eq] at hty
    obtain ⟨zz, hlook⟩ := lookupField_fieldsOfM fs (tag / 8) htyS
    cases hff : findField fs (tag / 8) with
    | none =>
      rw [decodeRecs_unknown F1 fs _ w tl vs hff] at hdec
      simp only [hff] at hlook
      have hrec : IsRecord (tag / 8) (ptag ++ p) :=
        IsRecord.mk ptag p _ (vtok_isVarint htok) (tag_num tag htok.lt)
          (by rw [tag_type tag htok.lt, h8]; exact pay_isPayload hpay)
      obtain ⟨ws', hsh', hseg'⟩ := ih F1 (by omega) fs fl m tl vs vs' ws htyS hfl hvalid hdec hsh
      exact ⟨ws', hsh', (seg_unknown _ fl _ _ ws hlook hrec).append hseg'⟩
    | some r =>
      obtain ⟨i, o, t⟩ := r
      simp only [hff] at hlook
      obtain ⟨htt, hot0, hnum, _, _⟩ := find_okM (tag / 8) fs 0 i o t hty.1 hff
      have hflz : ({ fl with zigzag := fl.zigzag || o.zigzag } : Flags).zigzag = o.zigzag := by
        simp only [hfl, Bool.false_or]
      have hget := shs_get vs ws i hsh
      by_cases hmp : isMap t = true
      · cases t <;> simp only [isMap] at hmp <;> try (exact absurd hmp (by decide))
        rename_i kt vt
        cases w
        case len ebody =>
          rw [decodeRecs_step_map F1 fs _ ebody tl vs i o kt vt hff] at hdec
          cases hone : decodeMsg F1 (entryF kt vt) ebody (Spec.Protobuf.zeroFields (entryF kt vt)) with
          | none => simp [hone] at hdec
          | some evs =>
            simp only [hone, Option.bind_some] at hdec
            simp only [descrM] at hlook
            obtain ⟨kvs, f, hf⟩ := map_agreeR F1 (fun F' h => ih F' (by omega)) kt vt o.number ebody (Vals.get ws i) evs
              { fl with zigzag := fl.zigzag || zz } htt hone
            have hseg := rec_seg (fieldsOf 1 fs) fl ptag p tag (.len ebody) i true zz _ ws _ ebody htok hpay h8 hlook
              rfl (fun _ => rfl) (by simp only [DataFor, if_true]; exact hpay) ⟨f, hf⟩
            obtain ⟨ws', hsh', hseg'⟩ := ih F1 (by omega) fs fl m tl _ vs' (Vals.set ws i (.map kvs)) htyS hfl hvalid
              hdec (shs_set vs ws i _ _ hsh (sh_map _ _))
            exact ⟨ws', hsh', hseg.append hseg'⟩
        all_goals
          simp [decodeRecs, hff, Spec.Protobuf.isRepeated, Spec.Protobuf.unname] at hdec
      have hnm : isMap t = false := by simpa using hmp
      have hot := hot0 hnm
      by_cases hsl : isSlice t = true
      · cases t <;> simp only [isSlice] at hsl <;> try (exact absurd hsl (by decide))
        rename_i e
        rw [decodeRecs_step_repM F1 fs _ w tl vs i o e hff htt] at hdec
        cases hone : decodeOne F1 e o w (Spec.Protobuf.zeroOf e) with
        | none => simp [hone] at hdec
        | some x =>
          simp only [hone, Option.bind_some] at hdec
          simp only [descrM] at hlook
          obtain ⟨hw, hv, data, hdat, l, hd⟩ := slice_agreeR F1 (fun F' h => ih F' (by omega)) e o w p (Vals.get ws i) x
            { fl with zigzag := fl.zigzag || false } o.number htt hot hpay hone
          have hseg := rec_seg (fieldsOf 1 fs) fl ptag p tag w i (isStructTy e) false _ ws _ data htok hpay h8 hlook
            hw hv hdat hd
          obtain ⟨ws', hsh', hseg'⟩ := ih F1 (by omega) fs fl m tl _ vs' (Vals.set ws i (.list l)) htyS hfl hvalid
            hdec (shs_set vs ws i _ _ hsh (sh_list _ _))
          exact ⟨ws', hsh', hseg.append hseg'⟩
      · have hns : isSlice t = false := by simpa using hsl
        rw [decodeRecs_stepM F1 fs _ w tl vs i o t hff htt hns hnm] at hdec
        cases hone : decodeOne F1 (deref t) o w (unwrapPtr t (valsGet vs i)) with
        | none => simp [hone] at hdec
        | some v =>
          simp only [hone, Option.bind_some] at hdec
          rw [descrM_plain zz t o hns hnm] at hlook
          obtain ⟨hw, hv, data, hdat, v', hsv, hd⟩ := field_agreeR F1 (fun F' h => ih F' (by omega)) t o w p
            (valsGet vs i) (Vals.get ws i) v { fl with zigzag := fl.zigzag || o.zigzag } htt hns hnm hot hflz hpay hget
            hone
          have hseg := rec_seg (fieldsOf 1 fs) fl ptag p tag w i (isEmb t) o.zigzag _ ws _ data htok hpay h8 hlook
            hw hv hdat hd
          obtain ⟨ws', hsh', hseg'⟩ := ih F1 (by omega) fs fl m tl _ vs' (Vals.set ws i v') htyS hfl hvalid
            hdec (shs_set vs ws i _ _ hsh hsv)
          exact ⟨ws', hsh', hseg.append hseg'⟩

theorem loop_agreeR (F : Nat) : LoopR F := by
  induction F using Nat.strongRecOn with
  | _ F ih => exact loop_stepR F ih

/-- **acceptance on ALL inputs.**  For a message type of the universe `tyOKM` and EVERY byte string `b` (zero-length
map entries included): if the reference decoder accepts `b`, then `Unmarshal` succeeds on `b`, and its value has the
skeleton of the reference's (the values themselves are equal if `b` has no zero-length map entry:
`unmarshal_of_decode_map_partial`). -/
theorem unmarshal_accepts_of_decode_map (fs : Fields) (hty : tyOKM (.struct fs) = true) (b : Bytes) (v : Val)
    (h : Spec.Protobuf.decode (.struct fs) b = some v) :
    ∃ v', unmarshalU (.struct fs) b = .ok v' ∧ sh v v' = true := by
  have hty' := hty
  simp only [tyOKM, Bool.and_eq_true, decide_eq_true_eq] at hty'
  obtain ⟨recs, vs, hp, hd, rfl⟩ := spec_decode_struct fs b v h
  by_cases hb : b = []
  · subst hb
    simp only [List.length_nil, parse, Option.some.injEq] at hp
    subst hp
    simp only [decodeRecs, Option.some.injEq] at hd
    subst hd
    refine ⟨_, ?_, sh_refl _⟩
    simp only [unmarshalU, List.isEmpty_nil, if_true, zeroOf, zeroFields_eqM fs 1 hty'.1]
  · obtain ⟨ws', hsh', hseg⟩ := loop_agreeR _ fs { ({ toplevel := true } : Flags) with toplevel := false } b recs _ vs
      _ hty rfl hp hd (shs_refl _)
    obtain ⟨f, hf⟩ := hseg.run
    refine ⟨.struct ws', unmarshal_ok (.struct fs) b (.struct ws') hb ⟨f + 1, ?_⟩, by simp only [sh]; exact hsh'⟩
    simp only [codecOf, zeroOf, zeroFields_eqM fs 1 hty'.1]
    rw [decode_struct_succ, hf]; rfl

/-- the Go decoder never rejects (and never panics on) an input that the reference accepts -/
theorem unmarshal_reject_map (fs : Fields) (hty : tyOKM (.struct fs) = true) (b : Bytes)
    (h : ∀ v, unmarshalU (.struct fs) b ≠ .ok v) : Spec.Protobuf.decode (.struct fs) b = none := by
  cases hd : Spec.Protobuf.decode (.struct fs) b with
  | none => rfl
  | some v =>
    obtain ⟨v', hv', _⟩ := unmarshal_accepts_of_decode_map fs hty b v hd
    exact absurd hv' (h v')

end Enc.Lemmas.ProtoLiberalMap
