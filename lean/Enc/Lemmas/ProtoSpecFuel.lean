import Enc.Lemmas.ProtoRewriteSpec
/-! Fuel-free form of the reference protobuf decoder (`Enc/Spec/Protobuf.lean`). -/
namespace Enc.Lemmas.ProtoSpecFuel
open Enc Enc.Spec.Protobuf Enc.Lemmas.ProtoRewriteSpec

/-! ## unfolding the mutual block -/

theorem decodeOne_struct (f : Nat) (fs : Fields) (o : FieldOpt) (b : Bytes) (cur : Val) :
    decodeOne (f + 1) (.struct fs) o (.len b) cur
      = match cur with
        | .struct vs => (decodeMsg f fs b vs).map Val.struct
        | _ => none := by
  cases cur <;> simp only [decodeOne] <;> try rfl
  rename_i vs
  cases decodeMsg f fs b vs <;> rfl

/-- outside (message type, LEN record) `decodeOne` does not look at its fuel -/
theorem decodeOne_nonstruct (f g : Nat) (t : Ty) (o : FieldOpt) (w : WireVal) (cur : Val)
    (h : ∀ fs b, ¬ (t = .struct fs ∧ w = .len b)) :
    decodeOne (f + 1) t o w cur = decodeOne (g + 1) t o w cur := by
  unfold decodeOne
  split <;> first | rfl | skip
  exact absurd ⟨rfl, rfl⟩ (h _ _)

theorem decodeOne_zero (t : Ty) (o : FieldOpt) (w : WireVal) (cur : Val) : decodeOne 0 t o w cur = none := by
  simp [decodeOne]
theorem decodeMsg_zero (fs : Fields) (b : Bytes) (vs : Vals) : decodeMsg 0 fs b vs = none := by
  simp [decodeMsg]
theorem decodeRecs_zero (fs : Fields) (recs : List (Nat × WireVal)) (vs : Vals) : decodeRecs 0 fs recs vs = none := by
  simp [decodeRecs]
theorem decodeRecs_nil (f : Nat) (fs : Fields) (vs : Vals) : decodeRecs (f + 1) fs [] vs = some vs := by
  simp [decodeRecs]
theorem decodeMsg_succ (f : Nat) (fs : Fields) (b : Bytes) (vs : Vals) :
    decodeMsg (f + 1) fs b vs = (parse (b.length + 1) b).bind fun recs => decodeRecs f fs recs vs := by
  simp only [decodeMsg]; rfl

def listOf : Val → List Val
  | .list l => l.toList
  | _ => []

def mapOf : Val → Vals
  | .map kvs => kvs
  | _ => .nil

/-- the entry message type of a map field -/
def entryFs (kt vt : Ty) : Fields := Fields.cons "Key" "" false kt (.cons "Elem" "" false vt .nil)

/-- new value of a field's position from its current value, inner decoders run with fuel `f` -/
def fieldF (f : Nat) (t : Ty) (o : FieldOpt) (w : WireVal) (cur : Val) : Option Val :=
  match isRepeated t with
  | some et =>
    (decodeOne f (deref et) o w (zeroOf (deref et))).map fun e => .list (Vals.ofList (listOf cur ++ [wrapPtr et e]))
  | none =>
    match unname t, w with
    | .map kt vt, .len eb =>
      (decodeMsg f (entryFs kt vt) eb (zeroFields (entryFs kt vt))).map fun evs =>
        .map (mapPut (mapOf cur) (valsGet evs 0) (valsGet evs 1))
    | .map _ _, _ => none
    | _, _ => (decodeOne f (deref t) o w (unwrapPtr t cur)).map (wrapPtr t)

def recStep (f : Nat) (fs : Fields) (n : Nat) (w : WireVal) (vs : Vals) : Option Vals :=
  match findField fs n with
  | none => some vs
  | some (i, o, t) => (fieldF f t o w (valsGet vs i)).map (valsSet vs i)

theorem decodeRecs_cons (f : Nat) (fs : Fields) (n : Nat) (w : WireVal) (rest : List (Nat × WireVal)) (vs : Vals) :
    decodeRecs (f + 1) fs ((n, w) :: rest) vs = (recStep f fs n w vs).bind (decodeRecs f fs rest) := by
  simp only [decodeRecs, recStep]
  cases hf : findField fs n with
  | none => rfl
  | some iot =>
    obtain ⟨i, o, t⟩ := iot
    simp only [fieldF]
    cases hr : isRepeated t with
    | some et =>
      simp only []
      cases decodeOne f (deref et) o w (zeroOf (deref et)) with
      | none => rfl
      | some e => cases valsGet vs i <;> rfl
    | none =>
      simp only []
      generalize unname t = u
      cases u <;> cases w <;> simp only [] <;>
        first
        | rfl
        | (generalize decodeOne f (deref t) o _ _ = x; cases x <;> rfl)
        | (simp only [entryFs]
           generalize decodeMsg f _ _ _ = x
           cases x with
           | none => rfl
           | some evs => cases valsGet vs i <;> rfl)

/-! ## transfer of success between two fuels, one record at a time -/

theorem fieldF_imp (f f' : Nat) (w : WireVal)
    (h1 : ∀ t o cur r, decodeOne f t o w cur = some r → decodeOne f' t o w cur = some r)
    (h2 : ∀ b fs vs r, w = .len b → decodeMsg f fs b vs = some r → decodeMsg f' fs b vs = some r)
    (t : Ty) (o : FieldOpt) (cur r : Val) (h : fieldF f t o w cur = some r) : fieldF f' t o w cur = some r := by
  unfold fieldF at h ⊢
  split at h
  · rename_i et _
    obtain ⟨e, he, rfl⟩ := Option.map_eq_some_iff.mp h
    rw [h1 _ _ _ _ he]; rfl
  · split at h
    · rename_i kt vt eb
      obtain ⟨e, he, rfl⟩ := Option.map_eq_some_iff.mp h
      rw [h2 _ _ _ _ rfl he]; rfl
    · exact absurd h (by simp)
    · obtain ⟨e, he, rfl⟩ := Option.map_eq_some_iff.mp h
      rw [h1 _ _ _ _ he]; rfl

theorem recStep_imp (f f' : Nat) (w : WireVal)
    (h1 : ∀ t o cur r, decodeOne f t o w cur = some r → decodeOne f' t o w cur = some r)
    (h2 : ∀ b fs vs r, w = .len b → decodeMsg f fs b vs = some r → decodeMsg f' fs b vs = some r)
    (fs : Fields) (n : Nat) (vs r : Vals) (h : recStep f fs n w vs = some r) : recStep f' fs n w vs = some r := by
  unfold recStep at h ⊢
  split at h
  · exact h
  · obtain ⟨e, he, rfl⟩ := Option.map_eq_some_iff.mp h
    rw [fieldF_imp f f' w h1 h2 _ _ _ _ he]; rfl

/-! ## 1. monotonicity in the fuel -/

theorem mono_succ : ∀ F : Nat,
    (∀ t o w cur r, decodeOne F t o w cur = some r → decodeOne (F + 1) t o w cur = some r) ∧
    (∀ fs b vs r, decodeMsg F fs b vs = some r → decodeMsg (F + 1) fs b vs = some r) ∧
    (∀ fs recs vs r, decodeRecs F fs recs vs = some r → decodeRecs (F + 1) fs recs vs = some r) := by
  intro F
  induction F with
  | zero =>
    refine ⟨?_, ?_, ?_⟩
    · intro t o w cur r h; rw [decodeOne_zero] at h; exact absurd h (by simp)
    · intro fs b vs r h; rw [decodeMsg_zero] at h; exact absurd h (by simp)
    · intro fs recs vs r h; rw [decodeRecs_zero] at h; exact absurd h (by simp)
  | succ F ih =>
    obtain ⟨ih1, ih2, ih3⟩ := ih
    refine ⟨?_, ?_, ?_⟩
    · intro t o w cur r h
      by_cases hs : ∃ fs b, t = .struct fs ∧ w = .len b
      · obtain ⟨fs, b, rfl, rfl⟩ := hs
        rw [decodeOne_struct] at h ⊢
        split at h
        · obtain ⟨e, he, rfl⟩ := Option.map_eq_some_iff.mp h
          simp only [ih2 _ _ _ _ he]; rfl
        · exact absurd h (by simp)
      · rw [decodeOne_nonstruct (F + 1) F t o w cur (fun fs b hh => hs ⟨fs, b, hh⟩)]; exact h
    · intro fs b vs r h
      rw [decodeMsg_succ] at h ⊢
      obtain ⟨recs, hp, hr⟩ := Option.bind_eq_some_iff.mp h
      rw [hp]; exact ih3 _ _ _ _ hr
    · intro fs recs vs r h
      cases recs with
      | nil => rw [decodeRecs_nil] at h ⊢; exact h
      | cons nw rest =>
        obtain ⟨n, w⟩ := nw
        rw [decodeRecs_cons] at h ⊢
        obtain ⟨vs', hp, hr⟩ := Option.bind_eq_some_iff.mp h
        rw [recStep_imp F (F + 1) w (fun t o cur r => ih1 t o w cur r) (fun b fs vs r _ => ih2 fs b vs r) fs n vs vs' hp]
        exact ih3 _ _ _ _ hr

theorem decodeOne_mono {F F' : Nat} (hF : F ≤ F') {t : Ty} {o : FieldOpt} {w : WireVal} {cur r : Val}
    (h : decodeOne F t o w cur = some r) : decodeOne F' t o w cur = some r := by
  induction hF with
  | refl => exact h
  | step _ ih => exact (mono_succ _).1 _ _ _ _ _ ih

theorem decodeMsg_mono {F F' : Nat} (hF : F ≤ F') {fs : Fields} {b : Bytes} {vs r : Vals}
    (h : decodeMsg F fs b vs = some r) : decodeMsg F' fs b vs = some r := by
  induction hF with
  | refl => exact h
  | step _ ih => exact (mono_succ _).2.1 _ _ _ _ ih

theorem decodeRecs_mono {F F' : Nat} (hF : F ≤ F') {fs : Fields} {recs : List (Nat × WireVal)} {vs r : Vals}
    (h : decodeRecs F fs recs vs = some r) : decodeRecs F' fs recs vs = some r := by
  induction hF with
  | refl => exact h
  | step _ ih => exact (mono_succ _).2.2 _ _ _ _ ih

/-! ## 2. sufficiency: a fuel linear in the byte length is enough -/

def wvLen : WireVal → Nat
  | .len b => b.length
  | _ => 0

def recsWeight : List (Nat × WireVal) → Nat
  | [] => 0
  | r :: rest => 2 + wvLen r.2 + recsWeight rest

theorem read_len (b rest : Bytes) (val : Nat) (h : readVarint b = some (val, rest)) : rest.length + 1 ≤ b.length := by
  obtain ⟨pre, e, ht⟩ := vtok_of_read b rest val h
  have := ht.length_pos
  rw [e]; simp only [List.length_append]; omega

/-- the first record of a non-empty message occupies at least two bytes plus its LEN payload -/
theorem parse_first_weight (f : Nat) (b : Bytes) (recs : List (Nat × WireVal)) (hb : b ≠ [])
    (h : parse (f + 1) b = some recs) :
    ∃ m n w tl, recs = (n, w) :: tl ∧ parse f m = some tl ∧ 2 + wvLen w + m.length ≤ b.length := by
  cases hrd : readVarint b with
  | none =>
    cases b with
    | nil => exact absurd rfl hb
    | cons c cs => simp [parse, hrd] at h
  | some tr =>
    obtain ⟨tag, rest⟩ := tr
    have hl1 := read_len b rest tag hrd
    by_cases hn : tag / 8 = 0
    · cases b with
      | nil => exact absurd rfl hb
      | cons c cs => simp [parse, hrd, hn] at h; exact absurd h.1 (by omega)
    · rw [ProtoWire.parse_succ_of_tag f b rest tag hb hrd hn] at h
      have h8 : tag % 8 = 0 ∨ tag % 8 = 1 ∨ tag % 8 = 2 ∨ tag % 8 = 3 ∨ tag % 8 = 4 ∨ tag % 8 = 5 ∨ tag % 8 = 6
          ∨ tag % 8 = 7 := by omega
      rcases h8 with h8 | h8 | h8 | h8 | h8 | h8 | h8 | h8 <;> rw [h8] at h
      · cases hv : readVarint rest with
        | none => simp [hv] at h
        | some vr =>
          obtain ⟨val, rest2⟩ := vr
          have hl2 := read_len rest rest2 val hv
          simp only [hv, Option.bind_eq_bind, Option.bind_some, Option.pure_def] at h
          cases htl : parse f rest2 with
          | none => simp [htl] at h
          | some tl =>
            simp only [htl, Option.bind_some, Option.some.injEq] at h
            exact ⟨rest2, tag / 8, .varint val, tl, h.symm, htl, by simp only [wvLen]; omega⟩
      · by_cases hl : rest.length < 8
        · simp [hl] at h
        · simp only [hl, if_false, Option.bind_eq_bind, Option.pure_def] at h
          cases htl : parse f (rest.drop 8) with
          | none => simp [htl] at h
          | some tl =>
            simp only [htl, Option.bind_some, Option.some.injEq] at h
            exact ⟨rest.drop 8, tag / 8, .i64 (rest.take 8), tl, h.symm, htl, by
              simp only [wvLen, List.length_drop]; omega⟩
      · cases hv : readVarint rest with
        | none => simp [hv] at h
        | some vr =>
          obtain ⟨l, rest2⟩ := vr
          have hl2 := read_len rest rest2 l hv
          simp only [hv, Option.bind_eq_bind, Option.bind_some, Option.pure_def] at h
          by_cases hl : rest2.length < l
          · simp [hl] at h
          · simp only [hl, if_false] at h
            cases htl : parse f (rest2.drop l) with
            | none => simp [htl] at h
            | some tl =>
              simp only [htl, Option.bind_some, Option.some.injEq] at h
              exact ⟨rest2.drop l, tag / 8, .len (rest2.take l), tl, h.symm, htl, by
                simp only [wvLen, List.length_drop, List.length_take]; omega⟩
      · simp at h
      · simp at h
      · by_cases hl : rest.length < 4
        · simp [hl] at h
        · simp only [hl, if_false, Option.bind_eq_bind, Option.pure_def] at h
          cases htl : parse f (rest.drop 4) with
          | none => simp [htl] at h
          | some tl =>
            simp only [htl, Option.bind_some, Option.some.injEq] at h
            exact ⟨rest.drop 4, tag / 8, .i32 (rest.take 4), tl, h.symm, htl, by
              simp only [wvLen, List.length_drop]; omega⟩
      · simp at h
      · simp at h

theorem parse_weight : ∀ (f : Nat) (b : Bytes) (recs : List (Nat × WireVal)),
    parse f b = some recs → recsWeight recs ≤ b.length := by
  intro f
  induction f with
  | zero => intro b recs h; simp [parse] at h
  | succ f ih =>
    intro b recs h
    by_cases hb : b = []
    · subst hb; simp [parse] at h; subst h; simp [recsWeight]
    · obtain ⟨m, n, w, tl, e, h3, hl⟩ := parse_first_weight f b recs hb h
      have := ih m tl h3
      rw [e]; simp only [recsWeight]; omega

/-- success at SOME fuel gives the same result at every fuel above a linear bound (strong induction on the size) -/
theorem enough_all : ∀ n : Nat,
    (∀ F F' t o w cur r, wvLen w ≤ n → decodeOne F t o w cur = some r → 2 * wvLen w + 3 ≤ F' →
        decodeOne F' t o w cur = some r) ∧
    (∀ F F' fs (b : Bytes) vs r, b.length ≤ n → decodeMsg F fs b vs = some r → 2 * b.length + 2 ≤ F' →
        decodeMsg F' fs b vs = some r) ∧
    (∀ F F' fs recs vs r, recsWeight recs ≤ n → decodeRecs F fs recs vs = some r → 2 * recsWeight recs + 1 ≤ F' →
        decodeRecs F' fs recs vs = some r) := by
  intro n
  induction n using Nat.strongRecOn with
  | ind n ih =>
    have hRecs : ∀ F F' fs recs vs r, recsWeight recs ≤ n → decodeRecs F fs recs vs = some r →
        2 * recsWeight recs + 1 ≤ F' → decodeRecs F' fs recs vs = some r := by
      intro F F' fs recs
      induction recs generalizing F F' with
      | nil =>
        intro vs r _ h hF'
        cases F with
        | zero => rw [decodeRecs_zero] at h; exact absurd h (by simp)
        | succ F =>
          cases F' with
          | zero => omega
          | succ F' => rw [decodeRecs_nil] at h ⊢; exact h
      | cons nw rest ihr =>
        intro vs r hn h hF'
        obtain ⟨num, w⟩ := nw
        simp only [recsWeight] at hn hF'
        cases F with
        | zero => rw [decodeRecs_zero] at h; exact absurd h (by simp)
        | succ F =>
          cases F' with
          | zero => omega
          | succ F' =>
            rw [decodeRecs_cons] at h ⊢
            obtain ⟨vs', hp, hr⟩ := Option.bind_eq_some_iff.mp h
            rw [recStep_imp F F' w
              (fun t o cur r hh => (ih (wvLen w) (by omega)).1 F F' t o w cur r (Nat.le_refl _) hh (by omega))
              (fun b fs vs r hw hh => (ih (wvLen w) (by omega)).2.1 F F' fs b vs r (by subst hw; exact Nat.le_refl _) hh
                (by subst hw; simp only [wvLen] at hF'; omega))
              fs num vs vs' hp]
            exact ihr F F' vs' r (by omega) hr (by omega)
    have hMsg : ∀ F F' fs (b : Bytes) vs r, b.length ≤ n → decodeMsg F fs b vs = some r → 2 * b.length + 2 ≤ F' →
        decodeMsg F' fs b vs = some r := by
      intro F F' fs b vs r hn h hF'
      cases F with
      | zero => rw [decodeMsg_zero] at h; exact absurd h (by simp)
      | succ F =>
        cases F' with
        | zero => omega
        | succ F' =>
          rw [decodeMsg_succ] at h ⊢
          obtain ⟨recs, hp, hr⟩ := Option.bind_eq_some_iff.mp h
          have hw := parse_weight _ _ _ hp
          rw [hp]
          exact hRecs F F' fs recs vs r (by omega) hr (by omega)
    refine ⟨?_, hMsg, hRecs⟩
    intro F F' t o w cur r hn h hF'
    cases F with
    | zero => rw [decodeOne_zero] at h; exact absurd h (by simp)
    | succ F =>
      cases F' with
      | zero => omega
      | succ F' =>
        by_cases hs : ∃ fs b, t = .struct fs ∧ w = .len b
        · obtain ⟨fs, b, rfl, rfl⟩ := hs
          simp only [wvLen] at hn hF'
          rw [decodeOne_struct] at h ⊢
          split at h
          · obtain ⟨e, he, rfl⟩ := Option.map_eq_some_iff.mp h
            simp only [hMsg F F' fs b _ e hn he (by omega)]; rfl
          · exact absurd h (by simp)
        · rw [decodeOne_nonstruct F' F t o w cur (fun fs b hh => hs ⟨fs, b, hh⟩)]; exact h

theorem decodeOne_enough {F F' : Nat} {t : Ty} {o : FieldOpt} {w : WireVal} {cur r : Val}
    (h : decodeOne F t o w cur = some r) (hF : 2 * wvLen w + 3 ≤ F') : decodeOne F' t o w cur = some r :=
  (enough_all (wvLen w)).1 F F' t o w cur r (Nat.le_refl _) h hF

theorem decodeMsg_enough {F F' : Nat} {fs : Fields} {b : Bytes} {vs r : Vals}
    (h : decodeMsg F fs b vs = some r) (hF : 2 * b.length + 2 ≤ F') : decodeMsg F' fs b vs = some r :=
  (enough_all b.length).2.1 F F' fs b vs r (Nat.le_refl _) h hF

theorem decodeRecs_enough {F F' : Nat} {fs : Fields} {recs : List (Nat × WireVal)} {vs r : Vals}
    (h : decodeRecs F fs recs vs = some r) (hF : 2 * recsWeight recs + 1 ≤ F') : decodeRecs F' fs recs vs = some r :=
  (enough_all (recsWeight recs)).2.2 F F' fs recs vs r (Nat.le_refl _) h hF

/-! ## 3. the fuel-free fold -/

theorem opt_eq_of_imp {α} {a b : Option α} (h1 : ∀ r, a = some r → b = some r) (h2 : ∀ r, b = some r → a = some r) :
    a = b := by
  cases a with
  | some x => exact (h1 x rfl).symm
  | none =>
    cases b with
    | none => rfl
    | some y => exact absurd (h2 y rfl) (by simp)

theorem decodeOne_fuel_eq {F F' : Nat} (t : Ty) (o : FieldOpt) (w : WireVal) (cur : Val)
    (hF : 2 * wvLen w + 3 ≤ F) (hF' : 2 * wvLen w + 3 ≤ F') : decodeOne F t o w cur = decodeOne F' t o w cur :=
  opt_eq_of_imp (fun _ h => decodeOne_enough h hF') (fun _ h => decodeOne_enough h hF)

theorem decodeMsg_fuel_eq {F F' : Nat} (fs : Fields) (b : Bytes) (vs : Vals)
    (hF : 2 * b.length + 2 ≤ F) (hF' : 2 * b.length + 2 ≤ F') : decodeMsg F fs b vs = decodeMsg F' fs b vs :=
  opt_eq_of_imp (fun _ h => decodeMsg_enough h hF') (fun _ h => decodeMsg_enough h hF)

theorem decodeRecs_fuel_eq {F F' : Nat} (fs : Fields) (recs : List (Nat × WireVal)) (vs : Vals)
    (hF : 2 * recsWeight recs + 1 ≤ F) (hF' : 2 * recsWeight recs + 1 ≤ F') :
    decodeRecs F fs recs vs = decodeRecs F' fs recs vs :=
  opt_eq_of_imp (fun _ h => decodeRecs_enough h hF') (fun _ h => decodeRecs_enough h hF)

theorem recStep_fuel_eq {F F' : Nat} (fs : Fields) (n : Nat) (w : WireVal) (vs : Vals)
    (hF : 2 * wvLen w + 3 ≤ F) (hF' : 2 * wvLen w + 3 ≤ F') : recStep F fs n w vs = recStep F' fs n w vs :=
  opt_eq_of_imp
    (fun r h => recStep_imp F F' w (fun _ _ _ _ hh => decodeOne_enough hh hF')
      (fun b _ _ _ hw hh => decodeMsg_enough hh (by subst hw; simp only [wvLen] at hF'; omega)) fs n vs r h)
    (fun r h => recStep_imp F' F w (fun _ _ _ _ hh => decodeOne_enough hh hF)
      (fun b _ _ _ hw hh => decodeMsg_enough hh (by subst hw; simp only [wvLen] at hF; omega)) fs n vs r h)

/-- one record applied to the field values, at the fuel that is enough for it -/
def stepD (fs : Fields) (r : Nat × WireVal) (vs : Vals) : Option Vals := decodeRecs (2 * wvLen r.2 + 5) fs [r] vs

def foldD (fs : Fields) : List (Nat × WireVal) → Vals → Option Vals
  | [], vs => some vs
  | r :: rest, vs => (stepD fs r vs).bind (foldD fs rest)

theorem foldD_append (fs : Fields) : ∀ (a b : List (Nat × WireVal)) (vs : Vals),
    foldD fs (a ++ b) vs = (foldD fs a vs).bind (foldD fs b)
  | [], b, vs => by simp [foldD]
  | r :: a, b, vs => by
    simp only [List.cons_append, foldD]
    cases stepD fs r vs with
    | none => rfl
    | some x => simp only [Option.bind_some]; exact foldD_append fs a b x

theorem stepD_recStep (fs : Fields) (n : Nat) (w : WireVal) (vs : Vals) :
    stepD fs (n, w) vs = recStep (2 * wvLen w + 4) fs n w vs := by
  simp only [stepD]
  rw [decodeRecs_cons]
  cases recStep (2 * wvLen w + 4) fs n w vs with
  | none => rfl
  | some x => simp only [Option.bind_some]; exact decodeRecs_nil _ _ _

/-- **the reference record loop is a fuel-free fold** (equality of options, for every message type) -/
theorem decodeRecs_eq_foldD (fs : Fields) : ∀ (recs : List (Nat × WireVal)) (F : Nat) (vs : Vals),
    2 * recsWeight recs + 1 ≤ F → decodeRecs F fs recs vs = foldD fs recs vs
  | [], F, vs, hF => by
    cases F with
    | zero => omega
    | succ F => rw [decodeRecs_nil]; rfl
  | (n, w) :: rest, F, vs, hF => by
    simp only [recsWeight] at hF
    cases F with
    | zero => omega
    | succ F =>
      rw [decodeRecs_cons, foldD, stepD_recStep, recStep_fuel_eq fs n w vs (F := F) (F' := 2 * wvLen w + 4) (by omega) (by omega)]
      cases recStep (2 * wvLen w + 4) fs n w vs with
      | none => rfl
      | some x => simp only [Option.bind_some]; exact decodeRecs_eq_foldD fs rest F x (by omega)

theorem decodeMsg_eq_foldD (fs : Fields) (b : Bytes) (vs : Vals) (F : Nat) (hF : 2 * b.length + 2 ≤ F) :
    decodeMsg F fs b vs = (parse (b.length + 1) b).bind fun recs => foldD fs recs vs := by
  cases F with
  | zero => omega
  | succ F =>
    rw [decodeMsg_succ]
    cases hp : parse (b.length + 1) b with
    | none => rfl
    | some recs =>
      have := parse_weight _ _ _ hp
      simp only [Option.bind_some]
      exact decodeRecs_eq_foldD fs recs F vs (by omega)

/-- **the reference decoder of a message type without fuel** -/
theorem decode_struct_eq (fs : Fields) (b : Bytes) :
    decode (.struct fs) b = (parse (b.length + 1) b).bind fun recs => (foldD fs recs (zeroFields fs)).map Val.struct := by
  simp only [decode, deref, wrapPtr]
  rw [decodeMsg_eq_foldD fs b _ _ (by omega)]
  cases parse (b.length + 1) b with
  | none => rfl
  | some recs =>
    simp only [Option.bind_some]
    cases foldD fs recs (zeroFields fs) <;> rfl

/-! ## 4. the step is positional -/

/-- new value of the position of a field of type `t` (options `o`) from its current value `cur` and one record value -/
def fieldD (t : Ty) (o : FieldOpt) (w : WireVal) (cur : Val) : Option Val :=
  match isRepeated t with
  | some et =>
    (decodeOne (2 * wvLen w + 4) (deref et) o w (zeroOf (deref et))).map fun e =>
      .list (Vals.ofList (listOf cur ++ [wrapPtr et e]))
  | none =>
    match unname t, w with
    | .map kt vt, .len eb =>
      (decodeMsg (2 * wvLen w + 4) (entryFs kt vt) eb (zeroFields (entryFs kt vt))).map fun evs =>
        .map (mapPut (mapOf cur) (valsGet evs 0) (valsGet evs 1))
    | .map _ _, _ => none
    | _, _ => (decodeOne (2 * wvLen w + 4) (deref t) o w (unwrapPtr t cur)).map (wrapPtr t)

theorem fieldD_eq_fieldF (t : Ty) (o : FieldOpt) (w : WireVal) (cur : Val) :
    fieldD t o w cur = fieldF (2 * wvLen w + 4) t o w cur := by
  unfold fieldD fieldF
  split
  · rfl
  · split <;> rfl

theorem stepD_eq (fs : Fields) (n : Nat) (w : WireVal) (vs : Vals) :
    stepD fs (n, w) vs
      = match findField fs n with
        | none => some vs
        | some (i, o, t) => (fieldD t o w (valsGet vs i)).map (valsSet vs i) := by
  rw [stepD_recStep, recStep]
  split
  · rfl
  · rw [fieldD_eq_fieldF]

theorem fieldD_single (t : Ty) (o : FieldOpt) (w : WireVal) (cur : Val) (hr : isRepeated t = none)
    (hm : ∀ k v, unname t ≠ .map k v) :
    fieldD t o w cur = (decodeOne (2 * wvLen w + 4) (deref t) o w (unwrapPtr t cur)).map (wrapPtr t) := by
  unfold fieldD
  rw [hr]
  simp only []
  generalize unname t = u at hm
  cases u with
  | map k v => exact absurd rfl (hm k v)
  | _ => cases w <;> rfl

/-- a singular message field: its LEN payload is parsed and folded into the current pointee -/
theorem fieldD_struct (t : Ty) (gs : Fields) (o : FieldOpt) (v : Bytes) (cur : Val) (hd : deref t = .struct gs)
    (hr : isRepeated t = none) (hm : ∀ k v, unname t ≠ .map k v) :
    fieldD t o (.len v) cur
      = (match unwrapPtr t cur with
         | .struct cvs => (parse (v.length + 1) v).bind fun recs => (foldD gs recs cvs).map fun r => wrapPtr t (.struct r)
         | _ => none) := by
  rw [fieldD_single t o _ cur hr hm, hd, decodeOne_struct]
  simp only [wvLen]
  cases unwrapPtr t cur with
  | struct cvs =>
    simp only []
    rw [decodeMsg_eq_foldD gs v cvs _ (by omega)]
    cases parse (v.length + 1) v with
    | none => rfl
    | some recs =>
      simp only [Option.bind_some]
      cases foldD gs recs cvs <;> rfl
  | _ => rfl

theorem fieldD_struct_nonlen (t : Ty) (gs : Fields) (o : FieldOpt) (w : WireVal) (cur : Val) (hd : deref t = .struct gs)
    (hr : isRepeated t = none) (hm : ∀ k v, unname t ≠ .map k v) (hw : ∀ v, w ≠ .len v) :
    fieldD t o w cur = none := by
  rw [fieldD_single t o _ cur hr hm, hd]
  cases w with
  | len v => exact absurd rfl (hw v)
  | _ => simp [decodeOne]

/-! ### non-vacuity -/

/-- `struct { A int32 (1); M *struct { B string (1) } (2) }` -/
def exInner : Fields := .cons "B" "" false .str .nil
def exFs : Fields := .cons "A" "" false (.int .i32) (.cons "M" "" false (.ptr (.struct exInner)) .nil)
/-- field 1 = 5; field 2 = { field 1 = "hi" } -/
def exBytes : Bytes := [0x08, 0x05, 0x12, 0x04, 0x0a, 0x02, 0x68, 0x69]

private theorem split_empty' (sep : String) (h : (sep == "") = false) : "".splitOn sep = [""] := by
  unfold String.splitOn
  simp only [h]
  rw [String.splitOnAux]
  have h1 : String.Pos.Raw.atEnd "" 0 = true := by decide
  have h2 : String.Pos.Raw.extract "" 0 0 = "" := by decide
  simp [h1, h2]

theorem fieldOpt_empty' (pos : Nat) : fieldOpt pos "" = { number := pos } := by
  unfold fieldOpt tagValue
  rw [split_empty' _ (by decide)]

theorem ex_find1 : findField exFs 1 = some (0, { number := 1 }, .int .i32) := by
  simp [findField, findField.go, exFs, fieldOpt_empty']
theorem ex_find2 : findField exFs 2 = some (1, { number := 2 }, .ptr (.struct exInner)) := by
  simp [findField, findField.go, exFs, fieldOpt_empty']

/-- the step on the first record of `exBytes` (field 1, VARINT 5) writes position 0 -/
theorem ex_step1 : stepD exFs (1, .varint 5) (zeroFields exFs)
    = some (.cons (.int 5) (.cons .nil .nil)) := by
  rw [stepD_eq, ex_find1]
  simp [fieldD, isRepeated, unname, deref, decodeOne, wrapPtr, valsSet, zeroFields, exFs,
    zeroOf, toInt64, IntKind.signed, IntKind.inRange, IntKind.bits]

/-- … and the step on the second record (field 2, LEN `0a 02 68 69`) allocates the pointer and folds the inner message -/
theorem ex_step2 : stepD exFs (2, .len [0x0a, 0x02, 0x68, 0x69]) (.cons (.int 5) (.cons .nil .nil))
    = some (.cons (.int 5) (.cons (.ptr (.struct (.cons (.str [0x68, 0x69]) .nil))) .nil)) := by
  have hf : findField exInner 1 = some (0, { number := 1 }, .str) := by
    simp [findField, findField.go, exInner, fieldOpt_empty']
  have hp : parse 5 [0x0a, 0x02, 0x68, 0x69] = some [(1, .len [0x68, 0x69])] := by rfl
  rw [stepD_eq, ex_find2]
  simp only [valsGet]
  rw [fieldD_struct _ exInner _ _ _ rfl rfl (by intro k v h; simp [unname] at h)]
  simp only [unwrapPtr, deref, zeroOf, zeroFields, exInner, List.length_cons, List.length_nil]
  rw [show (0 + 1 + 1 + 1 + 1 + 1 : Nat) = 5 from rfl, hp]
  simp only [Option.bind_some, foldD]
  rw [stepD_eq]
  have hf' : findField (Fields.cons "B" "" false Ty.str Fields.nil) 1 = some (0, { number := 1 }, .str) := hf
  rw [hf']
  simp [fieldD, isRepeated, unname, deref, decodeOne, wrapPtr, valsSet]

/-- the whole message through the fuel-free form -/
example : decode (.struct exFs) exBytes
    = some (.struct (.cons (.int 5) (.cons (.ptr (.struct (.cons (.str [0x68, 0x69]) .nil))) .nil))) := by
  have hp : parse (exBytes.length + 1) exBytes = some [(1, .varint 5), (2, .len [0x0a, 0x02, 0x68, 0x69])] := by rfl
  rw [decode_struct_eq, hp]
  simp only [Option.bind_some, foldD, ex_step1, ex_step2, Option.map_some]

example : deref (.ptr (.struct exInner)) = .struct exInner ∧ isRepeated (.ptr (.struct exInner)) = none
    ∧ ∀ k v, unname (.ptr (.struct exInner)) ≠ .map k v := by
  refine ⟨rfl, rfl, ?_⟩
  intro k v h; simp [unname] at h

#print axioms mono_succ
#print axioms decodeRecs_mono
#print axioms parse_weight
#print axioms enough_all
#print axioms decodeRecs_enough
#print axioms decodeMsg_enough
#print axioms foldD_append
#print axioms decodeRecs_eq_foldD
#print axioms decode_struct_eq
#print axioms stepD_eq
#print axioms fieldD_struct
#print axioms fieldD_struct_nonlen

end Enc.Lemmas.ProtoSpecFuel
