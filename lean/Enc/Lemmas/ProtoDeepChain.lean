import Enc.Lemmas.ProtoDepthSkip
import Enc.Lemmas.ProtoVarint
/-!
# The nesting limit is real and sharp (C07 `deep_rejected`, `max_depth_accepted`)

The recursive Go type `type R struct { Next *R; V int32 }` has no counterpart in the finite `Ty` universe; its codec
unrolled `n` times is `chainC n` (what `structCodecOf` builds level by level: field 1 = embedded pointer to the next
level, field 2 = int32). `nest k inner` is `inner` wrapped `k` times as field 1 (tag `0a`, length, body) — the input the
harness builds for `proto.deepr` / `proto.deep`.

  * `deep_rejected`       `maxDepth ≤ d + k → decode … d (chainC n) (nest k inner) … = .err "nestingTooDeep"` whatever `inner`
  * `max_depth_accepted`  `d + k + 1 ≤ maxDepth → decode … d (chainC n) (nest k []) … = .ok (_, length)`
-/
namespace Enc.Lemmas.ProtoDepth
open Enc Enc.Model.Proto Enc.Lemmas.ProtoDecode

/-- codec of `struct { Next *R; V int32 }` unrolled `n` times; below the last level a message without fields -/
def chainC : Nat → Codec
  | 0 => .struct .nil
  | n + 1 => .struct (.cons 1 true false false (.ptr (chainC n)) (.cons 2 false false false .int32 .nil))

/-- `body` as the value of field 1, wire type 2 -/
def wrap (body : Bytes) : Bytes := 0x0a :: (encodeVarint (BitVec.ofNat 64 body.length) ++ body)

def nest : Nat → Bytes → Bytes
  | 0, inner => inner
  | k + 1, inner => wrap (nest k inner)

theorem nest_length_mono (k : Nat) (inner : Bytes) : (nest k inner).length ≤ (nest (k + 1) inner).length := by
  simp only [nest, wrap, List.length_cons, List.length_append]; omega

theorem chainC_struct (n : Nat) : ∃ fs, chainC n = .struct fs := by
  cases n with
  | zero => exact ⟨_, rfl⟩
  | succ n => exact ⟨_, rfl⟩

theorem zero_chain_succ (n : Nat) :
    zeroOfCodec (chainC (n + 1)) = .struct (.cons .nil (.cons (.int 0) .nil)) := by
  simp [chainC, zeroOfCodec, zeroOfCodec.zeroCFields]

theorem zero_chain_struct (n : Nat) : ∃ vs, zeroOfCodec (chainC n) = .struct vs := by
  cases n with
  | zero => exact ⟨.nil, by simp [chainC, zeroOfCodec, zeroOfCodec.zeroCFields]⟩
  | succ n => exact ⟨_, zero_chain_succ n⟩

theorem wrap_ne (body : Bytes) : (wrap body).isEmpty = false := rfl

theorem wrap_tag (body : Bytes) : decodeVarint (wrap body) = .ok (10#64, 1) := by
  simp only [wrap, decodeVarint]
  unfold decodeVarintLoop
  rw [if_pos (by decide), if_neg (by decide)]
  rfl

theorem chain_lookup (n : Nat) :
    lookupField (.cons 1 true false false (.ptr (chainC n)) (.cons 2 false false false .int32 .nil)) 1
      = some (0, true, false, .ptr (chainC n)) := by
  simp [lookupField, lookupField.go]

theorem chain_wire (n : Nat) : (Codec.ptr (chainC n)).wire.num = 2 := by
  obtain ⟨fs, h⟩ := chainC_struct n
  simp [Codec.wire, h, Wire.num, Gen.c_proto_varlen]

/-- the loop of level `n + 1` on `wrap body`: the tag is field 1 / wire type 2, the carved data is `body`, and the rest of
the buffer is empty -/
theorem chain_loop (fuel d n : Nat) (body : Bytes) (vs : Vals) (fl : Flags) (hlen : body.length < 2 ^ 64) :
    decodeStruct (fuel + 1) d (.cons 1 true false false (.ptr (chainC n)) (.cons 2 false false false .int32 .nil))
        (wrap body) (wrap body).length vs fl 0
      = (decode fuel d (.ptr (chainC n)) body (Vals.get vs 0) { fl with zigzag := fl.zigzag || false }).bind fun (x : Val × Nat) =>
          decodeStruct fuel d (.cons 1 true false false (.ptr (chainC n)) (.cons 2 false false false .int32 .nil))
            (body.drop x.2) (wrap body).length (Vals.set vs 0 x.1) fl
            (0 + 1 + sizeOfVarint (BitVec.ofNat 64 body.length) + x.2) := by
  have hv : decodeVarint ((wrap body).drop 1) = .ok (BitVec.ofNat 64 body.length, sizeOfVarint (BitVec.ofNat 64 body.length)) := by
    simp only [wrap, List.drop_succ_cons, List.drop_zero]
    exact ProtoVarint.decode_encode_varint _ _
  have hto : (BitVec.ofNat 64 body.length).toNat = body.length := by
    simp only [BitVec.toNat_ofNat]; exact Nat.mod_eq_of_lt hlen
  have hwl : (wrap body).length = 1 + sizeOfVarint (BitVec.ofNat 64 body.length) + body.length := by
    simp only [wrap, List.length_cons, List.length_append, Lemmas.Proto.encodeVarint_length]; omega
  have hdrop : ((wrap body).drop 1).drop (sizeOfVarint (BitVec.ofNat 64 body.length)) = body := by
    simp only [wrap, List.drop_succ_cons, List.drop_zero]
    rw [← Lemmas.Proto.encodeVarint_length, List.drop_left]
  rw [decodeStruct_succ]
  simp only [wrap_ne, Bool.false_eq_true, if_false, wrap_tag]
  have h1 : ((10#64 : BitVec 64) >>> 3).toNat = 1 := by decide
  have h2 : ((10#64 : BitVec 64) &&& 7#64).toNat = 2 := by decide
  simp only [h1, h2, chain_lookup, chain_wire, bne_self_eq_false, Bool.false_eq_true, if_false]
  simp only [carve, show ((2 : Nat) == 0) = false from rfl, show ((2 : Nat) == 2) = true from rfl, if_true, hv, Res.bind, hto,
    Bool.false_eq_true, if_false]
  have hnot : ¬ (body.length > (wrap body).length - (0 + 1 + sizeOfVarint (BitVec.ofNat 64 body.length))) := by
    rw [hwl]; omega
  simp only [hnot, if_false, if_true, hdrop]
  have htake : body.take body.length = body := List.take_length
  simp only [htake]
  cases decode fuel d (.ptr (chainC n)) body (Vals.get vs 0) { fl with zigzag := fl.zigzag || false } with
  | ok x =>
    simp only []
    rw [← List.drop_drop, hdrop]
  | err e => rfl
  | panic e => rfl

/-- **deep_rejected.** A message nested more than `maxDepth` deep is refused, whatever sits at the bottom: with `d` messages
already around it, `k` wrappers and `maxDepth ≤ d + k`, the decoder of the recursive type answers "nestingTooDeep". -/
theorem chain_deep_rejected (inner : Bytes) : ∀ (k d n fuel : Nat) (fl : Flags), k ≤ n →
    (nest k inner).length < 2 ^ 64 → Gen.c_proto_maxDepth ≤ d + k → 3 * k + 1 ≤ fuel →
    decode fuel d (chainC n) (nest k inner) (zeroOfCodec (chainC n)) fl = .err "nestingTooDeep" := by
  intro k
  induction k with
  | zero =>
    intro d n fuel fl _ _ hd hf
    obtain ⟨fs, hfs⟩ := chainC_struct n
    obtain ⟨f', rfl⟩ : ∃ f', fuel = f' + 1 := ⟨fuel - 1, by omega⟩
    have : d + 1 > Gen.c_proto_maxDepth := by omega
    rw [hfs]
    simp [decode, this]
  | succ k ih =>
    intro d n fuel fl hn hlen hd hf
    obtain ⟨n', rfl⟩ : ∃ n', n = n' + 1 := ⟨n - 1, by omega⟩
    obtain ⟨f', rfl⟩ : ∃ f', fuel = f' + 3 := ⟨fuel - 3, by omega⟩
    by_cases hdd : d + 1 > Gen.c_proto_maxDepth
    · simp [chainC, decode, hdd]
    · have hlen' : (nest k inner).length < 2 ^ 64 := Nat.lt_of_le_of_lt (nest_length_mono k inner) hlen
      rw [zero_chain_succ]
      simp only [chainC, nest]
      rw [decode_struct_succ _ _ _ _ _ _ hdd, chain_loop _ _ _ _ _ _ hlen']
      -- the pointer decoder allocates the zero value of the next level and descends
      have hp : ∀ fl', decode (f' + 1) (d + 1) (.ptr (chainC n')) (nest k inner) (Vals.get (.cons .nil (.cons (.int 0) .nil)) 0) fl'
          = .err "nestingTooDeep" := by
        intro fl'
        simp only [decode, Vals.get]
        rw [ih (d + 1) n' f' fl' (by omega) hlen' (by omega) (by omega)]
        rfl
      rw [hp]
      rfl

/-- **max_depth_accepted.** `k` wrappers around an empty message are accepted as long as `d + k + 1 ≤ maxDepth`; all the
bytes are consumed. -/
theorem chain_accepted : ∀ (k d n fuel : Nat) (fl : Flags), k ≤ n →
    (nest k []).length < 2 ^ 64 → d + k + 1 ≤ Gen.c_proto_maxDepth → 3 * k + 2 ≤ fuel →
    ∃ v, decode fuel d (chainC n) (nest k []) (zeroOfCodec (chainC n)) fl = .ok (v, (nest k []).length) := by
  intro k
  induction k with
  | zero =>
    intro d n fuel fl _ _ hd hf
    obtain ⟨fs, hfs⟩ := chainC_struct n
    obtain ⟨vs, hvs⟩ := zero_chain_struct n
    obtain ⟨f', rfl⟩ : ∃ f', fuel = f' + 2 := ⟨fuel - 2, by omega⟩
    rw [hvs]
    rw [hfs] at hvs ⊢
    exact ⟨_, decode_struct_empty f' d fs vs fl (by omega)⟩
  | succ k ih =>
    intro d n fuel fl hn hlen hd hf
    obtain ⟨n', rfl⟩ : ∃ n', n = n' + 1 := ⟨n - 1, by omega⟩
    obtain ⟨f', rfl⟩ : ∃ f', fuel = f' + 3 := ⟨fuel - 3, by omega⟩
    have hdd : ¬ (d + 1 > Gen.c_proto_maxDepth) := by omega
    have hlen' : (nest k []).length < 2 ^ 64 := Nat.lt_of_le_of_lt (nest_length_mono k []) hlen
    obtain ⟨v, hv⟩ := ih (d + 1) n' f' { fl with toplevel := false, zigzag := fl.zigzag || false } (by omega) hlen' (by omega) (by omega)
    rw [zero_chain_succ]
    simp only [chainC, nest]
    rw [decode_struct_succ _ _ _ _ _ _ hdd, chain_loop _ _ _ _ _ _ hlen']
    have hp : decode (f' + 1) (d + 1) (.ptr (chainC n')) (nest k []) (Vals.get (.cons .nil (.cons (.int 0) .nil)) 0)
        { fl with toplevel := false, zigzag := fl.zigzag || false } = .ok (.ptr v, (nest k []).length) := by
      simp only [decode, Vals.get]
      rw [hv]
      rfl
    have hp' : decode (f' + 1) (d + 1) (.ptr (chainC n')) (nest k []) (Vals.get (.cons .nil (.cons (.int 0) .nil)) 0)
        { ({ fl with toplevel := false } : Flags) with zigzag := ({ fl with toplevel := false } : Flags).zigzag || false }
        = .ok (.ptr v, (nest k []).length) := hp
    rw [hp']
    refine ⟨.struct (Vals.set (.cons .nil (.cons (.int 0) .nil)) 0 (.ptr v)), ?_⟩
    simp only [Res.bind, List.drop_length]
    cases f' with
    | zero => omega
    | succ f'' =>
      simp only [decodeStruct, List.isEmpty_nil, if_true, Res.bind]
      simp only [wrap, List.length_cons, List.length_append, Lemmas.Proto.encodeVarint_length]
      congr 2
      omega

/-- at the entry point: `maxDepth` wrappers (`maxDepth + 1` messages) are one too many … -/
theorem deep_rejected (inner : Bytes) (n fuel : Nat) (fl : Flags) (hn : Gen.c_proto_maxDepth ≤ n)
    (hlen : (nest Gen.c_proto_maxDepth inner).length < 2 ^ 64) (hf : 3 * Gen.c_proto_maxDepth + 1 ≤ fuel) :
    decode fuel 0 (chainC n) (nest Gen.c_proto_maxDepth inner) (zeroOfCodec (chainC n)) fl = .err "nestingTooDeep" :=
  chain_deep_rejected inner _ 0 n fuel fl hn hlen (by omega) hf

/-- … and `maxDepth - 1` wrappers (`maxDepth` messages) are accepted -/
theorem max_depth_accepted (n fuel : Nat) (fl : Flags) (hn : Gen.c_proto_maxDepth - 1 ≤ n)
    (hlen : (nest (Gen.c_proto_maxDepth - 1) []).length < 2 ^ 64) (hf : 3 * Gen.c_proto_maxDepth ≤ fuel) :
    ∃ v, decode fuel 0 (chainC n) (nest (Gen.c_proto_maxDepth - 1) []) (zeroOfCodec (chainC n)) fl
      = .ok (v, (nest (Gen.c_proto_maxDepth - 1) []).length) :=
  chain_accepted _ 0 n fuel fl hn hlen (by simp [Gen.c_proto_maxDepth]) (by simp [Gen.c_proto_maxDepth] at hf ⊢; omega)

/-- the length hypotheses hold: a nest of `k` wrappers around `inner` is at most `11 k + |inner|` bytes long -/
theorem nest_length_le (k : Nat) (inner : Bytes) : (nest k inner).length ≤ 11 * k + inner.length := by
  induction k with
  | zero => simp [nest]
  | succ k ih =>
    have := ProtoVarint.sizeOfVarint_le (BitVec.ofNat 64 (nest k inner).length)
    simp only [nest, wrap, List.length_cons, List.length_append, Lemmas.Proto.encodeVarint_length]
    omega

#print axioms deep_rejected
#print axioms max_depth_accepted

end Enc.Lemmas.ProtoDepth
