import Enc.Lemmas.ThriftSpecStruct
import Enc.Lemmas.ThriftSkip
/-!
C13, compact protocol, level 3a: the universe on which model and specification are compared, and the
type-directed helper functions that both sides define separately.

  * `tyOK`      no f32/f64 (compact doubles are big-endian as coded), no unsigned kinds / arrays / interfaces (rejected by
                `encodeFuncOf`, not modelled), enum-tagged fields of Go kind int32 only, field ids — as `tagOf` parses
                them — positive and pairwise distinct in every struct
  * `valOK`     well-typed values, integers within their kind; nil pointers / slices / maps / byte slices allowed
                everywhere (also inside collections: both sides write the zero value there)
  * `typeOf_eq`, `zeroOf_eq`, `pairsOf_eq`, `derefVal_eq`, `valOK_zeroOf`, `isZeroAt_eq` (same elision decision)
-/
namespace Enc.Lemmas.ThriftSpec
open Enc

export Enc.Lemmas.ThriftSkip (isU8)

/-- ids of the tagged fields, declaration order, as `Spec.Thrift.tagOf` parses them -/
def fieldIds : Fields → List Int
  | .nil => []
  | .cons _ tag _ _ r =>
    match Spec.Thrift.tagOf tag with
    | some (id, _, _) => id :: fieldIds r
    | none => fieldIds r

/-- an enum-tagged field must have Go kind int32 exactly (otherwise: known class `thriftEnumFieldType`) -/
def enumOK (tag : String) (t : Ty) : Bool :=
  match Spec.Thrift.tagOf tag with
  | some (_, _, true) => (match t with | .int .i32 => true | _ => false)
  | _ => true

mutual
def tyOK : Ty → Bool
  | .bool | .str | .bytes => true
  | .int k => k.signed
  | .f32 | .f64 | .any | .arr _ _ => false
  | .slice t => isU8 t || tyOK t
  | .map k v => tyOK k && tyOK v
  | .struct fs =>
    fieldsOK fs && (fieldIds fs).all (fun i => decide (0 < i)) && decide (fieldIds fs).Nodup
  | .ptr t => tyOK t
  | .named _ t => tyOK t
def fieldsOK : Fields → Bool
  | .nil => true
  | .cons _ tag _ t r => tyOK t && enumOK tag t && fieldsOK r
end

mutual
def valOK : Ty → Val → Bool
  | .bool, v => (match v with | .bool _ => true | _ => false)
  | .int k, v => (match v with | .int i => k.inRange i | _ => false)
  | .str, v => (match v with | .str _ => true | _ => false)
  | .bytes, v => (match v with | .str _ => true | .nil => true | _ => false)
  | .slice t, v =>
    (match v with
     | .str _ => isU8 t
     | .nil => true
     | .list vs => !isU8 t && vs.toList.all (valOK t)
     | _ => false)
  | .map k v, x =>
    (match x with
     | .map kvs => (Model.Thrift.pairsOf kvs.toList).all fun kv => valOK k kv.1 && valOK v kv.2
     | .nil => true
     | _ => false)
  | .struct fs, v => (match v with | .struct vs => valsOK fs vs | _ => false)
  | .ptr t, v => (match v with | .ptr x => valOK t x | .nil => true | _ => false)
  | .named _ t, v => valOK t v
  | .f32, _ | .f64, _ | .any, _ | .arr _ _, _ => false
def valsOK : Fields → Vals → Bool
  | .nil, .nil => true
  | .cons _ _ _ t fr, .cons v vr => valOK t v && valsOK fr vr
  | _, _ => false
end

/-- the compared universe -/
def ok (ty : Ty) (v : Val) : Bool := tyOK ty && valOK ty v

/-! ## the helper functions defined on both sides -/

theorem pairsOf_eq : ∀ (l : List Val), Model.Thrift.pairsOf l = Spec.Thrift.pairsOf l
  | [] => rfl
  | [_] => rfl
  | k :: v :: rest => by
    simp only [Model.Thrift.pairsOf, Spec.Thrift.pairsOf, pairsOf_eq rest]

theorem derefVal_eq : ∀ (v : Val), Model.Thrift.derefVal v = Spec.Thrift.derefV v
  | .ptr v => by simp only [Model.Thrift.derefVal, Spec.Thrift.derefV, derefVal_eq v]
  | .bool _ | .int _ | .float _ | .str _ | .nil | .list _ | .map _ | .struct _ => rfl

theorem isEmptyStruct_eq (t : Ty) : Model.Thrift.isEmptyStruct t = Spec.Thrift.isUnit t := by
  cases t <;> rfl

mutual
theorem zeroOf_eq : (t : Ty) → Model.Thrift.zeroOf t = Spec.Thrift.zeroOf t
  | .bool | .int _ | .f32 | .f64 | .str | .bytes | .any | .ptr _ | .slice _ | .map _ _ => rfl
  | .arr n t => by simp only [Model.Thrift.zeroOf, Spec.Thrift.zeroOf, zeroOf_eq t]
  | .named _ t => by simp only [Model.Thrift.zeroOf, Spec.Thrift.zeroOf, zeroOf_eq t]
  | .struct fs => by simp only [Model.Thrift.zeroOf, Spec.Thrift.zeroOf, zeroFields_eq fs]
theorem zeroFields_eq : (fs : Fields) → Model.Thrift.zeroFields fs = Spec.Thrift.zeroFields fs
  | .nil => rfl
  | .cons _ _ _ t r => by
    simp only [Model.Thrift.zeroFields, Spec.Thrift.zeroFields, zeroOf_eq t, zeroFields_eq r]
end

/-! ## thrift type -/

theorem typeOf_slice (t : Ty) :
    Model.Thrift.typeOf (.slice t) = if isU8 t then .binary else .list := by
  cases t <;> try rfl
  rename_i k; cases k <;> rfl

theorem ttOf_slice (t : Ty) :
    Spec.Thrift.ttOf (.slice t) = if isU8 t then .binary else .list := by
  cases t <;> try rfl
  rename_i k; cases k <;> rfl

/-- `thrift.TypeOf` yields the specification's type (arrays and interfaces have none) -/
theorem typeOf_eq : (t : Ty) → tyOK t = true → Model.Thrift.typeOf t = ofSpec (Spec.Thrift.ttOf t)
  | .bool, _ | .str, _ | .bytes, _ => rfl
  | .int k, _ => by cases k <;> rfl
  | .f32, h | .f64, h | .any, h | .arr _ _, h => by simp [tyOK] at h
  | .slice t, _ => by rw [typeOf_slice, ttOf_slice]; split <;> rfl
  | .map k v, _ => by
    simp only [Model.Thrift.typeOf, Spec.Thrift.ttOf, isEmptyStruct_eq]; split <;> rfl
  | .struct _, _ => rfl
  | .ptr t, h => by
    simp only [tyOK] at h
    simp only [Model.Thrift.typeOf, Spec.Thrift.ttOf, typeOf_eq t h]
  | .named _ t, h => by
    simp only [tyOK] at h
    simp only [Model.Thrift.typeOf, Spec.Thrift.ttOf, typeOf_eq t h]

/-! ## the zero value is in the universe -/

theorem inRange_zero (k : IntKind) : k.inRange 0 = true := by cases k <;> decide

mutual
theorem valOK_zeroOf : (t : Ty) → tyOK t = true → valOK t (Model.Thrift.zeroOf t) = true
  | .bool, _ | .str, _ | .bytes, _ => rfl
  | .int k, _ => by simp only [Model.Thrift.zeroOf, valOK, inRange_zero]
  | .f32, h | .f64, h | .any, h | .arr _ _, h => by simp [tyOK] at h
  | .slice t, _ => by simp only [Model.Thrift.zeroOf, valOK]
  | .map _ _, _ => rfl
  | .ptr _, _ => rfl
  | .named _ t, h => by
    simp only [tyOK] at h
    simp only [Model.Thrift.zeroOf, valOK, valOK_zeroOf t h]
  | .struct fs, h => by
    simp only [tyOK, Bool.and_eq_true] at h
    simp only [Model.Thrift.zeroOf, valOK, valsOK_zeroFields fs h.1.1]
theorem valsOK_zeroFields : (fs : Fields) → fieldsOK fs = true → valsOK fs (Model.Thrift.zeroFields fs) = true
  | .nil, _ => rfl
  | .cons _ _ _ t r, h => by
    simp only [fieldsOK, Bool.and_eq_true] at h
    simp only [Model.Thrift.zeroFields, valsOK, valOK_zeroOf t h.1.1, valsOK_zeroFields r h.2, Bool.and_self]
end

/-! ## same elision decision -/

theorem isZeroAt_slice (t : Ty) (v : Val) :
    Model.Thrift.isZeroAt (.slice t) v =
      if isU8 t then (match v with | .nil => true | _ => false) else Model.Thrift.isZero v := by
  cases t <;> try rfl
  rename_i k; cases k <;> rfl

theorem isDefaultAt_slice (t : Ty) (v : Val) :
    Spec.Thrift.isDefaultAt (.slice t) v =
      if isU8 t then (match v with | .nil => true | _ => false) else Spec.Thrift.isDefault v := by
  cases t <;> try rfl
  rename_i k; cases k <;> rfl

mutual
/-- `reflect.Value.IsZero` (as modelled) and the specification's "default value" agree on the universe
(they differ on -0.0 only, known class `thriftNegZeroDropped`) -/
theorem isZeroAt_eq : (t : Ty) → tyOK t = true → (v : Val) → valOK t v = true →
    Model.Thrift.isZeroAt t v = Spec.Thrift.isDefaultAt t v
  | .bool, _, v, hv => by cases v <;> simp [valOK] at hv <;> rfl
  | .int _, _, v, hv => by cases v <;> simp [valOK] at hv <;> rfl
  | .str, _, v, hv => by cases v <;> simp [valOK] at hv <;> rfl
  | .bytes, _, _, _ => rfl
  | .f32, h, _, _ | .f64, h, _, _ | .any, h, _, _ | .arr _ _, h, _, _ => by simp [tyOK] at h
  | .slice t, _, v, hv => by
    rw [isZeroAt_slice, isDefaultAt_slice]
    split
    · rfl
    · rename_i hu
      cases v <;> simp [valOK, hu] at hv <;> rfl
  | .map _ _, _, v, hv => by cases v <;> simp [valOK] at hv <;> rfl
  | .ptr _, _, v, hv => by cases v <;> simp [valOK] at hv <;> rfl
  | .named _ t, h, v, hv => by
    simp only [tyOK] at h
    simp only [valOK] at hv
    simp only [Model.Thrift.isZeroAt, Spec.Thrift.isDefaultAt, isZeroAt_eq t h v hv]
  | .struct fs, h, v, hv => by
    simp only [tyOK, Bool.and_eq_true] at h
    cases v <;> simp [valOK] at hv
    rename_i vs
    simp only [Model.Thrift.isZeroAt, Spec.Thrift.isDefaultAt, isZeroFields_eq fs h.1.1 vs hv]
theorem isZeroFields_eq : (fs : Fields) → fieldsOK fs = true → (vs : Vals) → valsOK fs vs = true →
    Model.Thrift.isZeroFields fs vs = Spec.Thrift.defaultFields fs vs
  | .nil, _, _, _ => by simp [Model.Thrift.isZeroFields, Spec.Thrift.defaultFields]
  | .cons _ _ _ t r, h, .nil, hv => by simp [valsOK] at hv
  | .cons _ _ _ t r, h, .cons v vr, hv => by
    simp only [fieldsOK, Bool.and_eq_true] at h
    simp only [valsOK, Bool.and_eq_true] at hv
    simp only [Model.Thrift.isZeroFields, Spec.Thrift.defaultFields, isZeroAt_eq t h.1.1 v hv.1,
      isZeroFields_eq r h.2 vr hv.2]
end

end Enc.Lemmas.ThriftSpec
