import Enc.Lemmas.JsonCodecChoiceDecShape
/-!
# `chooseDec_eq_std` for every type: struct types, embedding, the `string` option, recursion through `seen` (decode side)

The architecture of Lemmas/JsonCodecChoiceFull.lean, for `codecDecF` / `structDecF` / `listDecF` against `stdDecD`.

The invariant. Fix the FINAL `seen` map `T` of a top-level construction and a depth `d`.
* `FG d T fs k`: the field list `fs` stored for the struct key `k`, as a tree to depth `d` (back references looked up in
  `T`), is the field list of encoding/json's rule for the type of `k` (`stdFieldsD`; it does not depend on `canAddr`).
* `SeenGood d s T`: every finished entry of `s` is `FG d`.
* during the construction, for a call with input `seen = s` and output `s'`: the finished entries of `s'` are in `T`
  (`Ext`), the struct types under construction in `s` are finished in `T` (`Fin`); the roots (`RootOK`, `RootIn`) and the
  chain of embedded structs marked with the current root (`Chain`; with `NoEmbeddedCycle` this is what excludes an
  embedded struct under construction for the SAME root; for another root its fields are listed a second time).
* `Safe env t`: the hypotheses — `NoEmbeddedCycle env t` and `DevFree env t` (Spec/Json/DecDeviation.lean) — inherited by
  everything reachable from `t`.
What differs from the encode side: the specification's tree depends on HOW a value is reached (`viaPtr`), the model's
does not; `ACodec f d` says that a call of `codecDecF f` whose input satisfies the invariant returns a decoder whose tree to
depth `d` is `stdDecD d env t v` for EVERY `v` with `posOK env t v` (all `v` unless `t` is an unnamed struct with a
promoted unmarshaler), and keeps `SeenGood d`; `DevFree` provides `posOK … false` at slice / array elements, map values
and regular fields, pointer targets have `v = true`. Induction on the fuel `f`, for all `d`; the tree at depth `d + 1`
uses the calls' trees at depth `d` (`codec_exp`), `SeenGood d` is threaded at the same depth (`codec_thread`). Back
references to named slice/map/pointer/array types (`recur`) mean a fresh top-level construction: `MainLe` (outer induction
on the depth).
-/
set_option linter.unusedSimpArgs false
set_option linter.unusedVariables false
namespace Enc.Lemmas.JsonCodecChoiceDecFull
open Enc.Model.Json.CodecChoice Enc.Spec.Json.StdCodecChoiceDec Enc.Spec.Json.EmbedCycle Enc.Spec.Json.DecDeviation
open Enc.Lemmas.JsonCodecChoiceDecSeen Enc.Lemmas.JsonCodecChoiceDecStd Enc.Lemmas.JsonCodecChoiceDecEvo Enc.Lemmas.JsonCodecChoiceDecEmb
open Enc.Lemmas.JsonCodecChoiceDecShape Enc.Lemmas.JsonCodecChoiceDecTerm
open Enc.Lemmas.JsonCodecChoiceEmb (reach_trans reach_child noEmbedCycle_of_reach embeds_reach fieldTypes_children)

def IsStructKey (env : Env) (k : Key) : Prop := isStructKind (under env k.1) = true

def FG (env : Env) (d : Nat) (T : DSeen) (fs : DL) (k : Key) : Prop :=
  (normDL fs).mapChoice (underEmbedD (expandDN d env T)) = stdFieldsD d env k.1

def SeenGood (env : Env) (d : Nat) (s T : DSeen) : Prop :=
  ∀ k fs, s.find k = some (.done fs) → IsStructKey env k → FG env d T fs k

def Ext (s T : DSeen) : Prop := ∀ k fs, s.find k = some (.done fs) → T.find k = some (.done fs)

def Fin (env : Env) (s T : DSeen) : Prop :=
  ∀ k r, s.find k = some (.building r) → IsStructKey env k → ∃ fs, T.find k = some (.done fs)

/-- the root of a struct type under construction is a struct type under construction -/
def RootOK (env : Env) (s : DSeen) : Prop :=
  ∀ k r, s.find k = some (.building r) → IsStructKey env k → IsStructKey env r ∧ ∃ r', s.find r = some (.building r')

def RootIn (env : Env) (s : DSeen) (R : Key) : Prop := IsStructKey env R ∧ ∃ r', s.find R = some (.building r')

/-- while fields are listed for the root `R`, in the struct type `S`: the struct types under construction that are
marked with `R` are the chain of embedded structs from `R` to `S` -/
def Chain (env : Env) (s : DSeen) (R : Key) (S : TD) : Prop :=
  ∀ k, s.find k = some (.building R) → IsStructKey env k → EmbReach env k.1 S

/-- the hypotheses of the theorem: no cycle of embedded structs, none of the recorded decode-side differences inside -/
structure Safe (env : Env) (t : TD) : Prop where
  cyc : NoEmbeddedCycle env t
  dev : DevFree env t

theorem safe_of_reach {env : Env} {t S : TD} (h : Safe env t) (hr : Reach env t S) : Safe env S :=
  ⟨noEmbedCycle_of_reach h.1 hr, fun S' hS' => h.2 S' (reach_trans hr hS')⟩

def MainFor (env : Env) (d : Nat) (t : TD) (a : Bool) : Prop :=
  ∀ v, posOK env t v = true → expandDN d env (chooseDec env t a).2 (normD (chooseDec env t a).1) = stdDecD d env t v

def MainLe (env : Env) (d : Nat) : Prop := ∀ d', d' ≤ d → ∀ t a, Safe env t → MainFor env d' t a

structure Ctx (env : Env) (T : DSeen) (d : Nat) : Prop where
  less : ∀ d', d' < d → SeenGood env d' T T
  main : MainLe env d

theorem Ctx.mono {env : Env} {T : DSeen} {d d' : Nat} (h : Ctx env T d) (hle : d' ≤ d) : Ctx env T d' :=
  ⟨fun d'' hd => h.less d'' (by omega), fun d'' hd => h.main d'' (by omega)⟩

def ACodec (env : Env) (f d : Nat) : Prop :=
  ∀ t a s c s' T, codecDecF f env t a s = some (c, s') → Ctx env T d → Ext s' T → Fin env s T → RootOK env s →
    Safe env t → SeenGood env d s T →
    (∀ v, posOK env t v = true → expandDN d env T (normD c) = stdDecD d env t v) ∧ SeenGood env d s' T

def AStruct (env : Env) (f d : Nat) : Prop :=
  ∀ t a root s e s' T, structDecF f env t a root s = some (e, s') → isStructKind (under env t) = true → Ctx env T d →
    Ext s' T → Fin env s T → RootOK env s → (∀ R, root = some R → RootIn env s R ∧ Chain env s R t) →
    Safe env t → SeenGood env d s T →
    SeenGood env d s' T ∧ ∀ fs, e = .done fs → FG env d T fs (t, a)

def AList (env : Env) (f d : Nat) : Prop :=
  ∀ t a R s fs s' T, listDecF f env t a R s = some (fs, s') → isStructKind (under env t) = true → Ctx env T d →
    Ext s' T → Fin env s T → RootOK env s → RootIn env s R → Chain env s R t →
    Safe env t → SeenGood env d s T →
    SeenGood env d s' T ∧ FG env d T fs (t, a)

theorem ext_of_evo {s s' T : DSeen} (h : Ext s' T) (e : Evo s s') : Ext s T := fun k fs hk => h k fs (e.1 k fs hk)
theorem fin_of_evo {env : Env} {s s' T : DSeen} (h : Fin env s T) (e : Evo s s') : Fin env s' T :=
  fun k r hk hs => h k r ((e.2 k r).mp hk) hs
theorem rootOK_of_evo {env : Env} {s s' : DSeen} (h : RootOK env s) (e : Evo s s') : RootOK env s' := by
  intro k r hk hs
  obtain ⟨h1, r', h2⟩ := h k r ((e.2 k r).mp hk) hs
  exact ⟨h1, r', (e.2 r r').mpr h2⟩
theorem rootIn_of_evo {env : Env} {s s' : DSeen} {R : Key} (h : RootIn env s R) (e : Evo s s') : RootIn env s' R := by
  obtain ⟨h1, r', h2⟩ := h
  exact ⟨h1, r', (e.2 R r').mpr h2⟩
theorem chain_of_evo {env : Env} {s s' : DSeen} {R : Key} {S : TD} (h : Chain env s R S) (e : Evo s s') :
    Chain env s' R S := fun k hk hs => h k ((e.2 k R).mp hk) hs
theorem embReach_step {env : Env} {a b c : TD} (h : EmbReach env a b) (hc : c ∈ embeds env b) : EmbReach env a c :=
  .step h hc

/-! ## the fields of a struct type -/

theorem building_set_building (s : DSeen) (key x r R : Key) (hk : s.find key = some (.building r))
    (hx : ∃ r', s.find x = some (.building r')) : ∃ r', (s.set key (.building R)).find x = some (.building r') := by
  by_cases hxe : x = key
  · subst hxe; exact ⟨R, find_set_self _ _ _⟩
  · rw [find_set_ne _ _ _ _ hxe]; exact hx

/-- the embedded branch of `appendStructFields`: the promoted fields are the field list of the embedded type on its
own — taken from the finished struct type, or listed a second time when it is under construction for another root;
under construction for the SAME root would be a cycle of embedded structs -/
theorem embedded_sem (env : Env) (f d : Nat) (hs : AStruct env f d) (hl : AList env f d) (S typ : TD) (b : Bool)
    (R : Key) (T : DSeen) (hctx : Ctx env T d) (hsafe : Safe env S) (hmem : typ ∈ embeds env S)
    (hsk : isStructKind (under env typ) = true) (s s1 : DSeen) (sub : DL)
    (h : embeddedDecF (structDecF f env) (listDecF f env) typ b R s = some (sub, s1))
    (hext : Ext s1 T) (hfin : Fin env s T) (hroot : RootOK env s) (hrin : RootIn env s R) (hchain : Chain env s R S)
    (hgood : SeenGood env d s T) :
    SeenGood env d s1 T ∧ FG env d T sub (typ, b) := by
  have hreach := embeds_reach hmem
  have hsafe' := safe_of_reach hsafe hreach
  have hchain' : Chain env s R typ := fun k hk hks => .step (hchain k hk hks) hmem
  unfold embeddedDecF at h
  cases h1 : structDecF f env typ b (some R) s with
  | none => simp [h1] at h
  | some r1 =>
    obtain ⟨e, s0⟩ := r1
    simp only [h1] at h
    cases e with
    | done fs =>
      simp at h
      obtain ⟨rfl, rfl⟩ := h
      obtain ⟨g1, hfg⟩ := hs typ b (some R) s _ s0 T h1 hsk hctx hext hfin hroot
        (fun R' hR' => by cases hR'; exact ⟨hrin, hchain'⟩) hsafe' hgood
      exact ⟨g1, hfg fs rfl⟩
    | building r =>
      obtain ⟨rfl, hfind⟩ := struct_building env f typ b (some R) s s0 r h1
      simp only at h
      by_cases hr : (r == R) = true
      · -- excluded: a cycle of embedded structs
        exfalso
        have hrR : r = R := by simpa using hr
        subst hrR
        exact hsafe.1 S typ (.refl S) hmem (hchain (typ, b) hfind hsk)
      · have hr' : (r == R) = false := by simpa using hr
        simp only [hr', Bool.false_eq_true, if_false] at h
        cases h2 : listDecF f env typ b R (s0.set (typ, b) (.building R)) with
        | none => simp [h2] at h
        | some r2 =>
          obtain ⟨fs, s2⟩ := r2
          simp [h2] at h
          obtain ⟨rfl, rfl⟩ := h
          have evo2 := (JsonCodecChoiceDecEvo.main env f).2.2 _ _ _ _ _ _ h2
          have hb2 : s2.find (typ, b) = some (.building R) := (evo2.2 _ _).mpr (find_set_self _ _ _)
          have hext2 : Ext s2 T := by
            intro k fs' hk
            have hne : k ≠ (typ, b) := by intro e; subst e; rw [hb2] at hk; cases hk
            apply hext; rw [find_set_ne _ _ _ _ hne]; exact hk
          have hfin' : Fin env (s0.set (typ, b) (.building R)) T := by
            intro k r' hk hks
            by_cases hke : k = (typ, b)
            · subst hke; exact hfin _ r hfind hks
            · rw [find_set_ne _ _ _ _ hke] at hk; exact hfin k r' hk hks
          have hroot' : RootOK env (s0.set (typ, b) (.building R)) := by
            intro k r' hk hks
            by_cases hke : k = (typ, b)
            · subst hke
              rw [find_set_self] at hk
              cases hk
              exact ⟨hrin.1, building_set_building s0 _ _ r _ hfind hrin.2⟩
            · rw [find_set_ne _ _ _ _ hke] at hk
              obtain ⟨h3, h4⟩ := hroot k r' hk hks
              exact ⟨h3, building_set_building s0 _ _ r _ hfind h4⟩
          have hrin' : RootIn env (s0.set (typ, b) (.building R)) R :=
            ⟨hrin.1, building_set_building s0 _ _ r _ hfind hrin.2⟩
          have hchain2 : Chain env (s0.set (typ, b) (.building R)) R typ := by
            intro k hk hks
            by_cases hke : k = (typ, b)
            · subst hke; exact .refl _
            · rw [find_set_ne _ _ _ _ hke] at hk; exact hchain' k hk hks
          have hgood' : SeenGood env d (s0.set (typ, b) (.building R)) T := by
            intro k fs' hk hks
            by_cases hke : k = (typ, b)
            · subst hke; rw [find_set_self] at hk; cases hk
            · rw [find_set_ne _ _ _ _ hke] at hk; exact hgood k fs' hk hks
          obtain ⟨g, hfg⟩ := hl typ b R _ fs s2 T h2 hsk hctx hext2 hfin' hroot' hrin' hchain2 hsafe' hgood'
          refine ⟨?_, hfg⟩
          intro k fs' hk hks
          by_cases hke : k = (typ, b)
          · subst hke; rw [find_set_self] at hk; cases hk
          · rw [find_set_ne _ _ _ _ hke] at hk; exact g k fs' hk hks

theorem fieldsOK_cons (env : Env) (n : String) (emb str : Bool) (ft : TD) (r : FL)
    (h : fieldsOK env (.cons n emb str ft r) = true) :
    ((emb && isStructKind (under env (peel ft))) = false → posOK env ft false = true) ∧ fieldsOK env r = true := by
  simp only [fieldsOK, Bool.and_eq_true, Bool.or_eq_true] at h
  refine ⟨fun h0 => ?_, h.2⟩
  rcases h.1 with h1 | h1
  · simp [h1.1, h1.2] at h0
  · simpa [posOK] using h1

theorem fields_sem (env : Env) (f d : Nat) (hc : ACodec env f d) (hs : AStruct env f d) (hl : AList env f d)
    (S : TD) (a : Bool) (R : Key) (T : DSeen) (hctx : Ctx env T d) (hsafe : Safe env S) :
    ∀ (fl : FL) (s : DSeen) (cl : DL) (s' : DSeen),
      fieldsDecF (codecDecF f env) (structDecF f env) (listDecF f env) env a R fl s = some (cl, s') →
      (∀ ft, ft ∈ fieldTypes fl → ft ∈ children env S) → (∀ typ, typ ∈ embedsFL env fl → typ ∈ embeds env S) →
      fieldsOK env fl = true →
      Ext s' T → Fin env s T → RootOK env s → RootIn env s R → Chain env s R S → SeenGood env d s T →
      SeenGood env d s' T ∧
        (normDL cl).mapChoice (underEmbedD (expandDN d env T)) =
          stdFieldsDecWith (fun ft => stdDecD d env ft false) (stdQuotedInner env)
            (stdEmbeddedDec (fun ft => stdDecD d env ft false) (stdQuotedInner env) env d (embedFuelD env S) [S]) env d fl
  | .nil, s, cl, s', h, _, _, _, _, _, _, _, _, hgood => by
    simp [fieldsDecF] at h
    rw [← h.1, ← h.2]
    exact ⟨hgood, by simp [normDL, DL.mapChoice, stdFieldsDecWith]⟩
  | .cons name emb str ft rest, s, cl, s', h, hft, hemb, hfok, hext, hfin, hroot, hrin, hchain, hgood => by
    obtain ⟨hpos, hfokr⟩ := fieldsOK_cons env name emb str ft rest hfok
    have hftr : ∀ ft', ft' ∈ fieldTypes rest → ft' ∈ children env S :=
      fun ft' h' => hft ft' (by simp [fieldTypes, h'])
    have hembr : ∀ typ, typ ∈ embedsFL env rest → typ ∈ embeds env S := by
      intro typ h'
      apply hemb
      simp only [embedsFL]
      split
      · exact List.mem_cons_of_mem _ h'
      · exact h'
    have hEC := (JsonCodecChoiceDecEvo.main env f).1
    have hES := (JsonCodecChoiceDecEvo.main env f).2.1
    have hEL := (JsonCodecChoiceDecEvo.main env f).2.2
    unfold fieldsDecF at h
    simp only at h
    by_cases h0 : (emb && isStructKind (under env (peel ft))) = true
    · -- an embedded struct: its fields are promoted
      simp only [h0, if_true] at h
      cases h1 : embeddedDecF (structDecF f env) (listDecF f env) (peel ft) (a || isPtrKind ft) R s with
      | none => simp [h1] at h
      | some r1 =>
        obtain ⟨sub, s1⟩ := r1
        simp only [h1] at h
        cases h2 : fieldsDecF (codecDecF f env) (structDecF f env) (listDecF f env) env a R rest s1 with
        | none => simp [h2] at h
        | some r2 =>
          obtain ⟨r, s2⟩ := r2
          simp [h2] at h
          obtain ⟨hcl, hs'⟩ := h
          subst hs'
          have evo1 := embedded_evo _ _ hES hEL _ _ R s s1 sub h1
          have evo2 := fields_evo _ _ _ hEC hES hEL env a R rest s1 r s2 h2
          have hmem : peel ft ∈ embeds env S := hemb _ (by simp [embedsFL, h0])
          have hsk : isStructKind (under env (peel ft)) = true := by
            simp only [Bool.and_eq_true] at h0; exact h0.2
          obtain ⟨g1, hfg'⟩ := embedded_sem env f d hs hl S (peel ft) (a || isPtrKind ft) R T hctx hsafe hmem hsk s s1 sub h1
            (ext_of_evo hext evo2) hfin hroot hrin hchain hgood
          obtain ⟨g2, heq⟩ := fields_sem env f d hc hs hl S a R T hctx hsafe rest s1 r s2 h2 hftr hembr hfokr hext
            (fin_of_evo hfin evo1) (rootOK_of_evo hroot evo1) (rootIn_of_evo hrin evo1) (chain_of_evo hchain evo1) g1
          refine ⟨g2, ?_⟩
          unfold FG at hfg'
          simp only at hfg'
          rw [← stdEmbeddedDec_eq_fields d env S (peel ft) hsafe.1 hmem] at hfg'
          simp only [stdFieldsDecWith_cons, h0, if_true]
          rw [← hcl, ← heq, ← hfg']
          by_cases hp : isPtrKind ft = true
          · simp only [hp, if_true, normDL_append, mapChoice_append, normDL_embed, mapChoice_underEmbed_embed]
          · simp only [hp, if_false, normDL_append, mapChoice_append, Bool.false_eq_true]
    · -- an ordinary field
      have h0' : (emb && isStructKind (under env (peel ft))) = false := by simpa using h0
      simp only [h0', Bool.false_eq_true, if_false] at h
      cases h1 : codecDecF f env ft a s with
      | none => simp [h1] at h
      | some r1 =>
        obtain ⟨c, s1⟩ := r1
        simp only [h1] at h
        cases h2 : (if str = true then stringifyDecF (codecDecF f env) env a ft c s1 else some (c, s1)) with
        | none => simp [h2] at h
        | some r2 =>
          obtain ⟨c2, s2⟩ := r2
          simp only [h2] at h
          cases h3 : fieldsDecF (codecDecF f env) (structDecF f env) (listDecF f env) env a R rest s2 with
          | none => simp [h3] at h
          | some r3 =>
            obtain ⟨r, s3⟩ := r3
            simp [h3] at h
            obtain ⟨hcl, hs'⟩ := h
            subst hs'
            have evo1 := codec_evo env f ft a s s1 c h1
            have evo2 : Evo s1 s2 := by
              split at h2
              · exact stringify_evo _ hEC env a ft c c2 s1 s2 h2
              · simp at h2; rw [← h2.2]; exact Evo.refl s1
            have evo3 := fields_evo _ _ _ hEC hES hEL env a R rest s2 r s3 h3
            have hchild : ft ∈ children env S := hft ft (by simp [fieldTypes])
            have hreach := reach_child hchild
            have hext2 := ext_of_evo hext evo3
            have hext1 := ext_of_evo hext2 evo2
            obtain ⟨E', g1⟩ := hc ft a s c s1 T h1 hctx hext1 hfin hroot
              (safe_of_reach hsafe hreach) hgood
            have E := E' false (hpos h0')
            have hfin1 := fin_of_evo hfin evo1
            have hroot1 := rootOK_of_evo hroot evo1
            -- the `string` option
            have hstr : SeenGood env d s2 T ∧ underEmbedD (expandDN d env T) (normD c2) =
                (if (str && isScalarKind (under env (peel ft))) = true then qAt d (stdQuotedInner env ft)
                  else stdDecD d env ft false) := by
              by_cases hst : str = true
              · simp only [hst, if_true, Bool.true_and] at h2 ⊢
                constructor
                · rcases stringify_state _ env a ft c c2 s1 s2 h2 with rfl | ⟨p, hp⟩
                  · exact g1
                  · exact (hc ft a s1 p s2 T hp hctx hext2 hfin1 hroot1
                      (safe_of_reach hsafe hreach) g1).2
                · exact stringify_sem env f a ft c c2 s s1 s2 d T h1 h2 E
              · have hst' : str = false := by simpa using hst
                simp only [hst', Bool.false_eq_true, if_false, Bool.false_and] at h2 ⊢
                simp at h2
                rw [← h2.1, ← h2.2]
                refine ⟨g1, ?_⟩
                rw [underEmbedD_ne _ _ (codec_not_embed env f ft a s s1 c h1), E]
            obtain ⟨g2, hfield⟩ := hstr
            have evo12 := evo1.trans evo2
            obtain ⟨g3, heq⟩ := fields_sem env f d hc hs hl S a R T hctx hsafe rest s2 r s3 h3 hftr hembr hfokr hext
              (fin_of_evo hfin evo12) (rootOK_of_evo hroot evo12) (rootIn_of_evo hrin evo12)
              (chain_of_evo hchain evo12) g2
            refine ⟨g3, ?_⟩
            simp only [stdFieldsDecWith_cons, h0', Bool.false_eq_true, if_false]
            rw [← hcl]
            simp only [normDL, DL.mapChoice]
            rw [hfield, heq]

/-! ## the kind switch -/

theorem seenGood_of_table {env : Env} {d : Nat} {s T : DSeen} (htab : SeenGood env d T T) (hext : Ext s T) :
    SeenGood env d s T := fun k fs hk hsk => htab k fs (hext k fs hk) hsk

/-- threading `SeenGood` through the kind switch -/
theorem kind_thread (env : Env) (f D : Nat) (hc : ACodec env f D) (hs : AStruct env f D) (t : TD) (a : Bool)
    (s s1 : DSeen) (c1 : DChoice) (T : DSeen)
    (h : kindDecF (codecDecF f env) (structDecF f env) env t (under env t) a s = some (c1, s1))
    (hctx : Ctx env T D) (hext : Ext s1 T) (hfin : Fin env s T) (hroot : RootOK env s) (hsafe : Safe env t)
    (hgood : SeenGood env D s T) : SeenGood env D s1 T := by
  generalize hu : under env t = u at h
  cases u with
  | array n e =>
    simp only [kindDecF] at h
    have hch : Reach env t e := reach_child (by simp [children, hu])
    cases h1 : codecDecF f env e a s with
    | none => simp [h1] at h
    | some r =>
      obtain ⟨ce, s2⟩ := r; simp [h1] at h; obtain ⟨_, rfl⟩ := h
      exact (hc e a s ce s2 T h1 hctx hext hfin hroot (safe_of_reach hsafe hch) hgood).2
  | slice e =>
    simp only [kindDecF] at h
    have hch : Reach env t e := reach_child (by simp [children, hu])
    split at h
    · simp at h; rw [← h.2]; exact hgood
    · cases h1 : codecDecF f env e true s with
      | none => simp [h1] at h
      | some r =>
        obtain ⟨ce, s2⟩ := r; simp [h1] at h; obtain ⟨_, rfl⟩ := h
        exact (hc e true s ce s2 T h1 hctx hext hfin hroot (safe_of_reach hsafe hch) hgood).2
  | ptr e =>
    simp only [kindDecF] at h
    have hch : Reach env t e := reach_child (by simp [children, hu])
    cases h1 : codecDecF f env e true s with
    | none => simp [h1] at h
    | some r =>
      obtain ⟨ce, s2⟩ := r; simp [h1] at h; obtain ⟨_, rfl⟩ := h
      exact (hc e true s ce s2 T h1 hctx hext hfin hroot (safe_of_reach hsafe hch) hgood).2
  | map k v =>
    simp only [kindDecF] at h
    have hch : Reach env t v := reach_child (by simp [children, hu])
    split at h
    · simp at h; rw [← h.2]; exact hgood
    · cases h1 : codecDecF f env v false s with
      | none => simp [h1] at h
      | some r =>
        obtain ⟨vc, s2⟩ := r
        simp only [h1] at h
        have hs1 : s1 = s2 := by
          cases h2 : mapKeyDec env k <;> simp [h2] at h <;> rw [← h.2]
        subst hs1
        exact (hc v false s vc s1 T h1 hctx hext hfin hroot (safe_of_reach hsafe hch) hgood).2
  | struct fs =>
    simp only [kindDecF] at h
    cases h1 : structDecF f env t a none s with
    | none => simp [h1] at h
    | some r =>
      obtain ⟨e, s2⟩ := r; simp [h1] at h; obtain ⟨_, rfl⟩ := h
      exact (hs t a none s e s2 T h1 (by simp [hu, isStructKind]) hctx hext hfin hroot (fun R hR => by cases hR) hsafe hgood).1
  | prim k => cases k <;> simp [kindDecF] at h <;> rw [← h.2] <;> exact hgood
  | nil => simp [kindDecF] at h; rw [← h.2]; exact hgood
  | special _ => simp [kindDecF] at h; rw [← h.2]; exact hgood
  | any _ => simp [kindDecF] at h; rw [← h.2]; exact hgood
  | iface _ _ _ => simp [kindDecF] at h; rw [← h.2]; exact hgood
  | ref _ => simp [kindDecF] at h; rw [← h.2]; exact hgood

theorem codec_special (env : Env) (f : Nat) (sp : Special) (a : Bool) (s s' : DSeen) (c : DChoice)
    (h : codecDecF f env (.special sp) a s = some (c, s')) : c = .special sp := by
  cases f with
  | zero => simp [codecDecF] at h
  | succ f => rw [codecDecF] at h; simp [firstSwitchD] at h; exact h.1.symm

theorem localOK_struct (env : Env) (t : TD) (hsk : isStructKind (under env t) = true) (h : localOK env t = true) :
    fieldsOK env (fieldsOf env t) = true := by
  unfold localOK at h
  unfold fieldsOf
  cases hu : under env t <;> simp [hu, isStructKind] at hsk
  simpa [hu] using h

theorem posOK_false_of (env : Env) (e : TD) (h : (!promotedUnm env e) = true) : posOK env e false = true := by
  simpa [posOK] using h

/-- the tree at depth `d + 1` of what the kind switch builds, from the trees at depth `d` of the calls -/
theorem kind_exp (env : Env) (f d : Nat) (hc : ACodec env f d) (hs : AStruct env f d) (t : TD) (a : Bool)
    (s s1 : DSeen) (c1 : DChoice) (T : DSeen) (v : Bool)
    (h : kindDecF (codecDecF f env) (structDecF f env) env t (under env t) a s = some (c1, s1))
    (hfs : firstSwitchD t = none) (hm : stdUnm env t v = none)
    (hctx : Ctx env T d) (htab : SeenGood env d T T) (hext : Ext s1 T) (hfin : Fin env s T) (hroot : RootOK env s)
    (hsafe : Safe env t) :
    expandDN (d + 1) env T (normD c1) = stdDecD (d + 1) env t v := by
  have evo := kind_evo env f (JsonCodecChoiceDecEvo.main env f).1 (JsonCodecChoiceDecEvo.main env f).2.1 t _ a s s1 c1 h
  have hgood : SeenGood env d s T := seenGood_of_table htab (ext_of_evo hext evo)
  have hloc : localOK env t = true := hsafe.dev t (.refl t)
  rw [stdDecD_succ _ _ _ _ (firstSwitchD_none_not_opaque t hfs)]
  simp only [hm]
  have hfo : ∀ fs, under env t = .struct fs → fieldsOf env t = fs := by
    intro fs hu; simp [fieldsOf, hu]
  have hif : ∀ x y z, under env t = .iface x y z → ifaceLabel t = .ifaceMaybe := by
    intro x y z hu
    cases t <;> simp [under] at hu <;> simp [ifaceLabel]
  have hany : ∀ x, under env t = .any x → ifaceLabel t = .ifaceMaybe := by
    intro x hu
    cases t <;> simp [under] at hu <;> simp [ifaceLabel]
    simp [firstSwitchD] at hfs
  unfold localOK at hloc
  generalize hu : under env t = u at h hfo hif hany hloc ⊢
  cases u with
  | prim k => cases k <;> simp [kindDecF] at h <;> rw [← h.1] <;> simp [normD, expandDN, resolveD]
  | nil => simp [kindDecF] at h; rw [← h.1]; simp [normD, expandDN, resolveD]
  | special _ => simp [kindDecF] at h; rw [← h.1]; simp [normD, expandDN, resolveD]
  | ref _ => simp [kindDecF] at h; rw [← h.1]; simp [normD, expandDN, resolveD]
  | any x => simp [kindDecF] at h; rw [← h.1]; simp [normD, expandDN, resolveD, hany x rfl]
  | iface x y z => simp [kindDecF] at h; rw [← h.1]; simp [normD, expandDN, resolveD, hif x y z rfl]
  | array n e =>
    simp only [kindDecF] at h
    have hch : Reach env t e := reach_child (by simp [children, hu])
    cases h1 : codecDecF f env e a s with
    | none => simp [h1] at h
    | some r =>
      obtain ⟨ce, s2⟩ := r; simp [h1] at h; obtain ⟨rfl, rfl⟩ := h
      have E := (hc e a s ce s2 T h1 hctx hext hfin hroot (safe_of_reach hsafe hch) hgood).1 false
        (posOK_false_of env e (by simpa using hloc))
      simp [normD, expandDN, resolveD, E]
  | slice e =>
    simp only [kindDecF] at h
    have hch : Reach env t e := reach_child (by simp [children, hu])
    by_cases hb : (under env e == .prim .uint8) = true
    · simp only [hb, if_true] at h
      simp at h; rw [← h.1]
      have hu8 : under env e = .prim .uint8 := by simpa using hb
      exact byteSlice_sem env e hu8 d T
    · have hb' : (under env e == .prim .uint8) = false := by simpa using hb
      simp only [hb', Bool.false_eq_true, if_false, Bool.false_and] at h ⊢
      cases h1 : codecDecF f env e true s with
      | none => simp [h1] at h
      | some r =>
        obtain ⟨ce, s2⟩ := r; simp [h1] at h; obtain ⟨rfl, rfl⟩ := h
        have E := (hc e true s ce s2 T h1 hctx hext hfin hroot (safe_of_reach hsafe hch) hgood).1 false
          (posOK_false_of env e (by simpa using hloc))
        simp [normD, expandDN, resolveD, E]
  | ptr e =>
    simp only [kindDecF] at h
    have hch : Reach env t e := reach_child (by simp [children, hu])
    cases h1 : codecDecF f env e true s with
    | none => simp [h1] at h
    | some r =>
      obtain ⟨ce, s2⟩ := r; simp [h1] at h; obtain ⟨rfl, rfl⟩ := h
      have E := (hc e true s ce s2 T h1 hctx hext hfin hroot (safe_of_reach hsafe hch) hgood).1 true (by simp [posOK])
      rcases codec_plain env f e true s s2 ce h1 with ⟨hp, hne⟩ | ⟨sp, rfl, rfl⟩
      · have hpn := normD_plain ce hp
        simp only [normD]
        rw [expandDN_ptr env T d _ (by intro s' hcs; rw [hcs] at hpn; simp [plainD] at hpn), E]
        try (cases e <;> first | rfl | exact absurd rfl (hne _))
      · simp [normD, expandDN, resolveD]
  | map k v' =>
    simp only [kindDecF] at h
    have hch : Reach env t v' := reach_child (by simp [children, hu])
    have hkok : keyOKD env k = true := by
      simp only [Bool.and_eq_true] at hloc
      simpa [keyOKD, mapKeyBothUnm] using hloc.1
    have hvok : posOK env v' false = true := posOK_false_of env v' (by
      simp only [Bool.and_eq_true] at hloc; exact hloc.2)
    cases hfast : (if k == .prim .string then fastMapValueD v' else none) with
    | some vc =>
      simp only [hfast] at h
      simp at h; rw [← h.1]
      have hkstr : k = .prim .string := by
        by_cases hk' : (k == .prim .string) = true
        · simpa using hk'
        · simp [hk'] at hfast
      subst hkstr
      have hfv : fastMapValueD v' = some vc := by simpa using hfast
      have hkey : stdKeyDec env (.prim .string) = some (.prim .string) := by
        simp [stdKeyDec, implPtrU, implPtr, declared, noMeths, Meths.get, under, isStringKind]
      simp [normD, expandDN, resolveD, hkey, fast_sem env v' vc hfv d T]
    | none =>
      simp only [hfast] at h
      cases h1 : codecDecF f env v' false s with
      | none => simp [h1] at h
      | some r =>
        obtain ⟨vc, s2⟩ := r
        simp only [h1] at h
        have E : ∀ s1, s1 = s2 → Ext s1 T → expandDN d env T (normD vc) = stdDecD d env v' false := by
          intro s1 hs1 hext; subst hs1
          exact (hc v' false s vc s1 T h1 hctx hext hfin hroot (safe_of_reach hsafe hch) hgood).1 false hvok
        show _ = (match stdKeyDec env k with
          | none => DChoice.unsupported
          | some kc => kc.map (stdDecD d env v' false))
        rw [← mapKey_sem env k hkok]
        cases hkey : mapKeyDec env k with
        | none =>
          simp [hkey] at h; rw [← h.1]
          simp [normD, expandDN, resolveD]
        | some kc =>
          simp [hkey] at h; rw [← h.1]
          have hkc : normD kc = kc := normD_key env k kc (by rw [← mapKey_sem env k hkok]; exact hkey)
          simp [normD, hkc, expandDN, resolveD, E s1 h.2.symm hext]
  | struct fs =>
    simp only [kindDecF] at h
    cases h1 : structDecF f env t a none s with
    | none => simp [h1] at h
    | some r =>
      obtain ⟨e, s2⟩ := r; simp [h1] at h; obtain ⟨rfl, rfl⟩ := h
      have hsk : isStructKind (under env t) = true := by simp [hu, isStructKind]
      have hfg := (hs t a none s e s2 T h1 hsk hctx hext hfin hroot (fun R hR => by cases hR) hsafe hgood).2
      have hstd : stdFieldsD d env t =
          stdFieldsDecWith (fun ft => stdDecD d env ft false) (stdQuotedInner env)
            (stdEmbeddedDec (fun ft => stdDecD d env ft false) (stdQuotedInner env) env d (embedFuelD env t) [t]) env d fs := by
        unfold stdFieldsD; rw [hfo fs rfl]
      show _ = DChoice.struct (stdFieldsDecWith (fun ft => stdDecD d env ft false) (stdQuotedInner env)
            (stdEmbeddedDec (fun ft => stdDecD d env ft false) (stdQuotedInner env) env d (embedFuelD env t) [t]) env d fs)
      rw [← hstd]
      cases e with
      | done fs' =>
        have := hfg fs' rfl
        unfold FG at this
        simp only at this
        simp [DEntry.toChoice, normD, expandDN, resolveD, this]
      | building r =>
        have hb := (struct_building env f t a none s s2 r h1).2
        obtain ⟨fs', hT⟩ := hfin (t, a) r hb hsk
        have := htab (t, a) fs' hT hsk
        unfold FG at this
        simp only at this
        simp [DEntry.toChoice, normD, expandDN, resolveD, hT, this]

/-! ## `constructCodec` -/

/-- one call of `constructCodec`, unfolded -/
theorem codec_unfold (env : Env) (f : Nat) (t : TD) (a : Bool) (s s' : DSeen) (c : DChoice)
    (h : codecDecF (f + 1) env t a s = some (c, s')) :
    (firstSwitchD t = some c ∧ s' = s) ∨
    (firstSwitchD t = none ∧ (isRef t && isComposite (under env t)) = true ∧ (s.find (t, false)).isSome = true ∧
      c = .recur t a ∧ s' = s) ∨
    (firstSwitchD t = none ∧ (isRef t && isComposite (under env t)) = true ∧ s.find (t, false) = none ∧
      ∃ c1 s1, kindDecF (codecDecF f env) (structDecF f env) env t (under env t) a (s.set (t, false) (.building (t, false))) = some (c1, s1) ∧
        c = unmarshalerOverride env t c1 ∧ s' = s1.erase (t, false)) ∨
    (firstSwitchD t = none ∧ (isRef t && isComposite (under env t)) = false ∧
      ∃ c1, kindDecF (codecDecF f env) (structDecF f env) env t (under env t) a s = some (c1, s') ∧
        c = unmarshalerOverride env t c1) := by
  rw [codecDecF] at h
  cases hfs : firstSwitchD t with
  | some c0 => simp [hfs] at h; exact .inl ⟨by rw [h.1], h.2.symm⟩
  | none =>
    right
    simp only [hfs] at h
    by_cases hn : (isRef t && isComposite (under env t)) = true
    · simp only [hn, Bool.true_and, if_true] at h
      cases hf : s.find (t, false) with
      | some e0 => simp [hf] at h; exact .inl ⟨rfl, hn, by simp, h.1.symm, h.2.symm⟩
      | none =>
        simp only [hf, Option.isSome_none, Bool.false_eq_true, if_false] at h
        cases hk : kindDecF (codecDecF f env) (structDecF f env) env t (under env t) a (s.set (t, false) (.building (t, false))) with
        | none => simp [hk] at h
        | some r =>
          obtain ⟨c1, s1⟩ := r
          simp [hk] at h
          exact .inr (.inl ⟨rfl, hn, rfl, c1, s1, rfl, h.1.symm, h.2.symm⟩)
    · have hn' : (isRef t && isComposite (under env t)) = false := by simpa using hn
      simp only [hn', Bool.false_and, Bool.false_eq_true, if_false] at h
      cases hk : kindDecF (codecDecF f env) (structDecF f env) env t (under env t) a s with
      | none => simp [hk] at h
      | some r =>
        obtain ⟨c1, s1⟩ := r
        simp [hk] at h
        exact .inr (.inr ⟨rfl, hn', c1, by rw [h.2], h.1.symm⟩)

theorem composite_not_struct (env : Env) (t : TD) (h : (isRef t && isComposite (under env t)) = true) :
    ¬ IsStructKey env (t, false) := by
  unfold IsStructKey
  simp only [Bool.and_eq_true] at h
  cases hu : under env t <;> simp [hu, isComposite] at h <;> simp [hu, isStructKind]

/-- the invariant across the registration of a named composite type -/
theorem named_pre (env : Env) (D : Nat) (t : TD) (s s1 T : DSeen)
    (hn : (isRef t && isComposite (under env t)) = true) (habs : s.find (t, false) = none)
    (evo : Evo (s.set (t, false) (.building (t, false))) s1) (hext : Ext (s1.erase (t, false)) T) (hfin : Fin env s T)
    (hroot : RootOK env s) :
    Ext s1 T ∧ Fin env (s.set (t, false) (.building (t, false))) T ∧ RootOK env (s.set (t, false) (.building (t, false))) ∧
    (SeenGood env D s T → SeenGood env D (s.set (t, false) (.building (t, false))) T) ∧
    (SeenGood env D s1 T → SeenGood env D (s1.erase (t, false)) T) := by
  have hnk := composite_not_struct env t hn
  have hb1 : s1.find (t, false) = some (.building (t, false)) := (evo.2 _ _).mpr (find_set_self _ _ _)
  refine ⟨?_, ?_, ?_, ?_, ?_⟩
  · intro k fs hk
    have hne : k ≠ (t, false) := by intro e; subst e; rw [hb1] at hk; cases hk
    apply hext
    rw [find_erase]; simp [hne, hk]
  · intro k r hk hsk
    by_cases hke : k = (t, false)
    · subst hke; exact absurd hsk hnk
    · rw [find_set_ne _ _ _ _ hke] at hk; exact hfin k r hk hsk
  · intro k r hk hsk
    by_cases hke : k = (t, false)
    · subst hke; exact absurd hsk hnk
    · rw [find_set_ne _ _ _ _ hke] at hk
      obtain ⟨h1, r', h2⟩ := hroot k r hk hsk
      have hre : r ≠ (t, false) := by intro e; subst e; exact hnk h1
      exact ⟨h1, r', by rw [find_set_ne _ _ _ _ hre]; exact h2⟩
  · intro hg k fs hk hsk
    by_cases hke : k = (t, false)
    · subst hke; rw [find_set_self] at hk; cases hk
    · rw [find_set_ne _ _ _ _ hke] at hk; exact hg k fs hk hsk
  · intro hg k fs hk hsk
    rw [find_erase] at hk
    by_cases hke : k = (t, false)
    · simp [hke] at hk
    · simp only [hke, if_false] at hk; exact hg k fs hk hsk

theorem codec_thread (env : Env) (f D : Nat) (hc : ACodec env f D) (hs : AStruct env f D) (t : TD) (a : Bool)
    (s s' : DSeen) (c : DChoice) (T : DSeen) (h : codecDecF (f + 1) env t a s = some (c, s'))
    (hctx : Ctx env T D) (hext : Ext s' T) (hfin : Fin env s T) (hroot : RootOK env s) (hsafe : Safe env t)
    (hgood : SeenGood env D s T) : SeenGood env D s' T := by
  rcases codec_unfold env f t a s s' c h with ⟨_, rfl⟩ | ⟨_, _, _, _, rfl⟩ | ⟨_, hn, habs, c1, s1, hk, _, rfl⟩ |
      ⟨_, hn, c1, hk, _⟩
  · exact hgood
  · exact hgood
  · have evo := kind_evo env f (JsonCodecChoiceDecEvo.main env f).1 (JsonCodecChoiceDecEvo.main env f).2.1 t _ a _ s1 c1 hk
    obtain ⟨e1, e2, e3, e4, e5⟩ := named_pre env D t s s1 T hn habs evo hext hfin hroot
    exact e5 (kind_thread env f D hc hs t a _ s1 c1 T hk hctx e1 e2 e3 hsafe (e4 hgood))
  · exact kind_thread env f D hc hs t a s s' c1 T hk hctx hext hfin hroot hsafe hgood

theorem noBackref_composite (codec : DCodecFn) (strct : DStructFn) (env : Env) (t u : TD) (a : Bool) (s s1 : DSeen)
    (c1 : DChoice) (hcomp : isComposite u = true) (h : kindDecF codec strct env t u a s = some (c1, s1)) :
    (∀ t' a', normD c1 ≠ .structRef t' a') ∧ (∀ t' a', normD c1 ≠ .recur t' a') := by
  cases u <;> simp [isComposite] at hcomp <;> simp only [kindDecF] at h
  · rename_i e
    split at h
    · simp at h; rw [← h.1]; unfold byteSliceDec; (repeat' split) <;> simp [normD]
    · cases h1 : codec e true s with
      | none => simp [h1] at h
      | some r => obtain ⟨x, y⟩ := r; simp [h1] at h; rw [← h.1]; simp [normD]
  · rename_i n e
    cases h1 : codec e a s with
    | none => simp [h1] at h
    | some r => obtain ⟨x, y⟩ := r; simp [h1] at h; rw [← h.1]; simp [normD]
  · rename_i k v
    split at h
    · simp at h; rw [← h.1]; simp [normD]
    · cases h1 : codec v false s with
      | none => simp [h1] at h
      | some r =>
        obtain ⟨x, y⟩ := r; simp only [h1] at h
        cases h2 : mapKeyDec env k <;> simp [h2] at h <;> rw [← h.1] <;> simp [normD]
  · rename_i e
    cases h1 : codec e true s with
    | none => simp [h1] at h
    | some r => obtain ⟨x, y⟩ := r; simp [h1] at h; rw [← h.1]; simp [normD]

theorem override_noBackref (env : Env) (t : TD) (c : DChoice)
    (h : (∀ t' a', normD c ≠ .structRef t' a') ∧ (∀ t' a', normD c ≠ .recur t' a')) :
    (∀ t' a', normD (unmarshalerOverride env t c) ≠ .structRef t' a') ∧
      (∀ t' a', normD (unmarshalerOverride env t c) ≠ .recur t' a') := by
  unfold unmarshalerOverride; (repeat' split) <;> first | exact h | simp [normD]

/-- a back reference to a named composite type: a fresh construction, whose top is not a back reference itself -/
theorem expandDN_recur (env : Env) (T : DSeen) (d : Nat) (t : TD) (a : Bool)
    (hn : (isRef t && isComposite (under env t)) = true) :
    expandDN (d + 1) env T (.recur t a) = expandDN (d + 1) env (chooseDec env t a).2 (normD (chooseDec env t a).1) := by
  have hch := chooseDec_eq env t a
  obtain ⟨f, hf⟩ : ∃ f, fuelForD env t = f + 1 := by
    cases hfu : fuelForD env t with
    | zero => rw [hfu] at hch; simp [codecDecF] at hch
    | succ f => exact ⟨f, rfl⟩
  rw [hf] at hch
  have hcomp : isComposite (under env t) = true := by simp only [Bool.and_eq_true] at hn; exact hn.2
  have hch' : codecDecF (f + 1) env t a [] = some ((chooseDec env t a).1, (chooseDec env t a).2) := hch
  have hnb : (∀ t' a', normD (chooseDec env t a).1 ≠ .structRef t' a') ∧ (∀ t' a', normD (chooseDec env t a).1 ≠ .recur t' a') := by
    rcases codec_unfold env f t a [] (chooseDec env t a).2 (chooseDec env t a).1 hch' with ⟨hfs, _⟩ | ⟨_, _, hfound, _, _⟩ |
        ⟨_, _, _, c1, s1, hk, hc, _⟩ | ⟨_, hn', _, _, _⟩
    · cases t <;> simp [isRef] at hn
      simp [firstSwitchD] at hfs
    · simp [DSeen.find] at hfound
    · rw [hc]
      exact override_noBackref env t c1 (noBackref_composite _ _ env t _ a _ s1 c1 hcomp hk)
    · rw [hn] at hn'; cases hn'
  conv => lhs; rw [expandDN]; simp only [resolveD]
  generalize normD (chooseDec env t a).1 = c' at hnb ⊢
  generalize (chooseDec env t a).2 = T'
  cases c' <;> simp [expandDN, resolveD]
  · exact absurd rfl (hnb.1 _ _)
  · exact absurd rfl (hnb.2 _ _)

theorem codec_exp (env : Env) (f d : Nat) (hc : ACodec env f d) (hs : AStruct env f d) (t : TD) (a : Bool)
    (s s' : DSeen) (c : DChoice) (T : DSeen) (h : codecDecF (f + 1) env t a s = some (c, s'))
    (hctx : Ctx env T d) (htab : SeenGood env d T T) (hext : Ext s' T) (hfin : Fin env s T) (hroot : RootOK env s)
    (hsafe : Safe env t)
    (hrec : (isRef t && isComposite (under env t)) = true → (s.find (t, false)).isSome = true → MainFor env (d + 1) t a)
    (v : Bool) (hv : posOK env t v = true) :
    expandDN (d + 1) env T (normD c) = stdDecD (d + 1) env t v := by
  have hov : ∀ c1, firstSwitchD t = none →
      (stdUnm env t v = none → expandDN (d + 1) env T (normD c1) = stdDecD (d + 1) env t v) →
      expandDN (d + 1) env T (normD (unmarshalerOverride env t c1)) = stdDecD (d + 1) env t v := by
    intro c1 hfs hk
    rw [override_eq_std_pos env t v c1 (firstSwitchD_none_not_opaque t hfs) hv]
    cases hm : stdUnm env t v with
    | some m =>
      rw [stdDecD_succ _ _ _ _ (firstSwitchD_none_not_opaque t hfs)]
      simp only [hm, Option.getD]
      rcases stdUnm_leaf env t v m hm with rfl | rfl <;> simp [normD, expandDN, resolveD]
    | none => simp only [Option.getD]; exact hk hm
  rcases codec_unfold env f t a s s' c h with ⟨hfs, rfl⟩ | ⟨_, hn, hfound, rfl, rfl⟩ | ⟨hfs, hn, habs, c1, s1, hk, rfl, rfl⟩ |
      ⟨hfs, hn, c1, hk, rfl⟩
  · exact firstSwitchD_sem env t v c hfs (d + 1) T
  · have := hrec hn hfound v hv
    rw [← this]
    simp only [normD]
    exact expandDN_recur env T d t a hn
  · have evo := kind_evo env f (JsonCodecChoiceDecEvo.main env f).1 (JsonCodecChoiceDecEvo.main env f).2.1 t _ a _ s1 c1 hk
    obtain ⟨e1, e2, e3, _, _⟩ := named_pre env d t s s1 T hn habs evo hext hfin hroot
    exact hov c1 hfs fun hm => kind_exp env f d hc hs t a _ s1 c1 T v hk hfs hm hctx htab e1 e2 e3 hsafe
  · exact hov c1 hfs fun hm => kind_exp env f d hc hs t a s s' c1 T v hk hfs hm hctx htab hext hfin hroot hsafe

/-! ## the induction on the fuel -/

theorem struct_step (env : Env) (f D : Nat) (hc : ACodec env f D) (hs : AStruct env f D) (hl : AList env f D) :
    AStruct env (f + 1) D := by
  intro t a root s e s' T h hsk hctx hext hfin hroot hrt hsafe hgood
  rw [structDecF] at h
  cases hf : s.find (t, a) with
  | some e0 =>
    simp [hf] at h
    obtain ⟨rfl, rfl⟩ := h
    refine ⟨hgood, ?_⟩
    intro fs he; subst he
    exact hgood (t, a) fs hf hsk
  | none =>
    simp only [hf] at h
    generalize hR : root.getD (t, a) = R at h
    cases hfl : fieldsDecF (codecDecF f env) (structDecF f env) (listDecF f env) env a R (fieldsOf env t)
        (s.set (t, a) (.building R)) with
    | none => simp [hfl] at h
    | some r =>
      obtain ⟨fs, s2⟩ := r
      simp [hfl] at h
      obtain ⟨rfl, rfl⟩ := h
      have hE := JsonCodecChoiceDecEvo.main env f
      have evo := fields_evo _ _ _ hE.1 hE.2.1 hE.2.2 env a R _ _ fs s2 hfl
      have hb2 : s2.find (t, a) = some (.building R) := (evo.2 _ _).mpr (find_set_self _ _ _)
      have hext2 : Ext s2 T := by
        intro k fs' hk
        have hne : k ≠ (t, a) := by intro e; subst e; rw [hb2] at hk; cases hk
        apply hext; rw [find_set_ne _ _ _ _ hne]; exact hk
      have hfin' : Fin env (s.set (t, a) (.building R)) T := by
        intro k r' hk hsk'
        by_cases hke : k = (t, a)
        · subst hke; exact ⟨fs, hext _ fs (find_set_self _ _ _)⟩
        · rw [find_set_ne _ _ _ _ hke] at hk; exact hfin k r' hk hsk'
      -- the root: this struct type itself, or the root it is embedded in
      have hRcases : (root = none ∧ R = (t, a)) ∨ (root = some R) := by
        cases root with
        | none => left; exact ⟨rfl, by simpa using hR.symm⟩
        | some R' => right; simp at hR; rw [hR]
      have hrin' : RootIn env (s.set (t, a) (.building R)) R := by
        rcases hRcases with ⟨_, rfl⟩ | hsome
        · exact ⟨hsk, _, find_set_self _ _ _⟩
        · obtain ⟨⟨h1, r', h2⟩, _⟩ := hrt R hsome
          have hne : R ≠ (t, a) := by intro e; subst e; rw [hf] at h2; cases h2
          exact ⟨h1, r', by rw [find_set_ne _ _ _ _ hne]; exact h2⟩
      have hroot' : RootOK env (s.set (t, a) (.building R)) := by
        intro k r' hk hsk'
        by_cases hke : k = (t, a)
        · subst hke; rw [find_set_self] at hk; cases hk; exact hrin'
        · rw [find_set_ne _ _ _ _ hke] at hk
          obtain ⟨h1, r'', h2⟩ := hroot k r' hk hsk'
          have hne : r' ≠ (t, a) := by intro e; subst e; rw [hf] at h2; cases h2
          exact ⟨h1, r'', by rw [find_set_ne _ _ _ _ hne]; exact h2⟩
      have hchain' : Chain env (s.set (t, a) (.building R)) R t := by
        intro k hk hsk'
        by_cases hke : k = (t, a)
        · subst hke; exact .refl _
        · rw [find_set_ne _ _ _ _ hke] at hk
          rcases hRcases with ⟨_, rfl⟩ | hsome
          · -- nothing is marked with a key that is not in `seen`
            obtain ⟨_, r'', h2⟩ := hroot k _ hk hsk'
            rw [hf] at h2; cases h2
          · exact (hrt R hsome).2 k hk hsk'
      have hgood' : SeenGood env D (s.set (t, a) (.building R)) T := by
        intro k fs' hk hsk'
        by_cases hke : k = (t, a)
        · subst hke; rw [find_set_self] at hk; cases hk
        · rw [find_set_ne _ _ _ _ hke] at hk; exact hgood k fs' hk hsk'
      obtain ⟨g, heq⟩ := fields_sem env f D hc hs hl t a R T hctx hsafe (fieldsOf env t) _ fs s2 hfl
        (fun ft hft => fieldTypes_children env t ft hft) (fun typ htyp => htyp)
        (localOK_struct env t hsk (hsafe.dev t (.refl t))) hext2 hfin' hroot' hrin' hchain' hgood'
      have hfg : FG env D T fs (t, a) := heq
      refine ⟨?_, fun fs' he => by cases he; exact hfg⟩
      intro k fs' hk hsk'
      by_cases hke : k = (t, a)
      · subst hke; rw [find_set_self] at hk; cases hk; exact hfg
      · rw [find_set_ne _ _ _ _ hke] at hk; exact g k fs' hk hsk'

theorem list_step (env : Env) (f D : Nat) (hc : ACodec env f D) (hs : AStruct env f D) (hl : AList env f D) :
    AList env (f + 1) D := by
  intro t a R s fs s' T h hsk hctx hext hfin hroot hrin hchain hsafe hgood
  rw [listDecF] at h
  exact fields_sem env f D hc hs hl t a R T hctx hsafe (fieldsOf env t) s fs s' h
    (fun ft hft => fieldTypes_children env t ft hft) (fun typ htyp => htyp)
    (localOK_struct env t hsk (hsafe.dev t (.refl t))) hext hfin hroot hrin hchain hgood

theorem mainA (env : Env) : ∀ f D, ACodec env f D ∧ AStruct env f D ∧ AList env f D
  | 0, D => ⟨fun t a s c s' T h => by simp [codecDecF] at h, fun t a root s e s' T h => by simp [structDecF] at h,
      fun t a R s fs s' T h => by simp [listDecF] at h⟩
  | f + 1, D => by
    have ih := mainA env f
    refine ⟨?_, struct_step env f D (ih D).1 (ih D).2.1 (ih D).2.2, list_step env f D (ih D).1 (ih D).2.1 (ih D).2.2⟩
    intro t a s c s' T h hctx hext hfin hroot hsafe hgood
    refine ⟨?_, codec_thread env f D (ih D).1 (ih D).2.1 t a s s' c T h hctx hext hfin hroot hsafe hgood⟩
    cases D with
    | zero => intro v _; simp [expandDN, stdDecD]
    | succ d =>
      exact codec_exp env f d (ih d).1 (ih d).2.1 t a s s' c T h (hctx.mono (by omega)) (hctx.less d (by omega)) hext hfin
        hroot hsafe (fun _ _ => hctx.main (d + 1) (Nat.le_refl _) t a hsafe)

/-! ## the top-level construction -/

theorem mainLe (env : Env) : ∀ d, MainLe env d
  | 0 => by
    intro d' hd t a _
    have : d' = 0 := by omega
    subst this
    intro v _
    simp [expandDN, stdDecD]
  | d + 1 => by
    have ihd := mainLe env d
    intro d' hd t a hsafe
    by_cases hlt : d' ≤ d
    · exact ihd d' hlt t a hsafe
    · have : d' = d + 1 := by omega
      subst this
      have hch := chooseDec_eq env t a
      obtain ⟨f, hf⟩ : ∃ f, fuelForD env t = f + 1 := by
        cases hfu : fuelForD env t with
        | zero => rw [hfu] at hch; simp [codecDecF] at hch
        | succ f => exact ⟨f, rfl⟩
      generalize hT : (chooseDec env t a).2 = T at hch
      generalize hc0 : (chooseDec env t a).1 = c0 at hch
      have hch' : codecDecF (fuelForD env t) env t a [] = some (c0, T) := by rw [hch, ← hT, ← hc0]
      have hext : Ext T T := fun _ _ h => h
      have hfin : Fin env [] T := fun k r hk _ => by simp [DSeen.find] at hk
      have hroot : RootOK env [] := fun k r hk _ => by simp [DSeen.find] at hk
      have hempty : ∀ D, SeenGood env D [] T := fun D k fs hk _ => by simp [DSeen.find] at hk
      -- the final table is good at every depth ≤ d
      have htab : ∀ D, D ≤ d → SeenGood env D T T := by
        intro D
        induction D using Nat.strongRecOn with
        | _ D ihD =>
          intro hD
          have hctx : Ctx env T D := ⟨fun D' hD' => ihD D' hD' (by omega), fun D' hD' => ihd D' (by omega)⟩
          exact ((mainA env (fuelForD env t) D).1 t a [] c0 T T hch' hctx hext hfin hroot hsafe (hempty D)).2
      have hctx : Ctx env T d := ⟨fun D' hD' => htab D' (by omega), ihd⟩
      rw [hf] at hch'
      unfold MainFor
      rw [hT, hc0]
      exact codec_exp env f d (mainA env f d).1 (mainA env f d).2.1 t a [] T c0 T hch' hctx (htab d (Nat.le_refl _)) hext hfin
        hroot hsafe (fun _ hfound => by simp [DSeen.find] at hfound)

/-- **chooseDec_eq_std**: for every environment of definitions, every type in which no struct lies on a cycle of EMBEDDED
structs and no position is one of the two recorded decode-side differences (an unnamed struct with a promoted unmarshaler
that is not the target of a pointer; a map key type with both unmarshaling methods), both values of `canAddr`, every depth,
and both ways of reaching the top-level value (`v`; not through a pointer only when `t` itself is not such an unnamed
struct): the decoder tree `constructCodec` builds — back references through `seen` resolved in the final `seen`, back
references to named slice/map/pointer/array types built on first use — is the tree of encoding/json's rule. -/
theorem chooseDec_eq_std (env : Env) (t : TD) (a : Bool) (h : NoEmbeddedCycle env t) (hdev : DevFree env t) (v : Bool)
    (hv : posOK env t v = true) (d : Nat) :
    expandDecD d env (chooseDec env t a).2 (chooseDec env t a).1 = stdDecD d env t v :=
  mainLe env d d (Nat.le_refl _) t a ⟨h, hdev⟩ v hv

end Enc.Lemmas.JsonCodecChoiceDecFull

#print axioms Enc.Lemmas.JsonCodecChoiceDecFull.chooseDec_eq_std
