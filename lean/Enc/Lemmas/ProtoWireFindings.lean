import Enc.Lemmas.ProtoWireVal
import Enc.Spec.Known
/-!
# C12: inputs OUTSIDE the hypotheses of `decode_marshal_*` on which model and reference disagree

None of these is in a listed known class (`Known.protoClasses` is empty on all of them); each is excluded by
`tagAgree` / `optOK` / `tyOK` (so the theorems do not cover them) and each was replayed on the Go encoder
(`proto.Marshal`, same bytes as the model).  `refdecode = none` means the reference has no opinion /
rejects the bytes; `want` is `canonical ty v`.

  (F1, sfixed32 / sfixed64 = `int32`/`int64` tagged `fixed32`/`fixed64` written as a VARINT record, is repaired in
      the repository and in this model revision (`Codec.sfixed32/.sfixed64`): the field is now an I32/I64 record
      holding the little-endian two's complement, inside the universe of `decode_marshal_*`; see the `#guard`s below.
      The numbering F2 … F6 is kept.)
  F2  proto2 `required` (`protobuf:"varint,7,req,…"`): `parseStructTag` fails on `req`, the whole tag is ignored, the
      field is numbered by position (`08 05` = field 1 instead of field 7) and loses zigzag/fixed as well.
  F3  `rep` on a non-slice field: the value is written by the second loop WITHOUT any tag (`05`): not a message.
  F4  zigzag32/64 on a message-typed field: the flag leaks into every integer of the nested message (5 written as 10).
  F5  field number 0 (`varint,0,opt`): tag byte `00` is written, which no protobuf parser accepts.
  F6  duplicate field numbers: both fields are written under the same number; last one wins on decodeU.

(The earlier F7, fixed32/fixed64 on a pointer field, is repaired in the repository and in this model revision
(`wrapPtrs`); such fields are now inside the universe of `decode_marshal_partial`, see the last `#eval`s.)
-/
namespace Enc.Lemmas.ProtoWire.Findings
open Enc Enc.Model.Proto

def sh (o : Option Val) : String := match o with | some v => "some " ++ v.show | none => "none"
def tst (ty : Ty) (v : Val) : String :=
  s!"marshal={toHex (marshal ty v)} refdecode={sh ((Spec.Protobuf.decode ty (marshal ty v)).map (Spec.Protobuf.canonical ty))} want={(Spec.Protobuf.canonical ty v).show} known={Known.protoClasses ty v}"

def one (tag : String) (t : Ty) (v : Val) : String :=
  tst (.struct (.cons "A" tag false t .nil)) (.struct (.cons v .nil))

-- formerly F1, now agreeing: `int32` tagged `fixed32` holding −5 is the I32 record `0d fb ff ff ff`, the reference
-- decoder reads −5 back; likewise sfixed64, behind a pointer, and at the range ends.
-- "marshal=0dfbffffff refdecode=some t 1 i -5 want=t 1 i -5 known=[]"
#eval one "protobuf:\"fixed32,1,opt\"" (.int .i32) (.int (-5))
#eval one "protobuf:\"fixed64,1,opt\"" (.int .i64) (.int (-5))
def sfx32 : Ty := .struct (.cons "A" "protobuf:\"fixed32,1,opt\"" false (.int .i32) .nil)
def sfx64 : Ty := .struct (.cons "A" "protobuf:\"fixed64,1,opt\"" false (.int .i64) .nil)
def sfxp32 : Ty := .struct (.cons "A" "protobuf:\"fixed32,1,opt\"" false (.ptr (.int .i32)) .nil)
def agree (ty : Ty) (v : Val) : Bool :=
  ((Spec.Protobuf.decode ty (marshal ty v)).map fun r => (Spec.Protobuf.canonical ty r).show)
    == some (Spec.Protobuf.canonical ty v).show
#guard toHex (marshal sfx32 (.struct (.cons (.int (-5)) .nil))) == "0dfbffffff"
#guard agree sfx32 (.struct (.cons (.int (-5)) .nil))
#guard toHex (marshal sfx64 (.struct (.cons (.int (-5)) .nil))) == "09fbffffffffffffff"
#guard agree sfx64 (.struct (.cons (.int (-5)) .nil))
#guard agree sfx32 (.struct (.cons (.int (-2147483648)) .nil)) && agree sfx32 (.struct (.cons (.int 2147483647) .nil))
#guard agree sfx64 (.struct (.cons (.int (-9223372036854775808)) .nil)) && agree sfx64 (.struct (.cons (.int 9223372036854775807) .nil))
#guard toHex (marshal sfxp32 (.struct (.cons (.ptr (.int 0)) .nil))) == "0d00000000" && agree sfxp32 (.struct (.cons (.ptr (.int 0)) .nil))
-- the model's own decoder reads it back as well (C03)
#guard (unmarshalU sfx32 (marshal sfx32 (.struct (.cons (.int (-5)) .nil)))).show Val.show == "ok:t 1 i -5"
-- and these fields are inside the hypotheses of the theorems now:  tagAgree / tyOK = true, width mismatch still false
#guard tagAgree 1 "protobuf:\"fixed32,1,opt\"" (.int .i32) && tagAgree 1 "protobuf:\"fixed64,1,opt\"" (.int .i64)
  && tagAgree 1 "protobuf:\"fixed32,1,opt\"" (.ptr (.int .i32)) && tyOK sfx32 && tyOK sfx64 && tyOK sfxp32
#guard !tagAgree 1 "protobuf:\"fixed64,1,opt\"" (.int .i32) && !tagAgree 1 "protobuf:\"fixed32,1,opt\"" (.int .i64)
  && !tagAgree 1 "protobuf:\"fixed32,1,opt\"" (.int .int)
-- F2   "marshal=0805 refdecode=some t 1 i 0 want=t 1 i 5 known=[]"   (Go: 0805; expected 3805)
#eval one "protobuf:\"varint,7,req\"" (.int .i64) (.int 5)
-- F3   "marshal=05 refdecode=none …"                              (Go: 05)
#eval one "protobuf:\"varint,1,rep\"" (.int .i64) (.int 5)
-- F4   "marshal=0a02080a refdecode=some t 1 t 1 i 10 want=t 1 t 1 i 5 known=[]"   (Go: 0a02080a)
#eval one "protobuf:\"zigzag64,1,opt\"" (.struct (.cons "X" "" false (.int .i64) .nil)) (.struct (.cons (.int 5) .nil))
-- F5   "marshal=0005 refdecode=none …"                            (Go: 0005)
#eval one "protobuf:\"varint,0,opt\"" (.int .i64) (.int 5)
-- F6   "marshal=08050806 refdecode=some t 2 i 6 i 0 want=t 2 i 5 i 6 known=[]"
#eval tst (.struct (.cons "A" "protobuf:\"varint,1,opt\"" false (.int .i64) (.cons "B" "protobuf:\"varint,1,opt\"" false (.int .i64) .nil)))
  (.struct (.cons (.int 5) (.cons (.int 6) .nil)))
-- formerly F7, now agreeing: "marshal=0d05000000 refdecode=some t 1 p i 5 want=t 1 p i 5 known=[]", tagAgree = true
#eval one "protobuf:\"fixed32,1,opt\"" (.ptr (.int .u32)) (.ptr (.int 5))
#eval one "protobuf:\"fixed64,1,opt\"" (.ptr .f64) (.ptr (.float 5))
#eval (tagAgree 1 "protobuf:\"fixed32,1,opt\"" (.ptr (.int .u32)), tagAgree 1 "protobuf:\"fixed64,1,opt\"" (.ptr .f64),
       tagAgree 1 "protobuf:\"fixed64,1,opt\"" (.ptr (.int .u32)))   -- (true, true, false)

-- `tagAgree` (the hypothesis that excludes F3, F5) evaluated on these and on ordinary protoc tags: (true, false, false).
-- NOTE: the first component is `true` and the F2 `#eval` above prints `marshal=3805 refdecode=some t 1 i 5`: the model
-- revision at hand has `"req" => go 3 rest t` in `parseStructTag`, so F2 no longer reproduces either (its header text and
-- expected-output comment above are stale; that predates the sfixed change).
#eval (tagAgree 1 "protobuf:\"varint,7,req\"" (.int .i64),
       tagAgree 1 "protobuf:\"varint,1,rep\"" (.int .i64), tagAgree 1 "protobuf:\"varint,0,opt\"" (.int .i64))
#eval (tagAgree 1 "protobuf:\"zigzag64,2,opt,name=a,proto3\"" (.int .i64), tagAgree 3 "protobuf:\"fixed32,9,opt\"" (.int .u32),
       tagAgree 2 "protobuf:\"bytes,4,rep,name=s\"" (.slice .str), tagAgree 1 "json:\"a\" protobuf:\"varint,1,opt\"" (.ptr .bool)) -- all true

-- `noEmptyPtr` (hypothesis of `decode_marshal_partial`) is the reference-side reading of the known class
-- `Known.hasPtrToEmpty` (model-side: `size … wz == 0`); on samples:  (true, false)  and  (false, true)
#eval (noEmptyPtr (.struct exPFields) (.struct exPVals), Known.hasPtrToEmpty (.struct exPFields) (.struct exPVals))
#eval (noEmptyPtr (.struct (.cons "A" "" false (.ptr (.struct .nil)) .nil)) (.struct (.cons (.ptr (.struct .nil)) .nil)),
       Known.hasPtrToEmpty (.struct (.cons "A" "" false (.ptr (.struct .nil)) .nil)) (.struct (.cons (.ptr (.struct .nil)) .nil)))

end Enc.Lemmas.ProtoWire.Findings
