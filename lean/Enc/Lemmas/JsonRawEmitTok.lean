import Enc.Lemmas.JsonRawEmitValue
import Enc.Spec.Json.Tokens
/-!
# RawMessage / MarshalJSON re-emission, part 6: every document of the grammar has a token stream

`value f d b = some r → ∃ ts, tokValue f dep i b = some (ts, r)`: the grammar-directed token walk of
Spec/Json/Tokens.lean (the specification of the Tokenizer, C17) is defined on every text that the reference recogniser
of Spec/Json/Grammar.lean accepts — with the same fuel and the same remainder. Hence `tokensOf` is total on valid JSON.
-/
namespace Enc.Lemmas.JsonRawEmitTok
open Enc Enc.Model.Json
open Enc.Spec.Json (isWs ws value elements members string lit number tokValue tokElems tokMembers STok tokensOf validStd validRFC)
open Enc.Lemmas.JsonGrammar
open Enc.Lemmas.JsonRawEmitValue (valueV_head string_head)

def noFl : DynFlags := ⟨false, false, false, false⟩

/-- a value of the grammar starts with a byte that is neither white space nor `]`, `}`, `,` -/
theorem value_head {f d : Nat} {b r : Bytes} (h : value f d b = some r) :
    ∃ c t, b = c :: t ∧ isWs c = false ∧ c ≠ 0x5d ∧ c ≠ 0x7d ∧ c ≠ 0x2c := by
  obtain ⟨v, o, hv⟩ := JsonDecAny.valueV_some_of_proj (dyn := noFl) h
  exact valueV_head hv

def TV (g : Nat) : Prop := ∀ d b r, value g d b = some r → ∀ dep i, ∃ ts, tokValue g dep i b = some (ts, r)
/-- the elements of an array from its first element (or `]`) on -/
def E1 (g : Nat) : Prop := ∀ d b r, elements g d b true = some r → ∀ dep, ∃ ts, tokElems g dep 0 b = some (ts, r)
/-- one element and what follows it -/
def E2 (g : Nat) : Prop := ∀ d b r2 r, value g d b = some r2 → elements g d (ws r2) false = some r →
  ∀ dep i, ∃ ts, tokElems (g + 1) dep i b = some (ts, r)
def M1 (g : Nat) : Prop := ∀ d b r, members g d b true = some r → ∀ dep, ∃ ts, tokMembers g dep 0 b = some (ts, r)
/-- one member (key at `b`) and what follows it -/
def M2 (g : Nat) : Prop := ∀ d b r2 r3 r4 r, string b = some r2 → ws r2 = 0x3a :: r3 → value g d (ws r3) = some r4 →
  members g d (ws r4) false = some r → ∀ dep i, ∃ ts, tokMembers (g + 1) dep i b = some (ts, r)

theorem tv_step {g : Nat} (hE : E1 g) (hM : M1 g) : TV (g + 1) := by
  intro d b r h dep i
  cases b with
  | nil => rw [value_nil] at h; cases h
  | cons c rb =>
    rw [value_succ_cons] at h
    rw [tokValue]
    by_cases h7b : c = 0x7b
    · subst h7b
      simp only [beq_self_eq_true, if_true] at h
      split at h
      · cases h
      obtain ⟨ts, hts⟩ := hM _ _ _ h (dep + 1)
      have : ((0x7b : UInt8) == 0x5b) = false := by decide
      simp only [this, Bool.false_eq_true, if_false, beq_self_eq_true, if_true, hts, Option.map_some]
      exact ⟨_, rfl⟩
    have h7b' : (c == 0x7b) = false := by simpa using h7b
    simp only [h7b', Bool.false_eq_true, if_false] at h ⊢
    by_cases h5b : c = 0x5b
    · subst h5b
      simp only [beq_self_eq_true, if_true] at h
      split at h
      · cases h
      obtain ⟨ts, hts⟩ := hE _ _ _ h (dep + 1)
      simp only [beq_self_eq_true, if_true, hts, Option.map_some]
      exact ⟨_, rfl⟩
    have h5b' : (c == 0x5b) = false := by simpa using h5b
    simp only [h5b', Bool.false_eq_true, if_false] at h ⊢
    simp only [Spec.Json.scalar, h, Option.map_some]
    exact ⟨_, rfl⟩

theorem e1_step {g : Nat} (hE2 : E2 g) : E1 (g + 1) := by
  intro d b r h dep
  cases b with
  | nil => rw [elements_nil] at h; cases h
  | cons c rb =>
    rw [elements_succ_cons] at h
    by_cases h5 : c = 0x5d
    · subst h5
      simp only [beq_self_eq_true, if_true, Option.some.injEq] at h
      subst h
      exact ⟨[], by rw [tokElems]; simp⟩
    · have h5' : (c == 0x5d) = false := by simpa using h5
      simp only [h5', Bool.false_eq_true, if_false, if_true, Option.bind_some] at h
      split at h
      · cases h
      obtain ⟨r2, hv, he⟩ := bind_some h
      exact hE2 d _ r2 r hv he dep 0

theorem e2_step {g : Nat} (hV : TV (g + 1)) (hE2 : E2 g) : E2 (g + 1) := by
  intro d b r2 r hv he dep i
  obtain ⟨c, rb, rfl, _, h5, _⟩ := value_head hv
  have h5' : (c == 0x5d) = false := by simpa using h5
  obtain ⟨ts1, hts1⟩ := hV d _ r2 hv dep i
  rw [tokElems]
  simp only [h5', Bool.false_and, Bool.false_eq_true, if_false, hts1, Option.bind_some]
  cases hw : ws r2 with
  | nil => rw [hw, elements_nil] at he; cases he
  | cons c2 r3 =>
    rw [hw, elements_succ_cons] at he
    by_cases hc5 : c2 = 0x5d
    · subst hc5
      simp only [beq_self_eq_true, if_true, Option.some.injEq] at he
      subst he
      exact ⟨_, rfl⟩
    · have hc5' : (c2 == 0x5d) = false := by simpa using hc5
      simp only [hc5', Bool.false_eq_true, if_false] at he
      by_cases hc2 : c2 = 0x2c
      · subst hc2
        simp only [beq_self_eq_true, if_true, Option.bind_some] at he
        split at he
        · cases he
        rename_i hcl
        obtain ⟨r4, hv4, he4⟩ := bind_some he
        obtain ⟨ts2, hts2⟩ := hE2 d _ r4 r hv4 he4 dep (i + 1)
        obtain ⟨c3, r5, hb2, _, hc3, _⟩ := value_head hv4
        have hc3' : (c3 == 0x5d) = false := by simpa using hc3
        simp only
        rw [hb2] at hts2 ⊢
        split
        · rename_i e; simp only [List.cons.injEq] at e; exact absurd e.1 hc3
        · rw [hts2]; exact ⟨_, rfl⟩
      · have hc2' : (c2 == 0x2c) = false := by simpa using hc2
        simp [hc2'] at he

theorem m1_step {g : Nat} (hM2 : M2 g) : M1 (g + 1) := by
  intro d b r h dep
  cases b with
  | nil => rw [members_nil] at h; cases h
  | cons c rb =>
    rw [members_succ_cons] at h
    by_cases h5 : c = 0x7d
    · subst h5
      simp only [beq_self_eq_true, if_true, Option.some.injEq] at h
      subst h
      exact ⟨[], by rw [tokMembers]; simp⟩
    · have h5' : (c == 0x7d) = false := by simpa using h5
      simp only [h5', Bool.false_eq_true, if_false, if_true, Option.bind_some] at h
      obtain ⟨r2, hs, h⟩ := bind_some h
      obtain ⟨r3, hr3, h⟩ := colonThen_some h
      obtain ⟨r4, hv, hm⟩ := bind_some h
      exact hM2 d _ r2 r3 r4 r hs hr3 hv hm dep 0

theorem m2_step {g : Nat} (hV : TV (g + 1)) (hM2 : M2 g) : M2 (g + 1) := by
  intro d b r2 r3 r4 r hs hr3 hv hm dep i
  obtain ⟨kt, rfl⟩ := string_head hs
  obtain ⟨ts1, hts1⟩ := hV d _ r4 hv (dep) i
  rw [tokMembers]
  have : ((0x22 : UInt8) == 0x7d) = false := by decide
  simp only [this, Bool.false_and, Bool.false_eq_true, if_false, hs, Option.bind_some, hr3, hts1]
  cases hw : ws r4 with
  | nil => rw [hw, members_nil] at hm; cases hm
  | cons c2 r5 =>
    rw [hw, members_succ_cons] at hm
    by_cases hc5 : c2 = 0x7d
    · subst hc5
      simp only [beq_self_eq_true, if_true, Option.some.injEq] at hm
      subst hm
      exact ⟨_, rfl⟩
    · have hc5' : (c2 == 0x7d) = false := by simpa using hc5
      simp only [hc5', Bool.false_eq_true, if_false] at hm
      by_cases hc2 : c2 = 0x2c
      · subst hc2
        simp only [beq_self_eq_true, if_true, Option.bind_some] at hm
        obtain ⟨q2, hqs, hm⟩ := bind_some hm
        obtain ⟨q3, hq3, hm⟩ := colonThen_some hm
        obtain ⟨q4, hqv, hqm⟩ := bind_some hm
        obtain ⟨ts2, hts2⟩ := hM2 d _ q2 q3 q4 r hqs hq3 hqv hqm dep (i + 1)
        obtain ⟨kt2, hk2⟩ := string_head hqs
        simp only
        rw [hk2] at hts2 ⊢
        split
        · rename_i e; simp only [List.cons.injEq] at e; exact absurd e.1 (by decide)
        · rw [hts2]; exact ⟨_, rfl⟩
      · have hc2' : (c2 == 0x2c) = false := by simpa using hc2
        simp [hc2'] at hm

theorem all_T (g : Nat) : TV g ∧ E1 g ∧ E2 g ∧ M1 g ∧ M2 g := by
  induction g with
  | zero =>
    refine ⟨?_, ?_, ?_, ?_, ?_⟩
    · intro d b r h; simp [value] at h
    · intro d b r h; simp [elements] at h
    · intro d b r2 r h; simp [value] at h
    · intro d b r h; simp [members] at h
    · intro d b r2 r3 r4 r _ _ h; simp [value] at h
  | succ g ih =>
    obtain ⟨_, hE1, hE2, hM1, hM2⟩ := ih
    have hV := tv_step hE1 hM1
    exact ⟨hV, e1_step hE2, e2_step hV hE2, m1_step hM2, m2_step hV hM2⟩

/-- every text matched by `value` has a token stream, with the same remainder -/
theorem tokValue_of_value {f d : Nat} {b r : Bytes} (h : value f d b = some r) (dep i : Nat) :
    ∃ ts, tokValue f dep i b = some (ts, r) := (all_T f).1 d b r h dep i

/-- `tokensOf` is defined on every document that `encoding/json.Valid` accepts -/
theorem tokensOf_of_validStd (b : Bytes) (h : validStd b = true) : ∃ ts, tokensOf b = some ts := by
  unfold validStd at h
  cases hv : value (3 * b.length + 8) 10000 (ws b) with
  | none => rw [hv] at h; cases h
  | some r =>
    rw [hv] at h
    obtain ⟨ts, hts⟩ := tokValue_of_value hv 0 0
    refine ⟨ts, ?_⟩
    simp only [tokensOf, hts, Option.bind_some]
    simp only at h
    simp [h]

end Enc.Lemmas.JsonRawEmitTok
