import Enc.Lemmas.JsonDecTypedScalar
/-!
# C02, typed targets, part 3: the specification's productions — unfolding lemmas, projection onto the grammar

`elementsSl / elementsAr / membersMp / membersSt` unfolded with the literal-byte patterns turned into `if`s (same shapes as
`elements_succ_cons` / `members_succ_cons` of JsonGrammar.lean); the grammar is monotone in its fuel; every production of
`valueS` matches exactly the text that the RFC 8259 production matches (`projS_all`), hence returns a proper suffix.
-/
namespace Enc.Lemmas.JsonDecTypedSpecU
open Enc Enc.Model.Json Enc.Model.Json.Typed
open Enc.Lemmas.JsonGrammar Enc.Lemmas.JsonDecAnyBase
open Enc.Spec.Json (valueS elementsSl elementsAr membersMp membersSt lit ws value elements members number string consumed
  unquoteLit skipS fieldOf valueV)

variable (c : TFlags)

theorem elementsSl_zero (d : Nat) (e : JT) (bk : JVs) (b : Bytes) (first : Bool) : elementsSl c 0 d e bk b first = none := by
  simp [elementsSl]
theorem elementsSl_nil (f d : Nat) (e : JT) (bk : JVs) (first : Bool) : elementsSl c f d e bk [] first = none := by
  cases f <;> simp [elementsSl]

theorem elementsSl_succ_cons (f d : Nat) (e : JT) (bk : JVs) (c0 : UInt8) (r : Bytes) (first : Bool) :
    elementsSl c (f + 1) d e bk (c0 :: r) first =
      if c0 == 0x5d then some ((.nil, bk), false, r)
      else
        (if first then some (c0 :: r) else (if c0 == 0x2c then some (ws r) else none)).bind fun b2 =>
          if isClose b2 then none
          else (valueS c f d e ((bk.head?).getD (zeroOf e)) b2).bind fun x =>
            (elementsSl c f d e bk.tail (ws x.2.2) false).map fun y =>
              ((JVs.cons x.1 y.1.1, y.1.2), x.2.1 || y.2.1, y.2.2) := by
  rw [elementsSl]
  split
  · rfl
  · show Option.bind _ _ = Option.bind _ _
    congr 1
    funext b2
    match b2 with
    | [] => rfl
    | x :: t =>
      by_cases hx : x = 0x5d
      · subst hx; rfl
      · have hx' : (x == 0x5d) = false := by simpa using hx
        simp only [isClose, hx', Bool.false_eq_true, if_false]
        split
        · rename_i t' e'; cases e'; exact absurd rfl hx
        · rfl

theorem elementsAr_zero (d : Nat) (e : JT) (sl : JVs) (b : Bytes) (first : Bool) : elementsAr c 0 d e sl b first = none := by
  simp [elementsAr]
theorem elementsAr_nil (f d : Nat) (e : JT) (sl : JVs) (first : Bool) : elementsAr c f d e sl [] first = none := by
  cases f <;> simp [elementsAr]

theorem elementsAr_succ_cons (f d : Nat) (e : JT) (sl : JVs) (c0 : UInt8) (r : Bytes) (first : Bool) :
    elementsAr c (f + 1) d e sl (c0 :: r) first =
      if c0 == 0x5d then some (JVs.replicate (zeroOf e) sl.length, false, r)
      else
        (if first then some (c0 :: r) else (if c0 == 0x2c then some (ws r) else none)).bind fun b2 =>
          if isClose b2 then none
          else
            (match sl with
             | .cons slot rest =>
               (valueS c f d e slot b2).bind fun x =>
                 (elementsAr c f d e rest (ws x.2.2) false).map fun y => (JVs.cons x.1 y.1, x.2.1 || y.2.1, y.2.2)
             | .nil => (value f d b2).bind fun r2 => elementsAr c f d e .nil (ws r2) false) := by
  rw [elementsAr]
  split
  · rfl
  · show Option.bind _ _ = Option.bind _ _
    congr 1
    funext b2
    match b2 with
    | [] => rfl
    | x :: t =>
      by_cases hx : x = 0x5d
      · subst hx; rfl
      · have hx' : (x == 0x5d) = false := by simpa using hx
        simp only [isClose, hx', Bool.false_eq_true, if_false]
        split
        · rename_i t' e'; cases e'; exact absurd rfl hx
        · rfl

theorem membersMp_zero (d : Nat) (e : JT) (m : JMs) (b : Bytes) (first : Bool) : membersMp c 0 d e m b first = none := by
  simp [membersMp]
theorem membersMp_nil (f d : Nat) (e : JT) (m : JMs) (first : Bool) : membersMp c f d e m [] first = none := by
  cases f <;> simp [membersMp]

theorem membersMp_succ_cons (f d : Nat) (e : JT) (m : JMs) (c0 : UInt8) (r : Bytes) (first : Bool) :
    membersMp c (f + 1) d e m (c0 :: r) first =
      if c0 == 0x7d then some (m, false, r)
      else
        (if first then some (c0 :: r) else (if c0 == 0x2c then some (ws r) else none)).bind fun b2 =>
          (string b2).bind fun r2 =>
            colonThenV (fun r3 => (valueS c f d e (zeroOf e) (ws r3)).bind fun x =>
              (membersMp c f d e (m.insert (unquoteLit (consumed b2 r2)) x.1) (ws x.2.2) false).map fun y =>
                (y.1, x.2.1 || y.2.1, y.2.2)) (ws r2) := by
  rw [membersMp]
  split
  · rfl
  · show Option.bind _ _ = Option.bind _ _
    congr 1
    funext b2
    congr 1
    funext r2
    match ws r2 with
    | [] => rfl
    | x :: t =>
      by_cases hx : x = 0x3a
      · subst hx; rfl
      · have hx' : (x == 0x3a) = false := by simpa using hx
        simp only [colonThenV, hx', Bool.false_eq_true, if_false]
        split
        · rename_i t' e'; cases e'; exact absurd rfl hx
        · rfl

theorem membersSt_zero (d : Nat) (fs : JFs) (vals : JVs) (b : Bytes) (first : Bool) : membersSt c 0 d fs vals b first = none := by
  simp [membersSt]
theorem membersSt_nil (f d : Nat) (fs : JFs) (vals : JVs) (first : Bool) : membersSt c f d fs vals [] first = none := by
  cases f <;> simp [membersSt]

theorem membersSt_succ_cons (f d : Nat) (fs : JFs) (vals : JVs) (c0 : UInt8) (r : Bytes) (first : Bool) :
    membersSt c (f + 1) d fs vals (c0 :: r) first =
      if c0 == 0x7d then some (vals, false, r)
      else
        (if first then some (c0 :: r) else (if c0 == 0x2c then some (ws r) else none)).bind fun b2 =>
          (string b2).bind fun r2 =>
            colonThenV (fun r3 =>
              match fieldOf fs (unquoteLit (consumed b2 r2)) with
              | some (idx, ft) =>
                (valueS c f d ft ((vals.get? idx).getD (zeroOf ft)) (ws r3)).bind fun x =>
                  (membersSt c f d fs (vals.set idx x.1) (ws x.2.2) false).map fun y => (y.1, x.2.1 || y.2.1, y.2.2)
              | none =>
                (value f d (ws r3)).bind fun r4 =>
                  (membersSt c f d fs vals (ws r4) false).map fun y => (y.1, c.disallowUnknown || y.2.1, y.2.2)) (ws r2) := by
  rw [membersSt]
  split
  · rfl
  · show Option.bind _ _ = Option.bind _ _
    congr 1
    funext b2
    congr 1
    funext r2
    match ws r2 with
    | [] => rfl
    | x :: t =>
      by_cases hx : x = 0x3a
      · subst hx; rfl
      · have hx' : (x == 0x3a) = false := by simpa using hx
        simp only [colonThenV, hx', Bool.false_eq_true, if_false]
        split
        · rename_i t' e'; cases e'; exact absurd rfl hx
        · rfl

/-! ### the grammar is monotone in its fuel -/

theorem monoF_all (f : Nat) :
    (∀ d b r, value f d b = some r → value (f + 1) d b = some r) ∧
    (∀ d b first r, elements f d b first = some r → elements (f + 1) d b first = some r) ∧
    (∀ d b first r, members f d b first = some r → members (f + 1) d b first = some r) := by
  induction f with
  | zero => refine ⟨?_, ?_, ?_⟩ <;> intros <;> simp_all [value, elements, members]
  | succ f ih =>
    obtain ⟨ihv, ihe, ihm⟩ := ih
    refine ⟨?_, ?_, ?_⟩
    · intro d b r h
      cases b with
      | nil => rw [value_nil] at h; cases h
      | cons c0 t =>
        rw [value_succ_cons] at h ⊢
        split at h
        · rename_i hc
          split at h
          · cases h
          · rename_i h0
            simp only [hc, if_true, Bool.false_eq_true, if_false]
            rw [if_neg h0]
            exact ihm _ _ _ _ h
        rename_i hc1
        split at h
        · rename_i hc
          split at h
          · cases h
          · rename_i h0
            simp only [hc1, hc, if_true, Bool.false_eq_true, if_false]
            rw [if_neg h0]
            exact ihe _ _ _ _ h
        rename_i hc2
        simp only [hc1, hc2, Bool.false_eq_true, if_false]
        exact h
    · intro d b first r h
      cases b with
      | nil => rw [elements_nil] at h; cases h
      | cons c0 t =>
        rw [elements_succ_cons] at h ⊢
        split at h
        · rename_i hc; simp only [hc, if_true]; exact h
        · rename_i hc
          obtain ⟨b2, hb2, h⟩ := bind_some h
          split at h
          · cases h
          · rename_i hcl
            obtain ⟨r2, hv, h⟩ := bind_some h
            have hv' := ihv d b2 r2 hv
            have he' := ihe d (ws r2) false r h
            simp only [hc, Bool.false_eq_true, if_false, hb2, Option.bind_some, hcl, hv', he']
    · intro d b first r h
      cases b with
      | nil => rw [members_nil] at h; cases h
      | cons c0 t =>
        rw [members_succ_cons] at h ⊢
        split at h
        · rename_i hc; simp only [hc, if_true]; exact h
        · rename_i hc
          obtain ⟨b2, hb2, h⟩ := bind_some h
          obtain ⟨r2, hs, h⟩ := bind_some h
          obtain ⟨r3, hr3, h⟩ := colonThen_some h
          obtain ⟨r4, hv, h⟩ := bind_some h
          have hv' := ihv d (ws r3) r4 hv
          have hm' := ihm d (ws r4) false r h
          simp only [hc, Bool.false_eq_true, if_false, hb2, Option.bind_some, hs, hr3, colonThen, beq_self_eq_true, if_true, hv', hm']

theorem value_fuel_succ {f d : Nat} {b r : Bytes} (h : value f d b = some r) : value (f + 1) d b = some r :=
  (monoF_all f).1 d b r h

theorem value_fuel_mono {f f' d : Nat} {b r : Bytes} (hf : f ≤ f') (h : value f d b = some r) : value f' d b = some r := by
  induction hf with
  | refl => exact h
  | step _ ih => exact value_fuel_succ ih

/-! ### first-byte dispatch of the grammar -/

theorem value_n (f d : Nat) (r : Bytes) : value (f + 1) d (0x6e :: r) = lit [0x6e, 0x75, 0x6c, 0x6c] (0x6e :: r) := by
  rw [value_succ_cons]; rfl
theorem value_t (f d : Nat) (r : Bytes) : value (f + 1) d (0x74 :: r) = lit [0x74, 0x72, 0x75, 0x65] (0x74 :: r) := by
  rw [value_succ_cons]; rfl
theorem value_f (f d : Nat) (r : Bytes) : value (f + 1) d (0x66 :: r) = lit [0x66, 0x61, 0x6c, 0x73, 0x65] (0x66 :: r) := by
  rw [value_succ_cons]; rfl
theorem value_q (f d : Nat) (r : Bytes) : value (f + 1) d (0x22 :: r) = string (0x22 :: r) := by
  rw [value_succ_cons]; rfl
theorem value_arr (f d : Nat) (r : Bytes) :
    value (f + 1) d (0x5b :: r) = if d == 0 then none else elements f (d - 1) (ws r) true := by
  rw [value_succ_cons]; rfl
theorem value_obj (f d : Nat) (r : Bytes) :
    value (f + 1) d (0x7b :: r) = if d == 0 then none else members f (d - 1) (ws r) true := by
  rw [value_succ_cons]; rfl
theorem value_num (f d : Nat) (c0 : UInt8) (r : Bytes) (h1 : (c0 == 0x6e) = false) (h2 : (c0 == 0x5b) = false)
    (h3 : (c0 == 0x7b) = false) (h4 : (c0 == 0x22) = false) (h5 : (c0 == 0x74) = false) (h6 : (c0 == 0x66) = false) :
    value (f + 1) d (c0 :: r) = number (c0 :: r) := by
  rw [value_succ_cons]; simp only [h1, h2, h3, h4, h5, h6, Bool.false_eq_true, if_false]

theorem map_third {α : Type} {o : Option Bytes} {g : Bytes → α × Bool × Bytes} {x : α × Bool × Bytes}
    (hg : ∀ r', (g r').2.2 = r') (h : o.map g = some x) : o = some x.2.2 := by
  cases o with
  | none => cases h
  | some r' => simp only [Option.map_some, Option.some.injEq] at h; rw [← h, hg]

theorem map_keep {α β : Type} {o : Option (α × Bool × Bytes)} {g : α × Bool × Bytes → β × Bool × Bytes} {x : β × Bool × Bytes}
    (hg : ∀ y, (g y).2.2 = y.2.2) (h : o.map g = some x) : ∃ y, o = some y ∧ y.2.2 = x.2.2 := by
  cases o with
  | none => cases h
  | some y => simp only [Option.map_some, Option.some.injEq] at h; exact ⟨y, rfl, by rw [← h, hg]⟩

theorem lit_null_head {b r : Bytes} (h : lit Spec.Json.nullLit b = some r) : ∃ t, b = 0x6e :: t := by
  cases b with
  | nil => simp [lit, Spec.Json.nullLit] at h
  | cons c0 t =>
    by_cases hc : c0 = 0x6e
    · exact ⟨t, by rw [hc]⟩
    · exfalso
      have : hasPrefix (c0 :: t) Model.Json.nullLit = false := Enc.Lemmas.JsonDecTypedScalar.hasPrefix_ne hc
      have h' : (if hasPrefix (c0 :: t) Model.Json.nullLit = true then some ((c0 :: t).drop 4) else none) = some r := h
      rw [this] at h'; cases h'

theorem value_of_lit_null {f d : Nat} {b r : Bytes} (h : lit Spec.Json.nullLit b = some r) : value (f + 1) d b = some r := by
  obtain ⟨t, rfl⟩ := lit_null_head h
  rw [value_n]; exact h

/-! ### every production of the typed specification matches the text of the grammar's production -/

theorem projS_all (f : Nat) :
    (∀ d t cur b x, valueS c f d t cur b = some x → value f d b = some x.2.2) ∧
    (∀ d e bk b first x, elementsSl c f d e bk b first = some x → elements f d b first = some x.2.2) ∧
    (∀ d e sl b first x, elementsAr c f d e sl b first = some x → elements f d b first = some x.2.2) ∧
    (∀ d e m b first x, membersMp c f d e m b first = some x → members f d b first = some x.2.2) ∧
    (∀ d fs vals b first x, membersSt c f d fs vals b first = some x → members f d b first = some x.2.2) := by
  induction f with
  | zero =>
    refine ⟨?_, ?_, ?_, ?_, ?_⟩ <;> intros <;> simp_all [valueS, elementsSl, elementsAr, membersMp, membersSt]
  | succ f ih =>
    obtain ⟨ihV, ihSl, ihAr, ihMp, ihSt⟩ := ih
    refine ⟨?_, ?_, ?_, ?_, ?_⟩
    · intro d t cur b x h
      rw [valueS.eq_def] at h
      simp only [] at h
      split at h
      · -- pointer
        split at h
        · exact value_of_lit_null (map_third (by intro _; rfl) h)
        · split at h
          · obtain ⟨y, hy, hx⟩ := map_keep (by intro _; rfl) h
            rw [← hx]; exact value_fuel_succ (ihV _ _ _ _ _ hy)
          · obtain ⟨y, hy, hx⟩ := map_keep (by intro _; rfl) h
            rw [← hx]; exact value_fuel_succ (ihV _ _ _ _ _ hy)
      · -- any
        split at h
        · split at h
          · exact value_of_lit_null (map_third (by intro _; rfl) h)
          · obtain ⟨y, hy, hx⟩ := map_keep (by intro _; rfl) h
            rw [← hx]; exact value_fuel_succ (ihV _ _ _ _ _ hy)
        · obtain ⟨y, hy, hx⟩ := map_keep (by intro _; rfl) h
          rw [← hx]
          have hp := Enc.Lemmas.JsonDecAnyLoc.valueV_proj c.dyn (f + 1) d b
          rw [hy] at hp; exact hp.symm
      · -- the other kinds
        cases b with
        | nil => cases h
        | cons c0 r =>
          simp only [] at h
          by_cases h1 : c0 = 0x6e
          · subst h1
            simp only [show ((0x6e : UInt8) == 110) = true by decide, if_true] at h
            rw [value_n]
            exact map_third (by intro r'; split <;> rfl) h
          have e1 : (c0 == 110) = false := by simpa using h1
          by_cases h2 : c0 = 0x5b
          · subst h2
            simp only [show ((0x5b : UInt8) == 110) = false by decide, show ((0x5b : UInt8) == 91) = true by decide,
              if_true, Bool.false_eq_true, if_false] at h
            split at h
            · split at h
              · cases h
              · rename_i h0
                obtain ⟨y, hy, hx⟩ := map_keep (by intro y; split <;> rfl) h
                rw [value_arr, if_neg h0, ← hx]; exact ihSl _ _ _ _ _ _ hy
            · split at h
              · cases h
              · rename_i h0
                obtain ⟨y, hy, hx⟩ := map_keep (by intro _; rfl) h
                rw [value_arr, if_neg h0, ← hx]; exact ihAr _ _ _ _ _ _ hy
            · exact map_third (by intro _; rfl) h
          have e2 : (c0 == 91) = false := by simpa using h2
          by_cases h3 : c0 = 0x7b
          · subst h3
            simp only [show ((0x7b : UInt8) == 110) = false by decide, show ((0x7b : UInt8) == 91) = false by decide,
              show ((0x7b : UInt8) == 123) = true by decide, if_true, Bool.false_eq_true, if_false] at h
            split at h
            · split at h
              · cases h
              · rename_i h0
                obtain ⟨y, hy, hx⟩ := map_keep (by intro _; rfl) h
                rw [value_obj, if_neg h0, ← hx]; exact ihMp _ _ _ _ _ _ hy
            · split at h
              · cases h
              · rename_i h0
                obtain ⟨y, hy, hx⟩ := map_keep (by intro _; rfl) h
                rw [value_obj, if_neg h0, ← hx]; exact ihSt _ _ _ _ _ _ hy
            · exact map_third (by intro _; rfl) h
          have e3 : (c0 == 123) = false := by simpa using h3
          by_cases h4 : c0 = 0x22
          · subst h4
            simp only [show ((0x22 : UInt8) == 110) = false by decide, show ((0x22 : UInt8) == 91) = false by decide,
              show ((0x22 : UInt8) == 123) = false by decide, show ((0x22 : UInt8) == 34) = true by decide,
              if_true, Bool.false_eq_true, if_false] at h
            rw [value_q]
            exact map_third (by intro r'; repeat' (first | rfl | split)) h
          have e4 : (c0 == 34) = false := by simpa using h4
          by_cases h5 : c0 = 0x74
          · subst h5
            simp only [show ((0x74 : UInt8) == 110) = false by decide, show ((0x74 : UInt8) == 91) = false by decide,
              show ((0x74 : UInt8) == 123) = false by decide, show ((0x74 : UInt8) == 34) = false by decide,
              show ((0x74 : UInt8) == 116) = true by decide, if_true, Bool.false_eq_true, if_false] at h
            rw [value_t]
            exact map_third (by intro r'; split <;> rfl) h
          have e5 : (c0 == 116) = false := by simpa using h5
          by_cases h6 : c0 = 0x66
          · subst h6
            simp only [show ((0x66 : UInt8) == 110) = false by decide, show ((0x66 : UInt8) == 91) = false by decide,
              show ((0x66 : UInt8) == 123) = false by decide, show ((0x66 : UInt8) == 34) = false by decide,
              show ((0x66 : UInt8) == 116) = false by decide, show ((0x66 : UInt8) == 102) = true by decide,
              if_true, Bool.false_eq_true, if_false] at h
            rw [value_f]
            exact map_third (by intro r'; split <;> rfl) h
          have e6 : (c0 == 102) = false := by simpa using h6
          simp only [e1, e2, e3, e4, e5, e6, Bool.false_eq_true, if_false] at h
          rw [value_num f d c0 r e1 e2 e3 e4 e5 e6]
          exact map_third (by intro r'; repeat' (first | rfl | split)) h
    · intro d e bk b first x h
      cases b with
      | nil => rw [elementsSl_nil] at h; cases h
      | cons c0 t =>
        rw [elementsSl_succ_cons] at h
        rw [elements_succ_cons]
        split at h
        · rename_i hc; simp only [hc, if_true]; cases h; rfl
        · rename_i hc
          obtain ⟨b2, hb2, h⟩ := bind_some h
          split at h
          · cases h
          · rename_i hcl
            obtain ⟨y, hv, h⟩ := bind_some h
            obtain ⟨z, hz, hx⟩ := map_keep (by intro _; rfl) h
            have hv' := ihV _ _ _ _ _ hv
            have he' := ihSl _ _ _ _ _ _ hz
            simp only [hc, Bool.false_eq_true, if_false, hb2, Option.bind_some, hcl, hv', he', hx]
    · intro d e sl b first x h
      cases b with
      | nil => rw [elementsAr_nil] at h; cases h
      | cons c0 t =>
        rw [elementsAr_succ_cons] at h
        rw [elements_succ_cons]
        split at h
        · rename_i hc; simp only [hc, if_true]; cases h; rfl
        · rename_i hc
          obtain ⟨b2, hb2, h⟩ := bind_some h
          split at h
          · cases h
          · rename_i hcl
            split at h
            · obtain ⟨y, hv, h⟩ := bind_some h
              obtain ⟨z, hz, hx⟩ := map_keep (by intro _; rfl) h
              have hv' := ihV _ _ _ _ _ hv
              have he' := ihAr _ _ _ _ _ _ hz
              simp only [hc, Bool.false_eq_true, if_false, hb2, Option.bind_some, hcl, hv', he', hx]
            · obtain ⟨r2, hv, h⟩ := bind_some h
              have he' := ihAr _ _ _ _ _ _ h
              simp only [hc, Bool.false_eq_true, if_false, hb2, Option.bind_some, hcl, hv, he']
    · intro d e m b first x h
      cases b with
      | nil => rw [membersMp_nil] at h; cases h
      | cons c0 t =>
        rw [membersMp_succ_cons] at h
        rw [members_succ_cons]
        split at h
        · rename_i hc; simp only [hc, if_true]; cases h; rfl
        · rename_i hc
          obtain ⟨b2, hb2, h⟩ := bind_some h
          obtain ⟨r2, hs, h⟩ := bind_some h
          obtain ⟨r3, hr3, h⟩ := colonThenV_some h
          obtain ⟨y, hv, h⟩ := bind_some h
          obtain ⟨z, hz, hx⟩ := map_keep (by intro _; rfl) h
          have hv' := ihV _ _ _ _ _ hv
          have hm' := ihMp _ _ _ _ _ _ hz
          simp only [hc, Bool.false_eq_true, if_false, hb2, Option.bind_some, hs, hr3, colonThen, beq_self_eq_true, if_true, hv', hm', hx]
    · intro d fs vals b first x h
      cases b with
      | nil => rw [membersSt_nil] at h; cases h
      | cons c0 t =>
        rw [membersSt_succ_cons] at h
        rw [members_succ_cons]
        split at h
        · rename_i hc; simp only [hc, if_true]; cases h; rfl
        · rename_i hc
          obtain ⟨b2, hb2, h⟩ := bind_some h
          obtain ⟨r2, hs, h⟩ := bind_some h
          obtain ⟨r3, hr3, h⟩ := colonThenV_some h
          split at h
          · obtain ⟨y, hv, h⟩ := bind_some h
            obtain ⟨z, hz, hx⟩ := map_keep (by intro _; rfl) h
            have hv' := ihV _ _ _ _ _ hv
            have hm' := ihSt _ _ _ _ _ _ hz
            simp only [hc, Bool.false_eq_true, if_false, hb2, Option.bind_some, hs, hr3, colonThen, beq_self_eq_true, if_true, hv', hm', hx]
          · obtain ⟨r4, hv, h⟩ := bind_some h
            obtain ⟨z, hz, hx⟩ := map_keep (by intro _; rfl) h
            have hm' := ihSt _ _ _ _ _ _ hz
            simp only [hc, Bool.false_eq_true, if_false, hb2, Option.bind_some, hs, hr3, colonThen, beq_self_eq_true, if_true, hv, hm', hx]

theorem valueS_proj {f d : Nat} {t : JT} {cur : JV} {b : Bytes} {x : JV × Bool × Bytes}
    (h : valueS c f d t cur b = some x) : value f d b = some x.2.2 := (projS_all c f).1 d t cur b x h

theorem valueS_sfx {f d : Nat} {t : JT} {cur : JV} {b : Bytes} {x : JV × Bool × Bytes}
    (h : valueS c f d t cur b = some x) : Sfx x.2.2 b := value_sfx (valueS_proj c h)

end Enc.Lemmas.JsonDecTypedSpecU
