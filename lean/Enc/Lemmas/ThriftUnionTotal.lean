import Enc.Lemmas.ThriftUnionTotalPre
import Enc.Lemmas.ThriftUnionWitness
/-!
C08 for the thrift model WITH UNIONS (`Enc.Model.ThriftUnion`), part 2: totality (`np_*`), fuel monotonicity (`*_mono`),
"the budget always suffices" (`*_ne_fuel`), and the entry-point theorems `unmarshalU_total`, `unmarshalU_ne_fuel`,
`unmarshalU_trunc_strict`, `unmarshalU_append_trailing` — for every type, unions nested anywhere, and EVERY byte string.
Port of `ThriftTotalPanic` / `ThriftTotalFuel` / `ThriftTotal` to `decodeU` / `decodeStructU`.
-/
namespace Enc.Lemmas.ThriftUnionTotal
open Enc Enc.Model.Thrift Enc.Lemmas.ThriftPrim Enc.Lemmas.ThriftSkip Enc.Lemmas.ThriftTotal Enc.Lemmas.ThriftUnion

/-! ## (A) the decoder with unions never panics on supported types -/
mutual
/-- the Go kinds `decodeFuncOf` accepts, everywhere inside the type WHERE A DECODER IS BUILT: `decodeFuncStructOf` builds
one for the fields that carry a thrift id only — not for untagged fields and not for the union interface field itself
(type `any`, which `Supported` would reject) -/
def SupportedU : Ty → Bool
  | .bool | .f32 | .f64 | .str | .bytes => true
  | .int k => k.signed
  | .any | .arr _ _ => false
  | .slice t => isU8 t || SupportedU t
  | .map k v => SupportedU k && SupportedU v
  | .struct fs => SupportedUF fs
  | .ptr t => SupportedU t
  | .named _ t => SupportedU t
def SupportedUF : Fields → Bool
  | .nil => true
  | .cons _ tag _ t r => ((parseTag tag).isNone || SupportedU t) && SupportedUF r
end

mutual
/-- `SupportedU` is weaker than `Supported` -/
theorem supportedU_of_supported : (t : Ty) → Supported t = true → SupportedU t = true
  | .bool, _ | .f32, _ | .f64, _ | .str, _ | .bytes, _ => by simp [SupportedU]
  | .int k, h => by simpa [SupportedU, Supported] using h
  | .any, h | .arr _ _, h => by simp [Supported] at h
  | .slice t, h => by
    simp only [Supported, Bool.or_eq_true] at h
    simp only [SupportedU, Bool.or_eq_true]
    exact h.imp id (supportedU_of_supported t)
  | .map k v, h => by
    simp only [Supported, Bool.and_eq_true] at h
    simp only [SupportedU, Bool.and_eq_true]
    exact ⟨supportedU_of_supported k h.1, supportedU_of_supported v h.2⟩
  | .struct fs, h => by
    simp only [Supported] at h
    simp only [SupportedU]
    exact supportedUF_of_supportedF fs h
  | .ptr t, h => by
    simp only [Supported] at h
    simp only [SupportedU]
    exact supportedU_of_supported t h
  | .named _ t, h => by
    simp only [Supported] at h
    simp only [SupportedU]
    exact supportedU_of_supported t h
theorem supportedUF_of_supportedF : (fs : Fields) → SupportedF fs = true → SupportedUF fs = true
  | .nil, _ => by simp [SupportedUF]
  | .cons _ tag _ t r, h => by
    simp only [SupportedF, Bool.and_eq_true] at h
    simp only [SupportedUF, Bool.and_eq_true, Bool.or_eq_true]
    exact ⟨Or.inr (supportedU_of_supported t h.1), supportedUF_of_supportedF r h.2⟩
end

theorem supportedU_go : (fs : Fields) → (pos : Nat) → SupportedUF fs = true →
    ∀ d ∈ fieldDescs.go fs pos, SupportedU d.ty = true
  | .nil, pos, _ => by intro d hd; simp [fieldDescs.go] at hd
  | .cons n tag e t rest, pos, h => by
    intro d hd
    simp only [SupportedUF, Bool.and_eq_true, Bool.or_eq_true] at h
    rw [go_cons] at hd
    cases hp : parseTag tag with
    | none => rw [hp] at hd; exact supportedU_go rest _ h.2 d hd
    | some r =>
      obtain ⟨id, rq, en⟩ := r
      rw [hp] at hd
      rcases List.mem_cons.mp hd with rfl | hd
      · rcases h.1 with h1 | h1
        · simp [hp] at h1
        · exact h1
      · exact supportedU_go rest _ h.2 d hd

theorem supportedU_descs (fs : Fields) (h : SupportedUF fs = true) : ∀ d ∈ fieldDescs fs, SupportedU d.ty = true :=
  supportedU_go fs 0 h

theorem np_structEnd (descs : List FieldDesc) (up : Option Nat) (x : StructOut × Bytes) :
    NP (if descs.any (fun fd => fd.required && !x.1.2.1.contains fd.id) then .err "missingField"
       else
         match up, x.1.2.2 with
         | some u, some k => .ok (.struct (Vals.set x.1.1 u (.ptr (.int k))), x.2)
         | _, _ => .ok (.struct x.1.1, x.2) : R Val) := by
  apply NP.ite (NP.err _)
  split <;> exact NP.ok _

theorem np_decodeU_all (p : Proto) (strict : Bool) : ∀ fuel,
    (∀ d ty b cur, SupportedU ty = true → NP (decodeU p strict d fuel ty b cur)) ∧
    (∀ d et n b acc, SupportedU et = true → NP (decodeListU p strict d fuel et n b acc)) ∧
    (∀ d kt n b acc, SupportedU kt = true → NP (decodeSetU p strict d fuel kt n b acc)) ∧
    (∀ d kt vt n b acc, SupportedU kt = true → SupportedU vt = true → NP (decodeMapU p strict d fuel kt vt n b acc)) ∧
    (∀ d descs zero b vs last num seen lastF, (∀ fd ∈ descs, SupportedU fd.ty = true) →
      NP (decodeStructU p strict d fuel descs zero b vs last num seen lastF)) := by
  intro fuel
  induction fuel with
  | zero =>
    refine ⟨fun d ty b cur _ => ?_, fun d et n b acc _ => ?_, fun d kt n b acc _ => ?_, fun d kt vt n b acc _ _ => ?_,
      fun d descs zero b vs last num seen lastF _ => ?_⟩
    · simp only [decodeU]; exact NP.err _
    · simp only [decodeListU]; exact NP.err _
    · simp only [decodeSetU]; exact NP.err _
    · simp only [decodeMapU]; exact NP.err _
    · simp only [decodeStructU]; exact NP.err _
  | succ fuel ih =>
    obtain ⟨ih1, ih2, ih3, ih4, ih5⟩ := ih
    refine ⟨fun d ty b cur hs => ?_, fun d et n b acc hs => ?_, fun d kt n b acc hs => ?_,
      fun d kt vt n b acc hk hv => ?_, fun d descs zero b vs last num seen lastF hd => ?_⟩
    · cases ty with
      | bool | f32 | f64 | str | bytes =>
        simp only [decodeU]; exact np_decode p strict d (fuel + 1) _ b cur (by rfl)
      | int k =>
        cases k <;> simp [SupportedU, IntKind.signed] at hs <;> simp only [decodeU] <;>
          exact np_decode p strict d (fuel + 1) _ b cur (by rfl)
      | any | arr _ _ => simp [SupportedU] at hs
      | slice et =>
        rw [decodeU_slice]
        by_cases hu : isU8 et = true
        · simp only [hu, if_true]; exact np_decode p strict d (fuel + 1) _ b cur (by simp [Supported, hu])
        · simp only [hu, Bool.false_eq_true, if_false]
          have hs' : SupportedU et = true := by simpa [SupportedU, hu] using hs
          repeat (first | exact ih2 _ _ _ _ _ hs' | exact np_skipN _ _ _ _ _ _ | np_prim)
      | map kt vt =>
        simp only [SupportedU, Bool.and_eq_true] at hs
        simp only [decodeU]
        repeat (first
          | exact ih3 _ _ _ _ _ hs.1 | exact ih4 _ _ _ _ _ _ hs.1 hs.2 | exact np_skipN _ _ _ _ _ _
          | exact np_skipPairs _ _ _ _ _ _ _ | np_prim)
      | struct fs =>
        simp only [SupportedU] at hs
        cases cur with
        | struct vs =>
          rw [decodeU_struct]
          apply NP.ite (NP.err _)
          apply NP.bind (ih5 _ _ _ _ _ _ _ _ _ (supportedU_descs fs hs))
          intro a
          exact np_structEnd (fieldDescs fs) (unionPos fs 0) a
        | _ => simp only [decodeU]; exact NP.ite (NP.err _) (NP.err _)
      | ptr et =>
        simp only [SupportedU] at hs
        cases cur <;> simp only [decodeU] <;> repeat (first | exact ih1 _ _ _ _ hs | np_prim)
      | named nm t' =>
        simp only [SupportedU] at hs
        simp only [decodeU]
        exact ih1 _ _ _ _ hs
    · cases n <;> simp only [decodeListU] <;> repeat (first | exact ih1 _ _ _ _ hs | exact ih2 _ _ _ _ _ hs | np_prim)
    · cases n <;> simp only [decodeSetU] <;> repeat (first | exact ih1 _ _ _ _ hs | exact ih3 _ _ _ _ _ hs | np_prim)
    · cases n <;> simp only [decodeMapU] <;>
        repeat (first | exact ih1 _ _ _ _ hk | exact ih1 _ _ _ _ hv | exact ih4 _ _ _ _ _ _ hk hv | np_prim)
    · rw [decodeStructU_succ]
      apply NP.bind (NP.wrapE _ (np_rField p b))
      intro a
      dsimp only
      apply NP.ite (NP.ite (NP.err _) (NP.ok _))
      cases hfd : findById descs (wrap16 (if a.1.delta = true then a.1.id + last else a.1.id)) with
      | none =>
        dsimp only
        repeat (first | exact np_skip _ _ _ _ _ | exact ih5 _ _ _ _ _ _ _ _ _ hd | np_prim)
      | some fd =>
        have hds : SupportedU fd.ty = true := hd fd (ThriftTotal.findById_mem _ _ _ hfd)
        dsimp only
        apply NP.ite
        · repeat (first | exact np_skip _ _ _ _ _ | exact ih5 _ _ _ _ _ _ _ _ _ hd | np_prim)
        · apply NP.ite
          · exact ih5 _ _ _ _ _ _ _ _ _ hd
          · apply NP.bind
            · apply NP.dont
              apply NP.ite
              · cases baseOf fd.ty <;> dsimp only <;> repeat (first | exact ih1 _ _ _ _ hds | np_prim)
              · exact ih1 _ _ _ _ hds
            · intro _; exact ih5 _ _ _ _ _ _ _ _ _ hd

theorem np_decodeU (p : Proto) (strict : Bool) (d fuel : Nat) (ty : Ty) (b : Bytes) (cur : Val)
    (h : SupportedU ty = true) : NP (decodeU p strict d fuel ty b cur) := (np_decodeU_all p strict fuel).1 d ty b cur h
theorem np_decodeStructU (p : Proto) (strict : Bool) (d fuel : Nat) (descs : List FieldDesc) (zero : Option Vals)
    (b : Bytes) (vs : Vals) (last : Int) (num : Nat) (seen : List Int) (lastF : Option Nat)
    (h : ∀ fd ∈ descs, SupportedU fd.ty = true) :
    NP (decodeStructU p strict d fuel descs zero b vs last num seen lastF) :=
  (np_decodeU_all p strict fuel).2.2.2.2 d descs zero b vs last num seen lastF h

theorem np_unmarshalU (p : Proto) (strict : Bool) (ty : Ty) (b : Bytes) (h : SupportedU ty = true) :
    NP (unmarshalU p strict ty b) := by
  unfold unmarshalU
  have := np_decodeU p strict 0 (4 * b.length + 64 + depth ty) ty b (zeroOf ty) h
  cases hd : decodeU p strict 0 (4 * b.length + 64 + depth ty) ty b (zeroOf ty) with
  | ok vr => dsimp only; split <;> first | exact NP.ok _ | exact NP.err _
  | err e => exact NP.err _
  | panic e => exact absurd hd (this e)

/-! ## monotonicity in the fuel -/
theorem le_structEnd (descs : List FieldDesc) (up : Option Nat) (x : StructOut × Bytes) :
    LE (if descs.any (fun fd => fd.required && !x.1.2.1.contains fd.id) then .err "missingField"
       else
         match up, x.1.2.2 with
         | some u, some k => .ok (.struct (Vals.set x.1.1 u (.ptr (.int k))), x.2)
         | _, _ => .ok (.struct x.1.1, x.2) : R Val)
      (if descs.any (fun fd => fd.required && !x.1.2.1.contains fd.id) then .err "missingField"
       else
         match up, x.1.2.2 with
         | some u, some k => .ok (.struct (Vals.set x.1.1 u (.ptr (.int k))), x.2)
         | _, _ => .ok (.struct x.1.1, x.2) : R Val) := LE.refl _

theorem decodeU_mono_all (p : Proto) (strict : Bool) : ∀ f f', f ≤ f' →
    (∀ d ty b cur, LE (decodeU p strict d f ty b cur) (decodeU p strict d f' ty b cur)) ∧
    (∀ d et n b acc, LE (decodeListU p strict d f et n b acc) (decodeListU p strict d f' et n b acc)) ∧
    (∀ d kt n b acc, LE (decodeSetU p strict d f kt n b acc) (decodeSetU p strict d f' kt n b acc)) ∧
    (∀ d kt vt n b acc, LE (decodeMapU p strict d f kt vt n b acc) (decodeMapU p strict d f' kt vt n b acc)) ∧
    (∀ d descs zero b vs last num seen lastF,
      LE (decodeStructU p strict d f descs zero b vs last num seen lastF)
        (decodeStructU p strict d f' descs zero b vs last num seen lastF)) := by
  intro f
  induction f with
  | zero =>
    intro f' _
    refine ⟨fun d ty b cur => ?_, fun d et n b acc => ?_, fun d kt n b acc => ?_, fun d kt vt n b acc => ?_,
      fun d descs zero b vs last num seen lastF => ?_⟩
    · simp only [decodeU]; exact LE.fuel _
    · simp only [decodeListU]; exact LE.fuel _
    · simp only [decodeSetU]; exact LE.fuel _
    · simp only [decodeMapU]; exact LE.fuel _
    · simp only [decodeStructU]; exact LE.fuel _
  | succ f ih =>
    intro f' hf
    obtain ⟨f', rfl⟩ : ∃ g, f' = g + 1 := ⟨f' - 1, by omega⟩
    obtain ⟨ih1, ih2, ih3, ih4, ih5⟩ := ih f' (by omega)
    have hsk := skip_mono p f f' (by omega)
    have hskN := skipN_mono p f f' (by omega)
    have hskP := skipPairs_mono p f f' (by omega)
    have hdec := decode_mono p strict
    refine ⟨fun d ty b cur => ?_, fun d et n b acc => ?_, fun d kt n b acc => ?_, fun d kt vt n b acc => ?_,
      fun d descs zero b vs last num seen lastF => ?_⟩
    · cases ty with
      | bool | f32 | f64 | str | bytes | any | arr _ _ =>
        simp only [decodeU]; exact hdec d _ _ (by omega) _ b cur
      | int k => cases k <;> simp only [decodeU] <;> exact hdec d _ _ (by omega) _ b cur
      | slice et =>
        rw [decodeU_slice, decodeU_slice]
        apply LE.ite
        · exact hdec d _ _ (by omega) _ b cur
        · repeat (first | exact ih2 _ _ _ _ _ | exact hskN _ _ _ _ | le_step)
      | map kt vt =>
        simp only [decodeU]
        repeat (first | exact ih3 _ _ _ _ _ | exact ih4 _ _ _ _ _ _ | exact hskN _ _ _ _ | exact hskP _ _ _ _ _ | le_step)
      | struct fs =>
        cases cur with
        | struct vs =>
          rw [decodeU_struct, decodeU_struct]
          apply LE.ite (LE.refl _)
          apply LE.bind (ih5 _ _ _ _ _ _ _ _ _)
          intro a
          exact LE.refl _
        | _ => simp only [decodeU]; exact LE.refl _
      | ptr et => cases cur <;> simp only [decodeU] <;> repeat (first | exact ih1 _ _ _ _ | le_step)
      | named nm t' => simp only [decodeU]; exact ih1 _ _ _ _
    · cases n <;> simp only [decodeListU] <;> repeat (first | exact ih1 _ _ _ _ | exact ih2 _ _ _ _ _ | le_step)
    · cases n <;> simp only [decodeSetU] <;> repeat (first | exact ih1 _ _ _ _ | exact ih3 _ _ _ _ _ | le_step)
    · cases n <;> simp only [decodeMapU] <;> repeat (first | exact ih1 _ _ _ _ | exact ih4 _ _ _ _ _ _ | le_step)
    · rw [decodeStructU_succ, decodeStructU_succ]
      apply LE.bind (LE.refl _)
      intro a
      dsimp only
      apply LE.ite (LE.refl _)
      cases findById descs (wrap16 (if a.1.delta = true then a.1.id + last else a.1.id)) with
      | none =>
        dsimp only
        repeat (first | exact hsk _ _ _ | exact ih5 _ _ _ _ _ _ _ _ _ | le_step)
      | some fd =>
        dsimp only
        apply LE.ite
        · repeat (first | exact hsk _ _ _ | exact ih5 _ _ _ _ _ _ _ _ _ | le_step)
        · apply LE.ite
          · exact ih5 _ _ _ _ _ _ _ _ _
          · apply LE.bind
            · apply LE.dont
              apply LE.ite
              · cases baseOf fd.ty <;> dsimp only <;> repeat (first | exact ih1 _ _ _ _ | le_step)
              · exact ih1 _ _ _ _
            · intro _; exact ih5 _ _ _ _ _ _ _ _ _

theorem decodeU_mono (p : Proto) (strict : Bool) (d f f' : Nat) (h : f ≤ f') (ty : Ty) (b : Bytes) (cur : Val) :
    LE (decodeU p strict d f ty b cur) (decodeU p strict d f' ty b cur) :=
  (decodeU_mono_all p strict f f' h).1 d ty b cur

/-! ## enough fuel -/
theorem decodeU_nf_all (p : Proto) (strict : Bool) : ∀ F,
    (∀ d ty b cur, depth ty + 2 * b.length + 2 ≤ F → NFL b.length (decodeU p strict d F ty b cur)) ∧
    (∀ d et n b acc, depth et + 2 * b.length + 3 ≤ F → NFL (b.length + 1) (decodeListU p strict d F et n b acc)) ∧
    (∀ d kt n b acc, depth kt + 2 * b.length + 3 ≤ F → NFL (b.length + 1) (decodeSetU p strict d F kt n b acc)) ∧
    (∀ d kt vt n b acc, depth kt + 2 * b.length + 3 ≤ F → depth vt + 2 * b.length + 3 ≤ F →
      NFL (b.length + 1) (decodeMapU p strict d F kt vt n b acc)) ∧
    (∀ d descs zero b vs last num seen lastF D, (∀ fd ∈ descs, depth fd.ty ≤ D) → D + 2 * b.length + 2 ≤ F →
      NFL b.length (decodeStructU p strict d F descs zero b vs last num seen lastF)) := by
  intro F
  induction F with
  | zero =>
    refine ⟨fun d ty b cur h => ?_, fun d et n b acc h => ?_, fun d kt n b acc h => ?_, fun d kt vt n b acc h _ => ?_,
      fun d descs zero b vs last num seen lastF D _ h => ?_⟩ <;> omega
  | succ F ih =>
    obtain ⟨ih1, ih2, ih3, ih4, ih5⟩ := ih
    have hskip := (skip_nf_all p F).1
    have hskipN := (skip_nf_all p F).2.1
    have hskipP := (skip_nf_all p F).2.2.1
    have hdec := (decode_nf_all p strict (F + 1)).1
    refine ⟨fun d ty b cur h => ?_, fun d et n b acc h => ?_, fun d kt n b acc h => ?_,
      fun d kt vt n b acc hk hv => ?_, fun d descs zero b vs last num seen lastF D hD h => ?_⟩
    · cases ty with
      | bool | f32 | f64 | str | bytes | any | arr _ _ =>
        simp only [decodeU]; exact hdec d _ b cur h
      | int k => cases k <;> simp only [decodeU] <;> exact hdec d _ b cur h
      | slice et =>
        rw [decodeU_slice]
        apply NFL.ite
        · exact hdec d _ b cur h
        · simp only [depth] at h
          apply NFL.bind (nfl_rList p b)
          intro a r hr
          dsimp only
          apply NFL.ite
          · apply NFL.ite
            · exact NFL.err _ (by decide)
            · apply NFL.bind (hskipN _ _ _ r (by omega))
              intro a' r' hr'
              dsimp only
              exact NFL.ok _ _ (by omega)
          · apply NFL.ite (NFL.err _ (by decide))
            exact (ih2 _ _ _ r _ (by omega)).mono (by omega)
      | map kt vt =>
        simp only [decodeU]
        simp only [depth] at h
        apply NFL.ite
        · apply NFL.bind (nfl_rList p b)
          intro a r hr
          dsimp only
          apply NFL.ite
          · exact NFL.ok _ _ (by omega)
          · apply NFL.ite
            · apply NFL.ite
              · exact NFL.err _ (by decide)
              · apply NFL.bind (hskipN _ _ _ r (by omega))
                intro a' r' hr'
                dsimp only
                exact NFL.ok _ _ (by omega)
            · apply NFL.ite (NFL.err _ (by decide))
              exact (ih3 _ _ _ r _ (by omega)).mono (by omega)
        · apply NFL.bind (nfl_rMap p b)
          intro a r hr
          dsimp only
          apply NFL.ite
          · exact NFL.ok _ _ (by omega)
          · apply NFL.ite
            · apply NFL.ite
              · exact NFL.err _ (by decide)
              · apply NFL.bind (hskipP _ _ _ _ r (by omega))
                intro a' r' hr'
                dsimp only
                exact NFL.ok _ _ (by omega)
            · apply NFL.ite
              · apply NFL.ite
                · exact NFL.err _ (by decide)
                · apply NFL.bind (hskipP _ _ _ _ r (by omega))
                  intro a' r' hr'
                  dsimp only
                  exact NFL.ok _ _ (by omega)
              · apply NFL.ite (NFL.err _ (by decide))
                exact (ih4 _ _ _ _ r _ (by omega) (by omega)).mono (by omega)
      | struct fs =>
        simp only [depth] at h
        cases cur with
        | struct vs =>
          rw [decodeU_struct]
          apply NFL.ite (NFL.err _ (by decide))
          apply NFL.bind (ih5 _ _ _ b _ _ _ _ _ (depthFields fs) (depth_descs fs) (by omega))
          intro a r hr
          dsimp only
          apply NFL.ite
          · exact NFL.err _ (by decide)
          · split <;> exact NFL.ok _ _ (by omega)
        | _ =>
          simp only [decodeU]
          exact NFL.ite (NFL.err _ (by decide)) (NFL.err _ (by decide))
      | ptr et =>
        simp only [depth] at h
        cases cur <;> simp only [decodeU] <;>
          (apply NFL.bind (ih1 _ _ b _ (by omega)); intro a r hr; exact NFL.ok _ _ (by omega))
      | named nm t' =>
        simp only [depth] at h
        simp only [decodeU]
        exact ih1 _ _ b _ (by omega)
    · cases n <;> simp only [decodeListU]
      · exact NFL.ok _ _ (by omega)
      · apply NFL.bind (ih1 _ _ b _ (by omega)).dont
        intro a r hr
        exact (ih2 _ _ _ r _ (by omega)).mono (by omega)
    · cases n <;> simp only [decodeSetU]
      · exact NFL.ok _ _ (by omega)
      · apply NFL.bind (ih1 _ _ b _ (by omega)).dont
        intro a r hr
        exact (ih3 _ _ _ r _ (by omega)).mono (by omega)
    · cases n <;> simp only [decodeMapU]
      · exact NFL.ok _ _ (by omega)
      · apply NFL.bind (ih1 _ _ b _ (by omega)).dont
        intro a r hr
        dsimp only
        apply NFL.bind (ih1 _ _ r _ (by omega)).dont
        intro a' r' hr'
        exact (ih4 _ _ _ _ r' _ (by omega) (by omega)).mono (by omega)
    · rw [decodeStructU_succ]
      apply NFL.bind (nfl_wrapE_rField p _ b)
      intro hd r hr
      dsimp only
      apply NFL.ite
      · exact NFL.ite (NFL.err _ (by decide)) (NFL.ok _ _ (by omega))
      · have next : ∀ r' vs' id seen' lastF', r'.length ≤ r.length →
            NFL b.length (decodeStructU p strict d F descs zero r' vs' id (num + 1) seen' lastF') :=
          fun r' vs' id seen' lastF' hr' =>
            (ih5 d descs zero r' vs' id (num + 1) seen' lastF' D hD (by omega)).mono (by omega)
        cases hfd : findById descs (wrap16 (if hd.delta = true then hd.id + last else hd.id)) with
        | none =>
          dsimp only
          apply NFL.bind (n := r.length + 1)
          · apply NFL.dont
            apply NFL.ite
            · exact NFL.ok _ _ (by omega)
            · exact (hskip _ _ r (by omega)).mono (by omega)
          · intro a r' hr'
            exact next r' _ _ _ _ (by omega)
        | some fd =>
          have hdd : depth fd.ty ≤ D := hD fd (ThriftTotal.findById_mem _ _ _ hfd)
          dsimp only
          apply NFL.ite
          · apply NFL.ite
            · exact NFL.err _ (by decide)
            · apply NFL.bind (n := r.length + 1)
              · apply NFL.dont
                apply NFL.ite
                · exact NFL.ok _ _ (by omega)
                · exact (hskip _ _ r (by omega)).mono (by omega)
              · intro a r' hr'
                exact next r' _ _ _ _ (by omega)
          · apply NFL.ite
            · exact next r _ _ _ _ (by omega)
            · apply NFL.bind (n := r.length)
              · apply NFL.dont
                apply NFL.ite
                · cases baseOf fd.ty <;> dsimp only <;>
                    first
                      | exact ih1 _ _ r _ (by omega)
                      | (apply NFL.bind (nfl_rI32 p r); intro a r' hr'; exact NFL.ok _ _ (by omega))
                · exact ih1 _ _ r _ (by omega)
              · intro a r' hr'
                exact next r' _ _ _ _ (by omega)

theorem decodeU_ne_fuel (p : Proto) (strict : Bool) (d F : Nat) (ty : Ty) (b : Bytes) (cur : Val)
    (h : depth ty + 2 * b.length + 2 ≤ F) : decodeU p strict d F ty b cur ≠ .err "fuel" :=
  ((decodeU_nf_all p strict F).1 d ty b cur h).1

/-! ## the entry point -/

/-- **totality with unions**: `SupportedU` asks for supported kinds at the fields that carry an id only (the union interface
field, of type `any`, and untagged fields are exempt: Go builds no decoder for them) — a struct with a union field, members
of any supported type, nested anywhere (in lists, maps, other unions' members) is covered -/
theorem unmarshalU_total (p : Proto) (strict : Bool) (ty : Ty) (b : Bytes) (e : String) (h : SupportedU ty = true) :
    unmarshalU p strict ty b ≠ .panic e := np_unmarshalU p strict ty b h e

theorem unmarshalU_ne_fuel (p : Proto) (strict : Bool) (ty : Ty) (b : Bytes) :
    unmarshalU p strict ty b ≠ .err "fuel" := by
  have := decodeU_ne_fuel p strict 0 (4 * b.length + 64 + depth ty) ty b (zeroOf ty) (by omega)
  unfold unmarshalU
  cases hd : decodeU p strict 0 (4 * b.length + 64 + depth ty) ty b (zeroOf ty) with
  | ok vr => dsimp only; split <;> simp
  | err e => rw [hd] at this; simpa using this
  | panic e => simp

theorem decodeU_consumes {p : Proto} {strict : Bool} {d fuel : Nat} {ty : Ty} {b : Bytes} {cur v : Val} {r : Bytes}
    (h : decodeU p strict d fuel ty b cur = .ok (v, r)) : (∃ x, b = x ++ r) ∧ r.length < b.length :=
  ⟨((pre_decodeU p strict d fuel ty cur).suffix h).1, (pre_decodeU p strict d fuel ty cur).consumes h⟩

theorem decodeU_local {p : Proto} {strict : Bool} {d fuel : Nat} {ty : Ty} {x r : Bytes} {cur v : Val}
    (h : decodeU p strict d fuel ty (x ++ r) cur = .ok (v, r)) (r' : Bytes) :
    decodeU p strict d fuel ty (x ++ r') cur = .ok (v, r') :=
  (pre_decodeU p strict d fuel ty cur).local h r'

/-- truncation, decoder level, exact class, every type (unions included), every input -/
theorem decodeU_trunc_strict {p : Proto} {strict : Bool} {d fuel : Nat} {ty : Ty} {b : Bytes} {cur v : Val} {r : Bytes}
    (h : decodeU p strict d fuel ty b cur = .ok (v, r)) (k : Nat) (hk : k < b.length - r.length) :
    decodeU p strict d fuel ty (b.take k) cur = .err (if k = 0 then "eof" else "unexpectedEof") :=
  (pre_decodeU p strict d fuel ty cur).truncS h k hk

/-- the union struct loop: a cut anywhere — also right after a complete member, where the struct has just been reset and
`lastField` set — is an EOF-class error, never a half-built union -/
theorem decodeStructU_trunc {p : Proto} {strict : Bool} {d fuel : Nat} {descs : List FieldDesc} {zero : Option Vals}
    {vs : Vals} {last : Int} {num : Nat} {seen : List Int} {lastF : Option Nat} {b r : Bytes} {o : StructOut}
    (h : decodeStructU p strict d fuel descs zero b vs last num seen lastF = .ok (o, r)) (k : Nat)
    (hk : k < b.length - r.length) :
    decodeStructU p strict d fuel descs zero (b.take k) vs last num seen lastF =
      .err (if k = 0 ∧ num = 0 then "eof" else "unexpectedEof") := by
  obtain ⟨e, he, hp⟩ := (pre_decodeStructU p strict d fuel descs zero vs last num seen lastF).trunc h k hk
  rw [he]
  unfold PStruct at hp
  by_cases hn : num = 0
  · simp only [hn, if_true] at hp
    unfold PS at hp
    by_cases hk0 : k = 0 <;> simp [hp, hk0, hn]
  · simp only [hn, if_false] at hp
    unfold PU at hp
    simp [hp, hn]

theorem unmarshalU_ok_iff (p : Proto) (strict : Bool) (ty : Ty) (b : Bytes) (v : Val) :
    unmarshalU p strict ty b = .ok v ↔
      decodeU p strict 0 (4 * b.length + 64 + depth ty) ty b (zeroOf ty) = .ok (v, []) := by
  unfold unmarshalU
  cases hd : decodeU p strict 0 (4 * b.length + 64 + depth ty) ty b (zeroOf ty) with
  | ok vr =>
    obtain ⟨v', r⟩ := vr
    cases r with
    | nil => simp
    | cons _ _ => simp
  | err e => simp
  | panic e => simp

theorem unmarshalU_trailing (p : Proto) (strict : Bool) (ty : Ty) (b : Bytes) (fuel : Nat) (v : Val) (r : Bytes)
    (h : decodeU p strict 0 fuel ty b (zeroOf ty) = .ok (v, r)) (hr : r ≠ []) :
    unmarshalU p strict ty b = .err "trailing" := by
  have hnf := decodeU_ne_fuel p strict 0 (4 * b.length + 64 + depth ty) ty b (zeroOf ty) (by omega)
  have hown : decodeU p strict 0 (4 * b.length + 64 + depth ty) ty b (zeroOf ty) = .ok (v, r) := by
    rcases Nat.le_total fuel (4 * b.length + 64 + depth ty) with hle | hle
    · have := (decodeU_mono p strict 0 _ _ hle ty b (zeroOf ty)).eq (by rw [h]; intro h'; cases h')
      rw [this, h]
    · have := (decodeU_mono p strict 0 _ _ hle ty b (zeroOf ty)).eq hnf
      rw [← this, h]
  unfold unmarshalU
  rw [hown]
  cases r with
  | nil => exact absurd rfl hr
  | cons _ _ => rfl

/-- a good message followed by anything is rejected as `"trailing"` -/
theorem unmarshalU_append_trailing (p : Proto) (strict : Bool) (ty : Ty) (b extra : Bytes) (v : Val)
    (h : unmarshalU p strict ty b = .ok v) (he : extra ≠ []) :
    unmarshalU p strict ty (b ++ extra) = .err "trailing" := by
  rw [unmarshalU_ok_iff] at h
  have h1 : decodeU p strict 0 (4 * b.length + 64 + depth ty) ty (b ++ extra) (zeroOf ty) = .ok (v, extra) :=
    decodeU_local (x := b) (r := []) (by simpa using h) extra
  exact unmarshalU_trailing p strict ty _ _ v extra h1 he

/-- **truncation at the entry point, exact class, every type incl. unions, no side condition** -/
theorem unmarshalU_trunc_strict (p : Proto) (strict : Bool) (ty : Ty) (b : Bytes) (v : Val)
    (h : unmarshalU p strict ty b = .ok v) (k : Nat) (hk : k < b.length) :
    unmarshalU p strict ty (b.take k) = .err (if k = 0 then "eof" else "unexpectedEof") := by
  rw [unmarshalU_ok_iff] at h
  have he := decodeU_trunc_strict h k (by simpa using hk)
  have hlen : (b.take k).length = k := by simp; omega
  have hle := decodeU_mono p strict 0 (4 * (b.take k).length + 64 + depth ty) (4 * b.length + 64 + depth ty)
    (by rw [hlen]; omega) ty (b.take k) (zeroOf ty)
  have hnf := decodeU_ne_fuel p strict 0 (4 * (b.take k).length + 64 + depth ty) ty (b.take k) (zeroOf ty) (by omega)
  have h2 := hle.eq hnf
  unfold unmarshalU
  rw [← h2, he]

/-- **truncation of what `Marshal` writes for a union** (hypotheses of `union_round_trip`: exactly one member emitted, zero
valued or not, of the proved universe): every proper prefix of the bytes is rejected with the exact EOF class and the
bytes followed by anything are rejected as `"trailing"` -/
theorem union_marshal_trunc (p : Proto) (strict : Bool) (fs : Fields) (vs : Vals) (u k : Nat) (tag : String)
    (t : Ty) (x : Val) (id : Int) (rq en : Bool)
    (hu : unionPos fs 0 = some u)
    (hq : othersQuiet (zeroMember fs vs) k fs vs 0 = true)
    (hk : fieldAt fs vs k = some (tag, t, x))
    (he : emittedU (zeroMember fs vs) k tag t x = some (id, en))
    (hid : 1 ≤ id ∧ id ≤ 32767) (hreal : isReal (typeOf t) = true)
    (hfind : findById (fieldDescs fs) id = some { pos := k, id := id, required := rq, enum := en, ty := t })
    (hreq : ∀ fd ∈ fieldDescs fs, fd.required = true → fd.id = id)
    (hty : tyAt fs k = some t)
    (hnu : noUnion t = true) (hx : Enc.Lemmas.ThriftRoundTrip.RTS t x = true)
    (hen : Enc.Lemmas.ThriftRoundTrip.enumTyOK en t = true)
    (hd : 1 + nest t ≤ Gen.c_thrift_maxDepth) :
    ∃ bytes, marshalU p (.struct fs) (.struct vs) = .ok bytes ∧ 0 < bytes.length ∧
      (∀ j, j < bytes.length →
        unmarshalU p strict (.struct fs) (bytes.take j) = .err (if j = 0 then "eof" else "unexpectedEof")) ∧
      (∀ extra, extra ≠ [] → unmarshalU p strict (.struct fs) (bytes ++ extra) = .err "trailing") := by
  obtain ⟨bytes, hm, hun⟩ := union_round_trip p strict fs vs u k tag t x id rq en hu hq hk he hid hreal hfind hreq hty hnu
    hx hen hd
  refine ⟨bytes, hm, ?_, fun j hj => unmarshalU_trunc_strict p strict _ bytes _ hun j hj,
    fun extra hx' => unmarshalU_append_trailing p strict _ bytes extra _ hun hx'⟩
  have := (decodeU_consumes ((unmarshalU_ok_iff p strict _ bytes _).mp hun)).2
  omega

/-! ## non-vacuity on concrete union types (`Witness.U`: two int32 members, a pointer member, an untagged field; `Witness.W`:
a union whose member is a union): the hypotheses hold, the old predicate `Supported` does not; `Unmarshal` accepts several
members on the wire (last wins) and rejects EVERY proper prefix with the exact class, trailing bytes with `"trailing"` -/
section Witness
open Enc.Lemmas.ThriftUnion.Witness

#guard SupportedU U && SupportedU V && SupportedU W && !Supported U && !Supported V && !noUnion W
#guard SupportedU (.slice W) && SupportedU (.map .str (.ptr W))

def outcome (r : Res Val) : String := match r with | .ok v => "ok:" ++ v.show | .err e => "err:" ++ e | .panic e => "panic:" ++ e
/-- every proper prefix of `b` is rejected with the class the theorem states -/
def allPrefixesRejected (p : Proto) (strict : Bool) (ty : Ty) (b : Bytes) : Bool :=
  (List.range b.length).all fun k => outcome (unmarshalU p strict ty (b.take k)) == (if k = 0 then "err:eof" else "err:unexpectedEof")

-- A = true (11), B = 3 (15 06), C = "x" (18 01 78), stop: three members, the last one wins
#guard outcome (unmarshalU .compact false U [0x11, 0x15, 0x06, 0x18, 0x01, 0x78, 0x00]) == "ok:t 7 b0 i 0 s 78 i 0 nil i 0 p i 2"
#guard allPrefixesRejected .compact false U [0x11, 0x15, 0x06, 0x18, 0x01, 0x78, 0x00]
#guard allPrefixesRejected .compact true U [0x11, 0x15, 0x06, 0x18, 0x01, 0x78, 0x00]
#guard outcome (unmarshalU .compact false U [0x11, 0x15, 0x06, 0x18, 0x01, 0x78, 0x00, 0x00]) == "err:trailing"
-- a union inside a union, binary protocol: the encoder's output and all its prefixes
#guard protos.all fun p =>
  match marshalU p W (.struct (mk [.ptr (.int 1), .struct vC0, .str []])) with
  | .ok b => (outcome (unmarshalU p true W b)).startsWith "ok:" && allPrefixesRejected p true W b && 3 < b.length
  | _ => false
end Witness

#print axioms unmarshalU_total
#print axioms unmarshalU_ne_fuel
#print axioms unmarshalU_trunc_strict
#print axioms unmarshalU_append_trailing
#print axioms union_marshal_trunc

end Enc.Lemmas.ThriftUnionTotal
