import Enc.Lemmas.ProtoTemplateSpecMore
import Enc.Lemmas.ProtoMapKeys
/-!
# Building blocks for the MAP class of the bridge (`ProtoTemplateBridge.lean`):
the rewriter side builds a map value with `mapPut` (`mapVal`), the specification lists the entries in member order
(`tmplEntries`); with distinct keys `mapPut` only appends, and the comparison form of a map value is determined by the
comparison forms of its entries.
-/
namespace Enc.Lemmas.ProtoTemplate
open Enc Enc.Spec.Protobuf Enc.Lemmas.ProtoSpecFuel
open Enc.Model.Json (GV GVs GMs)
open Enc.Spec.ProtoTemplate (norm normPresence normPresenceVals isDefault)

/-- the flat key/value list of a map value -/
def pairsFlat : List (Val × Val) → Vals
  | [] => .nil
  | (k, v) :: r => .cons k (.cons v (pairsFlat r))

/-- a new key is appended -/
theorem mapPut_append : ∀ (ps : List (Val × Val)) (k v : Val), (∀ p, p ∈ ps → (p.1.show == k.show) = false) →
    mapPut (pairsFlat ps) k v = pairsFlat (ps ++ [(k, v)])
  | [], _, _, _ => by simp [pairsFlat, mapPut]
  | (k0, v0) :: r, k, v, h => by
    have h0 := h (k0, v0) (by simp)
    simp only at h0
    simp only [pairsFlat, mapPut, h0, Bool.false_eq_true, if_false, List.cons_append]
    rw [mapPut_append r k v (fun p hp => h p (by simp [hp]))]

/-- with pairwise distinct keys (as `show` compares them) the fold of `mapPut` lists the entries in order -/
theorem mapPut_fold : ∀ (es : List Vals) (acc : List (Val × Val)),
    ((acc ++ es.map fun e => (valsGet e 0, valsGet e 1)).Pairwise fun p q => (p.1.show == q.1.show) = false) →
    es.foldl (fun m e => mapPut m (valsGet e 0) (valsGet e 1)) (pairsFlat acc)
      = pairsFlat (acc ++ es.map fun e => (valsGet e 0, valsGet e 1))
  | [], acc, _ => by simp
  | e :: es, acc, h => by
    simp only [List.foldl_cons, List.map_cons]
    rw [mapPut_append acc _ _ (fun p hp => by
      have := List.pairwise_append.1 h
      exact this.2.2 p hp (valsGet e 0, valsGet e 1) (by simp))]
    have := mapPut_fold es (acc ++ [(valsGet e 0, valsGet e 1)]) (by simpa using h)
    simpa using this

theorem mapVal_eq (evss : List Vals)
    (h : (evss.map fun e => (valsGet e 0, valsGet e 1)).Pairwise fun p q => (p.1.show == q.1.show) = false) :
    mapVal evss = match evss with
      | [] => .nil
      | _ :: _ => .map (pairsFlat (evss.map fun e => (valsGet e 0, valsGet e 1))) := by
  cases evss with
  | nil => rfl
  | cons e es =>
    simp only [mapVal]
    have := mapPut_fold (e :: es) [] (by simpa using h)
    simp only [pairsFlat, List.nil_append] at this
    rw [this]

/-- comparison form of the entries of a map value, entry by entry -/
theorem canon_pairsFlat (kt vt : Ty) : ∀ ps : List (Val × Val),
    canonVals (canonTyMap kt vt (normPresenceVals (pairsFlat ps)))
      = pairsFlat (ps.map fun p => (norm kt p.1, norm vt p.2))
  | [] => by simp [pairsFlat, normPresenceVals, canonTyMap, canonVals]
  | (k, v) :: r => by
    simp only [pairsFlat, normPresenceVals, canonTyMap, canonVals, List.map_cons, norm, canonical]
    rw [canon_pairsFlat kt vt r]
    simp [norm, canonical]

theorem canonTy_map_unname : ∀ (t kt vt : Ty) (kvs : Vals), unname t = .map kt vt →
    canonTy t (.map kvs) = .map (canonTyMap kt vt kvs)
  | .map k v, kt, vt, kvs, h => by
    simp only [unname, Ty.map.injEq] at h
    obtain ⟨rfl, rfl⟩ := h
    simp [canonTy]
  | .named n t', kt, vt, kvs, h => by
    by_cases hn : n = "RawMessage"
    · subst hn; simp [unname] at h
    · have h' : unname t' = .map kt vt := by simpa only [unname, hn] using h
      have := canonTy_map_unname t' kt vt kvs h'
      simpa [canonTy, hn] using this
  | .bool, _, _, _, h | .int _, _, _, _, h | .f32, _, _, _, h | .f64, _, _, _, h | .str, _, _, _, h
  | .bytes, _, _, _, h | .any, _, _, _, h | .arr _ _, _, _, _, h | .ptr _, _, _, _, h | .slice _, _, _, _, h
  | .struct _, _, _, _, h => by simp [unname] at h

/-- **map values compare entry by entry** (same keys and values up to `norm`, in the same order) -/
theorem norm_map_congr (t kt vt : Ty) (ht : unname t = .map kt vt) (ps qs : List (Val × Val))
    (h : ps.map (fun p => (norm kt p.1, norm vt p.2)) = qs.map (fun p => (norm kt p.1, norm vt p.2))) :
    norm t (.map (pairsFlat ps)) = norm t (.map (pairsFlat qs)) := by
  have e : ∀ xs, norm t (.map (pairsFlat xs)) = canon (.map (canonTyMap kt vt (normPresenceVals (pairsFlat xs)))) := by
    intro xs
    simp only [norm, canonical, normPresence]
    rw [canonTy_map_unname t kt vt _ ht]
  rw [e, e]
  simp only [canon, canon_pairsFlat, h]

theorem canonTy_map_nil : ∀ (t kt vt : Ty), unname t = .map kt vt → canonTy t .nil = .nil
  | .map k v, _, _, _ => by simp [canonTy]
  | .named n t', kt, vt, h => by
    by_cases hn : n = "RawMessage"
    · subst hn; simp [unname] at h
    · have h' : unname t' = .map kt vt := by simpa only [unname, hn] using h
      have := canonTy_map_nil t' kt vt h'
      simpa [canonTy, hn] using this
  | .bool, _, _, h | .int _, _, _, h | .f32, _, _, h | .f64, _, _, h | .str, _, _, h
  | .bytes, _, _, h | .any, _, _, h | .arr _ _, _, _, h | .ptr _, _, _, h | .slice _, _, _, h
  | .struct _, _, _, h => by simp [unname] at h

/-- an absent map and the empty map have the same comparison form -/
theorem norm_map_nil (t kt vt : Ty) (ht : unname t = .map kt vt) : norm t .nil = norm t (.map .nil) := by
  simp only [norm, canonical, normPresence, normPresenceVals]
  rw [canonTy_map_unname t kt vt _ ht, canonTy_map_nil t kt vt ht]
  simp [canon, canonTyMap, canonVals, pairsOf, Vals.toList]

/-- the keys of an object, in member order -/
def gmKeys : GMs → List Bytes
  | .nil => []
  | .cons k _ r => k :: gmKeys r

theorem gmem_of_gmKeys : ∀ (ms : GMs) (k : Bytes), k ∈ gmKeys ms → ∃ jv, GMem k jv ms
  | .nil, _, h => by simp [gmKeys] at h
  | .cons k0 v0 r, k, h => by
    simp only [gmKeys, List.mem_cons] at h
    rcases h with rfl | h
    · exact ⟨v0, .inl ⟨rfl, rfl⟩⟩
    · obtain ⟨jv, hj⟩ := gmem_of_gmKeys r k h
      exact ⟨jv, .inr hj⟩

theorem gmKeys_nodup : ∀ ms : GMs, KeysNodup ms → (gmKeys ms).Pairwise (· ≠ ·)
  | .nil, _ => by simp [gmKeys]
  | .cons k v r, h => by
    simp only [KeysNodup] at h
    simp only [gmKeys, List.pairwise_cons]
    refine ⟨?_, gmKeys_nodup r h.2⟩
    intro k' hk' e
    subst e
    obtain ⟨jv, hj⟩ := gmem_of_gmKeys r k hk'
    exact h.1 jv hj

theorem show_str_ne (s t : Bytes) (h : s ≠ t) : ((Val.str s).show == (Val.str t).show) = false := by
  simp only [beq_eq_false_iff_ne, ne_eq]
  intro e
  simp only [Val.show, String.append_right_inj] at e
  exact h (Enc.Lemmas.ProtoMap.toHex_inj s t e)

/-- distinct string keys are distinct for `mapPut` -/
theorem pairwise_show (evss : List Vals) (ks : List Bytes) (hk : ks.Pairwise (· ≠ ·))
    (h : evss.map (fun e => valsGet e 0) = ks.map Val.str) :
    (evss.map fun e => (valsGet e 0, valsGet e 1)).Pairwise fun p q => (p.1.show == q.1.show) = false := by
  have h1 : (ks.map Val.str).Pairwise (fun a b => (a.show == b.show) = false) := by
    rw [List.pairwise_map]
    exact hk.imp (fun hab => show_str_ne _ _ hab)
  rw [← h, List.pairwise_map] at h1
  rw [List.pairwise_map]
  exact h1

open Enc.Spec.ProtoTemplate in
/-- map field of the specification, inversion -/
theorem tmplField_map_inv (pf : PF) (F : Nat) (t kt vt : Ty) (j : GV) (cur y : Val) (hm : unname t = .map kt vt)
    (h : tmplField pf F t j none cur = some y) :
    ∃ ms' ents F', gvObj j = some ms' ∧ tmplEntries pf F' kt vt ms' = some ents ∧ y = .map ents := by
  match F, h with
  | 0, h => rw [tmplField_zero] at h; cases h
  | F + 1, h =>
    rw [tmplField_succ] at h
    have hr : isRepeated t = none := by simp [isRepeated, hm]
    rw [hr] at h
    simp only [hm] at h
    cases hg : gvObj j with
    | none => rw [hg] at h; cases h
    | some ms' =>
      rw [hg] at h
      simp only [Option.map_eq_some_iff] at h
      obtain ⟨ents, he, e⟩ := h
      exact ⟨ms', ents, F, rfl, he, e.symm⟩

theorem isDefault_map_pairsFlat (qs : List (Val × Val)) : isDefault (.map (pairsFlat qs)) = qs.isEmpty := by
  cases qs with
  | nil => simp [pairsFlat, isDefault]
  | cons p r => obtain ⟨k, v⟩ := p; simp [pairsFlat, isDefault]

#print axioms mapVal_eq
#print axioms norm_map_congr

end Enc.Lemmas.ProtoTemplate
