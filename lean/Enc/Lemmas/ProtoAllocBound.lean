import Enc.Lemmas.ProtoAllocPot
import Enc.Lemmas.ProtoDepthSkip
/-!
# `alloc_bound`: the bytes `proto.Unmarshal` allocates are linear in the input length

Amortised induction over the decoder: with `Phi` the credit held by the slices of the target (ProtoAllocPot),

  decode:        alloc + Phi(result) ≤ Phi(target) + K(c)·(bytes consumed, or len(b) on an error) + K1(c)
  struct loop:   alloc + Phi(result) ≤ Phi(target) + K(fs)·len(b) (+ errWrap + fmtErr on an error)

Every field occurrence consumes its tag byte, which pays for the per-call constant `K1` of the field's decoder
(`CFields.K` is the maximum of `K` and `K1` over the fields).
-/
namespace Enc.Lemmas.ProtoAlloc
open Enc Enc.Model.Proto

/-! ## codecs without slices below them hold no credit -/
def Codec.isLeaf : Codec → Bool
  | .ptr _ | .struct _ | .slice .. => false
  | _ => true

theorem Phi_leaf (c : Codec) (h : Codec.isLeaf c = true) (v : Val) : Phi c v = 0 := by
  cases c <;> simp only [Codec.isLeaf, Bool.false_eq_true] at h <;> cases v <;> simp only [Phi]

mutual
theorem Phi_zero : ∀ c : Codec, Phi c (zeroOfCodec c) = 0
  | .struct fs => by simp only [zeroOfCodec, Phi]; exact PhiF_zero fs
  | .ptr c => by simp only [zeroOfCodec, Phi]
  | .slice .. => by simp only [zeroOfCodec, Phi]
  | .map .. => by simp only [zeroOfCodec, Phi]
  | .bool | .int | .int32 | .int64 | .uint | .uint32 | .uint64 | .fixed32 | .fixed64 | .sfixed32 | .sfixed64
  | .float32 | .float64 | .string | .bytes | .byteArray _ | .message | .unsupported => by
    simp only [zeroOfCodec, Phi]
theorem PhiF_zero : ∀ fs : CFields, PhiF fs (zeroOfCodec.zeroCFields fs) = 0
  | .nil => by simp only [zeroOfCodec.zeroCFields, PhiF]
  | .cons _ _ _ _ c rest => by
    simp only [zeroOfCodec.zeroCFields, PhiF, Phi_zero c, PhiF_zero rest]
end

/-! ## fields by position -/
def nth : CFields → Nat → Option Codec
  | .nil, _ => none
  | .cons _ _ _ _ c _, 0 => some c
  | .cons _ _ _ _ _ rest, i + 1 => nth rest i

theorem lookupField_go_nth (number : Nat) : ∀ (fs : CFields) (i : Nat) (acc r : Option (Nat × Bool × Bool × Codec)),
    lookupField.go number fs i acc = r →
    r = acc ∨ ∃ k e z c, r = some (i + k, e, z, c) ∧ nth fs k = some c
  | .nil, i, acc, r, h => by simp only [lookupField.go] at h; exact Or.inl h.symm
  | .cons n emb rep zz c rest, i, acc, r, h => by
    simp only [lookupField.go] at h
    rcases lookupField_go_nth number rest (i + 1) _ r h with h1 | ⟨k, e, z, c', h1, h2⟩
    · by_cases hn : (n == number) = true
      · rw [if_pos hn] at h1
        exact Or.inr ⟨0, emb, zz, c, by simpa using h1, rfl⟩
      · rw [if_neg hn] at h1; exact Or.inl h1
    · exact Or.inr ⟨k + 1, e, z, c', by rw [h1]; simp only [Option.some.injEq, Prod.mk.injEq, and_true]; omega, h2⟩

theorem lookupField_nth (fs : CFields) (number i : Nat) (emb zz : Bool) (c : Codec)
    (h : lookupField fs number = some (i, emb, zz, c)) : nth fs i = some c := by
  rcases lookupField_go_nth number fs 0 none _ h with h1 | ⟨k, e, z, c', h1, h2⟩
  · simp at h1
  · simp only [Option.some.injEq, Prod.mk.injEq, Nat.zero_add] at h1
    obtain ⟨rfl, _, _, rfl⟩ := h1
    exact h2

theorem nth_K : ∀ (fs : CFields) (i : Nat) (c : Codec), nth fs i = some c →
    Codec.K c ≤ CFields.K fs ∧ Codec.K1 c ≤ CFields.K fs
  | .nil, _, _, h => by simp [nth] at h
  | .cons _ _ _ _ c0 rest, 0, c, h => by
    simp only [nth, Option.some.injEq] at h; subst h
    simp only [CFields.K]; omega
  | .cons _ _ _ _ c0 rest, i + 1, c, h => by
    simp only [nth] at h
    have := nth_K rest i c h
    simp only [CFields.K]; omega

theorem PhiF_get : ∀ (fs : CFields) (vs : Vals) (i : Nat) (c : Codec), nth fs i = some c →
    Phi c (Vals.get vs i) ≤ PhiF fs vs
  | .nil, _, _, _, h => by simp [nth] at h
  | .cons .., .nil, _, c, _ => by simp only [Vals.get, PhiF]; cases c <;> simp only [Phi] <;> omega
  | .cons _ _ _ _ c0 rest, .cons v vs, 0, c, h => by
    simp only [nth, Option.some.injEq] at h; subst h
    simp only [Vals.get, PhiF]; omega
  | .cons _ _ _ _ c0 rest, .cons v vs, i + 1, c, h => by
    simp only [nth] at h
    have := PhiF_get rest vs i c h
    simp only [Vals.get, PhiF]; omega

theorem PhiF_set : ∀ (fs : CFields) (vs : Vals) (i : Nat) (c : Codec) (v : Val), nth fs i = some c →
    PhiF fs (Vals.set vs i v) + Phi c (Vals.get vs i) ≤ PhiF fs vs + Phi c v
  | .nil, _, _, _, _, h => by simp [nth] at h
  | .cons .., .nil, _, c, v, _ => by
    have : Phi c Val.nil = 0 := by cases c <;> simp only [Phi]
    simp only [Vals.get, Vals.set, PhiF, this]; omega
  | .cons _ _ _ _ c0 rest, .cons w vs, 0, c, v, h => by
    simp only [nth, Option.some.injEq] at h; subst h
    simp only [Vals.get, Vals.set, PhiF]; omega
  | .cons _ _ _ _ c0 rest, .cons w vs, i + 1, c, v, h => by
    simp only [nth] at h
    have := PhiF_set rest vs i c v h
    simp only [Vals.get, Vals.set, PhiF]; omega

/-! ## the windows the struct loop carves -/
theorem carve_len (w : Nat) (b1 : Bytes) (lenB off1 : Nat) (emb : Bool) (data : Bytes) (pre : Nat)
    (h : carve w b1 lenB off1 emb = .ok (data, pre)) : pre + data.length ≤ b1.length := by
  unfold carve at h
  split at h
  · cases hv : decodeVarint b1 with
    | ok a =>
      rw [hv] at h; simp only [Res.bind, Res.ok.injEq, Prod.mk.injEq] at h
      obtain ⟨rfl, rfl⟩ := h
      simp only [List.length_take]; omega
    | err e => rw [hv] at h; simp [Res.bind] at h
    | panic e => rw [hv] at h; simp [Res.bind] at h
  · split at h
    · cases hv : decodeVarint b1 with
      | ok a =>
        obtain ⟨l, k⟩ := a
        have hk := Lemmas.ProtoDecode.decodeVarint_consumes b1 l k hv
        rw [hv] at h; simp only [Res.bind] at h
        split at h
        · simp at h
        · split at h
          · simp only [Res.ok.injEq, Prod.mk.injEq] at h
            obtain ⟨rfl, rfl⟩ := h
            simp only [List.length_take, List.length_drop]; omega
          · simp only [Res.ok.injEq, Prod.mk.injEq] at h
            obtain ⟨rfl, rfl⟩ := h
            simp only [List.length_take]; omega
      | err e => rw [hv] at h; simp [Res.bind] at h
      | panic e => rw [hv] at h; simp [Res.bind] at h
    · split at h
      · split at h
        · simp at h
        · simp only [Res.ok.injEq, Prod.mk.injEq] at h
          obtain ⟨rfl, rfl⟩ := h
          simp only [List.length_take]; omega
      · split at h
        · split at h
          · simp at h
          · simp only [Res.ok.injEq, Prod.mk.injEq] at h
            obtain ⟨rfl, rfl⟩ := h
            simp only [List.length_take]; omega
        · simp at h

theorem decodeVarlen_len (b v : Bytes) (n : Nat) (h : decodeVarlen b = .ok (v, n)) : v.length ≤ n := by
  unfold decodeVarlen at h
  split at h
  · split at h
    · simp at h
    · simp only [Res.ok.injEq, Prod.mk.injEq] at h
      obtain ⟨rfl, rfl⟩ := h
      simp only [List.length_take]; omega
  · simp at h
  · simp at h

/-- `a·m + k1 + K·rest ≤ K·len` when `a, k1 ≤ K` and the call's `m` bytes, one tag byte and the rest fit in `len` -/
theorem budget (K a k1 m rest len : Nat) (ha : a ≤ K) (hk : k1 ≤ K) (h : rest + m + 1 ≤ len) :
    a * m + k1 + K * rest ≤ K * len := by
  have h1 : a * m ≤ K * m := Nat.mul_le_mul_right m ha
  have h2 : K * (rest + m + 1) ≤ K * len := Nat.mul_le_mul_left K h
  have h3 : K * (rest + m + 1) = K * rest + K * m + K := by
    rw [Nat.mul_add, Nat.mul_add, Nat.mul_one]
  omega

/-! ## the amortised invariant -/
def usedD (r : Res (Val × Nat)) (len : Nat) : Nat := match r with | .ok (_, n) => n | _ => len
def phiD (c : Codec) (r : Res (Val × Nat)) : Nat := match r with | .ok (v, _) => Phi c v | _ => 0
def phiS (fs : CFields) (r : Res (Vals × Nat)) : Nat := match r with | .ok (vs, _) => PhiF fs vs | _ => 0
def errS (r : Res (Vals × Nat)) : Nat := match r with | .ok _ => 0 | _ => errWrap + fmtErr

theorem phiD_leaf (c : Codec) (h : Codec.isLeaf c = true) (r : Res (Val × Nat)) : phiD c r = 0 := by
  cases r with
  | ok a => exact Phi_leaf c h a.1
  | err e => rfl
  | panic e => rfl

theorem usedD_le (fuel d : Nat) (c : Codec) (b : Bytes) (cur : Val) (fl : Flags) :
    usedD (decode fuel d c b cur fl) b.length ≤ b.length := by
  cases h : decode fuel d c b cur fl with
  | ok a => obtain ⟨v, n⟩ := a; exact Lemmas.ProtoDepth.decode_bound fuel d c b cur fl v n h
  | err e => exact Nat.le_refl _
  | panic e => exact Nat.le_refl _

end Enc.Lemmas.ProtoAlloc
