import Enc.Lemmas.ProtoMapBridge
/-!
# proto map fields, record level: what the model writes = the reference encoding of the records

  * `encodeMap_bytes`   the map encoder loop, given what key and value codec write
  * `field_bytesM / fields_bytesM / fieldsR_bytesM`   the mutual induction of `ProtoWireRec` re-run on `tyOKM`
  * `map_bytes`         a map field: bytes = `encRecs (mapRecsM …)`, `size` = their length
  * `struct_bytesM`     a message: bytes = `encRecs (allRecordsM …)`
  * `allRecordsM_ok / parse_structM`   the reference parser splits those bytes into exactly these records
-/
set_option linter.unusedSimpArgs false
set_option linter.unusedVariables false
namespace Enc.Lemmas.ProtoMap
open Enc Enc.Model.Proto Enc.Spec.Protobuf Enc.Lemmas.ProtoWire

/-! ## one part (key or value) of a map entry -/

/-- the bytes the map encoder writes for the key (n = 1) or the value (n = 2) of an entry -/
def partBytes (n : Nat) (emb : Bool) (c : Codec) (x : Val) : Bytes :=
  if size c x wz > 0 then
    encodeTag n c.wire ++ (if emb then encodeVarint (BitVec.ofNat 64 (size c x wz)) else []) ++ encode c x wz
  else []

theorem partBytes_spec (n : Nat) (p : Option WireVal) (emb : Bool) (c : Codec) (x : Val)
    (h : FieldSpec n p emb c x wz) : partBytes n emb c x = encRecs (optRec n p) := by
  cases p with
  | none =>
    simp only [FieldSpec] at h
    simp [partBytes, h, optRec]
  | some w =>
    simp only [FieldSpec, fieldBytes] at h
    simp [partBytes, h.1, h.2, optRec]

theorem partBytes_length (n : Nat) (hn : n = 1 ∨ n = 2) (emb : Bool) (c : Codec) (x : Val) :
    (partBytes n emb c x).length
      = if size c x wz > 0 then 1 + size c x wz + (if emb then sizeOfVarint (BitVec.ofNat 64 (size c x wz)) else 0)
        else 0 := by
  have ht : sizeOfTag n c.wire = 1 := by
    rcases hn with rfl | rfl
    · exact Lemmas.Proto.sizeOfTag_one _
    · exact Lemmas.Proto.sizeOfTag_two _
  exact Lemmas.Proto.partLen n c.wire emb _ _ ht (Lemmas.Proto.size_eq c x wz)

theorem encodeMap_cons (mapTag : Bytes) (kc vc : Codec) (kEmb vEmb : Bool) (key val : Val) (rest : Vals) :
    encodeMap mapTag kc vc kEmb vEmb (.cons key (.cons val rest))
      = mapTag ++ encodeVarint (BitVec.ofNat 64 (partBytes 1 kEmb kc key ++ partBytes 2 vEmb vc val).length)
          ++ (partBytes 1 kEmb kc key ++ partBytes 2 vEmb vc val) ++ encodeMap mapTag kc vc kEmb vEmb rest := by
  have hl : (partBytes 1 kEmb kc key ++ partBytes 2 vEmb vc val).length
      = entrySize (size kc key wz) (size vc val wz) kEmb vEmb := by
    rw [List.length_append, partBytes_length 1 (.inl rfl), partBytes_length 2 (.inr rfl)]
    rfl
  rw [hl]
  simp only [encodeMap, partBytes, List.append_assoc]

/-- **the map encoder loop**: if the key codec and the value codec write the reference records `fk`, `fv` (or nothing
when there is none), `encodeMap` writes one entry record per pair -/
theorem encodeMap_bytes (num : Nat) (hn : num < 2 ^ 29) (kt vt : Ty) (kc vc : Codec) (kEmb vEmb : Bool)
    (fk fv : Val → Option WireVal)
    (hk : ∀ a, hasTypeM kt a = true → (encode kc a wz).length < 2 ^ 64 → FieldSpec 1 (fk a) kEmb kc a wz)
    (hv : ∀ b, hasTypeM vt b = true → (encode vc b wz).length < 2 ^ 64 → FieldSpec 2 (fv b) vEmb vc b wz) :
    ∀ kvs : Vals, hasTypeMapM kt vt kvs = true →
      (encodeMap (encodeTag num .varlen) kc vc kEmb vEmb kvs).length < 2 ^ 64 →
      encodeMap (encodeTag num .varlen) kc vc kEmb vEmb kvs
        = encRecs (pairRecs (fun a b => (num, .len (encRecs (entryRecs (fk a) (fv b))))) kvs)
  | .nil, _, _ => by simp [encodeMap, pairRecs]
  | .cons _ .nil, h, _ => by simp [hasTypeMapM] at h
  | .cons key (.cons val rest), h, hlen => by
    simp only [hasTypeMapM, Bool.and_eq_true] at h
    rw [encodeMap_cons] at hlen ⊢
    simp only [List.length_append] at hlen
    have hkl : (encode kc key wz).length ≤ (partBytes 1 kEmb kc key).length := by
      rw [partBytes_length 1 (.inl rfl), Lemmas.Proto.size_eq]; split <;> omega
    have hvl : (encode vc val wz).length ≤ (partBytes 2 vEmb vc val).length := by
      rw [partBytes_length 2 (.inr rfl), Lemmas.Proto.size_eq]; split <;> omega
    have h1 := partBytes_spec 1 _ kEmb kc key (hk key h.1.1 (by omega))
    have h2 := partBytes_spec 2 _ vEmb vc val (hv val h.1.2 (by omega))
    have ih := encodeMap_bytes num hn kt vt kc vc kEmb vEmb fk fv hk hv rest h.2 (by omega)
    have hb : encRecs (entryRecs (fk key) (fv val)) = partBytes 1 kEmb kc key ++ partBytes 2 vEmb vc val := by
      simp only [entryRecs, encRecs_append, h1, h2]
    simp only [pairRecs, encRecs_cons]
    rw [hb, ih, rec_varlen num hn _ (by simp only [List.length_append]; omega)]

/-! ## helper equations for the record functions -/

theorem recordsOfM_nil (wz : Bool) (pos : Nat) (vs : Vals) : recordsOfM wz pos .nil vs = [] := by
  cases vs <;> simp [recordsOfM]

theorem recordsRM_nil (pos : Nat) (vs : Vals) : recordsRM pos .nil vs = [] := by
  cases vs <;> simp [recordsRM]

theorem recordsOfM_slice (wz : Bool) (pos : Nat) (name tag : String) (emb : Bool) (e : Ty) (rest : Fields) (v : Val)
    (vs : Vals) :
    recordsOfM wz pos (.cons name tag emb (.slice e) rest) (.cons v vs) = recordsOfM wz (pos + 1) rest vs := by
  simp only [recordsOfM, payloadM]

theorem recordsOfM_map (wz : Bool) (pos : Nat) (name tag : String) (emb : Bool) (k t : Ty) (rest : Fields) (v : Val)
    (vs : Vals) :
    recordsOfM wz pos (.cons name tag emb (.map k t) rest) (.cons v vs) = recordsOfM wz (pos + 1) rest vs := by
  simp only [recordsOfM, payloadM]

theorem recordsRM_plain (pos : Nat) (name tag : String) (emb : Bool) (t : Ty) (rest : Fields) (v : Val)
    (vs : Vals) (h : isSlice t = false) (hm : isMap t = false) :
    recordsRM pos (.cons name tag emb t rest) (.cons v vs) = recordsRM (pos + 1) rest vs := by
  cases t with
  | slice e => exact absurd h (by simp [isSlice])
  | map k v => exact absurd hm (by simp [isMap])
  | _ => simp only [recordsRM]

theorem recordsRM_slice_nil (pos : Nat) (name tag : String) (emb : Bool) (e : Ty) (rest : Fields) (vs : Vals) :
    recordsRM pos (.cons name tag emb (.slice e) rest) (.cons .nil vs) = recordsRM (pos + 1) rest vs := by
  simp only [recordsRM]

theorem recordsRM_map (pos : Nat) (name tag : String) (emb : Bool) (kt vt : Ty) (rest : Fields) (kvs : Vals)
    (vs : Vals) :
    recordsRM pos (.cons name tag emb (.map kt vt) rest) (.cons (.map kvs) vs)
      = mapRecsM (fieldOpt pos tag).number kt vt kvs ++ recordsRM (pos + 1) rest vs := by
  simp only [recordsRM, mapRecsM]

/-- a scalar element is always written under `wantzero` -/
theorem payloadM_wz_scalar (t : Ty) (o : FieldOpt) (v : Val) (ht : tyOKM t = true) (hv : hasTypeM t v = true)
    (hs : isStructTy t = false) (hp : isPtr t = false) (hsl : isSlice t = false) (hm : isMap t = false) :
    payloadM true t o v ≠ none := by
  have hsc : isScalarTy t = true := by simp [isScalarTy, hs, hp, hsl, hm]
  rw [scalar_payload _ _ _ _ hsc]
  exact payload_wz_scalar t o v (scalar_tyOK t hsc ▸ ht) (scalar_hasType t v hsc ▸ hv) hs hp hsl

/-- the slice codec: one `fieldBytes` per element -/
theorem encodeSlice_bytesM (e : Ty) (ec : Codec) (num : Nat) (emb : Bool) (f : Val → Nat × WireVal)
    (hstep : ∀ v, hasTypeM e v = true → (encode ec v wz).length < 2 ^ 64 → fieldBytes num emb ec v wz = encRec (f v)) :
    ∀ vs : Vals, hasTypeListM e vs = true → (encodeSlice ec (encodeTag num ec.wire) emb vs).length < 2 ^ 64 →
      encodeSlice ec (encodeTag num ec.wire) emb vs = encRecs (listRecs f vs)
  | .nil, _, _ => by simp [encodeSlice, listRecs]
  | .cons v vs, hv, hlen => by
    simp only [hasTypeListM, Bool.and_eq_true] at hv
    simp only [encodeSlice, List.length_append] at hlen
    simp only [encodeSlice, listRecs, encRecs_cons]
    have h1 := hstep v hv.1 (by omega)
    simp only [fieldBytes] at h1
    rw [h1, encodeSlice_bytesM e ec num emb f hstep vs hv.2 (by omega)]

/-- the map codec on a map value: the entries, or the empty-map marker -/
theorem encode_mapC (num : Nat) (kt vt : Ty) (kvs : Vals) (fl : Flags) :
    encode (mapC num kt vt) (.map kvs) fl
      = if (encodeMap (encodeTag num .varlen) (codecOf kt) (codecOf vt) (isEmb kt) (isEmb vt) kvs).isEmpty
        then encodeTag num .varlen ++ [0]
        else encodeMap (encodeTag num .varlen) (codecOf kt) (codecOf vt) (isEmb kt) (isEmb vt) kvs := by
  simp only [mapC, encode]

theorem marker_bytes (num : Nat) (hn : num < 2 ^ 29) : encodeTag num .varlen ++ [0] = encRec (num, .len []) := by
  have := rec_varlen num hn [] (by simp)
  rw [← this]
  simp only [List.length_nil, List.append_nil]
  rfl

/-- **a map field, given what key and value codec write** -/
theorem map_bytes_of (num : Nat) (hn : num < 2 ^ 29) (kt vt : Ty) (fl : Flags)
    (hk : ∀ a, hasTypeM kt a = true → (encode (codecOf kt) a wz).length < 2 ^ 64 →
      FieldSpec 1 (payloadM true kt { number := 1 } a) (isEmb kt) (codecOf kt) a wz)
    (hv : ∀ b, hasTypeM vt b = true → (encode (codecOf vt) b wz).length < 2 ^ 64 →
      FieldSpec 2 (payloadM true vt { number := 2 } b) (isEmb vt) (codecOf vt) b wz)
    (kvs : Vals) (hty : hasTypeMapM kt vt kvs = true)
    (hlen : (encode (mapC num kt vt) (.map kvs) fl).length < 2 ^ 64) :
    encode (mapC num kt vt) (.map kvs) fl = encRecs (mapRecsM num kt vt kvs) := by
  rw [encode_mapC] at hlen ⊢
  match kvs, hty, hlen with
  | .nil, _, _ => simp [encodeMap, mapRecsM, mapRecs, marker_bytes num hn]
  | .cons _ .nil, h, _ => simp [hasTypeMapM] at h
  | .cons key (.cons val rest), h, hlen =>
    have hne : (encodeMap (encodeTag num .varlen) (codecOf kt) (codecOf vt) (isEmb kt) (isEmb vt)
        (.cons key (.cons val rest))).isEmpty = false := by
      rw [encodeMap_cons]
      have := ProtoRoundTrip.encodeTag_ne_nil num .varlen
      cases h : encodeTag num .varlen with
      | nil => exact absurd h this
      | cons => rfl
    rw [hne] at hlen ⊢
    simp only [Bool.false_eq_true, if_false] at hlen ⊢
    rw [encodeMap_bytes num hn kt vt _ _ _ _ _ _ hk hv _ h hlen]
    rfl

/-! ## the mutual induction over the type -/

mutual
theorem field_bytesM (t : Ty) (o : FieldOpt) (v : Val) (fl : Flags) (num : Nat)
    (ht : tyOKM t = true) (hns : isSlice t = false) (hnm : isMap t = false) (hv : hasTypeM t v = true)
    (ho : optOK t o = true) (hz : fl.zigzag = o.zigzag) (hn : num < 2 ^ 29)
    (hlen : (encode (codecFor t o) v fl).length < 2 ^ 64) :
    FieldSpec num (payloadM fl.wantzero t o v) (isEmb t) (codecFor t o) v fl := by
  by_cases hp : isPtr t = true
  · cases t <;> simp only [isPtr] at hp <;> try (exact absurd hp (by decide))
    rename_i t'
    simp only [tyOKM, Bool.and_eq_true] at ht
    have ho' : optOK t' o = true := by
      cases t' <;> simp_all [optOK, ptrTarget]
    have hemb : isEmb (.ptr t') = isEmb t' := by
      cases t' <;> simp_all [isEmb, ptrTarget]
    have hns' : isSlice t' = false := by
      cases t' <;> simp_all [isSlice, ptrTarget]
    have hnm' : isMap t' = false := by
      cases t' <;> simp_all [isMap, ptrTarget]
    have hcod : codecFor (.ptr t') o = .ptr (codecFor t' o) := ProtoRoundTrip.codecFor_ptr t' o ht.1
    rw [hemb]
    rw [hcod] at hlen ⊢
    cases v <;> simp only [hasTypeM] at hv <;> try (exact absurd hv (by decide))
    case nil => simp [payloadM, FieldSpec, size]
    case ptr v0 =>
      simp only [encode] at hlen
      have ih := field_bytesM t' o v0 { fl with wantzero := true, inline := false } num ht.2 hns' hnm' hv ho' hz hn hlen
      simp only [payloadM]
      exact (FieldSpec_ptr _ _ _ _ _ _).mpr ih
  have hp' : isPtr t = false := by simpa using hp
  have hembs : isEmb t = isStructTy t := by
    cases t <;> simp_all [isEmb, isStructTy, isPtr]
  rw [hembs]
  by_cases hs : isStructTy t = true
  · cases t <;> simp only [isStructTy] at hs <;> try (exact absurd hs (by decide))
    rename_i fs
    cases v <;> simp only [hasTypeM] at hv <;> try (exact absurd hv (by decide))
    rename_i vs
    simp only [tyOKM, Bool.and_eq_true] at ht
    have hzz : o.zigzag = false := by simpa [optOK] using ho
    rw [hzz] at hz
    simp only [codecFor, codecOf, isStructTy] at hlen ⊢
    have henc := encode_struct (fieldsOf 1 fs) vs fl
    rw [henc, List.length_append] at hlen
    have ih := fields_bytesM fs vs (sfl fl (fieldsOf 1 fs)) 1 ht.1 hv hz (by omega)
    have ihr := fieldsR_bytesM fs vs (encodeUnique (fieldsOf 1 fs) vs (sfl fl (fieldsOf 1 fs))).2 1 ht.1 hv (by omega)
    simp only [sfl_wantzero] at ih
    rw [ih, ihr, ← encRecs_append] at henc
    rw [ih, ihr, ← List.length_append, ← encRecs_append] at hlen
    simp only [payloadM]
    have hsz := Lemmas.Proto.size_eq (.struct (fieldsOf 1 fs)) (.struct vs) fl
    rw [henc] at hsz
    show FieldSpec num (if (encRecs (recordsOfM fl.wantzero 1 fs vs ++ recordsRM 1 fs vs)).isEmpty then none
      else some (.len (encRecs (recordsOfM fl.wantzero 1 fs vs ++ recordsRM 1 fs vs)))) true _ _ fl
    generalize encRecs (recordsOfM fl.wantzero 1 fs vs ++ recordsRM 1 fs vs) = body at *
    cases body with
    | nil => simp only [List.isEmpty_nil, if_true, FieldSpec]; simpa using hsz.symm
    | cons c cs =>
      simp only [List.isEmpty_cons, Bool.false_eq_true, if_false, FieldSpec]
      refine ⟨by rw [← hsz]; simp, ?_⟩
      simp only [fieldBytes, if_true, henc, ← hsz, Codec.wire]
      exact rec_varlen num hn _ hlen
  · have hs' : isStructTy t = false := by simpa using hs
    rw [hs']
    have hsc : isScalarTy t = true := by simp [isScalarTy, hs', hp', hns, hnm]
    rw [scalar_payload _ _ _ _ hsc]
    exact field_scalar t o v fl num hs' hp' hns (scalar_tyOK t hsc ▸ ht) (scalar_hasType t v hsc ▸ hv) ho hz hn hlen
theorem fields_bytesM (fs : Fields) (vs : Vals) (fl : Flags) (pos : Nat)
    (hf : fieldsOKM pos fs = true) (hv : hasTypesM fs vs = true) (hz : fl.zigzag = false)
    (hlen : (encodeUnique (fieldsOf pos fs) vs fl).1.length < 2 ^ 64) :
    (encodeUnique (fieldsOf pos fs) vs fl).1 = encRecs (recordsOfM fl.wantzero pos fs vs) := by
  cases fs with
  | nil => simp [fieldsOf, encodeUnique, recordsOfM_nil]
  | cons name tag emb t rest =>
    cases vs with
    | nil => simp [hasTypesM] at hv
    | cons v vs =>
      simp only [fieldsOKM, Bool.and_eq_true] at hf
      simp only [hasTypesM, Bool.and_eq_true] at hv
      obtain ⟨⟨hta, hty⟩, hrest⟩ := hf
      by_cases hmp : isMap t = true
      · cases t <;> simp only [isMap] at hmp <;> try (exact absurd hmp (by decide))
        rename_i kt vt
        simp only [tagAgreeM, isMap, if_true] at hta
        rw [fieldsOf_cons_map pos name tag emb kt vt rest hta hty] at hlen ⊢
        simp only [encodeUnique] at hlen ⊢
        rw [recordsOfM_map]
        exact fields_bytesM rest vs fl (pos + 1) hrest hv.2 hz hlen
      have hnm : isMap t = false := by simpa using hmp
      rw [tagAgreeM_notMap _ _ _ hnm] at hta
      have hnum := tagAgree_num hta
      have hopt := tagAgree_optOK hta
      by_cases hsl : isSlice t = true
      · cases t <;> simp only [isSlice] at hsl <;> try (exact absurd hsl (by decide))
        rename_i e
        rw [fieldsOf_cons_sliceM pos name tag emb e rest hta hty] at hlen ⊢
        simp only [encodeUnique] at hlen ⊢
        rw [recordsOfM_slice]
        exact fields_bytesM rest vs fl (pos + 1) hrest hv.2 hz hlen
      have hns : isSlice t = false := by simpa using hsl
      rw [fieldsOf_cons_okM pos name tag emb t rest hta hty hns hnm, encodeUnique_cons] at hlen ⊢
      simp only [recordsOfM]
      generalize fieldOpt pos tag = o at *
      have hzf : ({ fl with zigzag := fl.zigzag || o.zigzag } : Flags).zigzag = o.zigzag := by simp [hz]
      have hse := Lemmas.Proto.size_eq (codecFor t o) v { fl with zigzag := fl.zigzag || o.zigzag }
      by_cases hpos : size (codecFor t o) v { fl with zigzag := fl.zigzag || o.zigzag } > 0
      · simp only [hpos, if_true, List.length_append, fieldBytes] at hlen
        have hfs := field_bytesM t o v { fl with zigzag := fl.zigzag || o.zigzag } o.number hty hns hnm hv.1 hopt hzf
          (by omega) (by omega)
        simp only [hpos, if_true]
        have ih := fields_bytesM rest vs { fl with wantzero := false } (pos + 1) hrest hv.2 hz (by omega)
        cases hp : payloadM fl.wantzero t o v with
        | none => rw [show ({ fl with zigzag := fl.zigzag || o.zigzag } : Flags).wantzero = fl.wantzero from rfl, hp] at hfs
                  simp only [FieldSpec] at hfs; omega
        | some w =>
          rw [show ({ fl with zigzag := fl.zigzag || o.zigzag } : Flags).wantzero = fl.wantzero from rfl, hp] at hfs
          simp only [FieldSpec] at hfs
          rw [hfs.2, ih, encRecs_cons]
      · have h0 : size (codecFor t o) v { fl with zigzag := fl.zigzag || o.zigzag } = 0 := by omega
        simp only [hpos, if_false] at hlen ⊢
        have hfs := field_bytesM t o v { fl with zigzag := fl.zigzag || o.zigzag } o.number hty hns hnm hv.1 hopt hzf
          (by omega) (by omega)
        have ih := fields_bytesM rest vs fl (pos + 1) hrest hv.2 hz hlen
        cases hp : payloadM fl.wantzero t o v with
        | none => exact ih
        | some w =>
          rw [show ({ fl with zigzag := fl.zigzag || o.zigzag } : Flags).wantzero = fl.wantzero from rfl, hp] at hfs
          simp only [FieldSpec] at hfs; omega
/-- the second loop: repeated fields (one record per element) and map fields (one record per pair) -/
theorem fieldsR_bytesM (fs : Fields) (vs : Vals) (fl : Flags) (pos : Nat)
    (hf : fieldsOKM pos fs = true) (hv : hasTypesM fs vs = true)
    (hlen : (encodeRepeated (fieldsOf pos fs) vs fl).length < 2 ^ 64) :
    encodeRepeated (fieldsOf pos fs) vs fl = encRecs (recordsRM pos fs vs) := by
  cases fs with
  | nil => simp [fieldsOf, encodeRepeated, recordsRM_nil]
  | cons name tag emb t rest =>
    cases vs with
    | nil => simp [hasTypesM] at hv
    | cons v vs =>
      simp only [fieldsOKM, Bool.and_eq_true] at hf
      simp only [hasTypesM, Bool.and_eq_true] at hv
      obtain ⟨⟨hta, hty⟩, hrest⟩ := hf
      by_cases hmp : isMap t = true
      · cases t <;> simp only [isMap] at hmp <;> try (exact absurd hmp (by decide))
        rename_i kt vt
        simp only [tagAgreeM, isMap, if_true] at hta
        have hnum := tagAgreeMap_num hta
        obtain ⟨hk, hvs, hvm, hvt⟩ := mapTy_parts hty
        rw [fieldsOf_cons_map pos name tag emb kt vt rest hta hty] at hlen ⊢
        simp only [encodeRepeated, List.length_append] at hlen ⊢
        cases v <;> simp only [hasTypeM] at hv <;> try (exact absurd hv.1 (by decide))
        rename_i kvs
        rw [recordsRM_map, encRecs_append]
        have hkey : ∀ a, hasTypeM kt a = true → (encode (codecOf kt) a wz).length < 2 ^ 64 →
            FieldSpec 1 (payloadM true kt { number := 1 } a) (isEmb kt) (codecOf kt) a wz := by
          intro a ha hal
          have hcf := codecFor_nofixed kt { number := 1 } rfl
          have := field_bytesM kt { number := 1 } a wz 1 (keyTy_tyOKM kt hk) (keyTy_notSlice kt hk) (keyTy_notMap kt hk) ha
            (optOK_plain kt _ rfl rfl (keyTy_notPtr kt hk)) rfl (by decide) (by rw [hcf]; exact hal)
          rw [hcf] at this
          exact this
        have hval : ∀ b, hasTypeM vt b = true → (encode (codecOf vt) b wz).length < 2 ^ 64 →
            FieldSpec 2 (payloadM true vt { number := 2 } b) (isEmb vt) (codecOf vt) b wz := by
          intro b hb hbl
          have hcf := codecFor_nofixed vt { number := 2 } rfl
          have hopt : optOK vt { number := 2 } = true := by
            cases vt <;> simp [optOK]
            rename_i t'; cases t' <;> simp
          have := field_bytesM vt { number := 2 } b wz 2 hvt hvs hvm hb hopt rfl (by decide) (by rw [hcf]; exact hbl)
          rw [hcf] at this
          exact this
        have h1 := map_bytes_of (fieldOpt pos tag).number (by omega) kt vt { fl with zigzag := fl.zigzag || mzz tag }
          hkey hval kvs hv.1 (by omega)
        have h2 := fieldsR_bytesM rest vs _ (pos + 1) hrest hv.2 (Nat.lt_of_le_of_lt (Nat.le_add_left _ _) hlen)
        rw [h2, h1]
      have hnm : isMap t = false := by simpa using hmp
      rw [tagAgreeM_notMap _ _ _ hnm] at hta
      have hnum := tagAgree_num hta
      have hopt := tagAgree_optOK hta
      by_cases hsl : isSlice t = true
      · cases t <;> simp only [isSlice] at hsl <;> try (exact absurd hsl (by decide))
        rename_i e
        rw [fieldsOf_cons_sliceM pos name tag emb e rest hta hty] at hlen ⊢
        simp only [encodeRepeated, List.length_append] at hlen ⊢
        simp only [tyOKM, elemTy, Bool.and_eq_true, Bool.not_eq_true'] at hty
        simp only [optOK, Bool.and_eq_true, Bool.not_eq_true'] at hopt
        obtain ⟨⟨⟨hep, hes⟩, hem⟩, hety⟩ := hty
        cases v <;> simp only [hasTypeM] at hv <;> try (exact absurd hv.1 (by decide))
        case nil =>
          simp only [encode, List.nil_append, List.length_nil, Nat.zero_add, Nat.lt_irrefl, if_false] at hlen ⊢
          rw [recordsRM_slice_nil]
          exact fieldsR_bytesM rest vs fl (pos + 1) hrest hv.2 hlen
        case list es =>
          simp only [encode] at hlen ⊢
          simp only [recordsRM, encRecs_append]
          have hstep : ∀ x, hasTypeM e x = true → (encode (codecOf e) x wz).length < 2 ^ 64 →
              fieldBytes (fieldOpt pos tag).number (isStructTy e) (codecOf e) x wz
                = encRec ((fieldOpt pos tag).number, (payloadM true e (fieldOpt pos tag) x).getD (.len [])) := by
            intro x hx hxl
            have hcf := codecFor_nofixed e (fieldOpt pos tag) hopt.2
            have hfs := field_bytesM e (fieldOpt pos tag) x wz (fieldOpt pos tag).number hety hes hem hx
              (optOK_plain e _ hopt.1 hopt.2 hep) (by rw [hopt.1]; rfl) (by omega) (by rw [hcf]; exact hxl)
            have hembs : isEmb e = isStructTy e := by
              cases e <;> simp_all [isEmb, isStructTy, isPtr]
            rw [hcf, hembs, show wz.wantzero = true from rfl] at hfs
            cases hp : payloadM true e (fieldOpt pos tag) x with
            | some w =>
              rw [hp] at hfs
              simp only [FieldSpec] at hfs
              simp only [Option.getD_some]
              exact hfs.2
            | none =>
              rw [hp] at hfs
              simp only [FieldSpec] at hfs
              simp only [Option.getD_none]
              by_cases hst : isStructTy e = true
              · have hsz := Lemmas.Proto.size_eq (codecOf e) x wz
                have hnil : encode (codecOf e) x wz = [] := by
                  apply List.eq_nil_of_length_eq_zero; rw [hsz, hfs]
                have hw : (codecOf e).wire = .varlen := by
                  cases e <;> simp_all [isStructTy, codecOf, Codec.wire]
                simp only [fieldBytes, hst, if_true, hfs, hnil, hw]
                exact rec_varlen _ (by omega) [] (by simp)
              · exact absurd hp (payloadM_wz_scalar e _ x hety hx (by simpa using hst) hep hes hem)
          have h1 := encodeSlice_bytesM e (codecOf e) _ _ _ hstep es hv.1 (by omega)
          have h2 := fieldsR_bytesM rest vs _ (pos + 1) hrest hv.2 (Nat.lt_of_le_of_lt (Nat.le_add_left _ _) hlen)
          rw [h2, h1]
      have hns : isSlice t = false := by simpa using hsl
      rw [fieldsOf_cons_okM pos name tag emb t rest hta hty hns hnm] at hlen ⊢
      simp only [encodeRepeated] at hlen ⊢
      rw [recordsRM_plain _ _ _ _ _ _ _ _ hns hnm]
      exact fieldsR_bytesM rest vs fl (pos + 1) hrest hv.2 hlen
end

/-! ## Part 1: the statements -/

/-- what the key codec of a map writes for a key (always present: scalars are written under `wantzero`) -/
theorem key_spec (kt : Ty) (hk : keyTy kt = true) (a : Val) (ha : hasTypeM kt a = true)
    (hal : (encode (codecOf kt) a wz).length < 2 ^ 64) :
    FieldSpec 1 (payloadM true kt { number := 1 } a) (isEmb kt) (codecOf kt) a wz := by
  have hcf := codecFor_nofixed kt { number := 1 } rfl
  have := field_bytesM kt { number := 1 } a wz 1 (keyTy_tyOKM kt hk) (keyTy_notSlice kt hk) (keyTy_notMap kt hk) ha
    (optOK_plain kt _ rfl rfl (keyTy_notPtr kt hk)) rfl (by decide) (by rw [hcf]; exact hal)
  rw [hcf] at this
  exact this

theorem optOK_untagged (t : Ty) (n : Nat) : optOK t { number := n } = true := by
  cases t <;> simp [optOK]
  rename_i t'; cases t' <;> simp

/-- what the value codec of a map writes for a value -/
theorem val_spec (vt : Ty) (hvt : tyOKM vt = true) (hvs : isSlice vt = false) (hvm : isMap vt = false) (b : Val)
    (hb : hasTypeM vt b = true) (hbl : (encode (codecOf vt) b wz).length < 2 ^ 64) :
    FieldSpec 2 (payloadM true vt { number := 2 } b) (isEmb vt) (codecOf vt) b wz := by
  have hcf := codecFor_nofixed vt { number := 2 } rfl
  have := field_bytesM vt { number := 2 } b wz 2 hvt hvs hvm hb (optOK_untagged vt 2) rfl (by decide)
    (by rw [hcf]; exact hbl)
  rw [hcf] at this
  exact this

/-- the entry records of the pairs of a map (no marker) -/
def pairRecsM (num : Nat) (kt vt : Ty) (kvs : Vals) : List (Nat × WireVal) :=
  pairRecs (fun a b => (num, .len (encRecs (entryRecs (payloadM true kt { number := 1 } a)
    (payloadM true vt { number := 2 } b))))) kvs

theorem mapRecsM_cons (num : Nat) (kt vt : Ty) (a b : Val) (r : Vals) :
    mapRecsM num kt vt (.cons a (.cons b r)) = pairRecsM num kt vt (.cons a (.cons b r)) := rfl

theorem mapRecsM_nil (num : Nat) (kt vt : Ty) : mapRecsM num kt vt .nil = [(num, .len [])] := rfl

/-- the codec `structCodecOf` attaches to a map-typed field -/
theorem fieldCodecOf_map (n : Nat) (kt vt : Ty) (ht : tyOKM (.map kt vt) = true) :
    fieldCodecOf n (.map kt vt) = (true, true, mapC n kt vt) := by
  obtain ⟨hk, hvs, hvm, hv⟩ := mapTy_parts ht
  simp only [fieldCodecOf, fieldCodecOf_part 1 kt (keyTy_tyOKM kt hk) (keyTy_notSlice kt hk) (keyTy_notMap kt hk),
    fieldCodecOf_part 2 vt hv hvs hvm, mapC, entryC,
    isStructBase_isEmb kt (keyTy_tyOKM kt hk) (keyTy_notSlice kt hk) (keyTy_notMap kt hk),
    isStructBase_isEmb vt hv hvs hvm]

/-- **Part 1, the map encoder** (`encodeMap` / `sizeMap`): for a map `map[kt]vt` numbered `num`, what `encodeMap`
writes is the concatenation, per pair, of the reference encoding of the record
`(num, .len (encRecs (key record? ++ value record?)))`, key/value record present iff the model writes the part
(`payloadM true`: scalars, strings, `[]byte` always; a message or pointer iff it writes a byte); `sizeMap` is its
length.  Any map value of the type (also with duplicate keys; the empty map gives `[]`). -/
theorem encodeMap_records (num : Nat) (hn : num < 2 ^ 29) (kt vt : Ty) (kvs : Vals)
    (hty : tyOKM (.map kt vt) = true) (hv : hasTypeMapM kt vt kvs = true)
    (hlen : (encodeMap (encodeTag num .varlen) (codecOf kt) (codecOf vt) (isEmb kt) (isEmb vt) kvs).length < 2 ^ 64) :
    encodeMap (encodeTag num .varlen) (codecOf kt) (codecOf vt) (isEmb kt) (isEmb vt) kvs
        = encRecs (pairRecsM num kt vt kvs)
      ∧ sizeMap (sizeOfTag num .varlen) (codecOf kt) (codecOf vt) (isEmb kt) (isEmb vt) kvs
        = (encRecs (pairRecsM num kt vt kvs)).length := by
  obtain ⟨hk, hvs, hvm, hvt⟩ := mapTy_parts hty
  have h := encodeMap_bytes num hn kt vt _ _ _ _ _ _ (key_spec kt hk) (val_spec vt hvt hvs hvm) kvs hv hlen
  refine ⟨h, ?_⟩
  have hs := Lemmas.Proto.sizeMap_eq (encodeTag num .varlen) (codecOf kt) (codecOf vt) (isEmb kt) (isEmb vt) kvs
  rw [Lemmas.Proto.encodeTag_length] at hs
  rw [← hs, h]
  rfl

/-- **Part 1, a map field** (`map_bytes`, the analogue of `field_bytes`): the map codec on a map value writes the
reference encoding of `mapRecsM` — one entry record per pair; for the EMPTY non-nil map the single record
`(num, .len [])` (known deviation `protoEmptyMapMarker`) — and `size` is the length of that. -/
theorem map_bytes (num : Nat) (hn : num < 2 ^ 29) (kt vt : Ty) (kvs : Vals) (fl : Flags)
    (hty : tyOKM (.map kt vt) = true) (hv : hasTypeM (.map kt vt) (.map kvs) = true)
    (hlen : (encode (mapC num kt vt) (.map kvs) fl).length < 2 ^ 64) :
    encode (mapC num kt vt) (.map kvs) fl = encRecs (mapRecsM num kt vt kvs)
      ∧ size (mapC num kt vt) (.map kvs) fl = (encRecs (mapRecsM num kt vt kvs)).length := by
  obtain ⟨hk, hvs, hvm, hvt⟩ := mapTy_parts hty
  simp only [hasTypeM] at hv
  have h := map_bytes_of num hn kt vt fl (key_spec kt hk) (val_spec vt hvt hvs hvm) kvs hv hlen
  exact ⟨h, by rw [← Lemmas.Proto.size_eq, h]⟩

/-- **Part 1, a message** (`struct_bytes` on `tyOKM`): a message struct with map fields is written as the reference
encoding of its records: non-repeated fields in declaration order, then the elements of the repeated fields and the
entries of the map fields, in declaration order -/
theorem struct_bytesM (fs : Fields) (vs : Vals) (fl : Flags)
    (hty : tyOKM (.struct fs) = true) (hv : hasTypesM fs vs = true) (hz : fl.zigzag = false)
    (hlen : (encode (.struct (fieldsOf 1 fs)) (.struct vs) fl).length < 2 ^ 64) :
    encode (.struct (fieldsOf 1 fs)) (.struct vs) fl = encRecs (allRecordsM fl.wantzero fs vs) := by
  have ht := hty
  simp only [tyOKM, Bool.and_eq_true] at ht
  have henc := encode_struct (fieldsOf 1 fs) vs fl
  rw [henc, List.length_append] at hlen
  have ih := fields_bytesM fs vs (sfl fl (fieldsOf 1 fs)) 1 ht.1 hv hz (by omega)
  have ihr := fieldsR_bytesM fs vs (encodeUnique (fieldsOf 1 fs) vs (sfl fl (fieldsOf 1 fs))).2 1 ht.1 hv (by omega)
  simp only [sfl_wantzero] at ih
  rw [henc, ih, ihr, ← encRecs_append]
  rfl

theorem struct_sizeM (fs : Fields) (vs : Vals) (fl : Flags)
    (hty : tyOKM (.struct fs) = true) (hv : hasTypesM fs vs = true) (hz : fl.zigzag = false)
    (hlen : (encode (.struct (fieldsOf 1 fs)) (.struct vs) fl).length < 2 ^ 64) :
    size (.struct (fieldsOf 1 fs)) (.struct vs) fl = (encRecs (allRecordsM fl.wantzero fs vs)).length := by
  rw [← Lemmas.Proto.size_eq, struct_bytesM fs vs fl hty hv hz hlen]

/-! ## the records are well formed: the reference parser reads them back -/

theorem lenRec_ok (num : Nat) (b : Bytes) (h0 : 0 < num) (hn : num < 2 ^ 29)
    (hlen : (encRec (num, .len b)).length < 2 ^ 64) : RecOK (num, .len b) :=
  ⟨h0, hn, Nat.lt_of_le_of_lt (encRec_len_ge _ _) hlen⟩

theorem payload_okM (t : Ty) (o : FieldOpt) (v : Val) (wz : Bool) (num : Nat)
    (ht : tyOKM t = true) (hv : hasTypeM t v = true) (ho : optOK t o = true) (h0 : 0 < num) (hn : num < 2 ^ 29)
    (w : WireVal) (hp : payloadM wz t o v = some w) (hlen : (encRec (num, w)).length < 2 ^ 64) :
    RecOK (num, w) := by
  by_cases hsc : isScalarTy t = true
  · rw [scalar_payload _ _ _ _ hsc] at hp
    exact payload_ok t o v wz num (scalar_tyOK t hsc ▸ ht) (scalar_hasType t v hsc ▸ hv) ho h0 hn w hp hlen
  cases t <;> simp only [tyOKM] at ht <;> try (exact absurd ht (by decide))
  all_goals try (exact absurd rfl hsc)
  case slice => simp [payloadM] at hp
  case map => simp [payloadM] at hp
  case ptr t' =>
    simp only [Bool.and_eq_true] at ht
    have ho' : optOK t' o = true := by
      cases t' <;> simp_all [optOK, ptrTarget]
    cases v <;> simp only [hasTypeM] at hv <;> try (exact absurd hv (by decide))
    case nil => simp [payloadM] at hp
    case ptr v0 =>
      simp only [payloadM] at hp
      exact payload_okM t' o v0 true num ht.2 hv ho' h0 hn w hp hlen
  case struct fs =>
    cases v <;> simp only [hasTypeM] at hv <;> try (exact absurd hv (by decide))
    simp only [payloadM] at hp
    split at hp
    · cases hp
    · cases hp; exact lenRec_ok _ _ h0 hn hlen

theorem recordsOfM_ok : ∀ (fs : Fields) (vs : Vals) (wz : Bool) (pos : Nat),
    fieldsOKM pos fs = true → hasTypesM fs vs = true →
    (encRecs (recordsOfM wz pos fs vs)).length < 2 ^ 64 → ∀ r ∈ recordsOfM wz pos fs vs, RecOK r
  | .nil, vs, wz, pos, _, _, _ => by simp [recordsOfM_nil]
  | .cons name tag emb t rest, .nil, wz, pos, _, hv, _ => by simp [hasTypesM] at hv
  | .cons name tag emb t rest, .cons v vs, wz, pos, hf, hv, hlen => by
    simp only [fieldsOKM, Bool.and_eq_true] at hf
    simp only [hasTypesM, Bool.and_eq_true] at hv
    obtain ⟨⟨hta, hty⟩, hrest⟩ := hf
    by_cases hmp : isMap t = true
    · cases t <;> simp only [isMap] at hmp <;> try (exact absurd hmp (by decide))
      rw [recordsOfM_map] at hlen ⊢
      exact recordsOfM_ok rest vs wz (pos + 1) hrest hv.2 hlen
    have hnm : isMap t = false := by simpa using hmp
    rw [tagAgreeM_notMap _ _ _ hnm] at hta
    have hnum := tagAgree_num hta
    have hopt := tagAgree_optOK hta
    simp only [recordsOfM] at hlen ⊢
    cases hp : payloadM wz t (fieldOpt pos tag) v with
    | none =>
      rw [hp] at hlen
      simp only
      exact recordsOfM_ok rest vs wz (pos + 1) hrest hv.2 hlen
    | some w =>
      rw [hp] at hlen
      simp only [encRecs_cons, List.length_append] at hlen
      intro r hr
      simp only [List.mem_cons] at hr
      rcases hr with rfl | hr
      · exact payload_okM t _ v wz _ hty hv.1 hopt hnum.1 (by omega) w hp (by omega)
      · exact recordsOfM_ok rest vs false (pos + 1) hrest hv.2 (by omega) r hr

theorem elemRecs_okM (e : Ty) (o : FieldOpt) (num : Nat) (he : tyOKM e = true) (hep : isPtr e = false)
    (hz : o.zigzag = false) (hf : o.fixed = false) (h0 : 0 < num) (hn : num < 2 ^ 29) :
    ∀ es : Vals, hasTypeListM e es = true →
      (encRecs (listRecs (fun v => (num, (payloadM true e o v).getD (.len []))) es)).length < 2 ^ 64 →
      ∀ r ∈ listRecs (fun v => (num, (payloadM true e o v).getD (.len []))) es, RecOK r
  | .nil, _, _ => by simp [listRecs]
  | .cons v es, hv, hlen => by
    simp only [hasTypeListM, Bool.and_eq_true] at hv
    simp only [listRecs, encRecs_cons, List.length_append] at hlen
    intro r hr
    simp only [listRecs, List.mem_cons] at hr
    rcases hr with rfl | hr
    · cases hp : payloadM true e o v with
      | none => exact ⟨h0, hn, by simp⟩
      | some w =>
        rw [hp, Option.getD_some] at hlen
        exact payload_okM e o v true num he hv.1 (optOK_plain e o hz hf hep) h0 hn w hp (by omega)
    · exact elemRecs_okM e o num he hep hz hf h0 hn es hv.2 (by omega) r hr

theorem pairRecs_ok (num : Nat) (h0 : 0 < num) (hn : num < 2 ^ 29) (g : Val → Val → Bytes) :
    ∀ kvs : Vals, (encRecs (pairRecs (fun a b => (num, .len (g a b))) kvs)).length < 2 ^ 64 →
      ∀ r ∈ pairRecs (fun a b => (num, .len (g a b))) kvs, RecOK r
  | .nil, _ => by simp [pairRecs]
  | .cons _ .nil, _ => by simp [pairRecs]
  | .cons a (.cons b rest), hlen => by
    simp only [pairRecs, encRecs_cons, List.length_append] at hlen
    intro r hr
    simp only [pairRecs, List.mem_cons] at hr
    rcases hr with rfl | hr
    · exact lenRec_ok _ _ h0 hn (by omega)
    · exact pairRecs_ok num h0 hn g rest (by omega) r hr

theorem mapRecsM_ok (num : Nat) (h0 : 0 < num) (hn : num < 2 ^ 29) (kt vt : Ty) (kvs : Vals)
    (hlen : (encRecs (mapRecsM num kt vt kvs)).length < 2 ^ 64) : ∀ r ∈ mapRecsM num kt vt kvs, RecOK r := by
  match kvs, hlen with
  | .nil, _ => intro r hr; simp only [mapRecsM_nil, List.mem_singleton] at hr; subst hr; exact ⟨h0, hn, by simp⟩
  | .cons a .nil, _ => intro r hr; simp [mapRecsM, mapRecs, pairRecs] at hr
  | .cons a (.cons b rest), hlen => exact pairRecs_ok num h0 hn _ _ hlen

theorem recordsRM_ok : ∀ (fs : Fields) (vs : Vals) (pos : Nat),
    fieldsOKM pos fs = true → hasTypesM fs vs = true →
    (encRecs (recordsRM pos fs vs)).length < 2 ^ 64 → ∀ r ∈ recordsRM pos fs vs, RecOK r
  | .nil, vs, pos, _, _, _ => by simp [recordsRM_nil]
  | .cons name tag emb t rest, .nil, pos, _, hv, _ => by simp [hasTypesM] at hv
  | .cons name tag emb t rest, .cons v vs, pos, hf, hv, hlen => by
    simp only [fieldsOKM, Bool.and_eq_true] at hf
    simp only [hasTypesM, Bool.and_eq_true] at hv
    obtain ⟨⟨hta, hty⟩, hrest⟩ := hf
    by_cases hmp : isMap t = true
    · cases t <;> simp only [isMap] at hmp <;> try (exact absurd hmp (by decide))
      rename_i kt vt
      simp only [tagAgreeM, isMap, if_true] at hta
      have hnum := tagAgreeMap_num hta
      cases v <;> simp only [hasTypeM] at hv <;> try (exact absurd hv.1 (by decide))
      rename_i kvs
      rw [recordsRM_map] at hlen ⊢
      simp only [encRecs_append, List.length_append] at hlen
      intro r hr
      rcases List.mem_append.mp hr with hr | hr
      · exact mapRecsM_ok _ hnum.1 (by omega) kt vt kvs (by omega) r hr
      · exact recordsRM_ok rest vs (pos + 1) hrest hv.2 (by omega) r hr
    have hnm : isMap t = false := by simpa using hmp
    rw [tagAgreeM_notMap _ _ _ hnm] at hta
    have hnum := tagAgree_num hta
    have hopt := tagAgree_optOK hta
    by_cases hsl : isSlice t = true
    · cases t <;> simp only [isSlice] at hsl <;> try (exact absurd hsl (by decide))
      rename_i e
      simp only [tyOKM, elemTy, Bool.and_eq_true, Bool.not_eq_true'] at hty
      simp only [optOK, Bool.and_eq_true, Bool.not_eq_true'] at hopt
      cases v <;> simp only [hasTypeM] at hv <;> try (exact absurd hv.1 (by decide))
      case nil =>
        rw [recordsRM_slice_nil] at hlen ⊢
        exact recordsRM_ok rest vs (pos + 1) hrest hv.2 hlen
      case list es =>
        simp only [recordsRM, encRecs_append, List.length_append] at hlen ⊢
        intro r hr
        rcases List.mem_append.mp hr with hr | hr
        · exact elemRecs_okM e _ _ hty.2 hty.1.1.1 hopt.1 hopt.2 hnum.1 (by omega) es hv.1 (by omega) r hr
        · exact recordsRM_ok rest vs (pos + 1) hrest hv.2 (by omega) r hr
    · have hns : isSlice t = false := by simpa using hsl
      rw [recordsRM_plain _ _ _ _ _ _ _ _ hns hnm] at hlen ⊢
      exact recordsRM_ok rest vs (pos + 1) hrest hv.2 hlen

theorem allRecordsM_ok (fs : Fields) (vs : Vals) (wz : Bool)
    (hf : fieldsOKM 1 fs = true) (hv : hasTypesM fs vs = true)
    (hlen : (encRecs (allRecordsM wz fs vs)).length < 2 ^ 64) : ∀ r ∈ allRecordsM wz fs vs, RecOK r := by
  simp only [allRecordsM, encRecs_append, List.length_append] at hlen
  intro r hr
  rcases List.mem_append.mp hr with hr | hr
  · exact recordsOfM_ok fs vs wz 1 hf hv (by omega) r hr
  · exact recordsRM_ok fs vs 1 hf hv (by omega) r hr

/-- **record level, parse** on `tyOKM`: the reference wire parser splits what the model writes for a message with map
fields into exactly the records `allRecordsM` lists -/
theorem parse_structM (fs : Fields) (vs : Vals) (fl : Flags)
    (hty : tyOKM (.struct fs) = true) (hv : hasTypesM fs vs = true) (hz : fl.zigzag = false)
    (hlen : (encode (.struct (fieldsOf 1 fs)) (.struct vs) fl).length < 2 ^ 64) :
    parse ((encode (.struct (fieldsOf 1 fs)) (.struct vs) fl).length + 1)
      (encode (.struct (fieldsOf 1 fs)) (.struct vs) fl) = some (allRecordsM fl.wantzero fs vs) := by
  have hb := struct_bytesM fs vs fl hty hv hz hlen
  rw [hb] at hlen ⊢
  simp only [tyOKM, Bool.and_eq_true] at hty
  exact parse_encRecs_len _ (allRecordsM_ok fs vs _ hty.1 hv hlen)

end Enc.Lemmas.ProtoMap
