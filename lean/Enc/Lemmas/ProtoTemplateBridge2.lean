import Enc.Lemmas.ProtoTemplateBridge
/-! The map building blocks that used to live here moved to `ProtoTemplateMapBlocks.lean` (imported by the bridge, which
now covers the map class). This module is kept so that existing imports stay valid. -/
