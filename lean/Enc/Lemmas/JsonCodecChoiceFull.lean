import Enc.Lemmas.JsonCodecChoiceShape
/-!
# `choose_eq_std` for every type: struct types, embedding, the `string` option, recursion through `seen`

The invariant. Fix the FINAL `seen` map `T` of a top-level construction and a depth `d`.
* `FG d T fs k`: the field list `fs` stored for the struct key `k`, as a tree to depth `d` (back references looked up in
  `T`), is the field list of encoding/json's rule for `k`.
* `SeenGood d s T`: every finished entry of `s` is `FG d`.
* during the construction, for a call with input `seen = s` and output `s'`: the finished entries of `s'` are in `T`
  (`Ext`), the struct types under construction in `s` are finished in `T` (`Fin`) and contain the type being built
  (`Path`; with `NoEmbeddedCycle` this is what excludes an embedded struct under construction).
`ACodec f d`: a call of `codecF f` whose input satisfies the invariant returns an encoder whose tree to depth `d` is
`stdD d`, and keeps `SeenGood d`. Induction on the fuel `f`, for all `d`; the tree at depth `d + 1` uses the calls' trees
at depth `d` (`codec_exp`), `SeenGood d` is threaded at the same depth (`codec_thread`). Back references to named
slice/map/pointer/array types (`recur`) mean a fresh top-level construction: `MainLe` (outer induction on the depth).
-/
set_option linter.unusedSimpArgs false
set_option linter.unusedVariables false
namespace Enc.Lemmas.JsonCodecChoiceFull
open Enc.Model.Json.CodecChoice Enc.Spec.Json.StdCodecChoice Enc.Spec.Json.EmbedCycle
open Enc.Lemmas.JsonCodecChoiceSeen Enc.Lemmas.JsonCodecChoiceStd Enc.Lemmas.JsonCodecChoiceEvo Enc.Lemmas.JsonCodecChoiceEmb
open Enc.Lemmas.JsonCodecChoiceShape Enc.Lemmas.JsonCodecChoiceTerm

def IsStructKey (env : Env) (k : Key) : Prop := isStructKind (under env k.1) = true

def FG (env : Env) (d : Nat) (T : Seen) (fs : CL) (k : Key) : Prop :=
  (normCL fs).mapChoice (underEmbed (expandN d env T)) = stdFields d env k.1 k.2

def SeenGood (env : Env) (d : Nat) (s T : Seen) : Prop :=
  ∀ k fs, s.find k = some (.done fs) → IsStructKey env k → FG env d T fs k

def Ext (s T : Seen) : Prop := ∀ k fs, s.find k = some (.done fs) → T.find k = some (.done fs)

def Fin (env : Env) (s T : Seen) : Prop :=
  ∀ k r, s.find k = some (.building r) → IsStructKey env k → ∃ fs, T.find k = some (.done fs)

/-- the root of a struct type under construction is a struct type under construction -/
def RootOK (env : Env) (s : Seen) : Prop :=
  ∀ k r, s.find k = some (.building r) → IsStructKey env k → IsStructKey env r ∧ ∃ r', s.find r = some (.building r')

def RootIn (env : Env) (s : Seen) (R : Key) : Prop := IsStructKey env R ∧ ∃ r', s.find R = some (.building r')

/-- while fields are listed for the root `R`, in the struct type `S`: the struct types under construction that are
marked with `R` are the chain of embedded structs from `R` to `S` -/
def Chain (env : Env) (s : Seen) (R : Key) (S : TD) : Prop :=
  ∀ k, s.find k = some (.building R) → IsStructKey env k → EmbReach env k.1 S

def MainFor (env : Env) (d : Nat) (t : TD) (a : Bool) : Prop :=
  expandN d env (choose env t a).2 (norm (choose env t a).1) = stdD d env t a

def MainLe (env : Env) (d : Nat) : Prop := ∀ d', d' ≤ d → ∀ t a, NoEmbeddedCycle env t → MainFor env d' t a

structure Ctx (env : Env) (T : Seen) (d : Nat) : Prop where
  less : ∀ d', d' < d → SeenGood env d' T T
  main : MainLe env d

theorem Ctx.mono {env : Env} {T : Seen} {d d' : Nat} (h : Ctx env T d) (hle : d' ≤ d) : Ctx env T d' :=
  ⟨fun d'' hd => h.less d'' (by omega), fun d'' hd => h.main d'' (by omega)⟩

def ACodec (env : Env) (f d : Nat) : Prop :=
  ∀ t a s c s' T, codecF f env t a s = some (c, s') → Ctx env T d → Ext s' T → Fin env s T → RootOK env s →
    NoEmbeddedCycle env t → SeenGood env d s T →
    expandN d env T (norm c) = stdD d env t a ∧ SeenGood env d s' T

def AStruct (env : Env) (f d : Nat) : Prop :=
  ∀ t a root s e s' T, structF f env t a root s = some (e, s') → isStructKind (under env t) = true → Ctx env T d →
    Ext s' T → Fin env s T → RootOK env s → (∀ R, root = some R → RootIn env s R ∧ Chain env s R t) →
    NoEmbeddedCycle env t → SeenGood env d s T →
    SeenGood env d s' T ∧ ∀ fs, e = .done fs → FG env d T fs (t, a)

def AList (env : Env) (f d : Nat) : Prop :=
  ∀ t a R s fs s' T, listF f env t a R s = some (fs, s') → isStructKind (under env t) = true → Ctx env T d →
    Ext s' T → Fin env s T → RootOK env s → RootIn env s R → Chain env s R t →
    NoEmbeddedCycle env t → SeenGood env d s T →
    SeenGood env d s' T ∧ FG env d T fs (t, a)

theorem ext_of_evo {s s' T : Seen} (h : Ext s' T) (e : Evo s s') : Ext s T := fun k fs hk => h k fs (e.1 k fs hk)
theorem fin_of_evo {env : Env} {s s' T : Seen} (h : Fin env s T) (e : Evo s s') : Fin env s' T :=
  fun k r hk hs => h k r ((e.2 k r).mp hk) hs
theorem rootOK_of_evo {env : Env} {s s' : Seen} (h : RootOK env s) (e : Evo s s') : RootOK env s' := by
  intro k r hk hs
  obtain ⟨h1, r', h2⟩ := h k r ((e.2 k r).mp hk) hs
  exact ⟨h1, r', (e.2 r r').mpr h2⟩
theorem rootIn_of_evo {env : Env} {s s' : Seen} {R : Key} (h : RootIn env s R) (e : Evo s s') : RootIn env s' R := by
  obtain ⟨h1, r', h2⟩ := h
  exact ⟨h1, r', (e.2 R r').mpr h2⟩
theorem chain_of_evo {env : Env} {s s' : Seen} {R : Key} {S : TD} (h : Chain env s R S) (e : Evo s s') :
    Chain env s' R S := fun k hk hs => h k ((e.2 k R).mp hk) hs
theorem embReach_step {env : Env} {a b c : TD} (h : EmbReach env a b) (hc : c ∈ embeds env b) : EmbReach env a c :=
  .step h hc

theorem stringify_state (codec : CodecFn) (env : Env) (a : Bool) (ft : TD) (c c' : Choice) (s s' : Seen)
    (h : stringifyF codec env a ft c s = some (c', s')) : s' = s ∨ ∃ p, codec ft a s = some (p, s') := by
  unfold stringifyF at h
  simp only at h
  split at h
  · cases hcd : codec ft a s with
    | none => simp [hcd] at h
    | some r =>
      obtain ⟨p, s1⟩ := r
      simp [hcd] at h
      exact .inr ⟨p, by rw [h.2]⟩
  · simp at h; exact .inl h.2.symm

/-! ## the fields of a struct type -/

theorem building_set_building (s : Seen) (key x r R : Key) (hk : s.find key = some (.building r))
    (hx : ∃ r', s.find x = some (.building r')) : ∃ r', (s.set key (.building R)).find x = some (.building r') := by
  by_cases hxe : x = key
  · subst hxe; exact ⟨R, find_set_self _ _ _⟩
  · rw [find_set_ne _ _ _ _ hxe]; exact hx

/-- the embedded branch of `appendStructFields`: the promoted fields are the field list of the embedded type on its
own — taken from the finished struct type, or listed a second time when it is under construction for another root;
under construction for the SAME root would be a cycle of embedded structs -/
theorem embedded_sem (env : Env) (f d : Nat) (hs : AStruct env f d) (hl : AList env f d) (S typ : TD) (b : Bool)
    (R : Key) (T : Seen) (hctx : Ctx env T d) (hsafe : NoEmbeddedCycle env S) (hmem : typ ∈ embeds env S)
    (hsk : isStructKind (under env typ) = true) (s s1 : Seen) (sub : CL)
    (h : embeddedF (structF f env) (listF f env) typ b R s = some (sub, s1))
    (hext : Ext s1 T) (hfin : Fin env s T) (hroot : RootOK env s) (hrin : RootIn env s R) (hchain : Chain env s R S)
    (hgood : SeenGood env d s T) :
    SeenGood env d s1 T ∧ FG env d T sub (typ, b) := by
  have hreach := embeds_reach hmem
  have hsafe' := noEmbedCycle_of_reach hsafe hreach
  have hchain' : Chain env s R typ := fun k hk hks => .step (hchain k hk hks) hmem
  unfold embeddedF at h
  cases h1 : structF f env typ b (some R) s with
  | none => simp [h1] at h
  | some r1 =>
    obtain ⟨e, s0⟩ := r1
    simp only [h1] at h
    cases e with
    | done fs =>
      simp at h
      obtain ⟨rfl, rfl⟩ := h
      obtain ⟨g1, hfg⟩ := hs typ b (some R) s _ s0 T h1 hsk hctx hext hfin hroot
        (fun R' hR' => by cases hR'; exact ⟨hrin, hchain'⟩) hsafe' hgood
      exact ⟨g1, hfg fs rfl⟩
    | building r =>
      obtain ⟨rfl, hfind⟩ := struct_building env f typ b (some R) s s0 r h1
      simp only at h
      by_cases hr : (r == R) = true
      · -- excluded: a cycle of embedded structs
        exfalso
        have hrR : r = R := by simpa using hr
        subst hrR
        exact hsafe S typ (.refl S) hmem (hchain (typ, b) hfind hsk)
      · have hr' : (r == R) = false := by simpa using hr
        simp only [hr', Bool.false_eq_true, if_false] at h
        cases h2 : listF f env typ b R (s0.set (typ, b) (.building R)) with
        | none => simp [h2] at h
        | some r2 =>
          obtain ⟨fs, s2⟩ := r2
          simp [h2] at h
          obtain ⟨rfl, rfl⟩ := h
          have evo2 := (JsonCodecChoiceEvo.main env f).2.2 _ _ _ _ _ _ h2
          have hb2 : s2.find (typ, b) = some (.building R) := (evo2.2 _ _).mpr (find_set_self _ _ _)
          have hext2 : Ext s2 T := by
            intro k fs' hk
            have hne : k ≠ (typ, b) := by intro e; subst e; rw [hb2] at hk; cases hk
            apply hext; rw [find_set_ne _ _ _ _ hne]; exact hk
          have hfin' : Fin env (s0.set (typ, b) (.building R)) T := by
            intro k r' hk hks
            by_cases hke : k = (typ, b)
            · subst hke; exact hfin _ r hfind hks
            · rw [find_set_ne _ _ _ _ hke] at hk; exact hfin k r' hk hks
          have hroot' : RootOK env (s0.set (typ, b) (.building R)) := by
            intro k r' hk hks
            by_cases hke : k = (typ, b)
            · subst hke
              rw [find_set_self] at hk
              cases hk
              exact ⟨hrin.1, building_set_building s0 _ _ r _ hfind hrin.2⟩
            · rw [find_set_ne _ _ _ _ hke] at hk
              obtain ⟨h3, h4⟩ := hroot k r' hk hks
              exact ⟨h3, building_set_building s0 _ _ r _ hfind h4⟩
          have hrin' : RootIn env (s0.set (typ, b) (.building R)) R :=
            ⟨hrin.1, building_set_building s0 _ _ r _ hfind hrin.2⟩
          have hchain2 : Chain env (s0.set (typ, b) (.building R)) R typ := by
            intro k hk hks
            by_cases hke : k = (typ, b)
            · subst hke; exact .refl _
            · rw [find_set_ne _ _ _ _ hke] at hk; exact hchain' k hk hks
          have hgood' : SeenGood env d (s0.set (typ, b) (.building R)) T := by
            intro k fs' hk hks
            by_cases hke : k = (typ, b)
            · subst hke; rw [find_set_self] at hk; cases hk
            · rw [find_set_ne _ _ _ _ hke] at hk; exact hgood k fs' hk hks
          obtain ⟨g, hfg⟩ := hl typ b R _ fs s2 T h2 hsk hctx hext2 hfin' hroot' hrin' hchain2 hsafe' hgood'
          refine ⟨?_, hfg⟩
          intro k fs' hk hks
          by_cases hke : k = (typ, b)
          · subst hke; rw [find_set_self] at hk; cases hk
          · rw [find_set_ne _ _ _ _ hke] at hk; exact g k fs' hk hks

theorem fields_sem (env : Env) (f d : Nat) (hc : ACodec env f d) (hs : AStruct env f d) (hl : AList env f d)
    (S : TD) (a : Bool) (R : Key) (T : Seen) (hctx : Ctx env T d) (hsafe : NoEmbeddedCycle env S) :
    ∀ (fl : FL) (s : Seen) (cl : CL) (s' : Seen),
      fieldsF (codecF f env) (structF f env) (listF f env) env a R fl s = some (cl, s') →
      (∀ ft, ft ∈ fieldTypes fl → ft ∈ children env S) → (∀ typ, typ ∈ embedsFL env fl → typ ∈ embeds env S) →
      Ext s' T → Fin env s T → RootOK env s → RootIn env s R → Chain env s R S → SeenGood env d s T →
      SeenGood env d s' T ∧
        (normCL cl).mapChoice (underEmbed (expandN d env T)) =
          stdFieldsWith (stdD d env) (stdEmbedded (stdD d env) env (embedFuel env S) [S]) env a fl
  | .nil, s, cl, s', h, _, _, _, _, _, _, _, hgood => by
    simp [fieldsF] at h
    rw [← h.1, ← h.2]
    exact ⟨hgood, by simp [normCL, CL.mapChoice, stdFieldsWith]⟩
  | .cons name emb str ft rest, s, cl, s', h, hft, hemb, hext, hfin, hroot, hrin, hchain, hgood => by
    have hftr : ∀ ft', ft' ∈ fieldTypes rest → ft' ∈ children env S :=
      fun ft' h' => hft ft' (by simp [fieldTypes, h'])
    have hembr : ∀ typ, typ ∈ embedsFL env rest → typ ∈ embeds env S := by
      intro typ h'
      apply hemb
      simp only [embedsFL]
      split
      · exact List.mem_cons_of_mem _ h'
      · exact h'
    have hEC := (JsonCodecChoiceEvo.main env f).1
    have hES := (JsonCodecChoiceEvo.main env f).2.1
    have hEL := (JsonCodecChoiceEvo.main env f).2.2
    unfold fieldsF at h
    simp only at h
    by_cases h0 : (emb && isStructKind (under env (peel ft))) = true
    · -- an embedded struct: its fields are promoted
      simp only [h0, if_true] at h
      cases h1 : embeddedF (structF f env) (listF f env) (peel ft) (a || isPtrKind ft) R s with
      | none => simp [h1] at h
      | some r1 =>
        obtain ⟨sub, s1⟩ := r1
        simp only [h1] at h
        cases h2 : fieldsF (codecF f env) (structF f env) (listF f env) env a R rest s1 with
        | none => simp [h2] at h
        | some r2 =>
          obtain ⟨r, s2⟩ := r2
          simp [h2] at h
          obtain ⟨hcl, hs'⟩ := h
          subst hs'
          have evo1 := embedded_evo _ _ hES hEL _ _ R s s1 sub h1
          have evo2 := fields_evo _ _ _ hEC hES hEL env a R rest s1 r s2 h2
          have hmem : peel ft ∈ embeds env S := hemb _ (by simp [embedsFL, h0])
          have hsk : isStructKind (under env (peel ft)) = true := by
            simp only [Bool.and_eq_true] at h0; exact h0.2
          obtain ⟨g1, hfg'⟩ := embedded_sem env f d hs hl S (peel ft) (a || isPtrKind ft) R T hctx hsafe hmem hsk s s1 sub h1
            (ext_of_evo hext evo2) hfin hroot hrin hchain hgood
          obtain ⟨g2, heq⟩ := fields_sem env f d hc hs hl S a R T hctx hsafe rest s1 r s2 h2 hftr hembr hext
            (fin_of_evo hfin evo1) (rootOK_of_evo hroot evo1) (rootIn_of_evo hrin evo1) (chain_of_evo hchain evo1) g1
          refine ⟨g2, ?_⟩
          unfold FG at hfg'
          simp only at hfg'
          rw [← stdEmbedded_eq_fields d env S (peel ft) (a || isPtrKind ft) hsafe hmem] at hfg'
          simp only [stdFieldsWith, h0, if_true]
          rw [← hcl, ← heq, ← hfg']
          by_cases hp : isPtrKind ft = true
          · simp only [hp, if_true, normCL_append, mapChoice_append, normCL_embed, mapChoice_underEmbed_embed]
          · simp only [hp, if_false, normCL_append, mapChoice_append, Bool.false_eq_true]
    · -- an ordinary field
      have h0' : (emb && isStructKind (under env (peel ft))) = false := by simpa using h0
      simp only [h0', Bool.false_eq_true, if_false] at h
      cases h1 : codecF f env ft a s with
      | none => simp [h1] at h
      | some r1 =>
        obtain ⟨c, s1⟩ := r1
        simp only [h1] at h
        cases h2 : (if str = true then stringifyF (codecF f env) env a ft c s1 else some (c, s1)) with
        | none => simp [h2] at h
        | some r2 =>
          obtain ⟨c2, s2⟩ := r2
          simp only [h2] at h
          cases h3 : fieldsF (codecF f env) (structF f env) (listF f env) env a R rest s2 with
          | none => simp [h3] at h
          | some r3 =>
            obtain ⟨r, s3⟩ := r3
            simp [h3] at h
            obtain ⟨hcl, hs'⟩ := h
            subst hs'
            have evo1 := codec_evo env f ft a s s1 c h1
            have evo2 : Evo s1 s2 := by
              split at h2
              · exact stringify_evo _ hEC env a ft c c2 s1 s2 h2
              · simp at h2; rw [← h2.2]; exact Evo.refl s1
            have evo3 := fields_evo _ _ _ hEC hES hEL env a R rest s2 r s3 h3
            have hchild : ft ∈ children env S := hft ft (by simp [fieldTypes])
            have hreach := reach_child hchild
            have hext2 := ext_of_evo hext evo3
            have hext1 := ext_of_evo hext2 evo2
            obtain ⟨E, g1⟩ := hc ft a s c s1 T h1 hctx hext1 hfin hroot
              (noEmbedCycle_of_reach hsafe hreach) hgood
            have hfin1 := fin_of_evo hfin evo1
            have hroot1 := rootOK_of_evo hroot evo1
            -- the `string` option
            have hstr : SeenGood env d s2 T ∧ underEmbed (expandN d env T) (norm c2) =
                (if (str && quotedOK env ft) = true then pushQuoted (stdD d env ft a) else stdD d env ft a) := by
              by_cases hst : str = true
              · simp only [hst, if_true, Bool.true_and] at h2 ⊢
                constructor
                · rcases stringify_state _ env a ft c c2 s1 s2 h2 with rfl | ⟨p, hp⟩
                  · exact g1
                  · exact (hc ft a s1 p s2 T hp hctx hext2 hfin1 hroot1
                      (noEmbedCycle_of_reach hsafe hreach) g1).2
                · exact stringify_sem env f a ft c c2 s s1 s2 d T h1 h2 E
              · have hst' : str = false := by simpa using hst
                simp only [hst', Bool.false_eq_true, if_false, Bool.false_and] at h2 ⊢
                simp at h2
                rw [← h2.1, ← h2.2]
                refine ⟨g1, ?_⟩
                rw [underEmbed_ne _ _ ?_, E]
                rcases codec_plain env f ft a s s1 c h1 with ⟨hp, _⟩ | ⟨sp, _, rfl⟩
                · have := norm_plain c hp
                  intro x hx; rw [hx] at this; simp [plain] at this
                · intro x hx; simp [norm] at hx
            obtain ⟨g2, hfield⟩ := hstr
            have evo12 := evo1.trans evo2
            obtain ⟨g3, heq⟩ := fields_sem env f d hc hs hl S a R T hctx hsafe rest s2 r s3 h3 hftr hembr hext
              (fin_of_evo hfin evo12) (rootOK_of_evo hroot evo12) (rootIn_of_evo hrin evo12)
              (chain_of_evo hchain evo12) g2
            refine ⟨g3, ?_⟩
            simp only [stdFieldsWith, h0', Bool.false_eq_true, if_false]
            rw [← hcl]
            simp only [normCL, CL.mapChoice]
            rw [hfield, heq]

/-! ## the kind switch -/

theorem seenGood_of_table {env : Env} {d : Nat} {s T : Seen} (htab : SeenGood env d T T) (hext : Ext s T) :
    SeenGood env d s T := fun k fs hk hsk => htab k fs (hext k fs hk) hsk

/-- threading `SeenGood` through the kind switch -/
theorem kind_thread (env : Env) (f D : Nat) (hc : ACodec env f D) (hs : AStruct env f D) (t : TD) (a : Bool)
    (s s1 : Seen) (c1 : Choice) (T : Seen)
    (h : kindF (codecF f env) (structF f env) env t (under env t) a s = some (c1, s1))
    (hctx : Ctx env T D) (hext : Ext s1 T) (hfin : Fin env s T) (hroot : RootOK env s) (hsafe : NoEmbeddedCycle env t)
    (hgood : SeenGood env D s T) : SeenGood env D s1 T := by
  generalize hu : under env t = u at h
  cases u with
  | array n e =>
    simp only [kindF] at h
    have hch : Reach env t e := reach_child (by simp [children, hu])
    cases h1 : codecF f env e a s with
    | none => simp [h1] at h
    | some r =>
      obtain ⟨ce, s2⟩ := r; simp [h1] at h; obtain ⟨_, rfl⟩ := h
      exact (hc e a s ce s2 T h1 hctx hext hfin hroot (noEmbedCycle_of_reach hsafe hch) hgood).2
  | slice e =>
    simp only [kindF] at h
    have hch : Reach env t e := reach_child (by simp [children, hu])
    split at h
    · simp at h; rw [← h.2]; exact hgood
    · cases h1 : codecF f env e true s with
      | none => simp [h1] at h
      | some r =>
        obtain ⟨ce, s2⟩ := r; simp [h1] at h; obtain ⟨_, rfl⟩ := h
        exact (hc e true s ce s2 T h1 hctx hext hfin hroot (noEmbedCycle_of_reach hsafe hch) hgood).2
  | ptr e =>
    simp only [kindF] at h
    have hch : Reach env t e := reach_child (by simp [children, hu])
    cases h1 : codecF f env e true s with
    | none => simp [h1] at h
    | some r =>
      obtain ⟨ce, s2⟩ := r; simp [h1] at h; obtain ⟨_, rfl⟩ := h
      exact (hc e true s ce s2 T h1 hctx hext hfin hroot (noEmbedCycle_of_reach hsafe hch) hgood).2
  | map k v =>
    simp only [kindF] at h
    have hch : Reach env t v := reach_child (by simp [children, hu])
    split at h
    · simp at h; rw [← h.2]; exact hgood
    · cases h1 : codecF f env v false s with
      | none => simp [h1] at h
      | some r =>
        obtain ⟨vc, s2⟩ := r
        simp only [h1] at h
        cases h2 : mapKeyF (codecF f env) env k s2 with
        | none => simp [h2] at h
        | some r2 =>
          obtain ⟨kr, s3⟩ := r2
          have hs3 := (mapKey_sem env f k s2 s3 kr h2).2
          simp only [h2] at h
          have hs1 : s1 = s2 := by
            cases kr <;> simp at h <;> rw [← h.2, hs3]
          subst hs1
          exact (hc v false s vc s1 T h1 hctx hext hfin hroot (noEmbedCycle_of_reach hsafe hch) hgood).2
  | struct fs =>
    simp only [kindF] at h
    cases h1 : structF f env t a none s with
    | none => simp [h1] at h
    | some r =>
      obtain ⟨e, s2⟩ := r; simp [h1] at h; obtain ⟨_, rfl⟩ := h
      exact (hs t a none s e s2 T h1 (by simp [hu, isStructKind]) hctx hext hfin hroot (fun R hR => by cases hR) hsafe hgood).1
  | prim k => cases k <;> simp [kindF] at h <;> rw [← h.2] <;> exact hgood
  | nil => simp [kindF] at h; rw [← h.2]; exact hgood
  | special _ => simp [kindF] at h; rw [← h.2]; exact hgood
  | any _ => simp [kindF] at h; rw [← h.2]; exact hgood
  | iface _ _ _ => simp [kindF] at h; rw [← h.2]; exact hgood
  | ref _ => simp [kindF] at h; rw [← h.2]; exact hgood

theorem codec_special (env : Env) (f : Nat) (sp : Special) (a : Bool) (s s' : Seen) (c : Choice)
    (h : codecF f env (.special sp) a s = some (c, s')) : c = .special sp := by
  cases f with
  | zero => simp [codecF] at h
  | succ f => rw [codecF] at h; simp [firstSwitch] at h; exact h.1.symm

/-- the tree at depth `d + 1` of what the kind switch builds, from the trees at depth `d` of the calls -/
theorem kind_exp (env : Env) (f d : Nat) (hc : ACodec env f d) (hs : AStruct env f d) (t : TD) (a : Bool)
    (s s1 : Seen) (c1 : Choice) (T : Seen)
    (h : kindF (codecF f env) (structF f env) env t (under env t) a s = some (c1, s1))
    (hfs : firstSwitch t = none) (hm : stdMarshal env t a = none)
    (hctx : Ctx env T d) (htab : SeenGood env d T T) (hext : Ext s1 T) (hfin : Fin env s T) (hroot : RootOK env s)
    (hsafe : NoEmbeddedCycle env t) :
    expandN (d + 1) env T (norm c1) = stdD (d + 1) env t a := by
  have evo := kind_evo env f (JsonCodecChoiceEvo.main env f).1 (JsonCodecChoiceEvo.main env f).2.1 t _ a s s1 c1 h
  have hgood : SeenGood env d s T := seenGood_of_table htab (ext_of_evo hext evo)
  rw [stdD_succ _ _ _ _ (firstSwitch_none_not_opaque t hfs)]
  simp only [hm]
  have hfo : ∀ fs, under env t = .struct fs → fieldsOf env t = fs := by
    intro fs hu; simp [fieldsOf, hu]
  generalize hu : under env t = u at h hfo ⊢
  cases u with
  | prim k => cases k <;> simp [kindF] at h <;> rw [← h.1] <;> simp [norm, expandN, resolve]
  | nil => simp [kindF] at h; rw [← h.1]; simp [norm, expandN, resolve]
  | special _ => simp [kindF] at h; rw [← h.1]; simp [norm, expandN, resolve]
  | ref _ => simp [kindF] at h; rw [← h.1]; simp [norm, expandN, resolve]
  | any _ => simp [kindF] at h; rw [← h.1]; simp [norm, expandN, resolve]
  | iface _ _ _ => simp [kindF] at h; rw [← h.1]; simp [norm, expandN, resolve]
  | array n e =>
    simp only [kindF] at h
    have hch : Reach env t e := reach_child (by simp [children, hu])
    cases h1 : codecF f env e a s with
    | none => simp [h1] at h
    | some r =>
      obtain ⟨ce, s2⟩ := r; simp [h1] at h; obtain ⟨rfl, rfl⟩ := h
      have E := (hc e a s ce s2 T h1 hctx hext hfin hroot (noEmbedCycle_of_reach hsafe hch) hgood).1
      simp [norm, expandN, resolve, E]
  | slice e =>
    simp only [kindF] at h
    have hch : Reach env t e := reach_child (by simp [children, hu])
    by_cases hb : (under env e == .prim .uint8) = true
    · simp only [hb, if_true] at h
      simp at h; rw [← h.1]
      have hu8 : under env e = .prim .uint8 := by simpa using hb
      exact byteSlice_sem env e hu8 d T
    · have hb' : (under env e == .prim .uint8) = false := by simpa using hb
      simp only [hb', Bool.false_eq_true, if_false, Bool.false_and] at h ⊢
      cases h1 : codecF f env e true s with
      | none => simp [h1] at h
      | some r =>
        obtain ⟨ce, s2⟩ := r; simp [h1] at h; obtain ⟨rfl, rfl⟩ := h
        have E := (hc e true s ce s2 T h1 hctx hext hfin hroot (noEmbedCycle_of_reach hsafe hch) hgood).1
        simp [norm, expandN, resolve, E]
  | ptr e =>
    simp only [kindF] at h
    have hch : Reach env t e := reach_child (by simp [children, hu])
    cases h1 : codecF f env e true s with
    | none => simp [h1] at h
    | some r =>
      obtain ⟨ce, s2⟩ := r; simp [h1] at h; obtain ⟨rfl, rfl⟩ := h
      have E := (hc e true s ce s2 T h1 hctx hext hfin hroot (noEmbedCycle_of_reach hsafe hch) hgood).1
      rcases codec_plain env f e true s s2 ce h1 with ⟨hp, hne⟩ | ⟨sp, rfl, rfl⟩
      · have hpn := norm_plain ce hp
        simp only [norm]
        rw [expandN_ptr env T d _ (by intro s' hcs; rw [hcs] at hpn; simp [plain] at hpn)
          (by intro y hcs; rw [hcs] at hpn; simp [plain] at hpn), E]
      · simp [norm, expandN, resolve]
  | map k v =>
    simp only [kindF] at h
    have hch : Reach env t v := reach_child (by simp [children, hu])
    cases hfast : (if k == .prim .string then fastMapValue v else none) with
    | some vc =>
      simp only [hfast] at h
      simp at h; rw [← h.1]
      have hkstr : k = .prim .string := by
        by_cases hk' : (k == .prim .string) = true
        · simpa using hk'
        · simp [hk'] at hfast
      subst hkstr
      have hfv : fastMapValue v = some vc := by simpa using hfast
      simp [norm, expandN, resolve, stdKey, under, isStringKind, fast_sem env v vc hfv d T]
    | none =>
      simp only [hfast] at h
      cases h1 : codecF f env v false s with
      | none => simp [h1] at h
      | some r =>
        obtain ⟨vc, s2⟩ := r
        simp only [h1] at h
        cases hkey : mapKeyF (codecF f env) env k s2 with
        | none => simp [hkey] at h
        | some r2 =>
          obtain ⟨kr, s3⟩ := r2
          obtain ⟨hstd, hs3⟩ := mapKey_sem env f k s2 s3 kr hkey
          simp only [hkey] at h
          have hs1 : s1 = s2 := by
            cases kr <;> simp at h <;> rw [← h.2, hs3]
          subst hs1
          have E := (hc v false s vc s1 T h1 hctx hext hfin hroot (noEmbedCycle_of_reach hsafe hch) hgood).1
          show _ = (match stdKey env k with
            | none => Choice.unsupported
            | some kc => kc.map (stdD d env v false))
          cases kr with
          | none =>
            simp at h; rw [← h.1, ← hstd]
            simp [norm, expandN, resolve]
          | some kc =>
            simp at h; rw [← h.1, ← hstd]
            have hkc : norm kc = kc := by
              have hsk := hstd
              unfold stdKey at hsk
              simp only at hsk
              split at hsk
              · simp at hsk; subst hsk; simp [norm]
              · split at hsk
                · simp at hsk; subst hsk; split <;> simp [norm]
                · split at hsk
                  · simp at hsk; subst hsk
                    cases under env k <;> simp [norm, intKindLabel]
                  · cases hsk
            simp only [norm, norm_inline_if, hkc]
            simp [expandN, resolve, E]
  | struct fs =>
    simp only [kindF] at h
    cases h1 : structF f env t a none s with
    | none => simp [h1] at h
    | some r =>
      obtain ⟨e, s2⟩ := r; simp [h1] at h; obtain ⟨rfl, rfl⟩ := h
      have hsk : isStructKind (under env t) = true := by simp [hu, isStructKind]
      have hfg := (hs t a none s e s2 T h1 hsk hctx hext hfin hroot (fun R hR => by cases hR) hsafe hgood).2
      have hstd : stdFields d env t a =
          stdFieldsWith (stdD d env) (stdEmbedded (stdD d env) env (embedFuel env t) [t]) env a fs := by
        unfold stdFields; rw [hfo fs rfl]
      show _ = Choice.struct (stdFieldsWith (stdD d env) (stdEmbedded (stdD d env) env (embedFuel env t) [t]) env a fs)
      rw [← hstd]
      cases e with
      | done fs' =>
        have := hfg fs' rfl
        unfold FG at this
        simp only at this
        simp [Entry.toChoice, norm, expandN, resolve, this]
      | building r =>
        have hb := (struct_building env f t a none s s2 r h1).2
        obtain ⟨fs', hT⟩ := hfin (t, a) r hb hsk
        have := htab (t, a) fs' hT hsk
        unfold FG at this
        simp only at this
        simp [Entry.toChoice, norm, expandN, resolve, hT, this]

/-! ## `constructCodec` -/

/-- one call of `constructCodec`, unfolded -/
theorem codec_unfold (env : Env) (f : Nat) (t : TD) (a : Bool) (s s' : Seen) (c : Choice)
    (h : codecF (f + 1) env t a s = some (c, s')) :
    (firstSwitch t = some c ∧ s' = s) ∨
    (firstSwitch t = none ∧ (isRef t && isComposite (under env t)) = true ∧ (s.find (t, false)).isSome = true ∧
      c = .recur t a ∧ s' = s) ∨
    (firstSwitch t = none ∧ (isRef t && isComposite (under env t)) = true ∧ s.find (t, false) = none ∧
      ∃ c1 s1, kindF (codecF f env) (structF f env) env t (under env t) a (s.set (t, false) (.building (t, false))) = some (c1, s1) ∧
        c = marshalerOverride env t a c1 ∧ s' = s1.erase (t, false)) ∨
    (firstSwitch t = none ∧ (isRef t && isComposite (under env t)) = false ∧
      ∃ c1, kindF (codecF f env) (structF f env) env t (under env t) a s = some (c1, s') ∧
        c = marshalerOverride env t a c1) := by
  rw [codecF] at h
  cases hfs : firstSwitch t with
  | some c0 => simp [hfs] at h; exact .inl ⟨by rw [h.1], h.2.symm⟩
  | none =>
    right
    simp only [hfs] at h
    by_cases hn : (isRef t && isComposite (under env t)) = true
    · simp only [hn, Bool.true_and, if_true] at h
      cases hf : s.find (t, false) with
      | some e0 => simp [hf] at h; exact .inl ⟨rfl, hn, by simp, h.1.symm, h.2.symm⟩
      | none =>
        simp only [hf, Option.isSome_none, Bool.false_eq_true, if_false] at h
        cases hk : kindF (codecF f env) (structF f env) env t (under env t) a (s.set (t, false) (.building (t, false))) with
        | none => simp [hk] at h
        | some r =>
          obtain ⟨c1, s1⟩ := r
          simp [hk] at h
          exact .inr (.inl ⟨rfl, hn, rfl, c1, s1, rfl, h.1.symm, h.2.symm⟩)
    · have hn' : (isRef t && isComposite (under env t)) = false := by simpa using hn
      simp only [hn', Bool.false_and, Bool.false_eq_true, if_false] at h
      cases hk : kindF (codecF f env) (structF f env) env t (under env t) a s with
      | none => simp [hk] at h
      | some r =>
        obtain ⟨c1, s1⟩ := r
        simp [hk] at h
        exact .inr (.inr ⟨rfl, hn', c1, by rw [h.2], h.1.symm⟩)

theorem composite_not_struct (env : Env) (t : TD) (h : (isRef t && isComposite (under env t)) = true) :
    ¬ IsStructKey env (t, false) := by
  unfold IsStructKey
  simp only [Bool.and_eq_true] at h
  cases hu : under env t <;> simp [hu, isComposite] at h <;> simp [hu, isStructKind]

/-- the invariant across the registration of a named composite type -/
theorem named_pre (env : Env) (D : Nat) (t : TD) (s s1 T : Seen)
    (hn : (isRef t && isComposite (under env t)) = true) (habs : s.find (t, false) = none)
    (evo : Evo (s.set (t, false) (.building (t, false))) s1) (hext : Ext (s1.erase (t, false)) T) (hfin : Fin env s T)
    (hroot : RootOK env s) :
    Ext s1 T ∧ Fin env (s.set (t, false) (.building (t, false))) T ∧ RootOK env (s.set (t, false) (.building (t, false))) ∧
    (SeenGood env D s T → SeenGood env D (s.set (t, false) (.building (t, false))) T) ∧
    (SeenGood env D s1 T → SeenGood env D (s1.erase (t, false)) T) := by
  have hnk := composite_not_struct env t hn
  have hb1 : s1.find (t, false) = some (.building (t, false)) := (evo.2 _ _).mpr (find_set_self _ _ _)
  refine ⟨?_, ?_, ?_, ?_, ?_⟩
  · intro k fs hk
    have hne : k ≠ (t, false) := by intro e; subst e; rw [hb1] at hk; cases hk
    apply hext
    rw [find_erase]; simp [hne, hk]
  · intro k r hk hsk
    by_cases hke : k = (t, false)
    · subst hke; exact absurd hsk hnk
    · rw [find_set_ne _ _ _ _ hke] at hk; exact hfin k r hk hsk
  · intro k r hk hsk
    by_cases hke : k = (t, false)
    · subst hke; exact absurd hsk hnk
    · rw [find_set_ne _ _ _ _ hke] at hk
      obtain ⟨h1, r', h2⟩ := hroot k r hk hsk
      have hre : r ≠ (t, false) := by intro e; subst e; exact hnk h1
      exact ⟨h1, r', by rw [find_set_ne _ _ _ _ hre]; exact h2⟩
  · intro hg k fs hk hsk
    by_cases hke : k = (t, false)
    · subst hke; rw [find_set_self] at hk; cases hk
    · rw [find_set_ne _ _ _ _ hke] at hk; exact hg k fs hk hsk
  · intro hg k fs hk hsk
    rw [find_erase] at hk
    by_cases hke : k = (t, false)
    · simp [hke] at hk
    · simp only [hke, if_false] at hk; exact hg k fs hk hsk

theorem codec_thread (env : Env) (f D : Nat) (hc : ACodec env f D) (hs : AStruct env f D) (t : TD) (a : Bool)
    (s s' : Seen) (c : Choice) (T : Seen) (h : codecF (f + 1) env t a s = some (c, s'))
    (hctx : Ctx env T D) (hext : Ext s' T) (hfin : Fin env s T) (hroot : RootOK env s) (hsafe : NoEmbeddedCycle env t)
    (hgood : SeenGood env D s T) : SeenGood env D s' T := by
  rcases codec_unfold env f t a s s' c h with ⟨_, rfl⟩ | ⟨_, _, _, _, rfl⟩ | ⟨_, hn, habs, c1, s1, hk, _, rfl⟩ |
      ⟨_, hn, c1, hk, _⟩
  · exact hgood
  · exact hgood
  · have evo := kind_evo env f (JsonCodecChoiceEvo.main env f).1 (JsonCodecChoiceEvo.main env f).2.1 t _ a _ s1 c1 hk
    obtain ⟨e1, e2, e3, e4, e5⟩ := named_pre env D t s s1 T hn habs evo hext hfin hroot
    exact e5 (kind_thread env f D hc hs t a _ s1 c1 T hk hctx e1 e2 e3 hsafe (e4 hgood))
  · exact kind_thread env f D hc hs t a s s' c1 T hk hctx hext hfin hroot hsafe hgood

theorem noBackref_composite (codec : CodecFn) (strct : StructFn) (env : Env) (t u : TD) (a : Bool) (s s1 : Seen)
    (c1 : Choice) (hcomp : isComposite u = true) (h : kindF codec strct env t u a s = some (c1, s1)) :
    (∀ t' a', norm c1 ≠ .structRef t' a') ∧ (∀ t' a', norm c1 ≠ .recur t' a') := by
  cases u <;> simp [isComposite] at hcomp <;> simp only [kindF] at h
  · rename_i e
    split at h
    · simp at h; rw [← h.1]; unfold byteSliceChoice; (repeat' split) <;> simp [norm]
    · cases h1 : codec e true s with
      | none => simp [h1] at h
      | some r => obtain ⟨x, y⟩ := r; simp [h1] at h; rw [← h.1]; simp [norm]
  · rename_i n e
    cases h1 : codec e a s with
    | none => simp [h1] at h
    | some r => obtain ⟨x, y⟩ := r; simp [h1] at h; rw [← h.1]; simp [norm]
  · rename_i k v
    split at h
    · simp at h; rw [← h.1]; simp [norm]
    · cases h1 : codec v false s with
      | none => simp [h1] at h
      | some r =>
        obtain ⟨x, y⟩ := r; simp only [h1] at h
        cases h2 : mapKeyF codec env k y with
        | none => simp [h2] at h
        | some r2 =>
          obtain ⟨kr, z⟩ := r2; simp only [h2] at h
          cases kr <;> simp at h <;> rw [← h.1] <;> simp [norm]
  · rename_i e
    cases h1 : codec e true s with
    | none => simp [h1] at h
    | some r => obtain ⟨x, y⟩ := r; simp [h1] at h; rw [← h.1]; simp [norm]

theorem override_noBackref (env : Env) (t : TD) (a : Bool) (c : Choice)
    (h : (∀ t' a', norm c ≠ .structRef t' a') ∧ (∀ t' a', norm c ≠ .recur t' a')) :
    (∀ t' a', norm (marshalerOverride env t a c) ≠ .structRef t' a') ∧
      (∀ t' a', norm (marshalerOverride env t a c) ≠ .recur t' a') := by
  unfold marshalerOverride; (repeat' split) <;> first | exact h | simp [norm]

/-- a back reference to a named composite type: a fresh construction, whose top is not a back reference itself -/
theorem expandN_recur (env : Env) (T : Seen) (d : Nat) (t : TD) (a : Bool)
    (hn : (isRef t && isComposite (under env t)) = true) :
    expandN (d + 1) env T (.recur t a) = expandN (d + 1) env (choose env t a).2 (norm (choose env t a).1) := by
  have hch := choose_eq env t a
  obtain ⟨f, hf⟩ : ∃ f, fuelFor env t = f + 1 := by
    cases hfu : fuelFor env t with
    | zero => rw [hfu] at hch; simp [codecF] at hch
    | succ f => exact ⟨f, rfl⟩
  rw [hf] at hch
  have hcomp : isComposite (under env t) = true := by simp only [Bool.and_eq_true] at hn; exact hn.2
  have hch' : codecF (f + 1) env t a [] = some ((choose env t a).1, (choose env t a).2) := hch
  have hnb : (∀ t' a', norm (choose env t a).1 ≠ .structRef t' a') ∧ (∀ t' a', norm (choose env t a).1 ≠ .recur t' a') := by
    rcases codec_unfold env f t a [] (choose env t a).2 (choose env t a).1 hch' with ⟨hfs, _⟩ | ⟨_, _, hfound, _, _⟩ |
        ⟨_, _, _, c1, s1, hk, hc, _⟩ | ⟨_, hn', _, _, _⟩
    · cases t <;> simp [isRef] at hn
      simp [firstSwitch] at hfs
    · simp [Seen.find] at hfound
    · rw [hc]
      exact override_noBackref env t a c1 (noBackref_composite _ _ env t _ a _ s1 c1 hcomp hk)
    · rw [hn] at hn'; cases hn'
  conv => lhs; rw [expandN]; simp only [resolve]
  generalize norm (choose env t a).1 = c' at hnb ⊢
  generalize (choose env t a).2 = T'
  cases c' <;> simp [expandN, resolve]
  · exact absurd rfl (hnb.1 _ _)
  · exact absurd rfl (hnb.2 _ _)

theorem codec_exp (env : Env) (f d : Nat) (hc : ACodec env f d) (hs : AStruct env f d) (t : TD) (a : Bool)
    (s s' : Seen) (c : Choice) (T : Seen) (h : codecF (f + 1) env t a s = some (c, s'))
    (hctx : Ctx env T d) (htab : SeenGood env d T T) (hext : Ext s' T) (hfin : Fin env s T) (hroot : RootOK env s)
    (hsafe : NoEmbeddedCycle env t)
    (hrec : (isRef t && isComposite (under env t)) = true → (s.find (t, false)).isSome = true → MainFor env (d + 1) t a) :
    expandN (d + 1) env T (norm c) = stdD (d + 1) env t a := by
  have hov : ∀ c1, firstSwitch t = none →
      (stdMarshal env t a = none → expandN (d + 1) env T (norm c1) = stdD (d + 1) env t a) →
      expandN (d + 1) env T (norm (marshalerOverride env t a c1)) = stdD (d + 1) env t a := by
    intro c1 hfs hk
    rw [override_eq_std env t a c1 (firstSwitch_none_not_opaque t hfs)]
    cases hm : stdMarshal env t a with
    | some m =>
      rw [stdD_succ _ _ _ _ (firstSwitch_none_not_opaque t hfs)]
      simp only [hm, Option.getD]
      rcases stdMarshal_leaf env t a m hm with rfl | rfl | rfl | rfl <;> simp [norm, expandN, resolve]
    | none => simp only [Option.getD]; exact hk hm
  rcases codec_unfold env f t a s s' c h with ⟨hfs, rfl⟩ | ⟨_, hn, hfound, rfl, rfl⟩ | ⟨hfs, hn, habs, c1, s1, hk, rfl, rfl⟩ |
      ⟨hfs, hn, c1, hk, rfl⟩
  · exact firstSwitch_sem env t a c hfs (d + 1) T
  · have := hrec hn hfound
    unfold MainFor at this
    rw [← this]
    simp only [norm]
    exact expandN_recur env T d t a hn
  · have evo := kind_evo env f (JsonCodecChoiceEvo.main env f).1 (JsonCodecChoiceEvo.main env f).2.1 t _ a _ s1 c1 hk
    obtain ⟨e1, e2, e3, _, _⟩ := named_pre env d t s s1 T hn habs evo hext hfin hroot
    exact hov c1 hfs fun hm => kind_exp env f d hc hs t a _ s1 c1 T hk hfs hm hctx htab e1 e2 e3 hsafe
  · exact hov c1 hfs fun hm => kind_exp env f d hc hs t a s s' c1 T hk hfs hm hctx htab hext hfin hroot hsafe

/-! ## the induction on the fuel -/

theorem struct_step (env : Env) (f D : Nat) (hc : ACodec env f D) (hs : AStruct env f D) (hl : AList env f D) :
    AStruct env (f + 1) D := by
  intro t a root s e s' T h hsk hctx hext hfin hroot hrt hsafe hgood
  rw [structF] at h
  cases hf : s.find (t, a) with
  | some e0 =>
    simp [hf] at h
    obtain ⟨rfl, rfl⟩ := h
    refine ⟨hgood, ?_⟩
    intro fs he; subst he
    exact hgood (t, a) fs hf hsk
  | none =>
    simp only [hf] at h
    generalize hR : root.getD (t, a) = R at h
    cases hfl : fieldsF (codecF f env) (structF f env) (listF f env) env a R (fieldsOf env t)
        (s.set (t, a) (.building R)) with
    | none => simp [hfl] at h
    | some r =>
      obtain ⟨fs, s2⟩ := r
      simp [hfl] at h
      obtain ⟨rfl, rfl⟩ := h
      have hE := JsonCodecChoiceEvo.main env f
      have evo := fields_evo _ _ _ hE.1 hE.2.1 hE.2.2 env a R _ _ fs s2 hfl
      have hb2 : s2.find (t, a) = some (.building R) := (evo.2 _ _).mpr (find_set_self _ _ _)
      have hext2 : Ext s2 T := by
        intro k fs' hk
        have hne : k ≠ (t, a) := by intro e; subst e; rw [hb2] at hk; cases hk
        apply hext; rw [find_set_ne _ _ _ _ hne]; exact hk
      have hfin' : Fin env (s.set (t, a) (.building R)) T := by
        intro k r' hk hsk'
        by_cases hke : k = (t, a)
        · subst hke; exact ⟨fs, hext _ fs (find_set_self _ _ _)⟩
        · rw [find_set_ne _ _ _ _ hke] at hk; exact hfin k r' hk hsk'
      -- the root: this struct type itself, or the root it is embedded in
      have hRcases : (root = none ∧ R = (t, a)) ∨ (root = some R) := by
        cases root with
        | none => left; exact ⟨rfl, by simpa using hR.symm⟩
        | some R' => right; simp at hR; rw [hR]
      have hrin' : RootIn env (s.set (t, a) (.building R)) R := by
        rcases hRcases with ⟨_, rfl⟩ | hsome
        · exact ⟨hsk, _, find_set_self _ _ _⟩
        · obtain ⟨⟨h1, r', h2⟩, _⟩ := hrt R hsome
          have hne : R ≠ (t, a) := by intro e; subst e; rw [hf] at h2; cases h2
          exact ⟨h1, r', by rw [find_set_ne _ _ _ _ hne]; exact h2⟩
      have hroot' : RootOK env (s.set (t, a) (.building R)) := by
        intro k r' hk hsk'
        by_cases hke : k = (t, a)
        · subst hke; rw [find_set_self] at hk; cases hk; exact hrin'
        · rw [find_set_ne _ _ _ _ hke] at hk
          obtain ⟨h1, r'', h2⟩ := hroot k r' hk hsk'
          have hne : r' ≠ (t, a) := by intro e; subst e; rw [hf] at h2; cases h2
          exact ⟨h1, r'', by rw [find_set_ne _ _ _ _ hne]; exact h2⟩
      have hchain' : Chain env (s.set (t, a) (.building R)) R t := by
        intro k hk hsk'
        by_cases hke : k = (t, a)
        · subst hke; exact .refl _
        · rw [find_set_ne _ _ _ _ hke] at hk
          rcases hRcases with ⟨_, rfl⟩ | hsome
          · -- nothing is marked with a key that is not in `seen`
            obtain ⟨_, r'', h2⟩ := hroot k _ hk hsk'
            rw [hf] at h2; cases h2
          · exact (hrt R hsome).2 k hk hsk'
      have hgood' : SeenGood env D (s.set (t, a) (.building R)) T := by
        intro k fs' hk hsk'
        by_cases hke : k = (t, a)
        · subst hke; rw [find_set_self] at hk; cases hk
        · rw [find_set_ne _ _ _ _ hke] at hk; exact hgood k fs' hk hsk'
      obtain ⟨g, heq⟩ := fields_sem env f D hc hs hl t a R T hctx hsafe (fieldsOf env t) _ fs s2 hfl
        (fun ft hft => fieldTypes_children env t ft hft) (fun typ htyp => htyp) hext2 hfin' hroot' hrin' hchain' hgood'
      have hfg : FG env D T fs (t, a) := heq
      refine ⟨?_, fun fs' he => by cases he; exact hfg⟩
      intro k fs' hk hsk'
      by_cases hke : k = (t, a)
      · subst hke; rw [find_set_self] at hk; cases hk; exact hfg
      · rw [find_set_ne _ _ _ _ hke] at hk; exact g k fs' hk hsk'

theorem list_step (env : Env) (f D : Nat) (hc : ACodec env f D) (hs : AStruct env f D) (hl : AList env f D) :
    AList env (f + 1) D := by
  intro t a R s fs s' T h hsk hctx hext hfin hroot hrin hchain hsafe hgood
  rw [listF] at h
  exact fields_sem env f D hc hs hl t a R T hctx hsafe (fieldsOf env t) s fs s' h
    (fun ft hft => fieldTypes_children env t ft hft) (fun typ htyp => htyp) hext hfin hroot hrin hchain hgood

theorem mainA (env : Env) : ∀ f D, ACodec env f D ∧ AStruct env f D ∧ AList env f D
  | 0, D => ⟨fun t a s c s' T h => by simp [codecF] at h, fun t a root s e s' T h => by simp [structF] at h,
      fun t a R s fs s' T h => by simp [listF] at h⟩
  | f + 1, D => by
    have ih := mainA env f
    refine ⟨?_, struct_step env f D (ih D).1 (ih D).2.1 (ih D).2.2, list_step env f D (ih D).1 (ih D).2.1 (ih D).2.2⟩
    intro t a s c s' T h hctx hext hfin hroot hsafe hgood
    refine ⟨?_, codec_thread env f D (ih D).1 (ih D).2.1 t a s s' c T h hctx hext hfin hroot hsafe hgood⟩
    cases D with
    | zero => simp [expandN, stdD]
    | succ d =>
      exact codec_exp env f d (ih d).1 (ih d).2.1 t a s s' c T h (hctx.mono (by omega)) (hctx.less d (by omega)) hext hfin
        hroot hsafe (fun _ _ => hctx.main (d + 1) (Nat.le_refl _) t a hsafe)

/-! ## the top-level construction -/

theorem mainLe (env : Env) : ∀ d, MainLe env d
  | 0 => by
    intro d' hd t a _
    have : d' = 0 := by omega
    subst this
    simp [MainFor, expandN, stdD]
  | d + 1 => by
    have ihd := mainLe env d
    intro d' hd t a hsafe
    by_cases hlt : d' ≤ d
    · exact ihd d' hlt t a hsafe
    · have : d' = d + 1 := by omega
      subst this
      have hch := choose_eq env t a
      obtain ⟨f, hf⟩ : ∃ f, fuelFor env t = f + 1 := by
        cases hfu : fuelFor env t with
        | zero => rw [hfu] at hch; simp [codecF] at hch
        | succ f => exact ⟨f, rfl⟩
      generalize hT : (choose env t a).2 = T at hch
      generalize hc0 : (choose env t a).1 = c0 at hch
      have hch' : codecF (fuelFor env t) env t a [] = some (c0, T) := by rw [hch, ← hT, ← hc0]
      have hext : Ext T T := fun _ _ h => h
      have hfin : Fin env [] T := fun k r hk _ => by simp [Seen.find] at hk
      have hroot : RootOK env [] := fun k r hk _ => by simp [Seen.find] at hk
      have hempty : ∀ D, SeenGood env D [] T := fun D k fs hk _ => by simp [Seen.find] at hk
      -- the final table is good at every depth ≤ d
      have htab : ∀ D, D ≤ d → SeenGood env D T T := by
        intro D
        induction D using Nat.strongRecOn with
        | _ D ihD =>
          intro hD
          have hctx : Ctx env T D := ⟨fun D' hD' => ihD D' hD' (by omega), fun D' hD' => ihd D' (by omega)⟩
          exact ((mainA env (fuelFor env t) D).1 t a [] c0 T T hch' hctx hext hfin hroot hsafe (hempty D)).2
      have hctx : Ctx env T d := ⟨fun D' hD' => htab D' (by omega), ihd⟩
      rw [hf] at hch'
      unfold MainFor
      rw [hT, hc0]
      exact codec_exp env f d (mainA env f d).1 (mainA env f d).2.1 t a [] T c0 T hch' hctx (htab d (Nat.le_refl _)) hext hfin
        hroot hsafe (fun _ hfound => by simp [Seen.find] at hfound)

/-- **choose_eq_std**: for every environment of definitions, every type in which no struct lies on a cycle of EMBEDDED
structs, both addressabilities and every depth, the encoder tree `constructCodec` builds —
back references through `seen` resolved in the final `seen`, back references to named slice/map/pointer/array types
built on first use — is the tree of encoding/json's rule. -/
theorem choose_eq_std (env : Env) (t : TD) (a : Bool) (h : NoEmbeddedCycle env t) (d : Nat) :
    expandD d env (choose env t a).2 (choose env t a).1 = stdD d env t a :=
  mainLe env d d (Nat.le_refl _) t a h

end Enc.Lemmas.JsonCodecChoiceFull

#print axioms Enc.Lemmas.JsonCodecChoiceFull.choose_eq_std
