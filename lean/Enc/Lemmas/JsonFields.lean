import Enc.Lemmas.JsonFieldsTag
import Enc.Lemmas.JsonFieldsOrder
/-!
# Field resolution, part 3: without a name collision segmentio resolves the fields exactly as encoding/json

`segFields_eq_stdFields`: on a regular tree whose candidate names are pairwise distinct, the members computed by the
model of appendStructFields are those of the specification: same keys, same Go fields, same order, same options.
-/
namespace Enc.Lemmas.JsonFields
open Enc Enc.Model.Json.Fields Enc.Spec.Json.Fields List

/-! ### pairwise distinct names -/

theorem distinct_iff : ∀ (l : List Bytes), distinct l = true ↔ l.Nodup
  | [] => by simp [distinct]
  | a :: t => by
    rw [distinct, List.nodup_cons, Bool.and_eq_true, distinct_iff t]
    simp

theorem eq_of_nodup_map {α β} (f : α → β) : ∀ (l : List α), (l.map f).Nodup → ∀ a ∈ l, ∀ b ∈ l, f a = f b → a = b
  | [], _, _, ha, _, _, _ => absurd ha (by simp)
  | x :: t, h, a, ha, b, hb, hab => by
    rw [List.map_cons, List.nodup_cons] at h
    rcases List.mem_cons.mp ha with rfl | ha' <;> rcases List.mem_cons.mp hb with rfl | hb'
    · rfl
    · exact absurd (List.mem_map.mpr ⟨b, hb', hab.symm⟩) h.1
    · exact absurd (List.mem_map.mpr ⟨a, ha', hab⟩) h.1
    · exact eq_of_nodup_map f t h.2 a ha' b hb' hab

theorem countP_le_one_of_nodup_map {α} (f : α → Bytes) (n : Bytes) :
    ∀ (l : List α), (l.map f).Nodup → l.countP (fun x => f x == n) ≤ 1
  | [], _ => by simp
  | x :: t, h => by
    rw [List.map_cons, List.nodup_cons] at h
    rw [List.countP_cons]
    by_cases hx : f x = n
    · have : t.countP (fun x => f x == n) = 0 := by
        rw [List.countP_eq_zero]
        intro y hy hyn
        have : f y = n := by simpa using hyn
        exact h.1 (List.mem_map.mpr ⟨y, hy, by rw [this, hx]⟩)
      simp [this, hx]
    · have := countP_le_one_of_nodup_map f n t h.2
      have hx' : (f x == n) = false := by simpa using hx
      simp only [hx', Bool.false_eq_true, if_false]; omega

/-! ### items against candidates -/

def Item.name : Item → Bytes
  | .dir e => e.r.name
  | .emb e => e.sub.name
def Item.entry : Item → Entry
  | .dir e => e
  | .emb e => promote e
def Item.field (it : Item) : Field := it.entry.r.obs

/-- a field of an embedded struct seen from the embedding struct -/
def lift (i : Nat) (p : Bool) (f : Field) : Field := { f with path := i :: f.path, viaPtr := p || f.viaPtr }

theorem Item.field_name (it : Item) : it.field.name = it.name := by
  cases it <;> rfl

theorem embedAll_field (i : Nat) (p : Bool) : ∀ (subs : List Resolved) (j : Nat),
    ((embedAll i p j subs).map Item.emb).map Item.field = (subs.map Resolved.obs).map (lift i p)
  | [], _ => rfl
  | r :: rest, j => by
    rw [embedAll, List.map_cons, List.map_cons, List.map_cons, List.map_cons, embedAll_field i p rest (j + 1)]
    rfl

theorem any_le_countP {α} (p : α → Bool) : ∀ (l : List α), (if l.any p then 1 else 0) ≤ l.countP p
  | [] => by simp
  | a :: t => by
    have ih := any_le_countP p t
    rw [List.any_cons, List.countP_cons]
    cases h1 : p a <;> cases h2 : t.any p <;> simp only [h2] at ih ⊢ <;> simp at ih ⊢ <;> omega

theorem countP_items (n : Bytes) : ∀ (its : List Item),
    its.countP (fun it => it.name == n) =
      (its.filterMap Item.dir?).countP (fun e => e.r.name == n) + (its.filterMap Item.emb?).countP (fun e => e.sub.name == n)
  | [] => rfl
  | .dir e :: t => by
    rw [List.countP_cons, countP_items n t, List.filterMap_cons, List.filterMap_cons]
    simp only [Item.dir?, Item.emb?, List.countP_cons]
    show _ + (if (e.r.name == n) = true then 1 else 0) = _
    omega
  | .emb e :: t => by
    rw [List.countP_cons, countP_items n t, List.filterMap_cons, List.filterMap_cons]
    simp only [Item.dir?, Item.emb?, List.countP_cons]
    show _ + (if (e.sub.name == n) = true then 1 else 0) = _
    omega

theorem ambiguousNames_le (n : Bytes) (its : List Item) :
    ambiguousNames ⟨its.filterMap Item.dir?, its.filterMap Item.emb?⟩ n ≤ its.countP (fun it => it.name == n) := by
  rw [countP_items]
  unfold ambiguousNames
  have := any_le_countP (fun e : Entry => e.r.name == n) (its.filterMap Item.dir?)
  simp only at this ⊢
  omega

/-- with pairwise distinct names nothing is ambiguous: every item is kept -/
theorem emit_all (s : Scan) (its : List Item) (hd : s.direct = its.filterMap Item.dir?)
    (he : s.embedded = its.filterMap Item.emb?) (hn : (its.map Item.name).Nodup) :
    its.filterMap (emit s) = its.map Item.entry := by
  have hs : s = ⟨its.filterMap Item.dir?, its.filterMap Item.emb?⟩ := by
    cases s; simp only at hd he; rw [hd, he]
  have key : ∀ it ∈ its, emit s it = some it.entry := by
    intro it _
    cases it with
    | dir e => rfl
    | emb e =>
      have h1 := ambiguousNames_le e.sub.name its
      have h2 := countP_le_one_of_nodup_map Item.name e.sub.name its hn
      rw [← hs] at h1
      have : dropped s e = false := by
        unfold dropped
        have : ¬ ambiguousNames s e.sub.name > 1 := by omega
        simp [this]
      simp [emit, this, Item.entry]
  clear hs hd he hn
  induction its with
  | nil => rfl
  | cons a t ih =>
    rw [List.filterMap_cons, key a (List.mem_cons_self ..), List.map_cons,
      ih (fun it h => key it (List.mem_cons_of_mem _ h))]

theorem lift_field_map (i : Nat) (p : Bool) (l : List Cand) :
    (l.map fun c => { c with path := i :: c.path, viaPtr := p || c.viaPtr }).map Cand.field
      = (l.map Cand.field).map (lift i p) := by
  induction l with
  | nil => rfl
  | cons a t ih => simp only [List.map_cons, ih]; rfl

theorem lift_name_map (i : Nat) (p : Bool) (l : List Cand) :
    (l.map fun c => { c with path := i :: c.path, viaPtr := p || c.viaPtr }).map (·.name) = l.map (·.name) := by
  induction l with
  | nil => rfl
  | cons a t ih => simp only [List.map_cons, ih]

theorem map_field_name (l : List Cand) : (l.map Cand.field).map (·.name) = l.map (·.name) := by
  induction l with
  | nil => rfl
  | cons a t ih => simp only [List.map_cons, ih]; rfl

mutual
/-- what the first loop sees is the candidate list of the specification -/
theorem items_cands : ∀ (fs : Fields) (i : Nat), regular fs = true → ((cands fs i).map (·.name)).Nodup →
    (items fs i).map Item.field = (cands fs i).map Cand.field
  | .nil, _, _, _ => rfl
  | .cons g tag an ex ty rest, i, hr, hn => by
    rw [regular] at hr
    simp only [Bool.and_eq_true, bne_iff_ne, ne_eq] at hr
    obtain ⟨⟨hg, hsub⟩, hrest⟩ := hr
    rw [cands, List.map_append, List.nodup_append] at hn
    obtain ⟨hn1, hn2, _⟩ := hn
    have ih := items_cands rest (i + 1) hrest hn2
    rw [items, cands, List.map_append, List.map_append, ih, action_eq_role g tag an ex ty.isStruct hg]
    congr 1
    cases hrole : role g tag an ex ty.isStruct with
    | ignored => rfl
    | embedded =>
      rw [hrole] at hsub hn1
      simp only [toAction] at hsub hn1 ⊢
      rw [lift_name_map] at hn1
      rw [embedAll_field, lift_field_map, sub_cands ty hsub hn1]
    | candidate n t o s => rfl
/-- the resolved fields of an embedded struct are its candidates -/
theorem sub_cands : ∀ (ty : Ty), regularTy ty = true → ((candsOf ty).map (·.name)).Nodup →
    (subFields ty).map Resolved.obs = (candsOf ty).map Cand.field
  | .leaf, _, _ => rfl
  | .ptrLeaf, _, _ => rfl
  | .struct fs, hr, hn => by
    rw [regularTy] at hr
    rw [candsOf] at hn ⊢
    have h := items_cands fs 0 hr hn
    rw [subFields, finish_scan]
    have hnames : ((items fs 0).map Item.name).Nodup := by
      have : (items fs 0).map Item.name = ((items fs 0).map Item.field).map (·.name) := by
        rw [List.map_map]; congr 1; funext it; exact (Item.field_name it).symm
      rw [this, h, map_field_name]; exact hn
    rw [emit_all (scan fs 0) (items fs 0) (by rw [scan_eq_items]) (by rw [scan_eq_items]) hnames]
    rw [← h, List.map_map, List.map_map]; rfl
  | .ptrStruct fs, hr, hn => by
    rw [regularTy] at hr
    rw [candsOf] at hn ⊢
    have h := items_cands fs 0 hr hn
    rw [subFields, finish_scan]
    have hnames : ((items fs 0).map Item.name).Nodup := by
      have : (items fs 0).map Item.name = ((items fs 0).map Item.field).map (·.name) := by
        rw [List.map_map]; congr 1; funext it; exact (Item.field_name it).symm
      rw [this, h, map_field_name]; exact hn
    rw [emit_all (scan fs 0) (items fs 0) (by rw [scan_eq_items]) (by rw [scan_eq_items]) hnames]
    rw [← h, List.map_map, List.map_map]; rfl
end

/-! ### the specification without a collision: every candidate, in declaration order -/

theorem pathLE_cons_self (i : Nat) (p q : List Nat) : pathLE (i :: p) (i :: q) = pathLE p q := by
  simp [pathLE]

mutual
theorem cands_sorted : ∀ (fs : Fields) (i : Nat),
    (cands fs i).Pairwise (fun a b => pathLE a.path b.path = true) ∧
      ∀ c ∈ cands fs i, ∃ k p, c.path = k :: p ∧ i ≤ k
  | .nil, _ => by simp [cands]
  | .cons g tag an ex ty rest, i => by
    have ⟨h1, h2⟩ := cands_sorted rest (i + 1)
    have hrest : ∀ c ∈ cands rest (i + 1), ∃ k p, c.path = k :: p ∧ i ≤ k := fun c hc => by
      obtain ⟨k, p, hp, hk⟩ := h2 c hc; exact ⟨k, p, hp, by omega⟩
    rw [cands]
    cases hrole : role g tag an ex ty.isStruct with
    | ignored => simp only [List.nil_append]; exact ⟨h1, hrest⟩
    | embedded =>
      simp only
      have hs := candsOf_sorted ty
      refine ⟨List.pairwise_append.mpr ⟨?_, h1, ?_⟩, ?_⟩
      · rw [List.pairwise_map]
        exact hs.imp (fun {a b} h => by simpa [pathLE_cons_self] using h)
      · intro a ha b hb
        obtain ⟨c, _, rfl⟩ := List.mem_map.mp ha
        obtain ⟨k, p, hp, hk⟩ := h2 b hb
        rw [hp]
        simp only [pathLE, Bool.or_eq_true, decide_eq_true_eq]
        left; omega
      · intro c hc
        rcases List.mem_append.mp hc with hc | hc
        · obtain ⟨d, _, rfl⟩ := List.mem_map.mp hc
          exact ⟨i, d.path, rfl, Nat.le_refl _⟩
        · exact hrest c hc
    | candidate n t o s =>
      simp only [List.singleton_append]
      refine ⟨List.pairwise_cons.mpr ⟨?_, h1⟩, ?_⟩
      · intro b hb
        obtain ⟨k, p, hp, hk⟩ := h2 b hb
        rw [hp]
        simp only [pathLE, Bool.or_eq_true, decide_eq_true_eq]
        left; omega
      · intro c hc
        rcases List.mem_cons.mp hc with rfl | hc
        · exact ⟨i, [], rfl, Nat.le_refl _⟩
        · exact hrest c hc
theorem candsOf_sorted : ∀ (ty : Ty), (candsOf ty).Pairwise (fun a b => pathLE a.path b.path = true)
  | .leaf => by simp [candsOf]
  | .ptrLeaf => by simp [candsOf]
  | .struct fs => by rw [candsOf]; exact (cands_sorted fs 0).1
  | .ptrStruct fs => by rw [candsOf]; exact (cands_sorted fs 0).1
end

theorem dominant_of_nodup (all : List Cand) (hn : (all.map (·.name)).Nodup) : ∀ c ∈ all, dominant all c = true := by
  intro c hc
  unfold dominant
  rw [List.all_eq_true]
  intro d hd
  by_cases hdc : d.name = c.name
  · have := eq_of_nodup_map (·.name) all hn d hd c hc hdc
    subst this
    simp
  · have : (d.name != c.name) = true := by simpa using hdc
    simp [this]

/-- the candidates come in index order, so the final sort of typeFields does nothing -/
theorem stdFields_eq_filter (fs : Fields) :
    stdFields fs = ((candidates fs).filter (dominant (candidates fs))).map Cand.field := by
  unfold stdFields
  rw [mergeSort_of_pairwise]
  exact List.Pairwise.sublist List.filter_sublist (cands_sorted fs 0).1

/-- without a collision encoding/json serialises every candidate, in declaration order -/
theorem stdFields_of_nodup (fs : Fields) (hn : (candidateNames fs).Nodup) :
    stdFields fs = (candidates fs).map Cand.field := by
  rw [stdFields_eq_filter, List.filter_eq_self.mpr (dominant_of_nodup _ hn)]

/-! ### appendStructFields without any sort (used to evaluate the model inside the kernel) -/

def finishFlat (its : List Item) : List Resolved :=
  (its.filterMap (emit ⟨its.filterMap Item.dir?, its.filterMap Item.emb?⟩)).map (·.r)

mutual
def itemsFlat : Fields → Nat → List Item
  | .nil, _ => []
  | .cons goName tag anonymous exported ty rest, i =>
    (match action goName tag anonymous exported ty.isStruct with
     | .skip => []
     | .embed => (embedAll i ty.isPtr 0 (subFlat ty)).map .emb
     | .direct name tg omitempty stringify =>
       [.dir ⟨i, 0, ⟨name, [i], tg, omitempty, stringify && ty.isScalar, false⟩⟩]) ++ itemsFlat rest (i + 1)
def subFlat : Ty → List Resolved
  | .struct fs => finishFlat (itemsFlat fs 0)
  | .ptrStruct fs => finishFlat (itemsFlat fs 0)
  | _ => []
end

/-- the members in declaration order: direct fields, and the unambiguous subfields of embedded structs in place -/
def flatFields (fs : Fields) : List Resolved := finishFlat (itemsFlat fs 0)

theorem finish_eq_flat (fs : Fields) : finish (scan fs 0) = finishFlat (items fs 0) := by
  rw [finish_scan, scan_eq_items]; rfl

mutual
theorem items_eq_flat : ∀ (fs : Fields) (i : Nat), items fs i = itemsFlat fs i
  | .nil, _ => rfl
  | .cons g tag an ex ty rest, i => by
    rw [items, itemsFlat, items_eq_flat rest (i + 1), sub_eq_flat ty]
    cases action g tag an ex ty.isStruct <;> rfl
theorem sub_eq_flat : ∀ (ty : Ty), subFields ty = subFlat ty
  | .leaf => rfl
  | .ptrLeaf => rfl
  | .struct fs => by rw [subFields, subFlat, finish_eq_flat, items_eq_flat fs 0]
  | .ptrStruct fs => by rw [subFields, subFlat, finish_eq_flat, items_eq_flat fs 0]
end

/-- the sort at the end of appendStructFields only restores the declaration order -/
theorem segFields_eq_flat (fs : Fields) : segFields fs = flatFields fs := by
  unfold segFields flatFields
  rw [finish_eq_flat, items_eq_flat]

/-! ### MAIN -/

/-- MAIN: on a regular struct type tree without a JSON-name collision among the candidate fields, the members resolved
by segmentio (appendStructFields as written) are exactly those of encoding/json: same keys, same Go fields (index
paths), same order, same omitempty / string / embedded-pointer attributes. -/
theorem segFields_eq_stdFields (fs : Fields) (hr : regular fs = true) (hc : collisionFree fs = true) :
    (segFields fs).map Resolved.obs = stdFields fs := by
  have hn : (candidateNames fs).Nodup := (distinct_iff _).mp hc
  rw [stdFields_of_nodup fs hn]
  exact sub_cands (.struct fs) hr hn

#print axioms segFields_eq_stdFields
#print axioms segFields_eq_flat
#print axioms stdFields_eq_filter
#print axioms action_eq_role

end Enc.Lemmas.JsonFields
