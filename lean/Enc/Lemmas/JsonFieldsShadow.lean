import Enc.Lemmas.JsonFieldsShadowStd
/-!
# Field resolution, part 5 (model side): when shadowing explains every collision, appendStructFields serialises the
# unshadowed candidates — hence exactly what encoding/json serialises

The induction carries a set `H` of names that an enclosing struct hides anyway: restricted to the names outside `H`,
the resolved fields of a struct are its unshadowed candidates, provided THOSE have pairwise distinct names
(`sub_visible`). Inside one struct: a promoted subfield whose name is a direct name is always dropped (ambiguousNames ≥ 2,
ambiguousTags ≥ 2 when it is tagged); one whose name is neither direct nor hidden is counted once and kept.
-/
namespace Enc.Lemmas.JsonFields
open Enc Enc.Model.Json.Fields Enc.Spec.Json.Fields List

def notIn (H : List Bytes) (n : Bytes) : Bool := !H.contains n

theorem notIn_append (a b : List Bytes) (n : Bytes) : notIn (a ++ b) n = (notIn a n && notIn b n) := by
  simp [notIn]

def Item.isDir : Item → Bool
  | .dir _ => true
  | .emb _ => false

/-- the items that survive, seen from outside `H`: direct fields, and subfields whose name is not a direct name -/
def keepS (dn H : List Bytes) (it : Item) : Bool := notIn H it.name && (it.isDir || notIn dn it.name)

theorem Item.entry_name (it : Item) : it.entry.r.name = it.name := by
  cases it <;> rfl

theorem emit_entry (s : Scan) (it : Item) (e : Entry) (h : emit s it = some e) : e = it.entry := by
  cases it with
  | dir d => simp only [emit, Option.some.injEq] at h; exact h.symm
  | emb d =>
    simp only [emit] at h
    split at h
    · exact absurd h (by simp)
    · simp only [Option.some.injEq] at h; exact h.symm

/-! ### the direct names of the model are those of the specification -/

theorem dirs_names : ∀ (fs : Fields) (i : Nat), regular fs = true →
    ((items fs i).filterMap Item.dir?).map (fun e => e.r.name) = directNames fs
  | .nil, _, _ => rfl
  | .cons g tag an ex ty rest, i, hr => by
    rw [regular] at hr
    simp only [Bool.and_eq_true, bne_iff_ne, ne_eq] at hr
    obtain ⟨⟨hg, _⟩, hrest⟩ := hr
    have ih := dirs_names rest (i + 1) hrest
    rw [items, directNames, List.filterMap_append, List.map_append, ih, action_eq_role g tag an ex ty.isStruct hg]
    congr 1
    cases hrole : role g tag an ex ty.isStruct with
    | ignored => rfl
    | embedded => simp only [toAction, filterMap_dir_map_emb, List.map_nil]
    | candidate n t o s => rfl

theorem any_name_eq_contains {α} (f : α → Bytes) (n : Bytes) : ∀ (l : List α),
    l.any (fun e => f e == n) = (l.map f).contains n
  | [] => rfl
  | a :: t => by
    rw [List.any_cons, List.map_cons, List.contains_cons, any_name_eq_contains f n t]
    congr 1
    by_cases h : f a = n
    · subst h; simp
    · have h' : ¬ n = f a := fun e => h e.symm
      have h1 : (f a == n) = false := by simpa using h
      have h2 : (n == f a) = false := by simpa using h'
      rw [h1, h2]

/-! ### one struct: which items are kept -/

theorem countP_embs (p : Emb → Bool) : ∀ (its : List Item),
    (its.filterMap Item.emb?).countP p = its.countP (fun it => match it with | .emb e => p e | .dir _ => false)
  | [] => rfl
  | .dir e :: t => by
    have ih := countP_embs p t
    simp only [List.filterMap_cons, Item.emb?, List.countP_cons, ih]
    simp
  | .emb e :: t => by
    have ih := countP_embs p t
    simp only [List.filterMap_cons, Item.emb?, List.countP_cons, ih]

theorem emit_keep (s : Scan) (its : List Item) (dn H : List Bytes)
    (hd : s.direct = its.filterMap Item.dir?) (he : s.embedded = its.filterMap Item.emb?)
    (hdn : ∀ n, (its.filterMap Item.dir?).any (fun e => e.r.name == n) = dn.contains n)
    (hnd : ((its.filter fun it => !it.isDir && notIn (dn ++ H) it.name).map Item.name).Nodup) :
    ∀ it ∈ its, ((emit s it).isSome && notIn H it.name) = keepS dn H it := by
  intro it hit
  cases it with
  | dir e => simp [emit, keepS, Item.isDir]
  | emb e =>
    have hmem : e ∈ its.filterMap Item.emb? := List.mem_filterMap.mpr ⟨_, hit, rfl⟩
    have hsome : (emit s (.emb e)).isSome = !dropped s e := by
      simp only [emit]; split <;> simp_all
    rw [hsome]
    simp only [keepS, Item.isDir, Item.name, Bool.false_or]
    cases hH : notIn H e.sub.name with
    | false => simp
    | true =>
      simp only [Bool.and_true, Bool.true_and]
      cases hc : dn.contains e.sub.name with
      | true =>
        -- a direct field has this name: the subfield is ambiguous
        have hc' : e.sub.name ∈ dn := List.contains_iff_mem.mp hc
        have hany : s.direct.any (fun d => d.r.name == e.sub.name) = true := by rw [hd, hdn, hc]
        have h1 : 1 ≤ s.embedded.countP (fun e' => e'.sub.name == e.sub.name) := by
          rw [he]; exact List.one_le_countP_iff.mpr ⟨e, hmem, by simp⟩
        have hN : ambiguousNames s e.sub.name > 1 := by
          unfold ambiguousNames; rw [hany]; simp only [if_true]; omega
        have hT : e.sub.tag = true → ambiguousTags s e.sub.name ≠ 1 := by
          intro ht
          have h2 : 1 ≤ s.embedded.countP (fun e' => e'.sub.tag && e'.sub.name == e.sub.name) := by
            rw [he]; exact List.one_le_countP_iff.mpr ⟨e, hmem, by simp [ht]⟩
          unfold ambiguousTags; rw [hany]; simp only [if_true]; omega
        have : dropped s e = true := by
          unfold dropped
          cases ht : e.sub.tag with
          | false => simp [hN]
          | true => simp [hN, hT ht]
        simp [this, notIn, hc']
      | false =>
        -- neither direct nor hidden: counted exactly once
        have hc' : ¬ e.sub.name ∈ dn := fun h => by
          have := List.contains_iff_mem.mpr h
          rw [hc] at this; exact absurd this (by simp)
        have hout : notIn (dn ++ H) e.sub.name = true := by
          rw [notIn_append, hH]; simp [notIn, hc']
        have hany : s.direct.any (fun d => d.r.name == e.sub.name) = false := by rw [hd, hdn, hc]
        have hcnt : s.embedded.countP (fun e' => e'.sub.name == e.sub.name) ≤ 1 := by
          rw [he, countP_embs]
          have hle := countP_le_one_of_nodup_map Item.name e.sub.name _ hnd
          rw [List.countP_filter] at hle
          refine Nat.le_trans (List.countP_mono_left ?_) hle
          intro it _ hp
          cases it with
          | dir d => simp at hp
          | emb e' =>
            simp only at hp
            have hn : e'.sub.name = e.sub.name := by simpa using hp
            simp [Item.name, Item.isDir, hn, hout]
        have : dropped s e = false := by
          unfold dropped
          have : ¬ ambiguousNames s e.sub.name > 1 := by
            unfold ambiguousNames; rw [hany]; simp only [Bool.false_eq_true, if_false]; omega
          simp [this]
        simp [this, notIn, hc']

theorem filter_emit (s : Scan) (H : List Bytes) (keep : Item → Bool) : ∀ (its : List Item),
    (∀ it ∈ its, ((emit s it).isSome && notIn H it.name) = keep it) →
    (((its.filterMap (emit s)).map (·.r)).filter fun r => notIn H r.name).map Resolved.obs
      = (its.filter keep).map Item.field
  | [], _ => rfl
  | a :: t, h => by
    have ih := filter_emit s H keep t (fun it hit => h it (List.mem_cons_of_mem _ hit))
    have ha := h a (List.mem_cons_self ..)
    rw [List.filterMap_cons, List.filter_cons]
    cases he : emit s a with
    | none =>
      rw [he] at ha
      simp only [Option.isSome_none, Bool.false_and] at ha
      simp only [← ha, Bool.false_eq_true, if_false]
      exact ih
    | some e =>
      rw [he] at ha
      have hea := emit_entry s a e he
      subst hea
      simp only [Option.isSome_some, Bool.true_and] at ha
      simp only [List.map_cons, List.filter_cons, Item.entry_name, ha]
      cases keep a with
      | false => simpa using ih
      | true => simp only [if_true, List.map_cons, ih]; rfl

/-! ### blocks -/

theorem emb_block_filter (i : Nat) (p : Bool) (dn H : List Bytes) : ∀ (subs : List Resolved) (j : Nat),
    (((embedAll i p j subs).map Item.emb).filter (keepS dn H)).map Item.field
      = ((subs.filter fun r => notIn (dn ++ H) r.name).map Resolved.obs).map (lift i p)
  | [], _ => rfl
  | r :: rest, j => by
    have ih := emb_block_filter i p dn H rest (j + 1)
    have hk : keepS dn H (.emb ⟨i, j, p, r⟩) = notIn (dn ++ H) r.name := by
      simp only [keepS, Item.name, Item.isDir, Bool.false_or, notIn_append]
      exact Bool.and_comm _ _
    rw [embedAll, List.map_cons, List.filter_cons, List.filter_cons, hk]
    cases notIn (dn ++ H) r.name with
    | false => simpa using ih
    | true => simp only [if_true, List.map_cons, ih]; rfl

theorem vis_block_filter (i : Nat) (p : Bool) (dn H : List Bytes) : ∀ (vs : List Cand),
    ((((vs.filter fun c => !dn.contains c.name).map fun c =>
        { c with path := i :: c.path, viaPtr := p || c.viaPtr }).filter fun c => notIn H c.name).map Cand.field)
      = ((vs.filter fun c => notIn (dn ++ H) c.name).map Cand.field).map (lift i p)
  | [] => rfl
  | v :: rest => by
    have ih := vis_block_filter i p dn H rest
    simp only [notIn, List.contains_append, Bool.not_or] at ih ⊢
    cases h1 : dn.contains v.name with
    | true =>
      simp only [List.filter_cons, h1, Bool.not_true, Bool.false_and, Bool.false_eq_true, if_false]
      exact ih
    | false =>
      cases h2 : H.contains v.name with
      | true =>
        simp only [List.filter_cons, List.map_cons, h1, h2, Bool.not_false, Bool.not_true, Bool.and_false,
          Bool.false_eq_true, if_false, if_true]
        exact ih
      | false =>
        simp only [List.filter_cons, List.map_cons, h1, h2, Bool.not_false, Bool.and_true, if_true, ih]
        rfl

theorem lift_map_name (i : Nat) (p : Bool) (l : List Field) : (l.map (lift i p)).map (·.name) = l.map (·.name) := by
  induction l with
  | nil => rfl
  | cons a t ih => simp only [List.map_cons, ih]; rfl

/-! ### the induction over the tree -/

mutual
theorem items_visible : ∀ (fs : Fields) (i : Nat) (dn H : List Bytes), regular fs = true →
    (((visibleFrom dn fs i).filter fun c => notIn H c.name).map (·.name)).Nodup →
    ((items fs i).filter (keepS dn H)).map Item.field
      = ((visibleFrom dn fs i).filter fun c => notIn H c.name).map Cand.field
  | .nil, _, _, _, _, _ => rfl
  | .cons g tag an ex ty rest, i, dn, H, hr, hn => by
    rw [regular] at hr
    simp only [Bool.and_eq_true, bne_iff_ne, ne_eq] at hr
    obtain ⟨⟨hg, hsub⟩, hrest⟩ := hr
    rw [visibleFrom, List.filter_append, List.map_append, List.nodup_append] at hn
    obtain ⟨hn1, hn2, _⟩ := hn
    have ih := items_visible rest (i + 1) dn H hrest hn2
    rw [items, visibleFrom, List.filter_append, List.filter_append, List.map_append, List.map_append, ih,
      action_eq_role g tag an ex ty.isStruct hg]
    congr 1
    cases hrole : role g tag an ex ty.isStruct with
    | ignored => rfl
    | candidate n t o s =>
      simp only [toAction, List.filter_cons, keepS, Item.name, Item.isDir, Bool.true_or, Bool.and_true, List.filter_nil]
      cases notIn H n with
      | false => rfl
      | true => rfl
    | embedded =>
      rw [hrole] at hsub hn1
      simp only [toAction] at hsub hn1 ⊢
      have hb := vis_block_filter i ty.isPtr dn H (visibleOf ty)
      have hnames : (((visibleOf ty).filter fun c => notIn (dn ++ H) c.name).map (·.name)).Nodup := by
        have := congrArg (fun l => l.map (·.name)) hb
        simp only [map_field_name, lift_map_name] at this
        rw [← this]; exact hn1
      rw [emb_block_filter, sub_visible ty (dn ++ H) hsub hnames, hb]
theorem sub_visible : ∀ (ty : Ty) (H : List Bytes), regularTy ty = true →
    (((visibleOf ty).filter fun c => notIn H c.name).map (·.name)).Nodup →
    ((subFields ty).filter fun r => notIn H r.name).map Resolved.obs
      = ((visibleOf ty).filter fun c => notIn H c.name).map Cand.field
  | .leaf, _, _, _ => rfl
  | .ptrLeaf, _, _, _ => rfl
  | .struct fs, H, hr, hn => by
    rw [regularTy] at hr
    rw [visibleOf] at hn ⊢
    have h1 := items_visible fs 0 (directNames fs) H hr hn
    rw [subFields, finish_scan]
    have hdn : ∀ n, ((items fs 0).filterMap Item.dir?).any (fun e => e.r.name == n) = (directNames fs).contains n := by
      intro n; rw [any_name_eq_contains, dirs_names fs 0 hr]
    have hnd : (((items fs 0).filter fun it => !it.isDir && notIn (directNames fs ++ H) it.name).map Item.name).Nodup := by
      have hk : (((items fs 0).filter (keepS (directNames fs) H)).map Item.name).Nodup := by
        have : ((items fs 0).filter (keepS (directNames fs) H)).map Item.name
            = (((items fs 0).filter (keepS (directNames fs) H)).map Item.field).map (·.name) := by
          rw [List.map_map]; congr 1; funext it; exact (Item.field_name it).symm
        rw [this, h1, map_field_name]; exact hn
      have hsubl : ((items fs 0).filter fun it => !it.isDir && notIn (directNames fs ++ H) it.name)
          <+ (items fs 0).filter (keepS (directNames fs) H) := by
        have : ((items fs 0).filter fun it => !it.isDir && notIn (directNames fs ++ H) it.name)
            = ((items fs 0).filter (keepS (directNames fs) H)).filter
                fun it => !it.isDir && notIn (directNames fs ++ H) it.name := by
          rw [List.filter_filter]
          congr 1; funext it
          simp only [keepS, notIn_append]
          cases it.isDir <;> cases notIn (directNames fs) it.name <;> cases notIn H it.name <;> rfl
        rw [this]; exact List.filter_sublist
      exact hk.sublist (hsubl.map _)
    rw [filter_emit (scan fs 0) H (keepS (directNames fs) H) (items fs 0)
      (emit_keep (scan fs 0) (items fs 0) (directNames fs) H (by rw [scan_eq_items]) (by rw [scan_eq_items]) hdn hnd)]
    exact h1
  | .ptrStruct fs, H, hr, hn => by
    rw [regularTy] at hr
    rw [visibleOf] at hn ⊢
    have h1 := items_visible fs 0 (directNames fs) H hr hn
    rw [subFields, finish_scan]
    have hdn : ∀ n, ((items fs 0).filterMap Item.dir?).any (fun e => e.r.name == n) = (directNames fs).contains n := by
      intro n; rw [any_name_eq_contains, dirs_names fs 0 hr]
    have hnd : (((items fs 0).filter fun it => !it.isDir && notIn (directNames fs ++ H) it.name).map Item.name).Nodup := by
      have hk : (((items fs 0).filter (keepS (directNames fs) H)).map Item.name).Nodup := by
        have : ((items fs 0).filter (keepS (directNames fs) H)).map Item.name
            = (((items fs 0).filter (keepS (directNames fs) H)).map Item.field).map (·.name) := by
          rw [List.map_map]; congr 1; funext it; exact (Item.field_name it).symm
        rw [this, h1, map_field_name]; exact hn
      have hsubl : ((items fs 0).filter fun it => !it.isDir && notIn (directNames fs ++ H) it.name)
          <+ (items fs 0).filter (keepS (directNames fs) H) := by
        have : ((items fs 0).filter fun it => !it.isDir && notIn (directNames fs ++ H) it.name)
            = ((items fs 0).filter (keepS (directNames fs) H)).filter
                fun it => !it.isDir && notIn (directNames fs ++ H) it.name := by
          rw [List.filter_filter]
          congr 1; funext it
          simp only [keepS, notIn_append]
          cases it.isDir <;> cases notIn (directNames fs) it.name <;> cases notIn H it.name <;> rfl
        rw [this]; exact List.filter_sublist
      exact hk.sublist (hsubl.map _)
    rw [filter_emit (scan fs 0) H (keepS (directNames fs) H) (items fs 0)
      (emit_keep (scan fs 0) (items fs 0) (directNames fs) H (by rw [scan_eq_items]) (by rw [scan_eq_items]) hdn hnd)]
    exact h1
end

/-! ### SHARPER -/

/-- on a regular tree where shadowing explains every collision segmentio serialises the unshadowed candidates -/
theorem segFields_eq_visible (fs : Fields) (hr : regular fs = true) (hs : shadowingOnly fs = true) :
    (segFields fs).map Resolved.obs = (visible fs).map Cand.field := by
  have hn : ((visible fs).map (·.name)).Nodup := (distinct_iff _).mp hs
  have e1 : ∀ (l : List Cand), (l.filter fun c => notIn [] c.name) = l :=
    fun l => List.filter_eq_self.mpr (fun _ _ => rfl)
  have e2 : ∀ (l : List Resolved), (l.filter fun r => notIn [] r.name) = l :=
    fun l => List.filter_eq_self.mpr (fun _ _ => rfl)
  have h := sub_visible (.struct fs) [] hr (by rw [e1]; exact hn)
  rw [e1, e2] at h
  exact h

/-- SHARPER agreement: collisions are allowed as long as every one of them is a shadowing (a direct field of a struct
against fields of its embedded structs): then segmentio and encoding/json serialise the same members -/
theorem segFields_eq_stdFields_of_shadowingOnly (fs : Fields) (hr : regular fs = true) (hs : shadowingOnly fs = true) :
    (segFields fs).map Resolved.obs = stdFields fs := by
  rw [segFields_eq_visible fs hr hs, stdFields_eq_visible fs ((distinct_iff _).mp hs)]

/-- the sharper condition is weaker than collision-freedom -/
theorem shadowingOnly_of_collisionFree (fs : Fields) (hc : collisionFree fs = true) : shadowingOnly fs = true := by
  have hn : (candidateNames fs).Nodup := (distinct_iff _).mp hc
  exact (distinct_iff _).mpr (hn.sublist ((visibleFrom_sublist _ fs 0).map _))

#print axioms segFields_eq_visible
#print axioms stdFields_eq_visible
#print axioms segFields_eq_stdFields_of_shadowingOnly

end Enc.Lemmas.JsonFields
