import Enc.Model.Json.Buf
import Enc.Spec.Json.Base64Dec
import Enc.Spec.Json.DecAnySpec
/-!
# base64: `StdEncoding.Decode ∘ StdEncoding.Encode = id`, through the JSON string literal

`Buf.b64` (RFC 4648 encoder with padding, the model of base64.StdEncoding.Encode used by encodeBytes) read by
`Spec.Json.b64DecodeStd` (the specification of base64.StdEncoding.Decode) after `unquoteLit` of the quoted text.
-/
namespace Enc.Lemmas.JsonRtTyped
open Enc Enc.Model.Json.Buf
open Enc.Spec.Json (b64Val b64Byte b64Quanta b64DecodeStd unquoteLit unquoteStd)

/-- what holds of every alphabet character -/
theorem b64Char_facts : ∀ n, n < 64 → b64Val (b64Char n) = some n ∧ b64Char n ≠ 0x3d ∧ b64Char n ≠ 0x0a ∧
    b64Char n ≠ 0x0d ∧ b64Char n ≠ 0x5c ∧ b64Char n < 0x80 := by
  decide +kernel

def OKc (c : UInt8) : Prop := c ≠ 0x5c ∧ c < 0x80 ∧ c ≠ 0x0a ∧ c ≠ 0x0d

theorem okc_char (n : Nat) (h : n < 64) : OKc (b64Char n) := by
  obtain ⟨_, _, h1, h2, h3, h4⟩ := b64Char_facts n h
  exact ⟨h3, h4, h1, h2⟩

theorem okc_pad : OKc 0x3d := by unfold OKc; decide

theorem b64_okc (v : Bytes) : ∀ c ∈ b64 v, OKc c := by
  fun_induction b64 v with
  | case1 a b c rest x ih =>
    intro ch hc
    have ha := a.toNat_lt; have hb := b.toNat_lt; have hcc := c.toNat_lt
    simp only [List.mem_cons] at hc
    rcases hc with rfl | rfl | rfl | rfl | hc
    · exact okc_char _ (by omega)
    · exact okc_char _ (by omega)
    · exact okc_char _ (by omega)
    · exact okc_char _ (by omega)
    · exact ih ch hc
  | case2 a b x =>
    intro ch hc
    have ha := a.toNat_lt; have hb := b.toNat_lt
    simp only [List.mem_cons, List.not_mem_nil, or_false] at hc
    rcases hc with rfl | rfl | rfl | rfl
    · exact okc_char _ (by omega)
    · exact okc_char _ (by omega)
    · exact okc_char _ (by omega)
    · exact okc_pad
  | case3 a x =>
    intro ch hc
    have ha := a.toNat_lt
    simp only [List.mem_cons, List.not_mem_nil, or_false] at hc
    rcases hc with rfl | rfl | rfl | rfl
    · exact okc_char _ (by omega)
    · exact okc_char _ (by omega)
    · exact okc_pad
    · exact okc_pad
  | case4 => intro ch hc; cases hc

/-- `unquoteBytes` copies plain ASCII -/
theorem unquoteStd_plain : ∀ (p : Bytes) (f : Nat), p.length ≤ f → (∀ c ∈ p, OKc c) → unquoteStd f p = p
  | [], f, _, _ => by cases f <;> rfl
  | c :: r, f, hf, h => by
    obtain ⟨f0, rfl⟩ : ∃ f0, f = f0 + 1 := ⟨f - 1, by simp at hf; omega⟩
    obtain ⟨h1, h2, _, _⟩ := h c List.mem_cons_self
    unfold unquoteStd
    simp only [show (c == 0x5c) = false by simpa using h1, Bool.false_eq_true, if_false, h2, if_true]
    rw [unquoteStd_plain r f0 (by simp at hf; omega) (fun c' hc' => h c' (List.mem_cons_of_mem _ hc'))]

theorem unquote_quoted (p : Bytes) (h : ∀ c ∈ p, OKc c) : unquoteLit ([0x22] ++ p ++ [0x22]) = p := by
  unfold unquoteLit
  have hi : (([0x22] ++ p ++ [0x22] : Bytes).drop 1).take (([0x22] ++ p ++ [0x22] : Bytes).length - 2) = p := by
    simp only [List.cons_append, List.nil_append, List.drop_succ_cons, List.drop_zero, List.length_cons,
      List.length_append, List.length_nil]
    exact List.take_left' (by omega)
  simp only [hi]
  exact unquoteStd_plain p _ (Nat.le_succ _) h

theorem byte_of (a : UInt8) (n : Nat) (h : n % 256 = a.toNat) : b64Byte n = a := by
  unfold b64Byte
  rw [h]
  exact UInt8.ofNat_toNat

/-- one full quantum -/
theorem quanta_full (c1 c2 c3 c4 : UInt8) (rest : Bytes) (x y z w : Nat) (h1 : b64Val c1 = some x) (h2 : b64Val c2 = some y)
    (h3 : b64Val c3 = some z) (h4 : b64Val c4 = some w) (hne : c3 ≠ 0x3d) :
    b64Quanta (c1 :: c2 :: c3 :: c4 :: rest) =
      (b64Quanta rest).map fun t =>
        b64Byte ((((x * 64 + y) * 64 + z) * 64 + w) / 65536) :: b64Byte ((((x * 64 + y) * 64 + z) * 64 + w) / 256) ::
          b64Byte (((x * 64 + y) * 64 + z) * 64 + w) :: t := by
  rw [b64Quanta]
  · rw [h1, h2, h3]; dsimp only; rw [h4]
  · intro h _ _; exact hne h

theorem b64Quanta_b64 (v : Bytes) : b64Quanta (b64 v) = some v := by
  fun_induction b64 v with
  | case1 a b c rest x ih =>
    have ha := a.toNat_lt; have hb := b.toNat_lt; have hcc := c.toNat_lt
    obtain ⟨v1, n1, _⟩ := b64Char_facts (x / 262144) (by omega)
    obtain ⟨v2, _⟩ := b64Char_facts (x / 4096 % 64) (by omega)
    obtain ⟨v3, n3, _⟩ := b64Char_facts (x / 64 % 64) (by omega)
    obtain ⟨v4, _⟩ := b64Char_facts (x % 64) (by omega)
    rw [quanta_full _ _ _ _ _ _ _ _ _ v1 v2 v3 v4 n3, ih]
    simp only [Option.map_some, Option.some.injEq, List.cons.injEq, and_true]
    refine ⟨byte_of a _ (by omega), byte_of b _ (by omega), byte_of c _ (by omega)⟩
  | case2 a b x =>
    have ha := a.toNat_lt; have hb := b.toNat_lt
    obtain ⟨v1, n1, _⟩ := b64Char_facts (x / 262144) (by omega)
    obtain ⟨v2, _⟩ := b64Char_facts (x / 4096 % 64) (by omega)
    obtain ⟨v3, n3, _⟩ := b64Char_facts (x / 64 % 64) (by omega)
    rw [b64Quanta]
    · rw [v1, v2, v3]; dsimp only; rw [show b64Val 0x3d = none by decide]
      simp only [beq_self_eq_true, List.isEmpty_nil, Bool.and_self, if_true, Option.some.injEq, List.cons.injEq, and_true]
      exact ⟨byte_of a _ (by omega), byte_of b _ (by omega)⟩
    · intro h _ _; exact n3 h
  | case3 a x =>
    have ha := a.toNat_lt
    obtain ⟨v1, _⟩ := b64Char_facts (x / 262144) (by omega)
    obtain ⟨v2, _⟩ := b64Char_facts (x / 4096 % 64) (by omega)
    rw [b64Quanta]
    rw [v1, v2]
    simp only [Option.some.injEq, List.cons.injEq, and_true]
    exact byte_of a _ (by omega)
  | case4 => rfl

theorem b64_roundtrip (bs : Bytes) : b64DecodeStd (unquoteLit ([0x22] ++ b64 bs ++ [0x22])) = some bs := by
  have hok := b64_okc bs
  rw [unquote_quoted _ hok]
  unfold b64DecodeStd
  have hf : (b64 bs).filter (fun c => !(c == 0x0a || c == 0x0d)) = b64 bs := by
    rw [List.filter_eq_self]
    intro c hc
    obtain ⟨_, _, h1, h2⟩ := hok c hc
    simp [h1, h2]
  rw [hf]
  exact b64Quanta_b64 bs

#print axioms b64_roundtrip

end Enc.Lemmas.JsonRtTyped
