import Enc.Lemmas.ThriftAcceptDefs
import Enc.Lemmas.ThriftRoundTripFields
/-!
C13, second half (compact protocol), level 3: the struct decoder over a field stream written in ARBITRARY order with
either header form.

  * `decodeStruct_step`     one declared record, header in the short or in the long form, whatever the previous id
  * `decodeStruct_stream`   **struct-order lemma**: `decodeStruct` over `Stream l last bs` for declared records `l` in
                            any order (distinct target positions) stores every value at its declared position — the
                            table lookup does not depend on the order — and has seen exactly the ids of `l`
-/
namespace Enc.Lemmas.ThriftAccept
open Enc Enc.Model.Thrift Enc.Lemmas.ThriftPrim Enc.Lemmas.ThriftSkip Enc.Lemmas.ThriftSpec
open Enc.Lemmas.ThriftRoundTrip

/-- evaluates the value part of one declared field inside an unfolded `decodeStruct` -/
local macro "val_step" d:ident hval:ident hf:ident : tactic => `(tactic|
  (obtain ⟨hv1, hv2⟩ := $hval
   by_cases he : FieldDesc.enum $d = true
   · simp only [he, if_true]
     split
     · rename_i k hk
       obtain ⟨i, hi, hw⟩ := hv1 k he hk
       rw [hi]; simp only [Res.bind, dontExpectEOF_ok, hw]
     · rename_i hk
       rw [hv2 (fun ⟨_, k, hk'⟩ => hk k hk') _ _ $hf]; simp only [dontExpectEOF_ok, Res.bind]
   · simp only [he, Bool.false_eq_true, if_false]
     rw [hv2 (fun ⟨h, _⟩ => he h) _ _ $hf]; simp only [dontExpectEOF_ok, Res.bind]))

theorem ofSpec_eq_bool (t : Spec.Thrift.TT) : ofSpec t = TType.bool ↔ t = .bool := by
  cases t <;> simp [ofSpec]

/-- one declared record with its header in EITHER form, after ANY previous id `last`: the loop finds the descriptor by
id, stores the decoded value at the declared position and continues with `last := id` -/
theorem decodeStruct_step (strict : Bool) (d : Nat) (descs : List FieldDesc) (Z T : Vals) (B : Nat)
    (f : Spec.Thrift.FRec) (hd : DecRec .compact strict d descs Z T B (conv f))
    (last : Int) (hdr : Bytes) (hh : FieldHdrB (tcode f.t f.isTrue) f.id last hdr) (fuel : Nat)
    (hf' : f.t ≠ .bool → f.body.length + B ≤ fuel)
    (vs : Vals) (hz : Vals.get vs (posOf descs f.id) = Vals.get Z (posOf descs f.id))
    (num : Nat) (seen : List Int) (tail : Bytes) :
    decodeStruct .compact strict d (fuel + 1) descs (hdr ++ (if f.t == .bool then [] else f.body) ++ tail) vs last num seen
      = decodeStruct .compact strict d fuel descs tail
          (Vals.set vs (posOf descs f.id) (Vals.get T (posOf descs f.id))) f.id (num + 1) (f.id :: seen) := by
  obtain ⟨h1, h2, hr, hnt, fd, hfind, hty, _, hbool, hval⟩ := hd
  simp only [conv] at h1 h2 hr hnt hfind hty hbool hval
  have hpos : posOf descs f.id = fd.pos := by simp [posOf, hfind]
  rw [hpos] at hz ⊢
  obtain ⟨fh, hrd, hty', hid⟩ := rField_FieldHdrB _ (tcode_range f.t f.isTrue) f.id last
    ⟨by omega, by omega⟩ hh ((if f.t == .bool then [] else f.body) ++ tail)
  rw [ofCode_tcode] at hty'
  rw [List.append_assoc, decodeStruct, hrd]
  by_cases hb : f.t = .bool
  · have hbw := hbool (by rw [hb]; rfl)
    have htm : typeOf fd.ty = TType.bool := by rw [hty, hb]; rfl
    simp only [hb, tOut] at hty'
    cases hT : f.isTrue
    · rw [hT] at hty' hbw
      have hty'' : fh.t = TType.bool := by simpa [ofSpec] using hty'
      have e : (TType.bool == TType.true_) = false := rfl
      simp [hty'', hid, wrap16_id f.id ⟨h1, h2⟩, hfind, htm, hb, Proto.coalesce, e, hbw]
    · rw [hT] at hty' hbw
      have hty'' : fh.t = TType.true_ := by simpa [ofSpec] using hty'
      simp [hty'', hid, wrap16_id f.id ⟨h1, h2⟩, hfind, htm, hb, Proto.coalesce, hbw]
  · have hb' : (f.t == Spec.Thrift.TT.bool) = false := by simpa using hb
    have hbm : ¬ ofSpec f.t = TType.bool := fun h => hb ((ofSpec_eq_bool f.t).mp h)
    have hbm' : (ofSpec f.t == TType.bool) = false := by simpa using hbm
    have hf := hf' hb
    have hto : tOut f.t f.isTrue = ofSpec f.t := by simp [tOut, hbm']
    rw [hto] at hty'
    simp only [hb', Bool.false_eq_true, if_false]
    have hco : (ofSpec f.t == TType.true_ || ofSpec f.t == TType.bool) = false := by
      have : (ofSpec f.t == TType.true_) = false := by simpa using hnt
      simp [this, hbm']
    simp only [hty', ne_stop_of_real _ hr, Bool.false_eq_true, if_false, hid, wrap16_id f.id ⟨h1, h2⟩, hfind,
      hty, bne_self_eq_false, Bool.false_and, Proto.coalesce, Bool.true_and, hco]
    rw [hz]
    val_step fd hval hf

theorem Stream_length_pos {l : List Spec.Thrift.FRec} {last : Int} {bs : Bytes} (h : Stream l last bs) :
    1 ≤ bs.length := by
  cases h with
  | stop => simp
  | field f rs last hdr bs hh _ =>
    have := FieldHdrB_length_pos hh
    simp only [List.length_append]; omega

/-- **the struct loop over declared records in arbitrary order.** `Z` = the target's initial field values, `T` = the
final ones; `cur` already agrees with `T` outside the positions of the remaining records and still has the initial
values there. The records may come in any order of ids and with either header form: the result and the set of ids seen
are the same. -/
theorem decodeStruct_stream (strict : Bool) (d : Nat) (descs : List FieldDesc) (Z T : Vals) (B : Nat) :
    ∀ {l : List Spec.Thrift.FRec} {last : Int} {bs : Bytes}, Stream l last bs →
      ∀ (num fuel : Nat) (cur : Vals) (seen : List Int) (rest : Bytes),
      (∀ f ∈ l, DecRec .compact strict d descs Z T B (conv f)) →
      l.Pairwise (fun a b => posOf descs a.id ≠ posOf descs b.id) →
      cur.length = T.length →
      (∀ f ∈ l, Vals.get cur (posOf descs f.id) = Vals.get Z (posOf descs f.id)) →
      (∀ n, (∀ f ∈ l, posOf descs f.id ≠ n) → Vals.get cur n = Vals.get T n) →
      bs.length + B ≤ fuel →
      decodeStruct .compact strict d fuel descs (bs ++ rest) cur last num seen
        = .ok ((T, (l.map (·.id)).reverse ++ seen), rest) := by
  intro l last bs hs
  induction hs with
  | stop last =>
    intro num fuel cur seen rest _ _ hlen _ hT hf
    simp only [List.length_cons, List.length_nil] at hf
    have := decodeStruct_stop .compact strict d fuel descs rest cur last num seen (by omega)
    simp only [wStopField] at this
    rw [this, ext_get cur T hlen (fun n => hT n (fun _ h => by cases h))]
    simp
  | field f r last hdr bs hh hs ih =>
    intro num fuel cur seen rest hd hpp hlen hZ hT hf
    have hdf := hd f (List.mem_cons_self ..)
    rw [List.pairwise_cons] at hpp
    have hh1 := FieldHdrB_length_pos hh
    have hs1 := Stream_length_pos hs
    simp only [List.length_append] at hf
    obtain ⟨fu, rfl⟩ : ∃ fu, fuel = fu + 1 := ⟨fuel - 1, by omega⟩
    have hpos : posOf descs f.id < T.length := by
      obtain ⟨_, _, _, _, fd, hfind, _, hp, _⟩ := hdf
      simp only [conv] at hfind hp
      simpa [posOf, hfind] using hp
    have hfu : f.t ≠ .bool → f.body.length + B ≤ fu := by
      intro hb
      have : (f.t == Spec.Thrift.TT.bool) = false := by simpa using hb
      simp only [this, Bool.false_eq_true, if_false] at hf
      omega
    rw [List.append_assoc, decodeStruct_step strict d descs Z T B f hdf last hdr hh fu hfu cur
      (hZ f (List.mem_cons_self ..))]
    rw [ih (num + 1) fu _ (f.id :: seen) rest
      (fun g hg => hd g (List.mem_cons_of_mem _ hg)) hpp.2 (by rw [length_set]; exact hlen)
      (fun g hg => by
        rw [get_set_ne _ _ _ _ (hpp.1 g hg)]
        exact hZ g (List.mem_cons_of_mem _ hg))
      (fun n hn => by
        by_cases hnp : posOf descs f.id = n
        · subst hnp; rw [get_set_eq _ _ _ (by rw [hlen]; exact hpos)]
        · rw [get_set_ne _ _ _ _ hnp]
          exact hT n (fun g hg => by
            rcases List.mem_cons.mp hg with rfl | hg
            · exact hnp
            · exact hn g hg))
      (by split at hf <;> omega)]
    simp

end Enc.Lemmas.ThriftAccept
