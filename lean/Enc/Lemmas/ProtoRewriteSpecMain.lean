import Enc.Lemmas.ProtoRewriteSpecTotal
/-!
# C19, main induction: the Go rewriters (`Model.Proto.rewrite`) against the record-level specification (`specRw`)

`Sim e recs' recs`: the records `recs'` that the Go output parses to, versus the specification's records `recs`:
identical, except that (only when `e = true`, i.e. only below an `embedded` rewriter) a LEN record whose payload the
Go code wrote as the bytes `a` (a valid message with records `ra`) appears in the specification with the CANONICAL
re-encoding `encRecs rb` of the corresponding records.  `Sim false` is equality.

`mergeOccurrences_valid` / `mergeInput_payrel`: on a valid input the value the Go loop hands to the rewriter of a first
occurrence is the specification's payload (`specPayloadM`), for `embeddedMerge` slots: all pieces of the field.

`all_claims`: simultaneous statement for `rewrite`, `rewriteMulti`, `rewriteLoop`, `rewriteAbsent`, by induction on
the specification's fuel.
-/
namespace Enc.Lemmas.ProtoRewriteSpec
open Enc Enc.Model.Proto Enc.Spec.Protobuf

/-! ## unfolding the specification -/

theorem specRw_zero (r : SRw) (p : Bytes) : specRw 0 r p = none := by simp [specRw]
theorem specRw_raw (f : Nat) (b p : Bytes) : specRw (f + 1) (.raw b) p = parse (b.length + 1) b := by simp [specRw]
theorem specRw_multi (f : Nat) (rs : List SRw) (p : Bytes) : specRw (f + 1) (.multi rs) p = specMulti f rs p := by
  simp [specRw]
theorem specRw_message (f : Nat) (rs : List (Nat × SRw)) (p : Bytes) :
    specRw (f + 1) (.message rs) p = (parse (p.length + 1) p).bind fun recs => specMsg f rs recs [] := by
  simp only [specRw]; rfl
theorem specRw_embedded (f number : Nat) (rs : List (Nat × SRw)) (p : Bytes) :
    specRw (f + 1) (.embedded number rs) p =
      (parse (p.length + 1) p).bind fun recs => (specMsg f rs recs []).bind fun body =>
        if body.isEmpty then some [] else some [(number, .len (ProtoWire.encRecs body))] := by
  simp only [specRw, ProtoWire.encRecs, List.flatMap_def]; rfl
theorem specRw_embeddedMerge (f number : Nat) (rs : List (Nat × SRw)) (p : Bytes) :
    specRw (f + 1) (.embeddedMerge number rs) p =
      (parse (p.length + 1) p).bind fun recs => (specMsg f rs recs []).bind fun body =>
        if body.isEmpty then some [] else some [(number, .len (ProtoWire.encRecs body))] := by
  simp only [specRw, ProtoWire.encRecs, List.flatMap_def]; rfl
theorem specRw_replacement (f : Nat) (r : SRw) (p : Bytes) : specRw (f + 1) (.replacement r) p = specRw f r [] := by
  simp only [specRw]
theorem specMulti_zero (rs : List SRw) (p : Bytes) : specMulti 0 rs p = none := by simp [specMulti]
theorem specMulti_nil (f : Nat) (p : Bytes) : specMulti (f + 1) [] p = some [] := by simp [specMulti]
theorem specMulti_cons (f : Nat) (r : SRw) (rs : List SRw) (p : Bytes) :
    specMulti (f + 1) (r :: rs) p = (specRw f r p).bind fun a => (specMulti f rs p).bind fun b => some (a ++ b) := by
  simp only [specMulti]; rfl
theorem specMsg_zero (rs : List (Nat × SRw)) (recs : List (Nat × WireVal)) (seen : List Nat) :
    specMsg 0 rs recs seen = none := by simp [specMsg]
theorem specMsg_nil (f : Nat) (rs : List (Nat × SRw)) (seen : List Nat) :
    specMsg (f + 1) rs [] seen = specAbsent f (rs.filter fun p => !seen.contains p.1) := by simp [specMsg]
/-- the payload the specification hands to the rewriter `r` of field `n` at its first occurrence `(n, w)`, `rest` being
the records behind it: an `embeddedMerge` rewriter of a length-delimited record sees all the pieces -/
def specPayloadM (r : SRw) (n : Nat) (w : WireVal) (rest : List (Nat × WireVal)) : Bytes :=
  match r, w with
  | .embeddedMerge .., .len _ => specPayload w ++ laterPieces n rest
  | _, _ => specPayload w

theorem specMsg_cons (f : Nat) (rs : List (Nat × SRw)) (n : Nat) (w : WireVal) (rest : List (Nat × WireVal))
    (seen : List Nat) :
    specMsg (f + 1) rs ((n, w) :: rest) seen =
      match lookupRw rs n with
      | some r =>
        if seen.contains n then specMsg f rs rest seen
        else (specRw f r (specPayloadM r n w rest)).bind fun a =>
          (specMsg f rs rest (n :: seen)).bind fun b => some (a ++ b)
      | none => (specMsg f rs rest seen).map ((n, w) :: ·) := by
  simp only [specMsg]
  cases lookupRw rs n with
  | none => simp only []; cases specMsg f rs rest seen <;> rfl
  | some r => cases r <;> cases w <;> rfl
theorem specAbsent_zero (rs : List (Nat × SRw)) : specAbsent 0 rs = none := by simp [specAbsent]
theorem specAbsent_nil (f : Nat) : specAbsent (f + 1) [] = some [] := by simp [specAbsent]
theorem specAbsent_cons (f i : Nat) (r : SRw) (rs : List (Nat × SRw)) :
    specAbsent (f + 1) ((i, r) :: rs) =
      (specRw f r []).bind fun a => (specAbsent f rs).bind fun b => some (a ++ b) := by
  simp only [specAbsent]; rfl

/-! ## the comparison relation -/

inductive Sim : Bool → List (Nat × WireVal) → List (Nat × WireVal) → Prop
  | nil (e : Bool) : Sim e [] []
  | same (e : Bool) (r : Nat × WireVal) {as bs : List (Nat × WireVal)} : Sim e as bs → Sim e (r :: as) (r :: bs)
  | emb (n : Nat) (a : Bytes) {ra rb as bs : List (Nat × WireVal)} :
      Valid a ra → Sim true ra rb → Sim true as bs →
      Sim true ((n, .len a) :: as) ((n, .len (ProtoWire.encRecs rb)) :: bs)

theorem Sim.refl (e : Bool) : ∀ l, Sim e l l
  | [] => Sim.nil e
  | r :: l => Sim.same e r (Sim.refl e l)

theorem Sim.append {e : Bool} {a b c d : List (Nat × WireVal)} (h1 : Sim e a b) (h2 : Sim e c d) :
    Sim e (a ++ c) (b ++ d) := by
  induction h1 with
  | nil e => simpa using h2
  | same e r _ ih => exact Sim.same e r (ih h2)
  | emb n x hv hs _ _ ih2 => exact Sim.emb n x hv hs (ih2 h2)

/-- without `embedded` the comparison is equality -/
theorem Sim.eq_of_false {a b : List (Nat × WireVal)} (h : Sim false a b) : a = b := by
  generalize he : false = e at h
  induction h with
  | nil e => rfl
  | same e r _ ih => rw [ih he]
  | emb n x hv hs _ _ _ => exact absurd he (by decide)

theorem Sim.length_eq {e : Bool} {a b : List (Nat × WireVal)} (h : Sim e a b) : a.length = b.length := by
  induction h with
  | nil e => rfl
  | same e r _ ih => simp [ih]
  | emb n x hv hs _ _ ih2 => simp [ih2]

/-- same field numbers, in the same order -/
theorem Sim.numbers_eq {e : Bool} {a b : List (Nat × WireVal)} (h : Sim e a b) : a.map (·.1) = b.map (·.1) := by
  induction h with
  | nil e => rfl
  | same e r _ ih => simp [ih]
  | emb n x hv hs _ _ ih2 => simp [ih2]

/-- the Go output `out` is a valid message whose records are the specification's `recs`, up to `Sim e` -/
def Out (e : Bool) (out : Bytes) (recs : List (Nat × WireVal)) : Prop :=
  ∃ recs', Valid out recs' ∧ Sim e recs' recs

theorem Out.nil (e : Bool) : Out e [] [] := ⟨[], valid_nil, Sim.nil e⟩

theorem Out.append {e : Bool} {a b : Bytes} {ra rb : List (Nat × WireVal)} (h1 : Out e a ra) (h2 : Out e b rb) :
    Out e (a ++ b) (ra ++ rb) := by
  obtain ⟨ra', v1, s1⟩ := h1
  obtain ⟨rb', v2, s2⟩ := h2
  exact ⟨ra' ++ rb', valid_append v1 v2, s1.append s2⟩

theorem Valid.eq_nil {b : Bytes} (h : Valid b []) : b = [] := by
  by_cases hb : b = []
  · exact hb
  · obtain ⟨_, _, _, _, _, _, _, _, e2, _, _⟩ := h.first hb
    simp at e2

theorem Valid.recs_nil {recs : List (Nat × WireVal)} (h : Valid [] recs) : recs = [] := h.nil_inv

/-! ## the four statements -/

/-- untemplated records of a message -/
def untempl (rs : List (Nat × Rw)) (recs : List (Nat × WireVal)) : List (Nat × WireVal) :=
  recs.filter fun q => (getRw rs q.1).isNone

def ClaimRw (sf : Nat) : Prop :=
  ∀ (e : Bool) (r : Rw) (v p : Bytes) (recs : List (Nat × WireVal)),
    rwOK r = true → PayRel v p → (hasEmb r = true → e = true) → sizeM r * (v.length + 1) < 2 ^ 64 →
    specRw sf (toSpec r) p = some recs →
    ∃ out, Out e out recs ∧ ∀ fuel, v.length + fuelD r ≤ fuel → rewrite fuel r v = .ok out

def ClaimMulti (sf : Nat) : Prop :=
  ∀ (e : Bool) (rs : List Rw) (v p : Bytes) (recs : List (Nat × WireVal)),
    listOK rs = true → PayRel v p → (hasEmbList rs = true → e = true) → sizeMList rs * (v.length + 1) < 2 ^ 64 →
    specMulti sf (toSpecList rs) p = some recs →
    ∃ out, Out e out recs ∧ ∀ fuel, v.length + 1 + rs.length + fuelDList rs ≤ fuel → rewriteMulti fuel rs v = .ok out

def ClaimLoop (sf : Nat) : Prop :=
  ∀ (e : Bool) (len : Nat) (rs : List (Nat × Rw)) (inp : Bytes) (recs0 : List (Nat × WireVal)) (seen : List Nat)
    (result : List (Nat × WireVal)),
    entsOK len rs = true → Valid inp recs0 → (hasEmbEnts rs = true → e = true) →
    (20 + sizeMEnts rs) * (inp.length + 1) < 2 ^ 64 →
    specMsg sf (toSpecEnts rs) recs0 seen = some result →
    ∃ out1 seen' recs1 res1 res2 sf', result = res1 ++ res2 ∧ Valid out1 recs1 ∧ Sim e recs1 res1 ∧
      (untempl rs recs0).Sublist recs1 ∧ sf' ≤ sf ∧
      specAbsent sf' ((toSpecEnts rs).filter fun p => !seen'.contains p.1) = some res2 ∧
      ∀ fuel, inp.length + 1 + fuelDEnts rs ≤ fuel → rewriteLoop fuel len rs inp seen = .ok (out1, seen')

def ClaimAbsent (sf : Nat) : Prop :=
  ∀ (e : Bool) (len : Nat) (rs : List (Nat × Rw)) (seen : List Nat) (res2 : List (Nat × WireVal)),
    entsOK len rs = true → (hasEmbEnts rs = true → e = true) → sizeMEnts rs < 2 ^ 64 →
    specAbsent sf ((toSpecEnts rs).filter fun p => !seen.contains p.1) = some res2 →
    ∃ out2, Out e out2 res2 ∧ ∀ fuel, rs.length + 1 + fuelDEnts rs ≤ fuel → rewriteAbsent fuel rs seen = .ok out2

def AllClaims (sf : Nat) : Prop := ClaimRw sf ∧ ClaimMulti sf ∧ ClaimLoop sf ∧ ClaimAbsent sf

theorem mul_lt_of_le {a b c d n : Nat} (h : c * d < n) (h1 : a ≤ c) (h2 : b ≤ d) : a * b < n :=
  Nat.lt_of_le_of_lt (Nat.mul_le_mul h1 h2) h

/-! ### multi -/

theorem step_multi (N : Nat) (ih : ∀ sf, sf ≤ N → AllClaims sf) : ClaimMulti (N + 1) := by
  intro e rs v p recs hok hpay he hsz hs
  cases rs with
  | nil =>
    simp only [toSpecList, specMulti_nil, Option.some.injEq] at hs
    subst hs
    refine ⟨[], Out.nil e, ?_⟩
    intro fuel hf
    cases fuel with
    | zero => simp at hf
    | succ f => exact rewriteMulti_nil f v
  | cons r rs =>
    simp only [toSpecList, specMulti_cons] at hs
    obtain ⟨a, ha, hs⟩ := Option.bind_eq_some_iff.mp hs
    obtain ⟨b, hb, hs⟩ := Option.bind_eq_some_iff.mp hs
    simp only [Option.some.injEq] at hs
    subst hs
    simp only [listOK, Bool.and_eq_true] at hok
    simp only [hasEmbList, Bool.or_eq_true] at he
    simp only [sizeMList] at hsz
    obtain ⟨oa, hoa, hfa⟩ := (ih N (Nat.le_refl _)).1 e r v p a hok.1 hpay (fun h => he (Or.inl h))
      (mul_lt_of_le hsz (by omega) (Nat.le_refl _)) ha
    obtain ⟨ob, hob, hfb⟩ := (ih N (Nat.le_refl _)).2.1 e rs v p b hok.2 hpay (fun h => he (Or.inr h))
      (mul_lt_of_le hsz (by omega) (Nat.le_refl _)) hb
    refine ⟨oa ++ ob, hoa.append hob, ?_⟩
    intro fuel hf
    simp only [fuelDList, List.length_cons] at hf
    cases fuel with
    | zero => omega
    | succ f =>
      rw [rewriteMulti_cons, hfa f (by omega), hfb f (by omega)]
      rfl

/-! ### absent -/

theorem filter_ents_cons (i : Nat) (r : Rw) (rs : List (Nat × Rw)) (seen : List Nat) :
    (toSpecEnts ((i, r) :: rs)).filter (fun p => !seen.contains p.1) =
      if seen.contains i then (toSpecEnts rs).filter (fun p => !seen.contains p.1)
      else (i, toSpec r) :: (toSpecEnts rs).filter (fun p => !seen.contains p.1) := by
  simp only [toSpecEnts, List.filter_cons]
  cases seen.contains i <;> simp

theorem step_absent (N : Nat) (ih : ∀ sf, sf ≤ N → AllClaims sf) : ClaimAbsent (N + 1) := by
  intro e len rs
  induction rs with
  | nil =>
    intro seen res2 hok he hsz hs
    simp only [toSpecEnts, List.filter_nil, specAbsent_nil, Option.some.injEq] at hs
    subst hs
    refine ⟨[], Out.nil e, ?_⟩
    intro fuel hf
    cases fuel with
    | zero => simp at hf
    | succ f => exact rewriteAbsent_nil f seen
  | cons q rs ihl =>
    obtain ⟨i, r⟩ := q
    intro seen res2 hok he hsz hs
    simp only [entsOK, Bool.and_eq_true, decide_eq_true_eq] at hok
    simp only [hasEmbEnts, Bool.or_eq_true] at he
    simp only [sizeMEnts] at hsz
    rw [filter_ents_cons] at hs
    by_cases hc : seen.contains i = true
    · simp only [hc, if_true] at hs
      obtain ⟨o2, ho2, hf2⟩ := ihl seen res2 hok.2 (fun h => he (Or.inr h)) (by omega) hs
      refine ⟨o2, ho2, ?_⟩
      intro fuel hf
      simp only [fuelDEnts, List.length_cons] at hf
      cases fuel with
      | zero => omega
      | succ f =>
        rw [rewriteAbsent_cons]
        simp only [hc, if_true]
        exact hf2 f (by omega)
    · simp only [hc, Bool.false_eq_true, if_false] at hs
      rw [specAbsent_cons] at hs
      obtain ⟨a, ha, hs⟩ := Option.bind_eq_some_iff.mp hs
      obtain ⟨b, hb, hs⟩ := Option.bind_eq_some_iff.mp hs
      simp only [Option.some.injEq] at hs
      subst hs
      obtain ⟨oa, hoa, hfa⟩ := (ih N (Nat.le_refl _)).1 e r [] [] a hok.1.2 (Or.inl rfl) (fun h => he (Or.inl h))
        (by simp only [List.length_nil]; omega) ha
      obtain ⟨ob, hob, hfb⟩ := (ih N (Nat.le_refl _)).2.2.2 e len rs seen b hok.2 (fun h => he (Or.inr h))
        (by omega) hb
      refine ⟨oa ++ ob, hoa.append hob, ?_⟩
      intro fuel hf
      simp only [fuelDEnts, List.length_cons] at hf
      cases fuel with
      | zero => omega
      | succ f =>
        rw [rewriteAbsent_cons]
        simp only [hc]
        rw [hfa f (by simp only [List.length_nil]; omega), hfb f (by omega)]
        rfl

/-! ### the loop -/

theorem laterPieces_nil (n : Nat) : laterPieces n [] = [] := by simp [laterPieces]

theorem laterPieces_cons_len (n k : Nat) (b : Bytes) (rest : List (Nat × WireVal)) :
    laterPieces n ((k, .len b) :: rest) = if k == n then b ++ laterPieces n rest else laterPieces n rest := by
  simp [laterPieces]

theorem laterPieces_cons_other (n k : Nat) (w : WireVal) (rest : List (Nat × WireVal)) (h : wireNum w ≠ 2) :
    laterPieces n ((k, w) :: rest) = laterPieces n rest := by
  cases w <;> simp [laterPieces, wireNum] at h ⊢

/-- **`mergeOccurrences` on a valid rest**: `v` followed by the payloads of the length-delimited records numbered `n`
among the records of `m` — the specification's `laterPieces` -/
theorem mergeOccurrences_valid (n : Nat) : ∀ (k : Nat) (m : Bytes) (rest : List (Nat × WireVal)) (v : Bytes),
    Valid m rest → m.length ≤ k → mergeOccurrences k n v m = v ++ laterPieces n rest := by
  intro k
  induction k with
  | zero =>
    intro m rest v hm hk
    have : m = [] := by cases m with
      | nil => rfl
      | cons => simp at hk
    subst this
    rw [hm.nil_inv, mergeOccurrences_nil, laterPieces_nil, List.append_nil]
  | succ k ih =>
    intro m rest v hm hk
    by_cases hne : m = []
    · subst hne
      rw [hm.nil_inv, mergeOccurrences_nil, laterPieces_nil, List.append_nil]
    · obtain ⟨pre, m', n', w', t', v', tl, e1, e2, hm', tok⟩ := hm.first hne
      have hpre := tok.len_pre
      have hlen : m'.length ≤ k := by
        rw [e1] at hk; simp only [List.length_append] at hk; omega
      have hfield : parseField m = .ok (n', t', v', m') := by rw [e1]; exact tok.field_pre m'
      rw [mergeOccurrences_step k n v m hne n' t' v' m' hfield, ih m' tl _ hm' hlen, e2]
      have hwt := tok.wt
      have hpe := tok.pay_exact
      cases w' with
      | len b =>
        simp only [wireNum] at hwt
        simp only [PayBytes] at hpe
        subst hwt hpe
        rw [laterPieces_cons_len]
        by_cases hnn : (n' == n) = true
        · simp [hnn]
        · simp [hnn]
      | varint x =>
        simp only [wireNum] at hwt; subst hwt
        rw [laterPieces_cons_other n n' _ tl (by simp [wireNum])]; simp
      | i64 x =>
        simp only [wireNum] at hwt; subst hwt
        rw [laterPieces_cons_other n n' _ tl (by simp [wireNum])]; simp
      | i32 x =>
        simp only [wireNum] at hwt; subst hwt
        rw [laterPieces_cons_other n n' _ tl (by simp [wireNum])]; simp

/-- what the Go loop hands to the rewriter of the first occurrence is the specification's payload (up to the verbatim
varint token for a VARINT record): in particular for `embddedRewriter{merge: true}` both see ALL pieces of the field -/
theorem mergeInput_payrel (r : Rw) {pre : Bytes} {n : Nat} {w : WireVal} {t : Nat} {v : Bytes}
    (tok : RecTok pre n w t v) {m : Bytes} {rest : List (Nat × WireVal)} (hm : Valid m rest) :
    PayRel (mergeInput r n t v m) (specPayloadM (toSpec r) n w rest) := by
  cases r with
  | embeddedMerge number len rs =>
    have hwt := tok.wt
    have hpe := tok.pay_exact
    cases w with
    | len b =>
      simp only [wireNum] at hwt
      simp only [PayBytes] at hpe
      subst hwt hpe
      simp only [mergeInput, toSpec, specPayloadM, specPayload]
      exact Or.inl (mergeOccurrences_valid n m.length m rest v hm (Nat.le_refl _))
    | varint x =>
      simp only [wireNum] at hwt; subst hwt
      simp only [mergeInput, toSpec, specPayloadM]
      exact tok.pay
    | i64 x =>
      simp only [wireNum] at hwt; subst hwt
      simp only [mergeInput, toSpec, specPayloadM]
      exact tok.pay
    | i32 x =>
      simp only [wireNum] at hwt; subst hwt
      simp only [mergeInput, toSpec, specPayloadM]
      exact tok.pay
  | raw b => simp only [mergeInput, toSpec, specPayloadM]; exact tok.pay
  | multi rs => simp only [mergeInput, toSpec, specPayloadM]; exact tok.pay
  | message len rs => simp only [mergeInput, toSpec, specPayloadM]; exact tok.pay
  | embedded number len rs => simp only [mergeInput, toSpec, specPayloadM]; exact tok.pay
  | replacement r => simp only [mergeInput, toSpec, specPayloadM]; exact tok.pay

theorem untempl_cons_none (rs : List (Nat × Rw)) (n : Nat) (w : WireVal) (rest : List (Nat × WireVal))
    (h : getRw rs n = none) : untempl rs ((n, w) :: rest) = (n, w) :: untempl rs rest := by
  simp [untempl, h]

theorem untempl_cons_some (rs : List (Nat × Rw)) (n : Nat) (w : WireVal) (rest : List (Nat × WireVal)) (r : Rw)
    (h : getRw rs n = some r) : untempl rs ((n, w) :: rest) = untempl rs rest := by
  simp [untempl, h]

theorem step_loop (N : Nat) (ih : ∀ sf, sf ≤ N → AllClaims sf) : ClaimLoop (N + 1) := by
  intro e len rs inp recs0 seen result hok hv he hsz hs
  cases recs0 with
  | nil =>
    have hinp := hv.eq_nil
    subst hinp
    rw [specMsg_nil] at hs
    refine ⟨[], seen, [], [], result, N, by simp, valid_nil, Sim.nil e, by simp [untempl], by omega, hs, ?_⟩
    intro fuel hf
    cases fuel with
    | zero => omega
    | succ f => exact rewriteLoop_nil f len rs seen
  | cons q rest0 =>
    obtain ⟨n, w⟩ := q
    have hne : inp ≠ [] := by
      intro h0; subst h0; have := hv.recs_nil; simp at this
    obtain ⟨pre, m, n', w', t, v, tl, e1, e2, hm, tok⟩ := hv.first hne
    simp only [List.cons.injEq, Prod.mk.injEq] at e2
    obtain ⟨⟨hn', hw'⟩, htl'⟩ := e2
    subst hn' hw' htl'
    have hlen : inp.length = pre.length + m.length := by rw [e1]; simp
    have hpre := tok.len_pre
    have hlv := tok.len_v
    have hszm : (20 + sizeMEnts rs) * (m.length + 1) < 2 ^ 64 :=
      mul_lt_of_le hsz (Nat.le_refl _) (by omega)
    have hfield : parseField inp = .ok (n, t, v, m) := by rw [e1]; exact tok.field_pre m
    rw [specMsg_cons, lookupRw_toSpec] at hs
    cases hg : getRw rs n with
    | none =>
      simp only [hg, Option.map_none] at hs
      obtain ⟨b, hb, hs⟩ := Option.map_eq_some_iff.mp hs
      subst hs
      obtain ⟨o1, seen', recs1, res1, res2, sf', hr, hv1, hs1, hsub, hle, habs, hfl⟩ :=
        (ih N (Nat.le_refl _)).2.2.1 e len rs m rest0 seen b hok hm he hszm hb
      refine ⟨appendField n t v ++ o1, seen', (n, w) :: recs1, (n, w) :: res1, res2, sf', by simp [hr],
        tok.valid_app hv1, Sim.same e _ hs1, ?_, by omega, habs, ?_⟩
      · rw [untempl_cons_none rs n w rest0 hg]; exact hsub.cons_cons _
      · intro fuel hf
        cases fuel with
        | zero => omega
        | succ f =>
          rw [rewriteLoop_step f len rs inp seen hne n t v m hfield hok]
          simp only [hg]
          rw [hfl f (by omega)]
          rfl
    | some r =>
      simp only [hg, Option.map_some] at hs
      obtain ⟨hrok, hD, hM, hE⟩ := getRw_facts len rs n r hg
      by_cases hc : seen.contains n = true
      · simp only [hc, if_true] at hs
        obtain ⟨o1, seen', recs1, res1, res2, sf', hr, hv1, hs1, hsub, hle, habs, hfl⟩ :=
          (ih N (Nat.le_refl _)).2.2.1 e len rs m rest0 seen result hok hm he hszm hs
        refine ⟨o1, seen', recs1, res1, res2, sf', hr, hv1, hs1, ?_, by omega, habs, ?_⟩
        · rw [untempl_cons_some rs n w rest0 r hg]; exact hsub
        · intro fuel hf
          cases fuel with
          | zero => omega
          | succ f =>
            rw [rewriteLoop_step f len rs inp seen hne n t v m hfield hok]
            simp only [hg, hc, if_true]
            exact hfl f (by omega)
      · simp only [hc] at hs
        obtain ⟨a, ha, hs⟩ := Option.bind_eq_some_iff.mp hs
        obtain ⟨b, hb, hs⟩ := Option.bind_eq_some_iff.mp hs
        simp only [Option.some.injEq] at hs
        subst hs
        have hml := mergeInput_length_le r n t v m
        obtain ⟨oa, ⟨recsa, hva, hsa⟩, hfa⟩ := (ih N (Nat.le_refl _)).1 e r (mergeInput r n t v m)
          (specPayloadM (toSpec r) n w rest0) a (hrok hok).2 (mergeInput_payrel r tok hm)
          (fun h => he (hE h)) (mul_lt_of_le hsz (by omega) (by omega)) ha
        obtain ⟨o1, seen', recs1, res1, res2, sf', hr, hv1, hs1, hsub, hle, habs, hfl⟩ :=
          (ih N (Nat.le_refl _)).2.2.1 e len rs m rest0 (n :: seen) b hok hm he hszm hb
        refine ⟨oa ++ o1, seen', recsa ++ recs1, a ++ res1, res2, sf', by simp [hr], valid_append hva hv1,
          hsa.append hs1, ?_, by omega, habs, ?_⟩
        · rw [untempl_cons_some rs n w rest0 r hg]
          exact hsub.trans (List.sublist_append_right _ _)
        · intro fuel hf
          cases fuel with
          | zero => omega
          | succ f =>
            rw [rewriteLoop_step f len rs inp seen hne n t v m hfield hok]
            simp only [hg, hc]
            rw [hfa f (by omega), hfl f (by omega)]
            rfl

/-! ### message = loop + absent -/

theorem msg_core (N : Nat) (ih : ∀ sf, sf ≤ N → AllClaims sf) (e : Bool) (len : Nat) (rs : List (Nat × Rw))
    (v : Bytes) (recs0 body : List (Nat × WireVal)) (hok : entsOK len rs = true) (hv : Valid v recs0)
    (he : hasEmbEnts rs = true → e = true) (hsz : (20 + sizeMEnts rs) * (v.length + 1) < 2 ^ 64)
    (hs : specMsg N (toSpecEnts rs) recs0 [] = some body) :
    ∃ out recs', Valid out recs' ∧ Sim e recs' body ∧ (untempl rs recs0).Sublist recs' ∧
      ∀ fuel, v.length + 2 + rs.length + fuelDEnts rs ≤ fuel → rewrite fuel (.message len rs) v = .ok out := by
  obtain ⟨o1, seen', recs1, res1, res2, sf', hr, hv1, hs1, hsub, hle, habs, hfl⟩ :=
    (ih N (Nat.le_refl _)).2.2.1 e len rs v recs0 [] body hok hv he hsz hs
  have hsz2 : sizeMEnts rs < 2 ^ 64 := by
    have : sizeMEnts rs * 1 < 2 ^ 64 := mul_lt_of_le hsz (by omega) (by omega)
    omega
  obtain ⟨o2, ⟨recs2, hv2, hs2⟩, hfa⟩ := (ih sf' hle).2.2.2 e len rs seen' res2 hok he hsz2 habs
  refine ⟨o1 ++ o2, recs1 ++ recs2, valid_append hv1 hv2, by rw [hr]; exact hs1.append hs2,
    hsub.trans (List.sublist_append_left _ _), ?_⟩
  intro fuel hf
  cases fuel with
  | zero => omega
  | succ f =>
    rw [rewrite_message, hfl f (by omega)]
    simp only [Res.bind]
    rw [hfa f (by omega)]

/-- `PayRel` and a specification payload that parses: the Go code sees the very same bytes -/
theorem payrel_valid {v p : Bytes} {recs : List (Nat × WireVal)} (hpay : PayRel v p)
    (h : parse (p.length + 1) p = some recs) : v = p := by
  rcases hpay with h1 | ⟨val, hv, rfl⟩
  · exact h1
  · rw [parse_leb128_none _ val hv.lt] at h; simp at h

/-! ### rewrite -/

/-- the common part of `embddedRewriter.Rewrite` (`merge` or not): rewrite the payload as a message, splice `tag, length`
in front unless the result is empty -/
theorem emb_core (N : Nat) (ih : ∀ sf, sf ≤ N → AllClaims sf) (number len : Nat) (rs : List (Nat × Rw)) (v : Bytes)
    (recs0 body recs : List (Nat × WireVal)) (hn0 : 0 < number) (hn1 : number < 2 ^ 61) (hok : entsOK len rs = true)
    (hsz : (40 + sizeMEnts rs) * (v.length + 1) < 2 ^ 64) (hp : Valid v recs0)
    (hbody : specMsg N (toSpecEnts rs) recs0 [] = some body)
    (hs3 : (if body.isEmpty then some [] else some [(number, WireVal.len (ProtoWire.encRecs body))]) = some recs) :
    ∃ out, Out true out recs ∧ ∀ f, v.length + 2 + rs.length + fuelDEnts rs ≤ f →
      ((rewrite f (.message len rs) v).bind fun body =>
        if body.isEmpty then .ok []
        else .ok (encodeVarint (BitVec.ofNat 64 (number * 8 + 2)) ++ encodeVarint (BitVec.ofNat 64 body.length)
          ++ body)) = .ok out := by
  have hsz' : (20 + sizeMEnts rs) * (v.length + 1) < 2 ^ 64 := mul_lt_of_le hsz (by omega) (Nat.le_refl _)
  obtain ⟨o, recs', hv', hs', _, hfo⟩ := msg_core N ih true len rs v recs0 body hok hp (fun _ => rfl) hsz' hbody
  by_cases hb : body = []
  · subst hb
    simp only [List.isEmpty_nil, if_true, Option.some.injEq] at hs3
    subst hs3
    have : recs' = [] := by
      have := hs'.length_eq
      cases recs' with
      | nil => rfl
      | cons => simp at this
    subst this
    have ho := hv'.eq_nil
    subst ho
    refine ⟨[], Out.nil true, ?_⟩
    intro f hf
    rw [hfo f hf]
    rfl
  · have hbe : body.isEmpty = false := by
      cases body with
      | nil => exact absurd rfl hb
      | cons => rfl
    simp only [hbe, Bool.false_eq_true, if_false, Option.some.injEq] at hs3
    subst hs3
    have hone : o ≠ [] := by
      intro h0; subst h0
      have := hv'.recs_nil; subst this
      have := hs'.length_eq
      cases body with
      | nil => exact hb rfl
      | cons => simp at this
    have hoe : o.isEmpty = false := by
      cases o with
      | nil => exact absurd rfl hone
      | cons => rfl
    -- the size of the body, from the general size bound
    have hosz : o.length < 2 ^ 64 := by
      have hrun := hfo (v.length + 2 + rs.length + fuelDEnts rs) (Nat.le_refl _)
      have := rewrite_size _ _ _ _ hrun
      simp only [sizeM] at this
      omega
    have htag : number * 8 + 2 < 2 ^ 64 := by omega
    have tok := rectok_len (leb128 (number * 8 + 2)) (leb128 o.length) o (number * 8 + 2)
      (vtok_leb128 _ htag) (vtok_leb128 _ hosz) (by omega) (by omega)
    have e8 : (number * 8 + 2) / 8 = number := by omega
    rw [e8] at tok
    have hval := tok.valid_cons valid_nil
    rw [List.append_nil] at hval
    refine ⟨encodeVarint (BitVec.ofNat 64 (number * 8 + 2)) ++ encodeVarint (BitVec.ofNat 64 o.length) ++ o,
      ⟨[(number, .len o)], ?_, Sim.emb number o hv' hs' (Sim.nil true)⟩, ?_⟩
    · rw [ProtoWire.encodeVarint_ofNat _ htag, ProtoWire.encodeVarint_ofNat _ hosz]; exact hval
    · intro f hf
      rw [hfo f hf]
      simp only [Res.bind, hoe, Bool.false_eq_true, if_false]

theorem step_rw (N : Nat) (ih : ∀ sf, sf ≤ N → AllClaims sf) : ClaimRw (N + 1) := by
  intro e r v p recs hok hpay he hsz hs
  cases r with
  | raw b =>
    simp only [toSpec, specRw_raw] at hs
    refine ⟨b, ⟨recs, hs, Sim.refl e recs⟩, ?_⟩
    intro fuel hf
    simp only [fuelD] at hf
    cases fuel with
    | zero => omega
    | succ f => exact rewrite_raw f b v
  | multi rs =>
    simp only [toSpec, specRw_multi] at hs
    simp only [rwOK] at hok
    simp only [hasEmb] at he
    simp only [sizeM] at hsz
    obtain ⟨o, ho, hfo⟩ := (ih N (Nat.le_refl _)).2.1 e rs v p recs hok hpay he hsz hs
    refine ⟨o, ho, ?_⟩
    intro fuel hf
    simp only [fuelD] at hf
    cases fuel with
    | zero => omega
    | succ f => rw [rewrite_multi]; exact hfo f (by omega)
  | message len rs =>
    simp only [toSpec, specRw_message] at hs
    obtain ⟨recs0, hp, hs2⟩ := Option.bind_eq_some_iff.mp hs
    have hvp := payrel_valid hpay hp
    subst hvp
    simp only [rwOK] at hok
    simp only [hasEmb] at he
    simp only [sizeM] at hsz
    obtain ⟨o, recs', hv', hs', _, hfo⟩ := msg_core N ih e len rs v recs0 recs hok hp he hsz hs2
    refine ⟨o, ⟨recs', hv', hs'⟩, ?_⟩
    intro fuel hf
    simp only [fuelD] at hf
    exact hfo fuel (by omega)
  | embedded number len rs =>
    simp only [toSpec, specRw_embedded] at hs
    obtain ⟨recs0, hp, hs2⟩ := Option.bind_eq_some_iff.mp hs
    obtain ⟨body, hbody, hs3⟩ := Option.bind_eq_some_iff.mp hs2
    have hvp := payrel_valid hpay hp
    subst hvp
    simp only [rwOK, Bool.and_eq_true, decide_eq_true_eq] at hok
    have hetrue : e = true := he (by simp [hasEmb])
    subst hetrue
    simp only [sizeM] at hsz
    obtain ⟨out, hout, hfo⟩ := emb_core N ih number len rs v recs0 body recs hok.1.1 hok.1.2 hok.2 hsz hp hbody hs3
    refine ⟨out, hout, ?_⟩
    intro fuel hf
    simp only [fuelD] at hf
    cases fuel with
    | zero => omega
    | succ f => rw [rewrite_embedded]; exact hfo f (by omega)
  | embeddedMerge number len rs =>
    simp only [toSpec, specRw_embeddedMerge] at hs
    obtain ⟨recs0, hp, hs2⟩ := Option.bind_eq_some_iff.mp hs
    obtain ⟨body, hbody, hs3⟩ := Option.bind_eq_some_iff.mp hs2
    have hvp := payrel_valid hpay hp
    subst hvp
    simp only [rwOK, Bool.and_eq_true, decide_eq_true_eq] at hok
    have hetrue : e = true := he (by simp [hasEmb])
    subst hetrue
    simp only [sizeM] at hsz
    obtain ⟨out, hout, hfo⟩ := emb_core N ih number len rs v recs0 body recs hok.1.1 hok.1.2 hok.2 hsz hp hbody hs3
    refine ⟨out, hout, ?_⟩
    intro fuel hf
    simp only [fuelD] at hf
    cases fuel with
    | zero => omega
    | succ f => rw [rewrite_embeddedMerge]; exact hfo f (by omega)
  | replacement r =>
    -- both sides restart from the empty input
    simp only [toSpec, specRw_replacement] at hs
    simp only [rwOK] at hok
    simp only [hasEmb] at he
    simp only [sizeM] at hsz
    obtain ⟨o, ho, hfo⟩ := (ih N (Nat.le_refl _)).1 e r [] [] recs hok (Or.inl rfl) he
      (mul_lt_of_le hsz (Nat.le_refl _) (by simp only [List.length_nil]; omega)) hs
    refine ⟨o, ho, ?_⟩
    intro fuel hf
    simp only [fuelD] at hf
    cases fuel with
    | zero => omega
    | succ f => rw [rewrite_replacement]; exact hfo f (by simp only [List.length_nil]; omega)

/-! ### all together -/

theorem claims_zero : AllClaims 0 := by
  refine ⟨?_, ?_, ?_, ?_⟩
  · intro e r v p recs _ _ _ _ hs; rw [specRw_zero] at hs; simp at hs
  · intro e rs v p recs _ _ _ _ hs; rw [specMulti_zero] at hs; simp at hs
  · intro e len rs inp recs0 seen result _ _ _ _ hs; rw [specMsg_zero] at hs; simp at hs
  · intro e len rs seen res2 _ _ _ hs; rw [specAbsent_zero] at hs; simp at hs

theorem all_claims : ∀ N sf, sf ≤ N → AllClaims sf := by
  intro N
  induction N with
  | zero =>
    intro sf h
    have : sf = 0 := by omega
    subst this; exact claims_zero
  | succ N ih =>
    intro sf h
    by_cases hle : sf ≤ N
    · exact ih sf hle
    · have : sf = N + 1 := by omega
      subst this
      exact ⟨step_rw N ih, step_multi N ih, step_loop N ih, step_absent N ih⟩

end Enc.Lemmas.ProtoRewriteSpec
