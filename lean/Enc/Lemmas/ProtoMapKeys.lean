import Enc.Lemmas.ProtoMapDefs
import Std.Data.String.ToInt
/-!
# proto map fields: on well-typed keys, `Val.show` (the key equality of `mapAssign` / `mapPut`) is equality of values

So the hypothesis `keysDistinct` of the round-trip theorems says exactly "the keys are pairwise distinct", as in every
Go map: `keysDistinct_of_nodup`.
-/
set_option linter.unusedSimpArgs false
set_option linter.unusedVariables false
namespace Enc.Lemmas.ProtoMap
open Enc Enc.Lemmas.ProtoWire

theorem hexDigit_inj : ∀ a b : Fin 16, hexDigit a.val = hexDigit b.val → a = b := by decide
theorem hexDigit_ne_dash : ∀ a : Fin 16, hexDigit a.val ≠ '-' := by decide

def hexChars (bs : Bytes) : List Char := bs.flatMap fun b => [hexDigit (b.toNat / 16), hexDigit (b.toNat % 16)]

theorem toHex_toList (bs : Bytes) : (toHex bs).toList = if bs.isEmpty then ['-'] else hexChars bs := by
  unfold toHex
  split
  · rfl
  · rw [String.toList_join, List.flatMap_map]
    simp only [hexChars, hexOfByte, String.toList_ofList]

theorem byte_of_nibbles (a b : UInt8) (h1 : a.toNat / 16 = b.toNat / 16) (h2 : a.toNat % 16 = b.toNat % 16) : a = b := by
  apply UInt8.toNat_inj.mp
  omega

theorem hexChars_inj : ∀ a b : Bytes, hexChars a = hexChars b → a = b
  | [], [], _ => rfl
  | [], y :: b, h => by simp [hexChars] at h
  | x :: a, [], h => by simp [hexChars] at h
  | x :: a, y :: b, h => by
    simp only [hexChars, List.flatMap_cons, List.cons_append, List.nil_append, List.cons.injEq] at h
    obtain ⟨h1, h2, h3⟩ := h
    have hx := x.toNat_lt
    have hy := y.toNat_lt
    have e1 := hexDigit_inj ⟨x.toNat / 16, by omega⟩ ⟨y.toNat / 16, by omega⟩ h1
    have e2 := hexDigit_inj ⟨x.toNat % 16, by omega⟩ ⟨y.toNat % 16, by omega⟩ h2
    simp only [Fin.mk.injEq] at e1 e2
    rw [byte_of_nibbles x y e1 e2, hexChars_inj a b h3]

theorem toHex_inj (a b : Bytes) (h : toHex a = toHex b) : a = b := by
  have h' := congrArg String.toList h
  rw [toHex_toList, toHex_toList] at h'
  cases a with
  | nil =>
    cases b with
    | nil => rfl
    | cons y b =>
      simp only [List.isEmpty_nil, if_true, List.isEmpty_cons, Bool.false_eq_true, if_false, hexChars,
        List.flatMap_cons, List.cons_append, List.cons.injEq] at h'
      have hy := y.toNat_lt
      exact absurd h'.1.symm (hexDigit_ne_dash ⟨y.toNat / 16, by omega⟩)
  | cons x a =>
    cases b with
    | nil =>
      simp only [List.isEmpty_nil, if_true, List.isEmpty_cons, Bool.false_eq_true, if_false, hexChars,
        List.flatMap_cons, List.cons_append, List.cons.injEq] at h'
      have hx := x.toNat_lt
      exact absurd h'.1 (hexDigit_ne_dash ⟨x.toNat / 16, by omega⟩)
    | cons y b =>
      simp only [List.isEmpty_cons, Bool.false_eq_true, if_false] at h'
      exact hexChars_inj _ _ h'

/-- **on keys, `valEqShow` is equality**: two well-typed keys with the same `Val.show` are the same value -/
theorem keyShow_inj (kt : Ty) (hk : keyTy kt = true) (a b : Val) (ha : hasTypeM kt a = true) (hb : hasTypeM kt b = true)
    (h : a.show = b.show) : a = b := by
  cases kt <;> simp only [keyTy] at hk <;> try (exact absurd hk (by decide))
  all_goals (cases a <;> simp only [hasTypeM] at ha <;> try (exact absurd ha (by decide)))
  all_goals (cases b <;> simp only [hasTypeM] at hb <;> try (exact absurd hb (by decide)))
  · rename_i x y
    cases x <;> cases y <;> first | rfl | (exact absurd h (by decide))
  · rename_i k i j
    simp only [Val.show, String.append_right_inj, Int.toString_eq_repr] at h
    rw [Int.repr_injective h]
  · rename_i s t
    simp only [Val.show, String.append_right_inj] at h
    rw [toHex_inj s t h]

/-- the keys of an alternating key/value list -/
def keysOf : Vals → List Val
  | .cons a (.cons _ r) => a :: keysOf r
  | _ => []

theorem allFresh_of_notMem (kt vt : Ty) (hk : keyTy kt = true) (a : Val) (ha : hasTypeM kt a = true) :
    ∀ kvs : Vals, hasTypeMapM kt vt kvs = true → a ∉ keysOf kvs → keysDistinct.allFresh a kvs = true
  | .nil, _, _ => by simp [keysDistinct.allFresh]
  | .cons _ .nil, h, _ => by simp [hasTypeMapM] at h
  | .cons x (.cons y r), h, hn => by
    simp only [hasTypeMapM, Bool.and_eq_true] at h
    simp only [keysOf, List.mem_cons, not_or] at hn
    simp only [keysDistinct.allFresh, Bool.and_eq_true, Bool.not_eq_true', beq_eq_false_iff_ne, ne_eq]
    exact ⟨fun e => hn.1 (keyShow_inj kt hk a x ha h.1.1 e), allFresh_of_notMem kt vt hk a ha r h.2 hn.2⟩

/-- pairwise distinct keys (as values) are pairwise distinct under `Val.show` -/
theorem keysDistinct_of_nodup (kt vt : Ty) (hk : keyTy kt = true) :
    ∀ kvs : Vals, hasTypeMapM kt vt kvs = true → (keysOf kvs).Nodup → keysDistinct kvs = true
  | .nil, _, _ => by simp [keysDistinct]
  | .cons _ .nil, h, _ => by simp [hasTypeMapM] at h
  | .cons x (.cons y r), h, hn => by
    simp only [hasTypeMapM, Bool.and_eq_true] at h
    simp only [keysOf, List.nodup_cons] at hn
    simp only [keysDistinct, Bool.and_eq_true]
    exact ⟨allFresh_of_notMem kt vt hk x h.1.1 r h.2 hn.1, keysDistinct_of_nodup kt vt hk r h.2 hn.2⟩

end Enc.Lemmas.ProtoMap
