import Enc.Lemmas.StreamErr
/-!
# JSON streaming (C11), second half: `InputOffset` and `Buffered` — the part that needs no assumption on the reader

For ANY script of `Read` results (errors anywhere, bytes after errors, zero-length reads), any fuel and any buffer constants:

* `readValue_offset_le` / `decodeCalls_monotone` — `InputOffset` never decreases, whatever the calls return;
* `readValue_cons` / `decodeCalls_cons` — byte conservation: with `all` the bytes the script held when the Decoder was
  created, after every call `all = consumed ++ Buffered ++ (bytes the script has not delivered yet)` with
  `consumed.length = InputOffset` (`Cons`), i.e. `Buffered` followed by the unread remainder of the reader is exactly the
  unconsumed input `all.drop InputOffset`.

The state invariant needed (`CInv`) is only about the window: it starts with a non-space byte, fits the buffer, and is empty
before the first allocation. The bounds of `InputOffset` against the positions of the specification stream are in
`Enc.Lemmas.StreamOffsetBounds`.
-/
namespace Enc.Lemmas.StreamOffset
open Enc Enc.Model.Json Enc.Model.Json.Stream
open Enc.Spec.Json (ws)
open Enc.Lemmas.StreamFull (pend pend_nil pend_cons read_nil read_cons_le read_cons_gt readFull_done readFull_succ
  tryParse errOut refill readValue_succ rest refillWith tryParse_nil tryParse_ok_accept tryParse_ok_wait
  tryParse_err_false tryParse_err_true)

/-! ### `Read` and `io.ReadFull` over an arbitrary script -/

theorem read_data (final : RErr) (r : Reader) (k : Nat) :
    (Stream.read final r k).1 ++ pend (Stream.read final r k).2.2 = pend r ∧ (Stream.read final r k).1.length ≤ k := by
  cases r with
  | nil => simp [read_nil]
  | cons e tl =>
    by_cases h : e.data.length ≤ k
    · rw [read_cons_le _ _ _ _ h]; simp [h]
    · rw [read_cons_gt _ _ _ _ h]
      simp only [pend_cons, List.length_take]
      refine ⟨by rw [← List.append_assoc, List.take_append_drop], by omega⟩

/-- `io.ReadFull` loses and invents nothing, and never returns more than it was asked for — for every script and fuel -/
theorem readFull_gen (final : RErr) (want : Nat) : ∀ (fuel : Nat) (r : Reader) (acc : Bytes),
    ∃ d, (readFull final fuel r want acc).1 = acc ++ d ∧ d ++ pend (readFull final fuel r want acc).2.2 = pend r ∧
      (readFull final fuel r want acc).1.length ≤ max want acc.length := by
  intro fuel
  induction fuel with
  | zero =>
    intro r acc
    exact ⟨[], by simp [readFull], by simp [readFull], by simp [readFull]; omega⟩
  | succ f ih =>
    intro r acc
    by_cases hw : want ≤ acc.length
    · rw [readFull_done _ _ _ _ _ hw]
      exact ⟨[], by simp, by simp, by simp; omega⟩
    · have hlt : acc.length < want := Nat.lt_of_not_le hw
      rw [readFull_succ _ _ _ _ _ hlt]
      obtain ⟨hd, hl⟩ := read_data final r (want - acc.length)
      generalize Stream.read final r (want - acc.length) = res at hd hl
      obtain ⟨d, e, r'⟩ := res
      simp only at hd hl ⊢
      cases e with
      | none =>
        simp only
        obtain ⟨d2, h1, h2, h3⟩ := ih r' (acc ++ d)
        refine ⟨d ++ d2, by rw [h1, List.append_assoc], by rw [List.append_assoc, h2, hd], ?_⟩
        simp only [List.length_append] at h3 ⊢; omega
      | some x =>
        simp only
        have hb : (acc ++ d).length ≤ max want acc.length := by simp only [List.length_append]; omega
        split
        · exact ⟨d, rfl, hd, hb⟩
        · split
          · exact ⟨d, rfl, hd, hb⟩
          · exact ⟨d, rfl, hd, hb⟩

/-! ### white space at the head of a window -/

theorem skipSpacesN_split : ∀ b : Bytes, ∃ w, b = w ++ skipSpacesN b ∧ w.length = b.length - (skipSpacesN b).length ∧
    ∀ c ∈ w, isSpace c = true := by
  intro b
  induction b with
  | nil => exact ⟨[], rfl, rfl, fun _ h => by cases h⟩
  | cons c t ih =>
    by_cases hc : isSpace c = true
    · obtain ⟨w, h1, h2, h3⟩ := ih
      have hle : (skipSpacesN t).length ≤ t.length := by
        have := congrArg List.length h1; simp only [List.length_append] at this; omega
      refine ⟨c :: w, ?_, ?_, ?_⟩
      · simp only [skipSpacesN, hc, if_true, List.cons_append]; rw [← h1]
      · simp only [skipSpacesN, hc, if_true, List.length_cons]; omega
      · intro x hx
        rcases List.mem_cons.mp hx with rfl | hx
        · exact hc
        · exact h3 x hx
    · refine ⟨[], ?_, ?_, fun _ h => by cases h⟩
      · simp [skipSpacesN, hc]
      · simp [skipSpacesN, hc]

theorem skipSpacesN_idem (b : Bytes) : skipSpacesN (skipSpacesN b) = skipSpacesN b := by
  simp only [JsonWs.skipSpacesN_eq_ws, JsonGrammar.ws_ws]

theorem skipSpacesN_length_le (b : Bytes) : (skipSpacesN b).length ≤ b.length := by
  rw [JsonWs.skipSpacesN_eq_ws]; exact JsonGrammar.ws_length_le _

/-! ### the decoder state -/

/-- what the window must satisfy for no byte to be lost: it begins with a non-space byte (or is empty), it fits the buffer
(`copy(dec.buffer[:cap], dec.remain)` copies all of it), and it is empty before the first allocation -/
structure CInv (s : St) : Prop where
  nows : skipSpacesN s.remain = s.remain
  cap : s.started = true → s.remain.length ≤ s.cap
  notStarted : s.started = false → s.remain = []

/-- **byte conservation**: `all = consumed ++ Buffered ++ undelivered`, `consumed.length = InputOffset` -/
def Cons (all : Bytes) (s : St) : Prop := ∃ pre : Bytes, pre.length = s.offset ∧ all = pre ++ (s.remain ++ pend s.reader)

/-- the form used in the property: `Buffered` followed by the unread remainder of the reader is the unconsumed input -/
theorem Cons.drop {all : Bytes} {s : St} (h : Cons all s) :
    s.offset ≤ all.length ∧ all.drop s.offset = s.remain ++ pend s.reader ∧ all.take s.offset ++ s.remain ++ pend s.reader = all := by
  obtain ⟨pre, h1, h2⟩ := h
  subst h2
  refine ⟨by simp only [List.length_append]; omega, ?_, ?_⟩
  · rw [← h1]; simp
  · rw [← h1]; simp

theorem init_cinv (final : RErr) (evs : Reader) : CInv { reader := evs, final := final } :=
  ⟨rfl, fun h => (by cases h), fun _ => rfl⟩

theorem init_cons (final : RErr) (evs : Reader) : Cons (pend evs) { reader := evs, final := final } :=
  ⟨[], rfl, rfl⟩

theorem refill_eq_gen (minBuf minRead : Nat) {s : St} (hI : CInv s) :
    ∃ cap1, s.remain.length ≤ cap1 ∧ refill minBuf minRead s = refillWith s cap1 := by
  cases hs : s.started with
  | false =>
    have hr := hI.notStarted hs
    refine ⟨if minBuf - 0 < minRead then 2 * minBuf else minBuf, ?_, ?_⟩
    · rw [hr]; simp
    · simp only [refill, refillWith, hs, hr, skipN]
      rfl
  | true =>
    have hc := hI.cap hs
    have ht : s.remain.take s.cap = s.remain := List.take_of_length_le hc
    refine ⟨if s.cap - s.remain.length < minRead then 2 * s.cap else s.cap, ?_, ?_⟩
    · split <;> omega
    · simp only [refill, refillWith, hs, ht, skipN]
      rfl

theorem refillWith_cons {all : Bytes} {s : St} {cap1 : Nat} (_hI : CInv s) (hC : Cons all s) (hcap : s.remain.length ≤ cap1) :
    CInv (refillWith s cap1) ∧ Cons all (refillWith s cap1) := by
  obtain ⟨d, hd1, hd2, hd3⟩ := readFull_gen s.final (cap1 - s.remain.length) (cap1 + 2 + s.reader.length) s.reader []
  generalize hres : readFull s.final (cap1 + 2 + s.reader.length) s.reader (cap1 - s.remain.length) [] = res at hd1 hd2 hd3
  have hs' : refillWith s cap1 =
      { s with started := true, buffer := s.remain ++ res.1, cap := cap1, remain := skipSpacesN (s.remain ++ res.1),
               offset := s.offset + ((s.remain ++ res.1).length - (skipSpacesN (s.remain ++ res.1)).length),
               err := if res.1.length > 0 then none else (match res.2.1 with | some .unexpectedEof => some .eof | x => x),
               reader := res.2.2 } := by
    simp only [refillWith, hres]
    rfl
  rw [hs']
  simp only [List.nil_append] at hd1
  have hb : res.1.length ≤ cap1 - s.remain.length := by simpa using hd3
  obtain ⟨w, hw1, hw2, _⟩ := skipSpacesN_split (s.remain ++ res.1)
  refine ⟨⟨skipSpacesN_idem _, fun _ => ?_, fun h => by cases h⟩, ?_⟩
  · show (skipSpacesN (s.remain ++ res.1)).length ≤ cap1
    have := skipSpacesN_length_le (s.remain ++ res.1)
    simp only [List.length_append] at this; omega
  · obtain ⟨pre, hp1, hp2⟩ := hC
    refine ⟨pre ++ w, ?_, ?_⟩
    · show (pre ++ w).length = s.offset + _
      rw [List.length_append, hp1, hw2]
    · show all = pre ++ w ++ (skipSpacesN (s.remain ++ res.1) ++ pend res.2.2)
      have e1 : s.remain ++ (res.1 ++ pend res.2.2) = w ++ (skipSpacesN (s.remain ++ res.1) ++ pend res.2.2) := by
        rw [← List.append_assoc, ← List.append_assoc w, ← hw1]
      rw [hp2, ← hd2, ← hd1, List.append_assoc pre w, e1]

/-- what `readValue` finds in its window: nothing usable, a definitive syntax error (state unchanged), or a value that is
accepted, with the explicit next state -/
theorem tryParse_cases (s : St) : tryParse s = none ∨ tryParse s = some (.syntax, s) ∨
    ∃ k r, s.remain ≠ [] ∧ parseValue (internalParseFlags s.remain) 0 (fuelFor s.remain) s.remain = .ok k r ∧
      tryParse s = some (.value (s.remain.take (s.remain.length - r.length)) k,
        { s with remain := skipSpacesN r,
                 offset := s.offset + (s.remain.length - r.length) + (r.length - (skipSpacesN r).length) }) := by
  by_cases hw : s.remain = []
  · exact Or.inl (tryParse_nil hw)
  · obtain ⟨res, hp⟩ : ∃ res, parseValue (internalParseFlags s.remain) 0 (fuelFor s.remain) s.remain = res := ⟨_, rfl⟩
    cases res with
    | ok k r =>
      by_cases hc : (!r.isEmpty || s.err == some .eof || !k.isNum) = true
      · exact Or.inr (Or.inr ⟨k, r, hw, hp, tryParse_ok_accept hw hp hc⟩)
      · exact Or.inl (tryParse_ok_wait hp (by simpa using hc))
    | err e =>
      cases e with
      | false => exact Or.inr (Or.inl (tryParse_err_false hw hp))
      | true => exact Or.inl (tryParse_err_true hp)

theorem accept_cons {all : Bytes} {s : St} {k : Kind} {r : Bytes} (hI : CInv s) (hC : Cons all s)
    (hp : parseValue (internalParseFlags s.remain) 0 (fuelFor s.remain) s.remain = .ok k r) :
    let s' : St := { s with remain := skipSpacesN r,
                            offset := s.offset + (s.remain.length - r.length) + (r.length - (skipSpacesN r).length) }
    CInv s' ∧ Cons all s' := by
  intro s'
  have hsuf : r <:+ s.remain := StreamStable.parseValue_suffix hp
  have hlen := hsuf.length_le
  have hl2 := skipSpacesN_length_le r
  obtain ⟨w, hw1, hw2, _⟩ := skipSpacesN_split r
  refine ⟨⟨skipSpacesN_idem _, fun h => ?_, fun h => ?_⟩, ?_⟩
  · show (skipSpacesN r).length ≤ s.cap
    have := hI.cap h; omega
  · have h0 := hI.notStarted h
    have : r = [] := by
      have : r.length = 0 := by rw [h0] at hlen; simpa using hlen
      exact List.length_eq_zero_iff.mp this
    show skipSpacesN r = []
    rw [this]; rfl
  · obtain ⟨pre, hp1, hp2⟩ := hC
    obtain ⟨v, hv⟩ := hsuf
    have hvl : v.length = s.remain.length - r.length := by
      have := congrArg List.length hv; simp only [List.length_append] at this; omega
    refine ⟨pre ++ v ++ w, ?_, ?_⟩
    · show (pre ++ v ++ w).length = s.offset + _ + _
      simp only [List.length_append, hp1, hvl, hw2]
    · show all = pre ++ v ++ w ++ (skipSpacesN r ++ pend s.reader)
      rw [hp2, ← hv]
      simp only [List.append_assoc]
      congr 2
      rw [← List.append_assoc w, ← hw1]

/-- **one `Decode` call conserves the bytes** — any script, any fuel, any buffer constants -/
theorem readValue_cons (minBuf minRead : Nat) {all : Bytes} : ∀ (n : Nat) (s : St), CInv s → Cons all s →
    CInv (readValue minBuf minRead n s).2 ∧ Cons all (readValue minBuf minRead n s).2 := by
  intro n
  induction n with
  | zero => intro s hI hC; exact ⟨hI, hC⟩
  | succ n ih =>
    intro s hI hC
    rw [readValue_succ]
    rcases tryParse_cases s with h | h | ⟨k, r, _, hp, h⟩
    · rw [h]
      cases he : s.err with
      | some e => exact ⟨hI, hC⟩
      | none =>
        simp only
        obtain ⟨cap1, hc1, heq⟩ := refill_eq_gen minBuf minRead hI
        obtain ⟨hI', hC'⟩ := refillWith_cons hI hC hc1
        rw [heq]
        exact ih _ hI' hC'
    · rw [h]; exact ⟨hI, hC⟩
    · rw [h]; exact accept_cons hI hC hp

/-! ### `InputOffset` never decreases -/

theorem refill_offset_le (minBuf minRead : Nat) (s : St) : s.offset ≤ (refill minBuf minRead s).offset := by
  simp only [refill, skipN]
  exact Nat.le_add_right _ _

theorem readValue_offset_le (minBuf minRead : Nat) : ∀ (n : Nat) (s : St),
    s.offset ≤ (readValue minBuf minRead n s).2.offset := by
  intro n
  induction n with
  | zero => intro s; exact Nat.le_refl _
  | succ n ih =>
    intro s
    rw [readValue_succ]
    rcases tryParse_cases s with h | h | ⟨k, r, _, _, h⟩
    · rw [h]
      cases he : s.err with
      | some e => exact Nat.le_refl _
      | none => exact Nat.le_trans (refill_offset_le minBuf minRead s) (ih _)
    · rw [h]; exact Nat.le_refl _
    · rw [h]; show s.offset ≤ s.offset + _ + _; omega

/-! ### sequences of `Decode` calls -/

theorem decodeCalls_succ (minBuf minRead limit extra : Nat) (s : St) :
    decodeCalls minBuf minRead (limit + 1) extra s =
      match readValue minBuf minRead (pendingBytes s.reader + s.reader.length + 8) s with
      | (o, s') =>
        match o with
        | .value .. => (o, s') :: decodeCalls minBuf minRead limit extra s'
        | _ =>
          match extra with
          | 0 => [(o, s')]
          | e + 1 => (o, s') :: decodeCalls minBuf minRead limit e s' := by
  rfl

/-- every list `decodeCalls` returns is: the result of one `readValue` call, followed by nothing or by the calls made from
the state it left -/
theorem decodeCalls_shape (minBuf minRead limit extra : Nat) (s : St) :
    ∃ tl, decodeCalls minBuf minRead (limit + 1) extra s =
        (readValue minBuf minRead (pendingBytes s.reader + s.reader.length + 8) s) :: tl ∧
      (tl = [] ∨ ∃ e, tl = decodeCalls minBuf minRead limit e
        (readValue minBuf minRead (pendingBytes s.reader + s.reader.length + 8) s).2) := by
  rw [decodeCalls_succ]
  generalize readValue minBuf minRead (pendingBytes s.reader + s.reader.length + 8) s = res
  obtain ⟨o, s'⟩ := res
  cases o with
  | value raw k => exact ⟨_, rfl, Or.inr ⟨extra, rfl⟩⟩
  | _ =>
    cases extra with
    | zero => exact ⟨_, rfl, Or.inl rfl⟩
    | succ e => exact ⟨_, rfl, Or.inr ⟨e, rfl⟩⟩

/-- conservation after every call of any sequence of calls -/
theorem decodeCalls_cons (minBuf minRead : Nat) {all : Bytes} : ∀ (limit extra : Nat) (s : St), CInv s → Cons all s →
    ∀ p ∈ decodeCalls minBuf minRead limit extra s, Cons all p.2 := by
  intro limit
  induction limit with
  | zero => intro _ s _ _ p hp; cases hp
  | succ limit ih =>
    intro extra s hI hC p hp
    obtain ⟨tl, heq, htl⟩ := decodeCalls_shape minBuf minRead limit extra s
    obtain ⟨hI', hC'⟩ := readValue_cons minBuf minRead (all := all) (pendingBytes s.reader + s.reader.length + 8) s hI hC
    rw [heq] at hp
    rcases List.mem_cons.mp hp with rfl | hp
    · exact hC'
    · rcases htl with rfl | ⟨e, rfl⟩
      · cases hp
      · exact ih e _ hI' hC' p hp

theorem decodeCalls_offset_ge (minBuf minRead : Nat) : ∀ (limit extra : Nat) (s : St),
    ∀ p ∈ decodeCalls minBuf minRead limit extra s, s.offset ≤ p.2.offset := by
  intro limit
  induction limit with
  | zero => intro _ s p hp; cases hp
  | succ limit ih =>
    intro extra s p hp
    obtain ⟨tl, heq, htl⟩ := decodeCalls_shape minBuf minRead limit extra s
    have h1 := readValue_offset_le minBuf minRead (pendingBytes s.reader + s.reader.length + 8) s
    rw [heq] at hp
    rcases List.mem_cons.mp hp with rfl | hp
    · exact h1
    · rcases htl with rfl | ⟨e, rfl⟩
      · cases hp
      · exact Nat.le_trans h1 (ih e _ p hp)

/-- **`InputOffset` never decreases** over any sequence of `Decode` calls, successful or not: the offsets read after the
calls (preceded by the offset before the first call) are sorted -/
theorem decodeCalls_monotone (minBuf minRead : Nat) : ∀ (limit extra : Nat) (s : St),
    List.Pairwise (· ≤ ·) (s.offset :: (decodeCalls minBuf minRead limit extra s).map (·.2.offset)) := by
  intro limit
  induction limit with
  | zero => intro _ s; simp [decodeCalls]
  | succ limit ih =>
    intro extra s
    refine List.pairwise_cons.mpr ⟨?_, ?_⟩
    · intro x hx
      obtain ⟨p, hp, rfl⟩ := List.mem_map.mp hx
      exact decodeCalls_offset_ge minBuf minRead _ _ s p hp
    · obtain ⟨tl, heq, htl⟩ := decodeCalls_shape minBuf minRead limit extra s
      rw [heq]
      rcases htl with rfl | ⟨e, rfl⟩
      · simp
      · exact ih e _

/-- `decodeAll` is `decodeCalls` stopped at the first call that does not return a value, outcomes only -/
theorem decodeAll_eq_calls (minBuf minRead : Nat) : ∀ (limit : Nat) (s : St),
    decodeAll minBuf minRead limit s = (decodeCalls minBuf minRead limit 0 s).map (·.1) := by
  intro limit
  induction limit with
  | zero => intro s; rfl
  | succ limit ih =>
    intro s
    rw [decodeCalls_succ]
    simp only [decodeAll]
    generalize readValue minBuf minRead (pendingBytes s.reader + s.reader.length + 8) s = res
    obtain ⟨o, s'⟩ := res
    cases o with
    | value raw k => simp only [List.map_cons, ih]
    | _ => rfl

end Enc.Lemmas.StreamOffset
