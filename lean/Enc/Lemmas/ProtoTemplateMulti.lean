import Enc.Lemmas.ProtoTemplateSingle
/-!
# Templates with ANY number of scalar members on flat messages: the table `parseMembers` builds

`parseMembers` walks the members of the template object and fills the rewriter table with `insertEnt`. For a presented type
all of whose (named) fields are singular scalars of the proved kinds (`PresOK`) and a template object with distinct keys, the
table is sorted by field number and holds exactly one leaf entry per member (`Inv`).
-/
namespace Enc.Lemmas.ProtoTemplate
open Enc Enc.Spec.Protobuf Enc.Lemmas.ProtoRewriteSpec
open Enc.Model.Proto (PKind RwT Rw TFields TType parseLeaf parseTemplate parseStruct parseMembers parseElems parseOne
  lookupFieldByName rewriteT rewrite gvString gvObj findRule multiOfT insertEnt tableLen PF getRwT)
open Enc.Model.Json (GV GMs)

/-! ### `insertEnt` -/

def SortedE (l : List (Nat × RwT)) : Prop := l.Pairwise (fun a b => a.1 < b.1)

theorem mem_insertEnt (i : Nat) (r : RwT) : ∀ (l : List (Nat × RwT)) (p : Nat × RwT), p ∈ insertEnt i r l → p = (i, r) ∨ p ∈ l
  | [], p, h => by simp only [insertEnt, List.mem_singleton] at h; exact Or.inl h
  | (j, q) :: rest, p, h => by
    simp only [insertEnt] at h
    split at h
    · simp only [List.mem_cons] at h ⊢
      rcases h with h | h | h
      · exact Or.inl h
      · exact Or.inr (Or.inl h)
      · exact Or.inr (Or.inr h)
    · split at h
      · exact Or.inr h
      · simp only [List.mem_cons] at h ⊢
        rcases h with h | h
        · exact Or.inr (Or.inl h)
        · rcases mem_insertEnt i r rest p h with h | h
          · exact Or.inl h
          · exact Or.inr (Or.inr h)

theorem mem_insertEnt_of_mem (i : Nat) (r : RwT) : ∀ (l : List (Nat × RwT)) (p : Nat × RwT), p ∈ l → p ∈ insertEnt i r l
  | [], p, h => by simp at h
  | (j, q) :: rest, p, h => by
    simp only [insertEnt]
    split
    · exact List.mem_cons_of_mem _ h
    · split
      · exact h
      · simp only [List.mem_cons] at h ⊢
        rcases h with h | h
        · exact Or.inl h
        · exact Or.inr (mem_insertEnt_of_mem i r rest p h)

theorem mem_insertEnt_self (i : Nat) (r : RwT) : ∀ (l : List (Nat × RwT)), (∀ q, q ∈ l → q.1 ≠ i) → (i, r) ∈ insertEnt i r l
  | [], _ => by simp [insertEnt]
  | (j, q) :: rest, h => by
    simp only [insertEnt]
    split
    · simp
    · split
      · rename_i _ he
        exact absurd (by simpa using he : i = j).symm (h (j, q) (by simp))
      · exact List.mem_cons_of_mem _ (mem_insertEnt_self i r rest (fun q hq => h q (by simp [hq])))

theorem sorted_insertEnt (i : Nat) (r : RwT) : ∀ (l : List (Nat × RwT)), SortedE l → SortedE (insertEnt i r l)
  | [], _ => by simp [insertEnt, SortedE]
  | (j, q) :: rest, h => by
    simp only [SortedE, List.pairwise_cons] at h
    simp only [insertEnt]
    split
    · rename_i hij
      simp only [SortedE, List.pairwise_cons]
      refine ⟨?_, h⟩
      intro p hp
      simp only [List.mem_cons] at hp
      rcases hp with rfl | hp
      · exact hij
      · exact Nat.lt_trans hij (h.1 p hp)
    · split
      · simp only [SortedE, List.pairwise_cons]; exact h
      · rename_i h1 h2
        simp only [SortedE, List.pairwise_cons]
        refine ⟨?_, sorted_insertEnt i r rest h.2⟩
        intro p hp
        rcases mem_insertEnt i r rest p hp with rfl | hp
        · have : i ≠ j := by simpa using h2
          simp only; omega
        · exact h.1 p hp

theorem length_insertEnt_le (i : Nat) (r : RwT) : ∀ l, (insertEnt i r l).length ≤ l.length + 1
  | [] => by simp [insertEnt]
  | (j, q) :: rest => by
    simp only [insertEnt]
    split
    · simp
    · split
      · simp
      · have := length_insertEnt_le i r rest
        simp only [List.length_cons]; omega

/-! ### members of the template -/

def GMem (k : Bytes) (jv : GV) : GMs → Prop
  | .nil => False
  | .cons k' v' rest => (k = k' ∧ jv = v') ∨ GMem k jv rest

def KeysNodup : GMs → Prop
  | .nil => True
  | .cons k _ rest => (∀ jv, ¬ GMem k jv rest) ∧ KeysNodup rest

def gmLen : GMs → Nat
  | .nil => 0
  | .cons _ _ rest => gmLen rest + 1

/-- total size bound of the records a template writes -/
def tmplSize : GMs → Nat
  | .nil => 0
  | .cons _ jv rest => 30 + strLen jv + tmplSize rest

/-- bytes of the `raw` leaves of a table -/
def entSize : List (Nat × RwT) → Nat
  | [] => 0
  | (_, .raw b) :: rest => b.length + entSize rest
  | _ :: rest => entSize rest

theorem entSize_insertEnt_raw (i : Nat) (b : Bytes) : ∀ l, entSize (insertEnt i (.raw b) l) ≤ b.length + entSize l
  | [] => by simp [insertEnt, entSize]
  | (j, q) :: rest => by
    simp only [insertEnt]
    split
    · simp [entSize]
    · split
      · omega
      · have := entSize_insertEnt_raw i b rest
        cases q <;> simp only [entSize] <;> omega

theorem entSize_insertEnt_nil (i : Nat) : ∀ l, entSize (insertEnt i (.multi []) l) ≤ entSize l
  | [] => by simp [insertEnt, entSize]
  | (j, q) :: rest => by
    simp only [insertEnt]
    split
    · simp [entSize]
    · split
      · omega
      · have := entSize_insertEnt_nil i rest
        cases q <;> simp only [entSize] <;> omega

/-- what the presented type must satisfy: every named field is a singular scalar of a proved kind, known to the reference
decoder under the same number; names determine numbers injectively -/
structure PresOK (fs : Fields) (tfs : TFields) : Prop where
  scalar : ∀ k n rep tt, lookupFieldByName tfs k = some (n, rep, tt) →
    rep = false ∧ ∃ kind i o t, tt = .prim kind ∧ findField fs n = some (i, o, t) ∧ kindOf t o = some kind ∧ 0 < n ∧ n < 2 ^ 61
  inj : ∀ k k' n a b a' b', lookupFieldByName tfs k = some (n, a, b) → lookupFieldByName tfs k' = some (n, a', b') → k = k'

/-- the table entry built for a member -/
def LeafRel (pf : PF) (kind : PKind) (n : Nat) (jv : GV) (r : RwT) : Prop :=
  (parseLeaf pf kind n jv = .ok none ∧ r = .multi []) ∨ (∃ rb, parseLeaf pf kind n jv = .ok (some (.raw rb)) ∧ r = .raw rb)

structure Inv (pf : PF) (tfs : TFields) (ms : GMs) (ents : List (Nat × RwT)) : Prop where
  sorted : SortedE ents
  sound : ∀ n r, (n, r) ∈ ents → ∃ k jv kind, GMem k jv ms ∧ lookupFieldByName tfs k = some (n, false, .prim kind) ∧
    LeafRel pf kind n jv r
  complete : ∀ k jv n kind, GMem k jv ms → lookupFieldByName tfs k = some (n, false, .prim kind) →
    ∃ r, (n, r) ∈ ents ∧ LeafRel pf kind n jv r
  size : entSize ents ≤ tmplSize ms
  len : ents.length ≤ gmLen ms

/-- one step of `parseMembers` on a scalar member, no rules -/
theorem parseMembers_step (pf : PF) (tfs : TFields) (k : Bytes) (jv : GV) (rest : GMs) (n : Nat) (kind : PKind)
    (hname : lookupFieldByName tfs k = some (n, false, .prim kind)) (fuel : Nat) :
    parseMembers pf (fuel + 3) tfs (.cons k jv rest) [] =
      (parseLeaf pf kind n jv).bind fun r =>
        (match r with
         | some (.embedded a b c) => Res.ok [RwT.embeddedMerge a b c]
         | some x => Res.ok [x]
         | none => Res.ok []).bind fun rws =>
          (parseMembers pf (fuel + 2) tfs rest []).bind fun ents => .ok (insertEnt n (multiOfT rws) ents) := by
  simp only [parseMembers, hname, Bool.false_eq_true, if_false, findRule, parseElems, parseOne]
  cases parseLeaf pf kind n jv with
  | err e => simp [Res.bind]
  | panic e => simp [Res.bind]
  | ok r =>
    cases r with
    | none => simp [Res.bind]
    | some x => cases x <;> simp [Res.bind]

theorem parseMembers_inv (pf : PF) (hpf : PFok pf) (fs : Fields) (tfs : TFields) (hP : PresOK fs tfs) :
    ∀ (ms : GMs) (fuel : Nat) (ents : List (Nat × RwT)), gmLen ms + 3 ≤ fuel → KeysNodup ms →
      (∀ k jv s, GMem k jv ms → gvString jv = some s → s.length < 2 ^ 64) →
      parseMembers pf fuel tfs ms [] = .ok ents → Inv pf tfs ms ents
  | .nil, fuel, ents, hf, _, _, h => by
    obtain ⟨f, rfl⟩ : ∃ f, fuel = f + 1 := ⟨fuel - 1, by omega⟩
    simp only [parseMembers, Res.ok.injEq] at h
    subst h
    exact ⟨by simp [SortedE], fun n r hm => by simp at hm, fun k jv n kind hm => by simp [GMem] at hm, by simp [entSize], by simp⟩
  | .cons k jv rest, fuel, ents, hf, hnd, hstr, h => by
    simp only [gmLen] at hf
    obtain ⟨f, rfl⟩ : ∃ f, fuel = f + 3 := ⟨fuel - 3, by omega⟩
    cases hl : lookupFieldByName tfs k with
    | none => simp [parseMembers, hl] at h
    | some p =>
      obtain ⟨n, rep, tt⟩ := p
      obtain ⟨rfl, kind, i, o, t, rfl, hfind, hkind, h0, h1⟩ := hP.scalar k n rep tt hl
      rw [parseMembers_step pf tfs k jv rest n kind hl f] at h
      have hleaf := leaf_sem pf hpf t o kind hkind n h0 h1 jv (fun s hs => hstr k jv s (Or.inl ⟨rfl, rfl⟩) hs)
      cases hv : leafVal pf kind jv with
      | none => rw [hv] at hleaf; simp [hleaf, Res.bind] at h
      | some x =>
        rw [hv] at hleaf
        simp only at hleaf
        simp only [KeysNodup] at hnd
        -- the entry of this member
        have hent : ∃ m, LeafRel pf kind n jv m ∧ (∃ ents', parseMembers pf (f + 2) tfs rest [] = .ok ents' ∧
            ents = insertEnt n m ents') ∧ (match m with | .raw b => b.length ≤ 30 + strLen jv | _ => m = .multi []) := by
          rcases hleaf with ⟨hp, _⟩ | ⟨rb, w, hp, hrl, _, _⟩
          · rw [hp] at h
            simp only [Res.bind, multiOfT] at h
            cases hr : parseMembers pf (f + 2) tfs rest [] with
            | err e => simp [hr] at h
            | panic e => simp [hr] at h
            | ok ents' =>
              simp only [hr, Res.ok.injEq] at h
              exact ⟨.multi [], Or.inl ⟨hp, rfl⟩, ⟨ents', rfl, h.symm⟩, rfl⟩
          · rw [hp] at h
            simp only [Res.bind, multiOfT] at h
            cases hr : parseMembers pf (f + 2) tfs rest [] with
            | err e => simp [hr] at h
            | panic e => simp [hr] at h
            | ok ents' =>
              simp only [hr, Res.ok.injEq] at h
              exact ⟨.raw rb, Or.inr ⟨rb, hp, rfl⟩, ⟨ents', rfl, h.symm⟩, hrl⟩
        obtain ⟨m, hrel, ⟨ents', hr, rfl⟩, hmsz⟩ := hent
        have ih := parseMembers_inv pf hpf fs tfs hP rest (f + 2) ents' (by omega) hnd.2
          (fun k' jv' s hm hs => hstr k' jv' s (Or.inr hm) hs) hr
        -- no other member has this field number
        have hfresh : ∀ q, q ∈ ents' → q.1 ≠ n := by
          intro q hq hqn
          obtain ⟨k', jv', kind', hm', hl', _⟩ := ih.sound q.1 q.2 hq
          rw [hqn] at hl'
          have := hP.inj k' k n _ _ _ _ hl' hl
          subst this
          exact hnd.1 jv' hm'
        refine ⟨sorted_insertEnt n m ents' ih.sorted, ?_, ?_, ?_, by
          have := length_insertEnt_le n m ents'; have := ih.len; simp only [gmLen]; omega⟩
        · intro n' r hm'
          rcases mem_insertEnt n m ents' (n', r) hm' with he | he
          · simp only [Prod.mk.injEq] at he
            obtain ⟨rfl, rfl⟩ := he
            exact ⟨k, jv, kind, Or.inl ⟨rfl, rfl⟩, hl, hrel⟩
          · obtain ⟨k', jv', kind', a, b, c⟩ := ih.sound n' r he
            exact ⟨k', jv', kind', Or.inr a, b, c⟩
        · intro k' jv' n' kind' hm' hl'
          rcases hm' with ⟨rfl, rfl⟩ | hm'
          · rw [hl] at hl'
            simp only [Option.some.injEq, Prod.mk.injEq, TType.prim.injEq, true_and] at hl'
            obtain ⟨rfl, rfl⟩ := hl'
            exact ⟨m, mem_insertEnt_self n m ents' hfresh, hrel⟩
          · obtain ⟨r, a, b⟩ := ih.complete k' jv' n' kind' hm' hl'
            exact ⟨r, mem_insertEnt_of_mem n m ents' _ a, b⟩
        · simp only [tmplSize]
          have := ih.size
          cases m with
          | raw b => have := entSize_insertEnt_raw n b ents'; simp only at hmsz; omega
          | multi rs =>
            simp only at hmsz
            cases hmsz
            have := entSize_insertEnt_nil n ents'; omega
          | message => simp at hmsz
          | embedded => simp at hmsz
          | embeddedMerge => simp at hmsz
          | replacement => simp at hmsz
          | bitOr => simp at hmsz

end Enc.Lemmas.ProtoTemplate
