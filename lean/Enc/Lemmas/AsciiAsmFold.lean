import Enc.Lemmas.AsciiAsmPrint
/-!
C20, assembly kernels — `equal_fold_amd64.s`: scalar path (table `lowerCase`, OR-accumulated XORs, the cmp7…cmp1 cascade)
and AVX2 path (`VXORPD/VPCMPEQB/VORPD/VPADDB/VPCMPGTB/VPAND/VPSLLW/VPCMPEQB`, `VPMOVMSKB`): one lane lemma
(`lane_fold`, by `bv_decide` over two bytes) lifted to vectors.
-/
namespace Enc.Lemmas.AsciiAsm
set_option linter.unusedSimpArgs false
open Enc Enc.Gen Enc.Model.AsciiAsm
open Enc.Lemmas.Ascii (lt80 pr)

/-! ### index predicates (two strings are read in lock step) -/

def allRangeF (f : Nat → Bool) (p : Nat) : Nat → Bool
  | 0 => true
  | k + 1 => f p && allRangeF f (p + 1) k

theorem allRangeF_add (f : Nat → Bool) (p a b : Nat) :
    allRangeF f p (a + b) = (allRangeF f p a && allRangeF f (p + a) b) := by
  induction a generalizing p with
  | zero => simp [allRangeF]
  | succ a ih =>
    have : a + 1 + b = (a + b) + 1 := by omega
    rw [this]
    simp only [allRangeF, ih, Bool.and_assoc]
    have : p + 1 + a = p + (a + 1) := by omega
    rw [this]

theorem allRangeF_sub (f : Nat → Bool) (p a k : Nat) (h : allRangeF f 0 p = true) (hak : a + k ≤ p) :
    allRangeF f a k = true := by
  have hp : p = a + (k + (p - a - k)) := by omega
  rw [hp, allRangeF_add, allRangeF_add] at h
  simp only [Nat.zero_add, Bool.and_eq_true] at h
  exact h.2.1

theorem allRangeF_overlap (f : Nat → Bool) (p n w : Nat) (h : allRangeF f 0 p = true)
    (hn : n ≤ w) (hw : w ≤ p + n) : allRangeF f (p + n - w) w = allRangeF f p n := by
  have hw' : w = (w - n) + n := by omega
  rw [hw', allRangeF_add]
  have h1 : allRangeF f (p + n - (w - n + n)) (w - n) = true := allRangeF_sub f p _ _ h (by omega)
  rw [h1]
  have : p + n - (w - n + n) + (w - n) = p := by omega
  rw [this]; simp

theorem avx_step_f (f : Nat → Bool) (p n B : Nat) (rest : Bool) (hB : B ≤ n) (h0 : allRangeF f 0 p = true)
    (hrest : allRangeF f 0 (p + B) = true → rest = allRangeF f (p + B) (n - B)) :
    (if (!allRangeF f p B) = true then false else rest) = allRangeF f p n := by
  have hn' : n = B + (n - B) := by omega
  conv => rhs; rw [hn', allRangeF_add]
  cases ht : allRangeF f p B
  · simp
  · have h1 : allRangeF f 0 (p + B) = true := by
      have := allRangeF_add f 0 p B
      simp only [Nat.zero_add] at this
      rw [this, h0, ht]; rfl
    simp [hrest h1]

/-- "bytes `i` of `a` and `b` are equal after the table `lowerCase`" -/
def foldAt (a b : Bytes) (i : Nat) : Bool := Model.Ascii.lowerCase (byteAt a i) == Model.Ascii.lowerCase (byteAt b i)

theorem foldAt_cons_succ (x y : UInt8) (a b : Bytes) (i : Nat) : foldAt (x :: a) (y :: b) (i + 1) = foldAt a b i := by
  simp [foldAt, byteAt]

theorem allRangeF_fold_cons (x y : UInt8) (a b : Bytes) (p k : Nat) :
    allRangeF (foldAt (x :: a) (y :: b)) (p + 1) k = allRangeF (foldAt a b) p k := by
  induction k generalizing p with
  | zero => rfl
  | succ k ih => simp only [allRangeF, foldAt_cons_succ, ih]

theorem allRangeF_fold_full (a b : Bytes) (h : a.length = b.length) :
    allRangeF (foldAt a b) 0 a.length = (a.map Model.Ascii.lowerCase == b.map Model.Ascii.lowerCase) := by
  induction a generalizing b with
  | nil => cases b <;> simp_all [allRangeF]
  | cons x a ih =>
    cases b with
    | nil => simp at h
    | cons y b =>
      simp only [List.length_cons, Nat.add_right_cancel_iff] at h
      simp only [List.length_cons, allRangeF, Nat.zero_add, allRangeF_fold_cons, ih b h, List.map_cons,
        List.cons_beq_cons]
      simp [foldAt, byteAt]

/-! ### equal_fold_amd64.s — scalar path -/

theorem step_zero (a b : Bytes) (ax da db : Nat) (si : UInt8) (hd : da = db) :
    (EqualFold.step a b ax da db si == 0) = (si == 0 && foldAt a b (ax + da)) := by
  subst hd
  simp only [EqualFold.step, foldAt, Ascii.or_xor_zero]

theorem fold_success : EqualFold.success = true := by decide

/-- `R j` = the first `j` byte pairs from the index AX fold-equal -/
theorem range_succ (a b : Bytes) (ax j : Nat) :
    allRangeF (foldAt a b) ax (j + 1) = (foldAt a b (ax + j) && allRangeF (foldAt a b) ax j) := by
  rw [allRangeF_add]; simp [allRangeF, Bool.and_comm]

/-- cmp1 with at least one byte left: the last group, then `done` reads ZF of the accumulator -/
theorem fold_A1 (a b : Bytes) (ax dx : Nat) (si : UInt8) (h : 1 ≤ dx) :
    EqualFold.cmp1 a b ax dx si = (si == 0 && allRangeF (foldAt a b) ax 1) := by
  simp only [EqualFold.cmp1, EqualFold.done]
  asm_imm
  rw [if_neg (by omega), step_zero _ _ _ _ _ _ rfl]
  simp [allRangeF]

theorem fold_A2 (a b : Bytes) (ax dx : Nat) (si : UInt8) (h : 2 ≤ dx) :
    EqualFold.cmp2 a b ax dx si = (si == 0 && allRangeF (foldAt a b) ax 2) := by
  simp only [EqualFold.cmp2]
  asm_imm
  rw [if_neg (by omega), fold_A1 _ _ _ _ _ (by omega), step_zero _ _ _ _ _ _ rfl, range_succ a b ax 1, Bool.and_assoc]

theorem fold_A3 (a b : Bytes) (ax dx : Nat) (si : UInt8) (h : 3 ≤ dx) :
    EqualFold.cmp3 a b ax dx si = (si == 0 && allRangeF (foldAt a b) ax 3) := by
  simp only [EqualFold.cmp3]
  asm_imm
  rw [if_neg (by omega), fold_A2 _ _ _ _ _ (by omega), step_zero _ _ _ _ _ _ rfl, range_succ a b ax 2, Bool.and_assoc]

theorem fold_A4 (a b : Bytes) (ax dx : Nat) (si : UInt8) (h : 4 ≤ dx) :
    EqualFold.cmp4 a b ax dx si = (si == 0 && allRangeF (foldAt a b) ax 4) := by
  simp only [EqualFold.cmp4]
  asm_imm
  rw [if_neg (by omega), fold_A3 _ _ _ _ _ (by omega), step_zero _ _ _ _ _ _ rfl, range_succ a b ax 3, Bool.and_assoc]

theorem fold_A5 (a b : Bytes) (ax dx : Nat) (si : UInt8) (h : 5 ≤ dx) :
    EqualFold.cmp5 a b ax dx si = (si == 0 && allRangeF (foldAt a b) ax 5) := by
  simp only [EqualFold.cmp5]
  asm_imm
  rw [if_neg (by omega), fold_A4 _ _ _ _ _ (by omega), step_zero _ _ _ _ _ _ rfl, range_succ a b ax 4, Bool.and_assoc]

theorem fold_A6 (a b : Bytes) (ax dx : Nat) (si : UInt8) (h : 6 ≤ dx) :
    EqualFold.cmp6 a b ax dx si = (si == 0 && allRangeF (foldAt a b) ax 6) := by
  simp only [EqualFold.cmp6]
  asm_imm
  rw [if_neg (by omega), fold_A5 _ _ _ _ _ (by omega), step_zero _ _ _ _ _ _ rfl, range_succ a b ax 5, Bool.and_assoc]

theorem fold_A7 (a b : Bytes) (ax dx : Nat) (si : UInt8) (h : 7 ≤ dx) :
    EqualFold.cmp7 a b ax dx si = (si == 0 && allRangeF (foldAt a b) ax 7) := by
  simp only [EqualFold.cmp7]
  asm_imm
  rw [if_neg (by omega), fold_A6 _ _ _ _ _ (by omega), step_zero _ _ _ _ _ _ rfl, range_succ a b ax 6, Bool.and_assoc]

theorem fold_B1 (a b : Bytes) (ax dx : Nat) (h : dx ≤ 1) :
    EqualFold.cmp1 a b ax dx 0 = allRangeF (foldAt a b) ax dx := by
  by_cases h1 : dx < 1
  · have : dx = 0 := by omega
    subst this
    simp only [EqualFold.cmp1]
    asm_imm
    simp [fold_success, allRangeF]
  · have : dx = 1 := by omega
    subst this
    rw [fold_A1 _ _ _ _ _ (by omega)]; simp

theorem fold_B2 (a b : Bytes) (ax dx : Nat) (h : dx ≤ 2) :
    EqualFold.cmp2 a b ax dx 0 = allRangeF (foldAt a b) ax dx := by
  by_cases h1 : dx < 2
  · simp only [EqualFold.cmp2]
    asm_imm
    rw [if_pos h1, fold_B1 _ _ _ _ (by omega)]
  · have : dx = 2 := by omega
    subst this
    rw [fold_A2 _ _ _ _ _ (by omega)]; simp

theorem fold_B3 (a b : Bytes) (ax dx : Nat) (h : dx ≤ 3) :
    EqualFold.cmp3 a b ax dx 0 = allRangeF (foldAt a b) ax dx := by
  by_cases h1 : dx < 3
  · simp only [EqualFold.cmp3]
    asm_imm
    rw [if_pos h1, fold_B2 _ _ _ _ (by omega)]
  · have : dx = 3 := by omega
    subst this
    rw [fold_A3 _ _ _ _ _ (by omega)]; simp

theorem fold_B4 (a b : Bytes) (ax dx : Nat) (h : dx ≤ 4) :
    EqualFold.cmp4 a b ax dx 0 = allRangeF (foldAt a b) ax dx := by
  by_cases h1 : dx < 4
  · simp only [EqualFold.cmp4]
    asm_imm
    rw [if_pos h1, fold_B3 _ _ _ _ (by omega)]
  · have : dx = 4 := by omega
    subst this
    rw [fold_A4 _ _ _ _ _ (by omega)]; simp

theorem fold_B5 (a b : Bytes) (ax dx : Nat) (h : dx ≤ 5) :
    EqualFold.cmp5 a b ax dx 0 = allRangeF (foldAt a b) ax dx := by
  by_cases h1 : dx < 5
  · simp only [EqualFold.cmp5]
    asm_imm
    rw [if_pos h1, fold_B4 _ _ _ _ (by omega)]
  · have : dx = 5 := by omega
    subst this
    rw [fold_A5 _ _ _ _ _ (by omega)]; simp

theorem fold_B6 (a b : Bytes) (ax dx : Nat) (h : dx ≤ 6) :
    EqualFold.cmp6 a b ax dx 0 = allRangeF (foldAt a b) ax dx := by
  by_cases h1 : dx < 6
  · simp only [EqualFold.cmp6]
    asm_imm
    rw [if_pos h1, fold_B5 _ _ _ _ (by omega)]
  · have : dx = 6 := by omega
    subst this
    rw [fold_A6 _ _ _ _ _ (by omega)]; simp

theorem fold_B7 (a b : Bytes) (ax dx : Nat) (h : dx ≤ 7) :
    EqualFold.cmp7 a b ax dx 0 = allRangeF (foldAt a b) ax dx := by
  by_cases h1 : dx < 7
  · simp only [EqualFold.cmp7]
    asm_imm
    rw [if_pos h1, fold_B6 _ _ _ _ (by omega)]
  · have : dx = 7 := by omega
    subst this
    rw [fold_A7 _ _ _ _ _ (by omega)]; simp


theorem fold_cmp8 (a b : Bytes) (ax dx : Nat) : EqualFold.cmp8 a b ax dx 0 = allRangeF (foldAt a b) ax dx := by
  induction dx using Nat.strongRecOn generalizing ax with
  | ind dx ih =>
    rw [EqualFold.cmp8]
    simp only [EqualFold.done]
    asm_imm
    split
    · exact fold_B7 a b ax dx (by omega)
    · generalize hsi : EqualFold.step a b ax 7 7 _ = si'
      have hz : (si' == 0) = allRangeF (foldAt a b) ax 8 := by
        rw [← hsi]
        simp only [step_zero _ _ _ _ _ _ rfl, allRangeF, Nat.add_zero]
        simp [Bool.and_assoc, Bool.and_comm, Bool.and_left_comm]
      have hn : dx = 8 + (dx - 8) := by omega
      conv => rhs; rw [hn, allRangeF_add, ← hz]
      by_cases h0 : si' = 0
      · subst h0
        simp [ih (dx - 8) (by omega) (ax + 8)]
      · simp [h0]

theorem fold_init_x86 (a b : Bytes) (ax dx : Nat) : EqualFold.init_x86 a b ax dx = allRangeF (foldAt a b) ax dx := by
  simp only [EqualFold.init_x86, fold_cmp8]


theorem zw_map_rep {α β γ δ} (f : β → γ → δ) (g : α → β) (c : γ) (l : List α) :
    List.zipWith f (l.map g) (List.replicate l.length c) = l.map (fun x => f (g x) c) := by
  induction l with
  | nil => rfl
  | cons x l ih => simp only [List.map_cons, List.length_cons, List.replicate_succ, List.zipWith_cons_cons, ih]

theorem zw_rep_map {α β γ δ} (f : γ → β → δ) (g : α → β) (c : γ) (l : List α) :
    List.zipWith f (List.replicate l.length c) (l.map g) = l.map (fun x => f c (g x)) := by
  induction l with
  | nil => rfl
  | cons x l ih => simp only [List.map_cons, List.length_cons, List.replicate_succ, List.zipWith_cons_cons, ih]

theorem and1_cases (u : UInt8) : 1 &&& u = 0 ∨ 1 &&& u = 1 := by
  bv_decide

theorem sllw_pair (u v : UInt8) :
    UInt8.ofBitVec (BitVec.truncate 8 (((1 &&& v).toBitVec ++ (1 &&& u).toBitVec) <<< 5)) = (1 &&& u) <<< 5 ∧
    UInt8.ofBitVec (BitVec.truncate 8 ((((1 &&& v).toBitVec ++ (1 &&& u).toBitVec) <<< 5) >>> 8)) = (1 &&& v) <<< 5 := by
  rcases and1_cases u with hu | hu <;> rcases and1_cases v with hv | hv <;> rw [hu, hv] <;> decide

/-- `VPSLLW $5` on lanes that hold 0 or 1: no bit crosses a lane, every lane is shifted on its own -/
theorem vpsllw_and1 {α} (h : α → UInt8) : ∀ (l : List α), l.length % 2 = 0 →
    vpsllw 5 (l.map (fun p => 1 &&& h p)) = l.map (fun p => (1 &&& h p) <<< 5)
  | [], _ => rfl
  | [_], hl => by simp at hl
  | x :: y :: rest, hl => by
    have hr : rest.length % 2 = 0 := by simp at hl; omega
    simp only [List.map_cons, vpsllw, vpsllw_and1 h rest hr, (sllw_pair (h x) (h y)).1, (sllw_pair (h x) (h y)).2]

/-- what the nine-instruction group computes in one lane (`x` from a, `y` from b) -/
def laneF (x y : UInt8) : UInt8 :=
  if ((1 &&& ((if (x ^^^ y) == 0x20 then (0xff : UInt8) else 0) &&&
        (if BitVec.slt ((0x1f : UInt8) + ((0x20 : UInt8) ||| x)).toBitVec (0x9a : UInt8).toBitVec then (0xff : UInt8) else 0)))
      <<< 5) == (x ^^^ y) then 0xff else 0

theorem lane_fold (x y : UInt8) : msb (laneF x y) = (Spec.Ascii.lower x == Spec.Ascii.lower y) := by
  unfold msb laneF Spec.Ascii.lower; bv_decide

theorem foldMask_lanes (l : List (UInt8 × UInt8)) (he : l.length % 2 = 0) :
    EqualFold.foldMask (List.replicate l.length 0x20) (List.replicate l.length 0x1f) (List.replicate l.length 0x9a)
      (List.replicate l.length 0x01) 5 (l.map Prod.fst) (l.map Prod.snd) = l.map (fun p => laneF p.1 p.2) := by
  simp only [EqualFold.foldMask, vpxor, vpcmpeqb, vpor, vpaddb, vpcmpgtb, vpand, zipWith_map_map_same, zw_map_rep,
    zw_rep_map]
  rw [vpsllw_and1 _ l he]
  simp only [zipWith_map_map_same, laneF]

/-! ### equal_fold_amd64.s — AVX2 path -/

theorem zip_vload_all (r : UInt8 → UInt8 → Bool) (a b : Bytes) (p k : Nat) :
    (List.zip (vload a p k) (vload b p k)).all (fun q => r q.1 q.2) =
      allRangeF (fun i => r (byteAt a i) (byteAt b i)) p k := by
  induction k generalizing p with
  | zero => rfl
  | succ k ih => simp only [vload, List.zip_cons_cons, List.all_cons, allRangeF, ih]

theorem foldAt_spec (a b : Bytes) :
    foldAt a b = fun i => Spec.Ascii.lower (byteAt a i) == Spec.Ascii.lower (byteAt b i) := by
  funext i; simp only [foldAt, Ascii.lowerCase_eq]

def KY : EqualFold.K := ⟨List.replicate 32 0x20, List.replicate 32 0x1f, List.replicate 32 0x9a, List.replicate 32 0x01⟩

theorem fold_consts :
    (⟨vpbroadcastb (pinsrb 0 (UInt8.ofNat 32) zeroX), vpbroadcastb (pinsrb 0 (UInt8.ofNat 31) zeroX),
      vpbroadcastb (pinsrb 0 (UInt8.ofNat 154) zeroX), vpbroadcastb (pinsrb 0 (UInt8.ofNat 1) zeroX)⟩ : EqualFold.K) = KY := by
  rfl

theorem fm (a b : Bytes) (p k : Nat) (he : k % 2 = 0) :
    EqualFold.foldMask (List.replicate k 0x20) (List.replicate k 0x1f) (List.replicate k 0x9a) (List.replicate k 0x01) 5
      (vload a p k) (vload b p k) = (List.zip (vload a p k) (vload b p k)).map (fun q => laneF q.1 q.2) := by
  have hl : (List.zip (vload a p k) (vload b p k)).length = k := by simp [vload_length]
  have h1 : vload a p k = (List.zip (vload a p k) (vload b p k)).map Prod.fst := by
    rw [List.map_fst_zip]; simp [vload_length]
  have h2 : vload b p k = (List.zip (vload a p k) (vload b p k)).map Prod.snd := by
    rw [List.map_snd_zip]; simp [vload_length]
  have := foldMask_lanes (List.zip (vload a p k) (vload b p k)) (by rw [hl]; exact he)
  rw [hl, ← h1, ← h2] at this
  exact this

theorem fm_all (a b : Bytes) (p k : Nat) (he : k % 2 = 0) :
    (EqualFold.foldMask (List.replicate k 0x20) (List.replicate k 0x1f) (List.replicate k 0x9a) (List.replicate k 0x01) 5
      (vload a p k) (vload b p k)).all msb = allRangeF (foldAt a b) p k := by
  rw [fm a b p k he, List.all_map, foldAt_spec,
    ← zip_vload_all (fun x y => Spec.Ascii.lower x == Spec.Ascii.lower y) a b p k]
  congr 1; funext q; exact lane_fold q.1 q.2

theorem fm_len (a b : Bytes) (p k : Nat) (he : k % 2 = 0) :
    (EqualFold.foldMask (List.replicate k 0x20) (List.replicate k 0x1f) (List.replicate k 0x9a) (List.replicate k 0x01) 5
      (vload a p k) (vload b p k)).length = k := by
  rw [fm a b p k he]; simp [vload_length]

theorem fm32 (a b : Bytes) (p : Nat) :
    (EqualFold.foldMask KY.y12 KY.y13 KY.y14 KY.y15 5 (vload a p 32) (vload b p 32)).all msb = allRangeF (foldAt a b) p 32 :=
  fm_all a b p 32 rfl
theorem fm32_len (a b : Bytes) (p : Nat) :
    (EqualFold.foldMask KY.y12 KY.y13 KY.y14 KY.y15 5 (vload a p 32) (vload b p 32)).length = 32 :=
  fm_len a b p 32 rfl
theorem fm16 (a b : Bytes) (p : Nat) :
    (EqualFold.foldMask KY.x.y12 KY.x.y13 KY.x.y14 KY.x.y15 5 (vload a p 16) (vload b p 16)).all msb =
      allRangeF (foldAt a b) p 16 := by
  have : KY.x = ⟨List.replicate 16 0x20, List.replicate 16 0x1f, List.replicate 16 0x9a, List.replicate 16 0x01⟩ := by rfl
  rw [this]; exact fm_all a b p 16 rfl
theorem fm16_len (a b : Bytes) (p : Nat) :
    (EqualFold.foldMask KY.x.y12 KY.x.y13 KY.x.y14 KY.x.y15 5 (vload a p 16) (vload b p 16)).length = 16 := by
  have : KY.x = ⟨List.replicate 16 0x20, List.replicate 16 0x1f, List.replicate 16 0x9a, List.replicate 16 0x01⟩ := by rfl
  rw [this]; exact fm_len a b p 16 rfl


theorem fold_cmp_tail (a b : Bytes) (p n : Nat) (h0 : allRangeF (foldAt a b) 0 p = true) (hn : n ≤ 16) (hw : 16 ≤ p + n) :
    EqualFold.cmp_tail KY a b p n = allRangeF (foldAt a b) p n := by
  simp only [EqualFold.cmp_tail, EqualFold.done]
  asm_imm
  rw [msk16_eq _ (fm16_len _ _ _), fm16, allRangeF_overlap _ p n 16 h0 hn hw]

theorem fold_cmp16 (a b : Bytes) (p n : Nat) (h0 : allRangeF (foldAt a b) 0 p = true) (hn : n < 32) (hw : 16 ≤ p + n) :
    EqualFold.cmp16 KY a b p n = allRangeF (foldAt a b) p n := by
  simp only [EqualFold.cmp16, EqualFold.done]
  asm_imm
  split
  · exact fold_cmp_tail a b p n h0 (by omega) hw
  · rw [msk16_ne _ (fm16_len _ _ _), fm16]
    exact avx_step_f _ p n 16 _ (by omega) h0 (fun h1 => fold_cmp_tail a b (p + 16) (n - 16) h1 (by omega) (by omega))

theorem fold_cmp32 (a b : Bytes) (p n : Nat) (h0 : allRangeF (foldAt a b) 0 p = true) (hn : n < 64) (hw : 16 ≤ p + n) :
    EqualFold.cmp32 KY a b p n = allRangeF (foldAt a b) p n := by
  simp only [EqualFold.cmp32, EqualFold.done]
  asm_imm
  split
  · exact fold_cmp16 a b p n h0 (by omega) hw
  · rw [msk32_ne _ (fm32_len _ _ _), fm32]
    exact avx_step_f _ p n 32 _ (by omega) h0 (fun h1 => fold_cmp16 a b (p + 32) (n - 32) h1 (by omega) (by omega))

theorem fblock64 (f : Nat → Bool) (p : Nat) :
    (allRangeF f (p + 32) 32 && allRangeF f p 32) = allRangeF f p 64 := by
  rw [allRangeF_add f p 32 32, Bool.and_comm]
theorem fblock128 (f : Nat → Bool) (p : Nat) :
    ((allRangeF f (p + 96) 32 && allRangeF f (p + 64) 32) && (allRangeF f (p + 32) 32 && allRangeF f p 32)) =
      allRangeF f p 128 := by
  have := fblock64 f (p + 64)
  rw [show p + 64 + 32 = p + 96 by omega] at this
  rw [this, fblock64, allRangeF_add f p 64 64, Bool.and_comm]

theorem fold_cmp64 (a b : Bytes) (p n : Nat) (h0 : allRangeF (foldAt a b) 0 p = true) (hn : n < 128) (hw : 16 ≤ p + n) :
    EqualFold.cmp64 KY a b p n = allRangeF (foldAt a b) p n := by
  simp only [EqualFold.cmp64, EqualFold.done]
  asm_imm
  split
  · exact fold_cmp32 a b p n h0 (by omega) hw
  · rw [msk32_ne _ (by simp [vpand_length, fm32_len]), vpand_msb _ _ (by simp [fm32_len]), fm32, fm32, fblock64]
    exact avx_step_f _ p n 64 _ (by omega) h0 (fun h1 => fold_cmp32 a b (p + 64) (n - 64) h1 (by omega) (by omega))

theorem fold_cmp128 (a b : Bytes) (p n : Nat) (h0 : allRangeF (foldAt a b) 0 p = true) (hw : 16 ≤ p + n) :
    EqualFold.cmp128 KY a b p n = allRangeF (foldAt a b) p n := by
  induction n using Nat.strongRecOn generalizing p with
  | ind n ih =>
    rw [EqualFold.cmp128]
    simp only [EqualFold.done]
    asm_imm
    split
    · exact fold_cmp64 a b p n h0 (by omega) hw
    · rw [msk32_ne _ (by simp [vpand_length, fm32_len]), vpand_msb _ _ (by simp [vpand_length, fm32_len]),
        vpand_msb _ _ (by simp [fm32_len]), vpand_msb _ _ (by simp [fm32_len]), fm32, fm32, fm32, fm32, fblock128]
      exact avx_step_f _ p n 128 _ (by omega) h0 (fun h1 => ih (n - 128) (by omega) (p + 128) h1 (by omega))

theorem fold_init_avx (a b : Bytes) (hw : 16 ≤ a.length) :
    EqualFold.init_avx a b 0 a.length = allRangeF (foldAt a b) 0 a.length := by
  simp only [EqualFold.init_avx]
  asm_imm
  rw [fold_consts, fold_cmp128 a b 0 a.length rfl (by omega)]

theorem fold_entry (x86 : Nat) (a b : Bytes) : EqualFold.entry x86 a b = Spec.Ascii.equalFold a b := by
  have hl : (fun c => Model.Ascii.lowerCase c) = Spec.Ascii.lower := funext Ascii.lowerCase_eq
  simp only [EqualFold.entry, EqualFold.done, Spec.Ascii.equalFold]
  asm_imm
  split
  · rename_i h
    have : a.length ≠ b.length := by simpa using h
    symm; apply Bool.eq_false_iff.mpr
    intro he
    have := congrArg List.length (by simpa using he : a.map Spec.Ascii.lower = b.map Spec.Ascii.lower)
    simp at this; contradiction
  · rename_i h
    have hlen : a.length = b.length := by simpa using h
    rw [← hl, ← allRangeF_fold_full a b hlen]
    split
    · exact fold_init_x86 a b 0 a.length
    · split
      · exact fold_init_avx a b (by omega)
      · exact fold_init_x86 a b 0 a.length

theorem asmEqualFoldString_eq (hasAVX2 : Bool) (a b : Bytes) :
    asmEqualFoldString hasAVX2 a b = Spec.Ascii.equalFold a b := by
  rw [asmEqualFoldString, fold_entry]

#print axioms asmEqualFoldString_eq

end Enc.Lemmas.AsciiAsm
