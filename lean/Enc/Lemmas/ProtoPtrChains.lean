import Enc.Lemmas.ProtoArray
/-!
# proto: `[]*T` and `**T` — first facts and the two witnesses

The round-trip / wire-format theorems on message types with repeated pointers `[]*T` and pointer chains `**T` are in
`Enc/Lemmas/ProtoPtrs{Defs,Model,Bridge,Spec,Main}.lean` (universes `tyOK3` / `tyOKM3`, by reduction `[]*T ↦ []T`, `**T ↦ *T`
with the values translated). This file keeps the model-level facts that motivated the reduction and the two witnesses that
show which value hypotheses (`ProtoPtrs.ptrsOK3`) those theorems need:

  * `encodeSlice_ptr`, `sizeSlice_ptr`   a list of NON-NIL pointers is written exactly like the list of its pointees
  * `decodeU_ptr_elem`                   one element of `[]*T` is decoded as a fresh `&T` from the zero value
  * `encode_ptr_ptr`, `size_ptr_ptr`     `**T` pointing to a non-nil `*T` is written like that `*T`
  * `decodeU_ptr_ptr`                    … and decoded through two fresh pointers
  * `nil_elem_not_wire`                  known finding proto-nil-ptr-in-collection: `[]*int32{nil}` is written as a bare tag,
                                         which is not wire format (the reference parser rejects it): hypothesis "no nil
                                         element" is necessary for a bytes theorem
  * `ptr_to_nil_ptr_lost`                known finding proto-ptr-to-empty-encoding: `**int32` pointing to a nil `*int32`
                                         writes nothing and comes back as nil: hypothesis "complete chain" is necessary
-/
set_option linter.unusedSimpArgs false
set_option linter.unusedVariables false
namespace Enc.Lemmas.ProtoPtrChains
open Enc Enc.Model.Proto Enc.Lemmas.ProtoWire

/-- every element wrapped in a (non-nil) pointer -/
def ptrs : Vals → Vals
  | .nil => .nil
  | .cons v r => .cons (.ptr v) (ptrs r)

theorem wz_ptr : ({ wz with wantzero := true, inline := false } : Flags) = wz := rfl

theorem sizeSlice_ptr (c : Codec) (tagSize : Nat) (emb : Bool) :
    ∀ vs : Vals, sizeSlice (.ptr c) tagSize emb (ptrs vs) = sizeSlice c tagSize emb vs
  | .nil => by simp [ptrs, sizeSlice]
  | .cons v r => by simp only [ptrs, sizeSlice, size, wz_ptr, sizeSlice_ptr c tagSize emb r]

/-- **`[]*T`, encoder**: non-nil pointers are transparent -/
theorem encodeSlice_ptr (c : Codec) (tag : Bytes) (emb : Bool) :
    ∀ vs : Vals, encodeSlice (.ptr c) tag emb (ptrs vs) = encodeSlice c tag emb vs
  | .nil => by simp [ptrs, encodeSlice]
  | .cons v r => by simp only [ptrs, encodeSlice, size, encode, wz_ptr, encodeSlice_ptr c tag emb r]

/-- **`[]*T`, decoder**: an element is a fresh pointer to a value decoded from the zero value -/
theorem decodeU_ptr_elem (f : Nat) (c : Codec) (b : Bytes) (fl : Flags) :
    decodeU (f + 1) (.ptr c) b (zeroOfCodec (.ptr c)) fl
      = (decodeU f c b (zeroOfCodec c) fl).bind fun (x : Val × Nat) => .ok (.ptr x.1, x.2) := by
  simp only [decodeU, zeroOfCodec]

theorem size_ptr_ptr (c : Codec) (v : Val) (fl : Flags) :
    size (.ptr (.ptr c)) (.ptr (.ptr v)) fl = size (.ptr c) (.ptr v) fl := by
  simp only [size]
/-- **`**T`, encoder** -/
theorem encode_ptr_ptr (c : Codec) (v : Val) (fl : Flags) :
    encode (.ptr (.ptr c)) (.ptr (.ptr v)) fl = encode (.ptr c) (.ptr v) fl := by
  simp only [encode]

/-- **`**T`, decoder**, into a nil target -/
theorem decodeU_ptr_ptr (f : Nat) (c : Codec) (b : Bytes) (fl : Flags) :
    decodeU (f + 2) (.ptr (.ptr c)) b .nil fl
      = (decodeU f c b (zeroOfCodec c) fl).bind fun (x : Val × Nat) => .ok (.ptr (.ptr x.1), x.2) := by
  simp only [decodeU, zeroOfCodec]
  cases decodeU f c b (zeroOfCodec c) fl <;> rfl

/-! ## the two witnesses -/

def lpF : Fields := .cons "L" "" false (.slice (.ptr (.int .i32))) .nil
theorem lp_codec : codecOf (.struct lpF) = .struct (.cons 1 false true false (.slice (.ptr .int32) 1 .varint false) .nil) := by
  have hm : (lookupProtobuf "").bind parseStructTag = none := modelTag_empty
  simp [lpF, codecOf, fieldsOf, hm, fieldCodecOf, isStructBase, embBase, baseTy, Codec.wire]

/-- proto-nil-ptr-in-collection: `struct{L []*int32}{L: {nil}}` is written as the single byte `08` — a tag without a
value, which no protobuf parser accepts -/
theorem nil_elem_not_wire :
    marshal (.struct lpF) (.struct (.cons (.list (.cons .nil .nil)) .nil)) = [0x08]
    ∧ Spec.Protobuf.parse 2 [0x08] = none := by
  refine ⟨?_, by decide⟩
  simp only [marshal, lp_codec]; decide

def ppF : Fields := .cons "P" "" false (.ptr (.ptr (.int .i32))) .nil
theorem pp_codec : codecOf (.struct ppF) = .struct (.cons 1 false false false (.ptr (.ptr .int32)) .nil) := by
  have hm : (lookupProtobuf "").bind parseStructTag = none := modelTag_empty
  simp [ppF, codecOf, fieldsOf, hm, fieldCodecOf, isStructBase, embBase, baseTy, Codec.wire]

/-- proto-ptr-to-empty-encoding, on `**T`: `struct{P **int32}` with `P` pointing to a nil `*int32` writes nothing and is
read back with `P == nil` -/
theorem ptr_to_nil_ptr_lost :
    marshal (.struct ppF) (.struct (.cons (.ptr .nil) .nil)) = []
    ∧ unmarshalU (.struct ppF) [] = .ok (.struct (.cons .nil .nil)) := by
  refine ⟨?_, by simp [unmarshalU, ppF, zeroOf, zeroFields]⟩
  simp only [marshal, pp_codec]; decide

/-- … while a `**int32` whose chain is complete round-trips (`&&0` → `08 00` → `&&0`) -/
example : marshal (.struct ppF) (.struct (.cons (.ptr (.ptr (.int 0))) .nil)) = [0x08, 0x00]
    ∧ unmarshalU (.struct ppF) [0x08, 0x00] = .ok (.struct (.cons (.ptr (.ptr (.int 0))) .nil)) := by
  refine ⟨by simp only [marshal, pp_codec]; decide, ?_⟩
  unfold unmarshalU; rw [pp_codec]; rfl

end Enc.Lemmas.ProtoPtrChains
