import Enc.Lemmas.ProtoMapRoundTrip
import Enc.Spec.Known
/-!
# proto map fields: non-vacuity of the theorems, and what happens outside their hypotheses

see the comment block at the end for the list of findings
-/
set_option linter.unusedSimpArgs false
namespace Enc.Lemmas.ProtoMap.Findings
open Enc Enc.Model.Proto Enc.Lemmas.ProtoWire Enc.Lemmas.ProtoMap
open Enc.Spec.Protobuf (canonical)

def st (l : List (String × Ty)) : Ty :=
  .struct (l.foldr (fun (p : String × Ty) acc => Fields.cons "F" p.1 false p.2 acc) .nil)
def sv (l : List Val) : Val := .struct (Vals.ofList l)
def mp (l : List Val) : Val := .map (Vals.ofList l)

/-- bytes | model round trip | reference decodeU | canonical-equal to the original (model, reference) |
hypotheses of the theorems (tyOKM, hasTypeM, valOKM) | known classes -/
def rtm (t : Ty) (v : Val) : String :=
  let b := marshal t v
  let r := unmarshalU t b
  let d := Spec.Protobuf.decode t b
  let okm := match r with
    | .ok v' => (canonical t v').show == (canonical t v).show
    | _ => false
  let okr := match d with
    | some v' => (canonical t v').show == (canonical t v).show
    | none => false
  s!"{toHex b} | model {r.show Val.show} | ref {d.map Val.show} | canonEq {okm} {okr} | hyp {tyOKM t} {hasTypeM t v} {valOKM t v} | known {Known.protoClasses t v}"

def inner : Ty := .struct (.cons "X" "" false (.int .i32) (.cons "S" "" false .str .nil))
def innerRep : Ty := .struct (.cons "X" "" false (.slice (.int .i32)) (.cons "P" "" false (.ptr .str) .nil))

/-! ## inside the hypotheses (all `canonEq true true`, `hyp true true true`) -/
-- zero key, zero value: both parts are written ("0a04 0a00 1000" = entry{key "", value 0})
#eval rtm (st [("", .map .str (.int .i32))]) (sv [mp [.str [97], .int 0, .str [], .int 5]])
-- map<int64, message> with an ALL-DEFAULT message value: written as `12 02 08 00` (first field forced by wantzero)
#eval rtm (st [("", .map (.int .i64) inner)]) (sv [mp [.int 0, sv [.int 0, .str []], .int 3, sv [.int 1, .str [1]]]])
-- a message value that writes nothing even under wantzero (only nil repeated/optional fields): value part left out
#eval rtm (st [("", .map .bool innerRep)]) (sv [mp [.bool false, sv [.nil, .nil]]])
-- pointer to message; NIL pointer as a map value (round-trips; flagged by Known.hasNilPtrInCollection all the same)
#eval rtm (st [("", .map .str (.ptr inner))]) (sv [mp [.str [1], .ptr (sv [.int 0, .str []]), .str [2], .nil]])
-- `[]byte` values nil / empty: come back as empty (canonical identifies them)
#eval rtm (st [("", .map .str .bytes)]) (sv [mp [.str [1], .nil, .str [2], .str []]])
-- order: entries come back in the order they were written (here 5, 2, -1), `canonical` sorts both sides
#eval rtm (st [("", .map (.int .i32) (.int .i32))]) (sv [mp [.int 5, .int 1, .int 2, .int 5, .int (-1), .int 0]])
-- a protoc-style tag with `rep` (and a zigzag tag, which the map codec ignores on both sides)
#eval rtm (st [("protobuf:\"bytes,7,rep,name=m,proto3\" protobuf_key:\"bytes,1,opt,name=key\" protobuf_val:\"varint,2,opt,name=value\"",
  .map .str (.int .i32))]) (sv [mp [.str [97], .int 1]])
#eval rtm (st [("protobuf:\"zigzag64,3,rep\"", .map (.int .i64) (.int .i64))]) (sv [mp [.int (-1), .int (-2)]])
-- maps in nested messages, as values of maps, next to repeated fields (second encoder loop, declaration order)
#eval rtm (st [("", st [("", .map .str (st [("", .map .bool .bool)]))])]) (sv [sv [mp [.str [1], sv [mp [.bool true, .bool true]]]]])
#eval rtm (st [("", .map .str (.int .i32)), ("", .slice .str), ("", .map .bool .bool)])
  (sv [mp [.str [97], .int 1], .list (Vals.ofList [.str [1]]), mp [.bool true, .bool false]])
-- `*int32` value
#eval rtm (st [("", .map .str (.ptr (.int .i32)))]) (sv [mp [.str [1], .ptr (.int 0)]])

/-! ## outside the hypotheses -/
-- M1 (known class protoEmptyMapMarker) empty / nil map: marker entry `0a 00`; the model's decoder reads it as "empty
-- map", the reference as {"" : 0}.   nil map alone in the struct (inline): nothing written
#eval rtm (st [("", .map .str (.int .i32))]) (sv [.map .nil])
#eval rtm (st [("", .map .str (.int .i32))]) (sv [.nil])
#eval rtm (st [("", .map .str (.int .i32)), ("", .bool)]) (sv [.nil, .bool true])
-- M2 two keys equal under `Val.show` (= equal as values for bool/int/string keys; not a Go map): both decoders keep
-- the FIRST position with the LAST value — `canonEq false false`, `valOKM false`
#eval rtm (st [("", .map .str (.int .i32))]) (sv [mp [.str [97], .int 1, .str [98], .int 2, .str [97], .int 5]])
-- M3 (known class protoPtrToEmptyEncoding) a set pointer value whose pointee writes nothing: comes back nil
#eval rtm (st [("", .map .str (.ptr innerRep))]) (sv [mp [.str [1], .ptr (sv [.nil, .nil])]])
-- M4 float keys (not legal protobuf map keys, outside `tyOKM`): the model compares keys by their bit pattern
-- (`valEqShow`): two NaN keys with the same bits collapse (in Go, NaN ≠ NaN: a map can hold both and `SetMapIndex`
-- would add both), +0 / -0 stay apart (in Go they are the same key).  The reference rejects float keys? no: it reads them.
#eval rtm (st [("", .map .f64 (.int .i32))]) (sv [mp [.float 0x7ff8000000000001, .int 1, .float 0x7ff8000000000001, .int 2]])
#eval rtm (st [("", .map .f64 (.int .i32))]) (sv [mp [.float 0, .int 1, .float 0x8000000000000000, .int 2]])
-- M5 shapes the codec does not support (outside `tyOKM`): `[]map`, `map[K][]T`, `map[K]map[…]`
#eval rtm (st [("", .slice (.map .str .str))]) (sv [.list (Vals.ofList [mp [.str [1], .str [2]]])])
#eval rtm (st [("", .map .str (.slice .str))]) (sv [mp [.str [1], .list (Vals.ofList [.str [2]])]])
#eval rtm (st [("", .map .str (.map .str .str))]) (sv [mp [.str [1], mp [.str [2], .str [3]]]])

/-! ## Part 1 evaluated: model bytes = reference encoding of `allRecordsM` (also on the empty-map marker) -/
def recsOf (t : Ty) (v : Val) : List String :=
  match t, v with
  | .struct fs, .struct vs => (allRecordsM false fs vs).map Spec.Protobuf.showRec
  | _, _ => []
def bytesAgree (t : Ty) (v : Val) : Bool :=
  match t, v with
  | .struct fs, .struct vs => marshal t v == encRecs (allRecordsM false fs vs)
  | _, _ => false
-- ["1:l0a016110 00", …]: one LEN record per pair, body = key record ++ value record
#eval recsOf (st [("", .map .str (.int .i32))]) (sv [mp [.str [97], .int 0, .str [], .int 5]])
#eval recsOf (st [("", .map .bool innerRep)]) (sv [mp [.bool false, sv [.nil, .nil]]])
#eval recsOf (st [("", .map .str (.int .i32))]) (sv [.map .nil])        -- the marker: ["1:l-"]
#guard bytesAgree (st [("", .map .str (.int .i32))]) (sv [mp [.str [97], .int 0, .str [], .int 5]])
#guard bytesAgree (st [("", .map .bool innerRep)]) (sv [mp [.bool false, sv [.nil, .nil]]])
#guard bytesAgree (st [("", .map .str (.int .i32))]) (sv [.map .nil])
#guard bytesAgree (st [("", .map .str (.int .i32)), ("", .bool)]) (sv [.map .nil, .bool true])
#guard bytesAgree (st [("", .map .str (.int .i32))]) (sv [mp [.str [97], .int 1, .str [97], .int 5]])   -- duplicate keys: bytes still agree

/-! ## non-vacuity -/

def exMInner : Fields := .cons "M" "" false (.map (.int .u32) .bytes) .nil
/-- `map[string]int32`, `int64`, `map[int64]Inner`, `map[bool]*Inner`, `[]string`, nested message with a map -/
def exMFields : Fields :=
  .cons "A" "" false (.map .str (.int .i32)) (.cons "B" "" false (.int .i64)
    (.cons "C" "" false (.map (.int .i64) (.struct exInner)) (.cons "D" "" false (.map .bool (.ptr (.struct exInner)))
      (.cons "E" "" false (.slice .str) (.cons "F" "" false (.struct exMInner) .nil)))))
def exMVals : Vals :=
  Vals.ofList [mp [.str [97], .int 0, .str [], .int 5], .int 7,
    mp [.int 0, sv [.int 0, .str []], .int 3, sv [.int 1, .str [120]]],
    mp [.bool true, .nil, .bool false, .ptr (sv [.int 0, .str []])],
    .list (Vals.ofList [.str [120]]),
    sv [mp [.int 1, .nil, .int 2, .str [1]]]]

theorem exM_ty : tyOKM (.struct exMFields) = true := by
  simp [tyOKM, fieldsOKM, exMFields, exMInner, exInner, tagAgreeM, tagAgreeMap, isMap, tagAgree_empty, fieldNums,
    fieldOpt_empty, modelTag_empty, supportedKind, ptrTarget, elemTy, isPtr, isSlice, keyTy]
theorem exM_val : hasTypeM (.struct exMFields) (.struct exMVals) = true := by decide
theorem exM_ok : valOKM (.struct exMFields) (.struct exMVals) = true := by
  simp [valOKM, valsOKM, valOKMapM, valOKListM, exMFields, exMVals, exMInner, exInner, Vals.ofList, mp, sv, nonEmptyVals,
    payloadM, recordsOfM, recordsRM, fieldOpt_empty, intWire, Spec.Protobuf.encRec, IntKind.signed, leb128_ne_nil]
  decide
def exInnerC : CFields := .cons 1 false false false .int32 (.cons 2 false false false .string .nil)
/-- the codec tree `structCodecOf` builds for `exMFields` -/
def exMCodec : CFields :=
  .cons 1 true true false (.map 1 .string .int32 false false
      (.struct (.cons 1 false false false .string (.cons 2 false false false .int32 .nil))))
    (.cons 2 false false false .int64
      (.cons 3 true true false (.map 3 .int64 (.struct exInnerC) false true
          (.struct (.cons 1 false false false .int64 (.cons 2 true false false (.struct exInnerC) .nil))))
        (.cons 4 true true false (.map 4 .bool (.ptr (.struct exInnerC)) false true
            (.struct (.cons 1 false false false .bool (.cons 2 true false false (.ptr (.struct exInnerC)) .nil))))
          (.cons 5 false true false (.slice .string 5 .varlen false)
            (.cons 6 true false false (.struct (.cons 1 true true false (.map 1 .uint32 .bytes false false
                (.struct (.cons 1 false false false .uint32 (.cons 2 false false false .bytes .nil)))) .nil)) .nil)))))
theorem exM_codec : fieldsOf 1 exMFields = exMCodec := by
  have hm : (lookupProtobuf "").bind parseStructTag = none := modelTag_empty
  simp [exMFields, exMInner, exInner, exMCodec, exInnerC, codecOf, fieldsOf, hm, fieldCodecOf, isStructBase, embBase, baseTy,
    Codec.wire]
theorem exM_len : (marshal (.struct exMFields) (.struct exMVals)).length < 2 ^ 64 := by
  rw [marshal_struct, exM_codec]; decide

/-- Part 1 on the example -/
example : marshal (.struct exMFields) (.struct exMVals)
    = encRecs (allRecordsM false exMFields exMVals) := by
  rw [marshal_struct]
  exact struct_bytesM exMFields exMVals _ exM_ty (by simpa [hasTypeM] using exM_val) rfl
    (by rw [← marshal_struct]; exact exM_len)

/-- Part 2 on the example -/
example : (Spec.Protobuf.decode (.struct exMFields) (marshal (.struct exMFields) (.struct exMVals))).map
      (canonical (.struct exMFields)) = some (canonical (.struct exMFields) (.struct exMVals)) :=
  decode_marshal_map_partial exMFields _ exM_ty exM_val exM_ok exM_len

/-- Part 3 on the example -/
example : ∃ v', unmarshalU (.struct exMFields) (marshal (.struct exMFields) (.struct exMVals)) = .ok v'
    ∧ canonical (.struct exMFields) v' = canonical (.struct exMFields) (.struct exMVals) :=
  unmarshal_marshal_map_partial exMFields _ exM_ty exM_val exM_ok exM_len

-- the same, evaluated
#eval rtm (.struct exMFields) (.struct exMVals)

end Enc.Lemmas.ProtoMap.Findings
