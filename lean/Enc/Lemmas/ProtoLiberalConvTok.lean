import Enc.Lemmas.ProtoLiberalScalar
/-!
# C12, second half, converse direction: preparations

What the Go decoder accepts, read back as reference tokens.

  * `vtok_of_decodeVarint`  the Go varint reader accepts ⇒ the reference reader accepts the same token
  * `skip_pay`, `carve_pay` a skipped / carved payload is a reference payload (`Pay`)
  * `tok_parse`             the reference parser on tag token ++ payload
  * `ZeroNum`               THE class of inputs on which the Go decoder is more liberal than the reference: a record
                            with field number 0, reached by walking complete records, at top level or inside the chunk
                            of a declared message-typed field (`T`, `*T`, `[]T`)
  * `scalar_conv`           one scalar occurrence: Go codec accepts ⇒ reference `decodeOne` accepts (same range checks)
-/
set_option linter.unusedSimpArgs false
set_option linter.unusedVariables false
namespace Enc.Lemmas.ProtoLiberal
open Enc Enc.Model.Proto Enc.Lemmas.ProtoWire Enc.Lemmas.ProtoDecode Enc.Lemmas.ProtoRoundTrip
open Enc.Lemmas.ProtoRewriteSpec (VTok wireNum hasAtLeast_iff vtok_of_read u8_lt_128 u8_gt_1 rectok_varint rectok_len
  rectok_fixed RecTok)
open Enc.Spec.Protobuf (FieldOpt WireVal decodeOne leNat toInt64 unzigzag zigzag readVarint parse findField)

/-! ## varints -/

theorem loop_ge10 (b : Bytes) : ∀ (x : BitVec 64) (s i : Nat), 10 ≤ i → ∀ r, decodeVarintLoop b x s i ≠ .ok r := by
  induction b with
  | nil => intro x s i _ r; simp [decodeVarintLoop]
  | cons c cs ih =>
    intro x s i hi r
    unfold decodeVarintLoop
    split
    · have : i > 9 ∨ (i = 9 ∧ c > 1) := Or.inl (by omega)
      simp [this]
    · exact ih _ _ _ (by omega) r

theorem go_none (b : Bytes) : ∀ (i acc : Nat) (x : BitVec 64) (s : Nat), readVarint.go b i acc = none →
    ∀ r, decodeVarintLoop b x s i ≠ .ok r := by
  induction b with
  | nil => intro i acc x s _ r; simp [decodeVarintLoop]
  | cons c cs ih =>
    intro i acc x s h r
    unfold readVarint.go at h
    unfold decodeVarintLoop
    by_cases hc : c.toNat < 128
    · have hc' : c < 0x80 := (u8_lt_128 c).mpr hc
      simp only [hc, if_true] at h
      simp only [hc', if_true, u8_gt_1]
      by_cases hov : i > 9 ∨ (i = 9 ∧ c.toNat > 1)
      · simp [hov]
      · simp [hov] at h
    · have hc' : ¬ c < 0x80 := fun hh => hc ((u8_lt_128 c).mp hh)
      simp only [hc, if_false] at h
      simp only [hc', if_false]
      by_cases h9 : i ≥ 9
      · exact loop_ge10 cs _ _ _ (by omega) r
      · simp only [h9, if_false] at h
        exact ih _ _ _ _ h r

/-- **varint bridge, converse**: what the Go reader accepts is a reference varint token of the same value -/
theorem vtok_of_decodeVarint (b : Bytes) (v : BitVec 64) (n : Nat) (h : decodeVarint b = .ok (v, n)) :
    ∃ pre rest val, b = pre ++ rest ∧ VTok pre val ∧ n = pre.length ∧ v = BitVec.ofNat 64 val := by
  cases hr : readVarint b with
  | none => exact absurd h (go_none b 0 0 _ _ hr _)
  | some p =>
    obtain ⟨val, rest⟩ := p
    obtain ⟨pre, e, ht⟩ := vtok_of_read b rest val hr
    have := ht.dec rest
    rw [← e, h] at this
    simp only [Res.ok.injEq, Prod.mk.injEq] at this
    exact ⟨pre, rest, val, e, ht, this.2, this.1⟩

/-! ## skipped and carved payloads -/

theorem skip_pay (w : Nat) (b1 : Bytes) (lenB skip : Nat) (h : skipUnknown w b1 lenB = .ok skip) :
    ∃ wv p m, b1 = p ++ m ∧ skip = p.length ∧ Pay wv p ∧ wireNum wv = w := by
  unfold skipUnknown at h
  obtain ⟨sk, h1, h2⟩ := bind_ok _ _ _ h
  have hsk : sk = skip ∧ skip ≤ b1.length := by
    split at h2
    · simp only [Res.ok.injEq] at h2; exact ⟨h2, h2 ▸ ‹_›⟩
    · simp at h2
  obtain ⟨rfl, hle⟩ := hsk
  by_cases h0 : w = 0
  · subst h0
    simp only [beq_self_eq_true, if_true] at h1
    obtain ⟨⟨v, n⟩, hd, hn⟩ := bind_ok _ _ _ h1
    simp only [Res.ok.injEq] at hn
    obtain ⟨pre, rest, val, e, ht, hnl, _⟩ := vtok_of_decodeVarint b1 v n hd
    exact ⟨.varint val, pre, rest, e, by omega, ht, rfl⟩
  by_cases h2w : w = 2
  · subst h2w
    simp only [show ((2 : Nat) == 0) = false from rfl, Bool.false_eq_true, if_false, beq_self_eq_true, if_true] at h1
    obtain ⟨⟨sz, n⟩, hd, hn⟩ := bind_ok _ _ _ h1
    obtain ⟨pl, rest, val, e, ht, hnl, hsz⟩ := vtok_of_decodeVarint b1 sz n hd
    have hszn : sz.toNat = val := by rw [hsz, ofNat64_toNat val ht.lt]
    simp only at hn
    split at hn
    · simp at hn
    · simp only [Res.ok.injEq] at hn
      subst e
      simp only [List.length_append] at hle
      have hvl : val ≤ rest.length := by omega
      have hbl : (rest.take val).length = val := by simp; omega
      refine ⟨.len (rest.take val), pl ++ rest.take val, rest.drop val, ?_, ?_, ⟨pl, by rw [hbl]; exact ht, rfl⟩, rfl⟩
      · rw [List.append_assoc, List.take_append_drop]
      · simp only [List.length_append, hbl]; omega
  by_cases h5 : w = 5
  · subst h5
    simp only [show ((5 : Nat) == 0) = false from rfl, show ((5 : Nat) == 2) = false from rfl, Bool.false_eq_true,
      if_false, beq_self_eq_true, if_true] at h1
    split at h1
    · simp at h1
    · rename_i hl
      simp only [Res.ok.injEq] at h1
      subst h1
      refine ⟨.i32 (b1.take 4), b1.take 4, b1.drop 4, (List.take_append_drop 4 b1).symm, ?_, ⟨rfl, ?_⟩, rfl⟩ <;>
        (simp; omega)
  by_cases h1w : w = 1
  · subst h1w
    simp only [show ((1 : Nat) == 0) = false from rfl, show ((1 : Nat) == 2) = false from rfl,
      show ((1 : Nat) == 5) = false from rfl, Bool.false_eq_true, if_false, beq_self_eq_true, if_true] at h1
    split at h1
    · simp at h1
    · rename_i hl
      simp only [Res.ok.injEq] at h1
      subst h1
      refine ⟨.i64 (b1.take 8), b1.take 8, b1.drop 8, (List.take_append_drop 8 b1).symm, ?_, ⟨rfl, ?_⟩, rfl⟩ <;>
        (simp; omega)
  · have e0 : (w == 0) = false := by simpa using h0
    have e2 : (w == 2) = false := by simpa using h2w
    have e5 : (w == 5) = false := by simpa using h5
    have e1 : (w == 1) = false := by simpa using h1w
    simp [e0, e2, e5, e1] at h1

/-- what `carve` hands to the codec, in reference terms: the whole payload, or — embedded message — the chunk -/
def Carved (emb : Bool) (wv : WireVal) (p data : Bytes) (pre : Nat) : Prop :=
  (emb = false ∧ data = p ∧ pre = 0 ∧ Pay wv p) ∨
  (emb = true ∧ ∃ pl, wv = .len data ∧ VTok pl data.length ∧ p = pl ++ data ∧ pre = pl.length)

theorem Carved.pay {emb : Bool} {wv : WireVal} {p data : Bytes} {pre : Nat} (h : Carved emb wv p data pre) :
    Pay wv p := by
  rcases h with ⟨_, _, _, hp⟩ | ⟨_, pl, rfl, hl, rfl, _⟩
  · exact hp
  · exact ⟨pl, hl, rfl⟩

theorem Carved.len {emb : Bool} {wv : WireVal} {p data : Bytes} {pre : Nat} (h : Carved emb wv p data pre) :
    pre + data.length = p.length := by
  rcases h with ⟨_, rfl, rfl, _⟩ | ⟨_, pl, _, _, rfl, rfl⟩
  · simp
  · simp

theorem carve_pay (w : Nat) (b1 : Bytes) (lenB off1 : Nat) (emb : Bool) (data : Bytes) (pre : Nat)
    (hL : lenB = off1 + b1.length) (hemb : emb = true → w = 2)
    (h : carve w b1 lenB off1 emb = .ok (data, pre)) :
    ∃ wv p m, b1 = p ++ m ∧ wireNum wv = w ∧ Carved emb wv p data pre := by
  unfold carve at h
  by_cases h0 : w = 0
  · subst h0
    have hne : emb = false := by cases emb <;> simp_all
    simp only [beq_self_eq_true, if_true] at h
    obtain ⟨⟨v, n⟩, hd, hn⟩ := bind_ok _ _ _ h
    simp only [Res.ok.injEq, Prod.mk.injEq] at hn
    obtain ⟨pv, rest, val, e, ht, hnl, _⟩ := vtok_of_decodeVarint b1 v n hd
    subst e
    refine ⟨.varint val, pv, rest, rfl, rfl, Or.inl ⟨hne, ?_, hn.2.symm, ht⟩⟩
    rw [← hn.1, hnl, List.take_left]
  by_cases h2w : w = 2
  · subst h2w
    simp only [show ((2 : Nat) == 0) = false from rfl, Bool.false_eq_true, if_false, beq_self_eq_true, if_true] at h
    obtain ⟨⟨l, k⟩, hd, hn⟩ := bind_ok _ _ _ h
    obtain ⟨pl, rest, val, e, ht, hkl, hl⟩ := vtok_of_decodeVarint b1 l k hd
    have hln : l.toNat = val := by rw [hl, ofNat64_toNat val ht.lt]
    subst e
    simp only at hn
    split at hn
    · simp at hn
    · rename_i hfit
      simp only [List.length_append] at hL
      have hvl : val ≤ rest.length := by omega
      have hbl : (rest.take val).length = val := by simp; omega
      have hsplit : pl ++ rest = (pl ++ rest.take val) ++ rest.drop val := by
        rw [List.append_assoc, List.take_append_drop]
      cases emb with
      | true =>
        simp only [if_true, Res.ok.injEq, Prod.mk.injEq] at hn
        have hdata : data = rest.take val := by rw [← hn.1, hkl, List.drop_left, hln]
        refine ⟨.len data, pl ++ data, rest.drop val, by rw [hdata]; exact hsplit, rfl,
          Or.inr ⟨rfl, pl, rfl, by rw [hdata, hbl]; exact ht, rfl, by rw [← hn.2, hkl]⟩⟩
      | false =>
        simp only [Bool.false_eq_true, if_false, Res.ok.injEq, Prod.mk.injEq] at hn
        have hdata : data = pl ++ rest.take val := by
          rw [← hn.1, hkl, hln, List.take_append, List.take_of_length_le (by omega)]
          simp
        refine ⟨.len (rest.take val), pl ++ rest.take val, rest.drop val, hsplit, rfl,
          Or.inl ⟨rfl, hdata, hn.2.symm, ⟨pl, by rw [hbl]; exact ht, rfl⟩⟩⟩
  by_cases h5 : w = 5
  · subst h5
    have hne : emb = false := by cases emb <;> simp_all
    simp only [show ((5 : Nat) == 0) = false from rfl, show ((5 : Nat) == 2) = false from rfl, Bool.false_eq_true,
      if_false, beq_self_eq_true, if_true] at h
    split at h
    · simp at h
    · rename_i hl
      simp only [Res.ok.injEq, Prod.mk.injEq] at h
      refine ⟨.i32 (b1.take 4), b1.take 4, b1.drop 4, (List.take_append_drop 4 b1).symm, rfl,
        Or.inl ⟨hne, h.1.symm, h.2.symm, ⟨rfl, ?_⟩⟩⟩
      simp; omega
  by_cases h1w : w = 1
  · subst h1w
    have hne : emb = false := by cases emb <;> simp_all
    simp only [show ((1 : Nat) == 0) = false from rfl, show ((1 : Nat) == 2) = false from rfl,
      show ((1 : Nat) == 5) = false from rfl, Bool.false_eq_true, if_false, beq_self_eq_true, if_true] at h
    split at h
    · simp at h
    · rename_i hl
      simp only [Res.ok.injEq, Prod.mk.injEq] at h
      refine ⟨.i64 (b1.take 8), b1.take 8, b1.drop 8, (List.take_append_drop 8 b1).symm, rfl,
        Or.inl ⟨hne, h.1.symm, h.2.symm, ⟨rfl, ?_⟩⟩⟩
      simp; omega
  · have e0 : (w == 0) = false := by simpa using h0
    have e2 : (w == 2) = false := by simpa using h2w
    have e5 : (w == 5) = false := by simpa using h5
    have e1 : (w == 1) = false := by simpa using h1w
    simp [e0, e2, e5, e1] at h

/-! ## the reference parser on one token -/

theorem tok_parse (ptag p : Bytes) (tag : Nat) (w : WireVal) (ht : VTok ptag tag) (hn : tag / 8 ≠ 0)
    (h8 : tag % 8 = wireNum w) (hp : Pay w p) (f : Nat) (m : Bytes) :
    parse (f + 1) (ptag ++ p ++ m) = (parse f m).map ((tag / 8, w) :: ·) := by
  cases w with
  | varint val => exact (rectok_varint ptag p tag val ht hp h8 hn).parse_pre f m
  | i64 body =>
    obtain ⟨rfl, hl⟩ := hp
    exact (rectok_fixed ptag p tag 8 1 _ ht (Or.inr ⟨rfl, rfl, rfl⟩) hl h8 hn).parse_pre f m
  | len body =>
    obtain ⟨pl, hl, rfl⟩ := hp
    have := (rectok_len ptag pl body tag ht hl h8 hn).parse_pre f m
    rw [← List.append_assoc]
    exact this
  | i32 body =>
    obtain ⟨rfl, hl⟩ := hp
    exact (rectok_fixed ptag p tag 4 5 _ ht (Or.inl ⟨rfl, rfl, rfl⟩) hl h8 hn).parse_pre f m

theorem pay_length_pos {w : WireVal} {p : Bytes} (h : Pay w p) : 1 ≤ p.length := by
  cases w with
  | varint val => exact h.length_pos
  | i64 body => obtain ⟨rfl, hl⟩ := h; omega
  | len body => obtain ⟨pl, hl, rfl⟩ := h; have := hl.length_pos; simp only [List.length_append]; omega
  | i32 body => obtain ⟨rfl, hl⟩ := h; omega

/-! ## the class of inputs on which the Go decoder is more liberal -/

/-- message type carried by a field type of the universe -/
def msgOf : Ty → Option Fields
  | .struct fs => some fs
  | .ptr (.struct fs) => some fs
  | .slice (.struct fs) => some fs
  | _ => none

/-- `b`, read as a message of type `fs`, contains a record with FIELD NUMBER 0 that is reached by walking complete
records: at this level, or inside the chunk of a declared message-typed field -/
inductive ZeroNum : Fields → Bytes → Prop
  | here (fs : Fields) (ptag rest : Bytes) (tag : Nat) : VTok ptag tag → tag / 8 = 0 → ZeroNum fs (ptag ++ rest)
  | skip (fs : Fields) (ptag p m : Bytes) (tag : Nat) (w : WireVal) : VTok ptag tag → tag / 8 ≠ 0 →
      tag % 8 = wireNum w → Pay w p → ZeroNum fs m → ZeroNum fs (ptag ++ p ++ m)
  | inside (fs fs' : Fields) (ptag pl body m : Bytes) (tag i : Nat) (o : FieldOpt) (t : Ty) : VTok ptag tag →
      tag / 8 ≠ 0 → tag % 8 = 2 → VTok pl body.length → findField fs (tag / 8) = some (i, o, t) →
      msgOf t = some fs' → ZeroNum fs' body → ZeroNum fs (ptag ++ (pl ++ body) ++ m)

/-! ## one scalar occurrence, converse -/

theorem inRange_of_signed (k : IntKind) (hk : k = .int ∨ k = .i64) (v : Int) (h1 : -(2:Int)^63 ≤ v)
    (h2 : v < (2:Int)^63) : k.inRange v = true := by
  rcases hk with rfl | rfl <;>
    simp only [IntKind.inRange, IntKind.signed, IntKind.bits, if_true, Nat.reduceSub, Bool.and_eq_true] <;>
    exact ⟨decide_eq_true h1, decide_eq_true h2⟩

theorem inRange_of_unsigned (k : IntKind) (hk : k = .uint ∨ k = .u64) (n : Nat) (h : n < 2 ^ 64) :
    k.inRange (n : Int) = true := by
  have h1 : (0 : Int) ≤ (n : Int) := by omega
  have h2 : (n : Int) < (2:Int) ^ 64 := by
    simp only [Nat.reducePow] at h; simp only [Int.reducePow]; omega
  rcases hk with rfl | rfl <;>
    simp only [IntKind.inRange, IntKind.signed, IntKind.bits, Bool.false_eq_true, if_false, Bool.and_eq_true] <;>
    exact ⟨decide_eq_true h1, decide_eq_true h2⟩

theorem inRange_i32 (v : Int) (h : ¬ (v < -2147483648 ∨ v > 2147483647)) : IntKind.i32.inRange v = true := by
  have h1 : -(2:Int)^31 ≤ v := by simp only [Int.reducePow]; omega
  have h2 : v < (2:Int)^31 := by simp only [Int.reducePow]; omega
  simp only [IntKind.inRange, IntKind.signed, IntKind.bits, if_true, Nat.reduceSub, Bool.and_eq_true]
  exact ⟨decide_eq_true h1, decide_eq_true h2⟩

theorem inRange_u32 (n : Nat) (h : ¬ n > 4294967295) : IntKind.u32.inRange (n : Int) = true := by
  have h1 : (0 : Int) ≤ (n : Int) := by omega
  have h2 : (n : Int) < (2:Int) ^ 32 := by simp only [Int.reducePow]; omega
  simp only [IntKind.inRange, IntKind.signed, IntKind.bits, Bool.false_eq_true, if_false, Bool.and_eq_true]
  exact ⟨decide_eq_true h1, decide_eq_true h2⟩

theorem unzigzag_bounds (n : Nat) (h : n < 2 ^ 64) : -(2:Int)^63 ≤ unzigzag n ∧ unzigzag n < (2:Int)^63 := by
  unfold unzigzag
  simp only [Nat.reducePow] at h
  simp only [Int.reducePow]
  split <;> omega

theorem toInt64_bounds (n : Nat) (h : n < 2 ^ 64) : -(2:Int)^63 ≤ toInt64 n ∧ toInt64 n < (2:Int)^63 := by
  unfold toInt64
  simp only [Nat.reducePow] at h ⊢
  simp only [Int.reducePow]
  split <;> omega

/-- the value the reference computes from a signed varint payload -/
theorem signed_bounds (z : Bool) (n : Nat) (h : n < 2 ^ 64) :
    -(2:Int)^63 ≤ (if z = true then unzigzag n else toInt64 n) ∧ (if z = true then unzigzag n else toInt64 n) < (2:Int)^63 := by
  cases z
  · simpa using toInt64_bounds n h
  · simpa using unzigzag_bounds n h

mutual
/-- no byte array `[N]byte` anywhere in the type. The converse direction needs it: `Unmarshal` accepts a payload LONGER
than the array (it copies the first N bytes, `proto.bytearr`), the reference accepts exactly N bytes — see
`ProtoLiberalFindings.long_array_differs`. -/
def noArr : Ty → Bool
  | .arr _ _ => false
  | .ptr t => noArr t
  | .slice t => noArr t
  | .struct fs => noArrFields fs
  | _ => true
def noArrFields : Fields → Bool
  | .nil => true
  | .cons _ _ _ t rest => noArr t && noArrFields rest
end

theorem find_noArr (num : Nat) : ∀ (fs : Fields) (i j : Nat) (o : FieldOpt) (t : Ty),
    noArrFields fs = true → findField.go num fs i = some (j, o, t) → noArr t = true
  | .nil, i, j, o, t, _, h => by simp [findField.go] at h
  | .cons name tag emb t0 rest, i, j, o, t, hf, h => by
    simp only [noArrFields, Bool.and_eq_true] at hf
    rw [findField_go_cons] at h
    by_cases hn : (Spec.Protobuf.fieldOpt (i + 1) tag).number = num
    · rw [if_pos hn] at h
      simp only [Option.some.injEq, Prod.mk.injEq] at h
      obtain ⟨_, _, rfl⟩ := h
      exact hf.1
    · rw [if_neg hn] at h
      exact find_noArr num rest (i + 1) j o t hf.2 h

/-- **one scalar occurrence, converse**: the record has the wire type of the field's codec and the codec accepts the
payload ⇒ the reference accepts the record (with the value the forward lemma `scalar_agree` identifies) -/
theorem scalar_conv (t : Ty) (o : FieldOpt) (w : WireVal) (p : Bytes) (cur cur' v : Val) (F f : Nat) (fl : Flags)
    (m' : Nat) (ht : tyOK t = true) (hna : noArr t = true) (hs : isStructTy t = false) (hnp : isPtr t = false)
    (hns : isSlice t = false)
    (ho : optOK t o = true) (hfl : fl.zigzag = o.zigzag) (hp : Pay w p)
    (hw : wireNum w = (codecFor t o).wire.num)
    (h : decodeU f (codecFor t o) p cur' fl = .ok (v, m')) :
    ∃ v0, decodeOne (F + 1) t o w cur = some v0 := by
  cases f with
  | zero => simp [decodeU] at h
  | succ f =>
  cases t <;> simp only [tyOK] at ht <;> try (exact absurd ht (by decide))
  case struct => exact absurd hs (by simp [isStructTy])
  case ptr => exact absurd hnp (by simp [isPtr])
  case slice => exact absurd hns (by simp [isSlice])
  case arr => simp [noArr] at hna
  case bool =>
    cases w <;> simp only [codecFor, codecOf, Codec.wire, wireNum, num_varint] at hw <;> try (exact absurd hw (by decide))
    exact ⟨_, by simp only [decodeOne]; rfl⟩
  case f32 =>
    cases w <;> simp only [codecFor, codecOf, Codec.wire, wireNum, num_fixed32] at hw <;> try (exact absurd hw (by decide))
    exact ⟨_, by simp only [decodeOne]; rfl⟩
  case f64 =>
    cases w <;> simp only [codecFor, codecOf, Codec.wire, wireNum, num_fixed64] at hw <;> try (exact absurd hw (by decide))
    exact ⟨_, by simp only [decodeOne]; rfl⟩
  case str =>
    cases w <;> simp only [codecFor, codecOf, Codec.wire, wireNum, num_varlen] at hw <;> try (exact absurd hw (by decide))
    exact ⟨_, by simp only [decodeOne]; rfl⟩
  case bytes =>
    cases w <;> simp only [codecFor, codecOf, Codec.wire, wireNum, num_varlen] at hw <;> try (exact absurd hw (by decide))
    exact ⟨_, by simp only [decodeOne]; rfl⟩
  case int k =>
    cases k <;> simp only [supportedKind] at ht <;> try (exact absurd ht (by decide))
    case int =>
      have hf : o.fixed = false := by simpa [optOK] using ho
      cases w <;> simp only [codecFor, codecOf, Codec.wire, wireNum, num_varint] at hw <;>
        try (exact absurd hw (by decide))
      rename_i n
      simp only [Pay] at hp
      have hb := signed_bounds o.zigzag n hp.lt
      exact ⟨_, by simp only [decodeOne, hf, IntKind.signed, Bool.false_eq_true, if_false, if_true,
        inRange_of_signed .int (Or.inl rfl) _ hb.1 hb.2]; rfl⟩
    case i64 =>
      by_cases hf : o.fixed = true
      · cases w <;> simp only [codecFor, hf, if_true, Codec.wire, wireNum, num_fixed64] at hw <;>
          try (exact absurd hw (by decide))
        exact ⟨_, by simp only [decodeOne, hf, if_true]; rfl⟩
      · have hf' : o.fixed = false := by simpa using hf
        cases w <;> simp only [codecFor, hf', Bool.false_eq_true, if_false, Codec.wire, wireNum, num_varint] at hw <;>
          try (exact absurd hw (by decide))
        rename_i n
        simp only [Pay] at hp
        have hb := signed_bounds o.zigzag n hp.lt
        exact ⟨_, by simp only [decodeOne, hf', IntKind.signed, Bool.false_eq_true, if_false, if_true,
          inRange_of_signed .i64 (Or.inr rfl) _ hb.1 hb.2]; rfl⟩
    case i32 =>
      by_cases hf : o.fixed = true
      · cases w <;> simp only [codecFor, hf, if_true, Codec.wire, wireNum, num_fixed32] at hw <;>
          try (exact absurd hw (by decide))
        exact ⟨_, by simp only [decodeOne, hf, if_true]; rfl⟩
      · have hf' : o.fixed = false := by simpa using hf
        cases w <;> simp only [codecFor, hf', Bool.false_eq_true, if_false, Codec.wire, wireNum, num_varint] at hw <;>
          try (exact absurd hw (by decide))
        rename_i n
        simp only [Pay] at hp
        have hv : (if fl.zigzag = true then (decodeZigZag64 (BitVec.ofNat 64 n)).toInt else (BitVec.ofNat 64 n).toInt)
            = (if o.zigzag = true then unzigzag n else toInt64 n) := by
          rw [hfl]; split <;> simp only [unzigzag_ofNat n hp.lt, toInt_ofNat n hp.lt]
        simp only [codecFor, hf', Bool.false_eq_true, if_false, decodeU, vtok_dec hp, Flags.i64, hv] at h
        by_cases hr : (if o.zigzag = true then unzigzag n else toInt64 n) < -2147483648
            ∨ (if o.zigzag = true then unzigzag n else toInt64 n) > 2147483647
        · rw [if_pos hr] at h; simp at h
        · exact ⟨_, by simp only [decodeOne, hf', IntKind.signed, Bool.false_eq_true, if_false, if_true,
            inRange_i32 _ hr]; rfl⟩
    case uint =>
      have hf : o.fixed = false := by simpa [optOK] using ho
      cases w <;> simp only [codecFor, codecOf, Codec.wire, wireNum, num_varint] at hw <;>
        try (exact absurd hw (by decide))
      rename_i n
      simp only [Pay] at hp
      exact ⟨_, by simp only [decodeOne, hf, IntKind.signed, Bool.false_eq_true, if_false, if_true,
        inRange_of_unsigned .uint (Or.inl rfl) n hp.lt]; rfl⟩
    case u64 =>
      by_cases hf : o.fixed = true
      · cases w <;> simp only [codecFor, hf, if_true, Codec.wire, wireNum, num_fixed64] at hw <;>
          try (exact absurd hw (by decide))
        exact ⟨_, by simp only [decodeOne, hf, if_true]; rfl⟩
      · have hf' : o.fixed = false := by simpa using hf
        cases w <;> simp only [codecFor, hf', Bool.false_eq_true, if_false, Codec.wire, wireNum, num_varint] at hw <;>
          try (exact absurd hw (by decide))
        rename_i n
        simp only [Pay] at hp
        exact ⟨_, by simp only [decodeOne, hf', IntKind.signed, Bool.false_eq_true, if_false, if_true,
          inRange_of_unsigned .u64 (Or.inr rfl) n hp.lt]; rfl⟩
    case u32 =>
      by_cases hf : o.fixed = true
      · cases w <;> simp only [codecFor, hf, if_true, Codec.wire, wireNum, num_fixed32] at hw <;>
          try (exact absurd hw (by decide))
        exact ⟨_, by simp only [decodeOne, hf, if_true]; rfl⟩
      · have hf' : o.fixed = false := by simpa using hf
        cases w <;> simp only [codecFor, hf', Bool.false_eq_true, if_false, Codec.wire, wireNum, num_varint] at hw <;>
          try (exact absurd hw (by decide))
        rename_i n
        simp only [Pay] at hp
        simp only [codecFor, hf', Bool.false_eq_true, if_false, decodeU, vtok_dec hp, Res.bind,
          ofNat64_toNat n hp.lt] at h
        split at h
        · simp at h
        · rename_i hr
          exact ⟨_, by simp only [decodeOne, hf', IntKind.signed, Bool.false_eq_true, if_false, if_true,
            inRange_u32 n hr]; rfl⟩

end Enc.Lemmas.ProtoLiberal
