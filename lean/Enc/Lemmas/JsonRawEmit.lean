import Enc.Lemmas.JsonRawEmitTok
import Enc.Lemmas.JsonRawEmitFuel
import Enc.Lemmas.JsonDecAnyTop
import Enc.Lemmas.JsonRTString
import Enc.Lemmas.JsonValid
/-!
# RawMessage / MarshalJSON re-emission, part 8: the theorems

* `validateSpan_spec` — the validation of encodeRawMessage / encodeJSONMarshaler in grammar terms;
* `emit_valid` / `emit_invalid` — on valid input the (validated) output is `K e` of the document, on invalid input an
  error; `rawEmit_eq_compact`, `marshaler_eq_compact` — = `Spec.Json.compact`;
* `meaning_K` — the compacted (and escaped) text is valid and denotes the same generic value, under every flag subset of
  the decoder; consequences for trusted raw messages.
-/
namespace Enc.Lemmas.JsonRawEmit
open Enc Enc.Model.Json Enc.Model.Json.RawEmit Enc.Lemmas.JsonRawEmitLoop Enc.Lemmas.JsonRawEmitEsc
open Enc.Lemmas.JsonRawEmitLeaf Enc.Lemmas.JsonRawEmitValue
open Enc.Lemmas.TokConcat (Mode strip)
open Enc.Spec.Json (isWs ws value valueV consumed validStd tokensOf tokenText escapeHTML)
open Enc.Lemmas.JsonGrammar (ws_length_le ws_ws)
open Enc.Lemmas.JsonWs (skipSpaces_eq_ws)

abbrev F (raw : Bytes) : Nat := 3 * raw.length + 8

/-- the validation shared by encodeRawMessage and encodeJSONMarshaler, in grammar terms -/
theorem validateSpan_spec (raw : Bytes) :
    validateSpan raw =
      match value (F raw) 10000 (ws raw) with
      | some rest => if (ws rest).isEmpty then some (consumed (ws raw) rest) else none
      | none => none := by
  unfold validateSpan
  simp only [skipSpaces_eq_ws]
  have hl := ws_length_le raw
  have h := JsonValue.parseValue_toOpt {} 0 (fuelFor (ws raw)) (F raw) (ws raw) (Nat.zero_le _) (by simp [fuelFor])
    (by simp only [F]; omega) (JsonRTString.qsound_default _)
  have e : Gen.c_json_maxNestingDepth - 0 = 10000 := rfl
  rw [e] at h
  rw [← h]
  cases parseValue {} 0 (fuelFor (ws raw)) (ws raw) <;> rfl

/-- more fuel for the validating parse changes nothing (termination: the fuel of the model is never exhausted) -/
theorem validate_fuel (raw : Bytes) (k : Nat) :
    JsonString.toOpt (parseValue {} 0 (fuelFor (ws raw) + k) (ws raw)) = JsonString.toOpt (parseValue {} 0 (fuelFor (ws raw)) (ws raw)) := by
  have hl := ws_length_le raw
  rw [JsonValue.parseValue_toOpt {} 0 (fuelFor (ws raw) + k) (F raw) (ws raw) (Nat.zero_le _) (by simp [fuelFor]; omega)
      (by simp only [F]; omega) (JsonRTString.qsound_default _),
    JsonValue.parseValue_toOpt {} 0 (fuelFor (ws raw)) (F raw) (ws raw) (Nat.zero_le _) (by simp [fuelFor])
      (by simp only [F]; omega) (JsonRTString.qsound_default _)]

theorem validStd_cases (raw : Bytes) :
    (validStd raw = true ∧ ∃ rest, value (F raw) 10000 (ws raw) = some rest ∧ ws rest = []) ∨
    (validStd raw = false ∧ validateSpan raw = none) := by
  rw [validateSpan_spec]
  unfold validStd
  cases hv : value (F raw) 10000 (ws raw) with
  | none => right; simp [F] at hv; simp [hv]
  | some rest =>
    simp only
    cases hr : (ws rest).isEmpty with
    | true => left; exact ⟨rfl, rest, rfl, by simpa using hr⟩
    | false => right; simp

theorem K_all_ws (e : Bool) (r : Bytes) (h : ws r = []) : K e .out 0 r = [] := by
  rw [← K_out_ws, h]; rfl

/-- what the main lemma gives for a valid document -/
theorem valid_core (dyn : DynFlags) (raw : Bytes) {rest : Bytes} (hv : value (F raw) 10000 (ws raw) = some rest)
    (hr : ws rest = []) :
    ∃ v o, valueV dyn (F raw) 10000 (ws raw) = some (v, o, rest) ∧
      (∀ e, K e .out 0 (consumed (ws raw) rest) = K e .out 0 raw) ∧
      K true .out 0 raw = escapeHTML (K false .out 0 raw) ∧
      (∀ e, valueV dyn (F raw) 10000 (K e .out 0 raw) = some (v, o, [])) := by
  obtain ⟨v, o, hV⟩ := JsonDecAny.valueV_some_of_proj (dyn := dyn) hv
  obtain ⟨oF, oT, hK, hD⟩ := valueV_compact dyn hV
  obtain ⟨h1, h2, h3⟩ := hK.top
  have hraw : ∀ e, K e .out 0 raw = if e then oT else oF := by
    intro e; rw [← K_out_ws]; exact h2 e (K_all_ws e rest hr)
  refine ⟨v, o, hV, fun e => by rw [h1, hraw], ?_, fun e => ?_⟩
  · rw [hraw true, hraw false]; exact h3.eq.symm
  · have := hD [] sep_nil
    simp only [List.append_nil] at this
    rw [hraw]; cases e
    · exact this.1
    · exact this.2

/-! ### (a) the model is `Spec.Json.compact` -/

theorem emit_valid (e : Bool) (raw : Bytes) (h : validStd raw = true) :
    (validateSpan raw).map (fun s => appendCompactEscapeHTML s e) = some (K e .out 0 raw) := by
  rcases validStd_cases raw with ⟨_, rest, hv, hr⟩ | ⟨hf, _⟩
  · obtain ⟨v, o, _, hK, _, _⟩ := valid_core ⟨false, false, false, false⟩ raw hv hr
    rw [validateSpan_spec, hv]
    simp only [hr, List.isEmpty_nil, if_true, Option.map_some, ace_eq_K, hK]
  · rw [hf] at h; cases h

theorem emit_invalid (raw : Bytes) (h : validStd raw = false) : validateSpan raw = none := by
  rcases validStd_cases raw with ⟨ht, _⟩ | ⟨_, hn⟩
  · rw [ht] at h; cases h
  · exact hn

/-- `Spec.Json.compact` in terms of the scanner -/
theorem compact_eq_K (e : Bool) (raw : Bytes) :
    Spec.Json.compact e raw = if validStd raw then some (K e .out 0 raw) else none := by
  unfold Spec.Json.compact
  cases hvs : validStd raw with
  | false => simp
  | true =>
    simp only [if_true]
    obtain ⟨ts, hts⟩ := JsonRawEmitTok.tokensOf_of_validStd raw hvs
    have hcat : tokenText ts = K false .out 0 raw := by
      have := TokConcat.spec_concat_values raw ts hts
      unfold tokenText
      rw [this, K_false_eq_strip]; rfl
    rw [hts, Option.map_some, hcat]
    cases e with
    | false => simp
    | true =>
      rcases validStd_cases raw with ⟨_, rest, hv, hr⟩ | ⟨hf, _⟩
      · obtain ⟨_, _, _, _, hE, _⟩ := valid_core ⟨false, false, false, false⟩ raw hv hr
        simp only [if_true]; rw [hE]
      · rw [hf] at hvs; cases hvs

/-- **(a)** RawMessage values without TrustRawMessage -/
theorem rawEmit_eq_compact (fl : AFlags) (raw : Bytes) (ht : fl.trustRawMessage = false) :
    encodeRawMessage fl (some raw) = Spec.Json.compact fl.escapeHTML raw := by
  rw [compact_eq_K]
  simp only [encodeRawMessage, ht, Bool.false_eq_true, if_false, Bool.and_false]
  cases hvs : validStd raw with
  | true =>
    have := emit_valid fl.escapeHTML raw hvs
    cases hs : validateSpan raw with
    | none => rw [hs] at this; cases this
    | some s => rw [hs] at this; simpa using this
  | false => rw [emit_invalid raw hvs]; simp

/-- **(a)** the output of MarshalJSON methods, under every flag subset -/
theorem marshaler_eq_compact (fl : AFlags) (j : Bytes) :
    encodeJSONMarshaler fl false j = Spec.Json.compact fl.escapeHTML j := by
  rw [compact_eq_K]
  simp only [encodeJSONMarshaler, Bool.false_eq_true, if_false]
  cases hvs : validStd j with
  | true =>
    have := emit_valid fl.escapeHTML j hvs
    cases hs : validateSpan j with
    | none => rw [hs] at this; cases this
    | some s => rw [hs] at this; simpa using this
  | false => rw [emit_invalid j hvs]; simp

theorem compact_none_iff (e : Bool) (raw : Bytes) : Spec.Json.compact e raw = none ↔ Model.Json.valid raw = false := by
  rw [compact_eq_K, JsonValid.valid_eq_validStd]
  cases validStd raw <;> simp

/-! ### (c) meaning -/

/-- `value` does not depend on the fuel once there is enough of it -/
theorem value_fuel_irrelevant (f1 f2 : Nat) (b : Bytes) (h1 : 2 * b.length ≤ f1) (h2 : 2 * b.length ≤ f2) :
    value f1 10000 b = value f2 10000 b := by
  have a := JsonValue.parseValue_toOpt {} 0 (3 * b.length) f1 b (Nat.zero_le _) (Nat.le_refl _) h1 (JsonRTString.qsound_default _)
  have c := JsonValue.parseValue_toOpt {} 0 (3 * b.length) f2 b (Nat.zero_le _) (Nat.le_refl _) h2 (JsonRTString.qsound_default _)
  have e : Gen.c_json_maxNestingDepth - 0 = 10000 := rfl
  rw [e] at a c
  rw [← a, ← c]

/-- a successful value-level parse with any fuel is THE parse with the standard fuel of the document -/
theorem valueV_std_fuel (dyn : DynFlags) {f : Nat} {c : Bytes} {v : GV} {o : Bool}
    (h : valueV dyn f 10000 c = some (v, o, [])) : valueV dyn (F c) 10000 c = some (v, o, []) := by
  have hmax := JsonRawEmitFuel.valueV_fuel_mono dyn (Nat.le_add_right f (F c)) h
  have hval : value (f + F c) 10000 c = some [] := by
    have := JsonDecAnyLoc.valueV_proj dyn (f + F c) 10000 c
    rw [hmax] at this; exact this.symm
  have hF : value (F c) 10000 c = some [] := by
    rw [value_fuel_irrelevant (F c) (f + F c) c (by simp only [F]; omega) (by simp only [F]; omega)]; exact hval
  obtain ⟨v', o', hV'⟩ := JsonDecAny.valueV_some_of_proj (dyn := dyn) hF
  have hmax' := JsonRawEmitFuel.valueV_fuel_mono dyn (by omega : F c ≤ f + F c) hV'
  rw [hmax] at hmax'
  simp only [Option.some.injEq, Prod.mk.injEq, and_true] at hmax'
  rw [hV', ← hmax'.1, ← hmax'.2]

/-- **(c)** the compacted (and escaped) text of a valid document is valid and denotes the same generic value -/
theorem meaning_K (e : Bool) (raw : Bytes) (h : validStd raw = true) :
    validStd (K e .out 0 raw) = true ∧
      ∀ dyn, Spec.Json.unmarshalAny dyn (K e .out 0 raw) = Spec.Json.unmarshalAny dyn raw := by
  rcases validStd_cases raw with ⟨_, rest, hv, hr⟩ | ⟨hf, _⟩
  · have key : ∀ dyn, ∃ v o, valueV dyn (F raw) 10000 (ws raw) = some (v, o, rest) ∧
        valueV dyn (F (K e .out 0 raw)) 10000 (ws (K e .out 0 raw)) = some (v, o, []) := by
      intro dyn
      obtain ⟨v, o, hV, _, _, hD⟩ := valid_core dyn raw hv hr
      have hc := hD e
      have hw := ws_of_valueV hc
      exact ⟨v, o, hV, by rw [hw]; exact valueV_std_fuel dyn hc⟩
    refine ⟨?_, fun dyn => ?_⟩
    · obtain ⟨v, o, _, hc⟩ := key ⟨false, false, false, false⟩
      have := JsonDecAnyLoc.valueV_proj ⟨false, false, false, false⟩ (F (K e .out 0 raw)) 10000 (ws (K e .out 0 raw))
      rw [hc] at this
      unfold validStd
      simp only [F] at this
      rw [← this]; rfl
    · obtain ⟨v, o, hV, hc⟩ := key dyn
      unfold Spec.Json.unmarshalAny
      simp only [F] at hV hc
      rw [hV, hc]
      have hn : ws ([] : Bytes) = [] := rfl
      simp [hr, hn]
  · rw [hf] at h; cases h


theorem model_iff_of_spec_eq {a b : Bytes} (h : ∀ dyn, Spec.Json.unmarshalAny dyn a = Spec.Json.unmarshalAny dyn b)
    (dyn : DynFlags) (v : GV) : unmarshalAny dyn a = .ok v ↔ unmarshalAny dyn b = .ok v := by
  rw [JsonDecAnyTop.model_ok_iff_spec_ok, JsonDecAnyTop.model_ok_iff_spec_ok, h]

/-- **(c)** in terms of `Spec.Json.compact` and `json.Valid` -/
theorem compact_meaning (e : Bool) (raw : Bytes) (hv : Model.Json.valid raw = true) :
    ∃ c, Spec.Json.compact e raw = some c ∧ Model.Json.valid c = true ∧
      (∀ dyn, Spec.Json.unmarshalAny dyn c = Spec.Json.unmarshalAny dyn raw) ∧
      (∀ dyn v, unmarshalAny dyn c = .ok v ↔ unmarshalAny dyn raw = .ok v) := by
  rw [JsonValid.valid_eq_validStd] at hv
  obtain ⟨h1, h2⟩ := meaning_K e raw hv
  refine ⟨K e .out 0 raw, by rw [compact_eq_K, hv]; rfl, by rw [JsonValid.valid_eq_validStd]; exact h1, h2,
    model_iff_of_spec_eq h2⟩

/-- **(d)** the two EscapeHTML settings: one is the escape map of the other, and both denote the same value -/
theorem escape_meaning (raw : Bytes) (hv : Model.Json.valid raw = true) :
    ∃ c0 c1, Spec.Json.compact false raw = some c0 ∧ Spec.Json.compact true raw = some c1 ∧ c1 = escapeHTML c0 ∧
      (∀ dyn, Spec.Json.unmarshalAny dyn c1 = Spec.Json.unmarshalAny dyn c0) ∧
      (∀ dyn v, unmarshalAny dyn c1 = .ok v ↔ unmarshalAny dyn c0 = .ok v) := by
  have hv' := hv
  rw [JsonValid.valid_eq_validStd] at hv'
  obtain ⟨_, h0⟩ := meaning_K false raw hv'
  obtain ⟨_, h1⟩ := meaning_K true raw hv'
  have heq : ∀ dyn, Spec.Json.unmarshalAny dyn (K true .out 0 raw) = Spec.Json.unmarshalAny dyn (K false .out 0 raw) :=
    fun dyn => by rw [h0, h1]
  refine ⟨K false .out 0 raw, K true .out 0 raw, by rw [compact_eq_K, hv']; rfl, by rw [compact_eq_K, hv']; rfl, ?_, heq,
    model_iff_of_spec_eq heq⟩
  rcases validStd_cases raw with ⟨_, rest, hvv, hr⟩ | ⟨hf, _⟩
  · obtain ⟨_, _, _, _, hE, _⟩ := valid_core ⟨false, false, false, false⟩ raw hvv hr
    exact hE
  · rw [hf] at hv'; cases hv'

/-- the flags of `Marshal` -/
def defaultFlags : AFlags := { escapeHTML := true, sortMapKeys := true, trustRawMessage := false }

/-- **(b)** a trusted raw message that is valid JSON: the output is valid JSON and means what the default output means -/
theorem trusted_meaning (fl : AFlags) (raw : Bytes) (ht : fl.trustRawMessage = true) (hv : Model.Json.valid raw = true) :
    ∃ out dflt, encodeRawMessage fl (some raw) = some out ∧ encodeRawMessage defaultFlags (some raw) = some dflt ∧
      Model.Json.valid out = true ∧
      (∀ dyn, Spec.Json.unmarshalAny dyn out = Spec.Json.unmarshalAny dyn dflt) ∧
      (∀ dyn v, unmarshalAny dyn out = .ok v ↔ unmarshalAny dyn dflt = .ok v) ∧
      (fl.escapeHTML = true → out = dflt) ∧ (fl.escapeHTML = false → out = raw) := by
  have hv' := hv
  rw [JsonValid.valid_eq_validStd] at hv'
  obtain ⟨hval, hmean⟩ := meaning_K true raw hv'
  have hd : encodeRawMessage defaultFlags (some raw) = some (K true .out 0 raw) := by
    rw [rawEmit_eq_compact defaultFlags raw rfl, compact_eq_K, hv']; rfl
  cases he : fl.escapeHTML with
  | true =>
    have ho : encodeRawMessage fl (some raw) = some (K true .out 0 raw) := by
      simp [encodeRawMessage, ht, he, ace_eq_K]
    exact ⟨_, _, ho, hd, by rw [JsonValid.valid_eq_validStd]; exact hval, fun _ => rfl, fun _ _ => Iff.rfl,
      fun _ => rfl, fun h => Bool.noConfusion h⟩
  | false =>
    have ho : encodeRawMessage fl (some raw) = some raw := by
      simp [encodeRawMessage, ht, he]
    have heq : ∀ dyn, Spec.Json.unmarshalAny dyn raw = Spec.Json.unmarshalAny dyn (K true .out 0 raw) :=
      fun dyn => (hmean dyn).symm
    exact ⟨_, _, ho, hd, hv, heq, model_iff_of_spec_eq heq, fun h => Bool.noConfusion h, fun _ => rfl⟩

#print axioms rawEmit_eq_compact
#print axioms marshaler_eq_compact
#print axioms compact_meaning
#print axioms escape_meaning
#print axioms trusted_meaning

end Enc.Lemmas.JsonRawEmit
