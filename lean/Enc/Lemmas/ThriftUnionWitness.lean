import Enc.Lemmas.ThriftUnion
/-!
Thrift unions: executable witnesses (`#guard` = evaluated at build time, no axioms). Tags are strings and `decide` cannot
evaluate `String.splitOn`, hence the hypotheses of the union theorems are checked here as Booleans on concrete unions
(the convention of ThriftRoundTripFindings.lean / ThriftAccept.lean), together with what the model answers.

`U = struct { A bool (1); B int32 (2); C string (3); D int32 (4); P *int32 (5); X int (untagged); F any (union) }`
(the Go experiment of the report: /tmp/ag/T2/scratch/main.go).
-/
namespace Enc.Lemmas.ThriftUnion.Witness
open Enc Enc.Model.Thrift Enc.Lemmas.ThriftPrim Enc.Lemmas.ThriftSkip Enc.Lemmas.ThriftRoundTrip Enc.Lemmas.ThriftUnion

def tg (s : String) : String := "thrift:\"" ++ s ++ "\""
def mk (l : List Val) : Vals := Vals.ofList l

def UF : Fields :=
  .cons "A" (tg "1") false .bool <|
  .cons "B" (tg "2") false (.int .i32) <|
  .cons "C" (tg "3") false .str <|
  .cons "D" (tg "4") false (.int .i32) <|
  .cons "P" (tg "5") false (.ptr (.int .i32)) <|
  .cons "X" "" false (.int .int) <|
  .cons "F" (tg ",union") false .any .nil
def U : Ty := .struct UF
/-- no two members of the same Go type: `struct { A bool (1); C string (3); F any (union); B int64 (9) }` -/
def VF : Fields :=
  .cons "A" (tg "1") false .bool <|
  .cons "C" (tg "3") false .str <|
  .cons "F" (tg ",union") false .any <|
  .cons "B" (tg "9") false (.int .i64) .nil
def V : Ty := .struct VF

def protos : List Proto := [.compact, .binary true, .binary false]
def hexOf (r : Res Bytes) : String := match r with | .ok b => toHex b | .err e => "err:" ++ e | .panic e => "panic:" ++ e
def rt (p : Proto) (ty : Ty) (v : Val) : String :=
  match marshalU p ty v with
  | .ok b => (unmarshalU p true ty b).show Val.show
  | _ => "marshal-err"

-- the union field is found, the model is NOT the old model on this type
#guard unionPos UF 0 == some 6 && unionPos VF 0 == some 2 && !noUnion U && noUnion (.struct (.cons "A" (tg "1") false .bool .nil))

/-! ### hypotheses of `union_bytes` / `union_round_trip` on V with C = "" designated (a ZERO member) -/
def vC0 : Vals := mk [.bool false, .str [], .ptr (.int 1), .int 0]
#guard zeroMember VF vC0 == some 1                                     -- `zeroMember_designated`
#guard (zmScan .str VF vC0 0) == some [1] && (tyAt VF 1).isSome
#guard othersQuiet (zeroMember VF vC0) 1 VF vC0 0                      -- hq
#guard (fieldAt VF vC0 1).isSome                                       -- hk
#guard emittedU (zeroMember VF vC0) 1 (tg "3") .str (.str []) == some (3, false)      -- he: emitted although zero
#guard emittedU none 1 (tg "3") .str (.str []) == none                 -- … and not without the union field
#guard (findById (fieldDescs VF) 3).any fun fd => fd.pos == 1 && fd.id == 3 && !fd.enum && tyEq fd.ty .str   -- hfind
#guard (fieldDescs VF).all fun fd => !fd.required                      -- hreq
#guard idsOK VF && parseTag (tg "3") == some (3, false, false)         -- `findById_member`
#guard noUnion .str && RTS .str (.str []) && enumTyOK false .str && isReal (typeOf .str)
-- the zero-valued member IS written: field 3, type BINARY, length 0, stop (compact 38 00 00; binary 08 0003 00000000 000000)
#guard hexOf (marshalU .compact V (.struct vC0)) == "380000"
#guard hexOf (marshalU (.binary true) V (.struct vC0)) == "08000300000000000000"
-- … and read back: C = "", F → C
#guard protos.all fun p => rt p V (.struct vC0) == "ok:t 4 b0 s - p i 1 i 0"

/-! ### non-zero member; nil union field; nothing set; several set -/
#guard protos.all fun p => rt p V (.struct (mk [.bool false, .str [], .ptr (.int 3), .int 77])) == "ok:t 4 b0 s - p i 3 i 77"
#guard protos.all fun p => rt p V (.struct (mk [.bool true, .str [], .nil, .int 0])) == "ok:t 4 b1 s - p i 0 i 0"
#guard othersQuiet (zeroMember VF (mk [.bool false, .str [], .nil, .int 0])) VF.length VF (mk [.bool false, .str [], .nil, .int 0]) 0
#guard hexOf (marshalU .compact V (.struct (mk [.bool false, .str [], .nil, .int 0]))) == "00"       -- `union_no_member`
#guard protos.all fun p => rt p V (.struct (mk [.bool false, .str [], .nil, .int 0])) == "ok:t 4 b0 s - nil i 0"
#guard hexOf (marshalU .compact V (.struct (mk [.bool true, .str [], .ptr (.int 0), .int 5]))) == "err:unionMultiple"

/-! ### `zeroMember` ambiguity (finding): U has two int32 members B and D; B = 0 designated is NOT written -/
def uB0 : Vals := mk [.bool false, .int 0, .str [], .int 0, .nil, .int 0, .ptr (.int 1)]
#guard zeroMember UF uB0 == none && zmScan (.int .i32) UF uB0 0 == some [1, 3]
#guard hexOf (marshalU .compact U (.struct uB0)) == "00"
#guard protos.all fun p => rt p U (.struct uB0) == "ok:t 7 b0 i 0 s - i 0 nil i 0 nil"      -- the union field comes back nil
-- C = "" designated in the same type is fine
#guard hexOf (marshalU .compact U (.struct (mk [.bool false, .int 0, .str [], .int 0, .nil, .int 0, .ptr (.int 2)]))) == "380000"

/-! ### the wire carries several members: the last one wins (`union_last_member_wins`); the untagged field is reset -/
def un (p : Proto) (strict : Bool) (ty : Ty) (b : Bytes) (cur : Val) : String :=
  match decodeU p strict 0 1000 ty b cur with
  | .ok (v, _) => "ok:" ++ v.show
  | .err e => "err:" ++ e
  | .panic e => "panic:" ++ e
-- A = true (11), B = 3 (15 06), C = "x" (18 01 78), stop; target with X = 9
#guard un .compact false U [0x11, 0x15, 0x06, 0x18, 0x01, 0x78, 0x00] (.struct (mk [.bool false, .int 0, .str [], .int 0, .nil, .int 9, .nil]))
  == "ok:t 7 b0 i 0 s 78 i 0 nil i 0 p i 2"
-- no member arrives: the target is untouched (X stays 9)
#guard un .compact false U [0x00] (.struct (mk [.bool false, .int 0, .str [], .int 0, .nil, .int 9, .nil]))
  == "ok:t 7 b0 i 0 s - i 0 nil i 9 nil"
-- a member of another type (field 2 as BINARY) after A = true: skipped without a reset when not strict, an error when strict
#guard un .compact false U [0x11, 0x18, 0x01, 0x78, 0x00] (zeroOf U) == "ok:t 7 b1 i 0 s - i 0 nil i 0 p i 0"
#guard un .compact true U [0x11, 0x18, 0x01, 0x78, 0x00] (zeroOf U) == "err:typeMismatch"
-- a pointer member: the union field holds the address of the pointer FIELD
#guard un .compact false U [0x55, 0x08, 0x00] (zeroOf U) == "ok:t 7 b0 i 0 s - i 0 p i 4 i 0 p i 4"

/-! ### nested unions: a union member of a union (`union_round_trip_gen` twice) -/
def WF : Fields :=
  .cons "F" (tg ",union") false .any <|
  .cons "I" (tg "1") false V <|
  .cons "S" (tg "2") false .str .nil
def W : Ty := .struct WF
#guard protos.all fun p =>
  rt p W (.struct (mk [.ptr (.int 1), .struct vC0, .str []])) == "ok:t 3 p i 1 t 4 b0 s - p i 1 i 0 s -"

end Enc.Lemmas.ThriftUnion.Witness
