import Enc.Model.Json.Inlined
import Enc.Spec.Json.DirectIface
/-! `inlined` (json/codec.go) = the compiler's / reflect's direct-interface rule, by mutual induction on the type -/
namespace Enc.Lemmas.JsonInlined
open Enc.Model.Json.Inlined Enc.Spec.Json.DirectIface

mutual
theorem inlined_eq : ∀ t : Ty, inlined t = isDirectIface t
  | .ptr => rfl
  | .map => rfl
  | .chan => rfl
  | .func => rfl
  | .unsafePointer => rfl
  | .other => rfl
  | .array n e => by
    simp only [inlined, isDirectIface, inlined_eq e]
    by_cases h : n = 1 <;> simp [h]
  | .struct fs => by
    simp only [inlined, isDirectIface]
    exact fields_eq fs
theorem fields_eq : ∀ fs : Tys, (fs.numField == 1 && inlinedField0 fs) = soleFieldDirect fs
  | .nil => rfl
  | .cons t .nil => by simp [Tys.numField, inlinedField0, soleFieldDirect, inlined_eq t]
  | .cons t (.cons u r) => by simp [Tys.numField, soleFieldDirect]
end

#print axioms inlined_eq
end Enc.Lemmas.JsonInlined
