import Enc.Lemmas.ThriftSpecVal
import Enc.Lemmas.ThriftSpecBin
import Enc.Driver.Thrift
/-!
# C13 (compact protocol): the bytes written are exactly those the specification prescribes

`Model.Thrift.encode .compact` (the Go encoder as coded) against `Spec.Thrift.encode .compact` (written from the Apache
compact protocol document), bottom-up:

  1. `ThriftSpecPrim`    varints, length prefixes, list / map / field headers
  2. `ThriftSpecStruct`  id order, delta decision, bool coalescing, stop byte
  3. `ThriftSpecUniv`, `ThriftSpecVal`   the universe `ok`, same elision decision, the mutual induction
  4. this file           `encode_compact_eq_spec`, the relation of `ok` to the known-deviation predicates of
                         `Enc.Driver.Thrift`, non-vacuity, and the witnesses showing that each remaining restriction
                         of `ok` is needed
  5. `ThriftSpecBin`     the binary protocols modulo the known finding `thrift-binary-type-codes` (code table and
                         3-byte stop field): `encB_spec`, `encode_binary_eq_spec_mod`

Universe `ok ty v = tyOK ty && valOK ty v`:
  * types: bool, the signed integer kinds, string, []byte, slices, maps, sets (`map[K]struct{}`), structs, pointers,
    named types, any nesting; NOT f32/f64 (known: compact doubles big-endian), NOT enum-tagged fields whose Go kind is
    not int32 (known: `thriftEnumFieldType`), NOT unsigned kinds / arrays / interfaces (rejected by `encodeFuncOf`,
    outside the model), field ids (as `tagOf` parses them) positive and pairwise distinct in every struct (anything
    else makes `forEachStructField` / `encodeFuncStructOf` panic);
  * values: well typed, integers within their kind; nil pointers, nil slices, nil maps, nil byte slices are allowed
    EVERYWHERE, also inside collections (`nilInColl` is a round-trip deviation, not a wire deviation: both sides
    write the zero value), struct fields may hold any zero / non-zero value, required or not.
-/
namespace Enc.Lemmas.ThriftSpec
open Enc

/-- C13, compact protocol: on the whole universe `ok` the encoder writes exactly the specified bytes -/
theorem encode_compact_eq_spec (ty : Ty) (v : Val) (h : ok ty v = true) :
    Model.Thrift.encode .compact ty v = Spec.Thrift.encode .compact ty v := by
  unfold ok at h
  rw [Bool.and_eq_true] at h
  exact enc_eq ty h.1 v h.2

/-- the same for `thrift.Marshal` -/
theorem marshal_compact_eq_spec (ty : Ty) (v : Val) (h : ok ty v = true) :
    Model.Thrift.marshal .compact ty v = Spec.Thrift.encode .compact ty v :=
  encode_compact_eq_spec ty v h

/-! ## `ok` and the known-deviation predicates of the driver -/

theorem isU8_noFloat (t : Ty) (h : isU8 t = true) : Driver.Thrift.hasFloat t = false := by
  cases t <;> first | rfl | simp [ThriftSkip.isU8] at h
theorem isU8_noWide (t : Ty) (h : isU8 t = true) : Driver.Thrift.hasWideEnum t = false := by
  cases t <;> first | rfl | simp [ThriftSkip.isU8] at h

mutual
/-- the universe contains no float type (class `thriftCompactDoubleBE`, and with it `thriftNegZeroDropped`) -/
theorem tyOK_noFloat : (t : Ty) → tyOK t = true → Driver.Thrift.hasFloat t = false
  | .bool, _ | .str, _ | .bytes, _ | .int _, _ => rfl
  | .f32, h | .f64, h | .any, h | .arr _ _, h => by simp [tyOK] at h
  | .slice t, h => by
    simp only [tyOK, Bool.or_eq_true] at h
    simp only [Driver.Thrift.hasFloat]
    rcases h with h | h
    · exact isU8_noFloat t h
    · exact tyOK_noFloat t h
  | .map k v, h => by
    simp only [tyOK, Bool.and_eq_true] at h
    simp only [Driver.Thrift.hasFloat, tyOK_noFloat k h.1, tyOK_noFloat v h.2, Bool.or_self]
  | .struct fs, h => by
    simp only [tyOK, Bool.and_eq_true] at h
    simp only [Driver.Thrift.hasFloat, fieldsOK_noFloat fs h.1.1]
  | .ptr t, h => by
    simp only [tyOK] at h
    simp only [Driver.Thrift.hasFloat, tyOK_noFloat t h]
  | .named _ t, h => by
    simp only [tyOK] at h
    simp only [Driver.Thrift.hasFloat, tyOK_noFloat t h]
theorem fieldsOK_noFloat : (fs : Fields) → fieldsOK fs = true → Driver.Thrift.hasFloatF fs = false
  | .nil, _ => rfl
  | .cons _ _ _ t r, h => by
    simp only [fieldsOK, Bool.and_eq_true] at h
    simp only [Driver.Thrift.hasFloatF, tyOK_noFloat t h.1.1, fieldsOK_noFloat r h.2, Bool.or_self]
end

mutual
/-- the universe contains no wide enum (class `thriftEnumFieldType`) -/
theorem tyOK_noWideEnum : (t : Ty) → tyOK t = true → Driver.Thrift.hasWideEnum t = false
  | .bool, _ | .str, _ | .bytes, _ | .int _, _ => rfl
  | .f32, h | .f64, h | .any, h | .arr _ _, h => by simp [tyOK] at h
  | .slice t, h => by
    simp only [tyOK, Bool.or_eq_true] at h
    simp only [Driver.Thrift.hasWideEnum]
    rcases h with h | h
    · exact isU8_noWide t h
    · exact tyOK_noWideEnum t h
  | .map k v, h => by
    simp only [tyOK, Bool.and_eq_true] at h
    simp only [Driver.Thrift.hasWideEnum, tyOK_noWideEnum k h.1, tyOK_noWideEnum v h.2, Bool.or_self]
  | .struct fs, h => by
    simp only [tyOK, Bool.and_eq_true] at h
    simp only [Driver.Thrift.hasWideEnum, fieldsOK_noWideEnum fs h.1.1]
  | .ptr t, h => by
    simp only [tyOK] at h
    simp only [Driver.Thrift.hasWideEnum, tyOK_noWideEnum t h]
  | .named _ t, h => by
    simp only [tyOK] at h
    simp only [Driver.Thrift.hasWideEnum, tyOK_noWideEnum t h]
theorem fieldsOK_noWideEnum : (fs : Fields) → fieldsOK fs = true → Driver.Thrift.wideEnumF fs = false
  | .nil, _ => rfl
  | .cons _ tag _ t r, h => by
    simp only [fieldsOK, Bool.and_eq_true] at h
    simp only [Driver.Thrift.wideEnumF, tyOK_noWideEnum t h.1.1, fieldsOK_noWideEnum r h.2, Bool.or_false]
    have he := h.1.2
    unfold enumOK at he
    cases htag : Spec.Thrift.tagOf tag with
    | none => rfl
    | some tr =>
      obtain ⟨id, req, en⟩ := tr
      rw [htag] at he
      cases en with
      | false => rfl
      | true =>
        simp only at he ⊢
        split at he
        · rfl
        · exact absurd he (by simp)
end

/-! ## non-vacuity -/

def exInner (a1 a3 : String) : Fields :=
  .cons "X" a1 false (.int .i32) (.cons "S" a3 false .str .nil)

/-- bool field, required field, nested struct, list, map with a gap of 36 in the ids, enum, pointer, set, bytes -/
def exFields (a1 a2r a3 a4 a40 a41e a42 a43 a44 : String) : Fields :=
  .cons "B" a1 false .bool
  (.cons "R" a2r false (.int .i64)
  (.cons "N" a3 false (.struct (exInner a1 a3))
  (.cons "L" a4 false (.slice (.int .i16))
  (.cons "M" a40 false (.map .str (.int .i32))
  (.cons "E" a41e false (.int .i32)
  (.cons "P" a42 false (.ptr (.struct (exInner a1 a3)))
  (.cons "Z" a43 false (.map (.int .i8) (.struct .nil))
  (.cons "Y" a44 false (.slice (.ptr (.named "T" .bytes))) .nil))))))))

def exList : Vals := Vals.ofList ((List.range 16).map fun i => Val.int (Int.ofNat i * 1000 - 8000))

def exVals : Vals :=
  .cons (.bool true)
  (.cons (.int 0)                                   -- required, zero: written
  (.cons (.struct (.cons (.int (-7)) (.cons (.str [104, 105]) .nil)))
  (.cons (.list exList)                             -- 16 elements: long list header
  (.cons (.map (.cons (.str [107]) (.cons (.int 300) .nil)))
  (.cons (.int 2)
  (.cons .nil                                       -- nil pointer field: skipped
  (.cons (.map (.cons (.int 5) (.cons (.struct .nil) .nil)))
  (.cons (.list (.cons .nil (.cons (.ptr (.str [1, 2])) .nil))) .nil))))))))   -- nil pointer inside a list

theorem ex_ok (a1 a2r a3 a4 a40 a41e a42 a43 a44 : String)
    (h1 : Spec.Thrift.tagOf a1 = some (1, false, false)) (h2 : Spec.Thrift.tagOf a2r = some (2, true, false))
    (h3 : Spec.Thrift.tagOf a3 = some (3, false, false)) (h4 : Spec.Thrift.tagOf a4 = some (4, false, false))
    (h40 : Spec.Thrift.tagOf a40 = some (40, false, false)) (h41 : Spec.Thrift.tagOf a41e = some (41, false, true))
    (h42 : Spec.Thrift.tagOf a42 = some (42, false, false)) (h43 : Spec.Thrift.tagOf a43 = some (43, false, false))
    (h44 : Spec.Thrift.tagOf a44 = some (44, false, false)) :
    ok (.struct (exFields a1 a2r a3 a4 a40 a41e a42 a43 a44)) (.struct exVals) = true := by
  simp [ok, tyOK, fieldsOK, enumOK, fieldIds, exFields, exInner, h1, h2, h3, h4, h40, h41, h42, h43, h44,
    IntKind.signed, ThriftSkip.isU8]
  rfl


/-- non-vacuity: `encode_compact_eq_spec` applies to a struct with a bool field, a required zero field, a nested struct,
a list of 16 elements (long header), a map, an id gap of 36 (long field header), an enum field, a nil pointer field, a
set, and a list holding a nil pointer. The tags are any strings that `tagOf` parses to the given ids / options
(`String.splitOn` / `String.toInt?` do not reduce in the kernel); the `#guard`s below check the instance with the real
tag strings by evaluation. -/
example (a1 a2r a3 a4 a40 a41e a42 a43 a44 : String)
    (h1 : Spec.Thrift.tagOf a1 = some (1, false, false)) (h2 : Spec.Thrift.tagOf a2r = some (2, true, false))
    (h3 : Spec.Thrift.tagOf a3 = some (3, false, false)) (h4 : Spec.Thrift.tagOf a4 = some (4, false, false))
    (h40 : Spec.Thrift.tagOf a40 = some (40, false, false)) (h41 : Spec.Thrift.tagOf a41e = some (41, false, true))
    (h42 : Spec.Thrift.tagOf a42 = some (42, false, false)) (h43 : Spec.Thrift.tagOf a43 = some (43, false, false))
    (h44 : Spec.Thrift.tagOf a44 = some (44, false, false)) :
    Model.Thrift.encode .compact (.struct (exFields a1 a2r a3 a4 a40 a41e a42 a43 a44)) (.struct exVals) =
      Spec.Thrift.encode .compact (.struct (exFields a1 a2r a3 a4 a40 a41e a42 a43 a44)) (.struct exVals) :=
  encode_compact_eq_spec _ _ (ex_ok a1 a2r a3 a4 a40 a41e a42 a43 a44 h1 h2 h3 h4 h40 h41 h42 h43 h44)

def tg (s : String) : String := "thrift:\"" ++ s ++ "\""
def exTy : Ty :=
  .struct (exFields (tg "1") (tg "2,required") (tg "3") (tg "4") (tg "40") (tg "41,enum") (tg "42") (tg "43") (tg "44"))

#guard Spec.Thrift.tagOf (tg "2,required") == some (2, true, false)
#guard Spec.Thrift.tagOf (tg "41,enum") == some (41, false, true)
#guard Spec.Thrift.tagOf (tg "40") == some (40, false, false)
#guard ok exTy (.struct exVals)
#guard Model.Thrift.encode .compact exTy (.struct exVals) == Spec.Thrift.encode .compact exTy (.struct exVals)
#eval toHex (Spec.Thrift.encode .compact exTy (.struct exVals))

/-! ## every remaining restriction of `ok` is needed

Inputs outside `ok` that are NOT in one of the known classes, with both sides evaluated. None of them is reachable in
the Go package: `forEachStructField` panics on ids ≤ 0, `encodeFuncStructOf` on duplicate ids, `encodeFuncOf` on
unsigned kinds / arrays / interfaces, and the values are ill typed. They are deviations between the two Lean sides on
inputs the model does not claim to cover; `encode_compact_eq_spec_partial` names them. -/

def w1 (tag : String) (t : Ty) : Ty := .struct (.cons "A" (tg tag) false t .nil)
def w2 (tag1 tag2 : String) : Ty := .struct (.cons "A" (tg tag1) false (.int .i32) (.cons "B" (tg tag2) false (.int .i32) .nil))
def both (ty : Ty) (v : Val) : String × String :=
  (toHex (Model.Thrift.encode .compact ty v), toHex (Spec.Thrift.encode .compact ty v))

-- field id 0 / negative field id: since the fix 988f9bb (short form only for a Delta in 1..15) the writer takes the long
-- form like the specification (before: delta 0 with no id on the wire / delta -1 truncated into the high nibble)
#eval both (w1 "0" (.int .i32)) (.struct (.cons (.int 5) .nil))
#guard (both (w1 "0" (.int .i32)) (.struct (.cons (.int 5) .nil))) == ("05000a00", "05000a00")
#eval both (w1 "-1" (.int .i32)) (.struct (.cons (.int 5) .nil))
#guard (both (w1 "-1" (.int .i32)) (.struct (.cons (.int 5) .nil))) == ("05010a00", "05010a00")
-- duplicate ids: the second header has delta 0
#eval both (w2 "1" "1") (.struct (.cons (.int 5) (.cons (.int 6) .nil)))
#guard (both (w2 "1" "1") (.struct (.cons (.int 5) (.cons (.int 6) .nil)))).1
        != (both (w2 "1" "1") (.struct (.cons (.int 5) (.cons (.int 6) .nil)))).2
-- uint8 (the model falls through to the i64 writer; the specification writes one byte)
#eval both (.int .u8) (.int 200)
#guard both (.int .u8) (.int 200) == ("9003", "c8")
-- arrays / interfaces have no thrift type: `typeOf` answers 255, `ttOf` STRUCT
#eval both (w1 "1" (.arr 1 .bool)) (.struct (.cons (.list (.cons (.bool true) .nil)) .nil))
#guard (both (w1 "1" (.arr 1 .bool)) (.struct (.cons (.list (.cons (.bool true) .nil)) .nil))).1
        != (both (w1 "1" (.arr 1 .bool)) (.struct (.cons (.list (.cons (.bool true) .nil)) .nil))).2
-- ill-typed value: an int where a bool is expected
#eval both .bool (.int 1)
#guard both .bool (.int 1) == ("-", "00")      -- "-" is the empty byte string
-- enum field holding an integer outside int32: the model wraps, the specification does not
#eval both (w1 "1,enum" (.int .i32)) (.struct (.cons (.int 2147483648) .nil))
#guard (both (w1 "1,enum" (.int .i32)) (.struct (.cons (.int 2147483648) .nil))).1
        != (both (w1 "1,enum" (.int .i32)) (.struct (.cons (.int 2147483648) .nil))).2

/-- `encode_compact_eq_spec` under its explicit name as a PARTIAL statement. Besides the known classes (f32/f64:
`thriftCompactDoubleBE` / `thriftNegZeroDropped`; enum-tagged fields of a Go kind other than int32:
`thriftEnumFieldType`) the hypothesis `ok` excludes, and the statement is FALSE for (witnesses above): field ids ≤ 0,
duplicate field ids, the unsigned kind `u8` (and, without being false, the other unsigned kinds), arrays,
interfaces, ill-typed values, integers outside their kind in an enum field. All of these are rejected by the Go package
before any byte is written, or cannot be built in Go. -/
theorem encode_compact_eq_spec_partial (ty : Ty) (v : Val) (h : ok ty v = true) :
    Model.Thrift.encode .compact ty v = Spec.Thrift.encode .compact ty v :=
  encode_compact_eq_spec ty v h

/-! ## binary protocols (step 4)

NOT equal "modulo the type-code table" alone: the model's binary writer also ends a struct with THREE bytes
(`WriteField(Field{Type: STOP})` = type byte + i16 id) where the specification prescribes one zero byte. Both are part
of the known finding `thrift-binary-type-codes`. Modulo these two (`ThriftSpecBin`): `encB code stop` is the
specification's binary encoding with the table and the terminator as parameters (`encB_spec`, all inputs), and the
model is `encB cmpCode [0, 0, 0]` on `ok` (`encode_binary_eq_spec_mod`). -/
#eval (toHex (Model.Thrift.encode (.binary true) (.struct .nil) (.struct .nil)),
       toHex (Spec.Thrift.encode (.binary true) (.struct .nil) (.struct .nil)))
#guard (toHex (Model.Thrift.encode (.binary true) (.struct .nil) (.struct .nil)),
        toHex (Spec.Thrift.encode (.binary true) (.struct .nil) (.struct .nil))) == ("000000", "00")

/-- non-vacuity of `encode_binary_eq_spec_mod`, same instance -/
example (s : Bool) (a1 a2r a3 a4 a40 a41e a42 a43 a44 : String)
    (h1 : Spec.Thrift.tagOf a1 = some (1, false, false)) (h2 : Spec.Thrift.tagOf a2r = some (2, true, false))
    (h3 : Spec.Thrift.tagOf a3 = some (3, false, false)) (h4 : Spec.Thrift.tagOf a4 = some (4, false, false))
    (h40 : Spec.Thrift.tagOf a40 = some (40, false, false)) (h41 : Spec.Thrift.tagOf a41e = some (41, false, true))
    (h42 : Spec.Thrift.tagOf a42 = some (42, false, false)) (h43 : Spec.Thrift.tagOf a43 = some (43, false, false))
    (h44 : Spec.Thrift.tagOf a44 = some (44, false, false)) :
    Model.Thrift.encode (.binary s) (.struct (exFields a1 a2r a3 a4 a40 a41e a42 a43 a44)) (.struct exVals) =
      encB Spec.Thrift.cmpCode [0, 0, 0] (.struct (exFields a1 a2r a3 a4 a40 a41e a42 a43 a44)) (.struct exVals) :=
  encode_binary_eq_spec_mod s _ _ (ex_ok a1 a2r a3 a4 a40 a41e a42 a43 a44 h1 h2 h3 h4 h40 h41 h42 h43 h44)

#guard Model.Thrift.encode (.binary true) exTy (.struct exVals) == encB Spec.Thrift.cmpCode [0, 0, 0] exTy (.struct exVals)
#guard encB Spec.Thrift.binCode [0] exTy (.struct exVals) == Spec.Thrift.encode (.binary false) exTy (.struct exVals)
#guard Model.Thrift.encode (.binary true) exTy (.struct exVals) != Spec.Thrift.encode (.binary true) exTy (.struct exVals)

/-! ## axioms -/
#print axioms encode_compact_eq_spec
#print axioms encode_compact_eq_spec_partial
#print axioms encode_binary_eq_spec_mod
#print axioms encB_spec
#print axioms struct_compact
#print axioms wList_compact
#print axioms wMap_compact
#print axioms hdr_compact
#print axioms varint_eq_zz
#print axioms tyOK_noFloat
#print axioms tyOK_noWideEnum

end Enc.Lemmas.ThriftSpec
