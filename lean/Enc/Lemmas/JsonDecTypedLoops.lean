import Enc.Lemmas.JsonDecTypedMain
import Enc.Lemmas.JsonDecTypedFold
/-!
# C02, typed targets, part 6: the four loops of the type-directed decoders against the specification's productions

`sliceLoop` / `elementsSl` (with the stale tail of the backing array), `arrayLoop` / `elementsAr` (extra elements skipped,
missing ones zeroed), `mapLoop` / `membersMp` (merge), `structLoop` / `membersSt` (duplicate keys, unknown keys,
DisallowUnknownFields) — each under the induction hypothesis `TOk g` for the element / field types and the hypothesis for
the same loop at the smaller fuel.
-/
namespace Enc.Lemmas.JsonDecTypedLoops
open Enc Enc.Model.Json Enc.Model.Json.Typed Enc.Lemmas.JsonDecTyped Enc.Lemmas.JsonDecTypedPlain
open Enc.Lemmas.JsonDecTypedSpecU Enc.Lemmas.JsonDecTypedScalar Enc.Lemmas.JsonDecTypedMain
open Enc.Lemmas.JsonString Enc.Lemmas.JsonGrammar Enc.Lemmas.JsonValue Enc.Lemmas.JsonDecAnyBase Enc.Lemmas.JsonDecAnyAux
open Enc.Lemmas.JsonWs (skipSpaces_eq_ws)
open Enc.Lemmas.JsonDecAny (sep_eq sep_suffix' map_eq_some)
open Enc.Spec.Json (valueS elementsSl elementsAr membersMp membersSt lit ws value elements members number string consumed
  unquoteLit skipS fieldOf valueV)

/-! ### generic steps -/

/-- the specification's loop after an element that fails on both sides -/
theorem spec_fail {β : Type} {s : Spec.Json.SR JV} (k : JV → Bytes → Spec.Json.SR β) (G : JV → β × Bool × Bytes → β)
    (hs : okS s = none ∨ ∃ v r, s = some (v, false, r) ∧ dig r = true)
    (hk : ∀ v r, dig r = true → k v (ws r) = none) :
    okS (s.bind fun x => (k x.1 (ws x.2.2)).map fun y => (G x.1 y, x.2.1 || y.2.1, y.2.2)) = none := by
  rcases hs with hs | ⟨v, r, rfl, hd⟩
  · rcases okS_none_cases hs with rfl | ⟨v, r, rfl⟩
    · rfl
    · simp only [Option.bind_some]; exact okS_map_true _ _ _
  · simp only [Option.bind_some]; rw [hk v r hd]; rfl

/-- the rest of a loop after an element that succeeded on both sides -/
theorem relL_cont {α β : Type} {P : α → Bool} {Q : β → Bool} {L : TR α} {S : Spec.Json.SR α} (h : RelL P L S) (f : α → β)
    (hf : ∀ x, P x = true → Q (f x) = true) {M : TR β}
    (hok : ∀ x r, L = .ok x r → M = .ok (f x) r) (hfail : okM L = none → okM M = none) (b0 : Bool) (hb0 : b0 = false) :
    RelL Q M (S.map fun y => (f y.1, b0 || y.2.1, y.2.2)) := by
  subst hb0
  obtain ⟨h1, hp⟩ := h
  cases hS : okS S with
  | none =>
    have hm := hfail (h1.trans hS)
    refine relL_fail hm ?_
    rcases okS_none_cases hS with rfl | ⟨v, r, rfl⟩ <;> rfl
  | some x =>
    obtain ⟨v, r⟩ := x
    have hL := okM_some (h1.trans hS)
    rw [hok v r hL, okS_some hS]
    exact relL_ok (hf v (hp v r hL))

theorem relL_of_fail {α : Type} {P : α → Bool} {m : TR α} {s : Spec.Json.SR α} (h : RelL P m s) (hs : okS s = none) :
    okM m = none := h.1.trans hs

section
variable (fl : PFlags) (c : TFlags) (F : Nat)

/-! ### slices -/

def PP (p : JVs × JVs) : Bool := plains p.1 && plains p.2

def SLOk (g : Nat) : Prop :=
  ∀ dp f' e input bk s i, dp ≤ maxD → noPP e = true → plains bk = true → LB s (sizeT e) ≤ g → LB s (sizeT e) ≤ f' →
    3 * s.length ≤ F → QSound fl s →
    RelL PP (Typed.sliceLoop fl c F g dp e input bk s i) (elementsSl c f' (budget dp) e bk (ws s) (i == 0))

theorem elementsSl_dig (f d : Nat) (e : JT) (bk : JVs) {r : Bytes} (h : dig r = true) :
    elementsSl c f d e bk (ws r) false = none := by
  rw [ws_dig h]
  obtain ⟨x, t, rfl, hx⟩ := dig_cons h
  cases f with
  | zero => exact elementsSl_zero c d e bk _ _
  | succ f =>
    rw [elementsSl_succ_cons]
    simp [(digit_ne hx).1, (digit_ne hx).2.1]

theorem sliceLoop_step {g : Nat} (hT : TOk fl c F g) (hL : SLOk fl c F g) : SLOk fl c F (g + 1) := by
  intro dp f' e input bk s i hdp hpp hbk hg hf hF hq
  rw [Typed.sliceLoop]
  simp only [skipSpaces_eq_ws]
  cases hws : ws s with
  | nil => rw [elementsSl_nil]; exact relL_fail rfl rfl
  | cons c0 rest =>
    dsimp only
    unfold LB at hg hf
    obtain ⟨f'', rfl⟩ : ∃ f'', f' = f'' + 1 := ⟨f' - 1, by omega⟩
    rw [elementsSl_succ_cons]
    have hwsl : (c0 :: rest) <:+ s := hws ▸ ws_suffix s
    by_cases hc : c0 = 0x5d
    · subst hc
      simp only [beq_self_eq_true, if_true]
      exact relL_ok (by simp [PP, hbk, plains])
    · have hc' : (c0 == 0x5d) = false := by simpa using hc
      simp only [hc', Bool.false_eq_true, if_false]
      have hsep := sep_eq c0 rest i
      simp only [skipSpaces_eq_ws] at hsep
      rw [hsep]
      cases hb2 : (if (i == 0) = true then some (c0 :: rest) else (if (c0 == 0x2c) = true then some (ws rest) else none)) with
      | none => exact relL_fail rfl rfl
      | some b2 =>
        simp only [Option.bind_some]
        have hb2s : b2 <:+ s := (sep_suffix' hb2).trans hwsl
        have hb2l := hb2s.length_le
        have hslot : plain ((bk.head?).getD (zeroOf e)) = true := plain_headD bk _ hbk (plain_zero e)
        have E := elem_of_RelE (hT dp f'' e ((bk.head?).getD (zeroOf e)) b2 hdp hpp hslot (by unfold NB; omega)
          (by unfold NB; omega) (by omega) (hq.suffix hb2s))
        by_cases hcl : isClose b2 = true
        · simp only [hcl, if_true]
          have hm : okM (decodeInto fl c F g dp e ((bk.head?).getD (zeroOf e)) b2) = none := by
            cases E with
            | fail hm _ => exact hm
            | good v r hm hs _ => rw [valueS_close c hcl] at hs; cases hs
          rcases okM_none_cases hm with h | ⟨r, h⟩ | ⟨r, h⟩ <;> rw [h] <;> exact relL_fail (okM_elemError _ _ _ _ _) rfl
        · simp only [hcl, Bool.false_eq_true, if_false]
          cases E with
          | fail hm hs =>
            have hsf := spec_fail (fun _ b => elementsSl c f'' (budget dp) e bk.tail b false)
              (fun v y => (JVs.cons v y.1.1, y.1.2)) hs (fun _ r hd => elementsSl_dig c f'' (budget dp) e bk.tail hd)
            rcases okM_none_cases hm with h | ⟨r, h⟩ | ⟨r, h⟩ <;> rw [h] <;> exact relL_fail (okM_elemError _ _ _ _ _) hsf
          | good v r hm hs hpv =>
            rw [hm, hs]
            simp only [Option.bind_some]
            have hr := valueS_sfx c hs
            have hr1 : r <:+ s := hr.1.trans hb2s
            have hr2 : r.length < b2.length := hr.2
            have hi1 : ((i + 1) == 0) = false := by simp
            have IH2 := hL dp f'' e input bk.tail r (i + 1) hdp hpp (plains_tail bk hbk) (by unfold LB; omega)
              (by unfold LB; omega) (by omega) (hq.suffix hr1)
            rw [hi1] at IH2
            refine relL_cont IH2 (fun p => (JVs.cons v p.1, p.2)) ?_ ?_ ?_ false rfl
            · intro x hx
              simp only [PP, Bool.and_eq_true] at hx ⊢
              exact ⟨by simp [plains, hpv, hx.1], hx.2⟩
            · intro x r' h; obtain ⟨vs, st⟩ := x; rw [h]
            · intro h
              rcases okM_none_cases h with h | ⟨r, h⟩ | ⟨r, h⟩ <;> rw [h] <;> rfl

/-! ### arrays -/

/-- the element decoder failed: `elemError`, then the error falls through the loop -/
local macro "arr_elem_fail" hm:ident hS:term : tactic => `(tactic| (
  rcases okM_none_cases $hm with h | ⟨r, h⟩ | ⟨r, h⟩ <;> rw [h] <;> dsimp only <;>
  generalize hE : elemError (α := JV) (β := Option JV) _ _ _ _ _ = X <;>
  have hX : okM X = none := hE ▸ okM_elemError _ _ _ _ _ <;>
  rcases okM_none_cases hX with h2 | ⟨_, h2⟩ | ⟨_, h2⟩ <;> subst h2 <;> exact relL_fail rfl $hS))

/-- what both sides do after an element of an array document decoded into an array (`ov` = the decoded element, none when
the target has no slot left) -/
theorem arTail {g : Nat} (hL : ALOk fl c F g) (dp f'' : Nat) (e : JT) (input : Bytes) (rest0 : JVs) (s r : Bytes)
    (hdp : dp ≤ maxD) (hpp : noPP e = true) (hsl : plains rest0 = true) (hr : Sfx r s)
    (hg : LB s (sizeT e) ≤ g + 1) (hf : LB s (sizeT e) ≤ f'' + 1) (hF : 3 * s.length ≤ F) (hq : QSound fl s)
    (f : JVs → JVs) (hfp : ∀ x, plains x = true → plains (f x) = true) {M : TR JVs} (b0 : Bool) (hb0 : b0 = false)
    (hM : M = (match ws r with
      | [] => .syn
      | c0 :: rest => if c0 == 0x5d then .ok (f (JVs.replicate (zeroOf e) rest0.length)) rest
        else if c0 != 0x2c then .syn
        else mapOk f (Typed.arrayLoop fl c F g dp e input rest0 (ws rest)))) :
    RelL plains M ((elementsAr c (f'' + 1) (budget dp) e rest0 (ws r) false).map fun y => (f y.1, b0 || y.2.1, y.2.2)) := by
  subst hb0
  rw [hM]
  unfold LB at hg hf
  have hr2 : r.length < s.length := hr.2
  cases hw : ws r with
  | nil => rw [elementsAr_nil]; exact relL_fail rfl rfl
  | cons c1 rest1 =>
    dsimp only
    have hwl : (c1 :: rest1) <:+ r := hw ▸ ws_suffix r
    have hwl2 := hwl.length_le
    simp only [List.length_cons] at hwl2
    rw [elementsAr_succ_cons]
    by_cases hc : c1 = 0x5d
    · subst hc
      simp only [beq_self_eq_true, if_true, Option.map_some]
      exact relL_ok (hfp _ (plains_replicate (plain_zero e) _))
    · have hc' : (c1 == 0x5d) = false := by simpa using hc
      simp only [hc', Bool.false_eq_true, if_false]
      by_cases hcm : c1 = 0x2c
      · subst hcm
        simp only [bne_self_eq_false, Bool.false_eq_true, if_false, beq_self_eq_true, if_true, Option.bind_some]
        have hs1 : ws rest1 <:+ s := ((ws_suffix rest1).trans ((List.suffix_cons _ _).trans hwl)).trans hr.1
        have hl1 := (ws_suffix rest1).length_le
        have IH := hL dp f'' e input rest0 (ws rest1) hdp hpp hsl (by unfold LB; omega) (by unfold LB; omega) (by omega)
          (hq.suffix hs1)
        refine relL_cont IH f hfp ?_ ?_ false rfl
        · intro x r' h; rw [h]; rfl
        · intro h
          rcases okM_none_cases h with h | ⟨r, h⟩ | ⟨r, h⟩ <;> rw [h] <;> rfl
      · have hcm' : (c1 == 0x2c) = false := by simpa using hcm
        simp only [bne, hcm', Bool.not_false, if_true, Bool.false_eq_true, if_false, Option.bind_none, Option.map_none]
        exact relL_fail rfl rfl

theorem arrayLoop_step {g : Nat} (hT : TOk fl c F g) (hL : ALOk fl c F g) : ALOk fl c F (g + 1) := by
  intro dp f' e input sl b hdp hpp hsl hg hf hF hq
  have hg' := hg
  have hf' := hf
  unfold LB at hg hf
  obtain ⟨f'', rfl⟩ : ∃ f'', f' = f'' + 1 := ⟨f' - 1, by omega⟩
  rw [Typed.arrayLoop.eq_def]
  simp only [skipSpaces_eq_ws]
  unfold arStep
  cases sl with
  | nil =>
    dsimp only
    have hpv := parseValue_toOpt fl dp F (f'' + 1) b hdp hF (by omega) hq
    by_cases hcl : isClose b = true
    · simp only [hcl, if_true]
      rw [value_close hcl] at hpv
      cases hp : parseValue fl dp F b with
      | ok k r => rw [hp] at hpv; cases hpv
      | err x => exact relL_fail rfl rfl
    · simp only [hcl, Bool.false_eq_true, if_false]
      cases hp : parseValue fl dp F b with
      | err x =>
        rw [hp] at hpv; simp only [toOpt_err] at hpv
        rw [← hpv]; exact relL_fail rfl rfl
      | ok k r =>
        rw [hp] at hpv; simp only [toOpt_ok] at hpv
        rw [← hpv]
        simp only [Option.bind_some]
        have hr := value_sfx hpv.symm
        have hmapid : ∀ o : Spec.Json.SR JVs, o = o.map fun y => ((fun x => x) y.1, false || y.2.1, y.2.2) := by
          intro o; cases o <;> simp
        rw [hmapid (elementsAr c (f'' + 1) (budget dp) e JVs.nil (ws r) false)]
        refine arTail fl c F hL dp f'' e input .nil b r hdp hpp rfl hr hg' hf' hF hq (fun x => x) (fun _ h => h) false rfl ?_
        cases ws r with
        | nil => rfl
        | cons c0 rest =>
          dsimp only [JVs.tail, JVs.length, JVs.replicate]
          by_cases h1 : (c0 == 93) = true
          · simp only [h1, if_true]
          · by_cases h2 : (c0 != 44) = true
            · simp only [h1, h2, if_true, if_false]
            · simp only [h1, h2, if_false]
              cases Typed.arrayLoop fl c F g dp e input JVs.nil (ws rest) <;> rfl
  | cons slot rest0 =>
    dsimp only
    simp only [plains, Bool.and_eq_true] at hsl
    have E := elem_of_RelE (hT dp (f'' + 1) e slot b hdp hpp hsl.1 (by unfold NB; omega) (by unfold NB; omega) hF hq)
    by_cases hcl : isClose b = true
    · simp only [hcl, if_true]
      have hm : okM (decodeInto fl c F g dp e slot b) = none := by
        cases E with
        | fail hm _ => exact hm
        | good v r hm hs _ => rw [valueS_close c hcl] at hs; cases hs
      arr_elem_fail hm (rfl : okS (none : Spec.Json.SR JVs) = none)
    · simp only [hcl, Bool.false_eq_true, if_false]
      cases E with
      | fail hm hs =>
        have hsf := spec_fail (fun _ b => elementsAr c (f'' + 1) (budget dp) e rest0 b false)
          (fun v y => JVs.cons v y.1) hs (fun _ r hd => elementsAr_dig c (f'' + 1) (budget dp) e rest0 hd)
        arr_elem_fail hm hsf
      | good v r hm hs hpv =>
        rw [hm, hs]
        simp only [Option.bind_some]
        have hr := valueS_sfx c hs
        refine arTail fl c F hL dp f'' e input rest0 b r hdp hpp hsl.2 hr hg' hf' hF hq (fun x => JVs.cons v x)
          (fun x hx => by simp [plains, hpv, hx]) false rfl ?_
        cases ws r with
        | nil => rfl
        | cons c0 rest =>
          dsimp only [JVs.tail, JVs.length, JVs.replicate]
          by_cases h1 : (c0 == 93) = true
          · simp only [h1, if_true]
          · by_cases h2 : (c0 != 44) = true
            · simp only [h1, h2, if_true, if_false]
            · simp only [h1, h2, if_false]
              cases Typed.arrayLoop fl c F g dp e input rest0 (ws rest) <;> rfl


/-! ### maps -/

def MLOk (g : Nat) : Prop :=
  ∀ dp f' e input m s i, dp ≤ maxD → noPP e = true → plainMs m = true → LB s (sizeT e) ≤ g → LB s (sizeT e) ≤ f' →
    3 * s.length ≤ F → QSound fl s →
    RelL plainMs (Typed.mapLoop fl c F g dp e input m s i) (membersMp c f' (budget dp) e m (ws s) (i == 0))

theorem membersMp_dig (f d : Nat) (e : JT) (m : JMs) {r : Bytes} (h : dig r = true) :
    membersMp c f d e m (ws r) false = none := by
  rw [ws_dig h]
  obtain ⟨x, t, rfl, hx⟩ := dig_cons h
  cases f with
  | zero => exact membersMp_zero c d e m _ _
  | succ f =>
    rw [membersMp_succ_cons]
    simp [(digit_ne hx).2.2, (digit_ne hx).2.1]

theorem mapLoop_step {g : Nat} (hT : TOk fl c F g) (hL : MLOk fl c F g) : MLOk fl c F (g + 1) := by
  intro dp f' e input m s i hdp hpp hm0 hg hf hF hq
  rw [Typed.mapLoop]
  simp only [skipSpaces_eq_ws]
  cases hws : ws s with
  | nil => rw [membersMp_nil]; exact relL_fail rfl rfl
  | cons c0 rest =>
    dsimp only
    unfold LB at hg hf
    obtain ⟨f'', rfl⟩ : ∃ f'', f' = f'' + 1 := ⟨f' - 1, by omega⟩
    rw [membersMp_succ_cons]
    have hwsl : (c0 :: rest) <:+ s := hws ▸ ws_suffix s
    by_cases hc : c0 = 0x7d
    · subst hc
      simp only [beq_self_eq_true, if_true]
      exact relL_ok hm0
    · have hc' : (c0 == 0x7d) = false := by simpa using hc
      simp only [hc', Bool.false_eq_true, if_false]
      have hsep := sep_eq c0 rest i
      simp only [skipSpaces_eq_ws] at hsep
      rw [hsep]
      cases hb2 : (if (i == 0) = true then some (c0 :: rest) else (if (c0 == 0x2c) = true then some (ws rest) else none)) with
      | none => exact relL_fail rfl rfl
      | some b2 =>
        simp only [Option.bind_some]
        have hb2s : b2 <:+ s := (sep_suffix' hb2).trans hwsl
        have hb2l := hb2s.length_le
        have hqb2 : QSound fl b2 := hq.suffix hb2s
        rw [parseStringUnquote_spec fl b2 hqb2]
        cases hstr : string b2 with
        | none =>
          simp only [Option.map_none, Option.bind_none]
          by_cases hn : hasPrefix b2 nullLit = true
          · simp only [hn, if_true]; exact relL_fail rfl rfl
          · simp only [hn, Bool.false_eq_true, if_false]; exact relL_fail rfl rfl
        | some r2 =>
          obtain ⟨tq, rfl⟩ := string_head hstr
          simp only [hasPrefix_null_quote, Bool.false_eq_true, if_false, Option.map_some, Option.bind_some]
          have hr2 := string_sfx hstr
          cases hw2 : ws r2 with
          | nil => exact relL_fail rfl rfl
          | cons x r3 =>
            dsimp only [colonThenV]
            by_cases hx : x = 0x3a
            · subst hx
              simp only [bne_self_eq_false, Bool.false_eq_true, if_false, beq_self_eq_true, if_true]
              have hr3s : r3 <:+ r2 := by
                have : (0x3a :: r3) <:+ r2 := hw2 ▸ ws_suffix r2
                exact (List.suffix_cons _ _).trans this
              have hw3 : ws r3 <:+ s := (((ws_suffix r3).trans hr3s).trans hr2.1).trans hb2s
              have hw3l : (ws r3).length < (0x22 :: tq).length :=
                Nat.lt_of_le_of_lt ((ws_suffix r3).trans hr3s).length_le hr2.2
              have E := elem_of_RelE (hT dp f'' e (zeroOf e) (ws r3) hdp hpp (plain_zero e) (by unfold NB; omega)
                (by unfold NB; omega) (by omega) (hq.suffix hw3))
              cases E with
              | fail hm hs =>
                have hsf := spec_fail (fun v b => membersMp c f'' (budget dp) e
                    (m.insert (unquoteLit (consumed (0x22 :: tq) r2)) v) b false)
                  (fun _ y => y.1) hs (fun _ r hd => membersMp_dig c f'' (budget dp) e _ hd)
                rcases okM_none_cases hm with h | ⟨r, h⟩ | ⟨r, h⟩ <;> rw [h] <;> exact relL_fail (okM_elemError _ _ _ _ _) hsf
              | good v r hm hs hpv =>
                rw [hm, hs]
                simp only [Option.bind_some]
                have hr := valueS_sfx c hs
                have hr1 : r <:+ s := hr.1.trans hw3
                have hrl : r.length < (ws r3).length := hr.2
                have hi1 : ((i + 1) == 0) = false := by simp
                have IH2 := hL dp f'' e input (m.insert (unquoteLit (consumed (0x22 :: tq) r2)) v) r (i + 1) hdp hpp
                  (plainMs_insert _ _ hpv m hm0) (by unfold LB; omega) (by unfold LB; omega) (by omega) (hq.suffix hr1)
                rw [hi1] at IH2
                exact relL_cont IH2 (fun p => p) (fun _ h => h) (fun _ _ h => h) (fun h => h) false rfl
            · have hx' : (x == 0x3a) = false := by simpa using hx
              simp only [bne, hx', Bool.not_false, if_true, Bool.false_eq_true, if_false]
              exact relL_fail rfl rfl

/-! ### structs -/

def STOk (g : Nat) : Prop :=
  ∀ dp f' fs input vals s i, dp ≤ maxD → noPPs fs = true → plains vals = true → LB s (sizeFs fs) ≤ g → LB s (sizeFs fs) ≤ f' →
    3 * s.length ≤ F → QSound fl s →
    RelL plains (Typed.structLoop fl c F g dp fs input vals s i) (membersSt c f' (budget dp) fs vals (ws s) (i == 0))

theorem membersSt_dig (f d : Nat) (fs : JFs) (vals : JVs) {r : Bytes} (h : dig r = true) :
    membersSt c f d fs vals (ws r) false = none := by
  rw [ws_dig h]
  obtain ⟨x, t, rfl, hx⟩ := dig_cons h
  cases f with
  | zero => exact membersSt_zero c d fs vals _ _
  | succ f =>
    rw [membersSt_succ_cons]
    simp [(digit_ne hx).2.2, (digit_ne hx).2.1]

theorem okS_bind_map_true {α β : Type} (o : Option Bytes) (k : Bytes → Spec.Json.SR α) (g : α × Bool × Bytes → β) :
    okS (o.bind fun r4 => (k r4).map fun y => (g y, true || y.2.1, y.2.2)) = none := by
  cases o with
  | none => rfl
  | some r => simp only [Option.bind_some]; exact okS_map_true _ _ _

theorem structLoop_step {g : Nat} (hT : TOk fl c F g) (hL : STOk fl c F g) : STOk fl c F (g + 1) := by
  intro dp f' fs input vals s i hdp hpp hv0 hg hf hF hq
  rw [Typed.structLoop]
  simp only [skipSpaces_eq_ws]
  cases hws : ws s with
  | nil => rw [membersSt_nil]; exact relL_fail rfl rfl
  | cons c0 rest =>
    dsimp only
    unfold LB at hg hf
    obtain ⟨f'', rfl⟩ : ∃ f'', f' = f'' + 1 := ⟨f' - 1, by omega⟩
    rw [membersSt_succ_cons]
    have hwsl : (c0 :: rest) <:+ s := hws ▸ ws_suffix s
    by_cases hc : c0 = 0x7d
    · subst hc
      simp only [beq_self_eq_true, if_true]
      exact relL_ok hv0
    · have hc' : (c0 == 0x7d) = false := by simpa using hc
      simp only [hc', Bool.false_eq_true, if_false]
      have hsep := sep_eq c0 rest i
      simp only [skipSpaces_eq_ws] at hsep
      rw [hsep]
      cases hb2 : (if (i == 0) = true then some (c0 :: rest) else (if (c0 == 0x2c) = true then some (ws rest) else none)) with
      | none => exact relL_fail rfl rfl
      | some b2 =>
        simp only [Option.bind_some]
        have hb2s : b2 <:+ s := (sep_suffix' hb2).trans hwsl
        have hb2l := hb2s.length_le
        have hqb2 : QSound fl b2 := hq.suffix hb2s
        rw [parseStringUnquote_spec fl b2 hqb2]
        cases hstr : string b2 with
        | none =>
          simp only [Option.map_none, Option.bind_none]
          by_cases hn : hasPrefix b2 nullLit = true
          · simp only [hn, if_true]; exact relL_fail rfl rfl
          · simp only [hn, Bool.false_eq_true, if_false]; exact relL_fail rfl rfl
        | some r2 =>
          obtain ⟨tq, rfl⟩ := string_head hstr
          simp only [hasPrefix_null_quote, Bool.false_eq_true, if_false, Option.map_some, Option.bind_some]
          have hr2 := string_sfx hstr
          cases hw2 : ws r2 with
          | nil => exact relL_fail rfl rfl
          | cons x r3 =>
            dsimp only [colonThenV]
            by_cases hx : x = 0x3a
            · subst hx
              simp only [bne_self_eq_false, Bool.false_eq_true, if_false, beq_self_eq_true, if_true]
              have hr3s : r3 <:+ r2 := by
                have : (0x3a :: r3) <:+ r2 := hw2 ▸ ws_suffix r2
                exact (List.suffix_cons _ _).trans this
              have hw3 : ws r3 <:+ s := (((ws_suffix r3).trans hr3s).trans hr2.1).trans hb2s
              have hw3l : (ws r3).length < (0x22 :: tq).length :=
                Nat.lt_of_le_of_lt ((ws_suffix r3).trans hr3s).length_le hr2.2
              have hi1 : ((i + 1) == 0) = false := by simp
              rw [Enc.Lemmas.JsonDecTypedFold.fieldIndex_eq]
              cases hfo : fieldOf fs (unquoteLit (consumed (0x22 :: tq) r2)) with
              | none =>
                dsimp only
                cases hdu : c.disallowUnknown with
                | true =>
                  simp only [if_true]
                  exact relL_fail rfl (okS_bind_map_true _ _ _)
                | false =>
                  simp only [Bool.false_eq_true, if_false]
                  have hpv := parseValue_toOpt fl dp F f'' (ws r3) hdp (by omega) (by omega) (hq.suffix hw3)
                  cases hp : parseValue fl dp F (ws r3) with
                  | err x =>
                    rw [hp] at hpv; simp only [toOpt_err] at hpv
                    rw [← hpv]; exact relL_fail rfl rfl
                  | ok k r4 =>
                    rw [hp] at hpv; simp only [toOpt_ok] at hpv
                    rw [← hpv]
                    simp only [Option.bind_some]
                    have hr := value_sfx hpv.symm
                    have hr1 : r4 <:+ s := hr.1.trans hw3
                    have hrl : r4.length < (ws r3).length := hr.2
                    have IH2 := hL dp f'' fs input vals r4 (i + 1) hdp hpp hv0 (by unfold LB; omega) (by unfold LB; omega)
                      (by omega) (hq.suffix hr1)
                    rw [hi1] at IH2
                    exact relL_cont IH2 (fun p => p) (fun _ h => h) (fun _ _ h => h) (fun h => h) false rfl
              | some p =>
                obtain ⟨idx, ft⟩ := p
                dsimp only
                obtain ⟨hppf, hsz⟩ := Enc.Lemmas.JsonDecTypedFold.fieldOf_props hfo hpp
                have hslot : plain ((vals.get? idx).getD (zeroOf ft)) = true := plain_getD vals idx _ hv0 (plain_zero ft)
                have E := elem_of_RelE (hT dp f'' ft ((vals.get? idx).getD (zeroOf ft)) (ws r3) hdp hppf hslot
                  (by unfold NB; omega) (by unfold NB; omega) (by omega) (hq.suffix hw3))
                cases E with
                | fail hm hs =>
                  have hsf := spec_fail (fun v b => membersSt c f'' (budget dp) fs (vals.set idx v) b false)
                    (fun _ y => y.1) hs (fun _ r hd => membersSt_dig c f'' (budget dp) fs _ hd)
                  rcases okM_none_cases hm with h | ⟨r, h⟩ | ⟨r, h⟩ <;> rw [h] <;> exact relL_fail (okM_elemError _ _ _ _ _) hsf
                | good v r hm hs hpv =>
                  rw [hm, hs]
                  simp only [Option.bind_some]
                  have hr := valueS_sfx c hs
                  have hr1 : r <:+ s := hr.1.trans hw3
                  have hrl : r.length < (ws r3).length := hr.2
                  have IH2 := hL dp f'' fs input (vals.set idx v) r (i + 1) hdp hpp
                    (plains_set vals idx v hv0 hpv) (by unfold LB; omega) (by unfold LB; omega) (by omega) (hq.suffix hr1)
                  rw [hi1] at IH2
                  exact relL_cont IH2 (fun p => p) (fun _ h => h) (fun _ _ h => h) (fun h => h) false rfl
            · have hx' : (x == 0x3a) = false := by simpa using hx
              simp only [bne, hx', Bool.not_false, if_true, Bool.false_eq_true, if_false]
              exact relL_fail rfl rfl

end

end Enc.Lemmas.JsonDecTypedLoops
