import Enc.Model.Json.DecTyped
import Enc.Spec.Json.DecTypedSpec
import Enc.Lemmas.JsonDecAnyTop
/-!
# C02, typed targets, part 1: facts that hold by unfolding the model / the specification

`null` (no-op for bool, numbers, strings, arrays, structs; nil for slices, maps, pointers), pointer reuse / allocation,
slice reset (only the backing array matters), error helpers never succeed.
-/
namespace Enc.Lemmas.JsonDecTyped
open Enc Enc.Model.Json Enc.Model.Json.Typed

/-- the success part of a model result -/
def okM {α : Type} : TR α → Option (α × Bytes)
  | .ok v r => some (v, r)
  | _ => none

/-- the success part of a specification result: a value, no saved error -/
def okS {α : Type} : Spec.Json.SR α → Option (α × Bytes)
  | some (v, false, r) => some (v, r)
  | _ => none

/-- the success part of `Unmarshal` -/
def okU : UR → Option JV
  | .ok v => some v
  | _ => none

theorem okM_inputError {α : Type} (fl : PFlags) (F dp : Nat) (b : Bytes) : okM (inputErrorT (α := α) fl F dp b) = none := by
  unfold inputErrorT
  split
  · rfl
  · split <;> rfl

theorem okM_elemError {α β : Type} (fl : PFlags) (F dp : Nat) (input : Bytes) (e : TR α) :
    okM (elemError (β := β) fl F dp input e) = none := by
  unfold elemError
  split
  · rfl
  · split <;> rfl

theorem okM_intFloatTail {α : Type} (b : Bytes) (n : Nat) : okM ((intFloatTail (α := α) b n).getD .syn) = none := by
  unfold intFloatTail
  split
  · split
    · split <;> rfl
    · rfl
  · rfl

theorem okM_parseIntErr {α : Type} (fl : PFlags) (F dp : Nat) (b : Bytes) : okM (parseIntErr (α := α) fl F dp b) = none := by
  unfold parseIntErr
  repeat' (first | rfl | exact okM_inputError _ _ _ _ | exact okM_intFloatTail _ _ | split | dsimp only)

theorem okM_parseUintErr {α : Type} (fl : PFlags) (F dp : Nat) (b : Bytes) : okM (parseUintErr (α := α) fl F dp b) = none := by
  unfold parseUintErr
  repeat' (first | rfl | exact okM_inputError _ _ _ _ | exact okM_intFloatTail _ _ | split | dsimp only)

/-! ### `null` -/

theorem hasPrefix_null (rest : Bytes) : hasPrefix (nullLit ++ rest) nullLit = true := by
  simp [hasPrefix, nullLit, List.isPrefixOf]

theorem drop_null (rest : Bytes) : (nullLit ++ rest).drop 4 = rest := by simp [nullLit]

/-- the kinds for which `null` leaves the target alone -/
def nullNoop : JT → Bool
  | .bool | .int _ | .float | .str | .array _ _ | .strct _ => true
  | _ => false

/-- **null is a no-op** (model): for bool, every integer width, float64, string, arrays and structs, whatever the target
holds, at any depth, with any flags -/
theorem model_null_noop (fl : PFlags) (c : TFlags) (F g dp : Nat) (t : JT) (cur : JV) (rest : Bytes) (ht : nullNoop t = true) :
    decodeInto fl c F (g + 2) dp t cur (nullLit ++ rest) = .ok cur rest := by
  cases t <;> simp only [nullNoop] at ht <;> try (exact absurd ht (by decide))
  · simp [decodeInto, decodeBool, hasPrefix, nullLit, trueLit, falseLit, List.isPrefixOf]
  · simp [decodeInto, decodeInt, hasPrefix_null, drop_null]
  · simp [decodeInto, decodeFloat, hasPrefix_null, drop_null]
  · simp [decodeInto, decodeStr, hasPrefix_null, drop_null]
  · rw [decodeInto, decodeArray.eq_def]; simp [hasPrefix_null, drop_null]
  · rw [decodeInto, decodeStruct.eq_def]; simp [hasPrefix_null, drop_null]

/-- `null` sets a slice and a map to nil (model) -/
theorem model_null_slice (fl : PFlags) (c : TFlags) (F g dp : Nat) (e : JT) (cur : JV) (rest : Bytes) :
    decodeInto fl c F (g + 2) dp (.slice e) cur (nullLit ++ rest) = .ok (.slice true .nil .nil) rest := by
  by_cases h : e.isU8 = true
  · rw [decodeInto]; simp only [h, if_true]; rw [decodeBytes.eq_def]; simp [hasPrefix_null, drop_null]
  · rw [decodeInto]; simp only [h, if_false]; rw [Typed.decodeSlice.eq_def]; simp [hasPrefix_null, drop_null]

theorem model_null_map (fl : PFlags) (c : TFlags) (F g dp : Nat) (e : JT) (cur : JV) (rest : Bytes) :
    decodeInto fl c F (g + 2) dp (.mapS e) cur (nullLit ++ rest) = .ok (.map true .nil) rest := by
  rw [decodeInto, decodeMap.eq_def]; simp [hasPrefix_null, drop_null]

/-- `null` sets a pointer to nil (model) — unless it is a NON-NIL pointer TO A POINTER (finding jsonNullNestedPointer) -/
theorem model_null_ptr (fl : PFlags) (c : TFlags) (F g dp : Nat) (e : JT) (cur : JV) (rest : Bytes)
    (h : e.isPtr = false ∨ cur = .nilptr) :
    decodeInto fl c F (g + 2) dp (.ptr e) cur (nullLit ++ rest) = .ok .nilptr rest := by
  rcases h with h | h
  · cases cur <;> simp [decodeInto, decodePointer, hasPrefix_null, drop_null, h]
  · subst h; simp [decodeInto, decodePointer, hasPrefix_null, drop_null]

/-! ### pointers: a non-nil pointer is reused, a nil pointer allocated -/

def mapOk {α β : Type} (f : α → β) : TR α → TR β
  | .ok v r => .ok (f v) r
  | .syn => .syn
  | .ty r => .ty r
  | .oth r => .oth r

/-- **pointer reused** (model): decoding anything but `null` into a non-nil `*T` decodes into the pointee and keeps the
pointer (same `old` bit: the same address) -/
theorem model_ptr_reused (fl : PFlags) (c : TFlags) (F g dp : Nat) (e : JT) (old : Bool) (v : JV) (b : Bytes)
    (hn : hasPrefix b nullLit = false) :
    decodeInto fl c F (g + 2) dp (.ptr e) (.ptr old v) b = mapOk (JV.ptr old) (decodeInto fl c F g dp e v b) := by
  simp only [decodeInto, decodePointer, hn, Bool.false_and, Bool.false_eq_true, if_false]
  cases decodeInto fl c F g dp e v b <;> rfl

/-- **nil pointer allocated** (model): `reflect.New(T)`, then the pointee is decoded from its zero value; the pointer is new -/
theorem model_ptr_alloc (fl : PFlags) (c : TFlags) (F g dp : Nat) (e : JT) (b : Bytes)
    (hn : hasPrefix b nullLit = false) :
    decodeInto fl c F (g + 2) dp (.ptr e) .nilptr b = mapOk (JV.ptr false) (decodeInto fl c F g dp e (zeroOf e) b) := by
  simp only [decodeInto, decodePointer, hn, Bool.false_eq_true, if_false]
  cases decodeInto fl c F g dp e (zeroOf e) b <;> rfl

/-- **the known deviation**: `null` onto a non-nil pointer to a pointer is passed down to the inner pointer -/
theorem model_null_ptrptr (fl : PFlags) (c : TFlags) (F g dp : Nat) (e : JT) (old : Bool) (v : JV) (rest : Bytes) :
    decodeInto fl c F (g + 2) dp (.ptr (.ptr e)) (.ptr old v) (nullLit ++ rest) =
      mapOk (JV.ptr old) (decodeInto fl c F g dp (.ptr e) v (nullLit ++ rest)) := by
  simp only [decodeInto, decodePointer, JT.isPtr, Bool.not_true, Bool.and_false, Bool.false_eq_true, if_false]
  cases decodeInto fl c F g dp (.ptr e) v (nullLit ++ rest) <;> rfl

/-! ### slices: reset to length 0 over the same backing array -/

theorem append_nil : (l : JVs) → l.append .nil = l
  | .nil => rfl
  | .cons v r => by simp [JVs.append, append_nil r]

/-- decodeSlice / decodeBytes look at the target only through its backing array -/
theorem backing_only (fl : PFlags) (c : TFlags) (F : Nat) (g : Nat) :
    (∀ dp e cur cur' b, cur.sliceBacking = cur'.sliceBacking →
      Typed.decodeSlice fl c F g dp e cur b = Typed.decodeSlice fl c F g dp e cur' b) ∧
    (∀ dp cur cur' b, cur.sliceBacking = cur'.sliceBacking →
      decodeBytes fl c F g dp cur b = decodeBytes fl c F g dp cur' b) := by
  induction g with
  | zero =>
    refine ⟨?_, ?_⟩
    · intro dp e cur cur' b _; rw [Typed.decodeSlice.eq_def, Typed.decodeSlice.eq_def]
    · intro dp cur cur' b _; rw [decodeBytes.eq_def, decodeBytes.eq_def]
  | succ g ih =>
    refine ⟨?_, ?_⟩
    · intro dp e cur cur' b h
      rw [Typed.decodeSlice.eq_def, Typed.decodeSlice.eq_def]
      simp only [h, ih.2 dp cur cur' b h]
    · intro dp cur cur' b h
      rw [decodeBytes.eq_def, decodeBytes.eq_def]
      simp only [ih.1 dp (.int .u8) cur cur' b h]

/-- **slice reset** (model): only the backing array (visible elements followed by the stale ones) matters, not where the
old length was, nor whether the slice was nil -/
theorem model_slice_reset (fl : PFlags) (c : TFlags) (F g dp : Nat) (e : JT) (n : Bool) (vs st : JVs) (b : Bytes) :
    decodeInto fl c F g dp (.slice e) (.slice n vs st) b =
      decodeInto fl c F g dp (.slice e) (.slice false (vs.append st) .nil) b := by
  have hb : (JV.slice n vs st).sliceBacking = (JV.slice false (vs.append st) .nil).sliceBacking := by
    simp [JV.sliceBacking, append_nil]
  cases g with
  | zero => rw [decodeInto, decodeInto]
  | succ g =>
    rw [decodeInto, decodeInto]
    simp only [(backing_only fl c F g).1 dp e _ _ b hb, (backing_only fl c F g).2 dp _ _ b hb]

#print axioms model_null_noop
#print axioms model_ptr_reused
#print axioms model_ptr_alloc
#print axioms model_null_ptrptr
#print axioms model_slice_reset

end Enc.Lemmas.JsonDecTyped
