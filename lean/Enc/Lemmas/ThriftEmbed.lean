import Enc.Model.ThriftEmbed
/-!
Embedded structs of /repo/thrift are transparent: the encoder with flattening (`encodeE`) writes what the plain encoder
writes for the flat struct; the field table is the one of the flat struct with the index path in place of the position.
-/
namespace Enc.Lemmas.ThriftEmbed
open Enc Enc.Model.Thrift

/-! ## the per-field part in terms of `tagOf` / `recOf` -/
theorem fieldRecs_cons (p : Proto) (n tag : String) (e : Bool) (t : Ty) (rest : Fields) (x : Val) (vs : Vals) :
    fieldRecs p (.cons n tag e t rest) (.cons x vs) =
      match tagOf tag with
      | none => fieldRecs p rest vs
      | some (id, req, en) =>
        match recOf p { name := n, tag := tag, ty := t, index := [], id := id, required := req, enum := en } x with
        | none => fieldRecs p rest vs
        | some r => r :: fieldRecs p rest vs := by
  simp only [fieldRecs, tagOf, recOf]
  cases tagValue tag with
  | none => rfl
  | some v =>
    simp only
    by_cases hv : (v == "") = true
    · simp [hv]
    · simp only [hv, Bool.false_eq_true, ↓reduceIte]
      cases ((v.splitOn ",").headD "").toInt? with
      | none => rfl
      | some id =>
        simp only
        generalize ((v.splitOn ",").drop 1).contains "required" = r
        have fin : ∀ (b : Bool) (A B : List FieldRec) (C : FieldRec),
            (if b = true then A else if (!r && isZeroAt t x) = true then A else C :: B) =
            (match (if b = true then none else if (!r && isZeroAt t x) = true then none else some C) with
              | none => A | some r => r :: B) := by
          intro b A B C; cases b <;> cases r <;> cases isZeroAt t x <;> rfl
        cases t with
        | ptr t' => cases x <;> exact fin _ _ _ _
        | _ => exact fin _ _ _ _

/-! ## every flattened field carries the parse of its own tag -/
def TagOK (ff : FlatField) : Prop := tagOf ff.tag = some (ff.id, ff.required, ff.enum)

mutual
theorem flattenEmb_tagOK : (t : Ty) → (idx : List Nat) → (l : List FlatField) → flattenEmb t idx = some l →
    ∀ ff ∈ l, TagOK ff
  | .ptr t, idx, l, h => by rw [flattenEmb] at h; exact flattenEmb_tagOK t idx l h
  | .named _ t, idx, l, h => by rw [flattenEmb] at h; exact flattenEmb_tagOK t idx l h
  | .struct fs, idx, l, h => by
    rw [flattenEmb] at h; cases h; exact flatten_tagOK fs idx 0
  | .bool, _, _, h | .int _, _, _, h | .f32, _, _, h | .f64, _, _, h | .str, _, _, h | .bytes, _, _, h | .any, _, _, h
  | .arr _ _, _, _, h | .slice _, _, _, h | .map _ _, _, _, h => by simp [flattenEmb] at h
theorem flatten_tagOK : (fs : Fields) → (idx : List Nat) → (i : Nat) → ∀ ff ∈ flatten fs idx i, TagOK ff
  | .nil, _, _ => by simp [flatten]
  | .cons name tag emb t rest, idx, i => by
    have ih := flatten_tagOK rest idx (i + 1)
    rw [flatten]
    simp only
    split
    · exact ih
    · split
      · next l hl =>
        intro ff hff
        rcases List.mem_append.mp hff with h | h
        · cases emb with
          | false => simp at hl
          | true => exact flattenEmb_tagOK t _ l (by simpa using hl) ff h
        · exact ih ff h
      · split
        · exact ih
        · next id req en hp =>
          intro ff hff
          rcases List.mem_cons.mp hff with h | h
          · subst h; exact hp
          · exact ih ff h
end

/-! ## the encoder -/
theorem fieldRecs_flat (p : Proto) (root : Val) : ∀ (ffs : List FlatField), (∀ ff ∈ ffs, TagOK ff) →
    (∀ ff ∈ ffs, walk root ff.index = none → ff.required = false ∧ isZeroAt ff.ty (zeroOf ff.ty) = true) →
    fieldRecs p (fieldsOf ffs) (flatValsOf ffs root) = fieldRecsE p ffs root
  | [], _, _ => by simp [fieldsOf, flatValsOf, fieldRecsE, Vals.ofList, fieldRecs]
  | ff :: r, ht, hz => by
    have ih := fieldRecs_flat p root r (fun f hf => ht f (List.mem_cons_of_mem _ hf))
      (fun f hf => hz f (List.mem_cons_of_mem _ hf))
    have h1 : tagOf ff.tag = some (ff.id, ff.required, ff.enum) := ht ff (List.mem_cons_self ..)
    have hz1 := hz ff (List.mem_cons_self ..)
    simp only [flatValsOf] at ih
    simp only [fieldsOf, flatValsOf, List.map_cons, Vals.ofList, fieldRecs_cons, h1, ih, fieldRecsE, List.filterMap_cons]
    have hc : ∀ x, recOf p ⟨ff.name, ff.tag, ff.ty, [], ff.id, ff.required, ff.enum⟩ x = recOf p ff x := fun _ => rfl
    rw [hc]
    cases hw : walk root ff.index with
    | some x => simp only [flatVal, hw, Option.getD_some, Option.bind_some]; cases recOf p ff x <;> rfl
    | none =>
      obtain ⟨hr, hzz⟩ := hz1 hw
      have : recOf p ff (zeroOf ff.ty) = none := by
        simp only [recOf, hr, hzz]
        split <;> simp
      simp [flatVal, hw, this]

theorem transparent_iff (fs : Fields) (vs : Vals) (h : Transparent fs vs = true) :
    ∀ ff ∈ flatten fs [] 0, walk (.struct vs) ff.index = none →
      ff.required = false ∧ isZeroAt ff.ty (zeroOf ff.ty) = true := by
  intro ff hff hw
  have := (List.all_eq_true.mp h) ff hff
  simpa [hw] using this

/-- **Embedding is transparent for the encoder**: the encoder that walks the index paths of the flattened fields writes,
for the struct with embedded fields, exactly what the plain struct encoder writes for the flat struct type on the values
gathered along the paths — for every descriptor, every value and every protocol, provided no REQUIRED field sits behind
a nil embedded pointer (`Transparent`; see `required_behind_nil_not_transparent`). -/
theorem embedded_eq_flat (p : Proto) (fs : Fields) (vs : Vals) (h : Transparent fs vs = true) :
    encodeE p (.struct fs) (.struct vs) = encode p (.struct (flatFields fs)) (.struct (flatVals fs vs)) := by
  rw [encodeE, encode]
  simp only [fieldDescsE, flatFields, flatVals]
  rw [fieldRecs_flat p (.struct vs) (flatten fs [] 0) (flatten_tagOK fs [] 0) (transparent_iff fs vs h)]

/-! ## the field table: ids, order, required / enum flags and types are those of the flat struct -/
/-- the descriptors `fieldDescs` computes for a flat struct whose k-th field is the k-th flattened field -/
def descsFrom : List FlatField → Nat → List FieldDesc
  | [], _ => []
  | ff :: r, k => { pos := k, id := ff.id, required := ff.required, enum := ff.enum, ty := ff.ty } :: descsFrom r (k + 1)

theorem fieldDescs_go_fieldsOf : ∀ (ffs : List FlatField) (k : Nat), (∀ ff ∈ ffs, TagOK ff) →
    fieldDescs.go (fieldsOf ffs) k = descsFrom ffs k
  | [], _, _ => by simp [fieldsOf, fieldDescs.go, descsFrom]
  | ff :: r, k, ht => by
    have ih := fieldDescs_go_fieldsOf r (k + 1) (fun f hf => ht f (List.mem_cons_of_mem _ hf))
    have h1 : tagOf ff.tag = some (ff.id, ff.required, ff.enum) := ht ff (List.mem_cons_self ..)
    simp only [fieldsOf, fieldDescs.go, descsFrom, ih]
    simp only [tagOf] at h1
    cases hv : tagValue ff.tag with
    | none => simp [hv] at h1
    | some v =>
      simp only [hv] at h1 ⊢
      by_cases hv' : (v == "") = true
      · simp [hv'] at h1
      · simp only [hv', Bool.false_eq_true, ↓reduceIte] at h1 ⊢
        revert h1
        cases ((v.splitOn ",").headD "").toInt? with
        | none => intro h1; simp at h1
        | some id =>
          intro h1
          simp only [Option.some.injEq, Prod.mk.injEq] at h1
          obtain ⟨a, b, c⟩ := h1
          simp only [a, b, c]

/-- **The field table of a struct with embedded fields is the field table of the flat struct**: same ids, same order,
same required / enum flags, same types; the k-th entry is reached by the index path `(fieldDescsE fs)[k].index` in place of
the position k. -/
theorem fieldDescs_flat (fs : Fields) : fieldDescs (flatFields fs) = descsFrom (fieldDescsE fs) 0 := by
  rw [fieldDescs, flatFields, fieldDescsE]
  exact fieldDescs_go_fieldsOf _ 0 (flatten_tagOK fs [] 0)

/-! ## index paths (the model with immutable paths): every emitted path is prefix ++ [j] ++ …, j ≥ the loop variable -/
mutual
theorem flattenEmb_index : (t : Ty) → (idx : List Nat) → (l : List FlatField) → flattenEmb t idx = some l →
    ∀ ff ∈ l, ∃ j rest, ff.index = idx ++ j :: rest
  | .ptr t, idx, l, h => by rw [flattenEmb] at h; exact flattenEmb_index t idx l h
  | .named _ t, idx, l, h => by rw [flattenEmb] at h; exact flattenEmb_index t idx l h
  | .struct fs, idx, l, h => by
    rw [flattenEmb] at h; cases h
    intro ff hff
    obtain ⟨j, rest, _, h⟩ := flatten_index fs idx 0 ff hff
    exact ⟨j, rest, h⟩
  | .bool, _, _, h | .int _, _, _, h | .f32, _, _, h | .f64, _, _, h | .str, _, _, h | .bytes, _, _, h | .any, _, _, h
  | .arr _ _, _, _, h | .slice _, _, _, h | .map _ _, _, _, h => by simp [flattenEmb] at h
theorem flatten_index : (fs : Fields) → (idx : List Nat) → (i : Nat) →
    ∀ ff ∈ flatten fs idx i, ∃ j rest, i ≤ j ∧ ff.index = idx ++ j :: rest
  | .nil, _, _ => by simp [flatten]
  | .cons name tag emb t rest, idx, i => by
    have ih : ∀ ff ∈ flatten rest idx (i + 1), ∃ j rest, i ≤ j ∧ ff.index = idx ++ j :: rest := by
      intro ff hff
      obtain ⟨j, r, hj, h⟩ := flatten_index rest idx (i + 1) ff hff
      exact ⟨j, r, by omega, h⟩
    rw [flatten]
    simp only
    split
    · exact ih
    · split
      · next l hl =>
        intro ff hff
        rcases List.mem_append.mp hff with h | h
        · cases emb with
          | false => simp at hl
          | true =>
            obtain ⟨j, r, h⟩ := flattenEmb_index t _ l (by simpa using hl) ff h
            exact ⟨i, j :: r, Nat.le_refl _, by simp [h]⟩
        · exact ih ff h
      · split
        · exact ih
        · intro ff hff
          rcases List.mem_cons.mp hff with h | h
          · subst h; exact ⟨i, [], Nat.le_refl _, rfl⟩
          · exact ih ff h
end

/-- **Index paths are independent of the siblings** (immutable-path reading of `append(index, i)[:len:len]`): the fields
emitted for the i-th member of a struct — the member itself or what is promoted through it — carry `prefix ++ [i] ++ …`,
whatever members follow: the flattening of `cons f rest` is the flattening of `cons f nil` followed by that of `rest`. -/
theorem index_paths_independent (name tag : String) (emb : Bool) (t : Ty) (rest : Fields) (idx : List Nat) (i : Nat) :
    flatten (.cons name tag emb t rest) idx i = flatten (.cons name tag emb t .nil) idx i ++ flatten rest idx (i + 1) ∧
    ∀ ff ∈ flatten (.cons name tag emb t .nil) idx i, ∃ r, ff.index = idx ++ i :: r := by
  constructor
  · rw [flatten, flatten]
    simp only [flatten]
    split
    · rfl
    · split
      · simp
      · split <;> simp
  · intro ff hff
    rw [flatten] at hff
    simp only [flatten] at hff
    split at hff
    · simp at hff
    · split at hff
      · next l hl =>
        simp only [List.append_nil] at hff
        cases emb with
        | false => simp at hl
        | true =>
          obtain ⟨j, r, h⟩ := flattenEmb_index t _ l (by simpa using hl) ff hff
          exact ⟨j :: r, by simp [h]⟩
      · split at hff
        · simp at hff
        · simp only [List.mem_singleton] at hff; subst hff; exact ⟨[], rfl⟩

/-! ## the index slices: the negative witness for the code before the fix -/
/-- a struct embedded three deep with two tagged fields at the deepest level (`type T struct{E1}`, `type E1 struct{E2}`,
`type E2 struct{E3}`, `type E3 struct{ n1 ty1 `t1`; n2 ty2 `t2` }`) -/
def deep3 (n1 t1 n2 t2 : String) (ty1 ty2 : Ty) : Fields :=
  .cons "E1" "" true (.struct (.cons "E2" "" true (.struct (.cons "E3" "" true
    (.struct (.cons n1 t1 false ty1 (.cons n2 t2 false ty2 .nil))) .nil)) .nil)) .nil

/-- **Without the clipping `fieldIndex[:len:len]` two siblings get the SAME index path**: the path of the struct three
levels down has length 3 in a backing array of capacity 4 (append grows 1, 2, 4), so `append(index, 0)` and
`append(index, 1)` write the same array cell and the first field's path reads `[0,0,0,1]` once the second has been
visited. With the clipping (the code as written) the two paths are `[0,0,0,0]` and `[0,0,0,1]`. For every pair of
exported, tagged fields of any types. -/
theorem aliased_siblings_share_path (n1 t1 n2 t2 : String) (ty1 ty2 : Ty)
    (e1 : isExported n1 = true) (e2 : isExported n2 = true)
    (h1 : (tagOf t1).isSome = true) (h2 : (tagOf t2).isSome = true) :
    flattenAliased (deep3 n1 t1 n2 t2 ty1 ty2) = [(n1, [0, 0, 0, 1]), (n2, [0, 0, 0, 1])] ∧
    flattenClipped (deep3 n1 t1 n2 t2 ty1 ty2) = [(n1, [0, 0, 0, 0]), (n2, [0, 0, 0, 1])] := by
  obtain ⟨x1, hx1⟩ := Option.isSome_iff_exists.mp h1
  obtain ⟨x2, hx2⟩ := Option.isSome_iff_exists.mp h2
  constructor <;>
  simp [flattenAliased, flattenClipped, pathsS, deep3, flattenS, flattenEmbS, e1, e2, hx1, hx2, goAppend, GoSlice.nil,
    Heap.empty, growCap, Heap.read, GoSlice.clip]

/-! ## what is NOT transparent: a required field behind a nil embedded pointer -/
/-- `type T struct{ *R }`, `type R struct{ n int32 `thrift:"<id>,required"` }`, value `T{R: nil}`: the encoder leaves the
loop iteration at the nil pointer (`continue encodeFields`) BEFORE it tests `required`, so nothing but the stop field is
written; the flat struct `struct{ n int32 required }` writes the field (and the decoder, which does check `required`, rejects
the bytes written for `T{}`: see the `#guard` below). -/
theorem required_behind_nil_skipped (p : Proto) (n t : String) (id : Int) (he : isExported n = true)
    (ht : tagOf t = some (id, true, false)) :
    let fs := Fields.cons "R" "" true (.ptr (.struct (.cons n t false (.int .i32) .nil))) .nil
    encodeE p (.struct fs) (.struct (.cons .nil .nil)) = wStopField p ∧ Transparent fs (.cons .nil .nil) = false := by
  have hw : walk (.struct (.cons .nil .nil)) [0, 0] = none := rfl
  simp [encodeE, fieldDescsE, flatten, flattenEmb, he, ht, fieldRecsE, hw, sortRecs, emitFields, Transparent]

/-! ## non-vacuity on the shapes of harness/thriftemb.go (tags are strings: `decide` cannot evaluate `String.splitOn`,
hence `#guard`, evaluated at build time, as in ThriftUnionWitness.lean) -/
namespace Witness
def tg (s : String) : String := "thrift:\"" ++ s ++ "\""
def mk (l : List Val) : Vals := Vals.ofList l
def TE4 : Fields := .cons "A" (tg "11") false (.int .i32) <| .cons "B" (tg "12") false .str <| .cons "C" (tg "13") false .f64 .nil
def TE3 : Fields := .cons "TE4" "" true (.named "TE4" (.struct TE4)) <| .cons "D" (tg "21") false (.int .i64) .nil
def TE2 : Fields := .cons "TE3" "" true (.named "TE3" (.struct TE3)) <| .cons "E" (tg "22") false (.slice (.int .i32)) <|
  .cons "G" (tg "23") false .bool .nil
def TE1 : Fields := .cons "H" (tg "1") false .str <| .cons "TE2" "" true (.named "TE2" (.struct TE2)) <|
  .cons "I" (tg "30") false (.int .i16) .nil
def TP3 : Fields := .cons "TE4" "" true (.ptr (.named "TE4" (.struct TE4))) <| .cons "D" (tg "21") false (.int .i64) .nil
def TP2 : Fields := .cons "TP3" "" true (.named "TP3" (.struct TP3)) <| .cons "E" (tg "22") false (.slice (.int .i32)) <|
  .cons "G" (tg "23") false .bool .nil
def TP1 : Fields := .cons "H" (tg "1") false .str <| .cons "TP2" "" true (.ptr (.named "TP2" (.struct TP2))) <|
  .cons "I" (tg "30") false (.int .i16) .nil
def TS1 : Fields := .cons "TS0" "" true (.named "TS0" (.struct (.cons "Y" (tg "1") false .str .nil))) <|
  .cons "Z" (tg "2") false (.int .i32) .nil
def TW5 : Fields := .cons "P" (tg "40") false (.int .i32) <| .cons "Q" (tg "41") false (.int .i64) <| .cons "R" (tg "42") false .str <|
  .cons "S" (tg "43") false (.slice .str) <| .cons "T" (tg "44") false (.map .str (.int .i32)) <| .cons "U" (tg "45") false .f64 .nil
def TW1 : Fields :=
  .cons "TW2" "" true (.named "TW2" (.struct (.cons "TW3" "" true (.named "TW3" (.struct (.cons "TW4" "" true (.named "TW4"
    (.struct (.cons "TW5" "" true (.named "TW5" (.struct TW5)) .nil))) .nil))) .nil))) <| .cons "V" (tg "3") false .bool .nil
def TFlat : Fields := .cons "H" (tg "1") false .str <| .cons "A" (tg "11") false (.int .i32) <| .cons "B" (tg "12") false .str <|
  .cons "C" (tg "13") false .f64 <| .cons "D" (tg "21") false (.int .i64) <| .cons "E" (tg "22") false (.slice (.int .i32)) <|
  .cons "G" (tg "23") false .bool <| .cons "I" (tg "30") false (.int .i16) .nil

def fieldsEq : Fields → Fields → Bool
  | .nil, .nil => true
  | .cons n t e _ r, .cons n' t' e' _ r' => n == n' && t == t' && e == e' && fieldsEq r r'
  | _, _ => false
def paths (fs : Fields) : List (String × List Nat) := (flatten fs [] 0).map fun ff => (ff.name, ff.index)
def protos : List Proto := [.compact, .binary true, .binary false]

-- the flat type of TE1 and of TP1 is TFlat (names, tags, order; the types are the same terms)
#guard fieldsEq (flatFields TE1) TFlat && fieldsEq (flatFields TP1) TFlat
#guard (fieldDescsE TE1).map (·.id) == [1, 11, 12, 13, 21, 22, 23, 30]
#guard paths TE1 == [("H", [0]), ("A", [1, 0, 0, 0]), ("B", [1, 0, 0, 1]), ("C", [1, 0, 0, 2]), ("D", [1, 0, 1]), ("E", [1, 1]),
  ("G", [1, 2]), ("I", [2])]
#guard paths TS1 == [("Y", [0, 0]), ("Z", [1])]
#guard paths TW1 == [("P", [0, 0, 0, 0, 0]), ("Q", [0, 0, 0, 0, 1]), ("R", [0, 0, 0, 0, 2]), ("S", [0, 0, 0, 0, 3]),
  ("T", [0, 0, 0, 0, 4]), ("U", [0, 0, 0, 0, 5]), ("V", [1])]
-- the slice model: clipped = the immutable paths on all four shapes; unclipped: TE1's A, B, C collapse onto C's path
-- (len 3 → cap 4); TW1's deepest level sits at len 4 = cap 4, where append reallocates: no aliasing five levels down
#guard [TE1, TP1, TS1, TW1].all fun fs => flattenClipped fs == paths fs
#guard flattenAliased TE1 == [("H", [0]), ("A", [1, 0, 0, 2]), ("B", [1, 0, 0, 2]), ("C", [1, 0, 0, 2]), ("D", [1, 0, 1]),
  ("E", [1, 1]), ("G", [1, 2]), ("I", [2])]
#guard flattenAliased TW1 == paths TW1 && flattenAliased TS1 == paths TS1
-- hypotheses of `aliased_siblings_share_path` on concrete fields
#guard isExported "A" && isExported "B" && (tagOf (tg "11")).isSome && (tagOf (tg "12,required")) == some (12, true, false)

-- `embedded_eq_flat`: hypotheses and both sides, value embedding (TE1) and pointer embedding (TP1, nil and non-nil)
def e4 : Val := .struct (mk [.int 7, .str [0x61], .float 0])
def vE1 : Vals := mk [.str [0x68], .struct (mk [.struct (mk [e4, .int (-3)]), .list (mk [.int 1, .int 2]), .bool true]), .int 9]
def vP1 : Vals := mk [.str [0x68], .ptr (.struct (mk [.struct (mk [.ptr e4, .int (-3)]), .list (mk [.int 1, .int 2]), .bool true])), .int 9]
def vP1nil : Vals := mk [.str [0x68], .ptr (.struct (mk [.struct (mk [.nil, .int (-3)]), .nil, .bool true])), .int 9]
def vP1nil2 : Vals := mk [.str [0x68], .nil, .int 9]
#guard Transparent TE1 vE1 && Transparent TP1 vP1 && Transparent TP1 vP1nil && Transparent TP1 vP1nil2
#guard (flatVals TE1 vE1).show == (flatVals TP1 vP1).show
#guard (flatVals TP1 vP1nil2).show == " s 68 i 0 s - f 0 i 0 nil b0 i 9"
#guard protos.all fun p => encodeE p (.struct TE1) (.struct vE1) == encode p (.struct TFlat) (.struct (flatVals TE1 vE1))
#guard protos.all fun p => encodeE p (.struct TP1) (.struct vP1) == encodeE p (.struct TE1) (.struct vE1)
#guard toHex (encodeE .compact (.struct TP1) (.struct vP1nil)) == "180168062a0521741200"     -- H, D, G, I (the same bytes from Go)
#guard toHex (encodeE .compact (.struct TP1) (.struct vP1nil2)) == "180168043c1200"
-- the decoder: round trip; a nil embedded pointer is allocated exactly when one of its fields arrives
#guard protos.all fun p => (unmarshalE p true (.struct TP1) (encodeE p (.struct TP1) (.struct vP1))).show Val.show == "ok:" ++ (Val.struct vP1).show
#guard protos.all fun p => (unmarshalE p true (.struct TE1) (encodeE p (.struct TE1) (.struct vE1))).show Val.show == "ok:" ++ (Val.struct vE1).show
#guard (unmarshalE .compact true (.struct TP1) (encodeE .compact (.struct TP1) (.struct vP1nil2))).show Val.show == "ok:t 3 s 68 nil i 9"
#guard (unmarshalE .compact true (.struct TP1) (encodeE .compact (.struct TP1) (.struct vP1nil))).show Val.show
  == "ok:t 3 s 68 p t 3 t 2 nil i -3 nil b1 i 9"
-- a required field behind a nil embedded pointer (`required_behind_nil_skipped`): Marshal writes what Unmarshal rejects
def TR1 : Fields := .cons "TR2" "" true (.ptr (.named "TR2" (.struct (.cons "A" (tg "5,required") false (.int .i32) <|
  .cons "B" (tg "6") false .str .nil)))) <| .cons "C" (tg "7") false (.int .i64) .nil
#guard !Transparent TR1 (mk [.nil, .int 1]) && toHex (encodeE .compact (.struct TR1) (.struct (mk [.nil, .int 1]))) == "760200"
#guard (unmarshalE .compact false (.struct TR1) (encodeE .compact (.struct TR1) (.struct (mk [.nil, .int 1])))).show Val.show == "err:missingField"
end Witness

#print axioms embedded_eq_flat
#print axioms fieldDescs_flat
#print axioms index_paths_independent
#print axioms aliased_siblings_share_path
#print axioms required_behind_nil_skipped

end Enc.Lemmas.ThriftEmbed
