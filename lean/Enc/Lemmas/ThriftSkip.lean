import Enc.Lemmas.ThriftPrim
/-!
Skipping: whatever the struct/list/map encoder of `Enc.Model.Thrift` writes for a well-formed value is consumed
exactly by the generic skipper, in both protocols, for every type of the supported universe and any nesting.

  * `WF ty v` / `WFFields fs vs`   executable (Bool) well-formedness, structural on the type like `encode`
  * `fuelOf ty v`                  a fuel bound (sum over the value), any larger fuel works too
  * `skip_encode`                  `WF ty v → fuelOf ty v ≤ fuel → skip p d fuel (typeOf ty) (encode p ty v ++ rest) = ok ((), rest)`
  * `skip_fieldRecs`               the per-field statement (mutual with `skip_encode`)
  * `skipStruct_emit_binary/_compact`  `skipStruct` over `emitFields` of good records (delta ids, bool coalescing)
  * `decodeStruct_undeclared`      `decodeStruct` on a field whose id the target does not declare: values and seen-set
                                   unchanged, decoding continues right after the field
  * `WF_real`, `goodRec_of_WF`     a well-formed value has a real wire type / makes a good field record

Side conditions that are really needed (each has a failing `#eval` witness, see the report): ids of emitted fields in
1 … 32767 and pairwise distinct (compact short form / delta), enum-tagged integers announced as I32, sizes ≤ MaxInt32,
integers within their kind, no unsigned kinds / arrays / interfaces.
-/
namespace Enc.Lemmas.ThriftSkip
open Enc Enc.Model.Thrift Enc.Lemmas.ThriftPrim

def maxLen : Nat := 2147483647

def isU8 : Ty → Bool
  | .int .u8 => true
  | _ => false

/-- the parsed `thrift:"…"` tag: id, required, enum -/
def parseTag (tag : String) : Option (Int × Bool × Bool) :=
  match tagValue tag with
  | none => none
  | some v =>
    if v == "" then none else
    let parts := v.splitOn ","
    let opts := parts.drop 1
    match (parts.headD "").toInt? with
    | none => none
    | some id => some (id, opts.contains "required", opts.contains "enum")

def isNilPtr : Ty → Val → Bool
  | .ptr _, .nil => true
  | _, _ => false

/-- `some (id, enum)` iff the struct encoder emits this field -/
def emitted (tag : String) (t : Ty) (x : Val) : Option (Int × Bool) :=
  match parseTag tag with
  | none => none
  | some (id, required, enum) =>
    if isNilPtr t x then none
    else if !required && isZeroAt t x then none
    else some (id, enum)

def fieldBody (p : Proto) (enum : Bool) (t : Ty) (x : Val) : Bytes :=
  if enum then (match derefVal x with | .int i => wI32 p (wrap32 i) | _ => encode p t x) else encode p t x

def fieldIsTrue (x : Val) : Bool := match derefVal x with | .bool true => true | _ => false

theorem fieldRecs_cons (p : Proto) (n tag : String) (e : Bool) (t : Ty) (rest : Fields) (x : Val) (vs : Vals) :
    fieldRecs p (.cons n tag e t rest) (.cons x vs) =
      match emitted tag t x with
      | none => fieldRecs p rest vs
      | some (id, en) =>
        { id := id, t := typeOf t, isTrue := fieldIsTrue x, body := fieldBody p en t x } :: fieldRecs p rest vs := by
  rw [fieldRecs.eq_def]
  simp only
  unfold emitted parseTag
  cases tagValue tag with
  | none => rfl
  | some v =>
    simp only
    by_cases hv : (v == "") = true
    · simp only [hv, if_true]
    · simp only [hv, Bool.false_eq_true, if_false]
      cases ((v.splitOn ",").headD "").toInt? with
      | none => rfl
      | some id =>
        simp only
        have fin : ∀ (b : Bool),
            (if b = true then fieldRecs p rest vs
              else if (!((v.splitOn ",").drop 1).contains "required" && isZeroAt t x) = true then fieldRecs p rest vs
              else
                { id := id, t := typeOf t, isTrue := (match derefVal x with | .bool true => true | _ => false),
                  body := if ((v.splitOn ",").drop 1).contains "enum" = true then
                      (match derefVal x with | .int i => wI32 p (wrap32 i) | _ => encode p t x)
                    else encode p t x : FieldRec } :: fieldRecs p rest vs) =
            match (if b = true then none
              else if (!((v.splitOn ",").drop 1).contains "required" && isZeroAt t x) = true then none
              else some (id, ((v.splitOn ",").drop 1).contains "enum")) with
            | none => fieldRecs p rest vs
            | some (id, en) =>
              { id := id, t := typeOf t, isTrue := fieldIsTrue x, body := fieldBody p en t x } :: fieldRecs p rest vs := by
          intro b
          cases b
          · simp only [Bool.false_eq_true, if_false]
            by_cases h2 : (!((v.splitOn ",").drop 1).contains "required" && isZeroAt t x) = true
            · simp only [h2, if_true]
            · simp only [h2]; rfl
          · simp only [if_true]
        cases t with
        | ptr t' => cases x <;> exact fin _
        | _ => exact fin _

def emittedIds : Fields → Vals → List Int
  | .cons _ tag _ t rest, .cons x vs =>
    match emitted tag t x with
    | none => emittedIds rest vs
    | some (id, _) => id :: emittedIds rest vs
  | _, _ => []

def pairsOfVal : Val → List (Val × Val)
  | .map kvs => pairsOf kvs.toList
  | _ => []

mutual
/-- well-formedness of a value for a type: exactly the side conditions under which the encoder's output is
self-delimiting thrift of the announced wire type -/
def WF : Ty → Val → Bool
  | .bool, v => (match v with | .bool _ => true | _ => false)
  | .int k, v => (match v with | .int i => k.signed && k.inRange i | _ => false)
  | .f32, v | .f64, v => (match v with | .float b => decide (b < 2 ^ 64) | _ => false)
  | .str, v | .bytes, v => (match v with | .str s => decide (s.length ≤ maxLen) | _ => true)
  | .slice t, v =>
    if isU8 t then (match v with | .str s => decide (s.length ≤ maxLen) | _ => true)
    else isReal (typeOf t) &&
      (match v with
       | .list vs => decide (vs.length ≤ maxLen) && vs.toList.all (WF t)
       | _ => true)
  | .map k v, x =>
    isReal (typeOf k) && isReal (typeOf v) && decide ((pairsOfVal x).length ≤ maxLen) &&
      (pairsOfVal x).all fun kv => WF k kv.1 && (isEmptyStruct v || WF v kv.2)
  | .struct fs, v =>
    (match v with
     | .struct vs => WFFields fs vs && decide (emittedIds fs vs).Nodup
     | _ => true)
  | .ptr t, v => (match v with | .ptr x => WF t x | _ => WF t (zeroOf t))
  | .named _ t, v => WF t v
  | .arr _ _, _ | .any, _ => false
/-- the emitted fields of a struct: id in 1 … 32767, a real wire type, a well-formed value; an enum-tagged integer
must be announced as I32 (it is written with `wI32` whatever its Go kind) -/
def WFFields : Fields → Vals → Bool
  | .cons _ tag _ t rest, .cons x vs =>
    WFFields rest vs &&
      (match emitted tag t x with
       | none => true
       | some (id, en) =>
         decide (1 ≤ id) && decide (id ≤ 32767) && isReal (typeOf t) &&
           (if en then (match derefVal x with | .int _ => typeOf t == .i32 | _ => WF t x) else WF t x))
  | _, _ => true
end

mutual
/-- fuel that suffices for `skip` on the encoding of the value -/
def fuelOf : Ty → Val → Nat
  | .slice t, v =>
    if isU8 t then 1 else
      (match v with
       | .list vs => 2 + (vs.toList.map fun e => 1 + fuelOf t e).sum
       | _ => 2)
  | .map k v, x => 2 + ((pairsOfVal x).map fun kv => 1 + fuelOf k kv.1 + fuelOf v kv.2).sum
  | .struct fs, v => (match v with | .struct vs => 2 + fuelFields fs vs | _ => 2)
  | .ptr t, v => (match v with | .ptr x => fuelOf t x | _ => fuelOf t (zeroOf t))
  | .named _ t, v => fuelOf t v
  | _, _ => 1
def fuelFields : Fields → Vals → Nat
  | .cons _ _ _ t rest, .cons x vs => 2 + fuelOf t x + fuelFields rest vs
  | _, _ => 0
end


/-! ### scalars -/
theorem skip_bool (p : Proto) (d fuel : Nat) (b : Bool) (rest : Bytes) (hf : 1 ≤ fuel) :
    skip p d fuel .bool (wBool p b ++ rest) = .ok ((), rest) := by
  obtain ⟨f, rfl⟩ : ∃ f, fuel = f + 1 := ⟨fuel - 1, by omega⟩
  simp only [skip, rBool_wBool, Res.bind]

theorem skip_i8 (p : Proto) (d fuel : Nat) (i : Int) (h : -2 ^ 7 ≤ i ∧ i < 2 ^ 7) (rest : Bytes) (hf : 1 ≤ fuel) :
    skip p d fuel .i8 (wI8 p i ++ rest) = .ok ((), rest) := by
  obtain ⟨f, rfl⟩ : ∃ f, fuel = f + 1 := ⟨fuel - 1, by omega⟩
  simp only [skip, rI8_wI8 p i h, Res.bind]

theorem skip_i16 (p : Proto) (d fuel : Nat) (i : Int) (h : -2 ^ 15 ≤ i ∧ i < 2 ^ 15) (rest : Bytes) (hf : 1 ≤ fuel) :
    skip p d fuel .i16 (wI16 p i ++ rest) = .ok ((), rest) := by
  obtain ⟨f, rfl⟩ : ∃ f, fuel = f + 1 := ⟨fuel - 1, by omega⟩
  simp only [skip, rI16_wI16 p i h, Res.bind]

theorem skip_i32 (p : Proto) (d fuel : Nat) (i : Int) (h : -2 ^ 31 ≤ i ∧ i < 2 ^ 31) (rest : Bytes) (hf : 1 ≤ fuel) :
    skip p d fuel .i32 (wI32 p i ++ rest) = .ok ((), rest) := by
  obtain ⟨f, rfl⟩ : ∃ f, fuel = f + 1 := ⟨fuel - 1, by omega⟩
  simp only [skip, rI32_wI32 p i h, Res.bind]

theorem skip_i64 (p : Proto) (d fuel : Nat) (i : Int) (h : -2 ^ 63 ≤ i ∧ i < 2 ^ 63) (rest : Bytes) (hf : 1 ≤ fuel) :
    skip p d fuel .i64 (wI64 p i ++ rest) = .ok ((), rest) := by
  obtain ⟨f, rfl⟩ : ∃ f, fuel = f + 1 := ⟨fuel - 1, by omega⟩
  simp only [skip, rI64_wI64 p i h, Res.bind]

theorem skip_double (p : Proto) (d fuel : Nat) (b : Nat) (h : b < 2 ^ 64) (rest : Bytes) (hf : 1 ≤ fuel) :
    skip p d fuel .double (wDouble p b ++ rest) = .ok ((), rest) := by
  obtain ⟨f, rfl⟩ : ∃ f, fuel = f + 1 := ⟨fuel - 1, by omega⟩
  simp only [skip, rDouble_wDouble p b h, Res.bind]

theorem skip_binary (p : Proto) (d fuel : Nat) (s : Bytes) (h : s.length ≤ maxLen) (rest : Bytes) (hf : 1 ≤ fuel) :
    skip p d fuel .binary (wBytes p s ++ rest) = .ok ((), rest) := by
  obtain ⟨f, rfl⟩ : ∃ f, fuel = f + 1 := ⟨fuel - 1, by omega⟩
  simp only [skip, wBytes, List.append_assoc, rLength_wLength p s.length h, Res.bind]
  by_cases h0 : s.length = 0
  · have : s = [] := List.eq_nil_of_length_eq_zero h0
    subst this; simp
  · have e : (s.length == 0) = false := by simpa using h0
    simp only [e, Bool.false_eq_true, if_false, hasAtLeast_iff]
    simp

theorem wrap32_range (i : Int) : -2 ^ 31 ≤ wrap32 i ∧ wrap32 i < 2 ^ 31 := by
  unfold wrap32; simp only [Int.reducePow]; split <;> omega

/-! ### containers -/

theorem skipN_elems {α} (p : Proto) (d : Nat) (t : TType) (enc : α → Bytes) (fu : α → Nat) :
    ∀ (l : List α),
      (∀ a ∈ l, ∀ fuel rest, fu a ≤ fuel → skip p d fuel t (enc a ++ rest) = .ok ((), rest)) →
      ∀ fuel rest, 1 + (l.map fun a => 1 + fu a).sum ≤ fuel →
        skipN p d fuel t l.length ((l.map enc).flatten ++ rest) = .ok ((), rest) := by
  intro l
  induction l with
  | nil =>
    intro _ fuel rest hf
    obtain ⟨f, rfl⟩ : ∃ f, fuel = f + 1 := ⟨fuel - 1, by simp at hf; omega⟩
    simp [skipN]
  | cons a l ih =>
    intro h fuel rest hf
    simp only [List.map_cons, List.sum_cons] at hf
    obtain ⟨f, rfl⟩ : ∃ f, fuel = f + 1 := ⟨fuel - 1, by omega⟩
    simp only [List.length_cons, List.map_cons, List.flatten_cons, List.append_assoc, skipN]
    rw [h a (List.mem_cons_self ..) f _ (by omega)]
    simp only [dontExpectEOF_ok, Res.bind]
    exact ih (fun b hb => h b (List.mem_cons_of_mem _ hb)) f rest (by omega)

theorem skipPairs_elems {α} (p : Proto) (d : Nat) (kt vt : TType) (enck encv : α → Bytes) (fk fv : α → Nat) :
    ∀ (l : List α),
      (∀ a ∈ l, (∀ fuel rest, fk a ≤ fuel → skip p d fuel kt (enck a ++ rest) = .ok ((), rest)) ∧
                (∀ fuel rest, fv a ≤ fuel → skip p d fuel vt (encv a ++ rest) = .ok ((), rest))) →
      ∀ fuel rest, 1 + (l.map fun a => 1 + fk a + fv a).sum ≤ fuel →
        skipPairs p d fuel kt vt l.length ((l.map fun a => enck a ++ encv a).flatten ++ rest) = .ok ((), rest) := by
  intro l
  induction l with
  | nil =>
    intro _ fuel rest hf
    obtain ⟨f, rfl⟩ : ∃ f, fuel = f + 1 := ⟨fuel - 1, by simp at hf; omega⟩
    simp [skipPairs]
  | cons a l ih =>
    intro h fuel rest hf
    simp only [List.map_cons, List.sum_cons] at hf
    obtain ⟨f, rfl⟩ : ∃ f, fuel = f + 1 := ⟨fuel - 1, by omega⟩
    simp only [List.length_cons, List.map_cons, List.flatten_cons, List.append_assoc, skipPairs]
    rw [(h a (List.mem_cons_self ..)).1 f _ (by omega)]
    simp only [dontExpectEOF_ok, Res.bind]
    rw [(h a (List.mem_cons_self ..)).2 f _ (by omega)]
    simp only [dontExpectEOF_ok]
    exact ih (fun b hb => h b (List.mem_cons_of_mem _ hb)) f rest (by omega)


/-! ### sorting by id -/
theorem mem_ins (f g : FieldRec) : ∀ (l : List FieldRec), g ∈ FieldRec.ins f l ↔ g = f ∨ g ∈ l := by
  intro l
  induction l with
  | nil => simp [FieldRec.ins]
  | cons a l ih =>
    unfold FieldRec.ins
    split
    · simp
    · simp only [List.mem_cons, ih]
      constructor
      · rintro (h | h | h) <;> simp [h]
      · rintro (h | h | h) <;> simp [h]

theorem mem_sortRecs (g : FieldRec) : ∀ (l : List FieldRec), g ∈ sortRecs l ↔ g ∈ l := by
  intro l
  induction l with
  | nil => simp [sortRecs]
  | cons a l ih =>
    have : sortRecs (a :: l) = FieldRec.ins a (sortRecs l) := rfl
    rw [this, mem_ins, ih]; simp

theorem length_ins (f : FieldRec) : ∀ (l : List FieldRec), (FieldRec.ins f l).length = l.length + 1 := by
  intro l
  induction l with
  | nil => rfl
  | cons a l ih => unfold FieldRec.ins; split <;> simp [ih]

theorem length_sortRecs : ∀ (l : List FieldRec), (sortRecs l).length = l.length := by
  intro l
  induction l with
  | nil => rfl
  | cons a l ih =>
    have : sortRecs (a :: l) = FieldRec.ins a (sortRecs l) := rfl
    rw [this, length_ins, ih]; rfl

theorem pairwise_ins (f : FieldRec) : ∀ (l : List FieldRec),
    l.Pairwise (fun a b => a.id < b.id) → (∀ g ∈ l, g.id ≠ f.id) →
    (FieldRec.ins f l).Pairwise (fun a b => a.id < b.id) := by
  intro l
  induction l with
  | nil => intro _ _; simp [FieldRec.ins]
  | cons a l ih =>
    intro hp hne
    rw [List.pairwise_cons] at hp
    unfold FieldRec.ins
    split
    · rename_i hlt
      rw [List.pairwise_cons]
      refine ⟨?_, List.pairwise_cons.mpr hp⟩
      intro g hg
      rcases List.mem_cons.mp hg with rfl | hg
      · exact hlt
      · exact Int.lt_trans hlt (hp.1 g hg)
    · rename_i hge
      have hne_a := hne a (List.mem_cons_self ..)
      have hlt : a.id < f.id := by omega
      rw [List.pairwise_cons]
      refine ⟨?_, ih hp.2 (fun g hg => hne g (List.mem_cons_of_mem _ hg))⟩
      intro g hg
      rcases (mem_ins f g l).mp hg with rfl | hg
      · exact hlt
      · exact hp.1 g hg

theorem pairwise_sortRecs : ∀ (l : List FieldRec), (l.map (·.id)).Nodup →
    (sortRecs l).Pairwise (fun a b => a.id < b.id) := by
  intro l
  induction l with
  | nil => intro _; simp [sortRecs]
  | cons a l ih =>
    intro hnd
    have e : sortRecs (a :: l) = FieldRec.ins a (sortRecs l) := rfl
    rw [List.map_cons, List.nodup_cons] at hnd
    rw [e]
    apply pairwise_ins a _ (ih hnd.2)
    intro g hg heq
    apply hnd.1
    rw [← heq]
    exact List.mem_map_of_mem ((mem_sortRecs g l).mp hg)


/-! ### struct bodies -/
theorem wrap16_id (i : Int) (h : 1 ≤ i ∧ i ≤ 32767) : wrap16 i = i := by
  unfold wrap16; simp only; split <;> omega

theorem ne_stop_of_real (t : TType) (h : isReal t = true) : (t == TType.stop) = false := by
  cases t <;> simp [isReal] at h ⊢

theorem wStopField_binary (s : Bool) (dl : Bool) : wStopField (.binary s) = wField (.binary s) .stop 0 dl := by
  simp [wStopField, wField, be, twos, TType.code, Gen.c_thrift_STOP]; decide

theorem skipStruct_stop (p : Proto) (d fuel : Nat) (rest : Bytes) (last : Int) (num : Nat) (hf : 1 ≤ fuel) :
    skipStruct p d fuel (wStopField p ++ rest) last num = .ok ((), rest) := by
  obtain ⟨f, rfl⟩ : ∃ f, fuel = f + 1 := ⟨fuel - 1, by omega⟩
  cases p with
  | compact =>
    have : wStopField .compact = wField .compact .stop 0 false := rfl
    rw [skipStruct, this, rField_wField_compact_stop]
    simp
  | binary s =>
    rw [skipStruct, wStopField_binary s false, rField_wField_binary s .stop 0 false (Or.inr rfl) (by decide)]
    simp

/-- what the struct skipper needs from one record -/
def GoodRec (p : Proto) (d : Nat) (B : Nat) (f : FieldRec) : Prop :=
  1 ≤ f.id ∧ f.id ≤ 32767 ∧ isReal f.t = true ∧ f.t ≠ .true_ ∧
    ∀ fuel rest, B ≤ fuel → skip p d fuel f.t (f.body ++ rest) = .ok ((), rest)

theorem skipStruct_emit_binary (s : Bool) (d : Nat) (B : Nat) : ∀ (l : List FieldRec) (last : Int) (num fuel : Nat) (rest : Bytes),
    (∀ f ∈ l, GoodRec (.binary s) d B f) → B + l.length + 1 ≤ fuel →
    skipStruct (.binary s) d fuel (emitFields (.binary s) l last ++ (wStopField (.binary s) ++ rest)) last num
      = .ok ((), rest) := by
  intro l
  induction l with
  | nil =>
    intro last num fuel rest _ hf
    simp only [emitFields, List.nil_append]
    exact skipStruct_stop _ d fuel rest last num (by omega)
  | cons f r ih =>
    intro last num fuel rest hg hf
    obtain ⟨h1, h2, hr, hnt, hsk⟩ := hg f (List.mem_cons_self ..)
    simp only [List.length_cons] at hf
    obtain ⟨fu, rfl⟩ : ∃ fu, fuel = fu + 1 := ⟨fuel - 1, by omega⟩
    simp only [emitFields, Proto.delta, Proto.coalesce, Bool.false_and, Bool.false_eq_true, if_false,
      List.append_assoc]
    rw [skipStruct, rField_wField_binary s f.t f.id _ (Or.inl hr) (by omega)]
    simp only [ne_stop_of_real f.t hr, Bool.false_eq_true, if_false, Proto.coalesce, Bool.and_false]
    rw [hsk fu _ (by omega)]
    simp only [dontExpectEOF_ok, Res.bind, wrap16_id f.id ⟨h1, h2⟩]
    exact ih f.id (num + 1) fu rest (fun g hg' => hg g (List.mem_cons_of_mem _ hg')) (by omega)


/-- the compact field header written by `emitFields` reads back as the field's type and (after adding the previous id
when it is a delta) the field's id -/
theorem rField_compact_emit (t : TType) (id last : Int) (ht : isReal t = true) (hl : 0 ≤ last) (h1 : last < id)
    (h2 : id ≤ 32767) (rest : Bytes) :
    ∃ h : FieldHdr,
      rField .compact (wField .compact t (if id - last ≤ 15 then id - last else id)
        (decide (id - last ≤ 15)) ++ rest) = .ok (h, rest) ∧
        h.t = t ∧ (if h.delta then h.id + last else h.id) = id := by
  by_cases hd : id - last ≤ 15
  · simp only [hd, decide_true, if_true]
    refine ⟨_, rField_wField_compact_short t (id - last) ht ⟨by omega, hd⟩ rest, rfl, ?_⟩
    simp
  · simp only [hd, decide_false, Bool.false_eq_true, if_false]
    refine ⟨_, rField_wField_compact_long t id false ht ⟨by omega, by omega⟩ rest, rfl, ?_⟩
    simp

theorem skipStruct_emit_compact (d : Nat) (B : Nat) : ∀ (l : List FieldRec) (last : Int) (num fuel : Nat) (rest : Bytes),
    0 ≤ last → (∀ f ∈ l, last < f.id) → l.Pairwise (fun a b => a.id < b.id) →
    (∀ f ∈ l, GoodRec .compact d B f) → B + l.length + 1 ≤ fuel →
    skipStruct .compact d fuel (emitFields .compact l last ++ (wStopField .compact ++ rest)) last num
      = .ok ((), rest) := by
  intro l
  induction l with
  | nil =>
    intro last num fuel rest _ _ _ _ hf
    simp only [emitFields, List.nil_append]
    exact skipStruct_stop _ d fuel rest last num (by omega)
  | cons f r ih =>
    intro last num fuel rest hl hlast hpw hg hf
    obtain ⟨h1, h2, hr, hnt, hsk⟩ := hg f (List.mem_cons_self ..)
    have hlt := hlast f (List.mem_cons_self ..)
    rw [List.pairwise_cons] at hpw
    simp only [List.length_cons] at hf
    obtain ⟨fu, rfl⟩ : ∃ fu, fuel = fu + 1 := ⟨fuel - 1, by omega⟩
    have ihr := fun num rest' => ih f.id num fu rest' (by omega) hpw.1 hpw.2
      (fun g hg' => hg g (List.mem_cons_of_mem _ hg')) (by omega)
    simp only [emitFields, Proto.delta, Proto.coalesce, Bool.true_and, decide_eq_true_eq, List.append_assoc]
    by_cases hb : f.t = .bool
    · -- coalesced bool field: type TRUE / FALSE in the header, no value byte
      simp only [hb, beq_self_eq_true, Bool.true_and, if_true, List.nil_append]
      have hreal : isReal (if f.isTrue = true then TType.true_ else TType.bool) = true := by
        split <;> rfl
      obtain ⟨h, hrd, hty, hid⟩ := rField_compact_emit _ f.id last hreal hl hlt h2
        (emitFields .compact r f.id ++ (wStopField .compact ++ rest))
      rw [skipStruct, hrd]
      have hst : (h.t == TType.stop) = false := by rw [hty]; split <;> rfl
      have hco : ((h.t == TType.true_ || h.t == TType.bool) && Proto.coalesce .compact) = true := by
        rw [hty]; split <;> rfl
      simp only [hst, Bool.false_eq_true, if_false, hco, if_true, dontExpectEOF_ok, Res.bind, hid,
        wrap16_id f.id ⟨h1, h2⟩]
      exact ihr _ _
    · have hb' : (f.t == TType.bool) = false := by simpa using hb
      simp only [hb', Bool.false_eq_true, if_false, Bool.false_and]
      obtain ⟨h, hrd, hty, hid⟩ := rField_compact_emit f.t f.id last hr hl hlt h2
        (f.body ++ (emitFields .compact r f.id ++ (wStopField .compact ++ rest)))
      rw [skipStruct, hrd]
      have hco : ((f.t == TType.true_ || f.t == TType.bool) && Proto.coalesce .compact) = false := by
        have : (f.t == TType.true_) = false := by simpa using hnt
        simp [this, hb']
      simp only [hty, ne_stop_of_real f.t hr, Bool.false_eq_true, if_false, hco]
      rw [hsk fu _ (by omega)]
      simp only [dontExpectEOF_ok, Res.bind, hid, wrap16_id f.id ⟨h1, h2⟩]
      exact ihr _ _


/-! ### shape lemmas for the overlapping patterns of the model -/
theorem typeOf_slice (t : Ty) : typeOf (.slice t) = if isU8 t then .binary else .list := by
  cases t with
  | int k => cases k <;> rfl
  | _ => rfl

theorem encode_slice (p : Proto) (t : Ty) (v : Val) :
    encode p (.slice t) v =
      if isU8 t then (match v with | .str s => wBytes p s | _ => wBytes p [])
      else (match v with
        | .list vs => wList p (typeOf t) vs.length ++ (vs.toList.map (encode p t)).flatten
        | _ => wList p (typeOf t) 0) := by
  cases t with
  | int k => cases k <;> cases v <;> rfl
  | _ => cases v <;> rfl

theorem encode_map (p : Proto) (k v : Ty) (x : Val) :
    encode p (.map k v) x =
      if isEmptyStruct v then wList p (typeOf k) (pairsOfVal x).length ++ ((pairsOfVal x).map fun kv => encode p k kv.1).flatten
      else wMap p (typeOf k) (typeOf v) (pairsOfVal x).length ++
        ((pairsOfVal x).map fun kv => encode p k kv.1 ++ encode p v kv.2).flatten := by
  cases x <;> rfl

theorem typeOf_ne_true : (t : Ty) → typeOf t ≠ .true_
  | .bool => by simp [typeOf]
  | .int k => by cases k <;> simp [typeOf]
  | .f32 | .f64 | .str | .bytes | .any => by simp [typeOf]
  | .arr _ _ => by simp [typeOf]
  | .slice t => by rw [typeOf_slice]; split <;> simp
  | .map _ v => by simp only [typeOf]; split <;> simp
  | .struct _ => by simp [typeOf]
  | .ptr t => by simpa [typeOf] using typeOf_ne_true t
  | .named _ t => by simpa [typeOf] using typeOf_ne_true t

theorem emittedIds_eq (p : Proto) : (fs : Fields) → (vs : Vals) → (fieldRecs p fs vs).map (·.id) = emittedIds fs vs
  | .nil, _ => by simp [fieldRecs, emittedIds]
  | .cons _ _ _ _ _, .nil => by simp [fieldRecs, emittedIds]
  | .cons n tag e t rest, .cons x vs => by
    rw [fieldRecs_cons, emittedIds]
    have ih := emittedIds_eq p rest vs
    cases emitted tag t x with
    | none => simpa using ih
    | some ie => obtain ⟨id, en⟩ := ie; simp [ih]


theorem all_toList {α} (l : List α) (f : α → Bool) (h : l.all f = true) : ∀ a ∈ l, f a = true := by
  simpa using h

theorem inRange_signed (k : IntKind) (i : Int) (h : (k.signed && k.inRange i) = true) :
    k.signed = true ∧ -(2 ^ (k.bits - 1) : Int) ≤ i ∧ i < (2 ^ (k.bits - 1) : Int) := by
  rw [Bool.and_eq_true] at h
  obtain ⟨hs, h⟩ := h
  unfold IntKind.inRange at h
  rw [hs] at h
  simp only [if_true, Bool.and_eq_true] at h
  exact ⟨hs, of_decide_eq_true h.1, of_decide_eq_true h.2⟩

theorem length_toList : (vs : Vals) → vs.length = vs.toList.length
  | .nil => rfl
  | .cons _ r => by simp [Vals.length, Vals.toList, length_toList r]

theorem WF_slice (t : Ty) (v : Val) : WF (.slice t) v =
    if isU8 t then (match v with | .str s => decide (s.length ≤ maxLen) | _ => true)
    else isReal (typeOf t) &&
      (match v with
       | .list vs => decide (vs.length ≤ maxLen) && vs.toList.all (WF t)
       | _ => true) := by
  cases v <;> rfl

theorem fuelOf_slice (t : Ty) (v : Val) : fuelOf (.slice t) v =
    if isU8 t then 1 else
      (match v with
       | .list vs => 2 + (vs.toList.map fun e => 1 + fuelOf t e).sum
       | _ => 2) := by
  cases v <;> rfl

theorem WF_map (k v : Ty) (x : Val) : WF (.map k v) x =
    (isReal (typeOf k) && isReal (typeOf v) && decide ((pairsOfVal x).length ≤ maxLen) &&
      (pairsOfVal x).all fun kv => WF k kv.1 && (isEmptyStruct v || WF v kv.2)) := by
  cases x <;> rfl

theorem fuelOf_map (k v : Ty) (x : Val) : fuelOf (.map k v) x =
    2 + ((pairsOfVal x).map fun kv => 1 + fuelOf k kv.1 + fuelOf v kv.2).sum := by
  cases x <;> rfl

theorem encode_struct (p : Proto) (fs : Fields) (v : Val) : encode p (.struct fs) v =
    (match v with
     | .struct vs => emitFields p (sortRecs (fieldRecs p fs vs)) 0 ++ wStopField p
     | _ => wStopField p) := by
  cases v <;> rfl

theorem WFFields_cons (n tag : String) (e : Bool) (t : Ty) (rest : Fields) (x : Val) (vs : Vals) :
    WFFields (.cons n tag e t rest) (.cons x vs) =
    (WFFields rest vs &&
      (match emitted tag t x with
       | none => true
       | some (id, en) =>
         decide (1 ≤ id) && decide (id ≤ 32767) && isReal (typeOf t) &&
           (if en then (match derefVal x with | .int _ => typeOf t == .i32 | _ => WF t x) else WF t x))) := by
  rfl

theorem fuelFields_cons (n tag : String) (e : Bool) (t : Ty) (rest : Fields) (x : Val) (vs : Vals) :
    fuelFields (.cons n tag e t rest) (.cons x vs) = 2 + fuelOf t x + fuelFields rest vs := by
  rfl

theorem sum_le_sum {α} (f g : α → Nat) (h : ∀ a, f a ≤ g a) : ∀ (l : List α), (l.map f).sum ≤ (l.map g).sum := by
  intro l
  induction l with
  | nil => simp
  | cons a l ih => simp only [List.map_cons, List.sum_cons]; have := h a; omega

theorem WF_struct (fs : Fields) (v : Val) : WF (.struct fs) v =
    (match v with
     | .struct vs => WFFields fs vs && decide (emittedIds fs vs).Nodup
     | _ => true) := by
  cases v <;> rfl

theorem fuelOf_struct (fs : Fields) (v : Val) : fuelOf (.struct fs) v =
    (match v with | .struct vs => 2 + fuelFields fs vs | _ => 2) := by
  cases v <;> rfl

theorem tooDeep_false (d : Nat) (h : d < Gen.c_thrift_maxDepth) : tooDeep d = false := by
  unfold tooDeep; simp; omega

theorem tooDeep_true (d : Nat) (h : Gen.c_thrift_maxDepth ≤ d) : tooDeep d = true := by
  unfold tooDeep; simp; omega

theorem nest_slice (t : Ty) : nest (.slice t) = if isU8 t then 0 else 1 + nest t := by
  cases t with
  | int k => cases k <;> simp [nest, isU8]
  | _ => simp [nest, isU8]

mutual
theorem skip_encode (p : Proto) : (ty : Ty) → (v : Val) → WF ty v = true → ∀ (d fuel : Nat) (rest : Bytes),
    d + nest ty ≤ Gen.c_thrift_maxDepth →
    fuelOf ty v ≤ fuel → skip p d fuel (typeOf ty) (encode p ty v ++ rest) = .ok ((), rest)
  | .bool, v, h => by
    intro d fuel rest hd hf
    cases v <;> simp [WF] at h
    simp only [fuelOf] at hf
    simp only [typeOf, encode]
    exact skip_bool p d fuel _ rest hf
  | .int k, v, h => by
    intro d fuel rest hd hf
    cases v <;> simp only [WF, Bool.false_eq_true] at h
    rename_i i
    simp only [fuelOf] at hf
    obtain ⟨hs, h1, h2⟩ := inRange_signed k i h
    cases k <;> simp [IntKind.signed] at hs <;> simp only [IntKind.bits, Nat.reduceSub, Int.reducePow] at h1 h2 <;>
      simp only [typeOf, encode]
    · exact skip_i64 p d fuel i ⟨by omega, by omega⟩ rest hf
    · exact skip_i8 p d fuel i ⟨by omega, by omega⟩ rest hf
    · exact skip_i16 p d fuel i ⟨by omega, by omega⟩ rest hf
    · exact skip_i32 p d fuel i ⟨by omega, by omega⟩ rest hf
    · exact skip_i64 p d fuel i ⟨by omega, by omega⟩ rest hf
  | .f32, v, h | .f64, v, h => by
    intro d fuel rest hd hf
    cases v <;> simp [WF] at h
    simp only [fuelOf] at hf
    simp only [typeOf, encode]
    exact skip_double p d fuel _ h rest hf
  | .str, v, h | .bytes, v, h => by
    intro d fuel rest hd hf
    simp only [fuelOf] at hf
    simp only [typeOf, encode]
    cases v <;> simp [WF] at h <;>
      first
        | exact skip_binary p d fuel _ h rest hf
        | exact skip_binary p d fuel [] (by simp [maxLen]) rest hf
  | .slice t, v, h => by
    intro d fuel rest hd hf
    rw [typeOf_slice, encode_slice]
    rw [WF_slice] at h
    rw [fuelOf_slice] at hf
    rw [nest_slice] at hd
    by_cases hu : isU8 t = true
    · simp only [hu, if_true] at h hf hd ⊢
      cases v <;> (try simp at h) <;>
        first
          | exact skip_binary p d fuel _ h rest hf
          | exact skip_binary p d fuel [] (by simp [maxLen]) rest hf
    · simp only [hu, Bool.false_eq_true, if_false, Bool.and_eq_true] at h hf hd ⊢
      obtain ⟨hreal, h⟩ := h
      have htd : tooDeep d = false := tooDeep_false d (by omega)
      have hempty : ∀ fuel, 2 ≤ fuel → skip p d fuel .list (wList p (typeOf t) 0 ++ rest) = .ok ((), rest) := by
        intro fuel hf
        obtain ⟨f, rfl⟩ : ∃ f, fuel = f + 1 := ⟨fuel - 1, by omega⟩
        obtain ⟨g, rfl⟩ : ∃ g, f = g + 1 := ⟨f - 1, by omega⟩
        rw [skip, rList_wList p _ 0 hreal (by omega)]
        simp [Res.bind, skipN, htd]
      cases v with
      | list vs =>
        simp only [Bool.and_eq_true, decide_eq_true_eq] at h hf ⊢
        obtain ⟨hlen, hall⟩ := h
        obtain ⟨f, rfl⟩ : ∃ f, fuel = f + 1 := ⟨fuel - 1, by omega⟩
        have hl := length_toList vs
        rw [skip, List.append_assoc, rList_wList p _ _ hreal hlen]
        simp only [Res.bind, htd, Bool.false_eq_true, if_false]
        rw [hl]
        apply skipN_elems p (d + 1) (typeOf t) (encode p t) (fuelOf t) vs.toList
        · intro a ha fuel rest hfa
          exact skip_encode p t a (all_toList _ _ hall a ha) (d + 1) fuel rest (by omega) hfa
        · omega
      | _ => exact hempty fuel hf
  | .map k v, x, h => by
    intro d fuel rest hd hf
    rw [encode_map]
    rw [WF_map] at h
    rw [fuelOf_map] at hf
    simp only [nest] at hd
    have htd : tooDeep d = false := tooDeep_false d (by omega)
    simp only [Bool.and_eq_true, decide_eq_true_eq] at h
    obtain ⟨⟨⟨hk, hv⟩, hlen⟩, hall⟩ := h
    have hall' := all_toList _ _ hall
    generalize pairsOfVal x = ps at *
    obtain ⟨f, rfl⟩ : ∃ f, fuel = f + 1 := ⟨fuel - 1, by omega⟩
    by_cases he : isEmptyStruct v = true
    · simp only [typeOf, he, if_true] at hd ⊢
      rw [skip, List.append_assoc, rList_wList p _ _ hk hlen]
      simp only [Res.bind, htd, Bool.false_eq_true, if_false]
      apply skipN_elems p (d + 1) (typeOf k) (fun kv : Val × Val => encode p k kv.1) (fun kv => fuelOf k kv.1) ps
      · intro a ha fuel rest hfa
        have := hall' a ha
        simp only [Bool.and_eq_true] at this
        exact skip_encode p k a.1 this.1 (d + 1) fuel rest (by omega) hfa
      · have := sum_le_sum (fun kv : Val × Val => 1 + fuelOf k kv.1) (fun kv => 1 + fuelOf k kv.1 + fuelOf v kv.2)
          (fun a => by omega) ps
        omega
    · simp only [typeOf, he, Bool.false_eq_true, if_false] at hd ⊢
      rw [skip, List.append_assoc, rMap_wMap p _ _ _ hk hv hlen]
      simp only [Res.bind, htd, Bool.false_eq_true, if_false]
      cases ps with
      | nil =>
        obtain ⟨g, rfl⟩ : ∃ g, f = g + 1 := ⟨f - 1, by simp at hf; omega⟩
        by_cases hp : p = .compact <;> simp [hp, skipPairs]
      | cons a l =>
        have hne : ¬ (p = .compact ∧ (a :: l).length = 0) := by simp
        simp only [hne, if_false]
        apply skipPairs_elems p (d + 1) (typeOf k) (typeOf v) (fun kv : Val × Val => encode p k kv.1)
          (fun kv => encode p v kv.2) (fun kv => fuelOf k kv.1) (fun kv => fuelOf v kv.2) (a :: l)
        · intro b hb
          have := hall' b hb
          simp only [Bool.and_eq_true, he, Bool.false_or] at this
          exact ⟨fun fuel rest hfa => skip_encode p k b.1 this.1 (d + 1) fuel rest (by omega) hfa,
                 fun fuel rest hfa => skip_encode p v b.2 this.2 (d + 1) fuel rest (by omega) hfa⟩
        · omega
  | .struct fs, v, h => by
    intro d fuel rest hd hf
    rw [WF_struct] at h
    rw [fuelOf_struct] at hf
    rw [encode_struct]
    simp only [nest] at hd
    have htd : tooDeep d = false := tooDeep_false d (by omega)
    simp only [typeOf]
    cases v with
    | struct vs =>
      simp only [Bool.and_eq_true, decide_eq_true_eq] at h hf ⊢
      obtain ⟨hwf, hnd⟩ := h
      obtain ⟨hlen, hgood⟩ := skip_fieldRecs p fs vs hwf
      obtain ⟨f, rfl⟩ : ∃ f, fuel = f + 1 := ⟨fuel - 1, by omega⟩
      rw [skip, List.append_assoc]
      simp only [htd, Bool.false_eq_true, if_false]
      have hgood' : ∀ g ∈ sortRecs (fieldRecs p fs vs),
          GoodRec p (d + 1) (fuelFields fs vs - (fieldRecs p fs vs).length) g := by
        intro g hg
        obtain ⟨a, b, c, d', e⟩ := hgood g ((mem_sortRecs g _).mp hg)
        exact ⟨a, b, c, d', fun fuel rest hfu => e (d + 1) fuel rest (by omega) (by omega)⟩
      have hfu : fuelFields fs vs - (fieldRecs p fs vs).length + (sortRecs (fieldRecs p fs vs)).length + 1 ≤ f := by
        rw [length_sortRecs]; omega
      cases p with
      | binary s => exact skipStruct_emit_binary s _ _ _ 0 0 f rest hgood' hfu
      | compact =>
        apply skipStruct_emit_compact _ _ _ 0 0 f rest (by omega) _ _ hgood' hfu
        · intro g hg; have := (hgood' g hg).1; omega
        · apply pairwise_sortRecs
          rw [emittedIds_eq]; exact hnd
    | _ =>
      simp only at hf ⊢
      obtain ⟨f, rfl⟩ : ∃ f, fuel = f + 1 := ⟨fuel - 1, by omega⟩
      rw [skip]
      simp only [htd, Bool.false_eq_true, if_false]
      exact skipStruct_stop p _ f rest 0 0 (by omega)
  | .ptr t, v, h => by
    intro d fuel rest hd hf
    cases v with
    | ptr x =>
      simp only [WF, fuelOf, typeOf, encode, nest] at h hf hd ⊢
      exact skip_encode p t x h d fuel rest hd hf
    | _ =>
      simp only [WF, fuelOf, typeOf, encode, nest] at h hf hd ⊢
      exact skip_encode p t (zeroOf t) h d fuel rest hd hf
  | .named _ t, v, h => by
    intro d fuel rest hd hf
    simp only [WF, fuelOf, typeOf, encode, nest] at h hf hd ⊢
    exact skip_encode p t v h d fuel rest hd hf
  | .arr _ _, v, h | .any, v, h => by simp [WF] at h
theorem skip_fieldRecs (p : Proto) : (fs : Fields) → (vs : Vals) → WFFields fs vs = true →
    (fieldRecs p fs vs).length ≤ fuelFields fs vs ∧
    ∀ f ∈ fieldRecs p fs vs, 1 ≤ f.id ∧ f.id ≤ 32767 ∧ isReal f.t = true ∧ f.t ≠ .true_ ∧
      ∀ (d fuel : Nat) (rest : Bytes), d + nestFields fs ≤ Gen.c_thrift_maxDepth →
        fuelFields fs vs ≤ fuel + (fieldRecs p fs vs).length →
        skip p d fuel f.t (f.body ++ rest) = .ok ((), rest)
  | .nil, vs, _ => by simp [fieldRecs]
  | .cons _ _ _ _ _, .nil, _ => by simp [fieldRecs]
  | .cons n tag e t rest, .cons x vs, h => by
    rw [WFFields_cons, Bool.and_eq_true] at h
    obtain ⟨ihl, ihg⟩ := skip_fieldRecs p rest vs h.1
    have h2 := h.2
    rw [fieldRecs_cons, fuelFields_cons]
    cases hem : emitted tag t x with
    | none =>
      simp only
      refine ⟨by omega, fun f hf => ?_⟩
      obtain ⟨a, b, c, d', hsk⟩ := ihg f hf
      exact ⟨a, b, c, d', fun d fuel rest hd hfu => hsk d fuel rest (by simp only [nestFields] at hd; omega) (by omega)⟩
    | some ie =>
      obtain ⟨id, en⟩ := ie
      simp only [hem, Bool.and_eq_true, decide_eq_true_eq] at h2
      obtain ⟨⟨⟨hid1, hid2⟩, hreal⟩, hbody⟩ := h2
      simp only [List.length_cons]
      refine ⟨by omega, fun f hf => ?_⟩
      rcases List.mem_cons.mp hf with rfl | hf
      · refine ⟨hid1, hid2, hreal, typeOf_ne_true t, fun d fuel rest hd hfu => ?_⟩
        simp only [nestFields] at hd
        simp only [fieldBody]
        by_cases hen : en = true
        · simp only [hen, if_true] at hbody ⊢
          cases hd : derefVal x with
          | int i =>
            simp only [hd, beq_iff_eq] at hbody
            simp only [hbody]
            exact skip_i32 p d fuel _ (wrap32_range i) rest (by omega)
          | _ =>
            simp only [hd] at hbody
            exact skip_encode p t x hbody d fuel rest (by omega) (by omega)
        · simp only [hen, Bool.false_eq_true, if_false] at hbody ⊢
          exact skip_encode p t x hbody d fuel rest (by omega) (by omega)
      · obtain ⟨a, b, c, d', hsk⟩ := ihg f hf
        exact ⟨a, b, c, d', fun d fuel rest hd hfu => hsk d fuel rest (by simp only [nestFields] at hd; omega) (by omega)⟩
end


/-! ### the struct decoder on a field it does not declare -/

/-- A field emitted by the struct encoder whose id the target does not declare is consumed by `decodeStruct` without
touching the decoded field values `vs` or the seen-set: decoding continues on the following bytes with the same state
(only `last`/`num`, the delta base and the field counter, advance). -/
theorem decodeStruct_undeclared (p : Proto) (strict : Bool) (d : Nat) (B : Nat) (f : FieldRec) (r : List FieldRec)
    (hg : GoodRec p d B f) (last : Int) (hl : 0 ≤ last) (hlt : last < f.id)
    (descs : List FieldDesc) (hnone : findById descs f.id = none) (fuel : Nat) (hf : B ≤ fuel)
    (vs : Vals) (num : Nat) (seen : List Int) (rest : Bytes) :
    decodeStruct p strict d (fuel + 1) descs (emitFields p (f :: r) last ++ rest) vs last num seen
      = decodeStruct p strict d fuel descs (emitFields p r f.id ++ rest) vs f.id (num + 1) seen := by
  obtain ⟨h1, h2, hr, hnt, hsk⟩ := hg
  cases p with
  | binary s =>
    simp only [emitFields, Proto.delta, Proto.coalesce, Bool.false_and, Bool.false_eq_true, if_false,
      List.append_assoc]
    rw [decodeStruct, rField_wField_binary s f.t f.id _ (Or.inl hr) (by omega)]
    simp only [ne_stop_of_real f.t hr, Bool.false_eq_true, if_false, Proto.coalesce, Bool.and_false,
      wrap16_id f.id ⟨h1, h2⟩, hnone]
    rw [hsk fuel _ hf]
    simp only [dontExpectEOF_ok, Res.bind]
  | compact =>
    simp only [emitFields, Proto.delta, Proto.coalesce, Bool.true_and, decide_eq_true_eq, List.append_assoc]
    by_cases hb : f.t = .bool
    · simp only [hb, beq_self_eq_true, Bool.true_and, if_true, List.nil_append]
      have hreal : isReal (if f.isTrue = true then TType.true_ else TType.bool) = true := by
        split <;> rfl
      obtain ⟨h, hrd, hty, hid⟩ := rField_compact_emit _ f.id last hreal hl hlt h2
        (emitFields .compact r f.id ++ rest)
      rw [decodeStruct, hrd]
      have hst : (h.t == TType.stop) = false := by rw [hty]; split <;> rfl
      have hco : ((h.t == TType.true_ || h.t == TType.bool) && Proto.coalesce .compact) = true := by
        rw [hty]; split <;> rfl
      simp only [hst, Bool.false_eq_true, if_false, hid, wrap16_id f.id ⟨h1, h2⟩, hnone, hco, if_true,
        dontExpectEOF_ok, Res.bind]
    · have hb' : (f.t == TType.bool) = false := by simpa using hb
      simp only [hb', Bool.false_eq_true, if_false, Bool.false_and]
      obtain ⟨h, hrd, hty, hid⟩ := rField_compact_emit f.t f.id last hr hl hlt h2
        (f.body ++ (emitFields .compact r f.id ++ rest))
      rw [decodeStruct, hrd]
      have hco : ((f.t == TType.true_ || f.t == TType.bool) && Proto.coalesce .compact) = false := by
        have : (f.t == TType.true_) = false := by simpa using hnt
        simp [this, hb']
      simp only [hty, ne_stop_of_real f.t hr, Bool.false_eq_true, if_false, hid, wrap16_id f.id ⟨h1, h2⟩, hnone, hco]
      rw [hsk fuel _ hf]
      simp only [dontExpectEOF_ok, Res.bind]

/-- every well-formed value of every supported type makes a good field record -/
theorem goodRec_of_WF (p : Proto) (d : Nat) (ty : Ty) (v : Val) (id : Int) (hid : 1 ≤ id ∧ id ≤ 32767)
    (hreal : isReal (typeOf ty) = true) (h : WF ty v = true) (hd : d + nest ty ≤ Gen.c_thrift_maxDepth) :
    GoodRec p d (fuelOf ty v) { id := id, t := typeOf ty, isTrue := fieldIsTrue v, body := encode p ty v } :=
  ⟨hid.1, hid.2, hreal, typeOf_ne_true ty, fun fuel rest hf => skip_encode p ty v h d fuel rest hd hf⟩


theorem WF_real : (ty : Ty) → (v : Val) → WF ty v = true → isReal (typeOf ty) = true
  | .bool, _, _ => rfl
  | .int k, v, h => by
    cases v <;> simp only [WF, Bool.false_eq_true] at h
    obtain ⟨hs, _⟩ := inRange_signed k _ h
    cases k <;> simp [IntKind.signed] at hs <;> rfl
  | .f32, _, _ | .f64, _, _ | .str, _, _ | .bytes, _, _ => rfl
  | .slice t, _, _ => by rw [typeOf_slice]; split <;> rfl
  | .map _ v, _, _ => by simp only [typeOf]; split <;> rfl
  | .struct _, _, _ => rfl
  | .ptr t, v, h => by
    cases v with
    | ptr x => simp only [WF, typeOf] at h ⊢; exact WF_real t x h
    | _ => simp only [WF, typeOf] at h ⊢; exact WF_real t _ h
  | .named _ t, v, h => by simp only [WF, typeOf] at h ⊢; exact WF_real t v h
  | .arr _ _, _, h | .any, _, h => by simp [WF] at h

end Enc.Lemmas.ThriftSkip
