import Enc.Model.Json.Scan
import Enc.Spec.Json.Grammar
namespace Enc.Lemmas.JsonWs
open Enc Enc.Model.Json

theorem skipSpacesN_eq_ws (b : Bytes) : skipSpacesN b = Spec.Json.ws b := by
  induction b with
  | nil => rfl
  | cons c r ih => simp only [skipSpacesN, Spec.Json.ws, isSpace, Spec.Json.isWs, ih]; rfl

/-- `skipSpaces` (with its `b[0] <= 0x20` shortcut) removes exactly RFC 8259 white space -/
theorem skipSpaces_eq_ws (b : Bytes) : skipSpaces b = Spec.Json.ws b := by
  cases b with
  | nil => rfl
  | cons c r =>
    simp only [skipSpaces]
    split
    · exact skipSpacesN_eq_ws _
    · rename_i h
      have hc : ¬ (c ≤ 0x20) := h
      have : Spec.Json.isWs c = false := by
        simp only [Spec.Json.isWs, Bool.or_eq_false_iff, beq_eq_false_iff_ne, ne_eq]
        refine ⟨⟨⟨?_, ?_⟩, ?_⟩, ?_⟩ <;> (intro he; subst he; exact hc (by decide))
      simp [Spec.Json.ws, this]

end Enc.Lemmas.JsonWs
