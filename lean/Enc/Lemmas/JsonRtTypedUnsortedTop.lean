import Enc.Lemmas.JsonRtTypedUnsortedInd
import Enc.Lemmas.JsonRtTypedUnsortedGen
import Enc.Lemmas.JsonRtTypedUnsortedModel
import Enc.Lemmas.JsonRtTypedUnsortedLen
import Enc.Lemmas.JsonRtTypedTop
/-!
# Typed round trip WITHOUT SortMapKeys: whole documents, composition with the model = specification theorems

* `spec_round_tripU` — the specification decoder reads `norm v` from the specification encoder's output with ANY rearrangement
  `so` of the members at every map node;
* `model_round_tripU` / `model_okU` — the encoder as coded, SortMapKeys on or off, any iteration order, then the decoder as coded;
* `sort_perm` — the whole-tree statement relating the unsorted and the sorted output.
-/
namespace Enc.Lemmas.JsonRtTypedU
open Enc Enc.Model.Json Enc.Model.Json.Typed
open Enc.Spec.Json (ws encSpec canon norm wfT depthV)
open Enc.Lemmas.JsonRtTyped (quoted_b64_string b64_roundtrip canon_wt spec_ok Hd)
open Enc.Lemmas.JsonEncTyped (okE ScShape OrdPerm)
open Enc.Lemmas.JsonDecTyped (okU)
open Enc.Lemmas.JsonDecTypedPlain (noPP plain_zero)

/-- **specification level, any member order** -/
theorem spec_round_tripU (sc : Strconv) (c : TFlags) (html : Bool) (so : MemOrd) (hso : SoPerm so) (t : JT) (v : JV) (x : Bytes)
    (hc : canon sc c t v = true) (hwf : wfT t = true) (hd : depthV v ≤ 10000) (hx : encSpecU sc html so t v = some x) :
    Spec.Json.unmarshalTyped c t (zeroOf t) x = some (norm v) := by
  have hh := hd_specU sc c html so (hd_genericU sc c html so) v t x hc hx
  have hw : ws x = x := by have := hh.ws []; simpa using this
  have := rtvU sc c html so hso (hd_genericU sc c html so) (rtgU sc c html so hso) quoted_b64_string b64_roundtrip v t x []
    (Spec.Json.specFuel t (zeroOf t) x) 10000 hc hwf hx hd trivial (by simp only [Spec.Json.specFuel, List.length_nil]; omega)
  rw [List.append_nil] at this
  unfold Spec.Json.unmarshalTyped
  rw [hw, this]
  rfl

/-- **model level**, SortMapKeys on or off: what the decoder model stores into a fresh zero target from the encoder model's
output -/
theorem model_round_tripU (sc : Strconv) (hsc : ScShape sc) (c : TFlags) (html sortKeys : Bool)
    (ord : MapOrd) (hord : OrdPerm ord) (t : JT) (v : JV) (x : Bytes) (hpp : noPP t = true) (hwf : wfT t = true)
    (hc : canon sc c t v = true) (hd : depthV v ≤ 10000) (hx : encodeTyped sc html sortKeys ord t v = .ok x) :
    unmarshalTyped c t (zeroOf t) x = .ok (norm v) := by
  have he := encodeTyped_eq_specU sc hsc html sortKeys ord hord t v (canon_wt sc c v t hc)
  rw [hx] at he
  have hs := spec_round_tripU sc c html _ (soOf_perm sortKeys ord hord) t v x hc hwf hd he.symm
  have hm := Lemmas.JsonDecTypedAll.unmarshal_eq c t hpp (zeroOf t) (plain_zero t) x
  rw [hs] at hm
  cases hu : unmarshalTyped c t (zeroOf t) x with
  | ok w => rw [hu] at hm; simp only [okU, Option.some.injEq] at hm; rw [hm]
  | syn => rw [hu] at hm; simp [okU] at hm
  | ty => rw [hu] at hm; simp [okU] at hm
  | oth => rw [hu] at hm; simp [okU] at hm

/-- every member order: the specification encoder succeeds on canonical values -/
theorem spec_okU (sc : Strconv) (hsc : ScShape sc) (c : TFlags) (html : Bool) (so : MemOrd) (hso : SoPerm so) (t : JT) (v : JV)
    (hc : canon sc c t v = true) : ∃ x, encSpecU sc html so t v = some x := by
  have hid : OrdPerm id := fun _ => List.Perm.refl _
  have h1 := encodeTyped_eq_specU sc hsc html true id hid t v (canon_wt sc c v t hc)
  rw [Lemmas.JsonEncTyped.encodeTyped_eq_spec sc hsc html id hid t v (canon_wt sc c v t hc)] at h1
  obtain ⟨y, hy⟩ := spec_ok sc c html v t hc
  have hl := encSpecU_length sc html so (soOf true id) hso (soOf_perm true id hid) t v
  rw [← h1, hy] at hl
  cases hx : encSpecU sc html so t v with
  | some x => exact ⟨x, rfl⟩
  | none => rw [hx] at hl; simp at hl

/-- the encoder model succeeds on canonical values, SortMapKeys on or off -/
theorem model_okU (sc : Strconv) (hsc : ScShape sc) (c : TFlags) (html sortKeys : Bool) (ord : MapOrd) (hord : OrdPerm ord)
    (t : JT) (v : JV) (hc : canon sc c t v = true) : ∃ x, encodeTyped sc html sortKeys ord t v = .ok x := by
  have he := encodeTyped_eq_specU sc hsc html sortKeys ord hord t v (canon_wt sc c v t hc)
  obtain ⟨x, hx⟩ := spec_okU sc hsc c html _ (soOf_perm sortKeys ord hord) t v hc
  rw [hx] at he
  cases hr : encodeTyped sc html sortKeys ord t v with
  | ok y => exact ⟨y, rfl⟩
  | err e => rw [hr] at he; simp [okE] at he
  | panic e => rw [hr] at he; simp [okE] at he

/-- **whole tree, every well-typed value**: the output without SortMapKeys (iteration order `ord`) is the specification's
output with the rearrangement `soOf false ord` in place of the sort at EVERY map node; it fails exactly when the sorted output
(any iteration order `ord'`) fails, and has the same length -/
theorem sort_perm_wt (sc : Strconv) (hsc : ScShape sc) (html : Bool) (ord ord' : MapOrd) (hord : OrdPerm ord)
    (hord' : OrdPerm ord') (t : JT) (v : JV) (h : Lemmas.JsonEncTyped.wt t v = true) :
    SoPerm (soOf false ord) ∧
    okE (encodeTyped sc html false ord t v) = encSpecU sc html (soOf false ord) t v ∧
    okE (encodeTyped sc html true ord' t v) = encSpec sc html t v ∧
    (okE (encodeTyped sc html false ord t v)).map List.length = (okE (encodeTyped sc html true ord' t v)).map List.length := by
  refine ⟨soOf_perm false ord hord, encodeTyped_eq_specU sc hsc html false ord hord t v h,
    Lemmas.JsonEncTyped.encodeTyped_eq_spec sc hsc html ord' hord' t v h, ?_⟩
  rw [encodeTyped_eq_specU sc hsc html false ord hord t v h, encodeTyped_eq_specU sc hsc html true ord' hord' t v h]
  exact encSpecU_length sc html _ _ (soOf_perm false ord hord) (soOf_perm true ord' hord') t v

/-- **whole tree, canonical values**: both outputs exist, have the same length, and the specification decoder reads the same
value (`norm v`) from both -/
theorem sort_perm (sc : Strconv) (hsc : ScShape sc) (c : TFlags) (html : Bool) (ord ord' : MapOrd) (hord : OrdPerm ord)
    (hord' : OrdPerm ord') (t : JT) (v : JV) (hwf : wfT t = true) (hc : canon sc c t v = true) (hd : depthV v ≤ 10000) :
    ∃ x y, encodeTyped sc html false ord t v = .ok x ∧ encodeTyped sc html true ord' t v = .ok y ∧
      encSpecU sc html (soOf false ord) t v = some x ∧ encSpec sc html t v = some y ∧ x.length = y.length ∧
      Spec.Json.unmarshalTyped c t (zeroOf t) x = some (norm v) ∧ Spec.Json.unmarshalTyped c t (zeroOf t) y = some (norm v) := by
  obtain ⟨x, hx⟩ := model_okU sc hsc c html false ord hord t v hc
  obtain ⟨y, hy⟩ := model_okU sc hsc c html true ord' hord' t v hc
  obtain ⟨hp, h1, h2, h3⟩ := sort_perm_wt sc hsc html ord ord' hord hord' t v (canon_wt sc c v t hc)
  rw [hx] at h1 h3
  rw [hy] at h2 h3
  simp only [okE, Option.map_some, Option.some.injEq] at h1 h2 h3
  exact ⟨x, y, hx, hy, h1.symm, h2.symm, h3,
    spec_round_tripU sc c html _ hp t v x hc hwf hd h1.symm,
    Lemmas.JsonRtTyped.spec_round_trip sc c html t v y hc hwf hd h2.symm⟩

#print axioms model_round_tripU
#print axioms spec_round_tripU
#print axioms sort_perm

end Enc.Lemmas.JsonRtTypedU
