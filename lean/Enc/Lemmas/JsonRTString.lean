import Enc.Lemmas.JsonRTUtf8
import Enc.Lemmas.JsonEncString
import Enc.Spec.Json.StdEnc
import Enc.Lemmas.TokConcat
/-!
# JSON string round trip (C14): what `encodeString` / `appendString` writes, `parseStringUnquote` / `unquote` reads back

* `chunk`, `appendChars_step` — the encoder loop cut into one output chunk per input rune.
* `chunk_chars`, `chunk_unquote`, `chunk_bytes` — each chunk is accepted by the grammar, decodes to the rune it came
  from (U+FFFD for an invalid byte), and contains no control byte / no raw quote.
* `string_accepts`, `unquote_appendChars` — the whole output: `string (appendString s html ++ rest) = some rest`,
  `unquoteStd (appendChars s) = coerceUTF8 s`.
* main theorems: `roundtrip_std`, `roundtrip_model`, `parseStringUnquote_encodeString`, `valid_encodeString`,
  `tokens_encodeString`, `escapeHTML_changes_representation_only`.
-/
namespace Enc.Lemmas.JsonRTString
open Enc Enc.Utf8 Enc.Model.Json
open Enc.Spec.Json (appendChars appendString safe hexLower unquoteStd simpleEscape hexv isSurr hexdig chars coerceUTF8)
open Enc.Lemmas.JsonDecString (hex4 isSimpleEsc std_simple std_plain_ascii std_plain_hi std_u_nonsurr std_nil
  decodeRune_ascii encodeRune_ascii decodeRune_size_pos Plain plain_of_ge decodeRune_take_plain)
open Enc.Lemmas.JsonString (chars_cons chars_cons' QSound toOpt)
open Enc.Lemmas.JsonRTUtf8

/-- the escape `appendString` writes for an ASCII byte outside the safe set -/
def esc (c : UInt8) : Bytes :=
  if c == 0x5c || c == 0x22 then [0x5c, c]
  else if c == 0x08 then [0x5c, 0x62] else if c == 0x0c then [0x5c, 0x66]
  else if c == 0x0a then [0x5c, 0x6e] else if c == 0x0d then [0x5c, 0x72] else if c == 0x09 then [0x5c, 0x74]
  else [0x5c, 0x75, 0x30, 0x30, hexLower (c.toNat / 16), hexLower (c.toNat % 16)]

/-- what one iteration of `appendString`'s loop writes for the input that starts with `c` -/
def chunk (html : Bool) (c : UInt8) (rest : Bytes) : Bytes :=
  if c < 0x80 then (if safe c html then [c] else esc c)
  else
    let p := decodeRune (c :: rest)
    if p.1 == runeError && p.2 == 1 then [0x5c, 0x75, 0x66, 0x66, 0x66, 0x64]
    else if p.1 == 0x2028 || p.1 == 0x2029 then [0x5c, 0x75, 0x32, 0x30, 0x32, hexLower (p.1 % 16)]
    else (c :: rest).take p.2

/-- one iteration: a chunk, then the loop on the input minus one rune -/
theorem appendChars_step (html : Bool) (f : Nat) (c : UInt8) (rest : Bytes) :
    appendChars html (f + 1) (c :: rest) =
      chunk html c rest ++ appendChars html f ((c :: rest).drop (decodeRune (c :: rest)).2) := by
  rw [appendChars]
  by_cases h80 : c < 0x80
  · rw [decodeRune_ascii c rest h80]
    simp only [h80, if_true, chunk, esc, List.drop_succ_cons, List.drop_zero]
    by_cases hs : safe c html = true
    · simp only [hs, if_true]; rfl
    · simp only [hs, Bool.false_eq_true, if_false]
  · simp only [h80, if_false, chunk]
    generalize decodeRune (c :: rest) = p
    obtain ⟨r, size⟩ := p
    simp only
    by_cases h1 : (r == runeError && size == 1) = true
    · simp only [h1, if_true]
      have : size = 1 := by simp at h1; exact h1.2
      subst this; rfl
    · simp only [h1, Bool.false_eq_true, if_false]
      by_cases h2 : (r == 0x2028 || r == 0x2029) = true
      · simp only [h2, if_true]
      · simp only [h2, Bool.false_eq_true, if_false]

/-! ### the shape of the escapes (decided byte by byte) -/

def escShape (c : UInt8) : Bool :=
  let e := (esc c).getD 1 0
  let a := (esc c).getD 4 0
  let b := (esc c).getD 5 0
  (esc c == [0x5c, e] && e != 0x75 && isSimpleEsc e && simpleEscape e == c) ||
  (esc c == [0x5c, 0x75, 0x30, 0x30, a, b] && hexdig a && hexdig b && hex4 0x30 0x30 a b == c.toNat)

theorem escShape_all : ∀ n, n < 256 → escShape (UInt8.ofNat n) = true := by decide +kernel

theorem esc_cases (c : UInt8) :
    (∃ e, esc c = [0x5c, e] ∧ e ≠ 0x75 ∧ isSimpleEsc e = true ∧ simpleEscape e = c) ∨
    (∃ a b, esc c = [0x5c, 0x75, 0x30, 0x30, a, b] ∧ hexdig a = true ∧ hexdig b = true ∧ hex4 0x30 0x30 a b = c.toNat) := by
  have h := escShape_all c.toNat c.toNat_lt
  rw [UInt8.ofNat_toNat] at h
  simp only [escShape, Bool.or_eq_true, Bool.and_eq_true, beq_iff_eq, bne_iff_ne, ne_eq] at h
  rcases h with ⟨⟨⟨h1, h2⟩, h3⟩, h4⟩ | ⟨⟨⟨h1, h2⟩, h3⟩, h4⟩
  · exact Or.inl ⟨_, h1, h2, h3, h4⟩
  · exact Or.inr ⟨_, _, h1, h2, h3, h4⟩

/-! ### the grammar accepts every chunk -/

theorem chars_simple (e : UInt8) (y : Bytes) (h : isSimpleEsc e = true) : chars (0x5c :: e :: y) = chars y := by
  rw [chars_cons']
  simp only [Enc.Lemmas.JsonDecString.esc_simple, h, if_true]
  rfl

theorem chars_uni (a b c d : UInt8) (y : Bytes) (h : (hexdig a && hexdig b && hexdig c && hexdig d) = true) :
    chars (0x5c :: 0x75 :: a :: b :: c :: d :: y) = chars y := by
  rw [chars_cons]
  simp only [h, if_true]
  rfl

theorem chars_plain1 (c : UInt8) (y : Bytes) (h : Plain c) : chars (c :: y) = chars y := by
  obtain ⟨h1, h2, h3⟩ := h
  have h1' : (c == 0x22) = false := by simpa using h1
  have h2' : (c == 0x5c) = false := by simpa using h2
  rw [chars_cons]
  simp only [h1', h2', h3, Bool.false_eq_true, if_false]

theorem chars_plains (x y : Bytes) (h : ∀ b ∈ x, Plain b) : chars (x ++ y) = chars y := by
  induction x with
  | nil => rfl
  | cons c x ih =>
    rw [List.cons_append, chars_plain1 c _ (h c (by simp)), ih (fun b hb => h b (by simp [hb]))]

theorem safe_plain (c : UInt8) (html : Bool) (h : safe c html = true) : Plain c ∧ c < 0x80 := by
  simp only [safe, Bool.and_eq_true, decide_eq_true_eq, bne_iff_ne, ne_eq] at h
  obtain ⟨⟨⟨⟨h1, h2⟩, h3⟩, h4⟩, _⟩ := h
  exact ⟨⟨h3, h4, UInt8.not_lt.mpr h1⟩, h2⟩


theorem not_lt_80 {c : UInt8} (h : ¬ c < 0x80) : 0x80 ≤ c.toNat := by
  have := UInt8.not_lt.mp h
  simpa using UInt8.le_iff_toNat_le.mp this

/-- for a byte ≥ 0x80 that is not an invalid byte, the form has at least two bytes -/
theorem size_ge_two (c : UInt8) (rest : Bytes) (h80 : ¬ c < 0x80)
    (h1 : ¬ ((decodeRune (c :: rest)).1 == runeError && (decodeRune (c :: rest)).2 == 1) = true) :
    2 ≤ (decodeRune (c :: rest)).2 := by
  have := not_lt_80 h80
  rcases decodeRune_cases c rest with ⟨h0, e⟩ | ⟨_, e⟩ | ⟨c1, r', rfl, _, _, _, e⟩ |
    ⟨c1, c2, r', rfl, _, _, _, _, _, e⟩ | ⟨c1, c2, c3, r', rfl, _, _, _, _, _, _, e⟩
  · omega
  · rw [e] at h1; simp at h1
  all_goals rw [e]; simp

theorem rune_2028 {r : Nat} (h : (r == 0x2028 || r == 0x2029) = true) : r = 0x2028 ∨ r = 0x2029 := by
  simpa using h

theorem chunk_chars (html : Bool) (c : UInt8) (rest y : Bytes) : chars (chunk html c rest ++ y) = chars y := by
  unfold chunk
  by_cases h80 : c < 0x80
  · simp only [h80, if_true]
    by_cases hs : safe c html = true
    · simp only [hs, if_true]
      exact chars_plain1 c y (safe_plain c html hs).1
    · simp only [hs, Bool.false_eq_true, if_false]
      rcases esc_cases c with ⟨e, he, _, h2, _⟩ | ⟨a, b, he, ha, hb, _⟩
      · rw [he]; exact chars_simple e y h2
      · rw [he]; exact chars_uni _ _ _ _ y (by simp [ha, hb]; decide)
  · simp only [h80, if_false]
    by_cases h1 : ((decodeRune (c :: rest)).1 == runeError && (decodeRune (c :: rest)).2 == 1) = true
    · simp only [h1, if_true]
      exact chars_uni _ _ _ _ y (by decide)
    · simp only [h1, Bool.false_eq_true, if_false]
      by_cases h2 : ((decodeRune (c :: rest)).1 == 0x2028 || (decodeRune (c :: rest)).1 == 0x2029) = true
      · simp only [h2, if_true]
        rcases rune_2028 h2 with e | e <;> rw [e] <;> exact chars_uni _ _ _ _ y (by decide)
      · simp only [h2, Bool.false_eq_true, if_false]
        exact chars_plains _ y (decodeRune_take_plain c rest (plain_of_ge (not_lt_80 h80))).2.2

/-! ### every chunk decodes to the rune it was written for -/

theorem std_hi_take (g : Nat) (c : UInt8) (rest y : Bytes) (h80 : ¬ c < 0x80) (h2 : 2 ≤ (decodeRune (c :: rest)).2) :
    unquoteStd (g + 1) ((c :: rest).take (decodeRune (c :: rest)).2 ++ y) =
      encodeRune (decodeRune (c :: rest)).1 ++ unquoteStd g y := by
  have hc : c ≠ 0x5c := by
    intro e; subst e; exact h80 (by decide)
  have hsz := (decodeRune_take_plain c rest (plain_of_ge (not_lt_80 h80))).2.1
  have hda := decodeRune_take_append c rest h2 y
  obtain ⟨k, hk⟩ : ∃ k, (decodeRune (c :: rest)).2 = k + 1 := ⟨(decodeRune (c :: rest)).2 - 1, by omega⟩
  have hform : (c :: rest).take (decodeRune (c :: rest)).2 ++ y = c :: (rest.take k ++ y) := by
    rw [hk]; rfl
  rw [hform, std_plain_hi g c _ hc h80, ← hform, hda]
  congr 2
  exact List.drop_left' (by rw [List.length_take]; omega)

theorem hexv_lower : ∀ n, n < 16 → hexv (hexLower n) = n := by decide

theorem chunk_unquote (html : Bool) (g : Nat) (c : UInt8) (rest y : Bytes) :
    unquoteStd (g + 1) (chunk html c rest ++ y) = encodeRune (decodeRune (c :: rest)).1 ++ unquoteStd g y := by
  unfold chunk
  by_cases h80 : c < 0x80
  · simp only [h80, if_true, decodeRune_ascii c rest h80, encodeRune_ascii c h80]
    by_cases hs : safe c html = true
    · simp only [hs, if_true]
      exact std_plain_ascii g c y (safe_plain c html hs).1.2.1 h80
    · simp only [hs, Bool.false_eq_true, if_false]
      rcases esc_cases c with ⟨e, he, h1, _, h3⟩ | ⟨a, b, he, _, _, h4⟩
      · rw [he]; simp only [List.cons_append, List.nil_append]
        rw [std_simple g e y h1, h3]
      · rw [he]; simp only [List.cons_append, List.nil_append]
        have hlt : c.toNat < 0x80 := by simpa using UInt8.lt_iff_toNat_lt.mp h80
        have hns : isSurr (((hexv 0x30 * 16 + hexv 0x30) * 16 + hexv a) * 16 + hexv b) = false := by
          show isSurr (hex4 0x30 0x30 a b) = false
          rw [h4]; simp [isSurr]; omega
        rw [std_u_nonsurr g _ _ _ _ y hns]
        show encodeRune (hex4 0x30 0x30 a b) ++ _ = _
        rw [h4, encodeRune_ascii c h80]; rfl
  · simp only [h80, if_false]
    by_cases h1 : ((decodeRune (c :: rest)).1 == runeError && (decodeRune (c :: rest)).2 == 1) = true
    · simp only [h1, if_true, List.cons_append, List.nil_append]
      have hr : (decodeRune (c :: rest)).1 = runeError := by simp at h1; exact h1.1
      rw [std_u_nonsurr g _ _ _ _ y (by decide), hr]
      rfl
    · simp only [h1, Bool.false_eq_true, if_false]
      by_cases h2 : ((decodeRune (c :: rest)).1 == 0x2028 || (decodeRune (c :: rest)).1 == 0x2029) = true
      · simp only [h2, if_true, List.cons_append, List.nil_append]
        rcases rune_2028 h2 with e | e <;> rw [e] <;> rw [std_u_nonsurr g _ _ _ _ y (by decide)] <;> rfl
      · simp only [h2, Bool.false_eq_true, if_false]
        exact std_hi_take g c rest y h80 (size_ge_two c rest h80 h1)

/-! ### the whole output -/

theorem appendChars_nil (html : Bool) (f : Nat) : appendChars html f [] = [] := by
  cases f <;> simp [appendChars]

theorem chunk_length_pos (html : Bool) (c : UInt8) (rest : Bytes) : 1 ≤ (chunk html c rest).length := by
  unfold chunk
  by_cases h80 : c < 0x80
  · simp only [h80, if_true]
    by_cases hs : safe c html = true
    · simp [hs]
    · simp only [hs, Bool.false_eq_true, if_false]
      rcases esc_cases c with ⟨e, he, _⟩ | ⟨a, b, he, _⟩ <;> rw [he] <;> simp
  · simp only [h80, if_false]
    have hp := decodeRune_size_pos c rest
    repeat' split
    all_goals simp
    omega

/-- the grammar reads through the encoder's output -/
theorem chars_appendChars (html : Bool) (n : Nat) : ∀ (s : Bytes) (f : Nat) (y : Bytes), s.length ≤ n → s.length < f →
    chars (appendChars html f s ++ y) = chars y := by
  induction n with
  | zero =>
    intro s f y hs _
    have : s = [] := List.eq_nil_of_length_eq_zero (by omega)
    subst this; rw [appendChars_nil]; rfl
  | succ n ih =>
    intro s f y hs hf
    match s, f, hs, hf with
    | [], f, _, _ => rw [appendChars_nil]; rfl
    | c :: rest, f + 1, hs, hf =>
      have hl := drop_len_le c rest
      simp only [List.length_cons] at hs hf
      rw [appendChars_step, List.append_assoc, chunk_chars, ih _ f y (by omega) (by omega)]

/-- … and decodes it to the original string with invalid UTF-8 coerced -/
theorem unquote_appendChars (html : Bool) (n : Nat) : ∀ (s : Bytes) (f g : Nat), s.length ≤ n → s.length < f →
    (appendChars html f s).length ≤ g → unquoteStd g (appendChars html f s) = coerceUTF8 s := by
  induction n with
  | zero =>
    intro s f g hs _ _
    have : s = [] := List.eq_nil_of_length_eq_zero (by omega)
    subst this; rw [appendChars_nil, std_nil]; rfl
  | succ n ih =>
    intro s f g hs hf hg
    match s, f, hs, hf, hg with
    | [], f, _, _, _ => rw [appendChars_nil, std_nil]; rfl
    | c :: rest, f + 1, hs, hf, hg =>
      have hl := drop_len_le c rest
      have hc := chunk_length_pos html c rest
      simp only [List.length_cons] at hs hf
      rw [appendChars_step] at hg ⊢
      rw [List.length_append] at hg
      obtain ⟨g', rfl⟩ : ∃ g', g = g' + 1 := ⟨g - 1, by omega⟩
      rw [chunk_unquote, ih _ f g' (by omega) (by omega) (by omega), coerce_cons]

theorem appendString_eq (s : Bytes) (html : Bool) :
    appendString s html = 0x22 :: (appendChars html (s.length + 1) s ++ [0x22]) := by
  simp [appendString]

/-- **the grammar accepts the encoder's output as exactly one string**, whatever follows -/
theorem string_accepts (s : Bytes) (html : Bool) (rest : Bytes) :
    Spec.Json.string (appendString s html ++ rest) = some rest := by
  rw [appendString_eq, List.cons_append, Enc.Lemmas.JsonString.string_cons]
  simp only [beq_self_eq_true, if_true, List.append_assoc]
  rw [chars_appendChars html s.length s _ _ (Nat.le_refl _) (Nat.lt_succ_self _)]
  rw [List.cons_append, List.nil_append, chars_cons]; rfl

/-- what the decoder model computes on a literal the grammar accepts -/
theorem parseStringUnquote_of_string (fl : PFlags) (s rest : Bytes) (hq : QSound fl (0x22 :: (s ++ 0x22 :: rest)))
    (h : Spec.Json.string (0x22 :: (s ++ 0x22 :: rest)) = some rest) :
    parseStringUnquote fl (0x22 :: (s ++ 0x22 :: rest)) = some (unquoteStd (s.length + 1) s, rest) := by
  have ht := Enc.Lemmas.JsonString.parseString_toOpt fl _ hq
  rw [h] at ht
  unfold parseStringUnquote
  cases hp : parseString fl (0x22 :: (s ++ 0x22 :: rest)) with
  | err e => rw [hp] at ht; cases ht
  | ok k rest' =>
    rw [hp] at ht; simp only [Enc.Lemmas.JsonString.toOpt_ok, Option.some.injEq] at ht
    subst ht
    obtain ⟨s', hb, hk⟩ := Enc.Lemmas.JsonDecString.parseString_ok _ _ _ _ hq hp
    have hs : s' = s := by
      simp only [List.cons.injEq, true_and] at hb
      exact (List.append_cancel_right hb).symm
    subst hs
    simp only [Enc.Lemmas.JsonDecString.inner_extract]
    rcases hk with ⟨rfl, hs⟩ | ⟨rfl, hI⟩
    · simp only [beq_self_eq_true, if_true, Enc.Lemmas.JsonDecString.std_ascii_id s' hs _ (Nat.le_succ _)]
    · have : (Kind.string == Kind.unescaped) = false := by decide
      simp only [this, Bool.false_eq_true, if_false,
        Enc.Lemmas.JsonDecString.loop_eq_std s'.length s' (Nat.le_refl _) hI (s'.length + 1) (s'.length + 1) (Nat.le_refl _)
          (Nat.le_succ _), Option.map_some]

/-- **A (model level, any sound flags, any continuation).** The string decoder applied to the string encoder's output
returns the original string with invalid UTF-8 replaced by U+FFFD, and leaves exactly what followed. -/
theorem parseStringUnquote_encodeString (fl : PFlags) (s : Bytes) (html : Bool) (rest : Bytes)
    (hq : QSound fl (encodeString s html ++ rest)) :
    parseStringUnquote fl (encodeString s html ++ rest) = some (coerceUTF8 s, rest) := by
  rw [Enc.Lemmas.JsonEncString.encodeString_eq] at hq ⊢
  have hform : appendString s html ++ rest = 0x22 :: (appendChars html (s.length + 1) s ++ 0x22 :: rest) := by
    rw [appendString_eq]; simp
  have ha := string_accepts s html rest
  rw [hform] at hq ha ⊢
  rw [parseStringUnquote_of_string fl _ rest hq ha,
    unquote_appendChars html s.length s _ _ (Nat.le_refl _) (Nat.lt_succ_self _) (Nat.le_succ _)]

theorem ws_quote (r : Bytes) : Spec.Json.ws (0x22 :: r) = 0x22 :: r := rfl

/-- **A (stdlib terms).** encoding/json's `Unmarshal` of encoding/json's `appendString` output -/
theorem roundtrip_std (s : Bytes) (html : Bool) :
    Spec.Json.unmarshalString (appendString s html) = some (coerceUTF8 s) := by
  have ha := string_accepts s html []
  rw [List.append_nil] at ha
  have hform : appendString s html = 0x22 :: (appendChars html (s.length + 1) s ++ 0x22 :: []) := appendString_eq s html
  unfold Spec.Json.unmarshalString
  rw [hform] at ha ⊢
  simp only [ws_quote, ha]
  have hn : Spec.Json.nullLit.isPrefixOf (0x22 :: (appendChars html (s.length + 1) s ++ [0x22])) = false := rfl
  simp only [hn, Bool.false_eq_true, if_false]
  have hw : (Spec.Json.ws ([] : Bytes)).isEmpty = true := rfl
  simp only [hw, Bool.not_true, Bool.false_eq_true, if_false, Enc.Lemmas.JsonDecString.inner_extract]
  rw [unquote_appendChars html s.length s _ _ (Nat.le_refl _) (Nat.lt_succ_self _) (Nat.le_succ _)]

/-- **A (model terms, whole document).** `Unmarshal(Append(nil, s, flags), &str)`: no hypothesis at all -/
theorem roundtrip_model (s : Bytes) (html : Bool) :
    Model.Json.unmarshalString (encodeString s html) = some (coerceUTF8 s) := by
  rw [Enc.Lemmas.JsonDecString.unmarshalString_eq, Enc.Lemmas.JsonEncString.encodeString_eq, roundtrip_std]

/-- the two EscapeHTML settings differ in representation only -/
theorem escapeHTML_changes_representation_only (s : Bytes) :
    Model.Json.unmarshalString (encodeString s true) = Model.Json.unmarshalString (encodeString s false) := by
  rw [roundtrip_model, roundtrip_model]

theorem roundtrip_valid_utf8 (s : Bytes) (html : Bool) (h : Spec.Json.ValidUTF8 s) :
    Model.Json.unmarshalString (encodeString s html) = some s := by
  rw [roundtrip_model, coerce_of_valid s h]

/-- the validator model accepts the encoder's output -/
theorem validStd_appendString (s : Bytes) (html : Bool) : Spec.Json.validStd (appendString s html) = true := by
  have ha := string_accepts s html []
  rw [List.append_nil] at ha
  unfold Spec.Json.validStd
  rw [appendString_eq] at ha ⊢
  rw [ws_quote, Enc.Lemmas.JsonGrammar.value_succ_cons]
  simp only [ha]
  rfl

theorem valid_encodeString (s : Bytes) (html : Bool) : Model.Json.valid (encodeString s html) = true := by
  rw [Enc.Lemmas.JsonValid.valid_eq_validStd, Enc.Lemmas.JsonEncString.encodeString_eq, validStd_appendString]

/-- the token specification reads a string literal at (depth, index) as one scalar token -/
theorem tokValue_string (f depth index : Nat) (s rest : Bytes)
    (h : Spec.Json.string (0x22 :: s ++ rest) = some rest) :
    Spec.Json.tokValue (f + 1) depth index (0x22 :: s ++ rest) =
      some ([{ delim := 0, value := 0x22 :: s, depth := depth, index := index, isKey := false }], rest) := by
  have htake : List.take ((0x22 :: s ++ rest).length - rest.length) (0x22 :: s ++ rest) = 0x22 :: s := by
    have : (0x22 :: s ++ rest).length - rest.length = (0x22 :: s).length := by
      simp only [List.length_append]; omega
    rw [this, List.take_left']; rfl
  have hsc : Spec.Json.scalar (0x22 :: s ++ rest) = some (0x22 :: s, rest) := by
    rw [List.cons_append] at h htake ⊢
    simp only [Spec.Json.scalar, beq_self_eq_true, if_true, h, Option.map_some, htake]
  rw [List.cons_append] at hsc ⊢
  rw [Spec.Json.tokValue]
  have h1 : ((0x22 : UInt8) == 0x5b) = false := by decide
  have h2 : ((0x22 : UInt8) == 0x7b) = false := by decide
  simp only [h1, h2, Bool.false_eq_true, if_false, hsc, Option.map_some]

/-- the tokenizer specification sees the encoder's output as ONE token whose text is the whole output -/
theorem tokensOf_appendString (s : Bytes) (html : Bool) :
    Spec.Json.tokensOf (appendString s html) =
      some [{ delim := 0, value := appendString s html, depth := 0, index := 0, isKey := false }] := by
  have ha := string_accepts s html []
  have hform : appendString s html = 0x22 :: (appendChars html (s.length + 1) s ++ [0x22]) := appendString_eq s html
  unfold Spec.Json.tokensOf
  rw [hform] at ha ⊢
  rw [ws_quote]
  have := tokValue_string (3 * (0x22 :: (appendChars html (s.length + 1) s ++ [0x22])).length + 7) 0 0
    (appendChars html (s.length + 1) s ++ [0x22]) [] ha
  rw [List.append_nil] at this
  rw [show 3 * (0x22 :: (appendChars html (s.length + 1) s ++ [0x22])).length + 8 =
    3 * (0x22 :: (appendChars html (s.length + 1) s ++ [0x22])).length + 7 + 1 from rfl, this]
  rfl

/-- the tokenizer MODEL yields exactly one token, the whole output, and no error -/
theorem tokens_encodeString (s : Bytes) (html : Bool) :
    (Token.tokens (encodeString s html)).2 = false ∧
    (Token.tokens (encodeString s html)).1.map (fun t => (t.delim, t.value, t.depth, t.index, t.isKey)) =
      [(0, encodeString s html, 0, 0, false)] := by
  have h := Enc.Lemmas.TokSpec.tokens_spec (encodeString s html) _
    (by rw [Enc.Lemmas.JsonEncString.encodeString_eq]; exact tokensOf_appendString s html)
  rw [Enc.Lemmas.JsonEncString.encodeString_eq] at h ⊢
  exact h

/-! ### no raw control byte; with EscapeHTML no raw `<` `>` `&` -/

/-- a byte the encoder may write: not a control byte and, with EscapeHTML, none of `<` `>` `&` -/
def okByte (html : Bool) (b : UInt8) : Bool := 0x20 ≤ b && !(html && (b == 0x3c || b == 0x3e || b == 0x26))

theorem okByte_weaken (html : Bool) (b : UInt8) (h : okByte true b = true) : okByte html b = true := by
  cases html
  · simp only [okByte, Bool.and_eq_true, decide_eq_true_eq] at h ⊢; simp [h.1]
  · exact h

theorem esc_ok : ∀ n, n < 256 → (esc (UInt8.ofNat n)).all (okByte true) = true := by decide +kernel

theorem okByte_hi (html : Bool) (b : UInt8) (h : 0x80 ≤ b.toNat) : okByte html b = true := by
  apply okByte_weaken
  simp only [okByte, Bool.and_eq_true, decide_eq_true_eq, Bool.not_eq_true', Bool.true_and, Bool.or_eq_false_iff,
    beq_eq_false_iff_ne, ne_eq, UInt8.le_iff_toNat_le]
  refine ⟨by simp; omega, ⟨?_, ?_⟩, ?_⟩ <;> (intro e; subst e; simp at h)

theorem take_hi (c : UInt8) (rest : Bytes) (hc : 0x80 ≤ c.toNat) :
    ∀ b ∈ (c :: rest).take (decodeRune (c :: rest)).2, 0x80 ≤ b.toNat := by
  rcases Enc.Lemmas.JsonDecString.decodeRune_shape c rest with h | ⟨c1, r', rfl, h, h1⟩ | ⟨c1, c2, r', rfl, h, h1, h2⟩ |
      ⟨c1, c2, c3, r', rfl, h, h1, h2, h3⟩
  all_goals rw [h]
  all_goals intro b hb
  all_goals simp at hb
  · subst hb; exact hc
  · rcases hb with rfl | rfl <;> assumption
  · rcases hb with rfl | rfl | rfl <;> assumption
  · rcases hb with rfl | rfl | rfl | rfl <;> assumption

theorem chunk_bytes (html : Bool) (c : UInt8) (rest : Bytes) : ∀ b ∈ chunk html c rest, okByte html b = true := by
  unfold chunk
  by_cases h80 : c < 0x80
  · simp only [h80, if_true]
    by_cases hs : safe c html = true
    · simp only [hs, if_true, List.mem_singleton]
      intro b hb; subst hb
      simp only [safe, Bool.and_eq_true, decide_eq_true_eq, bne_iff_ne, ne_eq, Bool.not_eq_true'] at hs
      simp only [okByte, Bool.and_eq_true, decide_eq_true_eq, Bool.not_eq_true']
      exact ⟨hs.1.1.1.1, hs.2⟩
    · simp only [hs, Bool.false_eq_true, if_false]
      intro b hb
      have h := esc_ok c.toNat c.toNat_lt
      rw [UInt8.ofNat_toNat, List.all_eq_true] at h
      exact okByte_weaken html b (h b hb)
  · simp only [h80, if_false]
    have hall : ∀ x : Bytes, x.all (okByte true) = true → ∀ b ∈ x, okByte html b = true := by
      intro x hx b hb; rw [List.all_eq_true] at hx; exact okByte_weaken html b (hx b hb)
    by_cases h1 : ((decodeRune (c :: rest)).1 == runeError && (decodeRune (c :: rest)).2 == 1) = true
    · simp only [h1, if_true]; exact hall _ (by decide)
    · simp only [h1, Bool.false_eq_true, if_false]
      by_cases h2 : ((decodeRune (c :: rest)).1 == 0x2028 || (decodeRune (c :: rest)).1 == 0x2029) = true
      · simp only [h2, if_true]
        rcases rune_2028 h2 with e | e <;> rw [e] <;> exact hall _ (by decide)
      · simp only [h2, Bool.false_eq_true, if_false]
        intro b hb
        exact okByte_hi html b (take_hi c rest (not_lt_80 h80) b hb)

theorem appendChars_bytes (html : Bool) (n : Nat) : ∀ (s : Bytes) (f : Nat), s.length ≤ n → s.length < f →
    ∀ b ∈ appendChars html f s, okByte html b = true := by
  induction n with
  | zero =>
    intro s f hs _
    have : s = [] := List.eq_nil_of_length_eq_zero (by omega)
    subst this; rw [appendChars_nil]; intro b hb; cases hb
  | succ n ih =>
    intro s f hs hf
    match s, f, hs, hf with
    | [], f, _, _ => rw [appendChars_nil]; intro b hb; cases hb
    | c :: rest, f + 1, hs, hf =>
      have hl := drop_len_le c rest
      simp only [List.length_cons] at hs hf
      rw [appendChars_step]
      intro b hb
      rcases List.mem_append.mp hb with hb | hb
      · exact chunk_bytes html c rest b hb
      · exact ih _ f (by omega) (by omega) b hb

/-- the encoder's output contains no control byte and, with EscapeHTML, no `<`, `>`, `&` -/
theorem encodeString_bytes (s : Bytes) (html : Bool) : ∀ b ∈ encodeString s html, okByte html b = true := by
  rw [Enc.Lemmas.JsonEncString.encodeString_eq, appendString_eq]
  intro b hb
  have hq : okByte html 0x22 = true := by cases html <;> decide
  rcases List.mem_cons.mp hb with rfl | hb
  · exact hq
  · rcases List.mem_append.mp hb with hb | hb
    · exact appendChars_bytes html s.length s _ (Nat.le_refl _) (Nat.lt_succ_self _) b hb
    · simp only [List.mem_singleton] at hb; subst hb; exact hq


/-- flags that claim nothing are sound for every input -/
theorem qsound_default (b : Bytes) : QSound {} b := by
  intro p q _
  exact ⟨fun h => Bool.noConfusion h, fun h => Bool.noConfusion h⟩

/-- the decoder's two input-wide fast-path flags cannot change what the encoder's output means -/
theorem decode_flags_irrelevant (fl : PFlags) (s : Bytes) (html : Bool) (rest : Bytes)
    (hq : QSound fl (encodeString s html ++ rest)) :
    parseStringUnquote fl (encodeString s html ++ rest) = parseStringUnquote {} (encodeString s html ++ rest) := by
  rw [parseStringUnquote_encodeString fl s html rest hq, parseStringUnquote_encodeString {} s html rest (qsound_default _)]

#print axioms parseStringUnquote_encodeString
#print axioms roundtrip_std
#print axioms roundtrip_model
#print axioms valid_encodeString
#print axioms tokens_encodeString
#print axioms encodeString_bytes

end Enc.Lemmas.JsonRTString
