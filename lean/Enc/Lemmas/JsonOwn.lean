import Enc.Model.Json.Own
/-!
# json memory ownership: inputs untouched, results stable, aliasing opt-in

Proofs about `Enc.Model.Json.Own`: the provenance decision (`leafProv`) and the encode-buffer pool state machine
(`step` / `run`).
-/
namespace Enc.Lemmas.JsonOwn
open Enc Enc.Model.Json Enc.Model.Json.Own

/-! ## Part 1: provenance of decoded leaves -/

/-- without zero-copy flags every decoded leaf lives in memory of its own -/
theorem no_flags_fresh (pf : PFlags) (leaf : Leaf) (lit : Bytes) (p : Prov)
    (h : leafProv ⟨false, false, false⟩ pf leaf lit = some p) : p = .fresh := by
  cases leaf with
  | string =>
    simp only [leafProv] at h
    cases hn : unquoteIsNew pf lit with
    | none => simp [hn] at h
    | some new => cases new <;> simp [hn] at h <;> exact h.symm
  | number => simp [leafProv] at h; exact h.symm
  | raw => simp [leafProv] at h; exact h.symm
  | bytes => simp [leafProv] at h; exact h.symm

/-- aliasing is opt-in: a leaf shares memory with the input only if the flag for its kind is set — and a string only if,
in addition, it needed no unescaping -/
theorem alias_only_with_flag (fl : CopyFlags) (pf : PFlags) (leaf : Leaf) (lit : Bytes)
    (h : leafProv fl pf leaf lit = some .input) :
    match leaf with
    | .string => fl.dontCopyString = true ∧ unquoteIsNew pf lit = some false
    | .number => fl.dontCopyNumber = true
    | .raw => fl.dontCopyRawMessage = true
    | .bytes => False := by
  cases leaf with
  | string =>
    simp only [leafProv] at h
    show fl.dontCopyString = true ∧ unquoteIsNew pf lit = some false
    cases hn : unquoteIsNew pf lit with
    | none => simp [hn] at h
    | some new =>
      cases new with
      | true => simp [hn] at h
      | false =>
        cases hf : fl.dontCopyString with
        | false => simp [hn, hf] at h
        | true => exact ⟨rfl, rfl⟩
  | number =>
    show fl.dontCopyNumber = true
    cases hf : fl.dontCopyNumber with
    | false => simp [leafProv, hf] at h
    | true => rfl
  | raw =>
    show fl.dontCopyRawMessage = true
    cases hf : fl.dontCopyRawMessage with
    | false => simp [leafProv, hf] at h
    | true => rfl
  | bytes => simp [leafProv] at h

/-- …and with nothing else: provenance has only two values, the input buffer or memory made for the value -/
theorem prov_cases (p : Prov) : p = .input ∨ p = .fresh := by cases p <;> simp

/-! ## Part 2: results of Marshal stay stable under every later history of pool users -/

/-! ### closed forms of `step` -/

theorem step_marshal_nil (heap : List Bytes) (out : List Rid) (d : Bytes) :
    step ⟨heap, [], out⟩ (.marshal d)
      = ⟨(heap ++ [[]]).set heap.length d ++ [d], [heap.length], (heap.length + 1) :: out⟩ := by
  simp [step, getBuf, setAt]

theorem step_marshal_cons (heap : List Bytes) (b : Rid) (rest out : List Rid) (d : Bytes) :
    step ⟨heap, b :: rest, out⟩ (.marshal d) = ⟨heap.set b d ++ [d], b :: rest, heap.length :: out⟩ := by
  simp [step, getBuf, setAt]

theorem step_encode_nil (heap : List Bytes) (out : List Rid) (d : Bytes) :
    step ⟨heap, [], out⟩ (.encode d) = ⟨(heap ++ [[]]).set heap.length d, [heap.length], out⟩ := by
  simp [step, getBuf, setAt]

theorem step_encode_cons (heap : List Bytes) (b : Rid) (rest out : List Rid) (d : Bytes) :
    step ⟨heap, b :: rest, out⟩ (.encode d) = ⟨heap.set b d, b :: rest, out⟩ := by
  simp [step, getBuf, setAt]

theorem step_fail_nil (heap : List Bytes) (out : List Rid) :
    step ⟨heap, [], out⟩ .marshalFail = ⟨heap ++ [[]], [], out⟩ := by
  simp [step, getBuf]

theorem step_fail_cons (heap : List Bytes) (b : Rid) (rest out : List Rid) :
    step ⟨heap, b :: rest, out⟩ .marshalFail = ⟨heap, rest, out⟩ := by
  simp [step, getBuf]

/-! ### list facts -/

theorem get_grow_set {α} (h : List α) (x d : α) (r : Nat) (hr : r < h.length) :
    ((h ++ [x]).set h.length d)[r]? = h[r]? := by
  rw [List.getElem?_set_ne (by omega), List.getElem?_append_left hr]

theorem get_grow_set_snoc {α} (h : List α) (x d e : α) (r : Nat) (hr : r < h.length) :
    ((h ++ [x]).set h.length d ++ [e])[r]? = h[r]? := by
  rw [List.getElem?_append_left (by simp; omega), get_grow_set h x d r hr]

theorem get_set_snoc {α} (h : List α) (d e : α) (b r : Nat) (hr : r < h.length) (hne : b ≠ r) :
    (h.set b d ++ [e])[r]? = h[r]? := by
  rw [List.getElem?_append_left (by simpa using hr), List.getElem?_set_ne hne]

/-- `omega` does not look through the `Rid` abbreviation in `@LT.lt Rid ..`; unfold it first -/
local macro "omegaR" : tactic => `(tactic| ((try unfold Rid at *); omega))

/-! ### the invariant -/

/-- pool buffers and handed-out regions are allocated regions, and no handed-out region sits in the pool -/
def Inv (s : St) : Prop :=
  (∀ r ∈ s.pool, r < s.heap.length) ∧ (∀ r ∈ s.out, r < s.heap.length) ∧ (∀ r ∈ s.out, r ∉ s.pool)

theorem inv_init : Inv St.init := by simp [Inv, St.init]

/-- one library call keeps the invariant and leaves every handed-out region's bytes as they were -/
theorem step_inv (s : St) (op : Op) (hs : Inv s) :
    Inv (step s op) ∧ ∀ r ∈ s.out, (step s op).heap[r]? = s.heap[r]? ∧ r ∈ (step s op).out := by
  obtain ⟨heap, pool, out⟩ := s
  obtain ⟨hp, ho, hd⟩ := hs
  simp only at hp ho hd
  cases op with
  | marshal data =>
    cases pool with
    | nil =>
      rw [step_marshal_nil]
      refine ⟨⟨?_, ?_, ?_⟩, ?_⟩
      · intro r hr
        have : r = heap.length := by simpa using hr
        subst this; simp
      · intro r hr
        rcases List.mem_cons.mp hr with hr | hr
        · subst hr; simp
        · have := ho r hr; simp; omegaR
      · intro r hr hm
        have hm : r = heap.length := by simpa using hm
        rcases List.mem_cons.mp hr with hr | hr
        · omegaR
        · have := ho r hr; omegaR
      · intro r hr
        exact ⟨get_grow_set_snoc heap [] data data r (ho r hr), List.mem_cons_of_mem _ hr⟩
    | cons b rest =>
      rw [step_marshal_cons]
      refine ⟨⟨?_, ?_, ?_⟩, ?_⟩
      · intro r hr
        have := hp r hr
        simp; omegaR
      · intro r hr
        rcases List.mem_cons.mp hr with hr | hr
        · subst hr; simp
        · have := ho r hr; simp; omegaR
      · intro r hr hm
        rcases List.mem_cons.mp hr with hr | hr
        · subst hr
          have := hp _ hm
          omegaR
        · exact hd r hr hm
      · intro r hr
        have hne : b ≠ r := by
          intro h; subst h
          exact hd _ hr (List.mem_cons_self ..)
        exact ⟨get_set_snoc heap data data b r (ho r hr) hne, List.mem_cons_of_mem _ hr⟩
  | encode data =>
    cases pool with
    | nil =>
      rw [step_encode_nil]
      refine ⟨⟨?_, ?_, ?_⟩, ?_⟩
      · intro r hr
        have : r = heap.length := by simpa using hr
        subst this; simp
      · intro r hr
        have := ho r hr; simp; omegaR
      · intro r hr hm
        have hm : r = heap.length := by simpa using hm
        have := ho r hr; omegaR
      · intro r hr
        exact ⟨get_grow_set heap [] data r (ho r hr), hr⟩
    | cons b rest =>
      rw [step_encode_cons]
      refine ⟨⟨?_, ?_, ?_⟩, ?_⟩
      · intro r hr
        have := hp r hr
        simpa using this
      · intro r hr
        have := ho r hr
        simpa using this
      · intro r hr hm
        exact hd r hr hm
      · intro r hr
        have hne : b ≠ r := by
          intro h; subst h
          exact hd _ hr (List.mem_cons_self ..)
        exact ⟨List.getElem?_set_ne hne, hr⟩
  | marshalFail =>
    cases pool with
    | nil =>
      rw [step_fail_nil]
      refine ⟨⟨?_, ?_, ?_⟩, ?_⟩
      · intro r hr; simp at hr
      · intro r hr
        have := ho r hr; simp; omegaR
      · intro r hr hm; simp at hm
      · intro r hr
        exact ⟨List.getElem?_append_left (ho r hr), hr⟩
    | cons b rest =>
      rw [step_fail_cons]
      refine ⟨⟨?_, ?_, ?_⟩, ?_⟩
      · intro r hr
        exact hp r (List.mem_cons_of_mem _ hr)
      · intro r hr; exact ho r hr
      · intro r hr hm
        exact hd r hr (List.mem_cons_of_mem _ hm)
      · intro r hr; exact ⟨rfl, hr⟩

/-- **Results stay stable.** Whatever sequence of further Marshal / Encode calls (successful or failing) follows, every
region that was handed to a caller keeps its bytes — pooled buffers are reused, handed-out results never are. -/
theorem handed_out_stable (ops : List Op) (s : St) (hs : Inv s) :
    Inv (run s ops) ∧ ∀ r ∈ s.out, (run s ops).heap[r]? = s.heap[r]? := by
  induction ops generalizing s with
  | nil => exact ⟨hs, fun _ _ => rfl⟩
  | cons op rest ih =>
    have h1 := step_inv s op hs
    have h2 := ih (step s op) h1.1
    refine ⟨h2.1, fun r hr => ?_⟩
    have h3 := h1.2 r hr
    have h4 := h2.2 r h3.2
    show (run (step s op) rest).heap[r]? = s.heap[r]?
    rw [h4, h3.1]

/-- what Marshal hands out is the encoding, in a region of its own (no invariant needed: the result region is appended
after the pooled buffer has been overwritten, so an out-of-range pooled index cannot disturb it) -/
theorem marshal_result (s : St) (data : Bytes) :
    let s' := step s (.marshal data)
    ∃ r, s'.out = r :: s.out ∧ s'.heap[r]? = some data := by
  obtain ⟨heap, pool, out⟩ := s
  cases pool with
  | nil =>
    rw [step_marshal_nil]
    refine ⟨heap.length + 1, rfl, ?_⟩
    simp
  | cons b rest =>
    rw [step_marshal_cons]
    refine ⟨heap.length, rfl, ?_⟩
    simp

/-- non-vacuity: a pool history in which a buffer is reused three times while two results are outstanding -/
example : (run St.init [.marshal [1, 2], .encode [9, 9, 9], .marshal [3], .marshalFail, .encode [7]]).heap[1]? = some [1, 2] := by
  decide

end Enc.Lemmas.JsonOwn
