import Enc.Lemmas.ProtoTemplateTableG
import Enc.Lemmas.ProtoTemplateRawify
/-!
# Value level of message rewriting, general table form (any message type, any entries)

For a FIXED input every table entry of a `MessageRewriter` behaves like the constant rewriter returning what the entry
returns on the payload the loop hands it (`rawify`). The table of constants has no `embedded` node, so the record-level
theorem holds with equality (`rewrite_spec_exact`), and the generalized table theorem (`message_rewrite_valueG`) turns the
records into values, for ANY positional decoder `D` (nested messages that merge, repeated fields that append, maps).
-/
namespace Enc.Lemmas.ProtoTemplate
open Enc Enc.Spec.Protobuf Enc.Lemmas.ProtoRewriteSpec
open Enc.Model.Proto (Rw RwT rewrite rewriteT)

def rawRw (A : Nat → Bytes) : List (Nat × RwT) → List (Nat × Rw)
  | [] => []
  | (n, _) :: rest => (n, .raw (A n)) :: rawRw A rest

def sumLen (A : Nat → Bytes) : List (Nat × RwT) → Nat
  | [] => 0
  | (n, _) :: rest => (A n).length + sumLen A rest

theorem rawRw_facts (A : Nat → Bytes) (len : Nat) : ∀ (ents : List (Nat × RwT)), (∀ p, p ∈ ents → p.1 < len) →
    RwT.entsToRw? (rawOf A ents) = some (rawRw A ents) ∧ hasEmbEnts (rawRw A ents) = false ∧ fuelDEnts (rawRw A ents) ≤ 1 ∧
    sizeMEnts (rawRw A ents) = sumLen A ents ∧ entsOK len (rawRw A ents) = true ∧ (rawRw A ents).length = ents.length ∧
    (toSpecEnts (rawRw A ents)).map Prod.fst = ents.map Prod.fst
  | [], _ => by simp [RwT.entsToRw?, rawOf, rawRw, hasEmbEnts, fuelDEnts, sizeMEnts, sumLen, entsOK, toSpecEnts]
  | (i, r) :: rest, hlt => by
    obtain ⟨h1, h2, h3, h4, h5, h6, h7⟩ := rawRw_facts A len rest (fun p hp => hlt p (by simp [hp]))
    have hi : i < len := hlt (i, r) (by simp)
    simp [RwT.entsToRw?, RwT.toRw?, rawOf, rawRw, h1, hasEmbEnts, hasEmb, h2, fuelDEnts, fuelD, sizeMEnts, sizeM, sumLen, h4,
      entsOK, rwOK, h5, hi, h6, toSpecEnts, h7]
    omega

theorem mem_toSpec_rawRw (A : Nat → Bytes) : ∀ (ents : List (Nat × RwT)) (n : Nat) (e : SRw),
    (n, e) ∈ toSpecEnts (rawRw A ents) → e = .raw (A n) ∧ ∃ r, (n, r) ∈ ents
  | [], n, e, h => by simp [rawRw, toSpecEnts] at h
  | (i, r) :: rest, n, e, h => by
    simp only [rawRw, toSpecEnts, toSpec, List.mem_cons, Prod.mk.injEq] at h
    rcases h with ⟨rfl, rfl⟩ | h
    · exact ⟨rfl, r, by simp⟩
    · obtain ⟨a, r', b⟩ := mem_toSpec_rawRw A rest n e h
      exact ⟨a, r', by simp [b]⟩

theorem mem_toSpec_rawRw_of_mem (A : Nat → Bytes) : ∀ (ents : List (Nat × RwT)) (n : Nat) (r : RwT), (n, r) ∈ ents →
    (n, SRw.raw (A n)) ∈ toSpecEnts (rawRw A ents)
  | [], _, _, h => by simp at h
  | (i, q) :: rest, n, r, h => by
    simp only [List.mem_cons, Prod.mk.injEq] at h
    rcases h with ⟨rfl, rfl⟩ | h
    · simp [rawRw, toSpecEnts, toSpec]
    · simp only [rawRw, toSpecEnts, List.mem_cons]
      exact Or.inr (mem_toSpec_rawRw_of_mem A rest n r h)

/-- **VALUE LEVEL, general table form.** ANY message type `fs` (decoder = positional fold `foldG D`), ANY table `ents` of
template rewriters (`embeddedMerge`, `replacement`, `bitOr`, … included). `A n` = what entry `n` returns on the payload the
loop hands it for THIS input; if that output is a valid message whose records set position `I n` to `E n` (from the
initial value of the position), then the rewriter returns a message the reference decoder accepts, with exactly the
templated positions replaced. -/
theorem tableT_rewrite_value (D : Ty → FieldOpt → WireVal → Val → Option Val) (fs : Fields)
    (hD : ∀ b : Bytes, decode (.struct fs) b =
      (parse (b.length + 1) b).bind fun recs => (foldG D fs recs (zeroFields fs)).map Val.struct)
    (len : Nat) (ents : List (Nat × RwT)) (b : Bytes) (res : Vals)
    (hdec : decode (.struct fs) b = some (.struct res))
    (A : Nat → Bytes) (G0 : Nat) (hlt : ∀ p, p ∈ ents → p.1 < len) (hnd : (ents.map Prod.fst).Nodup)
    (hA : ∀ n r, (n, r) ∈ ents → ∀ G, G0 ≤ G → rewriteT G r (payloadOf b.length r n b) = .ok (A n))
    (I : Nat → Nat) (E : Nat → Option Val)
    (hsem : ∀ n r, (n, r) ∈ ents → ∃ a o t, Valid (A n) a ∧ findField fs n = some (I n, o, t) ∧
      ∀ vs, vs.length = fs.length → valsGet vs (I n) = valsGet (zeroFields fs) (I n) →
        foldG D fs a vs = some (match E n with | some x => valsSet vs (I n) x | none => vs))
    (hsz : (20 + sumLen A ents) * (b.length + 1) < 2 ^ 64) :
    ∃ out res', (∀ F, b.length + G0 + ents.length + 3 ≤ F → rewriteT F (.message len ents) b = .ok out) ∧
      decode (.struct fs) out = some (.struct res') ∧ res'.length = fs.length ∧
      (∀ j, (∀ n r, (n, r) ∈ ents → I n ≠ j) → valsGet res' j = valsGet res j) ∧
      (∀ n r, (n, r) ∈ ents → valsGet res' (I n) = (E n).getD (valsGet (zeroFields fs) (I n))) ∧
      out.length ≤ (20 + sumLen A ents) * (b.length + 1) := by
  obtain ⟨c1, c2, c3, c4, c5, c6, c7⟩ := rawRw_facts A len ents hlt
  have hvalid : ∃ recs0, Valid b recs0 := by
    rw [hD] at hdec
    cases hp : parse (b.length + 1) b with
    | none => simp [hp] at hdec
    | some recs => exact ⟨recs, hp⟩
  obtain ⟨recs0, hv⟩ := hvalid
  have hT : TabSemG D fs (zeroFields fs) (toSpecEnts (rawRw A ents)) I E := by
    refine ⟨by rw [c7]; exact hnd, ?_⟩
    intro n e hne
    obtain ⟨rfl, r, hr⟩ := mem_toSpec_rawRw A ents n e hne
    obtain ⟨a, o, t, hva, hfind, hfold⟩ := hsem n r hr
    exact ⟨a, o, t, fun k p => by simp only [specRw]; exact hva, hfind, hfold⟩
  obtain ⟨out, res', hrw, hd, hl, hsame, htempl⟩ := message_rewrite_valueG D fs hD len (rawRw A ents) I E c5 c2 hT b res
    (by rw [c4]; exact hsz) hdec
  refine ⟨out, res', ?_, hd, hl, ?_, ?_, ?_⟩
  rotate_left 3
  · have := rewrite_size _ _ b out (hrw (b.length + fuelD (.message len (rawRw A ents))) (Nat.le_refl _))
    simpa [sizeM, c4] using this
  · intro F hF
    rw [rawify len ents b recs0 hv A G0 hlt hnd hA F hF]
    have hto : RwT.toRw? (.message len (rawOf A ents)) = some (.message len (rawRw A ents)) := by
      simp [RwT.toRw?, c1]
    rw [rewriteT_eq_rewrite F _ _ b hto]
    exact hrw F (by simp only [fuelD, c6]; omega)
  · intro j hj
    apply hsame j
    intro n e hne
    obtain ⟨_, r, hr⟩ := mem_toSpec_rawRw A ents n e hne
    exact hj n r hr
  · intro n r hr
    exact htempl n _ (mem_toSpec_rawRw_of_mem A ents n r hr)

#print axioms tableT_rewrite_value

end Enc.Lemmas.ProtoTemplate
