import Enc.Lemmas.ThriftAcceptCanon
import Enc.Lemmas.ThriftSpec
import Enc.Lemmas.ThriftRoundTrip
/-!
# C13, second half (compact protocol): every conformant encoding is accepted with the same result

"Every specification-conformant encoding of the same content, including long forms where a short form exists, is
accepted by the Readers and by Unmarshal with the same result."

Files `ThriftAccept*.lean`, bottom-up:

  1. `…Prim`    the alternative forms as relations on bytes (`VarU` padded varints, `ListHdr`, `MapHdr`, `FieldHdrB`,
                `BytesC`) and their acceptance by the READERS with the same result as the canonical form:
                `readUvarint_UV`, `rVarint_UV`, `rLength_UV`, `rBytes_BytesC`, `rList_ListHdr`, `rMap_MapHdr`,
                `rField_FieldHdrB`; bool statements `rBool_byte`, `rBool_spec`, `ofCode_tcode_bool`
  2. `…Defs`    `Conf ty v bs`: the SET of conformant compact encodings of `v : ty` (choice of varint representation,
                header form, field order, presence of scalar-default optional fields, recursively), `Stream`, `ConfFields`
  3. `…Struct`  `decodeStruct_step`, `decodeStruct_stream`: the struct loop over records in ARBITRARY order
  4. `…Fields`  `struct_accept`: the struct decoder over any permutation of any conformant record list
  5. `…Main`    `accept_norm`: the main induction
  6. `…Canon`   `conf_canon`: the canonical encoding `Spec.Thrift.encode .compact ty v` is a member of the set
  7. this file  the entry points on the universe `U = ok ∩ RTS`, executable witnesses, observations

Universe `U ty v = ok ty v && RTS ty v`:
  * `ok`  (`ThriftSpecUniv`): bool, signed integer kinds, string, `[]byte`, slices, maps, sets, structs, pointers, named
          types, any nesting; no f32/f64 (the model writes and READS big-endian doubles where the compact specification
          says little-endian: known deviation, so a conformant double is misread), enum tag on Go kind int32 only, field
          ids positive and distinct; well-typed values, integers within their kind, nil allowed everywhere;
  * `RTS` (`ThriftRoundTripDefs`): sizes ≤ MaxInt32, field ids ≤ 32767, required pointer fields non-nil, map / set keys
          pairwise distinct after decoding.

The binary protocol has no alternative forms (fixed-width integers, one header layout per field / list / map); only the
message header has two (strict / non-strict), outside `Unmarshal`. Nothing is stated for it here.

Nesting depth: since the fix 9c8d6b4 the decoder refuses to enter a list / set / map / struct at depth ≥ maxDepth = 10000
(`Gen.c_thrift_maxDepth`), so a type nested deeper than maxDepth containers (`nest ty`) is rejected whatever the encoding;
the acceptance theorems carry the hypothesis `d + nest ty ≤ maxDepth` (`nest ty ≤ maxDepth` for `unmarshal`, which starts
at depth 0). It constrains the TYPE only and is deliberately not part of `U` / `Conf`. The same fix made the struct loop
reject a header byte `dddd 0000` with `dddd ≠ 0` (`deltaStop`); a conformant field header never has the type nibble 0
(`FieldHdrB` uses `tcode` ∈ 1 … 12), so long-form and short-form headers are accepted as before.
-/
namespace Enc.Lemmas.ThriftAccept
open Enc Enc.Model.Thrift Enc.Lemmas.ThriftPrim Enc.Lemmas.ThriftSkip Enc.Lemmas.ThriftSpec
open Enc.Lemmas.ThriftRoundTrip

theorem U_split {ty : Ty} {v : Val} (h : U ty v = true) : tyOK ty = true ∧ valOK ty v = true ∧ RTS ty v = true := by
  simp only [U, ok, Bool.and_eq_true] at h
  exact ⟨h.1.1, h.1.2, h.2⟩

/-- **decoder level**: every conformant encoding, followed by anything, is consumed exactly and decoded to `norm ty v` -/
theorem accept_decode (strict : Bool) (ty : Ty) (v : Val) (h : U ty v = true) (bs : Bytes) (hc : Conf ty v bs)
    (d fuel : Nat) (rest : Bytes) (hd : d + nest ty ≤ Gen.c_thrift_maxDepth) (hf : bs.length + depth ty ≤ fuel) :
    decode .compact strict d fuel ty (bs ++ rest) (zeroOf ty) = .ok (norm ty v, rest) := by
  obtain ⟨ht, hx, hR⟩ := U_split h
  exact accept_norm strict ty v d hd ht hx hR bs hc fuel rest hf

/-- **C13 (second half), entry point.** On `U`, for a type nested at most maxDepth containers deep (`hd`; deeper types
are rejected by the decoder since the fix 9c8d6b4), `Unmarshal` (compact protocol, strict or not) accepts EVERY conformant
encoding `bs` of `v` and returns the normal form `norm ty v`. -/
theorem accept_unmarshal (strict : Bool) (ty : Ty) (v : Val) (h : U ty v = true)
    (hd : nest ty ≤ Gen.c_thrift_maxDepth) (bs : Bytes) (hc : Conf ty v bs) :
    unmarshal .compact strict ty bs = .ok (norm ty v) := by
  have := accept_decode strict ty v h bs hc 0 (4 * bs.length + 64 + depth ty) [] (by omega) (by omega)
  rw [List.append_nil] at this
  unfold unmarshal
  rw [this]
  rfl

/-- the canonical encoding of the specification is conformant -/
theorem conf_canonical (ty : Ty) (v : Val) (h : U ty v = true) : Conf ty v (Spec.Thrift.encode .compact ty v) := by
  obtain ⟨ht, hx, hR⟩ := U_split h
  exact conf_canon ty v ht hx hR

/-- … and so is what `Marshal` writes (first half of C13: `encode_compact_eq_spec`) -/
theorem conf_marshal (ty : Ty) (v : Val) (h : U ty v = true) : Conf ty v (marshal .compact ty v) := by
  have hok : ok ty v = true := by simp only [U, Bool.and_eq_true] at h; exact h.1
  rw [marshal_compact_eq_spec ty v hok]
  exact conf_canonical ty v h

/-- **same result as the canonical encoding**: any two conformant encodings of the same value are decoded to the same
value; in particular every conformant encoding gives what `Unmarshal(Marshal(v))` gives. -/
theorem accept_same (strict : Bool) (ty : Ty) (v : Val) (h : U ty v = true)
    (hd : nest ty ≤ Gen.c_thrift_maxDepth) (bs bs' : Bytes)
    (hc : Conf ty v bs) (hc' : Conf ty v bs') :
    unmarshal .compact strict ty bs = unmarshal .compact strict ty bs' := by
  rw [accept_unmarshal strict ty v h hd bs hc, accept_unmarshal strict ty v h hd bs' hc']

theorem accept_same_as_canonical (strict : Bool) (ty : Ty) (v : Val) (h : U ty v = true)
    (hd : nest ty ≤ Gen.c_thrift_maxDepth) (bs : Bytes) (hc : Conf ty v bs) :
    unmarshal .compact strict ty bs = unmarshal .compact strict ty (Spec.Thrift.encode .compact ty v) :=
  accept_same strict ty v h hd bs _ hc (conf_canonical ty v h)

theorem accept_same_as_marshal (strict : Bool) (ty : Ty) (v : Val) (h : U ty v = true)
    (hd : nest ty ≤ Gen.c_thrift_maxDepth) (bs : Bytes) (hc : Conf ty v bs) :
    unmarshal .compact strict ty bs = unmarshal .compact strict ty (marshal .compact ty v) :=
  accept_same strict ty v h hd bs _ hc (conf_marshal ty v h)

/-- the depth hypothesis is satisfiable for nested types (`[]map[string]struct{ A []int32 }`: 4 containers) -/
example : nest (.slice (.map .str (.struct (.cons "A" "thrift:\"1\"" false (.slice (.int .i32)) .nil))))
    ≤ Gen.c_thrift_maxDepth := by decide

/-- **any order, any header form**: every field stream over any permutation of the specification's record list is a
conformant encoding of the struct (so it is accepted with the result of the canonical one) -/
theorem conf_struct_reorder (fs : Fields) (vs : Vals) (h : U (.struct fs) (.struct vs) = true)
    (order : List Spec.Thrift.FRec) (hperm : order.Perm (Spec.Thrift.recs .compact fs vs)) (bs : Bytes)
    (hs : Stream order 0 bs) : Conf (.struct fs) (.struct vs) bs := by
  obtain ⟨ht, hx, hR⟩ := U_split h
  simp only [tyOK, Bool.and_eq_true] at ht
  simp only [valOK] at hx
  simp only [RTS, structOK, Bool.and_eq_true] at hR
  simp only [Conf]
  exact ⟨vs, rfl, _, order, confFields_canon fs vs ht.1.1 hx hR.2, hperm, hs⟩

/-! ## executable witnesses (`#guard`: evaluated at build time) -/
namespace Witness

def tg (s : String) : String := "thrift:\"" ++ s ++ "\""
def mk (l : List Val) : Vals := Vals.ofList l
def un (strict : Bool) (ty : Ty) (b : Bytes) : String := (unmarshal .compact strict ty b).show Val.show

/-- `struct { A int32 (1); B bool (2); C []string (3, required); D int64 (4) }` -/
def T : Ty := .struct <|
  .cons "A" (tg "1") false (.int .i32) <|
  .cons "B" (tg "2") false .bool <|
  .cons "C" (tg "3,required") false (.slice .str) <|
  .cons "D" (tg "4") false (.int .i64) .nil
def tv : Val := .struct (mk [.int 5, .bool true, .list (mk [.str [0x61]]), .int 0])

/-- the canonical encoding: ids ascending, delta headers, short list header, minimal varints, `D = 0` left out -/
def canonical : Bytes := [0x15, 0x0a, 0x11, 0x19, 0x18, 0x01, 0x61, 0x00]
/-- a conformant alternative: order C, D, B, A; long field headers for C, B, A (B and A go BACKWARDS, no delta form
exists), delta header for D after C; long list header `F8` + padded size `81 00`; padded string length `81 80 00`; the
default-valued optional field D written; padded zig-zag id `82 00` and value `8a 00` for A -/
def alternative : Bytes :=
  [0x09, 0x06, 0xF8, 0x81, 0x00, 0x81, 0x80, 0x00, 0x61,   -- C
   0x16, 0x00,                                             -- D (delta 1 after id 3), value 0
   0x01, 0x04,                                             -- B = true, long form, id 2
   0x05, 0x82, 0x00, 0x8a, 0x00,                           -- A, long form, padded id 1, padded value 5
   0x00]

#guard U T tv
#guard Spec.Thrift.encode .compact T tv == canonical && marshal .compact T tv == canonical
#guard un true T canonical == "ok:" ++ (norm T tv).show
#guard un true T alternative == "ok:" ++ (norm T tv).show && un false T alternative == "ok:" ++ (norm T tv).show

/-- a hand-checked member of `Conf` that is not canonical: a one-element bool list with the long list header -/
example : Conf (.slice .bool) (.list (mk [.bool true])) [0xF2, 0x01, 0x01] := by
  simp only [Conf, isU8, Bool.false_eq_true, if_false]
  exact ⟨[0xF2, 0x01], [[1]], .long 2 [0x01] (Or.inl rfl) ⟨.last 1 (by omega), by simp⟩, .cons ⟨true, rfl, rfl⟩ .nil, rfl⟩
#guard Spec.Thrift.encode .compact (.slice .bool) (.list (mk [.bool true])) == [0x12, 0x01]
#guard un true (.slice .bool) [0xF2, 0x01, 0x01] == "ok:l 1 b1" && un true (.slice .bool) [0x12, 0x01] == "ok:l 1 b1"

/-- an all-default struct in an optional field: left out by the canonical writer, but a writer may send it, empty or with
its own default fields written -/
def T3 : Ty := .struct <|
  .cons "S" (tg "1") false (.struct (.cons "X" (tg "1") false (.int .i32) .nil)) <|
  .cons "Y" (tg "2") false .bool .nil
def tv3 : Val := .struct (mk [.struct (mk [.int 0]), .bool true])
#guard U T3 tv3 && Spec.Thrift.encode .compact T3 tv3 == [0x21, 0x00]
#guard un true T3 [0x21, 0x00] == "ok:" ++ (norm T3 tv3).show
#guard un true T3 [0x1C, 0x00, 0x11, 0x00] == "ok:" ++ (norm T3 tv3).show
#guard un true T3 [0x1C, 0x15, 0x00, 0x00, 0x11, 0x00] == "ok:" ++ (norm T3 tv3).show

/-! ### limits of the set: what is NOT a conformant encoding of the same content -/
-- an 11-byte varint is rejected (Go: `binary.ReadUvarint` overflow); 10 bytes are accepted
#guard un true (.int .i64)
  [0x81, 0x80, 0x80, 0x80, 0x80, 0x80, 0x80, 0x80, 0x80, 0x80, 0x00] == "err:overflow"
#guard un true (.int .i64) [0x82, 0x80, 0x80, 0x80, 0x80, 0x80, 0x80, 0x80, 0x80, 0x00] == "ok:i 1"
-- a nil `[]string` in an OPTIONAL field is left out by every conformant writer; written as an empty list it comes back
-- EMPTY, not nil (Go content differs): this is why `plainDefault` excludes nil collections
def T2 : Ty := .struct (.cons "L" (tg "1") false (.slice .str) .nil)
#guard un true T2 [0x00] == "ok:t 1 nil" && un true T2 [0x19, 0x08, 0x00] == "ok:t 1 l 0"

-- doubles are outside `U`: the specification writes them little-endian, the model reader (as the Go code) takes the
-- eight bytes big-endian (known deviation `thriftCompactDoubleBE`): the conformant encoding of 1.0 is MISREAD
#guard Spec.Thrift.encode .compact .f64 (.float 0x3FF0000000000000) == [0, 0, 0, 0, 0, 0, 0xF0, 0x3F] &&
  un true .f64 [0, 0, 0, 0, 0, 0, 0xF0, 0x3F] == "ok:f 61503"

/-! ### bool type nibble 1 in list / set / map headers

The specification text implemented in `Enc.Spec.Thrift` announces a bool element / key / value type as nibble `2`;
writers with a single type table send `1` (the TRUE code of field headers) and readers must accept both. `ElemCode`
admits both, so these encodings are members of `Conf` and `accept_unmarshal` covers them. (The map cases were rejected
with `typeMismatch` — non-strict: the map dropped, its entries left unread — before `decodeFuncMapOf` was repaired to
translate TRUE → BOOL like the list and set decoders.) -/
def mb : Ty := .map .bool (.int .i8)
def mbv : Val := .map (mk [.bool true, .int 5])
def bm : Ty := .map (.int .i8) .bool
def bmv : Val := .map (mk [.int 5, .bool true])
#guard U mb mbv && U bm bmv
#guard Spec.Thrift.encode .compact mb mbv == [0x01, 0x23, 0x01, 0x05]
#guard un true mb [0x01, 0x23, 0x01, 0x05] == "ok:m 1 b1 i 5"
-- KEY type nibble 1
#guard un true mb [0x01, 0x13, 0x01, 0x05] == "ok:m 1 b1 i 5" && un false mb [0x01, 0x13, 0x01, 0x05] == "ok:m 1 b1 i 5"
-- VALUE type nibble 1
#guard un true bm [0x01, 0x31, 0x05, 0x01] == "ok:m 1 i 5 b1" && un false bm [0x01, 0x31, 0x05, 0x01] == "ok:m 1 i 5 b1"
-- list header with element-type nibble 1
#guard un true (.slice .bool) [0x11, 0x01] == "ok:l 1 b1"

/-- the key-nibble-1 encoding is conformant … -/
theorem mb_conf : Conf mb mbv [0x01, 0x13, 0x01, 0x05] := by
  simp only [mb, Conf, Spec.Thrift.isUnit, Bool.false_eq_true, if_false]
  refine ⟨[0x01, 0x13], [[0x01, 0x05]], ?_, ?_, rfl⟩
  · exact MapHdr.nonempty 1 3 [0x01] (Or.inr ⟨rfl, rfl⟩) (Or.inl rfl) (by decide) ⟨.last 1 (by omega), by simp⟩
  · exact .cons ⟨[1], [5], ⟨true, rfl, rfl⟩, ⟨5, rfl, by simp [IntKind.bits]; rfl⟩, rfl⟩ .nil
/-- … and so is the value-nibble-1 encoding -/
theorem bm_conf : Conf bm bmv [0x01, 0x31, 0x05, 0x01] := by
  simp only [bm, Conf, Spec.Thrift.isUnit, Bool.false_eq_true, if_false]
  refine ⟨[0x01, 0x31], [[0x05, 0x01]], ?_, ?_, rfl⟩
  · exact MapHdr.nonempty 3 1 [0x01] (Or.inl rfl) (Or.inr ⟨rfl, rfl⟩) (by decide) ⟨.last 1 (by omega), by simp⟩
  · exact .cons ⟨[5], [1], ⟨5, rfl, by simp [IntKind.bits]; rfl⟩, ⟨true, rfl, rfl⟩, rfl⟩ .nil
/-- hence accepted, as instances of the general theorem -/
example (strict : Bool) : unmarshal .compact strict mb [0x01, 0x13, 0x01, 0x05] = .ok (norm mb mbv) :=
  accept_unmarshal strict mb mbv (by decide) (by decide) _ mb_conf
example (strict : Bool) : unmarshal .compact strict bm [0x01, 0x31, 0x05, 0x01] = .ok (norm bm bmv) :=
  accept_unmarshal strict bm bmv (by decide) (by decide) _ bm_conf

/-! ### not conformant, rejected since the fix 9c8d6b4: a "stop" byte with a non-zero delta nibble
(`Stream` ends with the byte 0 only, and `FieldHdrB` never has the type nibble 0, so this is outside `Conf`) -/
#guard un true (.struct .nil) [0x00] == "ok:t 0" && un true (.struct .nil) [0x10] == "err:deltaStop" &&
  un false (.struct .nil) [0x10] == "err:deltaStop"

/-! ### observation on bool ELEMENT values (outside the specification text implemented in `Enc.Spec.Thrift`) -/
-- the specification writes a bool element as `1` / `0`; the reader takes every non-zero byte for true, so element
-- value 2 (the FALSE code of field headers, which some writers also use for elements) reads as TRUE
#guard un true (.slice .bool) [0x12, 0x02] == "ok:l 1 b1"

end Witness

end Enc.Lemmas.ThriftAccept

#print axioms Enc.Lemmas.ThriftAccept.accept_unmarshal
#print axioms Enc.Lemmas.ThriftAccept.accept_decode
#print axioms Enc.Lemmas.ThriftAccept.accept_same_as_marshal
#print axioms Enc.Lemmas.ThriftAccept.conf_canonical
#print axioms Enc.Lemmas.ThriftAccept.conf_marshal
#print axioms Enc.Lemmas.ThriftAccept.struct_accept
#print axioms Enc.Lemmas.ThriftAccept.decodeStruct_stream
#print axioms Enc.Lemmas.ThriftAccept.decodeStruct_step
#print axioms Enc.Lemmas.ThriftAccept.rField_FieldHdrB
#print axioms Enc.Lemmas.ThriftAccept.rList_ListHdr
#print axioms Enc.Lemmas.ThriftAccept.rMap_MapHdr
#print axioms Enc.Lemmas.ThriftAccept.rBytes_BytesC
#print axioms Enc.Lemmas.ThriftAccept.readUvarint_UV
#print axioms Enc.Lemmas.ThriftAccept.rVarint_UV
