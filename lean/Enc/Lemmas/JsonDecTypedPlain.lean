import Enc.Lemmas.JsonDecTypedSpecU
/-!
# C02, typed targets, part 4: side conditions of the main induction

`plain` (the target holds no interface-held pointer: the content reachable by decoding documents into a zero value),
`noPP` (no pointer to pointer in the type: finding jsonNullNestedPointer), the relation `RelE` between a model result and a
specification result, the fuel bounds.
-/
namespace Enc.Lemmas.JsonDecTypedPlain
open Enc Enc.Model.Json Enc.Model.Json.Typed Enc.Lemmas.JsonDecTyped

mutual
/-- no interface of the content holds a pointer -/
def plain : JV → Bool
  | .slice _ vs st => plains vs && plains st
  | .array vs => plains vs
  | .map _ ms => plainMs ms
  | .ptr _ v => plain v
  | .strct vs => plains vs
  | .anyp _ _ _ => false
  | _ => true
def plains : JVs → Bool
  | .nil => true
  | .cons v r => plain v && plains r
def plainMs : JMs → Bool
  | .nil => true
  | .cons _ v r => plain v && plainMs r
end

mutual
/-- no pointer to a pointer -/
def noPP : JT → Bool
  | .ptr e => !e.isPtr && noPP e
  | .slice e => noPP e
  | .array _ e => noPP e
  | .mapS e => noPP e
  | .strct fs => noPPs fs
  | _ => true
def noPPs : JFs → Bool
  | .nil => true
  | .cons _ t r => noPP t && noPPs r
end

theorem plains_replicate {v : JV} (hv : plain v = true) : ∀ n, plains (JVs.replicate v n) = true
  | 0 => rfl
  | n + 1 => by simp [JVs.replicate, plains, hv, plains_replicate hv n]

mutual
theorem plain_zero : (t : JT) → plain (zeroOf t) = true
  | .bool => rfl
  | .int _ => rfl
  | .float => rfl
  | .str => rfl
  | .slice _ => rfl
  | .array n e => by simp only [zeroOf, plain]; exact plains_replicate (plain_zero e) n
  | .mapS _ => rfl
  | .ptr _ => rfl
  | .strct fs => by simp only [zeroOf, plain]; exact plains_zeros fs
  | .any => rfl
theorem plains_zeros : (fs : JFs) → plains (zerosOf fs) = true
  | .nil => rfl
  | .cons _ t r => by simp [zerosOf, plains, plain_zero t, plains_zeros r]
end

theorem plains_append : (a b : JVs) → plains (a.append b) = (plains a && plains b)
  | .nil, b => by simp [JVs.append, plains]
  | .cons v r, b => by simp [JVs.append, plains, plains_append r b, Bool.and_assoc]

theorem plains_tail : (a : JVs) → plains a = true → plains a.tail = true
  | .nil, _ => rfl
  | .cons _ r, h => by simp only [plains, Bool.and_eq_true] at h; exact h.2

theorem plain_headD (a : JVs) (z : JV) (h : plains a = true) (hz : plain z = true) : plain ((a.head?).getD z) = true := by
  cases a with
  | nil => exact hz
  | cons v r => simp only [plains, Bool.and_eq_true] at h; exact h.1

theorem plain_getD : (a : JVs) → (i : Nat) → (z : JV) → plains a = true → plain z = true → plain ((a.get? i).getD z) = true
  | .nil, _, _, _, hz => hz
  | .cons v _, 0, _, h, _ => by simp only [plains, Bool.and_eq_true] at h; exact h.1
  | .cons _ r, i + 1, z, h, hz => by
    simp only [plains, Bool.and_eq_true] at h
    exact plain_getD r i z h.2 hz

theorem plains_set : (a : JVs) → (i : Nat) → (x : JV) → plains a = true → plain x = true → plains (a.set i x) = true
  | .nil, _, _, _, _ => rfl
  | .cons _ r, 0, x, h, hx => by
    simp only [plains, Bool.and_eq_true] at h; simp [JVs.set, plains, hx, h.2]
  | .cons v r, i + 1, x, h, hx => by
    simp only [plains, Bool.and_eq_true] at h; simp [JVs.set, plains, h.1, plains_set r i x h.2 hx]

theorem plainMs_insert (k : Bytes) (v : JV) (hv : plain v = true) : (m : JMs) → plainMs m = true → plainMs (m.insert k v) = true
  | .nil, _ => by simp [JMs.insert, plainMs, hv]
  | .cons k' v' r, h => by
    simp only [plainMs, Bool.and_eq_true] at h
    simp only [JMs.insert]
    split
    · simp [plainMs, hv, h.2]
    · split
      · simp [plainMs, hv, h.1, h.2]
      · simp [plainMs, h.1, plainMs_insert k v hv r h.2]

/-! ### relations between model results and specification results -/

/-- the remainder starts with a digit: whatever comes next in a JSON text fails on it -/
def dig : Bytes → Bool
  | c :: _ => isDigit c
  | [] => false

/-- every successful model result satisfies `P` -/
def RP {α : Type} (P : α → Bool) (m : TR α) : Prop := ∀ v r, m = .ok v r → P v = true

/-- loops and containers: same success part -/
def RelL {α : Type} (P : α → Bool) (m : TR α) (s : Spec.Json.SR α) : Prop := okM m = okS s ∧ RP P m

/-- values: same success part, except that the model may already fail where the specification stops in front of a digit
(`01`: parseInt rejects the leading zero at once, the grammar matches `0` and fails on what follows) -/
def RelE (m : TR JV) (s : Spec.Json.SR JV) : Prop :=
  (okM m = okS s ∨ (okM m = none ∧ ∃ v r, okS s = some (v, r) ∧ dig r = true)) ∧ RP plain m

/-- values, exact: same success part (what every kind but the integers — and pointers to them — satisfies) -/
def RelX (m : TR JV) (s : Spec.Json.SR JV) : Prop := okM m = okS s ∧ RP plain m

theorem RelX.toE {m : TR JV} {s : Spec.Json.SR JV} (h : RelX m s) : RelE m s := ⟨Or.inl h.1, h.2⟩

/-- fuel bound of a value of type `t` at input `b` (3 per input byte as the generic decoder needs, 2 per type constructor:
container → loop, pointer → pointee), chosen so that `typedFuel` of the model is above it -/
def NB (b : Bytes) (t : JT) : Nat := 3 * b.length + 2 * sizeT t + 4
/-- fuel bound of a loop over elements whose type has size `k` -/
def LB (s : Bytes) (k : Nat) : Nat := 3 * s.length + 2 * k + 5

theorem okM_mapOk {α β : Type} (f : α → β) (m : TR α) : okM (mapOk f m) = (okM m).map fun x => (f x.1, x.2) := by
  cases m <;> rfl

theorem okS_map_fst {α β : Type} (f : α → β) (s : Spec.Json.SR α) :
    okS (s.map fun x => (f x.1, x.2)) = (okS s).map fun x => (f x.1, x.2) := by
  cases s with
  | none => rfl
  | some x => obtain ⟨v, bad, r⟩ := x; cases bad <;> rfl

end Enc.Lemmas.JsonDecTypedPlain
