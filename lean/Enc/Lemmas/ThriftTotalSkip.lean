import Enc.Lemmas.ThriftTotalBase
/-!
C08, thrift: the generic skipper (`skip`, `skipN`, `skipPairs`, `skipStruct`) is a prefix reader, for EVERY input
(not only encoder output), every wire type, every fuel:

  * `pre_skip`        `Pre true PS (skip p d fuel t)` (every depth `d`): consumes ≥ 1 byte of a prefix, depends on that prefix only, and on
                      every proper prefix of it fails with `"eof"` (cut at 0) / `"unexpectedEof"` (cut anywhere else)
  * `pre_skipN`, `pre_skipPairs`      uniform class `PU` (they run under `dontExpectEOF`)
  * `pre_skipStruct`  `PS` for the first field header (`num = 0`), `PU` afterwards
  * `skip_ne_panic` …  the skippers never panic
-/
namespace Enc.Lemmas.ThriftTotal
open Enc Enc.Model.Thrift Enc.Lemmas.ThriftPrim

theorem pre_dropN (n : Nat) :
    Pre false PU (fun r => (if hasAtLeast r n then .ok ((), r.drop n) else .err "unexpectedEof" : R Unit)) := by
  intro b v r h
  dsimp only at h
  rw [hasAtLeast_iff] at h
  by_cases hn : n ≤ b.length
  · simp only [hn, decide_true, if_true, Res.ok.injEq, Prod.mk.injEq] at h
    obtain ⟨_, rfl⟩ := h
    have hlen : (b.take n).length = n := by simp; omega
    refine ⟨b.take n, (List.take_append_drop n b).symm, by simp, fun r' => ?_, fun k hk => ?_⟩
    · dsimp only
      rw [hasAtLeast_iff]
      have : n ≤ (b.take n ++ r').length := by simp; omega
      simp only [this, decide_true, if_true]
      rw [List.drop_append_of_le_length (by omega), List.drop_of_length_le (by omega)]
      simp
    · rw [hlen] at hk
      refine ⟨_, ?_, rfl⟩
      dsimp +instances only
      rw [hasAtLeast_iff]
      have : ¬ n ≤ ((b.take n).take k).length := by simp; omega
      simp only [this, decide_false, Bool.false_eq_true, if_false]
  · simp only [hn, decide_false, Bool.false_eq_true, if_false] at h
    cases h

/-- the error mapping of `readStruct` is `wrapE (0 < num)` -/
theorem wrapE_err (α : Type) (num : Nat) (e : String) :
    (if num > 0 ∧ (e == "eof") = true then (.err "unexpectedEof" : R α) else .err e) =
      wrapE (decide (0 < num)) (.err e) := by
  unfold wrapE
  by_cases hn : 0 < num
  · simp only [hn, decide_true, if_true, dontExpectEOF_err]
    by_cases he : e = "eof" <;> simp [he]
  · have : ¬ (num > 0) := hn
    simp [this]

theorem wrapE_ok {α} (c : Bool) (x : α × Bytes) : wrapE c (.ok x : R α) = .ok x := by
  unfold wrapE; cases c <;> simp [dontExpectEOF_ok]

theorem wrapE_panic {α} (c : Bool) (e : String) : wrapE c (.panic e : R α) = .panic e := by
  unfold wrapE; cases c
  · rfl
  · simp only [if_true]; unfold dontExpectEOF; split <;> simp_all

theorem skipStruct_succ (p : Proto) (d fuel : Nat) (b : Bytes) (last : Int) (num : Nat) :
    skipStruct p d (fuel + 1) b last num =
      (wrapE (decide (0 < num)) (rField p b)).bind fun ((h, r) : FieldHdr × Bytes) =>
        if h.t == .stop then (if h.delta then .err "deltaStop" else .ok ((), r))
        else
          (dontExpectEOF (if (h.t == .true_ || h.t == .bool) && p.coalesce then (.ok ((), r) : R Unit)
            else skip p d fuel h.t r)).bind
            fun ((_, r) : Unit × Bytes) =>
              skipStruct p d fuel r (wrap16 (if h.delta then h.id + last else h.id)) (num + 1) := by
  rw [skipStruct]
  cases hr : rField p b with
  | ok hr' => obtain ⟨h, r⟩ := hr'; simp only [wrapE_ok, Res.bind]
  | err e => simp only [wrapE_err, Res.bind]; cases (decide (0 < num)) <;> simp [wrapE, dontExpectEOF_err] <;> split <;> rfl
  | panic e => simp only [wrapE_panic, Res.bind]

def PStruct (num : Nat) : Nat → String → Prop := if num = 0 then PS else PU

theorem PStruct_pos (num k : Nat) (h : 0 < k) : PStruct num k "unexpectedEof" := by
  unfold PStruct; split
  · exact PS_pos k h
  · rfl

theorem PStruct_succ (num : Nat) : PStruct (num + 1) = PU := by
  unfold PStruct; simp

theorem pre_wrapE_rField (p : Proto) (num : Nat) :
    Pre true (PStruct num) (fun b => wrapE (decide (0 < num)) (rField p b)) := by
  have := Pre.wrapE (decide (0 < num)) (pre_rField p)
  refine this.imp (fun k e h => ?_)
  unfold PStruct
  by_cases hn : num = 0
  · subst hn; simpa using h
  · have : 0 < num := by omega
    simpa [hn, this] using h

theorem skip_all (p : Proto) : ∀ fuel,
    (∀ d t, Pre true PS (fun b => skip p d fuel t b)) ∧
    (∀ d t n, Pre false PU (fun b => skipN p d fuel t n b)) ∧
    (∀ d kt vt n, Pre false PU (fun b => skipPairs p d fuel kt vt n b)) ∧
    (∀ d last num, Pre true (PStruct num) (fun b => skipStruct p d fuel b last num)) := by
  intro fuel
  induction fuel with
  | zero =>
    refine ⟨fun d t => ?_, fun d t n => ?_, fun d kt vt n => ?_, fun d last num => ?_⟩
    · simp only [skip]; exact Pre.err _
    · simp only [skipN]; exact Pre.err _
    · simp only [skipPairs]; exact Pre.err _
    · simp only [skipStruct]; exact Pre.err _
  | succ fuel ih =>
    obtain ⟨ih1, ih2, ih3, ih4⟩ := ih
    refine ⟨fun d t => ?_, fun d t n => ?_, fun d kt vt n => ?_, fun d last num => ?_⟩
    · cases t with
      | true_ | bool => simp only [skip]; exact Pre.bind_post (pre_rBool p) (by pure_tac)
      | i8 => simp only [skip]; exact Pre.bind_post (pre_rI8 p) (by pure_tac)
      | i16 => simp only [skip]; exact Pre.bind_post (pre_rI16 p) (by pure_tac)
      | i32 => simp only [skip]; exact Pre.bind_post (pre_rI32 p) (by pure_tac)
      | i64 => simp only [skip]; exact Pre.bind_post (pre_rI64 p) (by pure_tac)
      | double => simp only [skip]; exact Pre.bind_post (pre_rDouble p) (by pure_tac)
      | binary =>
        simp only [skip]
        refine Pre.bind_first (pre_rLength p) (fun n => ?_) PS_pos
        dsimp +instances only
        apply Pre.ite
        · exact fun _ => Pre.pure _
        · exact fun _ => pre_dropN n
      | list | set =>
        simp only [skip]
        apply Pre.ite
        · exact fun _ => Pre.err _
        · exact fun _ => Pre.bind_first (pre_rList p) (fun a => ih2 (d + 1) a.1 a.2) PS_pos
      | map =>
        simp only [skip]
        apply Pre.ite
        · exact fun _ => Pre.err _
        · exact fun _ => Pre.bind_first (pre_rMap p) (fun a => ih3 (d + 1) a.1 a.2.1 a.2.2) PS_pos
      | struct =>
        simp only [skip]
        apply Pre.ite
        · exact fun _ => Pre.err _
        · intro _
          have := ih4 (d + 1) 0 0
          simpa [PStruct] using this
      | stop | unknown _ => simp only [skip]; exact Pre.err _
    · cases n with
      | zero => simp only [skipN]; exact Pre.pure _
      | succ n =>
        simp only [skipN]
        exact Pre.seqU (Pre.dontExpect (ih1 d t).toPW) (fun _ => ih2 d t n)
    · cases n with
      | zero => simp only [skipPairs]; exact Pre.pure _
      | succ n =>
        simp only [skipPairs]
        refine Pre.seqU (Pre.dontExpect (ih1 d kt).toPW) (fun _ => ?_)
        dsimp +instances only
        exact Pre.seqU (Pre.dontExpect (ih1 d vt).toPW) (fun _ => ih3 d kt vt n)
    · refine Pre.congr ?_ (fun b => skipStruct_succ p d fuel b last num)
      refine Pre.bind_first (pre_wrapE_rField p num) (fun h => ?_) (PStruct_pos num)
      dsimp +instances only
      apply Pre.ite
      · intro _
        apply Pre.ite
        · exact fun _ => Pre.err _
        · exact fun _ => Pre.pure _
      · intro _
        refine Pre.seqU (ne := false) (Pre.dontExpect ?_) (fun _ => ?_)
        · apply Pre.ite
          · exact fun _ => Pre.pure _
          · exact fun _ => (ih1 d h.t).toPW.weaken
        · have := ih4 d (wrap16 (if h.delta then h.id + last else h.id)) (num + 1)
          rw [PStruct_succ] at this
          exact this.weaken

theorem pre_skip (p : Proto) (d fuel : Nat) (t : TType) : Pre true PS (fun b => skip p d fuel t b) :=
  (skip_all p fuel).1 d t
theorem pre_skipN (p : Proto) (d fuel : Nat) (t : TType) (n : Nat) : Pre false PU (fun b => skipN p d fuel t n b) :=
  (skip_all p fuel).2.1 d t n
theorem pre_skipPairs (p : Proto) (d fuel : Nat) (kt vt : TType) (n : Nat) :
    Pre false PU (fun b => skipPairs p d fuel kt vt n b) :=
  (skip_all p fuel).2.2.1 d kt vt n
theorem pre_skipStruct (p : Proto) (d fuel : Nat) (last : Int) (num : Nat) :
    Pre true (PStruct num) (fun b => skipStruct p d fuel b last num) :=
  (skip_all p fuel).2.2.2 d last num

end Enc.Lemmas.ThriftTotal
