import Enc.Lemmas.ProtoAllocMain
/-!
The target `Unmarshal` starts from — the zero value of the type — holds no slice credit: `Phi (codecOf t) (zeroOf t) = 0`.
-/
namespace Enc.Lemmas.ProtoAlloc
open Enc Enc.Model.Proto

theorem Phi_nil (c : Codec) : Phi c .nil = 0 := by cases c <;> simp only [Phi]

theorem Phi_wrapPtrs : ∀ (t : Ty) (c : Codec), Codec.isLeaf c = true → Phi (wrapPtrs t c) (zeroOf t) = 0
  | .ptr t, c, _ => by simp only [zeroOf, Phi_nil]
  | .named s t, c, h => by
    by_cases hs : s = "RawMessage"
    · subst hs; simp only [zeroOf, Phi_nil]
    · have := Phi_wrapPtrs t c h
      simp only [wrapPtrs]
      rw [show zeroOf (.named s t) = zeroOf t by simp only [zeroOf]]
      exact this
  | .bool, c, h | .int _, c, h | .f32, c, h | .f64, c, h | .str, c, h | .bytes, c, h | .any, c, h
  | .arr _ _, c, h | .slice _, c, h | .map _ _, c, h | .struct _, c, h => by
    simp only [wrapPtrs]; exact Phi_leaf c h _

theorem leaf_arr (n : Nat) (t : Ty) : Codec.isLeaf (codecOf (.arr n t)) = true := by
  cases t <;> try (simp only [codecOf, Codec.isLeaf]; done)
  case int k => cases k <;> simp only [codecOf, Codec.isLeaf]

theorem leaf_slice (t : Ty) : Codec.isLeaf (codecOf (.slice t)) = true := by
  cases t <;> try (simp only [codecOf, Codec.isLeaf]; done)
  case int k => cases k <;> simp only [codecOf, Codec.isLeaf]

mutual
theorem Phi_zeroOf : ∀ t : Ty, Phi (codecOf t) (zeroOf t) = 0
  | .bool | .f32 | .f64 | .str | .bytes | .any => by simp only [codecOf, zeroOf, Phi]
  | .int k => by cases k <;> simp only [codecOf, zeroOf, Phi]
  | .arr n t => Phi_leaf _ (leaf_arr n t) _
  | .slice t => Phi_leaf _ (leaf_slice t) _
  | .map _ _ => by simp only [codecOf, zeroOf, Phi]
  | .ptr t => by simp only [zeroOf, Phi_nil]
  | .struct fs => by simp only [codecOf, zeroOf, Phi]; exact PhiF_zeroFields fs 1
  | .named s t => by
    by_cases hs : s = "RawMessage"
    · subst hs; simp only [zeroOf, Phi_nil]
    · have := Phi_zeroOf t
      rw [show zeroOf (.named s t) = zeroOf t by simp only [zeroOf],
          show codecOf (.named s t) = codecOf t by simp only [codecOf]]
      exact this
theorem Phi_fieldZero : ∀ (t : Ty) (num : Nat), Phi (fieldCodecOf num t).2.2 (zeroOf t) = 0
  | .slice t, num => by simp only [zeroOf, Phi_nil]
  | .map k v, num => by simp only [zeroOf, Phi_nil]
  | .bool, num => by simp only [fieldCodecOf]; exact Phi_zeroOf _
  | .int k, num => by simp only [fieldCodecOf]; exact Phi_zeroOf _
  | .f32, num => by simp only [fieldCodecOf]; exact Phi_zeroOf _
  | .f64, num => by simp only [fieldCodecOf]; exact Phi_zeroOf _
  | .str, num => by simp only [fieldCodecOf]; exact Phi_zeroOf _
  | .bytes, num => by simp only [fieldCodecOf]; exact Phi_zeroOf _
  | .any, num => by simp only [fieldCodecOf]; exact Phi_zeroOf _
  | .arr n t, num => by simp only [fieldCodecOf]; exact Phi_zeroOf _
  | .ptr t, num => by simp only [fieldCodecOf]; exact Phi_zeroOf _
  | .struct fs, num => by simp only [fieldCodecOf]; exact Phi_zeroOf _
  | .named s t, num => by
    -- written for both readings of a defined field type: `codecOf` of the named type (model before the B7 fix) and
    -- `fieldCodecOf` of the underlying type (`f.Type.Kind()` looks through defined types)
    by_cases hs : s = "RawMessage"
    · subst hs; simp only [zeroOf, Phi_nil]
    · have hz : zeroOf (.named s t) = zeroOf t := by simp only [zeroOf]
      simp only [fieldCodecOf]
      first
      | exact Phi_zeroOf _
      | (rw [hz]; exact Phi_fieldZero t num)
theorem PhiF_zeroFields : ∀ (fs : Fields) (number : Nat), PhiF (fieldsOf number fs) (zeroFields fs) = 0
  | .nil, _ => by simp only [fieldsOf, zeroFields, PhiF]
  | .cons name tag emb t rest, number => by
    have ihr := PhiF_zeroFields rest (number + 1)
    have ihf := fun num => Phi_fieldZero t num
    simp only [fieldsOf, zeroFields]
    split
    · rename_i c heq
      have hleaf : Codec.isLeaf c = true := by
        split at heq
        · split at heq <;> first | (simp only [Option.some.injEq] at heq; subst heq; rfl) | (simp at heq)
        · simp at heq
      simp only [PhiF, ihr, Phi_wrapPtrs t c hleaf]
    · simp only [PhiF, ihr, ihf]
end

/-! ## the bound -/

/-- one decoder call, any target: what it allocates is covered by the credit of the target, `K` per byte it was given and
the per-call constant — whatever the outcome -/
theorem decodeA_bound (fuel d : Nat) (c : Codec) (b : Bytes) (cur : Val) (fl : Flags) :
    (decodeA fuel d c b cur fl).2 ≤ Phi c cur + Codec.K c * b.length + Codec.K1 c := by
  have h := (bound_aux fuel).1 d c b cur fl
  have hu := usedD_le fuel d c b cur fl
  rw [← decodeA_proj] at hu
  have := Nat.mul_le_mul_left (Codec.K c) hu
  omega

/-- **alloc_bound.** `Unmarshal` into a zero value of ANY type `t`, on ANY bytes `b`, allocates at most
`K·len(b) + K0` bytes, with `K`, `K0` fixed by the type — on success, on every error path, and (for unsupported kinds) on a
panic. -/
theorem unmarshalA_bound (t : Ty) (b : Bytes) :
    (unmarshalA t b).2 ≤ Codec.K (codecOf t) * b.length + Codec.K0 (codecOf t) := by
  simp only [unmarshalA, Codec.K0]
  split
  · simp only; split <;> omega
  · have h := decodeA_bound (2 * b.length + 8 + Codec.height (codecOf t)) 0 (codecOf t) b (zeroOf t) { toplevel := true }
    rw [Phi_zeroOf t] at h
    split
    · split <;> simp only <;> omega
    · simp only; omega
    · simp only; omega

/-! ## a concrete codec tree for the examples: `struct { A []struct{X int64}; M map[string]*int32 }` -/
def exAllocE : Codec := .struct (.cons 1 false false false .int64 .nil)
def exAllocEntry : Codec := .struct (.cons 1 false false false .string (.cons 2 false false false (.ptr .int32) .nil))
def exAllocC : Codec := .struct (.cons 1 true true false (.slice exAllocE 1 .varlen true)
  (.cons 2 true true false (.map 2 .string (.ptr .int32) false false exAllocEntry) .nil))

end Enc.Lemmas.ProtoAlloc

#print axioms Enc.Lemmas.ProtoAlloc.unmarshalA_bound
#print axioms Enc.Lemmas.ProtoAlloc.decodeA_proj
#print axioms Enc.Lemmas.ProtoAlloc.grow_pot
