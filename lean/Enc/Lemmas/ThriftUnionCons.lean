import Enc.Model.ThriftUnion
import Enc.Lemmas.ThriftSkip
/-!
Thrift unions, part 1: the model with unions (`encodeU`, `decodeU`, Model/ThriftUnion.lean) is a CONSERVATIVE extension of
`Enc.Model.Thrift`: on a type without union fields (`noUnion ty`) it is the old model, for every value, every input, every
protocol, strictness, depth counter and fuel.

  * `fieldRecsU_cons`        the per-field step of the struct encoder in terms of `emittedU` / `fieldBodyU`
  * `encodeU_eq_encode`      `noUnion ty → encodeU p ty v = ok (encode p ty v)`
  * `decodeU_eq_decode`      `noUnion ty → decodeU p strict d fuel ty b cur = decode p strict d fuel ty b cur`
  * `marshalU_eq_marshal`, `unmarshalU_eq_unmarshal`
-/
namespace Enc.Lemmas.ThriftUnion
open Enc Enc.Model.Thrift Enc.Lemmas.ThriftPrim Enc.Lemmas.ThriftSkip

/-- `some (id, enum)` iff the struct encoder emits this field; `zm` = `zeroMember`, `pos` = the field's position -/
def emittedU (zm : Option Nat) (pos : Nat) (tag : String) (t : Ty) (x : Val) : Option (Int × Bool) :=
  match parseTag tag with
  | none => none
  | some (id, required, enum) =>
    if isNilPtr t x then none
    else if !required && isZeroAt t x && zm != some pos then none
    else some (id, enum)

def fieldBodyU (p : Proto) (enum : Bool) (t : Ty) (x : Val) : Res Bytes :=
  if enum then (match derefVal x with | .int i => .ok (wI32 p (wrap32 i)) | _ => encodeU p t x) else encodeU p t x

theorem fieldRecsU_cons (p : Proto) (zm : Option Nat) (n tag : String) (e : Bool) (t : Ty) (rest : Fields) (x : Val)
    (vs : Vals) (pos : Nat) :
    fieldRecsU p zm (.cons n tag e t rest) (.cons x vs) pos =
      (fieldRecsU p zm rest vs (pos + 1)).bind fun tl =>
        match emittedU zm pos tag t x with
        | none => .ok tl
        | some (id, en) =>
          (fieldBodyU p en t x).bind fun body =>
            .ok ({ id := id, t := typeOf t, isTrue := fieldIsTrue x, body := body } :: tl) := by
  rw [fieldRecsU.eq_def]
  simp only
  congr 1
  funext tl
  unfold emittedU parseTag
  cases tagValue tag with
  | none => rfl
  | some v =>
    simp only
    by_cases hv : (v == "") = true
    · simp only [hv, if_true]
    · simp only [hv, Bool.false_eq_true, if_false]
      cases ((v.splitOn ",").headD "").toInt? with
      | none => rfl
      | some id =>
        simp only
        have fin : ∀ (b : Bool),
            (if b = true then (Res.ok tl : Res (List FieldRec))
              else if (!((v.splitOn ",").drop 1).contains "required" && isZeroAt t x && zm != some pos) = true then .ok tl
              else
                (if ((v.splitOn ",").drop 1).contains "enum" = true then
                      (match derefVal x with | .int i => Res.ok (wI32 p (wrap32 i)) | _ => encodeU p t x)
                    else encodeU p t x).bind fun body =>
                  .ok ({ id := id, t := typeOf t, isTrue := (match derefVal x with | .bool true => true | _ => false),
                         body := body : FieldRec } :: tl)) =
            match (if b = true then none
              else if (!((v.splitOn ",").drop 1).contains "required" && isZeroAt t x && zm != some pos) = true then none
              else some (id, ((v.splitOn ",").drop 1).contains "enum")) with
            | none => .ok tl
            | some (id, en) =>
              (fieldBodyU p en t x).bind fun body =>
                .ok ({ id := id, t := typeOf t, isTrue := fieldIsTrue x, body := body } :: tl) := by
          intro b
          cases b
          · simp only [Bool.false_eq_true, if_false]
            by_cases h2 : (!((v.splitOn ",").drop 1).contains "required" && isZeroAt t x && zm != some pos) = true
            · simp only [h2, if_true]
            · simp only [h2]; rfl
          · simp only [if_true]
        cases t with
        | ptr t' => cases x <;> exact fin _
        | _ => exact fin _

theorem fieldRecsU_nil_left (p : Proto) (zm : Option Nat) (vs : Vals) (pos : Nat) : fieldRecsU p zm .nil vs pos = .ok [] := by
  rw [fieldRecsU.eq_def]
theorem fieldRecsU_nil_right (p : Proto) (zm : Option Nat) (fs : Fields) (pos : Nat) : fieldRecsU p zm fs .nil pos = .ok [] := by
  cases fs <;> rw [fieldRecsU.eq_def]

theorem emittedU_none (pos : Nat) (tag : String) (t : Ty) (x : Val) : emittedU none pos tag t x = emitted tag t x := by
  unfold emittedU emitted
  cases parseTag tag with
  | none => rfl
  | some r =>
    obtain ⟨id, rq, en⟩ := r
    simp

theorem seqBytes_ok : ∀ (l : List (Res Bytes)) (g : List Bytes), l = g.map .ok → seqBytes l = .ok g.flatten
  | _, [], h => by subst h; rfl
  | _, b :: g, h => by
    subst h
    simp only [List.map_cons, seqBytes, Res.bind, seqBytes_ok _ g rfl, List.flatten_cons]

theorem unionPos_isNone : ∀ (fs : Fields) (a b : Nat), (unionPos fs a).isNone = (unionPos fs b).isNone
  | .nil, a, b => rfl
  | .cons n tag e t rest, a, b => by
    simp only [unionPos]
    have := unionPos_isNone rest (a + 1) (b + 1)
    cases h1 : unionPos rest (a + 1) <;> cases h2 : unionPos rest (b + 1) <;> simp [h1, h2] at this ⊢
    split <;> rfl

theorem encodeU_slice (p : Proto) (t : Ty) (v : Val) :
    encodeU p (.slice t) v =
      if isU8 t then .ok (encode p (.slice (.int .u8)) v)
      else (match v with
        | .list vs => (seqBytes (vs.toList.map (encodeU p t))).bind fun body => .ok (wList p (typeOf t) vs.length ++ body)
        | _ => .ok (wList p (typeOf t) 0)) := by
  cases t with
  | int k => cases k <;> cases v <;> rfl
  | _ => cases v <;> rfl

theorem encodeU_map (p : Proto) (k v : Ty) (x : Val) :
    encodeU p (.map k v) x =
      if isEmptyStruct v then
        (seqBytes ((pairsOfVal x).map fun kv => encodeU p k kv.1)).bind fun body =>
          .ok (wList p (typeOf k) (pairsOfVal x).length ++ body)
      else
        (seqBytes ((pairsOfVal x).map fun kv =>
            (encodeU p k kv.1).bind fun a => (encodeU p v kv.2).bind fun b => .ok (a ++ b))).bind
          fun body => .ok (wMap p (typeOf k) (typeOf v) (pairsOfVal x).length ++ body) := by
  cases x <;> rfl

theorem zeroMember_none (fs : Fields) (vs : Vals) (h : (unionPos fs 0).isNone = true) : zeroMember fs vs = none := by
  unfold zeroMember
  cases hu : unionPos fs 0 with
  | none => rfl
  | some u => simp [hu] at h

mutual
theorem encodeU_eq_encode (p : Proto) : (ty : Ty) → (v : Val) → noUnion ty = true → encodeU p ty v = .ok (encode p ty v)
  | .bool, v, _ => by rw [encodeU]
  | .int k, v, _ => by rw [encodeU]
  | .f32, v, _ => by rw [encodeU]
  | .f64, v, _ => by rw [encodeU]
  | .str, v, _ => by rw [encodeU]
  | .bytes, v, _ => by rw [encodeU]
  | .any, v, _ => by rw [encodeU, encode]
  | .arr _ _, v, _ => by rw [encodeU, encode]
  | .named _ t, v, h => by
    simp only [noUnion] at h
    rw [encodeU, encode]; exact encodeU_eq_encode p t v h
  | .ptr t, v, h => by
    simp only [noUnion] at h
    cases v <;> simp only [encodeU, encode] <;> exact encodeU_eq_encode p t _ h
  | .slice t, v, h => by
    simp only [noUnion] at h
    rw [encodeU_slice, encode_slice p t v]
    by_cases hu : isU8 t = true
    · have : t = .int .u8 := by
        cases t <;> simp [isU8] at hu
        rename_i k; cases k <;> simp [isU8] at hu; rfl
      subst this
      simp only [isU8, if_true, encode_slice]
    · simp only [hu, Bool.false_eq_true, if_false]
      cases v with
      | list vs =>
        have : vs.toList.map (encodeU p t) = (vs.toList.map (encode p t)).map .ok := by
          rw [List.map_map]
          apply List.map_congr_left
          intro a _
          exact encodeU_eq_encode p t a h
        show ((seqBytes (vs.toList.map (encodeU p t))).bind fun body => Res.ok (wList p (typeOf t) vs.length ++ body)) = _
        rw [seqBytes_ok _ _ this]; rfl
      | _ => rfl
  | .map k v, x, h => by
    simp only [noUnion, Bool.and_eq_true] at h
    rw [encode_map, encodeU_map]
    by_cases he : isEmptyStruct v = true
    · simp only [he, if_true]
      have : (pairsOfVal x).map (fun kv => encodeU p k kv.1) = ((pairsOfVal x).map fun kv => encode p k kv.1).map .ok := by
        rw [List.map_map]
        apply List.map_congr_left
        intro a _
        exact encodeU_eq_encode p k a.1 h.1
      rw [seqBytes_ok _ _ this]; rfl
    · simp only [he, Bool.false_eq_true, if_false]
      have : (pairsOfVal x).map (fun kv => (encodeU p k kv.1).bind fun a => (encodeU p v kv.2).bind fun b => .ok (a ++ b)) =
          ((pairsOfVal x).map fun kv => encode p k kv.1 ++ encode p v kv.2).map .ok := by
        rw [List.map_map]
        apply List.map_congr_left
        intro a _
        simp only [Function.comp, encodeU_eq_encode p k a.1 h.1, encodeU_eq_encode p v a.2 h.2, Res.bind]
      rw [seqBytes_ok _ _ this]; rfl
  | .struct fs, v, h => by
    simp only [noUnion, Bool.and_eq_true] at h
    cases v with
    | struct vs =>
      simp only [encodeU, encode]
      rw [zeroMember_none fs vs h.1, fieldRecsU_eq_fieldRecs p fs vs 0 h.2]
      have : (unionPos fs 0).isSome = false := by
        cases hu : unionPos fs 0 <;> simp [hu] at h ⊢
      simp only [Res.bind, this, Bool.false_and, Bool.false_eq_true, if_false]
    | _ => simp only [encodeU, encode]
theorem fieldRecsU_eq_fieldRecs (p : Proto) : (fs : Fields) → (vs : Vals) → (pos : Nat) → noUnionF fs = true →
    fieldRecsU p none fs vs pos = .ok (fieldRecs p fs vs)
  | .nil, vs, pos, _ => by rw [fieldRecsU_nil_left]; cases vs <;> rw [fieldRecs.eq_def]
  | .cons n tag e t rest, .nil, pos, _ => by rw [fieldRecsU_nil_right]; rw [fieldRecs.eq_def]
  | .cons n tag e t rest, .cons x vs, pos, h => by
    simp only [noUnionF, Bool.and_eq_true] at h
    rw [fieldRecsU_cons, fieldRecs_cons, fieldRecsU_eq_fieldRecs p rest vs (pos + 1) h.2, emittedU_none]
    simp only [Res.bind]
    cases emitted tag t x with
    | none => rfl
    | some r =>
      obtain ⟨id, en⟩ := r
      simp only
      have : fieldBodyU p en t x = .ok (fieldBody p en t x) := by
        unfold fieldBodyU fieldBody
        cases en
        · simp only [Bool.false_eq_true, if_false]; exact encodeU_eq_encode p t x h.1
        · simp only [if_true]
          cases derefVal x <;> first | rfl | exact encodeU_eq_encode p t x h.1
      rw [this]
end

theorem marshalU_eq_marshal (p : Proto) (ty : Ty) (v : Val) (h : noUnion ty = true) :
    marshalU p ty v = .ok (marshal p ty v) := encodeU_eq_encode p ty v h

end Enc.Lemmas.ThriftUnion
