import Enc.Lemmas.ProtoTemplateTable
import Enc.Lemmas.ProtoTemplateSim
/-!
# Value level of message rewriting, part 3: from the rewriter as coded to the reference decoder

`message_rewrite_value`: a `MessageRewriter` whose entries are input independent (`TabSem` of its specification table),
applied to ANY input the reference decoder accepts for the flat message type `fs` (any field order, repeated
occurrences, unknown fields), returns a message that the reference decoder accepts, whose value is the input's value
with exactly the templated positions replaced.
-/
namespace Enc.Lemmas.ProtoTemplate
open Enc Enc.Spec.Protobuf Enc.Lemmas.ProtoRewriteSpec
open Enc.Model.Proto (Rw rewrite)

theorem zeroFields_length : ∀ fs : Fields, (zeroFields fs).length = fs.length
  | .nil => rfl
  | .cons _ _ _ _ rest => by simp [zeroFields, Vals.length, Fields.length, zeroFields_length rest]

/-- the reference decoder on a flat message type: parse, then fold -/
theorem decode_flat (fs : Fields) (hfs : flat fs = true) (b : Bytes) :
    decode (.struct fs) b = (parse (b.length + 1) b).bind fun recs => (foldS fs recs (zeroFields fs)).map Val.struct := by
  simp only [decode, deref, decodeMsg, wrapPtr, Option.bind_eq_bind, Option.pure_def]
  cases hp : parse (b.length + 1) b with
  | none => rfl
  | some recs =>
    simp only [Option.bind_some]
    have hl := parse_length_le _ b recs hp
    rw [decodeRecs_eq_foldS fs hfs recs _ _ (by omega)]
    cases foldS fs recs (zeroFields fs) <;> rfl

/-- **value level, table form.** `I n` = position of field `n`, `E n` = the value the entry writes (`none`: the entry
writes nothing, the field is deleted and reads as its zero value). -/
theorem message_rewrite_value (fs : Fields) (hfs : flat fs = true) (len : Nat) (ents : List (Nat × Rw))
    (I : Nat → Nat) (E : Nat → Option Val) (hok : entsOK len ents = true) (hne : hasEmbEnts ents = false)
    (hT : TabSem fs (toSpecEnts ents) I E) (b : Bytes) (res : Vals)
    (hsz : (20 + sizeMEnts ents) * (b.length + 1) < 2 ^ 64)
    (hdec : decode (.struct fs) b = some (.struct res)) :
    ∃ out res', (∀ fuel, b.length + fuelD (.message len ents) ≤ fuel → rewrite fuel (.message len ents) b = .ok out) ∧
      decode (.struct fs) out = some (.struct res') ∧ res'.length = fs.length ∧
      (∀ j, Untouched (toSpecEnts ents) I j → valsGet res' j = valsGet res j) ∧
      (∀ n e, (n, e) ∈ toSpecEnts ents → valsGet res' (I n) = (E n).getD (valsGet (zeroFields fs) (I n))) := by
  rw [decode_flat fs hfs] at hdec
  cases hp : parse (b.length + 1) b with
  | none => simp [hp] at hdec
  | some recs =>
    simp only [hp, Option.bind_some, Option.map_eq_some_iff, Val.struct.injEq] at hdec
    obtain ⟨res0, hfold, rfl⟩ := hdec
    have hrel : Rel fs (toSpecEnts ents) I E (zeroFields fs) [] (zeroFields fs) (zeroFields fs) :=
      ⟨zeroFields_length fs, zeroFields_length fs, fun _ _ => rfl, fun n e _ => by simp⟩
    obtain ⟨outr, res', h1, h2, h3, h4, h5⟩ := specMsg_fold fs (toSpecEnts ents) I E (zeroFields fs) hT recs
      (recs.length + (toSpecEnts ents).length + 4) [] (zeroFields fs) (zeroFields fs) res0 (Nat.le_refl _) hfold hrel
    have hspec : specRw (recs.length + (toSpecEnts ents).length + 4 + 1) (toSpec (.message len ents)) b = some outr := by
      simp only [toSpec, specRw, hp, Option.bind_eq_bind, Option.bind_some, h1]
    obtain ⟨out, hrw, hparse⟩ := rewrite_spec_exact (.message len ents) b _ (by simpa [rwOK] using hok)
      (by simpa [hasEmb] using hne) (by simpa [sizeM] using hsz) (by rw [hspec]; rfl)
    rw [hspec] at hparse
    refine ⟨out, res', hrw, ?_, h3, h4, h5⟩
    rw [decode_flat fs hfs, hparse]
    simp [h2]

end Enc.Lemmas.ProtoTemplate
