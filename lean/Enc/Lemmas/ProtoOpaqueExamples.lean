import Enc.Lemmas.ProtoOpaqueMain
/-!
# proto: opaque leaves — the liberal direction on a concrete non-canonical input
-/
set_option linter.unusedSimpArgs false
namespace Enc.Lemmas.ProtoOpaque
open Enc Enc.Model.Proto Enc.Lemmas.ProtoWire

/-- an input the reference accepts: `20 85 00` (`A` first, non-minimal varint 5), `0a 01 09` (`R`), `1a 00` (an empty element of
`LP []*RawMessage`) -/
theorem exQO_ref : Spec.Protobuf.decode (.struct exQOFields) [0x20, 0x85, 0x00, 0x0a, 0x01, 0x09, 0x1a, 0x00]
    = some (.struct (Vals.ofList [.str [9], .nil, .list (Vals.ofList [.ptr (.str [])]), .int 5])) := by
  simp [Spec.Protobuf.decode, exQOFields, exRaw, Spec.Protobuf.deref, Spec.Protobuf.decodeMsg, Spec.Protobuf.parse,
    Spec.Protobuf.readVarint, Spec.Protobuf.readVarint.go, Spec.Protobuf.decodeRecs,
    Spec.Protobuf.findField, Spec.Protobuf.findField.go, fieldOpt_empty, Spec.Protobuf.isRepeated, Spec.Protobuf.unname,
    Spec.Protobuf.decodeOne, Spec.Protobuf.zeroFields, Spec.Protobuf.zeroOf, Spec.Protobuf.valsGet,
    Spec.Protobuf.valsSet, Spec.Protobuf.wrapPtr, Spec.Protobuf.unwrapPtr, Vals.ofList, Vals.toList,
    Spec.Protobuf.toInt64, IntKind.signed, IntKind.inRange, IntKind.bits]

/-- … hence `Unmarshal` returns literally that value: the leaves as byte strings, a fresh pointer around the element -/
example : unmarshal (.struct exQOFields) [0x20, 0x85, 0x00, 0x0a, 0x01, 0x09, 0x1a, 0x00]
    = .ok (.struct (Vals.ofList [.str [9], .nil, .list (Vals.ofList [.ptr (.str [])]), .int 5])) :=
  unmarshal_of_reference_decode_opaque exQOFields exQO_ty _ _ exQO_depth exQO_ref

/-- the bytes of the big example: nil leaf `Z` (a struct-kind type) as `3a 00`, the nil element of `L` as `22 00`, the entry `"": nil`
of `M` as `32 04 0a 00 12 00` -/
example : marshal (.struct exOFields) (.struct exOVals)
    = [0x08, 0x05, 0x12, 0x02, 0x01, 0x02, 0x1a, 0x01, 0x78, 0x3a, 0x00, 0x4a, 0x03, 0x12, 0x01, 0x08,
       0x22, 0x00, 0x22, 0x00, 0x22, 0x01, 0x09, 0x2a, 0x01, 0x07, 0x2a, 0x00,
       0x32, 0x06, 0x0a, 0x01, 0x6b, 0x12, 0x01, 0x03, 0x32, 0x04, 0x0a, 0x00, 0x12, 0x00,
       0x42, 0x02, 0x08, 0x02, 0x52, 0x05, 0x08, 0x01, 0x12, 0x01, 0x04] := by
  rw [marshal_struct, exO_codec]; decide

end Enc.Lemmas.ProtoOpaque
