import Enc.Lemmas.ProtoPtrsDefs
import Enc.Lemmas.ProtoMapDefs
/-!
# proto: repeated pointers `[]*T` and pointer chains `**T` — the bridge between types and codec trees

`structCodecOf` commutes with the reduction (`codecOf_reduce`, `fieldsOf_reduce`), the lift of values along the codec tree
is the lift along the type (`liftC_codecOf`, `liftCF_fieldsOf`), the codec trees are well-formed (`WFC_codecOf`), zero
values are lifted zero values (`mzeroOf_lift`, `szeroOf_lift`).
-/
set_option linter.unusedSimpArgs false
set_option linter.unusedVariables false
namespace Enc.Lemmas.ProtoPtrs
open Enc Enc.Model.Proto

/-! ## helpers (namespace `Bridge`: generic names, kept apart from the sibling files of this namespace) -/

namespace Bridge

theorem mapVals_congr (f g : Val → Val) (h : ∀ v, f v = g v) : ∀ vs : Vals, mapVals f vs = mapVals g vs
  | .nil => rfl
  | .cons v r => by simp only [mapVals, h v, mapVals_congr f g h r]

theorem mapVals2_congr (f g : Val → Val) (h : ∀ v, f v = g v) : ∀ vs : Vals, mapVals2 f vs = mapVals2 g vs
  | .nil => rfl
  | .cons k .nil => rfl
  | .cons k (.cons v r) => by simp only [mapVals2, h v, mapVals2_congr f g h r]

/-- not a pointer and not a defined type at the head -/
def headBase : Ty → Bool
  | .ptr _ => false
  | .named _ _ => false
  | _ => true

/-- the base types on which a fixed32 / fixed64 tag overrides the codec -/
def fixTy : Ty → Bool
  | .int _ | .f32 | .f64 => true
  | _ => false

theorem isU8_eq (t : Ty) (h : isU8 t = true) : t = .int .u8 := by
  cases t <;> simp [isU8] at h ⊢
  rename_i k; cases k <;> simp [isU8] at h ⊢

theorem isU8_false (t : Ty) (h : isU8 t = false) : t ≠ .int .u8 := by
  intro e; subst e; simp [isU8] at h

theorem strip_of_head : ∀ t : Ty, headBase t = true → strip t = t
  | .ptr t, h => by simp [headBase] at h
  | .named n t, _ => rfl
  | .slice t, _ => rfl
  | .map k v, _ => rfl
  | .struct fs, _ => rfl
  | .bool, _ => rfl | .int k, _ => rfl | .f32, _ => rfl | .f64, _ => rfl | .str, _ => rfl | .bytes, _ => rfl
  | .any, _ => rfl
  | .arr n t, _ => rfl

theorem notSM_of_strip : ∀ t : Ty, notSM (strip t) = true → notSM t = true
  | .ptr t, _ => rfl
  | .named n t, h => h
  | .slice t, h => h
  | .map k v, h => h
  | .struct fs, h => h
  | .bool, _ => rfl | .int k, _ => rfl | .f32, _ => rfl | .f64, _ => rfl | .str, _ => rfl | .bytes, _ => rfl
  | .any, _ => rfl
  | .arr n t, _ => rfl

/-- `reduceS` = `reduce` below the head pointers -/
theorem reduceS_eq : ∀ t : Ty, reduceS t = reduce (strip t)
  | .ptr t => by simp only [reduceS, strip]; exact reduceS_eq t
  | .named n t => by simp only [reduceS, strip, reduce]
  | .slice t => by simp only [reduceS, strip, reduce]
  | .map k v => by simp only [reduceS, strip, reduce]
  | .struct fs => by simp only [reduceS, strip, reduce]
  | .bool => rfl | .int k => rfl | .f32 => rfl | .f64 => rfl | .str => rfl | .bytes => rfl
  | .any => rfl
  | .arr n t => by simp only [reduceS, strip, reduce]

theorem isU8_reduce (t : Ty) : isU8 (reduce t) = isU8 t := by
  cases t <;> simp only [reduce, isU8]

theorem isU8_reduceS (t : Ty) : isU8 (reduceS t) = isU8 (strip t) := by
  rw [reduceS_eq, isU8_reduce]

/-! ## scalar codecs -/

theorem reduceC_scalar (c : Codec) (h : scalarC c = true) : reduceC c = c := by
  cases c <;> first | rfl | (simp [scalarC] at h)

theorem reduceSC_scalar (c : Codec) (h : scalarC c = true) : reduceSC c = c := by
  cases c <;> first | rfl | (simp [scalarC] at h)

theorem liftC_scalar (c : Codec) (y : Val) (h : scalarC c = true) : liftC c y = y := by
  cases c <;> simp [scalarC] at h <;> simp only [liftC]

theorem liftSC_scalar (c : Codec) (y : Val) (h : scalarC c = true) : liftSC c y = y := by
  cases c <;> simp [scalarC] at h <;> simp only [liftSC]

theorem WFC_scalar (c : Codec) (h : scalarC c = true) : WFC c := by
  cases c <;> simp [scalarC] at h <;> simp only [WFC]

theorem codecOf_arr (n : Nat) (t : Ty) : scalarC (codecOf (.arr n t)) = true := by
  by_cases h : t = .int .u8
  · subst h; simp only [codecOf, scalarC]
  · have : codecOf (.arr n t) = .unsupported := by
      rw [codecOf]; intro e; exact absurd e h
    rw [this]; rfl

theorem codecOf_int (k : IntKind) : scalarC (codecOf (.int k)) = true := by
  cases k <;> simp only [codecOf, scalarC]

/-! ## `wire`, `baseTy`, `wrapPtrs`, `isStructBase` -/

theorem wire_reduceSC : ∀ c : Codec, (reduceSC c).wire = c.wire
  | .ptr c => by simp only [reduceSC, Codec.wire]; exact wire_reduceSC c
  | .slice e n w emb => by simp only [reduceSC, Codec.wire]
  | .map n k v ke ve entry => by simp only [reduceSC, Codec.wire]
  | .struct fs => by simp only [reduceSC, Codec.wire]
  | .bool => rfl | .int => rfl | .int32 => rfl | .int64 => rfl | .uint => rfl | .uint32 => rfl
  | .uint64 => rfl | .fixed32 => rfl | .fixed64 => rfl | .sfixed32 => rfl | .sfixed64 => rfl
  | .float32 => rfl | .float64 => rfl | .string => rfl | .bytes => rfl | .byteArray n => rfl
  | .message => rfl | .unsupported => rfl

theorem wire_reduceC (c : Codec) : (reduceC c).wire = c.wire := by
  cases c <;> first | rfl | simp only [reduceC, Codec.wire, wire_reduceSC]

theorem baseTy_head : ∀ t : Ty, headBase (baseTy t) = true
  | .named n t => by simp only [baseTy]; exact baseTy_head t
  | .ptr t => by simp only [baseTy]; exact baseTy_head t
  | .slice t => rfl
  | .map k v => rfl
  | .struct fs => rfl
  | .bool => rfl | .int k => rfl | .f32 => rfl | .f64 => rfl | .str => rfl | .bytes => rfl | .any => rfl
  | .arr n t => rfl

theorem baseTy_reduceS : ∀ t : Ty, ptrSafe t = true → baseTy (reduceS t) = reduce (baseTy t)
  | .ptr t, h => by
    simp only [ptrSafe, Bool.and_eq_true] at h
    simp only [reduceS, baseTy]; exact baseTy_reduceS t h.2
  | .named n t, h => by simp [ptrSafe] at h
  | .slice t, _ => by simp only [reduceS, baseTy, reduce]
  | .map k v, _ => by simp only [reduceS, baseTy, reduce]
  | .struct fs, _ => by simp only [reduceS, baseTy, reduce]
  | .bool, _ => rfl | .int k, _ => rfl | .f32, _ => rfl | .f64, _ => rfl | .str, _ => rfl | .bytes, _ => rfl
  | .any, _ => rfl
  | .arr n t, _ => by simp only [reduceS, baseTy, reduce]

theorem baseTy_reduce : ∀ t : Ty, ptrSafe t = true → baseTy (reduce t) = reduce (baseTy t)
  | .ptr t, h => by
    simp only [ptrSafe, Bool.and_eq_true] at h
    simp only [reduce, baseTy]; exact baseTy_reduceS t h.2
  | .named n t, h => by simp [ptrSafe] at h
  | .slice t, _ => by simp only [baseTy, reduce]
  | .map k v, _ => by simp only [baseTy, reduce]
  | .struct fs, _ => by simp only [baseTy, reduce]
  | .bool, _ => rfl | .int k, _ => rfl | .f32, _ => rfl | .f64, _ => rfl | .str, _ => rfl | .bytes, _ => rfl
  | .any, _ => rfl
  | .arr n t, _ => by simp only [baseTy, reduce]

/-- `ptrSafe` types have no defined type on the pointer path: `embBase` is `baseTy` -/
theorem embBase_eq_baseTy : ∀ t : Ty, ptrSafe t = true → embBase t = baseTy t
  | .ptr t, h => by
    simp only [ptrSafe, Bool.and_eq_true] at h
    simp only [embBase, baseTy]; exact embBase_eq_baseTy t h.2
  | .named n t, h => by simp [ptrSafe] at h
  | .slice t, _ => rfl
  | .map k v, _ => rfl
  | .struct fs, _ => rfl
  | .bool, _ => rfl | .int k, _ => rfl | .f32, _ => rfl | .f64, _ => rfl | .str, _ => rfl | .bytes, _ => rfl
  | .any, _ => rfl
  | .arr n t, _ => rfl

theorem embBase_reduceS : ∀ t : Ty, ptrSafe t = true → embBase (reduceS t) = baseTy (reduceS t)
  | .ptr t, h => by
    simp only [ptrSafe, Bool.and_eq_true] at h
    simp only [reduceS]; exact embBase_reduceS t h.2
  | .named n t, h => by simp [ptrSafe] at h
  | .slice t, _ => by simp only [reduceS, embBase, baseTy]
  | .map k v, _ => by simp only [reduceS, embBase, baseTy]
  | .struct fs, _ => by simp only [reduceS, embBase, baseTy]
  | .bool, _ => rfl | .int k, _ => rfl | .f32, _ => rfl | .f64, _ => rfl | .str, _ => rfl | .bytes, _ => rfl
  | .any, _ => rfl
  | .arr n t, _ => by simp only [reduceS, embBase, baseTy]

theorem embBase_reduce : ∀ t : Ty, ptrSafe t = true → embBase (reduce t) = baseTy (reduce t)
  | .ptr t, h => by
    simp only [ptrSafe, Bool.and_eq_true] at h
    simp only [reduce, embBase, baseTy]; exact embBase_reduceS t h.2
  | .named n t, h => by simp [ptrSafe] at h
  | .slice t, _ => by simp only [reduce, embBase, baseTy]
  | .map k v, _ => by simp only [reduce, embBase, baseTy]
  | .struct fs, _ => by simp only [reduce, embBase, baseTy]
  | .bool, _ => rfl | .int k, _ => rfl | .f32, _ => rfl | .f64, _ => rfl | .str, _ => rfl | .bytes, _ => rfl
  | .any, _ => rfl
  | .arr n t, _ => by simp only [reduce, embBase, baseTy]

theorem isStructBase_reduce (t : Ty) (h : ptrSafe t = true) : isStructBase (reduce t) = isStructBase t := by
  unfold isStructBase
  rw [embBase_reduce t h, embBase_eq_baseTy t h, baseTy_reduce t h]
  have hh := baseTy_head t
  generalize baseTy t = b at hh
  cases b <;> simp [reduce, headBase] at hh ⊢

theorem isStructBase_reduceS (t : Ty) (h : ptrSafe t = true) : isStructBase (reduceS t) = isStructBase t := by
  unfold isStructBase
  rw [embBase_reduceS t h, embBase_eq_baseTy t h, baseTy_reduceS t h]
  have hh := baseTy_head t
  generalize baseTy t = b at hh
  cases b <;> simp [reduce, headBase] at hh ⊢

theorem wrapPtrs_reduceS (c : Codec) (hc : scalarC c = true) :
    ∀ t : Ty, ptrSafe t = true → wrapPtrs (reduceS t) c = reduceSC (wrapPtrs t c)
  | .ptr t, h => by
    simp only [ptrSafe, Bool.and_eq_true] at h
    simp only [reduceS, wrapPtrs, reduceSC]; exact wrapPtrs_reduceS c hc t h.2
  | .named n t, h => by simp [ptrSafe] at h
  | .slice t, _ => by simp only [reduceS, wrapPtrs, reduceSC_scalar c hc]
  | .map k v, _ => by simp only [reduceS, wrapPtrs, reduceSC_scalar c hc]
  | .struct fs, _ => by simp only [reduceS, wrapPtrs, reduceSC_scalar c hc]
  | .bool, _ => by simp only [reduceS, wrapPtrs, reduceSC_scalar c hc]
  | .int k, _ => by simp only [reduceS, wrapPtrs, reduceSC_scalar c hc]
  | .f32, _ => by simp only [reduceS, wrapPtrs, reduceSC_scalar c hc]
  | .f64, _ => by simp only [reduceS, wrapPtrs, reduceSC_scalar c hc]
  | .str, _ => by simp only [reduceS, wrapPtrs, reduceSC_scalar c hc]
  | .bytes, _ => by simp only [reduceS, wrapPtrs, reduceSC_scalar c hc]
  | .any, _ => by simp only [reduceS, wrapPtrs, reduceSC_scalar c hc]
  | .arr n t, _ => by simp only [reduceS, wrapPtrs, reduceSC_scalar c hc]

theorem wrapPtrs_reduce (c : Codec) (hc : scalarC c = true) (t : Ty) (h : ptrSafe t = true) :
    wrapPtrs (reduce t) c = reduceC (wrapPtrs t c) := by
  cases t <;> try (simp only [reduce, wrapPtrs, reduceC_scalar c hc])
  · rename_i t
    simp only [ptrSafe, Bool.and_eq_true] at h
    simp only [reduce, wrapPtrs, reduceC, wrapPtrs_reduceS c hc t h.2]
  · simp [ptrSafe] at h

/-! ## one step of `structCodecOf` -/

/-- the wire-type override of a fixed32 / fixed64 tag -/
def ovr : Option StructTag → Ty → Option Codec
  | some s, b =>
    match s.wire, b with
    | .fixed32, .int .u32 => some .fixed32
    | .fixed32, .int .i32 => some .sfixed32
    | .fixed32, .f32 => some .float32
    | .fixed64, .int .u64 => some .fixed64
    | .fixed64, .int .i64 => some .sfixed64
    | .fixed64, .f64 => some .float64
    | _, _ => none
  | none, _ => none

def numOf (number : Nat) : Option StructTag → Nat
  | some s => (s.number % 65536).toNat
  | none => number % 65536
def zzOf : Option StructTag → Bool
  | some s => s.zigzag
  | none => false
def repOf : Option StructTag → Bool
  | some s => s.repeated
  | none => false

/-- the tag of a field as `structCodecOf` reads it -/
def tagOf (tag : String) : Option StructTag := (lookupProtobuf tag).bind parseStructTag

theorem fieldsOf_cons (number : Nat) (name tag : String) (emb : Bool) (t : Ty) (rest : Fields) :
    fieldsOf number (.cons name tag emb t rest) =
      match ovr (tagOf tag) (baseTy t) with
      | some c => .cons (numOf number (tagOf tag)) false (repOf (tagOf tag)) (zzOf (tagOf tag)) (wrapPtrs t c)
          (fieldsOf (number + 1) rest)
      | none => .cons (numOf number (tagOf tag)) (fieldCodecOf (numOf number (tagOf tag)) t).1
          (repOf (tagOf tag) || (fieldCodecOf (numOf number (tagOf tag)) t).2.1) (zzOf (tagOf tag))
          (fieldCodecOf (numOf number (tagOf tag)) t).2.2 (fieldsOf (number + 1) rest) := by
  simp only [fieldsOf, tagOf]
  generalize baseTy t = b
  generalize (lookupProtobuf tag).bind parseStructTag = st
  cases st with
  | none => rfl
  | some s =>
    obtain ⟨w, num, rep, zz⟩ := s
    cases b <;> first | rfl | (cases w <;> rfl) | (rename_i k; cases k <;> cases w <;> rfl)

theorem ovr_scalar (st : Option StructTag) (b : Ty) (c : Codec) (h : ovr st b = some c) :
    scalarC c = true ∧ fixTy b = true := by
  cases st with
  | none => simp [ovr] at h
  | some s =>
    obtain ⟨w, num, rep, zz⟩ := s
    cases b <;> cases w <;> simp only [ovr] at h <;> first
      | (cases h; done)
      | (cases h; exact ⟨rfl, rfl⟩)
      | (rename_i k; cases k <;> simp only [ovr] at h <;> first | (cases h; done) | (cases h; exact ⟨rfl, rfl⟩))

theorem ovr_reduce (st : Option StructTag) (b : Ty) (hb : headBase b = true) : ovr st (reduce b) = ovr st b := by
  cases st with
  | none => rfl
  | some s =>
    cases b <;> simp only [reduce, headBase] at hb ⊢ <;> first | rfl | (exact absurd hb (by decide)) | skip
    all_goals (obtain ⟨w, num, rep, zz⟩ := s; cases w <;> rfl)

/-! ## the field codec of scalars, pointers, structs -/

theorem fieldCodecOf_plain (num : Nat) (t : Ty) (hs : ptrSafe t = true) (hn : notSM t = true) :
    fieldCodecOf num t = (isStructBase t, false, codecOf t) := by
  cases t <;> first
    | (simp only [fieldCodecOf]; done)
    | (simp [notSM] at hn; done)
    | (simp [ptrSafe] at hs; done)

theorem keyScalar_plain (k : Ty) (h : keyScalar k = true) :
    ptrSafe k = true ∧ notSM k = true ∧ scalarC (codecOf k) = true ∧ isStructBase k = false := by
  cases k <;> simp only [keyScalar] at h <;> first
    | (exact absurd h (by decide))
    | (refine ⟨by simp only [ptrSafe], rfl, ?_, rfl⟩; first | exact codecOf_int _ | simp only [codecOf, scalarC])

/-! ## B1: the codec tree of the reduced type is the reduced codec tree -/

theorem slice_ne (t : Ty) (h : isU8 (strip t) = false) : t ≠ .int .u8 ∧ reduceS t ≠ .int .u8 := by
  constructor
  · intro e; subst e; simp [strip, isU8] at h
  · exact isU8_false _ (by rw [isU8_reduceS]; exact h)

theorem codecOf_slice (t : Ty) (h : t ≠ .int .u8) : codecOf (.slice t) = .unsupported := by
  rw [codecOf]; intro e; exact absurd e h

theorem fieldCodecOf_slice (num : Nat) (t : Ty) (h : t ≠ .int .u8) :
    fieldCodecOf num (.slice t) = (isStructBase t, true, .slice (codecOf t) num (codecOf t).wire (isStructBase t)) := by
  rw [fieldCodecOf]; intro e; exact absurd e h

end Bridge
open Bridge

mutual
theorem codecOf_reduce : ∀ t : Ty, ptrSafe t = true → codecOf (reduce t) = reduceC (codecOf t)
  | .ptr t, h => by
    simp only [ptrSafe, Bool.and_eq_true] at h
    simp only [reduce, codecOf, reduceC, codecOf_reduceS t h.2]
  | .slice t, h => by
    simp only [ptrSafe, Bool.and_eq_true, Bool.not_eq_true'] at h
    have hne := slice_ne t h.1.2
    simp only [reduce, codecOf_slice _ hne.1, codecOf_slice _ hne.2, reduceC]
  | .map k v, _ => by simp only [reduce, codecOf, reduceC]
  | .struct fs, h => by
    simp only [ptrSafe] at h
    simp only [reduce, codecOf, reduceC, fieldsOf_reduce 1 fs h]
  | .named n t, h => by simp [ptrSafe] at h
  | .bool, _ => by simp only [reduce, codecOf, reduceC]
  | .int k, _ => by simp only [reduce, reduceC_scalar _ (codecOf_int k)]
  | .f32, _ => by simp only [reduce, codecOf, reduceC]
  | .f64, _ => by simp only [reduce, codecOf, reduceC]
  | .str, _ => by simp only [reduce, codecOf, reduceC]
  | .bytes, _ => by simp only [reduce, codecOf, reduceC]
  | .any, _ => by simp only [reduce, codecOf, reduceC]
  | .arr n t, _ => by simp only [reduce, reduceC_scalar _ (codecOf_arr n t)]
theorem codecOf_reduceS : ∀ t : Ty, ptrSafe t = true → codecOf (reduceS t) = reduceSC (codecOf t)
  | .ptr t, h => by
    simp only [ptrSafe, Bool.and_eq_true] at h
    simp only [reduceS, codecOf, reduceSC, codecOf_reduceS t h.2]
  | .slice t, h => by
    simp only [ptrSafe, Bool.and_eq_true, Bool.not_eq_true'] at h
    have hne := slice_ne t h.1.2
    simp only [reduceS, codecOf_slice _ hne.1, codecOf_slice _ hne.2, reduceSC]
  | .map k v, _ => by simp only [reduceS, codecOf, reduceSC]
  | .struct fs, h => by
    simp only [ptrSafe] at h
    simp only [reduceS, codecOf, reduceSC, fieldsOf_reduce 1 fs h]
  | .named n t, h => by simp [ptrSafe] at h
  | .bool, _ => by simp only [reduceS, codecOf, reduceSC]
  | .int k, _ => by simp only [reduceS, reduceSC_scalar _ (codecOf_int k)]
  | .f32, _ => by simp only [reduceS, codecOf, reduceSC]
  | .f64, _ => by simp only [reduceS, codecOf, reduceSC]
  | .str, _ => by simp only [reduceS, codecOf, reduceSC]
  | .bytes, _ => by simp only [reduceS, codecOf, reduceSC]
  | .any, _ => by simp only [reduceS, codecOf, reduceSC]
  | .arr n t, _ => by simp only [reduceS, reduceSC_scalar _ (codecOf_arr n t)]
theorem fieldCodecOf_reduce (num : Nat) : ∀ t : Ty, ptrSafe t = true →
    fieldCodecOf num (reduce t) =
      ((fieldCodecOf num t).1, (fieldCodecOf num t).2.1, reduceC (fieldCodecOf num t).2.2)
  | .ptr t, h => by
    have hc := codecOf_reduce (.ptr t) h
    have hs := isStructBase_reduce (.ptr t) h
    simp only [reduce] at hc hs
    simp only [reduce, fieldCodecOf, hc, hs]
  | .slice t, h => by
    simp only [ptrSafe, Bool.and_eq_true, Bool.not_eq_true'] at h
    have hne := slice_ne t h.1.2
    simp only [reduce, fieldCodecOf_slice _ _ hne.1, fieldCodecOf_slice _ _ hne.2, reduceC,
      codecOf_reduceS t h.2, isStructBase_reduceS t h.2, wire_reduceSC]
  | .map k v, h => by
    simp only [ptrSafe, Bool.and_eq_true] at h
    obtain ⟨hk1, hk2, hk3, hk4⟩ := keyScalar_plain k h.1.1
    simp only [reduce, fieldCodecOf, fieldCodecOf_plain 1 k hk1 hk2, fieldCodecOf_reduce 2 v h.2,
      codecOf_reduce v h.2, isStructBase_reduce v h.2, reduceC, reduceCF, reduceC_scalar _ hk3]
  | .struct fs, h => by
    have hc := codecOf_reduce (.struct fs) h
    have hs := isStructBase_reduce (.struct fs) h
    simp only [reduce] at hc hs
    simp only [reduce, fieldCodecOf, hc, hs]
  | .named n t, h => by simp [ptrSafe] at h
  | .bool, _ => by simp only [reduce, fieldCodecOf, codecOf, reduceC]
  | .int k, _ => by simp only [reduce, fieldCodecOf, reduceC_scalar _ (codecOf_int k)]
  | .f32, _ => by simp only [reduce, fieldCodecOf, codecOf, reduceC]
  | .f64, _ => by simp only [reduce, fieldCodecOf, codecOf, reduceC]
  | .str, _ => by simp only [reduce, fieldCodecOf, codecOf, reduceC]
  | .bytes, _ => by simp only [reduce, fieldCodecOf, codecOf, reduceC]
  | .any, _ => by simp only [reduce, fieldCodecOf, codecOf, reduceC]
  | .arr n t, _ => by simp only [reduce, fieldCodecOf, reduceC_scalar _ (codecOf_arr n t)]
theorem fieldsOf_reduce (number : Nat) : ∀ fs : Fields, ptrSafeFields fs = true →
    fieldsOf number (reduceFields fs) = reduceCF (fieldsOf number fs)
  | .nil, _ => by simp only [reduceFields, fieldsOf, reduceCF]
  | .cons name tag emb t rest, h => by
    simp only [ptrSafeFields, Bool.and_eq_true] at h
    simp only [reduceFields, fieldsOf_cons, baseTy_reduce t h.1, ovr_reduce _ _ (baseTy_head t),
      fieldCodecOf_reduce _ t h.1, fieldsOf_reduce (number + 1) rest h.2]
    cases ho : ovr (tagOf tag) (baseTy t) with
    | none => simp only [reduceCF]
    | some c => simp only [reduceCF, wrapPtrs_reduce c (ovr_scalar _ _ _ ho).1 t h.1]
end

/-! ## B2: the lift along the codec tree is the lift along the type -/

namespace Bridge

theorem liftSC_wrapPtrs (c : Codec) (hc : scalarC c = true) :
    ∀ (t : Ty) (y : Val), ptrSafe t = true → fixTy (baseTy t) = true → liftSC (wrapPtrs t c) y = liftS t y
  | .ptr t, y, h, hb => by
    simp only [ptrSafe, Bool.and_eq_true] at h
    simp only [baseTy] at hb
    simp only [wrapPtrs, liftSC, liftS, liftSC_wrapPtrs c hc t y h.2 hb]
  | .named n t, _, h, _ => by simp [ptrSafe] at h
  | .slice t, _, _, hb => by simp [baseTy, fixTy] at hb
  | .map k v, _, _, hb => by simp [baseTy, fixTy] at hb
  | .struct fs, _, _, hb => by simp [baseTy, fixTy] at hb
  | .bool, y, _, _ => by simp only [wrapPtrs, liftSC_scalar c y hc, liftS]
  | .int k, y, _, _ => by simp only [wrapPtrs, liftSC_scalar c y hc, liftS]
  | .f32, y, _, _ => by simp only [wrapPtrs, liftSC_scalar c y hc, liftS]
  | .f64, y, _, _ => by simp only [wrapPtrs, liftSC_scalar c y hc, liftS]
  | .str, y, _, _ => by simp only [wrapPtrs, liftSC_scalar c y hc, liftS]
  | .bytes, y, _, _ => by simp only [wrapPtrs, liftSC_scalar c y hc, liftS]
  | .any, y, _, _ => by simp only [wrapPtrs, liftSC_scalar c y hc, liftS]
  | .arr n t, y, _, _ => by simp only [wrapPtrs, liftSC_scalar c y hc, liftS]

theorem liftC_wrapPtrs (c : Codec) (hc : scalarC c = true) (t : Ty) (y : Val) (h : ptrSafe t = true)
    (hb : fixTy (baseTy t) = true) : liftC (wrapPtrs t c) y = lift t y := by
  cases t <;> try (simp only [wrapPtrs, liftC_scalar c y hc, lift]; done)
  · rename_i t
    simp only [ptrSafe, Bool.and_eq_true] at h
    simp only [baseTy] at hb
    cases y <;> simp only [wrapPtrs, liftC, lift, liftSC_wrapPtrs c hc t _ h.2 hb]
  · simp [baseTy, fixTy] at hb
  · simp [baseTy, fixTy] at hb
  · simp [baseTy, fixTy] at hb
  · simp [ptrSafe] at h

end Bridge

mutual
theorem liftC_codecOf : ∀ (t : Ty) (y : Val), ptrSafe t = true → notSM t = true → liftC (codecOf t) y = lift t y
  | .ptr t, y, h, _ => by
    simp only [ptrSafe, Bool.and_eq_true] at h
    cases y <;> simp only [codecOf, liftC, lift, liftSC_codecOf t _ h.2 h.1]
  | .slice t, _, _, hn => by simp [notSM] at hn
  | .map k v, _, _, hn => by simp [notSM] at hn
  | .struct fs, y, h, _ => by
    simp only [ptrSafe] at h
    cases y <;> simp only [codecOf, liftC, lift, liftCF_fieldsOf 1 fs _ h]
  | .named n t, _, h, _ => by simp [ptrSafe] at h
  | .bool, y, _, _ => by simp only [codecOf, liftC, lift]
  | .int k, y, _, _ => by simp only [liftC_scalar _ y (codecOf_int k), lift]
  | .f32, y, _, _ => by simp only [codecOf, liftC, lift]
  | .f64, y, _, _ => by simp only [codecOf, liftC, lift]
  | .str, y, _, _ => by simp only [codecOf, liftC, lift]
  | .bytes, y, _, _ => by simp only [codecOf, liftC, lift]
  | .any, y, _, _ => by simp only [codecOf, liftC, lift]
  | .arr n t, y, _, _ => by simp only [liftC_scalar _ y (codecOf_arr n t), lift]
theorem liftSC_codecOf : ∀ (t : Ty) (y : Val), ptrSafe t = true → notSM (strip t) = true →
    liftSC (codecOf t) y = liftS t y
  | .ptr t, y, h, hn => by
    simp only [ptrSafe, Bool.and_eq_true] at h
    simp only [strip] at hn
    simp only [codecOf, liftSC, liftS, liftSC_codecOf t y h.2 hn]
  | .slice t, _, _, hn => by simp [notSM, strip] at hn
  | .map k v, _, _, hn => by simp [notSM, strip] at hn
  | .struct fs, y, h, _ => by
    simp only [ptrSafe] at h
    cases y <;> simp only [codecOf, liftSC, liftS, liftCF_fieldsOf 1 fs _ h]
  | .named n t, _, h, _ => by simp [ptrSafe] at h
  | .bool, y, _, _ => by simp only [codecOf, liftSC, liftS]
  | .int k, y, _, _ => by simp only [liftSC_scalar _ y (codecOf_int k), liftS]
  | .f32, y, _, _ => by simp only [codecOf, liftSC, liftS]
  | .f64, y, _, _ => by simp only [codecOf, liftSC, liftS]
  | .str, y, _, _ => by simp only [codecOf, liftSC, liftS]
  | .bytes, y, _, _ => by simp only [codecOf, liftSC, liftS]
  | .any, y, _, _ => by simp only [codecOf, liftSC, liftS]
  | .arr n t, y, _, _ => by simp only [liftSC_scalar _ y (codecOf_arr n t), liftS]
theorem liftC_fieldCodecOf (num : Nat) : ∀ (t : Ty) (y : Val), ptrSafe t = true →
    liftC (fieldCodecOf num t).2.2 y = lift t y
  | .ptr t, y, h => by
    simp only [fieldCodecOf]; exact liftC_codecOf (.ptr t) y h rfl
  | .slice t, y, h => by
    simp only [ptrSafe, Bool.and_eq_true, Bool.not_eq_true'] at h
    have hne := slice_ne t h.1.2
    simp only [fieldCodecOf_slice _ _ hne.1]
    cases y <;> simp only [liftC, lift]
    rw [mapVals_congr _ _ (fun v => liftSC_codecOf t v h.2 h.1.1)]
  | .map k v, y, h => by
    simp only [ptrSafe, Bool.and_eq_true] at h
    simp only [fieldCodecOf]
    cases y <;> simp only [liftC, lift]
    rw [mapVals2_congr _ _ (fun y => liftC_codecOf v y h.2 (notSM_of_strip v h.1.2))]
  | .struct fs, y, h => by
    simp only [fieldCodecOf]; exact liftC_codecOf (.struct fs) y h rfl
  | .named n t, _, h => by simp [ptrSafe] at h
  | .bool, y, _ => by simp only [fieldCodecOf, codecOf, liftC, lift]
  | .int k, y, _ => by simp only [fieldCodecOf, liftC_scalar _ y (codecOf_int k), lift]
  | .f32, y, _ => by simp only [fieldCodecOf, codecOf, liftC, lift]
  | .f64, y, _ => by simp only [fieldCodecOf, codecOf, liftC, lift]
  | .str, y, _ => by simp only [fieldCodecOf, codecOf, liftC, lift]
  | .bytes, y, _ => by simp only [fieldCodecOf, codecOf, liftC, lift]
  | .any, y, _ => by simp only [fieldCodecOf, codecOf, liftC, lift]
  | .arr n t, y, _ => by simp only [fieldCodecOf, liftC_scalar _ y (codecOf_arr n t), lift]
theorem liftCF_fieldsOf (number : Nat) : ∀ (fs : Fields) (vs : Vals), ptrSafeFields fs = true →
    liftCF (fieldsOf number fs) vs = liftFields fs vs
  | .nil, vs, _ => by simp only [fieldsOf, liftCF, liftFields]
  | .cons name tag emb t rest, .nil, _ => by
    rw [fieldsOf_cons]
    cases ovr (tagOf tag) (baseTy t) <;> simp only [liftCF, liftFields]
  | .cons name tag emb t rest, .cons v vs, h => by
    simp only [ptrSafeFields, Bool.and_eq_true] at h
    rw [fieldsOf_cons]
    cases ho : ovr (tagOf tag) (baseTy t) with
    | none => simp only [liftCF, liftFields, liftC_fieldCodecOf _ t v h.1, liftCF_fieldsOf (number + 1) rest vs h.2]
    | some c =>
      have hc := ovr_scalar _ _ _ ho
      simp only [liftCF, liftFields, liftC_wrapPtrs c hc.1 t v h.1 hc.2, liftCF_fieldsOf (number + 1) rest vs h.2]
end

/-! ## B3: what `structCodecOf` builds is well-formed -/

namespace Bridge

theorem WFC_wrapPtrs (c : Codec) (hc : scalarC c = true) : ∀ t : Ty, WFC (wrapPtrs t c)
  | .ptr t => by simp only [wrapPtrs, WFC]; exact WFC_wrapPtrs c hc t
  | .named n t => by simp only [wrapPtrs]; exact WFC_wrapPtrs c hc t
  | .slice t => by simp only [wrapPtrs]; exact WFC_scalar c hc
  | .map k v => by simp only [wrapPtrs]; exact WFC_scalar c hc
  | .struct fs => by simp only [wrapPtrs]; exact WFC_scalar c hc
  | .bool => by simp only [wrapPtrs]; exact WFC_scalar c hc
  | .int k => by simp only [wrapPtrs]; exact WFC_scalar c hc
  | .f32 => by simp only [wrapPtrs]; exact WFC_scalar c hc
  | .f64 => by simp only [wrapPtrs]; exact WFC_scalar c hc
  | .str => by simp only [wrapPtrs]; exact WFC_scalar c hc
  | .bytes => by simp only [wrapPtrs]; exact WFC_scalar c hc
  | .any => by simp only [wrapPtrs]; exact WFC_scalar c hc
  | .arr n t => by simp only [wrapPtrs]; exact WFC_scalar c hc

end Bridge

mutual
theorem WFC_codecOf : ∀ t : Ty, ptrSafe t = true → WFC (codecOf t)
  | .ptr t, h => by
    simp only [ptrSafe, Bool.and_eq_true] at h
    simp only [codecOf, WFC]; exact WFC_codecOf t h.2
  | .slice t, h => by
    simp only [ptrSafe, Bool.and_eq_true, Bool.not_eq_true'] at h
    simp only [codecOf_slice _ (slice_ne t h.1.2).1, WFC]
  | .map k v, _ => by simp only [codecOf, WFC]
  | .struct fs, h => by
    simp only [ptrSafe] at h
    simp only [codecOf, WFC]; exact WFCF_fieldsOf 1 fs h
  | .named n t, h => by simp [ptrSafe] at h
  | .bool, _ => by simp only [codecOf, WFC]
  | .int k, _ => WFC_scalar _ (codecOf_int k)
  | .f32, _ => by simp only [codecOf, WFC]
  | .f64, _ => by simp only [codecOf, WFC]
  | .str, _ => by simp only [codecOf, WFC]
  | .bytes, _ => by simp only [codecOf, WFC]
  | .any, _ => by simp only [codecOf, WFC]
  | .arr n t, _ => WFC_scalar _ (codecOf_arr n t)
theorem WFC_fieldCodecOf (num : Nat) : ∀ t : Ty, ptrSafe t = true → WFC (fieldCodecOf num t).2.2
  | .ptr t, h => by
    simp only [fieldCodecOf]; exact WFC_codecOf (.ptr t) h
  | .slice t, h => by
    simp only [ptrSafe, Bool.and_eq_true, Bool.not_eq_true'] at h
    simp only [fieldCodecOf_slice _ _ (slice_ne t h.1.2).1, WFC]
    exact WFC_codecOf t h.2
  | .map k v, h => by
    simp only [ptrSafe, Bool.and_eq_true] at h
    obtain ⟨hk1, hk2, hk3, hk4⟩ := keyScalar_plain k h.1.1
    simp only [fieldCodecOf, fieldCodecOf_plain 1 k hk1 hk2, fieldCodecOf_plain 2 v h.2 (notSM_of_strip v h.1.2),
      WFC, hk4]
    exact ⟨hk3, WFC_codecOf v h.2, trivial⟩
  | .struct fs, h => by
    simp only [fieldCodecOf]; exact WFC_codecOf (.struct fs) h
  | .named n t, h => by simp [ptrSafe] at h
  | .bool, _ => by simp only [fieldCodecOf, codecOf, WFC]
  | .int k, _ => by simp only [fieldCodecOf]; exact WFC_scalar _ (codecOf_int k)
  | .f32, _ => by simp only [fieldCodecOf, codecOf, WFC]
  | .f64, _ => by simp only [fieldCodecOf, codecOf, WFC]
  | .str, _ => by simp only [fieldCodecOf, codecOf, WFC]
  | .bytes, _ => by simp only [fieldCodecOf, codecOf, WFC]
  | .any, _ => by simp only [fieldCodecOf, codecOf, WFC]
  | .arr n t, _ => by simp only [fieldCodecOf]; exact WFC_scalar _ (codecOf_arr n t)
theorem WFCF_fieldsOf (number : Nat) : ∀ fs : Fields, ptrSafeFields fs = true → WFCF (fieldsOf number fs)
  | .nil, _ => by simp only [fieldsOf, WFCF]
  | .cons name tag emb t rest, h => by
    simp only [ptrSafeFields, Bool.and_eq_true] at h
    rw [fieldsOf_cons]
    cases ho : ovr (tagOf tag) (baseTy t) with
    | none => simp only [WFCF]; exact ⟨WFC_fieldCodecOf _ t h.1, WFCF_fieldsOf (number + 1) rest h.2⟩
    | some c => simp only [WFCF]; exact ⟨WFC_wrapPtrs c (ovr_scalar _ _ _ ho).1 t, WFCF_fieldsOf (number + 1) rest h.2⟩
end

/-! ## B4: zero values -/

mutual
theorem mzeroOf_lift : ∀ t : Ty, ptrSafe t = true → zeroOf t = lift t (zeroOf (reduce t))
  | .ptr t, _ => by simp only [reduce, zeroOf, lift]
  | .slice t, _ => by simp only [reduce, zeroOf, lift]
  | .map k v, _ => by simp only [reduce, zeroOf, lift]
  | .struct fs, h => by
    simp only [ptrSafe] at h
    simp only [reduce, zeroOf, lift]; rw [← mzeroFields_lift fs h]
  | .named n t, h => by simp [ptrSafe] at h
  | .bool, _ => by simp only [reduce, lift]
  | .int k, _ => by simp only [reduce, lift]
  | .f32, _ => by simp only [reduce, lift]
  | .f64, _ => by simp only [reduce, lift]
  | .str, _ => by simp only [reduce, lift]
  | .bytes, _ => by simp only [reduce, lift]
  | .any, _ => by simp only [reduce, lift]
  | .arr n t, _ => by simp only [reduce, lift]
theorem mzeroFields_lift : ∀ fs : Fields, ptrSafeFields fs = true →
    zeroFields fs = liftFields fs (zeroFields (reduceFields fs))
  | .nil, _ => by simp only [reduceFields, zeroFields, liftFields]
  | .cons name tag emb t rest, h => by
    simp only [ptrSafeFields, Bool.and_eq_true] at h
    simp only [reduceFields, zeroFields, liftFields]
    rw [← mzeroOf_lift t h.1, ← mzeroFields_lift rest h.2]
end

mutual
theorem szeroOf_lift : ∀ t : Ty, ptrSafe t = true →
    Enc.Spec.Protobuf.zeroOf t = lift t (Enc.Spec.Protobuf.zeroOf (reduce t))
  | .ptr t, _ => by simp only [reduce, Enc.Spec.Protobuf.zeroOf, lift]
  | .slice t, _ => by simp only [reduce, Enc.Spec.Protobuf.zeroOf, lift]
  | .map k v, _ => by simp only [reduce, Enc.Spec.Protobuf.zeroOf, lift]
  | .struct fs, h => by
    simp only [ptrSafe] at h
    simp only [reduce, Enc.Spec.Protobuf.zeroOf, lift]; rw [← szeroFields_lift fs h]
  | .named n t, h => by simp [ptrSafe] at h
  | .bool, _ => by simp only [reduce, lift]
  | .int k, _ => by simp only [reduce, lift]
  | .f32, _ => by simp only [reduce, lift]
  | .f64, _ => by simp only [reduce, lift]
  | .str, _ => by simp only [reduce, lift]
  | .bytes, _ => by simp only [reduce, lift]
  | .any, _ => by simp only [reduce, lift]
  | .arr n t, _ => by simp only [reduce, lift]
theorem szeroFields_lift : ∀ fs : Fields, ptrSafeFields fs = true →
    Enc.Spec.Protobuf.zeroFields fs = liftFields fs (Enc.Spec.Protobuf.zeroFields (reduceFields fs))
  | .nil, _ => by simp only [reduceFields, Enc.Spec.Protobuf.zeroFields, liftFields]
  | .cons name tag emb t rest, h => by
    simp only [ptrSafeFields, Bool.and_eq_true] at h
    simp only [reduceFields, Enc.Spec.Protobuf.zeroFields, liftFields]
    rw [← szeroOf_lift t h.1, ← szeroFields_lift rest h.2]
end

/-! ## B5: the side condition follows from the universe of the reduced type -/

section OfUniverse
open Enc.Lemmas.ProtoWire Enc.Lemmas.ProtoMap

namespace Bridge

theorem notSM_reduce (t : Ty) : notSM (reduce t) = notSM t := by
  cases t <;> simp only [reduce, notSM]

theorem notSM_reduceS (t : Ty) : notSM (reduceS t) = notSM (strip t) := by
  rw [reduceS_eq, notSM_reduce]

theorem notSM_of_ptrTarget (t : Ty) (h : ptrTarget t = true) : notSM t = true := by
  cases t <;> first | rfl | (simp [ptrTarget] at h)

theorem notSM_of_elem (t : Ty) (h1 : isSlice t = false) (h2 : isMap t = false) : notSM t = true := by
  cases t <;> first | rfl | (simp [isSlice] at h1; done) | (simp [isMap] at h2; done)

theorem keyScalar_of_keyTy (k : Ty) (h : keyTy k = true) : keyScalar k = true := by
  cases k <;> first | rfl | (simp [keyTy] at h)

theorem notSM_strip_of_tyOKM (v : Ty) (h : tyOKM (reduce v) = true) (hn : notSM (reduce v) = true) :
    notSM (strip v) = true := by
  cases v <;> try (rw [notSM_reduce] at hn; exact hn)
  rename_i t
  simp only [reduce, tyOKM, Bool.and_eq_true] at h
  simp only [strip, ← notSM_reduceS]
  exact notSM_of_ptrTarget _ h.1

end Bridge

mutual
theorem ptrSafe_of_tyOKM : ∀ t : Ty, tyOKM (reduce t) = true → ptrSafe t = true
  | .ptr t, h => by
    simp only [reduce, tyOKM, Bool.and_eq_true] at h
    have hn := notSM_of_ptrTarget _ h.1
    simp only [ptrSafe, Bool.and_eq_true]
    exact ⟨by rw [← notSM_reduceS]; exact hn, ptrSafe_of_tyOKM_S t h.2 hn⟩
  | .slice t, h => by
    simp only [reduce, tyOKM, elemTy, Bool.and_eq_true, Bool.not_eq_true'] at h
    have hn := notSM_of_elem _ h.1.1.2 h.1.2
    simp only [ptrSafe, Bool.and_eq_true, Bool.not_eq_true']
    refine ⟨⟨by rw [← notSM_reduceS]; exact hn, ?_⟩, ptrSafe_of_tyOKM_S t h.2 hn⟩
    rw [← isU8_reduceS]
    cases hu : isU8 (reduceS t) with
    | false => rfl
    | true =>
      have := h.2
      rw [isU8_eq _ hu] at this
      simp [tyOKM, supportedKind] at this
  | .map k v, h => by
    simp only [reduce, tyOKM, Bool.and_eq_true, Bool.not_eq_true'] at h
    have hn := notSM_of_elem _ h.1.1.2 h.1.2
    simp only [ptrSafe, Bool.and_eq_true]
    exact ⟨⟨keyScalar_of_keyTy k h.1.1.1, notSM_strip_of_tyOKM v h.2 hn⟩, ptrSafe_of_tyOKM v h.2⟩
  | .struct fs, h => by
    simp only [reduce, tyOKM, Bool.and_eq_true] at h
    simp only [ptrSafe]; exact ptrSafeFields_of_fieldsOKM 1 fs h.1
  | .named n t, h => by simp [reduce, tyOKM] at h
  | .bool, _ => by simp only [ptrSafe]
  | .int k, _ => by simp only [ptrSafe]
  | .f32, _ => by simp only [ptrSafe]
  | .f64, _ => by simp only [ptrSafe]
  | .str, _ => by simp only [ptrSafe]
  | .bytes, _ => by simp only [ptrSafe]
  | .any, _ => by simp only [ptrSafe]
  | .arr n t, _ => by simp only [ptrSafe]
/-- the `S` version: `reduceS t` may be a repeated / map type of the universe although `t = *[]T` is not `ptrSafe`, hence
the extra hypothesis (at hand wherever `reduceS t` occurs in a reduced type: pointer target, slice element) -/
theorem ptrSafe_of_tyOKM_S : ∀ t : Ty, tyOKM (reduceS t) = true → notSM (reduceS t) = true → ptrSafe t = true
  | .ptr t, h, hn => by
    simp only [reduceS] at h hn
    simp only [ptrSafe, Bool.and_eq_true]
    exact ⟨by rw [← notSM_reduceS]; exact hn, ptrSafe_of_tyOKM_S t h hn⟩
  | .slice t, _, hn => by simp [reduceS, notSM] at hn
  | .map k v, _, hn => by simp [reduceS, notSM] at hn
  | .struct fs, h, _ => by
    simp only [reduceS, tyOKM, Bool.and_eq_true] at h
    simp only [ptrSafe]; exact ptrSafeFields_of_fieldsOKM 1 fs h.1
  | .named n t, h, _ => by simp [reduceS, tyOKM] at h
  | .bool, _, _ => by simp only [ptrSafe]
  | .int k, _, _ => by simp only [ptrSafe]
  | .f32, _, _ => by simp only [ptrSafe]
  | .f64, _, _ => by simp only [ptrSafe]
  | .str, _, _ => by simp only [ptrSafe]
  | .bytes, _, _ => by simp only [ptrSafe]
  | .any, _, _ => by simp only [ptrSafe]
  | .arr n t, _, _ => by simp only [ptrSafe]
theorem ptrSafeFields_of_fieldsOKM (pos : Nat) : ∀ fs : Fields, fieldsOKM pos (reduceFields fs) = true →
    ptrSafeFields fs = true
  | .nil, _ => by simp only [ptrSafeFields]
  | .cons name tag emb t rest, h => by
    simp only [reduceFields, fieldsOKM, Bool.and_eq_true] at h
    simp only [ptrSafeFields, Bool.and_eq_true]
    exact ⟨ptrSafe_of_tyOKM t h.1.2, ptrSafeFields_of_fieldsOKM (pos + 1) rest h.2⟩
end

end OfUniverse

end Enc.Lemmas.ProtoPtrs

#print axioms Enc.Lemmas.ProtoPtrs.codecOf_reduce
#print axioms Enc.Lemmas.ProtoPtrs.codecOf_reduceS
#print axioms Enc.Lemmas.ProtoPtrs.fieldCodecOf_reduce
#print axioms Enc.Lemmas.ProtoPtrs.fieldsOf_reduce
#print axioms Enc.Lemmas.ProtoPtrs.liftC_codecOf
#print axioms Enc.Lemmas.ProtoPtrs.liftSC_codecOf
#print axioms Enc.Lemmas.ProtoPtrs.liftC_fieldCodecOf
#print axioms Enc.Lemmas.ProtoPtrs.liftCF_fieldsOf
#print axioms Enc.Lemmas.ProtoPtrs.WFC_codecOf
#print axioms Enc.Lemmas.ProtoPtrs.WFC_fieldCodecOf
#print axioms Enc.Lemmas.ProtoPtrs.WFCF_fieldsOf
#print axioms Enc.Lemmas.ProtoPtrs.mzeroOf_lift
#print axioms Enc.Lemmas.ProtoPtrs.mzeroFields_lift
#print axioms Enc.Lemmas.ProtoPtrs.szeroOf_lift
#print axioms Enc.Lemmas.ProtoPtrs.szeroFields_lift
#print axioms Enc.Lemmas.ProtoPtrs.ptrSafe_of_tyOKM
#print axioms Enc.Lemmas.ProtoPtrs.ptrSafe_of_tyOKM_S
#print axioms Enc.Lemmas.ProtoPtrs.ptrSafeFields_of_fieldsOKM
