import Enc.Lemmas.JsonEncTyped
/-!
# `encodeTyped_eq_spec`: mutual induction over the value universes (generic values first, then typed values)
-/
set_option linter.unusedSectionVars false
namespace Enc.Lemmas.JsonEncTyped
open Enc Enc.Model.Json Enc.Model.Json.Typed
open Enc.Model.Json.MapKeyOrder (strLT sortBy joinMembers)
open Enc.Spec.Json (encSpec encSpecs encSpecMs encSpecFs genericText genericTexts genericMembers floatText numberText
  arrText objText mapText joinWith appendString intString intRange nullT boolText bytesOf consOpt keyBelow keyBelowG)
open Enc.Lemmas.JsonMapKeyOrder

/-! ### the loop combinators -/

theorem loopStep_eq (i : Nat) (r rest : Res Bytes) (o1 : Option Bytes) (o2 : Option (List Bytes))
    (h1 : okE r = o1) (h2 : okE rest = o2.map (elemsText (i + 1))) :
    okE (loopStep i r rest) = (consOpt o1 o2).map (elemsText i) := by
  subst h1
  cases r with
  | err c => cases o2 <;> rfl
  | panic c => cases o2 <;> rfl
  | ok x =>
    cases rest with
    | err c => cases o2 with
      | none => rfl
      | some xs => simp [okE] at h2
    | panic c => cases o2 with
      | none => rfl
      | some xs => simp [okE] at h2
    | ok t =>
      cases o2 with
      | none => simp [okE] at h2
      | some xs =>
        simp only [okE, Option.map_some, Option.some.injEq] at h2
        subst h2
        simp only [loopStep, okE, consOpt, Option.map_some, elemsText_cons]

def memT (p : Bytes × Bytes) : Bytes := p.1 ++ [0x3a] ++ p.2

theorem fieldStep_eq (html : Bool) (name : Bytes) (n : Nat) (r rest : Res Bytes) (o1 : Option Bytes)
    (o2 : Option (List (Bytes × Bytes)))
    (h1 : okE r = o1) (h2 : okE rest = o2.map fun ps => elemsText (n + 1) (ps.map memT)) :
    okE (fieldStep html name n r rest) =
      (consOpt (o1.map fun x => (appendString name html, x)) o2).map fun ps => elemsText n (ps.map memT) := by
  subst h1
  cases r with
  | err c => cases o2 <;> rfl
  | panic c => cases o2 <;> rfl
  | ok x =>
    cases rest with
    | err c => cases o2 with
      | none => rfl
      | some xs => simp [okE] at h2
    | panic c => cases o2 with
      | none => rfl
      | some xs => simp [okE] at h2
    | ok t =>
      cases o2 with
      | none => simp [okE] at h2
      | some xs =>
        simp only [okE, Option.map_some, Option.some.injEq] at h2
        subst h2
        simp only [fieldStep, okE, consOpt, Option.map_some, List.map_cons, elemsText_cons, memT, Buf.keyFragment,
          Lemmas.JsonEncString.encodeString_eq]
        cases n <;> simp

/-- model entries vs specification members, with the keys -/
def MsRel (es : MEntries) (o : Option (List (Bytes × Bytes))) (keys : List Bytes) : Prop :=
  match o with
  | some l => es = okEntries l ∧ l.map (·.1) = keys
  | none => ∃ p ∈ es, okE p.2 = none

theorem msRel_cons (k : Bytes) (r : Res Bytes) (es : MEntries) (o1 : Option Bytes) (o2 : Option (List (Bytes × Bytes)))
    (keys : List Bytes) (h1 : okE r = o1) (h2 : MsRel es o2 keys) :
    MsRel ((k, r) :: es) (consOpt (o1.map fun x => (k, x)) o2) (k :: keys) := by
  subst h1
  cases r with
  | err c => cases o2 <;> exact ⟨_, List.mem_cons_self, rfl⟩
  | panic c => cases o2 <;> exact ⟨_, List.mem_cons_self, rfl⟩
  | ok x =>
    cases o2 with
    | none =>
      obtain ⟨p, hp, hn⟩ := h2
      exact ⟨p, List.mem_cons_of_mem _ hp, hn⟩
    | some l =>
      obtain ⟨he, hk⟩ := h2
      refine ⟨?_, ?_⟩
      · rw [he]; rfl
      · simp [hk]

theorem pairwise_of_keys (l : List (Bytes × Bytes)) (keys : List Bytes) (hk : l.map (·.1) = keys)
    (h : keys.Pairwise fun a b => strLT a b = true) : l.Pairwise fun p q => strLT p.1 q.1 = true := by
  subst hk
  exact List.pairwise_map.mp h

/-- the map encoder from related entries -/
theorem mapT_eq (html : Bool) (ord : MapOrd) (hord : OrdPerm ord) (es : MEntries) (o : Option (List (Bytes × Bytes)))
    (keys : List Bytes) (hr : MsRel es o keys) (hk : keys.Pairwise fun a b => strLT a b = true) :
    okE (encodeMapT html true ord es) = o.map (mapText html) := by
  cases o with
  | none => exact encodeMapT_err html true ord hord es hr
  | some l =>
    obtain ⟨he, hkeys⟩ := hr
    rw [he, encodeMapT_ok html ord hord l (pairwise_of_keys l keys hkeys hk)]
    rfl

theorem arr_eq (r : Res Bytes) (o : Option (List Bytes)) (h : okE r = o.map (elemsText 0)) :
    okE (wrapRes 0x5b 0x5d r) = o.map arrText := by
  rw [okE_wrapRes, h]
  cases o <;> simp [arrText, elemsText]

theorem obj_eq (r : Res Bytes) (o : Option (List (Bytes × Bytes))) (h : okE r = o.map fun ps => elemsText 0 (ps.map memT)) :
    okE (wrapRes 0x7b 0x7d r) = o.map objText := by
  rw [okE_wrapRes, h]
  cases o with
  | none => rfl
  | some ps =>
    simp only [Option.map_some, objText, elemsText, if_true]
    rfl

/-! ### keys of a well-typed map ascend pairwise -/

theorem pairwise_cons_of_chain (k : Bytes) (keys : List Bytes) (hp : keys.Pairwise fun a b => strLT a b = true)
    (hh : ∀ k', keys.head? = some k' → strLT k k' = true) : (k :: keys).Pairwise fun a b => strLT a b = true := by
  refine List.pairwise_cons.mpr ⟨?_, hp⟩
  intro b hb
  cases keys with
  | nil => cases hb
  | cons k' r =>
    have h1 := hh k' rfl
    rcases List.mem_cons.mp hb with rfl | hb
    · exact h1
    · exact strLT_trans _ _ _ h1 ((List.pairwise_cons.mp hp).1 b hb)

theorem gKeys_pairwise : (ms : GMs) → wtGm ms = true → (gKeys ms).Pairwise fun a b => strLT a b = true
  | .nil, _ => List.Pairwise.nil
  | .cons k v r, h => by
    simp only [wtGm, Bool.and_eq_true] at h
    refine pairwise_cons_of_chain k (gKeys r) (gKeys_pairwise r h.2) ?_
    intro k' hk'
    cases r with
    | nil => cases hk'
    | cons k2 v2 r2 =>
      simp only [gKeys, List.head?_cons, Option.some.injEq] at hk'
      subst hk'
      have := h.1.1
      simpa only [keyBelowG, bytesLt_eq_strLT] using this

theorem mKeys_pairwise (e : JT) : (ms : JMs) → wtMs e ms = true → (mKeys ms).Pairwise fun a b => strLT a b = true
  | .nil, _ => List.Pairwise.nil
  | .cons k v r, h => by
    simp only [wtMs, Bool.and_eq_true] at h
    refine pairwise_cons_of_chain k (mKeys r) (mKeys_pairwise e r h.2) ?_
    intro k' hk'
    cases r with
    | nil => cases hk'
    | cons k2 v2 r2 =>
      simp only [mKeys, List.head?_cons, Option.some.injEq] at hk'
      subst hk'
      have := h.1.1
      simpa only [keyBelow, bytesLt_eq_strLT] using this

/-! ### generic values -/

section
variable (sc : Strconv) (hsc : ScShape sc) (html : Bool) (ord : MapOrd) (hord : OrdPerm ord)
include hsc hord

mutual
theorem encG_eq : (g : GV) → wtG g = true → okE (encodeGeneric sc html true ord g) = genericText sc html g
  | .null, _ => rfl
  | .bool b, _ => by cases b <;> rfl
  | .num lit k, _ => by
    cases k with
    | f64 => exact float_eq sc hsc lit
    | num => exact number_eq lit
    | big => rfl
    | i64 => rfl
    | u64 => rfl
  | .str s, _ => by simp only [encodeGeneric, genericText, okE, Lemmas.JsonEncString.encodeString_eq]
  | .arr vs, h => by
    simp only [encodeGeneric, genericText]
    exact arr_eq _ _ (encGs_eq vs 0 (by simpa only [wtG] using h))
  | .obj ms, h => by
    simp only [encodeGeneric, genericText]
    have hw : wtGm ms = true := by simpa only [wtG] using h
    exact mapT_eq html ord hord _ _ _ (encGm_eq ms hw) (gKeys_pairwise ms hw)
theorem encGs_eq : (vs : GVs) → (i : Nat) → wtGs vs = true →
    okE (encodeGs sc html true ord vs i) = (genericTexts sc html vs).map (elemsText i)
  | .nil, i, _ => by simp only [encodeGs, genericTexts, okE, Option.map_some, elemsText_nil]
  | .cons v rest, i, h => by
    simp only [wtGs, Bool.and_eq_true] at h
    simp only [encodeGs, genericTexts]
    exact loopStep_eq i _ _ _ _ (encG_eq v h.1) (encGs_eq rest (i + 1) h.2)
theorem encGm_eq : (ms : GMs) → wtGm ms = true →
    MsRel (encodeGm sc html true ord ms) (genericMembers sc html ms) (gKeys ms)
  | .nil, _ => ⟨rfl, rfl⟩
  | .cons k v rest, h => by
    simp only [wtGm, Bool.and_eq_true] at h
    simp only [encodeGm, genericMembers, gKeys]
    exact msRel_cons k _ _ _ _ _ (encG_eq v h.1.2) (encGm_eq rest h.2)
end

/-! ### typed values -/

mutual
theorem enc_eq : (v : JV) → (t : JT) → wt t v = true → okE (encodeTyped sc html true ord t v) = encSpec sc html t v
  | .bool b, t, h => by
    cases t <;> simp only [wt, Bool.false_eq_true] at h
    cases b <;> rfl
  | .int i, t, h => by
    cases t <;> simp only [wt, Bool.false_eq_true] at h
    rename_i w
    simp only [decide_eq_true_eq] at h
    have hb := intRange_bounds w
    simp only [encodeTyped, encSpec, okE]
    rw [Lemmas.JsonEncInt.appendInt_eq i ⟨by omega, by omega⟩]
  | .float lit, t, h => by
    cases t <;> simp only [wt, Bool.false_eq_true] at h
    exact float_eq sc hsc lit
  | .str s, t, h => by
    cases t <;> simp only [wt, Bool.false_eq_true] at h
    simp only [encodeTyped, encSpec, okE, Lemmas.JsonEncString.encodeString_eq]
  | .slice isNil vs st, t, h => by
    cases t <;> simp only [wt, Bool.false_eq_true] at h
    rename_i e
    simp only [encodeTyped, encSpec]
    cases isNil with
    | true => rfl
    | false =>
      simp only [Bool.false_eq_true, if_false, isU8_eq]
      split
      · simp only [okE, bytes_eq, jvsBytes_eq]
      · exact arr_eq _ _ (encs_eq vs e 0 h)
  | .array vs, t, h => by
    cases t <;> simp only [wt, Bool.false_eq_true] at h
    rename_i n e
    simp only [encodeTyped, encSpec]
    exact arr_eq _ _ (encs_eq vs e 0 h)
  | .map isNil ms, t, h => by
    cases t <;> simp only [wt, Bool.false_eq_true] at h
    rename_i e
    simp only [encodeTyped, encSpec]
    cases isNil with
    | true => rfl
    | false =>
      simp only [Bool.false_eq_true, if_false]
      exact mapT_eq html ord hord _ _ _ (encMs_eq ms e h) (mKeys_pairwise e ms h)
  | .nilptr, t, h => by
    cases t <;> simp only [wt, Bool.false_eq_true] at h
    rfl
  | .ptr old v, t, h => by
    cases t <;> simp only [wt, Bool.false_eq_true] at h
    rename_i e
    simp only [encodeTyped, encSpec]
    exact enc_eq v e h
  | .strct vs, t, h => by
    cases t <;> simp only [wt, Bool.false_eq_true] at h
    rename_i fs
    simp only [encodeTyped, encSpec]
    exact obj_eq _ _ (encFs_eq vs fs 0 h)
  | .anyv g, t, h => by
    cases t <;> simp only [wt, Bool.false_eq_true] at h
    simp only [encodeTyped, encSpec]
    exact encG_eq sc hsc html ord hord g h
  | .anyp t' old v, t, h => by
    cases t <;> simp only [wt, Bool.false_eq_true] at h
    simp only [encodeTyped, encSpec]
    exact enc_eq v t' h
theorem encs_eq : (vs : JVs) → (e : JT) → (i : Nat) → wts e vs = true →
    okE (encodeElems sc html true ord e vs i) = (encSpecs sc html e vs).map (elemsText i)
  | .nil, e, i, _ => by simp only [encodeElems, encSpecs, okE, Option.map_some, elemsText_nil]
  | .cons v rest, e, i, h => by
    simp only [wts, Bool.and_eq_true] at h
    simp only [encodeElems, encSpecs]
    exact loopStep_eq i _ _ _ _ (enc_eq v e h.1) (encs_eq rest e (i + 1) h.2)
theorem encMs_eq : (ms : JMs) → (e : JT) → wtMs e ms = true →
    MsRel (encodeMs sc html true ord e ms) (encSpecMs sc html e ms) (mKeys ms)
  | .nil, _, _ => ⟨rfl, rfl⟩
  | .cons k v rest, e, h => by
    simp only [wtMs, Bool.and_eq_true] at h
    simp only [encodeMs, encSpecMs, mKeys]
    exact msRel_cons k _ _ _ _ _ (enc_eq v e h.1.2) (encMs_eq rest e h.2)
theorem encFs_eq : (vs : JVs) → (fs : JFs) → (n : Nat) → wtFs fs vs = true →
    okE (encodeFields sc html true ord fs vs n) = (encSpecFs sc html fs vs).map fun ps => elemsText n (ps.map memT)
  | .nil, fs, n, h => by
    cases fs with
    | nil => simp only [encodeFields, encSpecFs, okE, Option.map_some, List.map_nil, elemsText_nil]
    | cons _ _ _ => simp [wtFs] at h
  | .cons v vrest, fs, n, h => by
    cases fs with
    | nil => simp [wtFs] at h
    | cons name t frest =>
      simp only [wtFs, Bool.and_eq_true] at h
      simp only [encodeFields, encSpecFs]
      exact fieldStep_eq html name n _ _ _ _ (enc_eq v t h.1) (encFs_eq vrest frest (n + 1) h.2)
end

end

/-- **`encodeTyped_eq_spec`** -/
theorem encodeTyped_eq_spec (sc : Strconv) (hsc : ScShape sc) (html : Bool) (ord : MapOrd) (hord : OrdPerm ord)
    (t : JT) (v : JV) (h : wt t v = true) : okE (encodeTyped sc html true ord t v) = encSpec sc html t v :=
  enc_eq sc hsc html ord hord v t h

#print axioms encodeTyped_eq_spec

end Enc.Lemmas.JsonEncTyped
