import Enc.Lemmas.JsonRtTypedAux
/-!
# Typed round trip, containers: `valueS` (specification of the typed decoder) on the text `encSpec` (specification of the
typed encoder) writes for a canonical value gives `norm v` — mutual induction over the value universe
-/
namespace Enc.Lemmas.JsonRtTyped
open Enc Enc.Model.Json Enc.Model.Json.Typed
open Enc.Spec.Json (valueS elementsSl elementsAr membersMp membersSt ws isWs lit number digit consumed unquoteLit
  appendString intString intRange intOfLit floatOverflows boolText nullT floatText canonFloat coerceUTF8 encSpec encSpecs
  encSpecMs encSpecFs genericText arrText objText mapText canon canons canonMs canonFs canonG encodesNull norm norms normMs
  normG findField fieldOf consOpt wfT wfFs nameIn validUTF8B joinWith depthV depthVs depthMs depthG valueV keyBelow
  backingOf elemsOf entriesOf bytesVals bytesOf b64DecodeStd)
open Enc.Lemmas.JsonDecAnyRtInt (noNumCont intString_head)
open Enc.Lemmas.JsonDecAnyRender (etail joinWith_etail etail_length noNumCont_etail ws_of_head)
open Enc.Lemmas.JsonDecAnyRtStr (string_render unquote_render)

/-! ### one element, then the rest (slices) -/

theorem sl_elem (c : TFlags) (f d : Nat) (e : JT) (x tl rest : Bytes) (nv : JV) (nvs : JVs) (n : Bool) (hx : Hd x n)
    (hv : valueS c f d e (zeroOf e) (x ++ tl) = some (nv, false, tl)) (hws : ws tl = tl)
    (hr : elementsSl c f d e .nil tl false = some ((nvs, .nil), false, rest)) :
    elementsSl c (f + 1) d e .nil (x ++ tl) true = some ((.cons nv nvs, .nil), false, rest) ∧
    elementsSl c (f + 1) d e .nil (0x2c :: (x ++ tl)) false = some ((.cons nv nvs, .nil), false, rest) := by
  obtain ⟨c0, t, rfl, hw, h5d, _, _⟩ := hx.ne
  have h5d' : (c0 == 0x5d) = false := by simpa using h5d
  have hwsx : ws (c0 :: t ++ tl) = c0 :: t ++ tl := ws_of_head hw
  constructor
  · show elementsSl c (f + 1) d e .nil (c0 :: (t ++ tl)) true = _
    rw [elementsSl]
    simp only [h5d', Bool.false_eq_true, if_false, if_true, Option.bind_some]
    split
    · rename_i heq; simp only [List.cons.injEq] at heq; exact absurd heq.1 h5d
    · simp only [JVs.head?, Option.getD_none, JVs.tail]
      rw [show c0 :: (t ++ tl) = c0 :: t ++ tl from rfl, hv]
      simp only [Option.bind_some, hws, hr, Option.map_some, Bool.or_self]
  · rw [elementsSl]
    simp only [show ((0x2c : UInt8) == 0x5d) = false by decide, Bool.false_eq_true, if_false, beq_self_eq_true, if_true,
      Option.bind_some, hwsx]
    split
    · rename_i heq; simp only [List.cons_append, List.cons.injEq] at heq; exact absurd heq.1 h5d
    · simp only [JVs.head?, Option.getD_none, JVs.tail]
      rw [hv]
      simp only [Option.bind_some, hws, hr, Option.map_some, Bool.or_self]

theorem ws_etail (close : UInt8) (hc : close = 0x5d ∨ close = 0x7d) (xs : List Bytes) (rest : Bytes) :
    ws (etail close xs rest) = etail close xs rest := Lemmas.JsonDecAnyRender.ws_etail close hc xs rest

theorem sl_end (c : TFlags) (f d : Nat) (e : JT) (rest : Bytes) (first : Bool) :
    elementsSl c (f + 1) d e .nil (0x5d :: rest) first = some ((.nil, .nil), false, rest) := by
  rw [elementsSl]; simp

/-! ### arrays -/

theorem ar_elem (c : TFlags) (f d : Nat) (e : JT) (slots : JVs) (x tl rest : Bytes) (nv : JV) (nvs : JVs) (n : Bool)
    (hx : Hd x n) (hv : valueS c f d e (zeroOf e) (x ++ tl) = some (nv, false, tl)) (hws : ws tl = tl)
    (hr : elementsAr c f d e slots tl false = some (nvs, false, rest)) :
    elementsAr c (f + 1) d e (.cons (zeroOf e) slots) (x ++ tl) true = some (.cons nv nvs, false, rest) ∧
    elementsAr c (f + 1) d e (.cons (zeroOf e) slots) (0x2c :: (x ++ tl)) false = some (.cons nv nvs, false, rest) := by
  obtain ⟨c0, t, rfl, hw, h5d, _, _⟩ := hx.ne
  have h5d' : (c0 == 0x5d) = false := by simpa using h5d
  have hwsx : ws (c0 :: t ++ tl) = c0 :: t ++ tl := ws_of_head hw
  constructor
  · show elementsAr c (f + 1) d e _ (c0 :: (t ++ tl)) true = _
    rw [elementsAr]
    simp only [h5d', Bool.false_eq_true, if_false, if_true, Option.bind_some]
    split
    · rename_i heq; simp only [List.cons.injEq] at heq; exact absurd heq.1 h5d
    · rw [show c0 :: (t ++ tl) = c0 :: t ++ tl from rfl, hv]
      simp only [Option.bind_some, hws, hr, Option.map_some, Bool.or_self]
  · rw [elementsAr]
    simp only [show ((0x2c : UInt8) == 0x5d) = false by decide, Bool.false_eq_true, if_false, beq_self_eq_true, if_true,
      Option.bind_some, hwsx]
    split
    · rename_i heq; simp only [List.cons_append, List.cons.injEq] at heq; exact absurd heq.1 h5d
    · rw [hv]
      simp only [Option.bind_some, hws, hr, Option.map_some, Bool.or_self]

theorem ar_end (c : TFlags) (f d : Nat) (e : JT) (rest : Bytes) (first : Bool) :
    elementsAr c (f + 1) d e .nil (0x5d :: rest) first = some (.nil, false, rest) := by
  rw [elementsAr]; simp [JVs.length, JVs.replicate]

/-! ### maps -/

theorem mp_elem (c : TFlags) (f d : Nat) (e : JT) (m : JMs) (key : Bytes) (html : Bool) (x tl rest : Bytes) (nv : JV)
    (res : JMs) (n : Bool) (hx : Hd x n) (hk : validUTF8B key = true)
    (hv : valueS c f d e (zeroOf e) (x ++ tl) = some (nv, false, tl)) (hws : ws tl = tl)
    (hr : membersMp c f d e (m.insert key nv) tl false = some (res, false, rest)) :
    membersMp c (f + 1) d e m (appendString key html ++ 0x3a :: (x ++ tl)) true = some (res, false, rest) ∧
    membersMp c (f + 1) d e m (0x2c :: (appendString key html ++ 0x3a :: (x ++ tl))) false = some (res, false, rest) := by
  have hs := string_render key html (0x3a :: (x ++ tl))
  have hu : unquoteLit (appendString key html) = key := by
    rw [unquote_render, coerce_eq]; exact Lemmas.JsonRTUtf8.coerce_of_valid key hk
  obtain ⟨body, hq⟩ := Lemmas.JsonDecAnyRender.appendString_head key html
  have hwx : ws (x ++ tl) = x ++ tl := hx.ws tl
  have hcon : consumed (appendString key html ++ 0x3a :: (x ++ tl)) (0x3a :: (x ++ tl)) = appendString key html :=
    consumed_append _ _
  have hw3 : ws (0x3a :: (x ++ tl)) = 0x3a :: (x ++ tl) := ws_of_head (by decide)
  have hwk : ws (appendString key html ++ 0x3a :: (x ++ tl)) = appendString key html ++ 0x3a :: (x ++ tl) := by
    rw [hq]; exact ws_of_head (by decide)
  generalize hB : appendString key html ++ 0x3a :: (x ++ tl) = B at hs hcon hwk ⊢
  obtain ⟨B', rfl⟩ : ∃ B', B = 0x22 :: B' := by rw [← hB, hq]; exact ⟨_, rfl⟩
  constructor
  · rw [membersMp]
    simp only [show ((0x22 : UInt8) == 0x7d) = false by decide, Bool.false_eq_true, if_false, if_true, Option.bind_some, hs,
      hw3, hwx, hv, hcon, hu, hws, hr, Option.map_some, Bool.or_self]
  · rw [membersMp]
    simp only [show ((0x2c : UInt8) == 0x7d) = false by decide, Bool.false_eq_true, if_false, beq_self_eq_true, if_true,
      Option.bind_some, hwk, hs, hw3, hwx, hv, hcon, hu, hws, hr, Option.map_some, Bool.or_self]

theorem mp_end (c : TFlags) (f d : Nat) (e : JT) (m : JMs) (rest : Bytes) (first : Bool) :
    membersMp c (f + 1) d e m (0x7d :: rest) first = some (m, false, rest) := by
  rw [membersMp]; simp

/-! ### structs -/

theorem st_elem (c : TFlags) (f d : Nat) (fs : JFs) (vals : JVs) (key : Bytes) (html : Bool) (idx : Nat) (ft : JT)
    (x tl rest : Bytes) (nv : JV) (res : JVs) (n : Bool) (hx : Hd x n) (hk : validUTF8B key = true)
    (hfield : fieldOf fs key = some (idx, ft)) (hslot : vals.get? idx = some (zeroOf ft))
    (hv : valueS c f d ft (zeroOf ft) (x ++ tl) = some (nv, false, tl)) (hws : ws tl = tl)
    (hr : membersSt c f d fs (vals.set idx nv) tl false = some (res, false, rest)) :
    membersSt c (f + 1) d fs vals (appendString key html ++ 0x3a :: (x ++ tl)) true = some (res, false, rest) ∧
    membersSt c (f + 1) d fs vals (0x2c :: (appendString key html ++ 0x3a :: (x ++ tl))) false = some (res, false, rest) := by
  have hs := string_render key html (0x3a :: (x ++ tl))
  have hu : unquoteLit (appendString key html) = key := by
    rw [unquote_render, coerce_eq]; exact Lemmas.JsonRTUtf8.coerce_of_valid key hk
  obtain ⟨body, hq⟩ := Lemmas.JsonDecAnyRender.appendString_head key html
  have hwx : ws (x ++ tl) = x ++ tl := hx.ws tl
  have hcon : consumed (appendString key html ++ 0x3a :: (x ++ tl)) (0x3a :: (x ++ tl)) = appendString key html :=
    consumed_append _ _
  have hw3 : ws (0x3a :: (x ++ tl)) = 0x3a :: (x ++ tl) := ws_of_head (by decide)
  have hwk : ws (appendString key html ++ 0x3a :: (x ++ tl)) = appendString key html ++ 0x3a :: (x ++ tl) := by
    rw [hq]; exact ws_of_head (by decide)
  generalize hB : appendString key html ++ 0x3a :: (x ++ tl) = B at hs hcon hwk ⊢
  obtain ⟨B', rfl⟩ : ∃ B', B = 0x22 :: B' := by rw [← hB, hq]; exact ⟨_, rfl⟩
  constructor
  · rw [membersSt]
    simp only [show ((0x22 : UInt8) == 0x7d) = false by decide, Bool.false_eq_true, if_false, if_true, Option.bind_some, hs,
      hw3, hwx, hcon, hu, hfield, hslot, Option.getD_some, hv, hws, hr, Option.map_some, Bool.or_self]
  · rw [membersSt]
    simp only [show ((0x2c : UInt8) == 0x7d) = false by decide, Bool.false_eq_true, if_false, beq_self_eq_true, if_true,
      Option.bind_some, hwk, hs, hw3, hwx, hcon, hu, hfield, hslot, Option.getD_some, hv, hws, hr, Option.map_some,
      Bool.or_self]

theorem st_end (c : TFlags) (f d : Nat) (fs : JFs) (vals : JVs) (rest : Bytes) (first : Bool) :
    membersSt c (f + 1) d fs vals (0x7d :: rest) first = some (vals, false, rest) := by
  rw [membersSt]; simp

/-! ### inversion of the specification's list builders -/

theorem consOpt_some {α : Type} {o1 : Option α} {o2 : Option (List α)} {l : List α} (h : consOpt o1 o2 = some l) :
    ∃ a as, o1 = some a ∧ o2 = some as ∧ l = a :: as := by
  cases o1 <;> cases o2 <;> simp [consOpt] at h
  exact ⟨_, _, rfl, rfl, h.symm⟩

theorem map_some' {α β : Type} {o : Option α} {f : α → β} {y : β} (h : o.map f = some y) : ∃ a, o = some a ∧ y = f a := by
  cases o <;> simp at h
  exact ⟨_, rfl, h.symm⟩

/-! ### canonical values are well-typed -/

mutual
theorem canonG_wt (sc : Strconv) (c : TFlags) : (g : GV) → canonG sc c g = true → Lemmas.JsonEncTyped.wtG g = true
  | .null, _ => rfl
  | .bool _, _ => rfl
  | .num _ _, _ => rfl
  | .str _, _ => rfl
  | .arr vs, h => by simp only [canonG] at h; simp only [Lemmas.JsonEncTyped.wtG]; exact canonGs_wt sc c vs h
  | .obj ms, h => by simp only [canonG] at h; simp only [Lemmas.JsonEncTyped.wtG]; exact canonGm_wt sc c ms h
theorem canonGs_wt (sc : Strconv) (c : TFlags) : (vs : GVs) → Spec.Json.canonGs sc c vs = true → Lemmas.JsonEncTyped.wtGs vs = true
  | .nil, _ => rfl
  | .cons v r, h => by
    simp only [Spec.Json.canonGs, Bool.and_eq_true] at h
    simp only [Lemmas.JsonEncTyped.wtGs, canonG_wt sc c v h.1, canonGs_wt sc c r h.2, Bool.and_self]
theorem canonGm_wt (sc : Strconv) (c : TFlags) : (ms : GMs) → Spec.Json.canonGm sc c ms = true → Lemmas.JsonEncTyped.wtGm ms = true
  | .nil, _ => rfl
  | .cons k v r, h => by
    simp only [Spec.Json.canonGm, Bool.and_eq_true] at h
    simp only [Lemmas.JsonEncTyped.wtGm, h.1.1.2, canonG_wt sc c v h.1.2, canonGm_wt sc c r h.2, Bool.and_self]
end

mutual
theorem canon_wt (sc : Strconv) (c : TFlags) : (v : JV) → (t : JT) → canon sc c t v = true → Lemmas.JsonEncTyped.wt t v = true
  | .bool _, t, h => by cases t <;> simp only [canon, Bool.false_eq_true] at h; rfl
  | .int i, t, h => by cases t <;> simp only [canon, Bool.false_eq_true] at h; simpa only [Lemmas.JsonEncTyped.wt] using h
  | .float _, t, h => by cases t <;> simp only [canon, Bool.false_eq_true] at h; rfl
  | .str _, t, h => by cases t <;> simp only [canon, Bool.false_eq_true] at h; rfl
  | .slice n vs st, t, h => by
    cases t <;> simp only [canon, Bool.false_eq_true, Bool.and_eq_true] at h
    simp only [Lemmas.JsonEncTyped.wt]; exact canons_wt sc c vs _ h.2
  | .array vs, t, h => by
    cases t <;> simp only [canon, Bool.false_eq_true, Bool.and_eq_true] at h
    simp only [Lemmas.JsonEncTyped.wt]; exact canons_wt sc c vs _ h.2
  | .map n ms, t, h => by
    cases t <;> simp only [canon, Bool.false_eq_true, Bool.and_eq_true] at h
    simp only [Lemmas.JsonEncTyped.wt]; exact canonMs_wt sc c ms _ h.2
  | .nilptr, t, h => by cases t <;> simp only [canon, Bool.false_eq_true] at h; rfl
  | .ptr _ v, t, h => by
    cases t <;> simp only [canon, Bool.false_eq_true] at h
    simp only [Lemmas.JsonEncTyped.wt]; exact canon_wt sc c v _ h
  | .strct vs, t, h => by
    cases t <;> simp only [canon, Bool.false_eq_true] at h
    simp only [Lemmas.JsonEncTyped.wt]; exact canonFs_wt sc c vs _ h
  | .anyv g, t, h => by
    cases t <;> simp only [canon, Bool.false_eq_true] at h
    simp only [Lemmas.JsonEncTyped.wt]; exact canonG_wt sc c g h
  | .anyp _ _ _, t, h => by cases t <;> simp only [canon, Bool.false_eq_true] at h
theorem canons_wt (sc : Strconv) (c : TFlags) : (vs : JVs) → (e : JT) → canons sc c e vs = true → Lemmas.JsonEncTyped.wts e vs = true
  | .nil, _, _ => rfl
  | .cons v r, e, h => by
    simp only [canons, Bool.and_eq_true] at h
    simp only [Lemmas.JsonEncTyped.wts, canon_wt sc c v e h.1, canons_wt sc c r e h.2, Bool.and_self]
theorem canonMs_wt (sc : Strconv) (c : TFlags) : (ms : JMs) → (e : JT) → canonMs sc c e ms = true → Lemmas.JsonEncTyped.wtMs e ms = true
  | .nil, _, _ => rfl
  | .cons k v r, e, h => by
    simp only [canonMs, Bool.and_eq_true] at h
    simp only [Lemmas.JsonEncTyped.wtMs, h.1.1.2, canon_wt sc c v e h.1.2, canonMs_wt sc c r e h.2, Bool.and_self]
theorem canonFs_wt (sc : Strconv) (c : TFlags) : (vs : JVs) → (fs : JFs) → canonFs sc c fs vs = true → Lemmas.JsonEncTyped.wtFs fs vs = true
  | .nil, fs, h => by cases fs <;> simp only [canonFs, Bool.false_eq_true] at h; rfl
  | .cons v r, fs, h => by
    cases fs <;> simp only [canonFs, Bool.false_eq_true, Bool.and_eq_true] at h
    simp only [Lemmas.JsonEncTyped.wtFs, canon_wt sc c v _ h.1, canonFs_wt sc c r _ h.2, Bool.and_self]
end

end Enc.Lemmas.JsonRtTyped
