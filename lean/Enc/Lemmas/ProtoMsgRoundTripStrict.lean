import Enc.Lemmas.ProtoMsgRoundTrip
import Enc.Lemmas.ProtoMsgDecodeGuard
import Enc.Lemmas.ProtoMsgDecodeExamples
/-!
# The whole-message round trip through user types whose `Unmarshal` can FAIL

* `leaves c u`        the user values inside `u`, in field order; `leafCalls ops c u` the byte strings their `Marshal` writes;
* `RoundTrips ops c u` the user's contract: `Unmarshal(Marshal(s)) = s` on a zero receiver, for the leaves `s` of `u`;
* `PresentsLeavesOnce ops t u`  THE INVARIANT, as a statement about the decoder alone (no user code in it): on the bytes
                      `Marshal` writes for `u`, `proto.Unmarshal` with the OBSERVER (`guardOps`: accepts only the byte strings of
                      `leafCalls`, only on a zero receiver) in place of the user types does what the payload-level decoder
                      does — i.e. every call of a user `Unmarshal` is on a fresh receiver with one of the leaves' encodings;
* `concV_absV`        under `RoundTrips`, applying the user's `Unmarshal` at every leaf of the payload-level value of `u`
                      restores `u` literally;
* `unmarshal_marshal_usr_strict`  invariant + contract ⇒ the round trip, for ARBITRARY user methods.
-/
namespace Enc.Lemmas.ProtoMsg
open Enc Enc.Model.Proto
open Enc.Lemmas.ProtoOpaque Enc.Lemmas.ProtoMsgDecode
open Enc.Spec.Protobuf (canonical)

-- `leaves`, `leafCalls` are defined in `Enc/Model/ProtoMsgObserver.lean` (the driver evaluates the invariant with them)

theorem payOf_eq (ops : UserOps) (u : Val) : payOf ops u = pay ops u := rfl

/-- the user's round-trip contract on the leaves of `u` (receiver: the zero value the decoder allocates) -/
def RoundTrips (ops : UserOps) (c : Codec) (u : Val) : Prop := ∀ s ∈ leaves c u, ops.unmarshal .nil (pay ops s) = .ok s

/-- THE INVARIANT: the decoder hands to the user exactly-once-per-slot, and only, the encodings of the leaves -/
def PresentsLeavesOnce (ops : UserOps) (t : Ty) (u : Val) : Prop :=
  unmarshalUsr (guardOps fun q => (leafCalls ops (codecOf t) u).contains q) t (marshal t (absV ops (codecOf t) u))
    = unmarshal t (marshal t (absV ops (codecOf t) u))

mutual
/-- the entry codec of every map is the `{Key, Elem}` struct of its key and value codecs (as `structCodecOf` builds it) -/
def EntWF : Codec → Prop
  | .ptr c => EntWF c
  | .struct fs => EntWFF fs
  | .slice e _ _ _ => EntWF e
  | .map _ k v _ _ entry => entryKey entry = k ∧ entryVal entry = v ∧ EntWF k ∧ EntWF v
  | _ => True
def EntWFF : CFields → Prop
  | .nil => True
  | .cons _ _ _ _ c rest => EntWF c ∧ EntWFF rest
end

theorem un_pay {ops : UserOps} {s : Val} (h : ops.unmarshal .nil (pay ops s) = .ok s) : un ops (pay ops s) = s := by
  simp only [un, h]

mutual
theorem concV_absV (ops : UserOps) (c : Codec) (u : Val) (hw : EntWF c)
    (h : ∀ s ∈ leaves c u, ops.unmarshal .nil (pay ops s) = .ok s) : concV ops c (absV ops c u) = u := by
  cases c <;> cases u <;> simp only [absV, concV]
  all_goals first
    | (exact un_pay (h _ (by simp only [leaves, List.mem_singleton])); done)
    | skip
  case ptr.ptr c v =>
    simp only [EntWF] at hw; simp only [leaves] at h; rw [concV_absV ops c v hw h]
  case struct.struct fs vs =>
    simp only [EntWF] at hw; simp only [leaves] at h; rw [concF_absFs ops fs vs hw h]
  case slice.list e n w emb vs =>
    simp only [EntWF] at hw; simp only [leaves] at h; rw [concL_absL ops e vs hw h]
  case map.map n k v ke ve entry kvs =>
    simp only [EntWF] at hw; simp only [leaves] at h
    rw [hw.1, hw.2.1, concM_absM ops k v kvs hw.2.2.1 hw.2.2.2 h]
theorem concF_absFs (ops : UserOps) (fs : CFields) (vs : Vals) (hw : EntWFF fs)
    (h : ∀ s ∈ leavesFs fs vs, ops.unmarshal .nil (pay ops s) = .ok s) : concF ops fs (absFs ops fs vs) = vs := by
  cases fs with
  | nil => cases vs <;> simp only [absFs, concF]
  | cons number emb rep zz c rest =>
    cases vs with
    | nil => simp only [absFs, concF]
    | cons v vs =>
      simp only [EntWFF] at hw
      simp only [leavesFs, List.mem_append] at h
      simp only [absFs, concF, concV_absV ops c v hw.1 (fun s hs => h s (Or.inl hs)),
        concF_absFs ops rest vs hw.2 (fun s hs => h s (Or.inr hs))]
theorem concL_absL (ops : UserOps) (e : Codec) (vs : Vals) (hw : EntWF e)
    (h : ∀ s ∈ leavesL e vs, ops.unmarshal .nil (pay ops s) = .ok s) : concL ops e (absL ops e vs) = vs := by
  cases vs with
  | nil => simp only [absL, concL]
  | cons v vs =>
    simp only [leavesL, List.mem_append] at h
    simp only [absL, concL, concV_absV ops e v hw (fun s hs => h s (Or.inl hs)),
      concL_absL ops e vs hw (fun s hs => h s (Or.inr hs))]
theorem concM_absM (ops : UserOps) (k v : Codec) (kvs : Vals) (hk : EntWF k) (hv : EntWF v)
    (h : ∀ s ∈ leavesM k v kvs, ops.unmarshal .nil (pay ops s) = .ok s) : concM ops k v (absM ops k v kvs) = kvs := by
  match kvs with
  | .nil => simp only [absM, concM]
  | .cons _ .nil => simp only [absM, concM]
  | .cons a (.cons b r) =>
    simp only [leavesM, List.mem_append] at h
    simp only [absM, concM, concV_absV ops k a hk (fun s hs => h s (Or.inl hs)),
      concV_absV ops v b hv (fun s hs => h s (Or.inr (Or.inl hs))),
      concM_absM ops k v r hk hv (fun s hs => h s (Or.inr (Or.inr hs)))]
end

/-- the observer's set is accepted by a user type that keeps the round-trip contract -/
theorem accepts_of_roundTrips (ops : UserOps) (c : Codec) (u : Val) (h : RoundTrips ops c u) :
    ∀ q, (leafCalls ops c u).contains q = true → ∃ s, ops.unmarshal .nil q = .ok s := by
  intro q hq
  simp only [List.contains_iff_mem, leafCalls, List.mem_map] at hq
  obtain ⟨s, hs, rfl⟩ := hq
  exact ⟨s, h s hs⟩

/-- **round trip with user types whose `Unmarshal` can fail** (any `ops`: failing, merging — only the contract on the leaves of
`u` is assumed). `Marshal` succeeds with bytes `b`; `Unmarshal b` succeeds and returns `concV ops _ w'`: the user's `Unmarshal`
applied at every leaf of a payload-level value `w'` that is canonically equal to the payloads of `u` — and `concV` of the
payloads of `u` IS `u`. -/
theorem unmarshal_marshal_usr_strict (ops : UserOps) (fs : Fields) (u : Val)
    (hc : LeavesOK ops (codecOf (.struct fs)) u) (hrt : RoundTrips ops (codecOf (.struct fs)) u)
    (hinv : PresentsLeavesOnce ops (.struct fs) u)
    (hk : keysPlain (codecOf (.struct fs)) = true) (hw : EntWF (codecOf (.struct fs)))
    (hty : tyOKM4 (.struct fs) = true)
    (hp : ptrsOK4 (.struct fs) (absV ops (codecOf (.struct fs)) u) = true)
    (hv : hasTypeM4 (.struct fs) (absV ops (codecOf (.struct fs)) u) = true)
    (hne : valOKM4 (.struct fs) (absV ops (codecOf (.struct fs)) u) = true)
    (hlen : (marshal (.struct fs) (absV ops (codecOf (.struct fs)) u)).length < 2 ^ 64)
    (hdep : Codec.nesting (codecOf (.struct fs)) ≤ Gen.c_proto_maxDepth) :
    ∃ b w', marshalUsr ops (.struct fs) u = .ok b
      ∧ unmarshalUsr ops (.struct fs) b = .ok (concV ops (codecOf (.struct fs)) w')
      ∧ canonical (.struct fs) w' = canonical (.struct fs) (absV ops (codecOf (.struct fs)) u)
      ∧ concV ops (codecOf (.struct fs)) (absV ops (codecOf (.struct fs)) u) = u := by
  obtain ⟨w', h1, h2⟩ := unmarshal_marshal_map_partial_opaque_canon fs _ hty hp hv hne hlen hdep
  refine ⟨_, w', (marshalUsr_ok ops _ u hc).1, ?_, h2, concV_absV ops _ u hw hrt⟩
  apply unmarshalUsr_guard (accepts_of_roundTrips ops _ u hrt) _ _ hk
  rw [hinv, h1]

end Enc.Lemmas.ProtoMsg

#print axioms Enc.Lemmas.ProtoMsg.concV_absV
#print axioms Enc.Lemmas.ProtoMsg.unmarshal_marshal_usr_strict

/-! ## non-vacuity: a user type whose `Unmarshal` REJECTS some inputs (first byte 0xFF: "bad magic") and MERGES on a non-zero
receiver (appends) — neither lenient nor overwriting; on the example type of `ProtoOpaqueMain` (user values as field, element,
pointer element, map value, inside a nested message) -/
namespace Enc.Lemmas.ProtoMsg
open Enc Enc.Model.Proto
open Enc.Lemmas.ProtoOpaque Enc.Lemmas.ProtoMsgDecode Enc.Lemmas.ProtoPtrs Enc.Lemmas.ProtoWire Enc.Lemmas.ProtoMap

def magicOps : UserOps where
  size := rawOps.size
  marshal := rawOps.marshal
  unmarshal := fun cur b =>
    match b with
    | 0xFF :: _ => .err "user: bad magic"
    | _ => .ok (.str ((match cur with | .str s => s | _ => []) ++ b))

/-- the user rejects: not `Lenient` -/
theorem magicOps_rejects : magicOps.unmarshal .nil [0xFF, 1] = .err "user: bad magic" := rfl
/-- … and merges -/
theorem magicOps_merges : magicOps.unmarshal (.str [1]) [2] = .ok (.str [1, 2]) := rfl

/-- `exOVals` with empty (not nil) user values: the user's `Unmarshal` produces a non-nil state -/
def exSVals : Vals := Vals.ofList [
  .int 5, .str [1, 2], .str [120],
  .list (Vals.ofList [.str [], .str [], .str [9]]),
  .list (Vals.ofList [.ptr (.str [7]), .ptr (.str [])]),
  .map (Vals.ofList [.str [107], .str [3], .str [], .str []]),
  .str [],
  .list (Vals.ofList [.str [8, 2]]),
  .struct (Vals.ofList [.int 0, .str [8]]),
  .map (Vals.ofList [.int 1, .str [4]])]

theorem exS_abs : absV magicOps (codecOf (.struct exOFields)) (.struct exSVals) = .struct exOBVals := by
  rw [codecOf_struct, exO_codec]
  simp [exOCodec, exSVals, exOBVals, Vals.ofList, absV, absFs, absL, absM, pay, magicOps, rawOps]

theorem exS_leaves : leaves (codecOf (.struct exOFields)) (.struct exSVals)
    = [.str [1, 2], .str [], .str [], .str [9], .str [7], .str [], .str [3], .str [], .str [], .str [8, 2], .str [8], .str [4]] := by
  rw [codecOf_struct, exO_codec]
  simp [exOCodec, exSVals, Vals.ofList, leaves, leavesFs, leavesL, leavesM]

theorem exS_calls : leafCalls magicOps (codecOf (.struct exOFields)) (.struct exSVals)
    = [[1, 2], [], [], [9], [7], [], [3], [], [], [8, 2], [8], [4]] := by
  simp [leafCalls, exS_leaves, payOf, magicOps, rawOps]

theorem exS_leavesOK : LeavesOK magicOps (codecOf (.struct exOFields)) (.struct exSVals) := by
  have key : ∀ u, LeafOK magicOps u := fun u => leafOK_rawOps u
  rw [codecOf_struct, exO_codec]
  simp only [exOCodec, exSVals, Vals.ofList, LeavesOK, LeavesOKFs, LeavesOKL, LeavesOKM, key, and_self]

theorem exS_roundTrips : RoundTrips magicOps (codecOf (.struct exOFields)) (.struct exSVals) := by
  intro s hs
  rw [exS_leaves] at hs
  simp only [List.mem_cons, List.mem_nil_iff, or_false] at hs
  rcases hs with rfl | rfl | rfl | rfl | rfl | rfl | rfl | rfl | rfl | rfl | rfl | rfl <;> rfl

theorem exS_entWF : EntWF (codecOf (.struct exOFields)) := by
  rw [codecOf_struct, exO_codec]
  simp [exOCodec, EntWF, EntWFF, entryKey, entryVal]

theorem exS_bytes : encode (.struct exOCodec) (.struct exOBVals) { toplevel := true, inline := true }
    = [0x08, 0x05, 0x12, 0x02, 0x01, 0x02, 0x1a, 0x01, 0x78, 0x3a, 0x00, 0x4a, 0x03, 0x12, 0x01, 0x08,
       0x22, 0x00, 0x22, 0x00, 0x22, 0x01, 0x09, 0x2a, 0x01, 0x07, 0x2a, 0x00,
       0x32, 0x06, 0x0a, 0x01, 0x6b, 0x12, 0x01, 0x03, 0x32, 0x04, 0x0a, 0x00, 0x12, 0x00,
       0x42, 0x02, 0x08, 0x02, 0x52, 0x05, 0x08, 0x01, 0x12, 0x01, 0x04] := by decide

theorem exO_zero : zeroOf (.struct exOFields) = .struct (Vals.ofList [.int 0, .nil, .str [], .nil, .nil, .nil, .nil, .nil,
    .struct (Vals.ofList [.int 0, .nil]), .nil]) := by
  simp [exOFields, exONested, exRaw, ProtoOpaque.exZ, zeroOf, zeroFields, Vals.ofList]

/-- the invariant on the example, by running the decoder with the observer: the 12 user values are handed over once each, on
zero receivers, and nothing else is -/
theorem exS_presents : PresentsLeavesOnce magicOps (.struct exOFields) (.struct exSVals) := by
  simp only [PresentsLeavesOnce, exS_calls, exS_abs]
  rw [marshal_struct, exO_codec, exS_bytes]
  simp only [unmarshalUsr, unmarshal, codecOf_struct, exO_codec, exO_zero]
  rfl

theorem exS_hyps : magicOps.unmarshal .nil [0xFF, 1] = .err "user: bad magic" ∧ magicOps.unmarshal (.str [1]) [2] = .ok (.str [1, 2])
    ∧ LeavesOK magicOps (codecOf (.struct exOFields)) (.struct exSVals)
    ∧ RoundTrips magicOps (codecOf (.struct exOFields)) (.struct exSVals)
    ∧ PresentsLeavesOnce magicOps (.struct exOFields) (.struct exSVals)
    ∧ keysPlain (codecOf (.struct exOFields)) = true ∧ EntWF (codecOf (.struct exOFields))
    ∧ tyOKM4 (.struct exOFields) = true
    ∧ ptrsOK4 (.struct exOFields) (absV magicOps (codecOf (.struct exOFields)) (.struct exSVals)) = true
    ∧ hasTypeM4 (.struct exOFields) (absV magicOps (codecOf (.struct exOFields)) (.struct exSVals)) = true
    ∧ valOKM4 (.struct exOFields) (absV magicOps (codecOf (.struct exOFields)) (.struct exSVals)) = true
    ∧ (marshal (.struct exOFields) (absV magicOps (codecOf (.struct exOFields)) (.struct exSVals))).length < 2 ^ 64 := by
  have h := exOU_hyps
  rw [exO_abs] at h
  rw [exS_abs]
  exact ⟨rfl, rfl, exS_leavesOK, exS_roundTrips, exS_presents, h.2.1, exS_entWF, h.2.2.1, h.2.2.2.1, h.2.2.2.2.1, h.2.2.2.2.2.1,
    h.2.2.2.2.2.2.1⟩

/-- the round trip on the example, through the theorem -/
example : ∃ b w', marshalUsr magicOps (.struct exOFields) (.struct exSVals) = .ok b
    ∧ unmarshalUsr magicOps (.struct exOFields) b = .ok (concV magicOps (codecOf (.struct exOFields)) w')
    ∧ Spec.Protobuf.canonical (.struct exOFields) w'
        = Spec.Protobuf.canonical (.struct exOFields) (absV magicOps (codecOf (.struct exOFields)) (.struct exSVals))
    ∧ concV magicOps (codecOf (.struct exOFields)) (absV magicOps (codecOf (.struct exOFields)) (.struct exSVals))
        = .struct exSVals :=
  unmarshal_marshal_usr_strict magicOps exOFields _ exS_hyps.2.2.1 exS_hyps.2.2.2.1 exS_hyps.2.2.2.2.1 exS_hyps.2.2.2.2.2.1
    exS_hyps.2.2.2.2.2.2.1 exS_hyps.2.2.2.2.2.2.2.1 exS_hyps.2.2.2.2.2.2.2.2.1 exS_hyps.2.2.2.2.2.2.2.2.2.1
    exS_hyps.2.2.2.2.2.2.2.2.2.2.1 exS_hyps.2.2.2.2.2.2.2.2.2.2.2 exO_depth

/-! ### the observer discriminates: inputs that are NOT what `Marshal` writes (type and inputs of `ProtoMsgDecodeExamples`) -/

/-- field `A` twice (`exB2`): the second call finds a non-zero receiver -/
example : unmarshalUsr (guardOps fun _ => true) (.struct Lemmas.ProtoMsgDecode.exFs) Lemmas.ProtoMsgDecode.exB2
    = .err "observer: receiver" := by
  simp only [unmarshalUsr, Lemmas.ProtoMsgDecode.ex_codec, Lemmas.ProtoMsgDecode.ex_zero]
  rfl
/-- a byte string that is not the encoding of a leaf (`exB`, with `[5]` — the payload of `P` — left out of `G`) -/
example : unmarshalUsr (guardOps fun q => [[1, 2], [3, 4], [6, 7]].contains q) (.struct Lemmas.ProtoMsgDecode.exFs)
    Lemmas.ProtoMsgDecode.exB = .err "observer: payload" := by
  simp only [unmarshalUsr, Lemmas.ProtoMsgDecode.ex_codec, Lemmas.ProtoMsgDecode.ex_zero]
  rfl
/-- … and with all four encodings in `G` it does what the payload-level decoder does -/
example : unmarshalUsr (guardOps fun q => [[1, 2], [3, 4], [5], [6, 7]].contains q) (.struct Lemmas.ProtoMsgDecode.exFs)
    Lemmas.ProtoMsgDecode.exB = unmarshal (.struct Lemmas.ProtoMsgDecode.exFs) Lemmas.ProtoMsgDecode.exB := by
  simp only [unmarshalUsr, unmarshal, Lemmas.ProtoMsgDecode.ex_codec, Lemmas.ProtoMsgDecode.ex_zero]
  rfl

end Enc.Lemmas.ProtoMsg
