import Enc.Lemmas.ProtoOpaqueBridge
import Enc.Lemmas.ProtoPtrsMain
/-!
# proto: opaque leaves — the universes `tyOK4 ⊇ tyOK3`, `tyOKM4 ⊇ tyOKM3` and the model side at the entry points

A type is in `tyOK4` (resp. `tyOKM4`) when it is `opaqueSafe` and its relabelled form `ob t` (every opaque leaf
`.named "RawMessage" _` replaced by `[]byte`) is in `tyOK3` (resp. `tyOKM3`). Value predicates and record lists are the old
ones at the relabelled type on the relabelled value (`ov`: a nil leaf is the empty byte string).

  * `marshal_ob`, `encode_ob_fields`   `Marshal` writes `v : t` exactly like `ov t v : ob t`
  * `unmarshal_ob`                     `Unmarshal` at `t` and at `ob t` return the same result on EVERY input
  * `struct_bytes_opaque`, `struct_bytes_maps_opaque`  (C12 bytes), `opaque_field_record`, `opaque_nil_field_record`
  * `tyOK4_of_tyOK3`, `tyOKM4_of_tyOKM3`, `old_universe4`
-/
set_option linter.unusedSimpArgs false
set_option linter.unusedVariables false
namespace Enc.Lemmas.ProtoOpaque
open Enc Enc.Model.Proto
open Enc.Lemmas.ProtoWire Enc.Lemmas.ProtoMap Enc.Lemmas.ProtoLiberal Enc.Lemmas.ProtoLiberalMap
open Enc.Lemmas.ProtoNamed (nameSafe nameSafeFields)
open Enc.Lemmas.ProtoPtrs (tyOK3 tyOKM3 ptrsOK3 ptrsOKs3 hasType3 hasTypes3 hasTypeM3 hasTypesM3 noEmptyPtr3 valOKM3
  allRecords3 allRecordsM3 noEmptyEntry3 noArr3 rfields)

/-! ## the universe -/

def tyOK4 (t : Ty) : Bool := tyOK3 (ob t) && opaqueSafe t
def tyOKM4 (t : Ty) : Bool := tyOKM3 (ob t) && opaqueSafe t
def ptrsOK4 (t : Ty) (v : Val) : Bool := ptrsOK3 (ob t) (ov t v)
def ptrsOKs4 (fs : Fields) (vs : Vals) : Bool := ptrsOKs3 (obFields fs) (ovFields fs vs)
def hasType4 (t : Ty) (v : Val) : Bool := hasType3 (ob t) (ov t v)
def hasTypes4 (fs : Fields) (vs : Vals) : Bool := hasTypes3 (obFields fs) (ovFields fs vs)
def hasTypeM4 (t : Ty) (v : Val) : Bool := hasTypeM3 (ob t) (ov t v)
def hasTypesM4 (fs : Fields) (vs : Vals) : Bool := hasTypesM3 (obFields fs) (ovFields fs vs)
def noEmptyPtr4 (t : Ty) (v : Val) : Bool := noEmptyPtr3 (ob t) (ov t v)
def valOKM4 (t : Ty) (v : Val) : Bool := valOKM3 (ob t) (ov t v)
def allRecords4 (wz : Bool) (fs : Fields) (vs : Vals) := allRecords3 wz (obFields fs) (ovFields fs vs)
def allRecordsM4 (wz : Bool) (fs : Fields) (vs : Vals) := allRecordsM3 wz (obFields fs) (ovFields fs vs)
def noEmptyEntry4 (t : Ty) (b : Bytes) : Bool := noEmptyEntry3 (ob t) b
def noArr4 (t : Ty) : Bool := noArr3 (ob t)

theorem ob_struct (fs : Fields) : ob (.struct fs) = .struct (obFields fs) := by simp only [ob]
theorem ov_struct (fs : Fields) (vs : Vals) : ov (.struct fs) (.struct vs) = .struct (ovFields fs vs) := by
  simp only [ov]

theorem tyOK4_struct {fs : Fields} (h : tyOK4 (.struct fs) = true) :
    tyOK3 (.struct (obFields fs)) = true ∧ opaqueSafeFields fs = true := by
  simpa only [tyOK4, ob, opaqueSafe, Bool.and_eq_true] using h
theorem tyOKM4_struct {fs : Fields} (h : tyOKM4 (.struct fs) = true) :
    tyOKM3 (.struct (obFields fs)) = true ∧ opaqueSafeFields fs = true := by
  simpa only [tyOKM4, ob, opaqueSafe, Bool.and_eq_true] using h

theorem tyOKM4_of_tyOK4 (t : Ty) (h : tyOK4 t = true) : tyOKM4 t = true := by
  simp only [tyOK4, Bool.and_eq_true] at h
  simp only [tyOKM4, Lemmas.ProtoPtrs.tyOKM3_of_tyOK3 _ h.1, h.2, Bool.and_self]

/-! ### (5) the universes grow: a type without opaque leaves is its own relabelling -/

theorem nameSafe_of_tyOKM3 (t : Ty) (h : tyOKM3 t = true) : nameSafe t = true := by
  simp only [tyOKM3, Bool.and_eq_true] at h; exact h.1

theorem tyOKM4_of_tyOKM3 (t : Ty) (h : tyOKM3 t = true) : tyOKM4 t = true := by
  obtain ⟨e, s⟩ := ob_id_of_nameSafe t (nameSafe_of_tyOKM3 t h)
  simp only [tyOKM4, e, h, s, Bool.and_self]
theorem tyOK4_of_tyOK3 (t : Ty) (h : tyOK3 t = true) : tyOK4 t = true := by
  obtain ⟨e, s⟩ := ob_id_of_nameSafe t (nameSafe_of_tyOKM3 t (Lemmas.ProtoPtrs.tyOKM3_of_tyOK3 t h))
  simp only [tyOK4, e, h, s, Bool.and_self]

/-- **the `*_opaque` theorems contain the `*_ptrs` ones**: on a type of the old universe the new hypotheses are the old ones -/
theorem old_universe4 (t : Ty) (v : Val) (h : tyOKM3 t = true) : tyOKM4 t = true ∧ ob t = t ∧ ov t v = v :=
  ⟨tyOKM4_of_tyOKM3 t h, (ob_id_of_nameSafe t (nameSafe_of_tyOKM3 t h)).1,
    (ov_id_of_nameSafe t v (nameSafe_of_tyOKM3 t h)).1⟩

/-! ## the model at the entry points -/

/-- **(2) `Marshal` writes a value with opaque leaves like the relabelled value of the relabelled type** -/
theorem encode_ob_fields (fs : Fields) (h : opaqueSafeFields fs = true) (vs : Vals) (fl : Flags) :
    encode (.struct (fieldsOf 1 (obFields fs))) (.struct (ovFields fs vs)) fl
      = encode (.struct (fieldsOf 1 fs)) (.struct vs) fl := by
  rw [fieldsOf_ob 1 fs h, ← ovCF_fieldsOf 1 fs vs h]
  have := encode_ob_struct (fieldsOf 1 fs) (.struct vs) fl
  simpa only [obC, ovC] using this

theorem marshal_ob (fs : Fields) (h : opaqueSafeFields fs = true) (v : Val) :
    marshal (.struct (obFields fs)) (ov (.struct fs) v) = marshal (.struct fs) v := by
  have hs : opaqueSafe (.struct fs) = true := by simpa only [opaqueSafe] using h
  have hc := codecOf_ob (.struct fs) hs
  simp only [ob] at hc
  simp only [marshal, hc, ← ovC_codecOf (.struct fs) v hs]
  simp only [codecOf]
  exact encode_ob_struct (fieldsOf 1 fs) v _

theorem marshalSize_ob (fs : Fields) (h : opaqueSafeFields fs = true) (v : Val) :
    marshalSize (.struct (obFields fs)) (ov (.struct fs) v) = marshalSize (.struct fs) v := by
  have := marshal_ob fs h v
  simp only [marshal] at this
  simp only [marshalSize, ← Lemmas.Proto.size_eq, this]

theorem nesting_ob (fs : Fields) (h : opaqueSafeFields fs = true) :
    Codec.nesting (codecOf (.struct (obFields fs))) = Codec.nesting (codecOf (.struct fs)) := by
  have hc := codecOf_ob (.struct fs) (by simpa only [opaqueSafe] using h)
  simp only [ob] at hc
  rw [hc, nesting_obC]

/-- **(3) `Unmarshal` reads every input alike at the two types** (value, error or panic) -/
theorem unmarshal_ob (fs : Fields) (h : opaqueSafeFields fs = true) (b : Bytes) :
    unmarshal (.struct (obFields fs)) b = unmarshal (.struct fs) b := by
  have hc := codecOf_ob (.struct fs) (by simpa only [opaqueSafe] using h)
  have hz := mzeroOf_ob (.struct fs)
  simp only [ob] at hc hz
  unfold unmarshal
  rw [hz, hc, height_obC]
  have : codecOf (.struct fs) = .struct (fieldsOf 1 fs) := by simp only [codecOf]
  rw [this]; simp only [obC, mdecode_ob_struct]

/-! ## C12 bytes -/

theorem struct_bytes_opaque (fs : Fields) (vs : Vals) (fl : Flags)
    (hty : tyOK4 (.struct fs) = true) (hp : ptrsOKs4 fs vs = true) (hv : hasTypes4 fs vs = true)
    (hz : fl.zigzag = false) (hlen : (encode (.struct (fieldsOf 1 fs)) (.struct vs) fl).length < 2 ^ 64) :
    encode (.struct (fieldsOf 1 fs)) (.struct vs) fl = encRecs (allRecords4 fl.wantzero fs vs) := by
  obtain ⟨ht, hs⟩ := tyOK4_struct hty
  rw [← encode_ob_fields fs hs] at hlen ⊢
  exact Lemmas.ProtoPtrs.struct_bytes_ptrs (obFields fs) (ovFields fs vs) fl ht hp hv hz hlen

theorem struct_bytes_maps_opaque (fs : Fields) (vs : Vals) (fl : Flags)
    (hty : tyOKM4 (.struct fs) = true) (hp : ptrsOKs4 fs vs = true) (hv : hasTypesM4 fs vs = true)
    (hz : fl.zigzag = false) (hlen : (encode (.struct (fieldsOf 1 fs)) (.struct vs) fl).length < 2 ^ 64) :
    encode (.struct (fieldsOf 1 fs)) (.struct vs) fl = encRecs (allRecordsM4 fl.wantzero fs vs) := by
  obtain ⟨ht, hs⟩ := tyOKM4_struct hty
  rw [← encode_ob_fields fs hs] at hlen ⊢
  exact Lemmas.ProtoPtrs.struct_bytes_maps_ptrs (obFields fs) (ovFields fs vs) fl ht hp hv hz hlen

/-- the message type `struct{ X U }` with `U` encoded through its methods (any underlying type `u`) -/
def leafF (u : Ty) : Fields := .cons "X" "" false (.named "RawMessage" u) .nil

theorem leafF_codec (u : Ty) : fieldsOf 1 (leafF u) = .cons 1 false false false .message .nil := by
  have hm : (lookupProtobuf "").bind parseStructTag = none := modelTag_empty
  simp [leafF, fieldsOf, hm, fieldCodecOf, codecOf]

/-- **the record of an opaque FIELD is ONE length-delimited record whose payload is the leaf's bytes**: tag `0a`, the length,
the bytes — whatever the underlying Go type `u` is (a struct, a `[]byte`, a `uint32` …), also when the payload is empty -/
theorem opaque_field_record (u : Ty) (p : Bytes) (fl : Flags) :
    encode (.struct (fieldsOf 1 (leafF u))) (.struct (.cons (.str p) .nil)) fl
      = encodeTag 1 .varlen ++ encodeVarint (BitVec.ofNat 64 p.length) ++ p := by
  rw [leafF_codec]
  have hpos : 0 < sizeOfVarlen p.length := by
    have := sizeOfVarint_pos' (BitVec.ofNat 64 p.length); unfold sizeOfVarlen; omega
  simp [encode, encodeUnique, encodeRepeated, size, hpos, Codec.wire]

/-- … and a nil leaf is written as the record with the empty payload, `0a 00` (a nil `[]byte` FIELD would be elided) -/
theorem opaque_nil_field_record (u : Ty) (fl : Flags) :
    encode (.struct (fieldsOf 1 (leafF u))) (.struct (.cons .nil .nil)) fl = encodeTag 1 .varlen ++ [0] := by
  rw [leafF_codec]
  have hpos : 0 < sizeOfVarlen 0 := by
    have := sizeOfVarint_pos' (BitVec.ofNat 64 0); unfold sizeOfVarlen; omega
  have he : encodeVarint 0#64 = [0] := by decide
  simp [encode, encodeUnique, encodeRepeated, size, hpos, Codec.wire, he]

#print axioms marshal_ob
#print axioms unmarshal_ob
#print axioms struct_bytes_maps_opaque
#print axioms opaque_field_record
#print axioms tyOK4_of_tyOK3

end Enc.Lemmas.ProtoOpaque
