import Enc.Lemmas.ThriftTotalStruct
/-!
# C08 (thrift): decoding is total, bounded, consumes a prefix, and truncation is an unexpected-EOF class error

Everything below is about the decoder AS A FUNCTION OF ARBITRARY BYTES (not only encoder output): `b` is any byte string.
The framework (`Pre`, classes `PS`/`PU`/`PW`) is in `ThriftTotalBase`; the inductions in `ThriftTotalSkip`,
`ThriftTotalDecode`, `ThriftTotalPanic`, `ThriftTotalFuel`. This file states the results in plain terms.

(A) totality      `decode_total`, `decodeList_total` …, `skip_total` …, `unmarshal_total`     (`Supported ty`)
(B) consumption   `decode_consumes`, `skip_consumes`, `decode_local` (the result depends on the consumed prefix only)
(C1) primitives   `readN_trunc`, `rByte_trunc`, `readUvarint_trunc`, `rVarint_trunc`, `rFixed_trunc`, `rLength_trunc`,
                  `rBytes_trunc`, `rField_trunc`, `rList_trunc`, `rMap_trunc`: the strict class for every primitive
                  (`rBytes_cut_after_length` in `ThriftTotalBase`: regression fact for the repaired ReadBytes finding)
(C2) values       `decode_trunc_strict` (exact class, EVERY type), `decode_trunc`, `decode_prefix_not_ok`, `skip_trunc`,
                  `decodeStruct_trunc`;
                  on encoder output: `decode_encode_trunc` (universe `RT`), `skip_encode_trunc` (universe `WF`),
                  `decode_encode_trunc_DT` (universe `DT`: structs, maps, sets, lists, any nesting);
                  entry point: `unmarshal_trunc`, `unmarshal_trunc_strict`, `unmarshal_marshal_trunc` (RT),
                  `unmarshal_marshal_trunc_DT`, `unmarshal_marshal_trunc_DT_strict`
(D) trailing      `unmarshal_trailing`, `unmarshal_append_trailing`
bounded           `unmarshal_ne_fuel` (in `ThriftTotalFuel`, unconditional), `unmarshal_marshal` (RT, Unmarshal's own budget)
-/
namespace Enc.Lemmas.ThriftTotal
open Enc Enc.Model.Thrift Enc.Lemmas.ThriftPrim Enc.Lemmas.ThriftSkip

/-! ## (A) totality -/

theorem skip_total (p : Proto) (d fuel : Nat) (t : TType) (b : Bytes) (e : String) : skip p d fuel t b ≠ .panic e :=
  np_skip p d fuel t b e
theorem skipN_total (p : Proto) (d fuel : Nat) (t : TType) (n : Nat) (b : Bytes) (e : String) :
    skipN p d fuel t n b ≠ .panic e := np_skipN p d fuel t n b e
theorem skipPairs_total (p : Proto) (d fuel : Nat) (kt vt : TType) (n : Nat) (b : Bytes) (e : String) :
    skipPairs p d fuel kt vt n b ≠ .panic e := np_skipPairs p d fuel kt vt n b e
theorem skipStruct_total (p : Proto) (d fuel : Nat) (b : Bytes) (last : Int) (num : Nat) (e : String) :
    skipStruct p d fuel b last num ≠ .panic e := np_skipStruct p d fuel b last num e

/-- for every protocol, mode, fuel, supported type, byte string and current value -/
theorem decode_total (p : Proto) (strict : Bool) (d fuel : Nat) (ty : Ty) (b : Bytes) (cur : Val) (e : String)
    (h : Supported ty = true) : decode p strict d fuel ty b cur ≠ .panic e := np_decode p strict d fuel ty b cur h e
theorem decodeList_total (p : Proto) (strict : Bool) (d fuel : Nat) (et : Ty) (n : Nat) (b : Bytes) (acc : List Val)
    (e : String) (h : Supported et = true) : decodeList p strict d fuel et n b acc ≠ .panic e :=
  np_decodeList p strict d fuel et n b acc h e
theorem decodeSet_total (p : Proto) (strict : Bool) (d fuel : Nat) (kt : Ty) (n : Nat) (b : Bytes) (acc : Vals)
    (e : String) (h : Supported kt = true) : decodeSet p strict d fuel kt n b acc ≠ .panic e :=
  np_decodeSet p strict d fuel kt n b acc h e
theorem decodeMap_total (p : Proto) (strict : Bool) (d fuel : Nat) (kt vt : Ty) (n : Nat) (b : Bytes) (acc : Vals)
    (e : String) (hk : Supported kt = true) (hv : Supported vt = true) :
    decodeMap p strict d fuel kt vt n b acc ≠ .panic e := np_decodeMap p strict d fuel kt vt n b acc hk hv e
theorem decodeStruct_total (p : Proto) (strict : Bool) (d fuel : Nat) (fs : Fields) (b : Bytes) (vs : Vals)
    (last : Int) (num : Nat) (seen : List Int) (e : String) (h : SupportedF fs = true) :
    decodeStruct p strict d fuel (fieldDescs fs) b vs last num seen ≠ .panic e :=
  np_decodeStruct p strict d fuel _ b vs last num seen (supported_descs fs h) e
theorem unmarshal_total (p : Proto) (strict : Bool) (ty : Ty) (b : Bytes) (e : String) (h : Supported ty = true) :
    unmarshal p strict ty b ≠ .panic e := np_unmarshal p strict ty b h e

/-! ## (B) consumption -/

/-- a successful decode returns a proper suffix of its input (≥ 1 byte consumed) … -/
theorem decode_consumes {p : Proto} {strict : Bool} {d fuel : Nat} {ty : Ty} {b : Bytes} {cur v : Val} {r : Bytes}
    (h : decode p strict d fuel ty b cur = .ok (v, r)) : (∃ x, b = x ++ r) ∧ r.length < b.length :=
  ⟨((pre_decode p strict d fuel ty cur).suffix h).1, (pre_decode p strict d fuel ty cur).consumes h⟩

/-- … and the decoded value depends on the consumed bytes only -/
theorem decode_local {p : Proto} {strict : Bool} {d fuel : Nat} {ty : Ty} {x r : Bytes} {cur v : Val}
    (h : decode p strict d fuel ty (x ++ r) cur = .ok (v, r)) (r' : Bytes) :
    decode p strict d fuel ty (x ++ r') cur = .ok (v, r') :=
  (pre_decode p strict d fuel ty cur).local h r'

theorem skip_consumes {p : Proto} {d fuel : Nat} {t : TType} {b r : Bytes} {u : Unit}
    (h : skip p d fuel t b = .ok (u, r)) : (∃ x, b = x ++ r) ∧ r.length < b.length :=
  ⟨((pre_skip p d fuel t).suffix h).1, (pre_skip p d fuel t).consumes h⟩

theorem skip_local {p : Proto} {d fuel : Nat} {t : TType} {x r : Bytes} {u : Unit}
    (h : skip p d fuel t (x ++ r) = .ok (u, r)) (r' : Bytes) : skip p d fuel t (x ++ r') = .ok (u, r') :=
  (pre_skip p d fuel t).local h r'

theorem skipN_consumes {p : Proto} {d fuel : Nat} {t : TType} {n : Nat} {b r : Bytes} {u : Unit}
    (h : skipN p d fuel t n b = .ok (u, r)) : (∃ x, b = x ++ r) ∧ r.length ≤ b.length :=
  (pre_skipN p d fuel t n).suffix h
theorem skipPairs_consumes {p : Proto} {d fuel : Nat} {kt vt : TType} {n : Nat} {b r : Bytes} {u : Unit}
    (h : skipPairs p d fuel kt vt n b = .ok (u, r)) : (∃ x, b = x ++ r) ∧ r.length ≤ b.length :=
  (pre_skipPairs p d fuel kt vt n).suffix h
theorem skipStruct_consumes {p : Proto} {d fuel : Nat} {last : Int} {num : Nat} {b r : Bytes} {u : Unit}
    (h : skipStruct p d fuel b last num = .ok (u, r)) : (∃ x, b = x ++ r) ∧ r.length < b.length :=
  ⟨((pre_skipStruct p d fuel last num).suffix h).1, (pre_skipStruct p d fuel last num).consumes h⟩
theorem decodeList_consumes {p : Proto} {strict : Bool} {d fuel : Nat} {et : Ty} {n : Nat} {acc : List Val} {b r : Bytes}
    {v : Val} (h : decodeList p strict d fuel et n b acc = .ok (v, r)) : (∃ x, b = x ++ r) ∧ r.length ≤ b.length :=
  (pre_decodeList p strict d fuel et n acc).suffix h
theorem decodeSet_consumes {p : Proto} {strict : Bool} {d fuel : Nat} {kt : Ty} {n : Nat} {acc : Vals} {b r : Bytes}
    {v : Val} (h : decodeSet p strict d fuel kt n b acc = .ok (v, r)) : (∃ x, b = x ++ r) ∧ r.length ≤ b.length :=
  (pre_decodeSet p strict d fuel kt n acc).suffix h
theorem decodeMap_consumes {p : Proto} {strict : Bool} {d fuel : Nat} {kt vt : Ty} {n : Nat} {acc : Vals} {b r : Bytes}
    {v : Val} (h : decodeMap p strict d fuel kt vt n b acc = .ok (v, r)) : (∃ x, b = x ++ r) ∧ r.length ≤ b.length :=
  (pre_decodeMap p strict d fuel kt vt n acc).suffix h
theorem decodeStruct_consumes {p : Proto} {strict : Bool} {d fuel : Nat} {descs : List FieldDesc} {vs : Vals} {last : Int}
    {num : Nat} {seen : List Int} {b r : Bytes} {o : Vals × List Int}
    (h : decodeStruct p strict d fuel descs b vs last num seen = .ok (o, r)) :
    (∃ x, b = x ++ r) ∧ r.length < b.length :=
  ⟨((pre_decodeStruct p strict d fuel descs vs last num seen).suffix h).1,
    (pre_decodeStruct p strict d fuel descs vs last num seen).consumes h⟩

/-! ## (C1) primitives: every proper prefix of what a successful read consumed fails — `"eof"` exactly when nothing is
left (`k = 0`), `"unexpectedEof"` otherwise. `k < b.length - r.length` = "cut inside the consumed part". -/

theorem readN_trunc {b : Bytes} {n : Nat} {x r : Bytes} (h : readN b n = .ok (x, r)) (k : Nat)
    (hk : k < b.length - r.length) : readN (b.take k) n = .err (if k = 0 then "eof" else "unexpectedEof") :=
  (pre_readN n).truncS h k hk
theorem rByte_trunc {b : Bytes} {c : UInt8} {r : Bytes} (h : rByte b = .ok (c, r)) (k : Nat)
    (hk : k < b.length - r.length) : rByte (b.take k) = .err (if k = 0 then "eof" else "unexpectedEof") :=
  pre_rByte.truncS h k hk
/-- a cut varint: `"eof"` if no byte was read, `"unexpectedEof"` after ≥ 1 continuation byte — never `"overflow"`,
never a value -/
theorem readUvarint_trunc {b : Bytes} {n : Nat} {r : Bytes} (h : readUvarintGo b = .ok (n, r)) (k : Nat)
    (hk : k < b.length - r.length) : readUvarintGo (b.take k) = .err (if k = 0 then "eof" else "unexpectedEof") :=
  pre_readUvarint.truncS h k hk
theorem rVarint_trunc {b : Bytes} {bits : Nat} {i : Int} {r : Bytes} (h : rVarint b bits = .ok (i, r)) (k : Nat)
    (hk : k < b.length - r.length) : rVarint (b.take k) bits = .err (if k = 0 then "eof" else "unexpectedEof") :=
  (pre_rVarint bits).truncS h k hk
theorem rFixed_trunc {b : Bytes} {n : Nat} {x : Nat} {r : Bytes} (h : rFixed b n = .ok (x, r)) (k : Nat)
    (hk : k < b.length - r.length) : rFixed (b.take k) n = .err (if k = 0 then "eof" else "unexpectedEof") :=
  (pre_rFixed n).truncS h k hk
theorem rLength_trunc {p : Proto} {b : Bytes} {n : Nat} {r : Bytes} (h : rLength p b = .ok (n, r)) (k : Nat)
    (hk : k < b.length - r.length) : rLength p (b.take k) = .err (if k = 0 then "eof" else "unexpectedEof") :=
  (pre_rLength p).truncS h k hk
theorem rI16_trunc {p : Proto} {b : Bytes} {i : Int} {r : Bytes} (h : rI16 p b = .ok (i, r)) (k : Nat)
    (hk : k < b.length - r.length) : rI16 p (b.take k) = .err (if k = 0 then "eof" else "unexpectedEof") :=
  (pre_rI16 p).truncS h k hk
theorem rI32_trunc {p : Proto} {b : Bytes} {i : Int} {r : Bytes} (h : rI32 p b = .ok (i, r)) (k : Nat)
    (hk : k < b.length - r.length) : rI32 p (b.take k) = .err (if k = 0 then "eof" else "unexpectedEof") :=
  (pre_rI32 p).truncS h k hk
theorem rI64_trunc {p : Proto} {b : Bytes} {i : Int} {r : Bytes} (h : rI64 p b = .ok (i, r)) (k : Nat)
    (hk : k < b.length - r.length) : rI64 p (b.take k) = .err (if k = 0 then "eof" else "unexpectedEof") :=
  (pre_rI64 p).truncS h k hk
theorem rField_trunc {p : Proto} {b : Bytes} {hd : FieldHdr} {r : Bytes} (h : rField p b = .ok (hd, r)) (k : Nat)
    (hk : k < b.length - r.length) : rField p (b.take k) = .err (if k = 0 then "eof" else "unexpectedEof") :=
  (pre_rField p).truncS h k hk
theorem rList_trunc {p : Proto} {b : Bytes} {o : TType × Nat} {r : Bytes} (h : rList p b = .ok (o, r)) (k : Nat)
    (hk : k < b.length - r.length) : rList p (b.take k) = .err (if k = 0 then "eof" else "unexpectedEof") :=
  (pre_rList p).truncS h k hk
theorem rMap_trunc {p : Proto} {b : Bytes} {o : TType × TType × Nat} {r : Bytes} (h : rMap p b = .ok (o, r)) (k : Nat)
    (hk : k < b.length - r.length) : rMap p (b.take k) = .err (if k = 0 then "eof" else "unexpectedEof") :=
  (pre_rMap p).truncS h k hk

theorem rBytes_trunc {p : Proto} {b : Bytes} {x r : Bytes} (h : rBytes p b = .ok (x, r)) (k : Nat)
    (hk : k < b.length - r.length) : rBytes p (b.take k) = .err (if k = 0 then "eof" else "unexpectedEof") :=
  (pre_rBytes p).truncS h k hk

/-! ## (C2) values, on arbitrary input -/

/-- **Truncation, decoder level, exact class, every type.** If `decode` succeeds on `b` (consuming
`b.length - r.length` bytes), then on every proper prefix of the consumed part it fails with `"eof"` when the prefix is
empty and `"unexpectedEof"` otherwise. Never a value, never another class (`typeMismatch`, `missingField`, `range`,
`fuel`, …). -/
theorem decode_trunc_strict {p : Proto} {strict : Bool} {d fuel : Nat} {ty : Ty} {b : Bytes} {cur v : Val} {r : Bytes}
    (h : decode p strict d fuel ty b cur = .ok (v, r)) (k : Nat) (hk : k < b.length - r.length) :
    decode p strict d fuel ty (b.take k) cur = .err (if k = 0 then "eof" else "unexpectedEof") :=
  (pre_decode p strict d fuel ty cur).truncS h k hk

/-- the same, spelled as in the property: EOF class, plain EOF only (and always) for the empty prefix -/
theorem decode_trunc {p : Proto} {strict : Bool} {d fuel : Nat} {ty : Ty} {b : Bytes} {cur v : Val} {r : Bytes}
    (h : decode p strict d fuel ty b cur = .ok (v, r)) (k : Nat) (hk : k < b.length - r.length) :
    (k = 0 → decode p strict d fuel ty (b.take k) cur = .err "eof") ∧
      (0 < k → decode p strict d fuel ty (b.take k) cur = .err "unexpectedEof") := by
  rw [decode_trunc_strict h k hk]
  exact ⟨fun h0 => by simp [h0], fun h0 => by have : ¬ k = 0 := by omega
                                              simp [this]⟩

theorem decode_prefix_not_ok {p : Proto} {strict : Bool} {d fuel : Nat} {ty : Ty} {b : Bytes} {cur v : Val} {r : Bytes}
    (h : decode p strict d fuel ty b cur = .ok (v, r)) (k : Nat) (hk : k < b.length - r.length) (o : Val × Bytes) :
    decode p strict d fuel ty (b.take k) cur ≠ .ok o := by
  rw [decode_trunc_strict h k hk]; intro h'; cases h'

/-- the same for the skipper, every wire type -/
theorem skip_trunc {p : Proto} {d fuel : Nat} {t : TType} {b r : Bytes} {u : Unit}
    (h : skip p d fuel t b = .ok (u, r)) (k : Nat) (hk : k < b.length - r.length) :
    skip p d fuel t (b.take k) = .err (if k = 0 then "eof" else "unexpectedEof") :=
  (pre_skip p d fuel t).truncS h k hk

/-- the struct loop: at the first field header (`num = 0`) an empty input is `"eof"`; everywhere else — inside a header,
inside a value, inside a skipped unknown field, and AT a field boundary, where the loop wants a header or the stop
byte — it is `"unexpectedEof"`. In particular a prefix never yields `"missingField"`: the required-fields check runs
only after the stop byte has been read. -/
theorem decodeStruct_trunc {p : Proto} {strict : Bool} {d fuel : Nat} {descs : List FieldDesc} {vs : Vals} {last : Int}
    {num : Nat} {seen : List Int} {b r : Bytes} {o : Vals × List Int}
    (h : decodeStruct p strict d fuel descs b vs last num seen = .ok (o, r)) (k : Nat) (hk : k < b.length - r.length) :
    decodeStruct p strict d fuel descs (b.take k) vs last num seen =
      .err (if k = 0 ∧ num = 0 then "eof" else "unexpectedEof") := by
  obtain ⟨e, he, hp⟩ := (pre_decodeStruct p strict d fuel descs vs last num seen).trunc h k hk
  rw [he]
  unfold PStruct at hp
  by_cases hn : num = 0
  · simp only [hn, if_true] at hp
    unfold PS at hp
    by_cases hk0 : k = 0 <;> simp [hp, hk0, hn]
  · simp only [hn, if_false] at hp
    unfold PU at hp
    simp [hp, hn]

/-! ### on what the encoder writes

The decoder counts the lists, sets, maps and structs it has entered (`d`) and answers `"maxDepth"` at
`Gen.c_thrift_maxDepth`; the encoder has no such limit. So "the full encoding decodes" — and with it every statement
about the prefixes of an ENCODING — needs room for the type's own nesting: `d + nest ty ≤ maxDepth` (`nest ty ≤ maxDepth`
at the entry point, where `d = 0`). `decode_too_deep` shows the hypothesis cannot be dropped. The any-input theorems
(`decode_trunc_strict`, `unmarshal_trunc_strict`, …) need nothing: a depth error is just another error. -/

/-- **Truncation of encoder output, universe `RT`** (scalars, strings, []byte, lists of any nesting, pointers, named
types): every proper prefix of `encode p ty v` is rejected with the exact EOF class, both protocols, strict or not. -/
theorem decode_encode_trunc_strict (p : Proto) (strict : Bool) (ty : Ty) (v : Val) (h : RT ty v = true)
    (d fuel : Nat) (hd : d + nest ty ≤ Gen.c_thrift_maxDepth) (hf : fuelD ty v ≤ fuel) (cur : Val) (k : Nat)
    (hk : k < (encode p ty v).length) :
    decode p strict d fuel ty ((encode p ty v).take k) cur = .err (if k = 0 then "eof" else "unexpectedEof") := by
  have hrt := decode_encode p strict ty v h d fuel [] cur hd hf
  rw [List.append_nil] at hrt
  exact decode_trunc_strict hrt k (by simpa using hk)

theorem decode_encode_trunc (p : Proto) (strict : Bool) (ty : Ty) (v : Val) (h : RT ty v = true) (d fuel : Nat)
    (hd : d + nest ty ≤ Gen.c_thrift_maxDepth) (hf : fuelD ty v ≤ fuel) (cur : Val) (k : Nat)
    (hk : k < (encode p ty v).length) :
    (k = 0 → decode p strict d fuel ty ((encode p ty v).take k) cur = .err "eof") ∧
      (0 < k → decode p strict d fuel ty ((encode p ty v).take k) cur = .err "unexpectedEof") := by
  have hrt := decode_encode p strict ty v h d fuel [] cur hd hf
  rw [List.append_nil] at hrt
  exact decode_trunc hrt k (by simpa using hk)

/-- the depth hypothesis is needed: at the limit a list is refused (after its header), whatever follows -/
theorem decode_too_deep (p : Proto) (strict : Bool) (d fuel : Nat) (hd : Gen.c_thrift_maxDepth ≤ d) (cur : Val)
    (rest : Bytes) :
    decode p strict d (fuel + 1) (.slice .bool) (encode p (.slice .bool) (.list .nil) ++ rest) cur
      = .err "maxDepth" := by
  rw [decode_slice, encode_slice]
  have hl := rList_wList p .bool 0 (by decide) (by decide) rest
  simp only [isU8, Bool.false_eq_true, if_false, typeOf, Vals.toList, Vals.length, List.map_nil, List.flatten_nil,
    List.append_nil, hl, Res.bind, tooDeep_true d hd, if_true]
  simp

/-- **Truncation of encoder output under the skipper, universe `WF`** (everything the encoder supports: structs with
delta ids and coalesced bools, maps, sets, lists, nested to any depth): a cut encoding is never skipped "successfully" -/
theorem skip_encode_trunc (p : Proto) (ty : Ty) (v : Val) (h : WF ty v = true) (d fuel : Nat)
    (hd : d + nest ty ≤ Gen.c_thrift_maxDepth) (hf : fuelOf ty v ≤ fuel) (k : Nat) (hk : k < (encode p ty v).length) :
    skip p d fuel (typeOf ty) ((encode p ty v).take k) = .err (if k = 0 then "eof" else "unexpectedEof") := by
  have hrt := skip_encode p ty v h d fuel [] hd hf
  rw [List.append_nil] at hrt
  exact skip_trunc hrt k (by simpa using hk)

/-- any universe on which the round trip succeeds: hypothesis = the full encoding decodes -/
theorem decode_encode_trunc_of_ok (p : Proto) (strict : Bool) (ty : Ty) (v v' : Val) (d fuel : Nat) (cur : Val)
    (hrt : decode p strict d fuel ty (encode p ty v) cur = .ok (v', [])) (k : Nat) (hk : k < (encode p ty v).length) :
    decode p strict d fuel ty ((encode p ty v).take k) cur = .err (if k = 0 then "eof" else "unexpectedEof") :=
  decode_trunc_strict hrt k (by simpa using hk)

/-! ## (D) trailing bytes, and the entry point (`Unmarshal` starts at depth 0) -/

theorem unmarshal_ok_iff (p : Proto) (strict : Bool) (ty : Ty) (b : Bytes) (v : Val) :
    unmarshal p strict ty b = .ok v ↔
      decode p strict 0 (4 * b.length + 64 + depth ty) ty b (zeroOf ty) = .ok (v, []) := by
  unfold unmarshal
  cases hd : decode p strict 0 (4 * b.length + 64 + depth ty) ty b (zeroOf ty) with
  | ok vr =>
    obtain ⟨v', r⟩ := vr
    cases r with
    | nil => simp
    | cons _ _ => simp
  | err e => simp
  | panic e => simp

/-- whatever fuel the successful decode was observed with: bytes left over make `Unmarshal` answer `"trailing"` -/
theorem unmarshal_trailing (p : Proto) (strict : Bool) (ty : Ty) (b : Bytes) (fuel : Nat) (v : Val) (r : Bytes)
    (h : decode p strict 0 fuel ty b (zeroOf ty) = .ok (v, r)) (hr : r ≠ []) :
    unmarshal p strict ty b = .err "trailing" := by
  have hnf := decode_ne_fuel p strict 0 (4 * b.length + 64 + depth ty) ty b (zeroOf ty) (by omega)
  have hown : decode p strict 0 (4 * b.length + 64 + depth ty) ty b (zeroOf ty) = .ok (v, r) := by
    rcases Nat.le_total fuel (4 * b.length + 64 + depth ty) with hle | hle
    · have := (decode_mono p strict 0 _ _ hle ty b (zeroOf ty)).eq (by rw [h]; intro h'; cases h')
      rw [this, h]
    · have := (decode_mono p strict 0 _ _ hle ty b (zeroOf ty)).eq hnf
      rw [← this, h]
  unfold unmarshal
  rw [hown]
  cases r with
  | nil => exact absurd rfl hr
  | cons _ _ => rfl

/-- a good message followed by anything is rejected as `"trailing"` (never accepted, never silently cut) -/
theorem unmarshal_append_trailing (p : Proto) (strict : Bool) (ty : Ty) (b extra : Bytes) (v : Val)
    (h : unmarshal p strict ty b = .ok v) (he : extra ≠ []) :
    unmarshal p strict ty (b ++ extra) = .err "trailing" := by
  rw [unmarshal_ok_iff] at h
  have h1 : decode p strict 0 (4 * b.length + 64 + depth ty) ty (b ++ extra) (zeroOf ty) = .ok (v, extra) :=
    decode_local (x := b) (r := []) (by simpa using h) extra
  exact unmarshal_trailing p strict ty _ _ v extra h1 he

/-- **Truncation at the entry point, exact class, every type, no side condition.** If `Unmarshal` accepts `b`, it
rejects every proper prefix of `b`: `"eof"` for the empty prefix, `"unexpectedEof"` for every other one. -/
theorem unmarshal_trunc_strict (p : Proto) (strict : Bool) (ty : Ty) (b : Bytes) (v : Val)
    (h : unmarshal p strict ty b = .ok v) (k : Nat) (hk : k < b.length) :
    unmarshal p strict ty (b.take k) = .err (if k = 0 then "eof" else "unexpectedEof") := by
  rw [unmarshal_ok_iff] at h
  have he := decode_trunc_strict h k (by simpa using hk)
  have hlen : (b.take k).length = k := by simp; omega
  have hle := decode_mono p strict 0 (4 * (b.take k).length + 64 + depth ty) (4 * b.length + 64 + depth ty)
    (by rw [hlen]; omega) ty (b.take k) (zeroOf ty)
  have hnf := decode_ne_fuel p strict 0 (4 * (b.take k).length + 64 + depth ty) ty (b.take k) (zeroOf ty) (by omega)
  have h2 := hle.eq hnf
  unfold unmarshal
  rw [← h2, he]

theorem unmarshal_trunc (p : Proto) (strict : Bool) (ty : Ty) (b : Bytes) (v : Val)
    (h : unmarshal p strict ty b = .ok v) (k : Nat) (hk : k < b.length) :
    (k = 0 → unmarshal p strict ty (b.take k) = .err "eof") ∧
      (0 < k → unmarshal p strict ty (b.take k) = .err "unexpectedEof") := by
  rw [unmarshal_trunc_strict p strict ty b v h k hk]
  exact ⟨fun h0 => by simp [h0], fun h0 => by have : ¬ k = 0 := by omega
                                              simp [this]⟩

/-- round trip at the entry point with `Unmarshal`'s own budget (the existing `decode_encode` needs `fuelD`, which can
exceed it; monotonicity + `decode_ne_fuel` close the gap); the type's nesting must fit the decoder's depth limit -/
theorem unmarshal_marshal (p : Proto) (strict : Bool) (ty : Ty) (v : Val) (h : RT ty v = true)
    (hn : nest ty ≤ Gen.c_thrift_maxDepth) :
    unmarshal p strict ty (marshal p ty v) = .ok v := by
  rw [unmarshal_ok_iff]
  unfold marshal
  have hbig := decode_encode p strict ty v h 0 (fuelD ty v + (4 * (encode p ty v).length + 64 + depth ty)) []
    (zeroOf ty) (by omega) (by omega)
  rw [List.append_nil] at hbig
  have hle := decode_mono p strict 0 (4 * (encode p ty v).length + 64 + depth ty)
    (fuelD ty v + (4 * (encode p ty v).length + 64 + depth ty)) (by omega) ty (encode p ty v) (zeroOf ty)
  have hnf := decode_ne_fuel p strict 0 (4 * (encode p ty v).length + 64 + depth ty) ty (encode p ty v) (zeroOf ty)
    (by omega)
  rw [← hbig]
  exact (hle.eq hnf).symm

/-- **C08 truncation for `Marshal` output, universe `RT`.** -/
theorem unmarshal_marshal_trunc_strict (p : Proto) (strict : Bool) (ty : Ty) (v : Val) (h : RT ty v = true)
    (hn : nest ty ≤ Gen.c_thrift_maxDepth) (k : Nat) (hk : k < (marshal p ty v).length) :
    unmarshal p strict ty ((marshal p ty v).take k) = .err (if k = 0 then "eof" else "unexpectedEof") :=
  unmarshal_trunc_strict p strict ty _ v (unmarshal_marshal p strict ty v h hn) k hk

theorem unmarshal_marshal_trunc (p : Proto) (strict : Bool) (ty : Ty) (v : Val) (h : RT ty v = true)
    (hn : nest ty ≤ Gen.c_thrift_maxDepth) (k : Nat) (hk : k < (marshal p ty v).length) :
    (k = 0 → unmarshal p strict ty ((marshal p ty v).take k) = .err "eof") ∧
      (0 < k → unmarshal p strict ty ((marshal p ty v).take k) = .err "unexpectedEof") :=
  unmarshal_trunc p strict ty _ v (unmarshal_marshal p strict ty v h hn) k hk

/-- the depth hypotheses are satisfiable (`maxDepth` = 10000; a list of lists of i32 nests 2 deep) -/
example : nest (.slice (.slice (.int .i32))) ≤ Gen.c_thrift_maxDepth := by decide
example : 0 + nest (.slice (.slice (.int .i32))) ≤ Gen.c_thrift_maxDepth := by decide

/-- an encoding is never empty (so `k = 0` is always a proper prefix) -/
theorem marshal_ne_nil (p : Proto) (strict : Bool) (ty : Ty) (v : Val) (h : RT ty v = true)
    (hn : nest ty ≤ Gen.c_thrift_maxDepth) :
    0 < (marshal p ty v).length := by
  have := unmarshal_marshal p strict ty v h hn
  rw [unmarshal_ok_iff] at this
  have := (decode_consumes this).2
  omega

/-! ### the universe `DT`: structs, maps, sets, lists, pointers, named types, any nesting (see `ThriftTotalStruct`) -/

/-- **Truncation of encoder output, decoder level, universe `DT`**: with enough fuel, every proper prefix of
`encode p ty v` is rejected with the exact EOF class, whatever well-shaped target it is decoded into. In particular a
cut exactly at a field boundary of a struct (where the loop expects a header or the stop byte) and a cut that drops a
`required` field are `"unexpectedEof"`, not `"missingField"` and not a success. -/
theorem decode_encode_trunc_DT (p : Proto) (strict : Bool) (ty : Ty) (v : Val) (h : DT ty v = true) (d : Nat)
    (hd : d + nest ty ≤ Gen.c_thrift_maxDepth) :
    ∃ F, ∀ fuel, F ≤ fuel → ∀ cur, Shape ty cur = true → ∀ k, k < (encode p ty v).length →
      decode p strict d fuel ty ((encode p ty v).take k) cur = .err (if k = 0 then "eof" else "unexpectedEof") := by
  obtain ⟨F, hF⟩ := decode_ok p strict ty v h d hd
  refine ⟨F, fun fuel hf cur hc k hk => ?_⟩
  obtain ⟨v', hv', _⟩ := hF fuel hf [] cur hc
  rw [List.append_nil] at hv'
  exact decode_trunc_strict hv' k (by simpa using hk)

/-- `Unmarshal ∘ Marshal` succeeds on `DT`, with `Unmarshal`'s own budget -/
theorem unmarshal_marshal_ok (p : Proto) (strict : Bool) (ty : Ty) (v : Val) (h : DT ty v = true)
    (hn : nest ty ≤ Gen.c_thrift_maxDepth) :
    ∃ v', unmarshal p strict ty (marshal p ty v) = .ok v' := by
  obtain ⟨F, hF⟩ := decode_ok p strict ty v h 0 (by omega)
  unfold marshal
  obtain ⟨v', hv', _⟩ := hF (F + (4 * (encode p ty v).length + 64 + depth ty)) (by omega) [] (zeroOf ty)
    (shape_zeroOf ty)
  rw [List.append_nil] at hv'
  refine ⟨v', ?_⟩
  rw [unmarshal_ok_iff]
  have hle := decode_mono p strict 0 (4 * (encode p ty v).length + 64 + depth ty)
    (F + (4 * (encode p ty v).length + 64 + depth ty)) (by omega) ty (encode p ty v) (zeroOf ty)
  have hnf := decode_ne_fuel p strict 0 (4 * (encode p ty v).length + 64 + depth ty) ty (encode p ty v) (zeroOf ty)
    (by omega)
  rw [← hv']
  exact (hle.eq hnf).symm

/-- **C08 truncation for `Marshal` output, universe `DT`**: structs, lists, maps, sets, strings, scalars — exact class;
the only side condition is that the type's nesting fits the decoder's depth limit -/
theorem unmarshal_marshal_trunc_DT_strict (p : Proto) (strict : Bool) (ty : Ty) (v : Val) (h : DT ty v = true)
    (hn : nest ty ≤ Gen.c_thrift_maxDepth) (k : Nat) (hk : k < (marshal p ty v).length) :
    unmarshal p strict ty ((marshal p ty v).take k) = .err (if k = 0 then "eof" else "unexpectedEof") := by
  obtain ⟨v', hv'⟩ := unmarshal_marshal_ok p strict ty v h hn
  exact unmarshal_trunc_strict p strict ty _ v' hv' k hk

theorem unmarshal_marshal_trunc_DT (p : Proto) (strict : Bool) (ty : Ty) (v : Val) (h : DT ty v = true)
    (hn : nest ty ≤ Gen.c_thrift_maxDepth) (k : Nat) (hk : k < (marshal p ty v).length) :
    (k = 0 → unmarshal p strict ty ((marshal p ty v).take k) = .err "eof") ∧
      (0 < k → unmarshal p strict ty ((marshal p ty v).take k) = .err "unexpectedEof") := by
  obtain ⟨v', hv'⟩ := unmarshal_marshal_ok p strict ty v h hn
  exact unmarshal_trunc p strict ty _ v' hv' k hk

/-- non-vacuity of `DT` on a struct: `struct{A int32 "1,required"; B string "2"; C []int16 "3"; D *bool "4"}` with
`{300, "hi", {7,-9}, nil}`. The tag strings are abstract (their parsing by `String.splitOn` does not reduce in the
kernel); `#eval`s on concrete tags are in the agent's report. -/
theorem DT_example (ta tb tc td : String)
    (ha : parseTag ta = some (1, true, false)) (hb : parseTag tb = some (2, false, false))
    (hc : parseTag tc = some (3, false, false)) (hd : parseTag td = some (4, false, false)) :
    DT (.struct (.cons "A" ta false (.int .i32) (.cons "B" tb false .str (.cons "C" tc false (.slice (.int .i16))
          (.cons "D" td false (.ptr .bool) .nil)))))
        (.struct (.cons (.int 300) (.cons (.str [104, 105])
          (.cons (.list (.cons (.int 7) (.cons (.int (-9)) .nil))) (.cons .nil .nil))))) = true := by
  simp [DT, DTF, declIds, ha, hb, hc, hd, isNilPtr, isU8, typeOf, isReal, IntKind.signed, IntKind.inRange, IntKind.bits,
    Vals.toList, Vals.length, maxLen]

/-! ## REPAIRED FINDING (C08): a truncated top-level string used to report a clean `io.EOF`

Before the repair, `thrift.Unmarshal` of a string / []byte value (also `*string`, named string types) whose input ended
exactly after a non-zero length prefix returned plain `"eof"` — the class the property reserves for EMPTY input —
because `ReadBytes` = `ReadLength` + `io.ReadFull(r, make([]byte, n))` and `io.ReadFull` returns `io.EOF` when it could not
read a single byte. `ReadBytes` now returns `dontExpectEOF(err)` for the payload read, the model follows, and the exact
class holds for every type (`unmarshal_trunc_strict`). Regression instances (general: `rBytes_cut_after_length`): -/

def errIs {α} (x : Res α) (e : String) : Bool := match x with | .err c => c == e | _ => false
theorem errIs_eq {α} (x : Res α) (e : String) (h : errIs x e = true) : x = .err e := by
  unfold errIs at h; split at h <;> simp_all

example : marshal (.binary true) .str (.str [97, 98, 99]) = [0, 0, 0, 3, 97, 98, 99] := by decide
example : unmarshal (.binary true) true .str [] = .err "eof" := errIs_eq _ _ (by decide +kernel)
example : unmarshal (.binary true) true .str [0, 0, 0, 3] = .err "unexpectedEof" := errIs_eq _ _ (by decide +kernel)
example : unmarshal (.binary true) true .str [0, 0, 0] = .err "unexpectedEof" := errIs_eq _ _ (by decide +kernel)
example : unmarshal (.binary true) true .str [0, 0, 0, 3, 97] = .err "unexpectedEof" := errIs_eq _ _ (by decide +kernel)
example : unmarshal .compact true (.ptr (.named "Name" .bytes)) [3] = .err "unexpectedEof" :=
  errIs_eq _ _ (by decide +kernel)
example : unmarshal .compact true (.slice .str) [0x18, 3] = .err "unexpectedEof" := errIs_eq _ _ (by decide +kernel)

end Enc.Lemmas.ThriftTotal
