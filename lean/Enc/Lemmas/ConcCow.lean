import Enc.Model.Conc.CowCache

/-!
# Safety of the lock-free copy-on-write codec caches (C09)

Every interleaving of the Load / construct / Store protocol keeps the published cache *good* (each entry holds THE codec
of its type) and every finished call used exactly the codec it would have built running alone. Updates may be lost
(concrete examples at the end) but never corrupted.
-/
namespace Enc.Lemmas.ConcCow
open Enc.Model.Conc

variable {Ty Codec : Type} [DecidableEq Ty]

/-! ## association-list lookup -/

theorem lookup_append (xs m : Cache Ty Codec) (t : Ty) :
    lookup (xs ++ m) t = match lookup xs t with
      | some c => some c
      | none => lookup m t := by
  induction xs with
  | nil => simp [lookup]
  | cons p r ih =>
    obtain ⟨k, c⟩ := p
    by_cases hk : k = t
    · simp [lookup, hk]
    · simp [lookup, hk, ih]

theorem lookup_append_some (xs m : Cache Ty Codec) (t : Ty) (c : Codec) (h : lookup xs t = some c) :
    lookup (xs ++ m) t = some c := by
  rw [lookup_append, h]

theorem lookup_append_none (xs m : Cache Ty Codec) (t : Ty) (h : lookup xs t = none) :
    lookup (xs ++ m) t = lookup m t := by
  rw [lookup_append, h]

theorem lookup_map_codecOf (codecOf : Ty → Codec) (l : List Ty) (t : Ty) (c : Codec)
    (h : lookup (l.map fun t => (t, codecOf t)) t = some c) : c = codecOf t := by
  induction l with
  | nil => simp [lookup] at h
  | cons a r ih =>
    by_cases hk : a = t
    · simp [lookup, hk] at h
      exact h.symm
    · simp [lookup, hk] at h
      exact ih h

/-- the requested type is always the first published entry -/
theorem lookup_entries_self (codecOf : Ty → Codec) (th : Thread Ty Codec) :
    lookup (entries codecOf th) th.ty = some (codecOf th.ty) := by
  simp [entries, lookup]

/-! ## the invariant -/

/-- a cache is good when every entry holds THE codec of its type -/
def Good (codecOf : Ty → Codec) (m : Cache Ty Codec) : Prop := ∀ t c, lookup m t = some c → c = codecOf t

def ThreadOK (codecOf : Ty → Codec) (th : Thread Ty Codec) : Prop :=
  match th.pc with
  | .idle => True
  | .loaded snap => Good codecOf snap
  | .built snap c => Good codecOf snap ∧ c = codecOf th.ty
  | .done c => c = codecOf th.ty

def Inv (codecOf : Ty → Codec) (s : State Ty Codec) : Prop :=
  Good codecOf s.cache ∧ ∀ th ∈ s.threads, ThreadOK codecOf th

theorem good_nil (codecOf : Ty → Codec) : Good codecOf ([] : Cache Ty Codec) := by
  intro t c h
  simp [lookup] at h

theorem good_entries (codecOf : Ty → Codec) (th : Thread Ty Codec) : Good codecOf (entries codecOf th) := by
  intro t c h
  exact lookup_map_codecOf codecOf (th.ty :: th.extra) t c h

theorem good_append (codecOf : Ty → Codec) (xs m : Cache Ty Codec) (hx : Good codecOf xs) (hm : Good codecOf m) :
    Good codecOf (xs ++ m) := by
  intro t c h
  rw [lookup_append] at h
  cases hl : lookup xs t with
  | some c' =>
    rw [hl] at h
    simp at h
    exact hx t c (h ▸ hl)
  | none =>
    rw [hl] at h
    exact hm t c h

theorem good_entries_append (codecOf : Ty → Codec) (th : Thread Ty Codec) (snap : Cache Ty Codec)
    (h : Good codecOf snap) : Good codecOf (entries codecOf th ++ snap) :=
  good_append codecOf _ _ (good_entries codecOf th) h

/-! ## setNth -/

theorem mem_setNth {α : Type} (l : List α) (i : Nat) (x y : α) (h : y ∈ setNth l i x) : y = x ∨ y ∈ l := by
  induction l generalizing i with
  | nil => simp [setNth] at h
  | cons a r ih =>
    cases i with
    | zero =>
      simp [setNth] at h
      rcases h with h | h
      · exact Or.inl h
      · exact Or.inr (List.mem_cons_of_mem _ h)
    | succ n =>
      simp [setNth] at h
      rcases h with h | h
      · exact Or.inr (h ▸ List.mem_cons_self)
      · rcases ih n h with h' | h'
        · exact Or.inl h'
        · exact Or.inr (List.mem_cons_of_mem _ h')

theorem setNth_length {α : Type} (l : List α) (i : Nat) (x : α) : (setNth l i x).length = l.length := by
  induction l generalizing i with
  | nil => simp [setNth]
  | cons a r ih =>
    cases i with
    | zero => simp [setNth]
    | succ n => simp [setNth, ih]

theorem setNth_getElem? {α : Type} (l : List α) (i j : Nat) (x : α) :
    (setNth l i x)[j]? = if i = j then (l[j]?).map (fun _ => x) else l[j]? := by
  induction l generalizing i j with
  | nil => simp [setNth]
  | cons a r ih =>
    cases i with
    | zero =>
      cases j with
      | zero => simp [setNth]
      | succ m => simp [setNth]
    | succ n =>
      cases j with
      | zero => simp [setNth]
      | succ m => simp [setNth, ih]

theorem setNth_getElem?_self {α : Type} (l : List α) (i : Nat) (x y : α) (h : l[i]? = some y) :
    (setNth l i x)[i]? = some x := by
  rw [setNth_getElem?, h]
  simp

theorem setNth_getElem?_ne {α : Type} (l : List α) (i j : Nat) (x : α) (h : i ≠ j) :
    (setNth l i x)[j]? = l[j]? := by
  rw [setNth_getElem?]
  simp [h]

/-! ## one thread step -/

theorem stepThread_ty (codecOf : Ty → Codec) (cache : Cache Ty Codec) (th : Thread Ty Codec) :
    (stepThread codecOf cache th).2.ty = th.ty := by
  obtain ⟨ty, extra, pc⟩ := th
  cases pc with
  | idle => rfl
  | loaded snap =>
    simp only [stepThread]
    split <;> rfl
  | built snap c => rfl
  | done c => rfl

theorem stepThread_extra (codecOf : Ty → Codec) (cache : Cache Ty Codec) (th : Thread Ty Codec) :
    (stepThread codecOf cache th).2.extra = th.extra := by
  obtain ⟨ty, extra, pc⟩ := th
  cases pc with
  | idle => rfl
  | loaded snap =>
    simp only [stepThread]
    split <;> rfl
  | built snap c => rfl
  | done c => rfl

theorem stepThread_ok (codecOf : Ty → Codec) (cache : Cache Ty Codec) (th : Thread Ty Codec)
    (hc : Good codecOf cache) (ht : ThreadOK codecOf th) :
    Good codecOf (stepThread codecOf cache th).1 ∧ ThreadOK codecOf (stepThread codecOf cache th).2 := by
  obtain ⟨ty, extra, pc⟩ := th
  cases pc with
  | idle => exact ⟨hc, hc⟩
  | loaded snap =>
    have hs : Good codecOf snap := ht
    simp only [stepThread]
    cases hl : lookup snap ty with
    | some c => exact ⟨hc, hs ty c hl⟩
    | none => exact ⟨hc, hs, rfl⟩
  | built snap c =>
    have hs : Good codecOf snap ∧ c = codecOf ty := ht
    exact ⟨good_entries_append codecOf _ snap hs.1, hs.2⟩
  | done c => exact ⟨hc, ht⟩

/-! ## scheduler steps -/

theorem step_none (codecOf : Ty → Codec) (s : State Ty Codec) (i : Nat) (h : s.threads[i]? = none) :
    step codecOf s i = s := by
  simp [step, h]

theorem step_some (codecOf : Ty → Codec) (s : State Ty Codec) (i : Nat) (th : Thread Ty Codec)
    (h : s.threads[i]? = some th) :
    step codecOf s i =
      { cache := (stepThread codecOf s.cache th).1, threads := setNth s.threads i (stepThread codecOf s.cache th).2 } := by
  simp [step, h]

theorem inv_init (codecOf : Ty → Codec) (cache : Cache Ty Codec) (calls : List (Ty × List Ty))
    (h : Good codecOf cache) : Inv codecOf (initState cache calls) := by
  refine ⟨h, ?_⟩
  intro th hth
  simp only [initState, List.mem_map] at hth
  obtain ⟨p, _, rfl⟩ := hth
  trivial

theorem inv_step (codecOf : Ty → Codec) (s : State Ty Codec) (i : Nat) (h : Inv codecOf s) :
    Inv codecOf (step codecOf s i) := by
  cases hi : s.threads[i]? with
  | none => rw [step_none codecOf s i hi]; exact h
  | some th =>
    rw [step_some codecOf s i th hi]
    have hmem : th ∈ s.threads := List.mem_of_getElem? hi
    have hok := stepThread_ok codecOf s.cache th h.1 (h.2 th hmem)
    refine ⟨hok.1, ?_⟩
    intro y hy
    rcases mem_setNth _ _ _ _ hy with rfl | hy'
    · exact hok.2
    · exact h.2 y hy'

/-- every interleaving preserves the invariant -/
theorem inv_run (codecOf : Ty → Codec) (s : State Ty Codec) (sched : List Nat) (h : Inv codecOf s) :
    Inv codecOf (run codecOf s sched) := by
  induction sched generalizing s with
  | nil => exact h
  | cons i r ih => exact ih (step codecOf s i) (inv_step codecOf s i h)

/-- MAIN: whatever the interleaving, a call that has finished used exactly the codec it would have built running
alone -/
theorem every_call_uses_its_codec (codecOf : Ty → Codec) (cache : Cache Ty Codec) (calls : List (Ty × List Ty))
    (sched : List Nat) (h : Good codecOf cache)
    (th : Thread Ty Codec) (hth : th ∈ (run codecOf (initState cache calls) sched).threads) (c : Codec)
    (hd : th.pc = .done c) : c = codecOf th.ty := by
  have hinv := inv_run codecOf _ sched (inv_init codecOf cache calls h)
  have hok := hinv.2 th hth
  unfold ThreadOK at hok
  rw [hd] at hok
  exact hok

/-- the published cache is good in every reachable state (no half-built or foreign codec is ever visible) -/
theorem published_cache_good (codecOf : Ty → Codec) (cache : Cache Ty Codec) (calls : List (Ty × List Ty))
    (sched : List Nat) (h : Good codecOf cache) :
    Good codecOf (run codecOf (initState cache calls) sched).cache :=
  (inv_run codecOf _ sched (inv_init codecOf cache calls h)).1

/-- a cache hit in any reachable state returns the codec of the requested type -/
theorem reachable_hit_correct (codecOf : Ty → Codec) (cache : Cache Ty Codec) (calls : List (Ty × List Ty))
    (sched : List Nat) (h : Good codecOf cache) (t : Ty) (c : Codec)
    (hl : lookup (run codecOf (initState cache calls) sched).cache t = some c) : c = codecOf t :=
  published_cache_good codecOf cache calls sched h t c hl

/-! ## shape of the thread table -/

theorem step_threads_length (codecOf : Ty → Codec) (s : State Ty Codec) (i : Nat) :
    (step codecOf s i).threads.length = s.threads.length := by
  cases hi : s.threads[i]? with
  | none => rw [step_none codecOf s i hi]
  | some th => rw [step_some codecOf s i th hi]; exact setNth_length _ _ _

/-- `step i` only changes thread `i` -/
theorem step_other (codecOf : Ty → Codec) (s : State Ty Codec) (i j : Nat) (h : i ≠ j) :
    (step codecOf s i).threads[j]? = s.threads[j]? := by
  cases hi : s.threads[i]? with
  | none => rw [step_none codecOf s i hi]
  | some th => rw [step_some codecOf s i th hi]; exact setNth_getElem?_ne _ _ _ _ h

/-- the stepped thread is replaced by its `stepThread` successor -/
theorem step_self (codecOf : Ty → Codec) (s : State Ty Codec) (i : Nat) (th : Thread Ty Codec)
    (h : s.threads[i]? = some th) :
    (step codecOf s i).threads[i]? = some (stepThread codecOf s.cache th).2 := by
  rw [step_some codecOf s i th h]
  exact setNth_getElem?_self _ _ _ _ h

theorem step_ty (codecOf : Ty → Codec) (s : State Ty Codec) (i j : Nat) :
    ((step codecOf s i).threads[j]?).map (·.ty) = (s.threads[j]?).map (·.ty) := by
  by_cases hij : i = j
  · subst hij
    cases hi : s.threads[i]? with
    | none => rw [step_none codecOf s i hi, hi]
    | some th =>
      rw [step_self codecOf s i th hi]
      simp [stepThread_ty]
  · rw [step_other codecOf s i j hij]

theorem step_extra (codecOf : Ty → Codec) (s : State Ty Codec) (i j : Nat) :
    ((step codecOf s i).threads[j]?).map (·.extra) = (s.threads[j]?).map (·.extra) := by
  by_cases hij : i = j
  · subst hij
    cases hi : s.threads[i]? with
    | none => rw [step_none codecOf s i hi, hi]
    | some th =>
      rw [step_self codecOf s i th hi]
      simp [stepThread_extra]
  · rw [step_other codecOf s i j hij]

theorem run_threads_length (codecOf : Ty → Codec) (s : State Ty Codec) (sched : List Nat) :
    (run codecOf s sched).threads.length = s.threads.length := by
  induction sched generalizing s with
  | nil => rfl
  | cons i r ih =>
    show (run codecOf (step codecOf s i) r).threads.length = _
    rw [ih, step_threads_length]

theorem run_ty (codecOf : Ty → Codec) (s : State Ty Codec) (sched : List Nat) (j : Nat) :
    ((run codecOf s sched).threads[j]?).map (·.ty) = (s.threads[j]?).map (·.ty) := by
  induction sched generalizing s with
  | nil => rfl
  | cons i r ih =>
    show ((run codecOf (step codecOf s i) r).threads[j]?).map (·.ty) = _
    rw [ih, step_ty]

/-! ## progress: three steps of its own finish a call, whatever the others do in between -/

theorem step_idle (codecOf : Ty → Codec) (s : State Ty Codec) (i : Nat) (th : Thread Ty Codec)
    (h : s.threads[i]? = some th) (hpc : th.pc = .idle) :
    (step codecOf s i).threads[i]? = some { th with pc := .loaded s.cache } ∧ (step codecOf s i).cache = s.cache := by
  obtain ⟨ty, extra, pc⟩ := th
  simp only at hpc
  subst hpc
  refine ⟨?_, ?_⟩
  · rw [step_self codecOf s i _ h]; rfl
  · rw [step_some codecOf s i _ h]; rfl

/-- a loaded thread hits (and is done with the snapshot's codec) or misses (and has built its own codec); it never
touches the published cache -/
theorem step_loaded (codecOf : Ty → Codec) (s : State Ty Codec) (i : Nat) (th : Thread Ty Codec)
    (snap : Cache Ty Codec) (h : s.threads[i]? = some th) (hpc : th.pc = .loaded snap) :
    ((∃ c, lookup snap th.ty = some c ∧ (step codecOf s i).threads[i]? = some { th with pc := .done c }) ∨
     (lookup snap th.ty = none ∧
        (step codecOf s i).threads[i]? = some { th with pc := .built snap (codecOf th.ty) })) ∧
    (step codecOf s i).cache = s.cache := by
  obtain ⟨ty, extra, pc⟩ := th
  simp only at hpc
  subst hpc
  rw [step_self codecOf s i _ h, step_some codecOf s i _ h]
  simp only [stepThread]
  cases hl : lookup snap ty with
  | some c => exact ⟨Or.inl ⟨c, rfl, rfl⟩, rfl⟩
  | none => exact ⟨Or.inr ⟨rfl, rfl⟩, rfl⟩

/-- a built thread publishes `entries ++ snap` (wholesale, whatever the cache held) and is done with its codec -/
theorem step_built (codecOf : Ty → Codec) (s : State Ty Codec) (i : Nat) (th : Thread Ty Codec)
    (snap : Cache Ty Codec) (c : Codec) (h : s.threads[i]? = some th) (hpc : th.pc = .built snap c) :
    (step codecOf s i).threads[i]? = some { th with pc := .done c } ∧
    (step codecOf s i).cache = entries codecOf th ++ snap := by
  obtain ⟨ty, extra, pc⟩ := th
  simp only at hpc
  subst hpc
  refine ⟨?_, ?_⟩
  · rw [step_self codecOf s i _ h]; rfl
  · rw [step_some codecOf s i _ h]; rfl

/-- a finished call is never disturbed again -/
theorem step_done (codecOf : Ty → Codec) (s : State Ty Codec) (i j : Nat) (th : Thread Ty Codec) (c : Codec)
    (h : s.threads[j]? = some th) (hpc : th.pc = .done c) :
    (step codecOf s i).threads[j]? = some th := by
  by_cases hij : i = j
  · subst hij
    obtain ⟨ty, extra, pc⟩ := th
    simp only at hpc
    subst hpc
    rw [step_self codecOf s i _ h]; rfl
  · rw [step_other codecOf s i j hij, h]

/-- after its own Store the thread's type is in the published cache (until someone else's Store loses it) -/
theorem step_built_publishes (codecOf : Ty → Codec) (s : State Ty Codec) (i : Nat) (th : Thread Ty Codec)
    (snap : Cache Ty Codec) (c : Codec) (h : s.threads[i]? = some th) (hpc : th.pc = .built snap c) :
    lookup (step codecOf s i).cache th.ty = some (codecOf th.ty) := by
  rw [(step_built codecOf s i th snap c h hpc).2]
  exact lookup_append_some _ _ _ _ (lookup_entries_self codecOf th)

/-! ## concrete interleavings (Ty = Nat, Codec = Nat, codecOf = id) -/

section Examples

private def two : State Nat Nat := initState [] [(0, []), (1, [])]

private def donePCs (s : State Nat Nat) : List (Option Nat) :=
  s.threads.map fun th => match th.pc with
    | .done c => some c
    | _ => none

/-- the lost update: thread 0 loads the empty cache and builds, thread 1 runs to completion and publishes `[(1,1)]`,
then thread 0's late Store of `[(0,0)]` overwrites it. Both calls still used their own codec. -/
example :
    let s := run (fun t : Nat => t) two [0, 0, 1, 1, 1, 0]
    lookup s.cache 1 = none ∧ lookup s.cache 0 = some 0 ∧ donePCs s = [some 0, some 1] := by
  decide

/-- sequential execution: both entries are present -/
example :
    let s := run (fun t : Nat => t) two [0, 0, 0, 1, 1, 1]
    lookup s.cache 0 = some 0 ∧ lookup s.cache 1 = some 1 ∧ donePCs s = [some 0, some 1] := by
  decide

/-- in the lost-update run the cache after thread 1's Store did contain type 1 -/
example : lookup (run (fun t : Nat => t) two [0, 0, 1, 1, 1]).cache 1 = some 1 := by
  decide

end Examples

end Enc.Lemmas.ConcCow
